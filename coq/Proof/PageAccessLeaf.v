(* C23 proofs, part 2: leaf-page accessors on arbitrary page bytes.
   For every page accepted by LeafNode::from_page (which since c8c46cc checks the slot geometry) and every
   index, slot_at / key_at / value_len_at / value_at return a value or an error, and returned slices lie
   inside the page.  The case lemmas are stated for any 16 KiB byte string: there the accessors take their
   Panic branch exactly when the slot announced by the stored cell_count lies beyond the page (leaf_slot_oob,
   the class of the former finding F-C23-1) - from_page excludes that. *)
From Coq Require Import ZArith List Bool Lia ZifyBool.
From TV Require Import Lib.MachInt Lib.MachIntFacts Gen.PageConsts Gen.LeafLayout Gen.Varint
  Model.StoredBytes Model.PageAccess Proof.StoredBytes.
From TV Require Proof.Varint.
Import ListNotations.
Open Scope Z_scope.
Ltac Zify.zify_post_hook ::= Z.to_euclidean_division_equations.
Arguments Z.div : simpl never.
Arguments Z.modulo : simpl never.
Arguments Z.mul : simpl never.
Arguments Z.add : simpl never.
Arguments Z.sub : simpl never.
Arguments Z.pow : simpl never.
Arguments Z.of_nat : simpl never.
Arguments Z.to_nat : simpl never.

(* ------------------------------------------------------------------ from_page *)
Lemma node_from_page_total_l : forall want d, value_or_error (node_from_page want d).
Proof.
  intros want d. unfold node_from_page.
  repeat match goal with |- context [if ?c then _ else _] => destruct c end; exact I.
Qed.
Lemma node_from_page_len want d u : node_from_page want d = Ok u -> blen d = PAGE_SIZE.
Proof.
  unfold node_from_page. destruct (Z.eqb_spec (blen d) PAGE_SIZE) as [E|E]; [auto | discriminate].
Qed.

Lemma btree_from_page_total_l : forall want cs ss d, value_or_error (btree_from_page want cs ss d).
Proof.
  intros want cs ss d. unfold btree_from_page. pose proof (node_from_page_total_l want d) as H.
  destruct (node_from_page want d); cbn [bind]; try contradiction; try exact I.
  destruct (slot_geometry_ok d cs ss); exact I.
Qed.
Lemma btree_from_page_inv want cs ss d u : btree_from_page want cs ss d = Ok u ->
  blen d = PAGE_SIZE /\ slot_geometry_ok d cs ss = true.
Proof.
  unfold btree_from_page. destruct (node_from_page want d) as [x| | |] eqn:E; cbn [bind]; try discriminate.
  destruct (slot_geometry_ok d cs ss) eqn:G; [|discriminate]. intros _.
  split; [exact (node_from_page_len want d x E) | reflexivity].
Qed.

Lemma leaf_off i : leaf_slot_offset i = 24 + 8 * i.
Proof. cbv [leaf_slot_offset LEAF_CONTENT_START PAGE_HEADER_SIZE LEAF_HEADER_SIZE SLOT_SIZE]. lia. Qed.
Lemma leaf_off_safe i : 0 <= i < 65536 -> leaf_slot_offset_safe i = true.
Proof.
  intros H. cbv [leaf_slot_offset_safe LEAF_CONTENT_START PAGE_HEADER_SIZE LEAF_HEADER_SIZE SLOT_SIZE in_u].
  change (2 ^ 64) with 18446744073709551616. lia.
Qed.

(* ------------------------------------------------------------------ slot_at *)
(* the three ways slot_at can end *)
Lemma leaf_slot_at_cases d i : blen d = PAGE_SIZE -> bytes_ok d = true -> 0 <= i ->
  (leaf_slot_oob d i = true /\ leaf_slot_at d i = Panic) \/
  (leaf_slot_oob d i = false /\ le d 2 2 <= i /\ leaf_slot_at d i = Err) \/
  (leaf_slot_oob d i = false /\ i < le d 2 2 /\ 24 + 8 * i + 8 <= PAGE_SIZE /\
   exists p co kl, leaf_slot_at d i = Ok (p, co, kl) /\ 0 <= co < 65536 /\ 0 <= kl < 65536).
Proof.
  intros Hl Hb Hi. unfold leaf_slot_oob, leaf_slot_at.
  assert (G : PH_SIZE <= blen d) by (rewrite Hl; unfold PH_SIZE, PAGE_SIZE; lia).
  rewrite (cell_count_ok d G). cbn [bind].
  pose proof (cell_count_range d Hb G) as Hc. set (cc := le d 2 2) in *.
  destruct (Z.ltb_spec i cc) as [L|Ge]; cbn [andb].
  2:{ right. left. auto. }
  rewrite leaf_off_safe by lia. rewrite leaf_off.
  unfold SLOT_SIZE, PAGE_SIZE in *.
  destruct (Z.ltb_spec 16384 (24 + 8 * i + 8)) as [O|I].
  - left. split; [reflexivity|]. rewrite sub_bad by (apply bslice_ok_false; lia). reflexivity.
  - right. right. split; [reflexivity|]. split; [exact L|]. split; [exact I|].
    rewrite sub_ok by (apply bslice_ok_true; lia). cbn [bind].
    set (s := bslice d (24 + 8 * i) (24 + 8 * i + 8)).
    assert (Hs : bytes_ok s = true) by (apply bytes_ok_bslice; exact Hb).
    assert (Hsl : blen s = 8) by (unfold s; rewrite blen_bslice by (apply bslice_ok_true; lia); lia).
    eexists _, _, _. split; [reflexivity|].
    pose proof (le_bound s 4 2 Hs) as H1. pose proof (le_bound s 6 2 Hs) as H2.
    change (256 ^ 2) with 65536 in *. split; [apply H1 | apply H2]; lia.
Qed.

Lemma leaf_slot_at_panic_iff_l : forall d i, blen d = PAGE_SIZE -> bytes_ok d = true -> 0 <= i ->
  (leaf_slot_at d i = Panic <-> leaf_slot_oob d i = true).
Proof.
  intros d i Hp Hb Hi.
  destruct (leaf_slot_at_cases d i Hp Hb Hi) as [(O & R)|[(O & _ & R)|(O & _ & _ & p & co & kl & R & _)]];
    rewrite O, R; split; congruence.
Qed.

(* ------------------------------------------------------------------ key_at *)
Lemma leaf_key_at_cases d i : blen d = PAGE_SIZE -> bytes_ok d = true -> 0 <= i ->
  (leaf_slot_oob d i = true /\ leaf_key_at d i = Panic) \/
  (leaf_slot_oob d i = false /\
   (leaf_key_at d i = Err \/
    exists co kl, 0 <= co /\ 0 <= kl /\ co + kl <= PAGE_SIZE /\ leaf_key_at d i = Ok (bslice d co (co + kl)))).
Proof.
  intros Hl Hb Hi. unfold leaf_key_at.
  destruct (leaf_slot_at_cases d i Hl Hb Hi) as [(O & R)|[(O & _ & R)|(O & _ & _ & p & co & kl & R & Hco & Hkl)]];
    rewrite R; cbn [bind].
  - left. auto.
  - right. auto.
  - right. split; [exact O|].
    destruct (Z.leb_spec (co + kl) PAGE_SIZE) as [L|G]; [|left; reflexivity].
    right. exists co, kl. rewrite sub_ok by (apply bslice_ok_true; lia). repeat split; lia.
Qed.

Lemma leaf_key_at_panic_iff_l : forall d i, blen d = PAGE_SIZE -> bytes_ok d = true -> 0 <= i ->
  (leaf_key_at d i = Panic <-> leaf_slot_oob d i = true).
Proof.
  intros d i Hp Hb Hi.
  destruct (leaf_key_at_cases d i Hp Hb Hi) as [(O & R)|(O & [R|(co & kl & _ & _ & _ & R)])];
    rewrite O, R; split; congruence.
Qed.

(* ------------------------------------------------------------------ the value-length varint *)
Lemma varint_at_cases d vs : bytes_ok d = true -> 0 <= vs <= blen d ->
  varint_at d vs = Err \/
  exists vlen n, varint_at d vs = Ok (vlen, n) /\ 1 <= n <= blen d - vs /\ 0 <= vlen < 2 ^ 64.
Proof.
  intros Hb Hv. unfold varint_at, from.
  destruct (Z.leb_spec 0 vs); [|lia]. destruct (Z.leb_spec vs (blen d)); [|lia]. cbn [andb bind].
  set (t := skipn (Z.to_nat vs) d).
  assert (Ht : bytes_ok t = true) by (apply bytes_ok_skipn; exact Hb).
  assert (Hlen : blen t = blen d - vs) by (unfold t, blen; rewrite skipn_length; unfold blen in *; lia).
  rewrite (Proof.Varint.varint_decode_no_panic_l t Ht).
  destruct (decode_varint t) as [[vlen n]|] eqn:E; [|left; reflexivity].
  right. exists vlen, n. split; [reflexivity|].
  pose proof (Proof.Varint.varint_decode_bounds_l t vlen n Ht E). lia.
Qed.

(* ------------------------------------------------------------------ value_len_at *)
Lemma leaf_value_len_at_panic_iff_l : forall d i, blen d = PAGE_SIZE -> bytes_ok d = true -> 0 <= i ->
  (leaf_value_len_at d i = Panic <-> leaf_slot_oob d i = true).
Proof.
  intros d i Hp Hb Hi. unfold leaf_value_len_at.
  destruct (leaf_slot_at_cases d i Hp Hb Hi) as [(O & R)|[(O & _ & R)|(O & _ & _ & p & co & kl & R & Hco & Hkl)]];
    rewrite O, R; cbn [bind]; try (split; congruence).
  destruct (Z.ltb_spec (co + kl) PAGE_SIZE) as [L|G]; [|split; congruence].
  destruct (varint_at_cases d (co + kl) Hb) as [E|(vlen & n & E & _)]; [lia | |]; rewrite E; cbn [bind];
    split; congruence.
Qed.

(* ------------------------------------------------------------------ value_at *)
Lemma leaf_value_at_cases d i : blen d = PAGE_SIZE -> bytes_ok d = true -> 0 <= i ->
  (leaf_slot_oob d i = true /\ leaf_value_at d i = Panic) \/
  (leaf_slot_oob d i = false /\
   (leaf_value_at d i = Err \/
    exists lo len, 0 <= lo /\ 0 <= len /\ lo + len <= PAGE_SIZE /\ leaf_value_at d i = Ok (bslice d lo (lo + len)))).
Proof.
  intros Hl Hb Hi. unfold leaf_value_at.
  destruct (leaf_slot_at_cases d i Hl Hb Hi) as [(O & R)|[(O & _ & R)|(O & _ & _ & p & co & kl & R & Hco & Hkl)]];
    rewrite R; cbn [bind].
  - left. auto.
  - right. auto.
  - right. split; [exact O|].
    destruct (Z.ltb_spec (co + kl) PAGE_SIZE) as [L|G]; [|left; reflexivity].
    destruct (varint_at_cases d (co + kl) Hb) as [E|(vlen & n & E & Hn & Hv)]; [lia | |]; rewrite E; cbn [bind].
    + left. reflexivity.
    + destruct (Z.ltb_spec PAGE_SIZE (co + kl + n)) as [C|_]; [lia|].
      destruct (Z.leb_spec vlen (PAGE_SIZE - (co + kl + n))) as [L2|G2]; [|left; reflexivity].
      right. exists (co + kl + n), vlen. rewrite sub_ok by (apply bslice_ok_true; lia). repeat split; lia.
Qed.

Lemma leaf_value_at_panic_iff_l : forall d i, blen d = PAGE_SIZE -> bytes_ok d = true -> 0 <= i ->
  (leaf_value_at d i = Panic <-> leaf_slot_oob d i = true).
Proof.
  intros d i Hp Hb Hi.
  destruct (leaf_value_at_cases d i Hp Hb Hi) as [(O & R)|(O & [R|(lo & len & _ & _ & _ & R)])];
    rewrite O, R; split; congruence.
Qed.

Lemma leaf_accessors_panic_iff_unchecked_l : forall d i, blen d = PAGE_SIZE -> bytes_ok d = true -> 0 <= i ->
  (leaf_slot_at d i = Panic <-> leaf_slot_oob d i = true) /\ (leaf_key_at d i = Panic <-> leaf_slot_oob d i = true) /\
  (leaf_value_len_at d i = Panic <-> leaf_slot_oob d i = true) /\ (leaf_value_at d i = Panic <-> leaf_slot_oob d i = true).
Proof.
  intros d i H1 H2 H3.
  split; [apply (leaf_slot_at_panic_iff_l d i H1 H2 H3)|].
  split; [apply (leaf_key_at_panic_iff_l d i H1 H2 H3)|].
  split; [apply (leaf_value_len_at_panic_iff_l d i H1 H2 H3) | apply (leaf_value_at_panic_iff_l d i H1 H2 H3)].
Qed.

(* ------------------------------------------------------------------ results are slices of the page *)
Lemma leaf_results_inside_l : forall d i, blen d = PAGE_SIZE -> bytes_ok d = true -> 0 <= i ->
  (forall k, leaf_key_at d i = Ok k ->
     exists lo len, 0 <= lo /\ 0 <= len /\ lo + len <= PAGE_SIZE /\ k = bslice d lo (lo + len)) /\
  (forall v, leaf_value_at d i = Ok v ->
     exists lo len, 0 <= lo /\ 0 <= len /\ lo + len <= PAGE_SIZE /\ v = bslice d lo (lo + len)).
Proof.
  intros d i Hl Hb Hi. split.
  - intros k Hk.
    destruct (leaf_key_at_cases d i Hl Hb Hi) as [(_ & R)|(_ & [R|(co & kl & H1 & H2 & H3 & R)])];
      rewrite R in Hk; try discriminate.
    inversion Hk. subst. exists co, kl. auto.
  - intros v Hv.
    destruct (leaf_value_at_cases d i Hl Hb Hi)
      as [(_ & R)|(_ & [R|(lo & len & H1 & H2 & H3 & R)])]; rewrite R in Hv; try discriminate.
    inversion Hv. subst. exists lo, len. auto.
Qed.

(* ------------------------------------------------------------------ the property, for pages from_page accepts *)
(* check_slot_geometry: slots_end <= free_start <= free_end <= PAGE_SIZE puts every announced slot inside the page *)
Lemma leaf_from_page_no_oob d i : leaf_from_page d = Ok tt -> 0 <= i -> leaf_slot_oob d i = false.
Proof.
  intros Hp Hi. apply btree_from_page_inv in Hp. destruct Hp as (Hl & G).
  assert (G16 : PH_SIZE <= blen d) by (rewrite Hl; unfold PH_SIZE, PAGE_SIZE; lia).
  unfold leaf_slot_oob. rewrite (cell_count_ok d G16). rewrite leaf_off.
  unfold slot_geometry_ok in G. cbv [LEAF_CONTENT_START PAGE_HEADER_SIZE LEAF_HEADER_SIZE SLOT_SIZE PAGE_SIZE] in *.
  destruct (Z.ltb_spec i (le d 2 2)); cbn [andb]; [|reflexivity]. lia.
Qed.

Lemma leaf_accessors_total_l : forall d i, leaf_from_page d = Ok tt -> bytes_ok d = true -> 0 <= i ->
  value_or_error (leaf_slot_at d i) /\ value_or_error (leaf_key_at d i) /\
  value_or_error (leaf_value_len_at d i) /\ value_or_error (leaf_value_at d i).
Proof.
  intros d i Hp Hb Hi. pose proof (leaf_from_page_no_oob d i Hp Hi) as O.
  apply btree_from_page_inv in Hp. destruct Hp as (Hp & _).
  repeat split.
  - destruct (leaf_slot_at_cases d i Hp Hb Hi) as [(O' & _)|[(_ & _ & R)|(_ & _ & _ & p & co & kl & R & _)]];
      [congruence | |]; rewrite R; exact I.
  - destruct (leaf_key_at_cases d i Hp Hb Hi) as [(O' & _)|(_ & [R|(co & kl & _ & _ & _ & R)])]; [congruence | |];
      rewrite R; exact I.
  - unfold leaf_value_len_at in *.
    destruct (leaf_slot_at_cases d i Hp Hb Hi) as [(O' & _)|[(_ & _ & R)|(_ & _ & _ & p & co & kl & R & Hco & Hkl)]];
      [congruence | rewrite R; exact I |]. rewrite R. cbn [bind].
    destruct (Z.ltb_spec (co + kl) PAGE_SIZE) as [L|G]; [|exact I].
    destruct (varint_at_cases d (co + kl) Hb) as [E|(vlen & n & E & _)]; [lia | |]; rewrite E; exact I.
  - destruct (leaf_value_at_cases d i Hp Hb Hi) as [(O' & _)|(_ & [R|(lo & len & _ & _ & _ & R)])];
      [congruence | |]; rewrite R; exact I.
Qed.

(* ------------------------------------------------------------------ the former witnesses *)
(* F-C23-1: zeros with type byte 2 and cell_count 2046 - slot 2045 would start at byte 16384.
   F-C23-2: one cell, key "\1\2\3\4" at 16000 followed by the varint 0xFF FF*8 = u64::MAX (header geometry valid). *)
Definition leaf_witness_oob : list Z := image 16384 0 [(0, [2; 0; 254; 7])].
Definition leaf_witness_ovf : list Z :=
  image 16384 0 [(0, [2; 0; 1; 0; 32; 0; 128; 62]); (24, [1; 2; 3; 4; 128; 62; 4; 0]);
                 (16000, [1; 2; 3; 4; 255; 255; 255; 255; 255; 255; 255; 255; 255])].

(* the slot accessors would still panic on the first page - it is from_page that now turns it away;
   the second page is accepted and its hostile value length is now an error *)
Lemma leaf_former_witnesses_l :
  bytes_ok leaf_witness_oob = true /\ leaf_slot_at leaf_witness_oob 2045 = Panic /\
  leaf_from_page leaf_witness_oob = Err /\
  leaf_from_page leaf_witness_ovf = Ok tt /\ bytes_ok leaf_witness_ovf = true /\
  leaf_key_at leaf_witness_ovf 0 = Ok [1; 2; 3; 4] /\
  leaf_value_len_at leaf_witness_ovf 0 = Ok 18446744073709551615 /\ leaf_value_at leaf_witness_ovf 0 = Err.
Proof. vm_compute. repeat split. Qed.
