//! C25 HNSW: drives turdb::hnsw::PersistentHnswIndex (create / insert_with_callback / insert /
//! delete_by_row_id / vacuum_batch / sync + open / search) on generated histories over
//! integer-valued vectors (so every f32 distance is exact) and prints what it observed as Coq terms
//! for coq/Corr/C25.v.  Level assignment is controlled through the `random_value` argument
//! (r = m^-(L+1/2) gives level L) and read back from the stored node.
//! Second case family: SQ8Vector::from_f32 / decode on dyadic inputs, reported as exact rationals.
use std::collections::HashMap;
use std::panic::AssertUnwindSafe;
use std::sync::atomic::{AtomicU64, Ordering};
use turdb::hnsw::quantization::SQ8Vector;
use turdb::hnsw::search::HnswSearchContext;
use turdb::hnsw::{DistanceFunction, PersistentHnswIndex, QuantizationType};
use tvh::*;

#[derive(Clone, Debug)]
enum Op {
    Ins { row: u64, v: Vec<i32>, lvl: u8, blind: bool },
    Del(u64),
    Vac(usize),
    Reopen,
    Search { q: Vec<i32>, k: usize, ef: usize },
}

#[derive(Clone, Debug)]
enum Obs {
    Ins(bool),
    Del(bool),
    Vac(usize),
    Reopen(bool),
    Search(Option<Vec<(u64, Option<i64>)>>),
    Panic,
}

#[derive(Clone, Debug)]
struct Hist { dims: usize, m: u16, efc: u16, ops: Vec<Op> }

static FILE_NO: AtomicU64 = AtomicU64::new(0);

fn tmp_path() -> std::path::PathBuf {
    let n = FILE_NO.fetch_add(1, Ordering::SeqCst);
    std::env::temp_dir().join(format!("tvh-c25-{}-{}.hnsw", std::process::id(), n))
}

fn level_random(m: u16, lvl: u8) -> f64 {
    // select_level(r, 1/ln m) = floor(-ln r / ln m); r = m^-(lvl + 1/2) lands in the middle of the bucket
    (-(lvl as f64 + 0.5) * (m as f64).ln()).exp()
}

fn fvec(v: &[i32]) -> Vec<f32> { v.iter().map(|x| *x as f32).collect() }

fn dist_obs(d: f32) -> Option<i64> {
    if d.is_infinite() && d > 0.0 { None }
    else if d.is_finite() && d.fract() == 0.0 && d.abs() < 1.0e9 { Some(d as i64) }
    else { Some(-1) } // NaN / non-integral: never produced by the model, so it shows up as a disagreement
}

/// Runs one history on the real index; returns one observation per op (level mismatches are fatal:
/// the level is an input of the model).
fn run_history_with(h: &Hist, sink: &mut dyn FnMut(&Obs)) {
    if std::env::var("C25_TRACE").is_ok() { eprintln!("TRACE {}", hist_line(h)); }
    let path = tmp_path();
    let _ = std::fs::remove_file(&path);
    let mut out = Sink(sink);
    let created = catch(AssertUnwindSafe(|| {
        PersistentHnswIndex::create(&path, 1, 1, h.dims as u16, h.m, h.efc, 32, DistanceFunction::L2, QuantizationType::None)
    }));
    let mut idx = match created {
        Caught::Done(Ok(i)) => Some(i),
        _ => None,
    };
    let mut table: HashMap<u64, Vec<f32>> = HashMap::new();
    for op in &h.ops {
        let Some(ix) = idx.as_mut() else { out.push(Obs::Panic); continue; };
        match op {
            Op::Ins { row, v, lvl, blind } => {
                let fv = fvec(v);
                let r = level_random(h.m, *lvl);
                let res = catch(AssertUnwindSafe(|| {
                    if *blind { ix.insert(*row, &fv, r) }
                    else { ix.insert_with_callback(*row, &fv, r, |rid| table.get(&rid).cloned()) }
                }));
                match res {
                    Caught::Done(res) => {
                        let nid = match &res { Ok(n) => Some(*n), Err(_) => if fv.len() == h.dims { ix.find_node_by_row_id(*row) } else { None } };
                        if let Some(n) = nid {
                            if let Ok(node) = ix.read_node(n) {
                                if node.max_level() != *lvl && node.row_id() == *row {
                                    eprintln!("c25: level control failed: wanted {} got {} (m={})", lvl, node.max_level(), h.m);
                                    std::process::exit(3);
                                }
                            }
                        }
                        if res.is_ok() { table.insert(*row, fv); }
                        out.push(Obs::Ins(res.is_ok()));
                    }
                    Caught::Panicked(_) => out.push(Obs::Panic),
                }
            }
            Op::Del(row) => {
                let res = catch(AssertUnwindSafe(|| ix.delete_by_row_id(*row)));
                table.remove(row);
                match res { Caught::Done(r) => out.push(Obs::Del(r.is_ok())), Caught::Panicked(_) => out.push(Obs::Panic) }
            }
            Op::Vac(n) => {
                match catch(AssertUnwindSafe(|| ix.vacuum_batch(*n))) {
                    Caught::Done(Ok(c)) => out.push(Obs::Vac(c)),
                    Caught::Done(Err(_)) => out.push(Obs::Vac(usize::MAX)),
                    Caught::Panicked(_) => out.push(Obs::Panic),
                }
            }
            Op::Reopen => {
                let synced = catch(AssertUnwindSafe(|| ix.sync()));
                let ok1 = matches!(synced, Caught::Done(Ok(())));
                idx = None; // drop (unmaps) before reopening
                match catch(AssertUnwindSafe(|| PersistentHnswIndex::open(&path))) {
                    Caught::Done(Ok(i)) => { idx = Some(i); out.push(Obs::Reopen(ok1)); }
                    Caught::Done(Err(_)) => out.push(Obs::Reopen(false)),
                    Caught::Panicked(_) => out.push(Obs::Panic),
                }
            }
            Op::Search { q, k, ef } => {
                let fq = fvec(q);
                let res = catch(AssertUnwindSafe(|| {
                    let mut ctx = HnswSearchContext::new(*ef, 64);
                    ix.search(&fq, *k, &mut ctx, |rid| table.get(&rid).cloned())
                }));
                match res {
                    Caught::Done(Ok(rs)) => out.push(Obs::Search(Some(rs.iter().map(|r| (r.row_id, dist_obs(r.distance))).collect()))),
                    Caught::Done(Err(_)) => out.push(Obs::Search(None)),
                    Caught::Panicked(_) => out.push(Obs::Panic),
                }
            }
        }
    }
    drop(idx);
    let _ = std::fs::remove_file(&path);
}

struct Sink<'a>(&'a mut dyn FnMut(&Obs));
impl<'a> Sink<'a> { fn push(&mut self, o: Obs) { (self.0)(&o) } }


// ------------------------------------------------------------------ running a history
/// Bytes a node of this level takes in its page (HnswNode::max_serialized_size).
fn node_bytes(lvl: u8) -> usize { 8 + 1 + 1 + 32 * 6 + (lvl as usize) * (1 + 16 * 6) }

/// Page bytes the history allocates (64-byte page header once, 4-byte slot entry + slot per node);
/// a node page holds 16384 bytes, so beyond that the index spans several pages.
fn alloc_bytes(h: &Hist) -> usize {
    64 + h.ops.iter().map(|o| match o { Op::Ins { v, lvl, .. } if v.len() == h.dims => node_bytes(*lvl) + 4, _ => 0 }).sum::<usize>()
}

fn obs_wire(o: &Obs) -> String {
    match o {
        Obs::Ins(b) => format!("I{}", *b as u8),
        Obs::Del(b) => format!("D{}", *b as u8),
        Obs::Vac(n) => format!("V{}", n),
        Obs::Reopen(b) => format!("R{}", *b as u8),
        Obs::Search(None) => "SE".to_string(),
        Obs::Search(Some(rs)) => format!("S{}", rs.iter().map(|(r, d)| match d { Some(d) => format!("{}:{}", r, d), None => format!("{}:inf", r) }).collect::<Vec<_>>().join(",")),
        Obs::Panic => "P".to_string(),
    }
}

fn run_history(h: &Hist) -> (Hist, Vec<Obs>) {
    let mut obs = vec![];
    run_history_with(h, &mut |o: &Obs| obs.push(o.clone()));
    (h.clone(), obs)
}

// ------------------------------------------------------------------ printing
fn zi(v: i64) -> String { if v < 0 { format!("({})", v) } else { format!("{}", v) } }
fn zlist(v: &[i32]) -> String {
    let mut s = String::from("[");
    for (i, x) in v.iter().enumerate() { if i > 0 { s.push(';'); } s.push_str(&zi(*x as i64)); }
    s.push(']');
    s
}
fn csv(v: &[i32]) -> String { v.iter().map(|x| x.to_string()).collect::<Vec<_>>().join(",") }

fn op_term(op: &Op, ob: &Obs) -> String {
    let o = match op {
        Op::Ins { row, v, lvl, blind } => format!("Ins {} {} {} {}", row, zlist(v), lvl, cbool(*blind)),
        Op::Del(r) => format!("Del {}", r),
        Op::Vac(n) => format!("Vac {}", n),
        Op::Reopen => "Reopen".to_string(),
        Op::Search { q, k, ef } => format!("Search {} {} {}", zlist(q), k, ef),
    };
    let b = match ob {
        Obs::Ins(ok) => format!("OIns {}", cbool(*ok)),
        Obs::Del(ok) => format!("ODel {}", cbool(*ok)),
        Obs::Vac(c) => if *c == usize::MAX { "OVacErr".to_string() } else { format!("OVac {}", c) },
        Obs::Reopen(ok) => format!("OReopen {}", cbool(*ok)),
        Obs::Search(None) => "OSearch SErr".to_string(),
        Obs::Search(Some(rs)) => {
            let items: Vec<String> = rs.iter().map(|(r, d)| match d {
                Some(d) => format!("({},Fin {})", r, zi(*d)),
                None => format!("({},Inf)", r),
            }).collect();
            format!("OSearch (SOk {})", clist(&items))
        }
        Obs::Panic => "OPanic".to_string(),
    };
    format!("({},{})", o, b)
}

fn hist_term(h: &Hist, obs: &[Obs]) -> String {
    let items: Vec<String> = h.ops.iter().zip(obs.iter()).map(|(o, b)| op_term(o, b)).collect();
    format!("Hist {} {} {} {}", h.dims, h.m, h.efc, clist(&items))
}

fn hist_line(h: &Hist) -> String {
    let mut s = format!("hist dims={} m={} efc={} ops=", h.dims, h.m, h.efc);
    for (i, op) in h.ops.iter().enumerate() {
        if i > 0 { s.push(' '); }
        match op {
            Op::Ins { row, v, lvl, blind } => s.push_str(&format!("I{}:{}:{}{}", row, csv(v), lvl, if *blind { "b" } else { "" })),
            Op::Del(r) => s.push_str(&format!("D{}", r)),
            Op::Vac(n) => s.push_str(&format!("V{}", n)),
            Op::Reopen => s.push('R'),
            Op::Search { q, k, ef } => s.push_str(&format!("S{}:{}:{}", csv(q), k, ef)),
        }
    }
    s
}

fn parse_csv(s: &str) -> Vec<i32> {
    if s.is_empty() { vec![] } else { s.split(',').map(|x| x.parse().unwrap_or(0)).collect() }
}

fn parse_hist(l: &str) -> Option<Hist> {
    let r = l.strip_prefix("hist ")?;
    let (head, ops_s) = match r.find("ops=") { Some(i) => (&r[..i], &r[i + 4..]), None => return None };
    let mut dims = 2usize; let mut m = 2u16; let mut efc = 4u16;
    for kv in head.split_whitespace() {
        if let Some(v) = kv.strip_prefix("dims=") { dims = v.parse().ok()?; }
        else if let Some(v) = kv.strip_prefix("m=") { m = v.parse().ok()?; }
        else if let Some(v) = kv.strip_prefix("efc=") { efc = v.parse().ok()?; }
    }
    let mut ops = vec![];
    for t in ops_s.split_whitespace() {
        let (c, rest) = t.split_at(1);
        match c {
            "I" => {
                let parts: Vec<&str> = rest.split(':').collect();
                if parts.len() != 3 { return None; }
                let blind = parts[2].ends_with('b');
                let lv = parts[2].trim_end_matches('b');
                ops.push(Op::Ins { row: parts[0].parse().ok()?, v: parse_csv(parts[1]), lvl: lv.parse().ok()?, blind });
            }
            "D" => ops.push(Op::Del(rest.parse().ok()?)),
            "V" => ops.push(Op::Vac(rest.parse().ok()?)),
            "R" => ops.push(Op::Reopen),
            "S" => {
                let parts: Vec<&str> = rest.split(':').collect();
                if parts.len() != 3 { return None; }
                ops.push(Op::Search { q: parse_csv(parts[0]), k: parts[1].parse().ok()?, ef: parts[2].parse().ok()? });
            }
            _ => return None,
        }
    }
    Some(Hist { dims, m, efc, ops })
}

// ------------------------------------------------------------------ the property's oracle (Rust side, for `search` mode and `nontrivial`)
struct Verdict { ok: bool, why: &'static str, multi_result_searches: usize, ok_inserts: usize, eff_deletes: usize }

fn dist2(a: &[i32], b: &[i32]) -> i64 { a.iter().zip(b.iter()).map(|(x, y)| { let d = (*x - *y) as i64; d * d }).sum() }

fn oracle(h: &Hist, obs: &[Obs]) -> Verdict {
    let mut live: HashMap<u64, Vec<i32>> = HashMap::new();
    let mut allocated = 0usize;
    let mut v = Verdict { ok: true, why: "", multi_result_searches: 0, ok_inserts: 0, eff_deletes: 0 };
    let mut fail = |v: &mut Verdict, why: &'static str| { if v.ok { v.ok = false; v.why = why; } };
    let mut last_search: Option<(Vec<i32>, usize, usize, Vec<(u64, Option<i64>)>)> = None; // search directly before a reopen
    let mut pending_reopen: Option<(Vec<i32>, usize, usize, Vec<(u64, Option<i64>)>)> = None;
    for (op, ob) in h.ops.iter().zip(obs.iter()) {
        if let Obs::Panic = ob { fail(&mut v, "panic"); }
        match (op, ob) {
            (Op::Ins { row, v: vec, .. }, Obs::Ins(ok)) => {
                if live.contains_key(row) { return v; } // caller protocol broken: nothing is claimed afterwards
                if vec.len() == h.dims { allocated += 1; }
                if *ok { live.insert(*row, vec.clone()); v.ok_inserts += 1; }
                last_search = None; pending_reopen = None;
            }
            (Op::Del(row), _) => { if live.remove(row).is_some() { v.eff_deletes += 1; } last_search = None; pending_reopen = None; }
            (Op::Vac(_), _) => { last_search = None; pending_reopen = None; }
            (Op::Reopen, Obs::Reopen(ok)) => { if !*ok { fail(&mut v, "reopen failed"); } pending_reopen = last_search.take(); }
            (Op::Search { q, k, ef }, Obs::Search(res)) => {
                match res {
                    None => { if q.len() == h.dims { fail(&mut v, "search error"); } }
                    Some(rs) => {
                        if rs.len() > *k { fail(&mut v, "more than k"); }
                        if rs.len() >= 2 { v.multi_result_searches += 1; }
                        let mut seen = std::collections::HashSet::new();
                        let mut prev: i64 = -1;
                        for (r, _) in rs {
                            if !seen.insert(*r) { fail(&mut v, "duplicate row id"); }
                            match live.get(r) {
                                None => fail(&mut v, "row id not live"),
                                Some(vec) => { let d = dist2(q, vec); if d < prev { fail(&mut v, "not sorted by true distance"); } prev = d; }
                            }
                        }
                        if !live.is_empty() && *k >= 1 && *ef >= 1 && rs.is_empty() { fail(&mut v, "empty although live vectors exist"); }
                        if allocated <= *ef && *k >= live.len() {
                            for r in live.keys() { if !seen.contains(r) { fail(&mut v, "small index: live vector not found"); } }
                        }
                        if let Some((pq, pk, pef, prs)) = &pending_reopen {
                            if pq == q && pk == k && pef == ef && prs != rs { fail(&mut v, "reopen changed the search result"); }
                        }
                        pending_reopen = None;
                        last_search = Some((q.clone(), *k, *ef, rs.clone()));
                    }
                }
            }
            _ => {}
        }
    }
    v
}

// ------------------------------------------------------------------ generators
fn pick_level(rng: &mut Rng) -> u8 {
    match rng.below(20) { 0..=11 => 0, 12..=15 => 1, 16..=17 => 2, 18 => 3, _ => *rng.pick(&[4u8, 7, 15]) }
}
fn rand_vec(rng: &mut Rng, dims: usize, span: i64) -> Vec<i32> { (0..dims).map(|_| rng.range(-span, span) as i32).collect() }

#[derive(Clone, Copy, PartialEq)]
enum Kind { InsertOnly, WithDelete, EntryDelete, Blind, Malformed, Tiny, Overflow /* many nodes: several pages */ }

fn gen_hist(rng: &mut Rng, kind: Kind, max_ops: usize) -> Hist {
    let dims = 2 + rng.below(3) as usize;
    let m = *rng.pick(&[2u16, 2, 3, 4, 16]);
    let efc = *rng.pick(&[1u16, 2, 3, 4, 8, 100]);
    let span = *rng.pick(&[1i64, 2, 3, 8]);
    let n_ops = if kind == Kind::Tiny { 3 + rng.below(5) as usize }
                else if kind == Kind::Overflow { 40 + rng.below(120) as usize }
                else { 6 + rng.below((max_ops - 5) as u64) as usize };
    let mut ops: Vec<Op> = vec![];
    let mut live: Vec<u64> = vec![];
    let mut dead: Vec<u64> = vec![];
    let mut next_row: u64 = rng.below(3); // row id 0 does occur
    let mut first_row: Option<u64> = None;
    let mut top_row: Option<(u64, u8)> = None; // row of the node that should be the entry point
    let mut last_q: Option<(Vec<i32>, usize, usize)> = None;
    while ops.len() < n_ops {
        let c = rng.below(100);
        let want_insert = live.len() < 2 || c < 45 || (kind == Kind::Overflow && c < 80);
        if want_insert {
            let row = if !dead.is_empty() && rng.chance(1, 4) { let i = rng.below(dead.len() as u64) as usize; dead.swap_remove(i) }
                      else { let r = next_row; next_row += 1 + rng.below(2); r };
            let mut v = rand_vec(rng, dims, span);
            let mut blind = kind == Kind::Blind || (kind == Kind::Malformed && rng.chance(1, 5));
            if kind == Kind::Malformed && rng.chance(1, 6) { if rng.chance(1, 2) { v.pop(); } else { v.push(1); } blind = false; }
            let lvl = if kind == Kind::Overflow && rng.chance(1, 3) { *rng.pick(&[15u8, 15, 12, 9]) } else { pick_level(rng) };
            let good = v.len() == dims;
            ops.push(Op::Ins { row, v, lvl, blind });
            if good {
                live.push(row);
                if first_row.is_none() { first_row = Some(row); }
                match top_row { Some((_, l)) if l >= lvl => {}, _ => top_row = Some((row, lvl)) }
            }
            continue;
        }
        let deletes = matches!(kind, Kind::WithDelete | Kind::EntryDelete | Kind::Malformed | Kind::Tiny);
        if deletes && c < 60 {
            let row = if kind == Kind::EntryDelete && rng.chance(1, 2) { top_row.map(|t| t.0).unwrap_or(0) }
                      else if kind == Kind::Malformed && rng.chance(1, 4) { next_row + 5 }
                      else { live[rng.below(live.len() as u64) as usize] };
            if let Some(i) = live.iter().position(|r| *r == row) { live.swap_remove(i); dead.push(row); }
            ops.push(Op::Del(row));
        } else if c < 66 {
            ops.push(Op::Vac(*rng.pick(&[0usize, 1, 2, 1000])));
        } else if c < 74 {
            ops.push(Op::Reopen);
            if let Some((q, k, ef)) = last_q.clone() { if rng.chance(2, 3) { ops.push(Op::Search { q, k, ef }); } }
        } else {
            let mut q = rand_vec(rng, dims, span + 1);
            if kind == Kind::Malformed && rng.chance(1, 8) { q.pop(); }
            let k = *rng.pick(&[1usize, 1, 2, 3, 5, 10, 100]);
            let k = if kind == Kind::Malformed && rng.chance(1, 8) { 0 } else { k };
            let ef = *rng.pick(&[1usize, 2, 3, 5, 8, 32, 64]);
            let ef = if kind == Kind::Malformed && rng.chance(1, 10) { 0 } else { ef };
            last_q = Some((q.clone(), k, ef));
            ops.push(Op::Search { q, k, ef });
        }
    }
    // always end with a wide search so that the final graph is observed
    let q = rand_vec(rng, dims, span);
    ops.push(Op::Search { q, k: 100, ef: 64 });
    Hist { dims, m, efc, ops }
}

fn fixed_hists() -> Vec<Hist> {
    let lines = [
        "hist dims=2 m=2 efc=4 ops=S0,0:1:4",
        "hist dims=2 m=2 efc=4 ops=I1:0,0:0 S0,0:1:4 S5,5:3:1",
        "hist dims=2 m=2 efc=4 ops=I1:0,0:0 I2:3,4:0 S3,3:2:4 R S3,3:2:4",
        "hist dims=2 m=2 efc=4 ops=I1:0,0:0 I2:3,4:0 D2 S0,0:2:4",
        "hist dims=2 m=2 efc=4 ops=I1:0,0:0 I2:3,4:0 D1 V10 S3,4:2:4 I3:1,1:0",
        "hist dims=2 m=2 efc=4 ops=I1:0,0:0 I2:3,4:0 D1 V10 R S3,4:2:4",
        "hist dims=2 m=2 efc=4 ops=I1:0,0:0 I2:3,4:0 D2 I3:1,1:0 S0,0:5:8",
        "hist dims=2 m=2 efc=4 ops=I0:0,0:0 I2:3,4:0 D2 I3:1,1:0 S0,0:5:8",
        "hist dims=2 m=16 efc=100 ops=I1:0,0:0b I2:3,4:1b I3:1,1:0b I4:2,2:2b S0,0:5:8",
        "hist dims=3 m=2 efc=1 ops=I1:0,0,0:2 I2:1,0,0:1 I3:0,1,0:0 I4:0,0,1:3 I5:1,1,1:0 S1,1,0:3:2 S1,1,0:5:32",
        "hist dims=2 m=2 efc=1 ops=I1:2,0:0 I2:4,0:0 I3:6,0:0 D2 S0,0:100:64",
        "hist dims=2 m=16 efc=4 ops=I1:2,-1:0 I2:3,2:0 I3:1,-3:7 I4:3,-2:0 I5:-3,-2:15 I6:-1,0:15 I7:0,1:15 I8:1,-2:15 S2,-2:100:64",
    ];
    lines.iter().filter_map(|l| parse_hist(l)).collect()
}

// ------------------------------------------------------------------ SQ8
/// exact value of a finite f32 as (numerator, exponent): value = num * 2^exp
fn f32_exact(x: f32) -> (i64, i64) {
    if x == 0.0 { return (0, 0); }
    let bits = x.to_bits();
    let sign: i64 = if bits >> 31 == 1 { -1 } else { 1 };
    let e = ((bits >> 23) & 0xff) as i64;
    let frac = (bits & 0x7f_ffff) as i64;
    let (mant, exp) = if e == 0 { (frac, -149) } else { (frac | 0x80_0000, e - 150) };
    let mut mant = mant; let mut exp = exp;
    while mant % 2 == 0 && mant != 0 { mant /= 2; exp += 1; }
    (sign * mant, exp)
}
fn dy(x: f32) -> String { let (n, e) = f32_exact(x); format!("(Dy {} {})", zi(n), zi(e)) }

struct SqCase { num: Vec<i64>, sh: u32 } // values num_i / 2^sh

fn sq_run(c: &SqCase) -> (String, bool) {
    let vals: Vec<f32> = c.num.iter().map(|n| (*n as f32) / ((1u64 << c.sh) as f32)).collect();
    let r = catch(AssertUnwindSafe(|| { let s = SQ8Vector::from_f32(&vals); let d = s.decode(); (s.min(), s.scale(), s.data().to_vec(), d) }));
    let nums: Vec<String> = c.num.iter().map(|n| zi(*n)).collect();
    match r {
        Caught::Done((min, scale, data, dec)) => {
            let finite = min.is_finite() && scale.is_finite() && dec.iter().all(|x| x.is_finite());
            if !finite { return (format!("Sq8 {} {} SqNonFinite", clist(&nums), c.sh), false); }
            let decs: Vec<String> = dec.iter().map(|x| dy(*x)).collect();
            let distinct = c.num.iter().collect::<std::collections::HashSet<_>>().len() >= 2;
            (format!("Sq8 {} {} (SqOk {} {} {} {})", clist(&nums), c.sh, dy(min), dy(scale), cbytes(&data), clist(&decs)), distinct)
        }
        Caught::Panicked(_) => (format!("Sq8 {} {} SqPanic", clist(&nums), c.sh), false),
    }
}
fn sq_line(c: &SqCase) -> String { format!("sq8 sh={} v={}", c.sh, c.num.iter().map(|x| x.to_string()).collect::<Vec<_>>().join(",")) }
fn parse_sq(l: &str) -> Option<SqCase> {
    let r = l.strip_prefix("sq8 sh=")?;
    let mut it = r.split(" v=");
    let sh: u32 = it.next()?.parse().ok()?;
    let vs = it.next().unwrap_or("");
    let num = if vs.is_empty() { vec![] } else { vs.split(',').map(|x| x.parse().unwrap_or(0)).collect() };
    Some(SqCase { num, sh })
}
fn gen_sq(rng: &mut Rng, n: usize) -> Vec<(SqCase, &'static str)> {
    let mut out = vec![];
    out.push((SqCase { num: vec![], sh: 0 }, "sq8_boundary"));
    out.push((SqCase { num: vec![5], sh: 0 }, "sq8_boundary"));
    out.push((SqCase { num: vec![7, 7, 7], sh: 1 }, "sq8_boundary"));
    out.push((SqCase { num: vec![0, 255], sh: 0 }, "sq8_boundary"));
    out.push((SqCase { num: vec![0, 1, 127, 128, 254, 255], sh: 0 }, "sq8_boundary"));
    out.push((SqCase { num: vec![-255, 0, 255], sh: 3 }, "sq8_boundary"));
    for _ in 0..n {
        let len = 1 + rng.below(8) as usize;
        let sh = rng.below(11) as u32;
        match rng.below(3) {
            0 => { // exact regime: range = 255 * 2^j, so scale and every quotient are exact in f32
                let j = rng.below(6) as u32;
                let lo = rng.range(-2000, 2000);
                let mut num: Vec<i64> = (0..len).map(|_| lo + ((rng.below(256) as i64) << j)).collect();
                num.push(lo); num.push(lo + (255i64 << j));
                out.push((SqCase { num, sh }, "sq8_exact"));
            }
            1 => { let span = *rng.pick(&[1i64, 3, 10, 100, 1000, 100000]);
                   out.push((SqCase { num: (0..len + 1).map(|_| rng.range(-span, span)).collect(), sh }, "sq8_random")); }
            _ => { // clustered around the rounding boundaries of the exact regime, then nudged
                let lo = rng.range(-50, 50) * 2;
                let mut num: Vec<i64> = vec![lo * 2, (lo + 255) * 2];
                for _ in 0..len { num.push((lo + rng.below(256) as i64) * 2 + rng.range(-1, 1)); }
                out.push((SqCase { num, sh: sh + 1 }, "sq8_halfway"));
            }
        }
    }
    out
}

// ------------------------------------------------------------------ modes
fn main() {
    let a = Args::parse();
    match a.mode.as_str() {
        "gen" => gen(&a),
        "search" => search(&a),
        "why" => { // diagnostic: why does the Rust-side oracle flag these lines
            for l in a.replay_lines().unwrap_or_default() {
                if let Some(h) = parse_hist(&l) {
                    let (hh, obs) = run_history(&h);
                    let v = oracle(&hh, &obs);
                    println!("alloc_bytes={} ops={} ran={} ok={} why={} last={}", alloc_bytes(&h), h.ops.len(), hh.ops.len(), v.ok, v.why,
                             obs.last().map(obs_wire).unwrap_or_default());
                }
            }
        }
        _ => { eprintln!("c25: unknown mode"); std::process::exit(2); }
    }
}

fn push_hist(w: &mut CaseWriter, h: &Hist, kind: &str) {
    let (hh, obs) = run_history(h);
    let v = oracle(&hh, &obs);
    let nontrivial = v.ok_inserts >= 3 && v.multi_result_searches >= 1;
    w.push(hist_term(&hh, &obs), hist_line(h), nontrivial, kind);
    if alloc_bytes(h) > 16384 { w.count("histories_spanning_pages", 1); }
    if v.eff_deletes > 0 { w.count("histories_with_effective_delete", 1); }
    if !v.ok { w.count("oracle_flagged_in_rust", 1); }
}

fn gen(a: &Args) {
    let mut rng = Rng::new(a.seed);
    let mut w = CaseWriter::new(&a.out, "C25", "Corr.C25", 120);
    if let Some(lines) = a.replay_lines() {
        for l in lines {
            if let Some(h) = parse_hist(&l) { push_hist(&mut w, &h, "replay"); }
            else if let Some(c) = parse_sq(&l) { let (t, nt) = sq_run(&c); w.push(t, sq_line(&c), nt, "replay"); }
        }
        w.finish(&[]);
        return;
    }
    for h in fixed_hists() { push_hist(&mut w, &h, "fixed"); }
    let (n, max_ops) = if a.thorough() { (2500usize, 300usize) } else { (260usize, 40usize) };
    for i in 0..n {
        let (kind, name) = match i % 20 {
            0..=8 => (Kind::InsertOnly, "insert_only"),
            9..=13 => (Kind::WithDelete, "with_delete"),
            14 => (Kind::EntryDelete, "entry_delete"),
            15 => (Kind::Blind, "blind_insert"),
            16 | 17 => (Kind::Malformed, "malformed"),
            18 => (Kind::Tiny, "tiny"),
            // many (and tall) nodes: the first node page fills up and the index spans several pages
            _ => (Kind::Overflow, "multi_page"),
        };
        // in the thorough tier a tenth of the histories are long
        let mo = if a.thorough() { if i % 10 == 0 { max_ops } else { 60 } } else { max_ops };
        let h = gen_hist(&mut rng, kind, mo);
        push_hist(&mut w, &h, name);
    }
    for (c, kind) in gen_sq(&mut rng, if a.thorough() { 3000 } else { 400 }) {
        let (t, nt) = sq_run(&c);
        w.push(t, sq_line(&c), nt, kind);
    }
    w.finish(&[]);
}

/// Oracle only (no model): the property's clauses evaluated in Rust on the implementation's output.
fn search(a: &Args) {
    let mut rng = Rng::new(a.seed ^ 0xC25_5EA);
    let mut fails: Vec<String> = vec![];
    let mut tried: u64 = 0;
    let budget = (a.budget / 100).max(200);
    for h in fixed_hists() {
        let (hh, obs) = run_history(&h);
        if !oracle(&hh, &obs).ok && fails.len() < 30 { fails.push(hist_line(&h)); }
        tried += 1;
    }
    while tried < budget {
        let kind = match tried % 10 { 0..=5 => Kind::InsertOnly, 6 | 7 => Kind::WithDelete, 8 => Kind::Blind, _ => Kind::Tiny };
        let h = gen_hist(&mut rng, kind, if tried % 7 == 0 { 200 } else { 40 });
        let (hh, obs) = run_history(&h);
        if !oracle(&hh, &obs).ok && fails.len() < 30 { fails.push(hist_line(&h)); }
        tried += 1;
    }
    // SQ8: decode within one quantization step (exact rational arithmetic on the f32 values)
    for (c, _) in gen_sq(&mut rng, 20_000) {
        let vals: Vec<f32> = c.num.iter().map(|n| (*n as f32) / ((1u64 << c.sh) as f32)).collect();
        let r = catch(AssertUnwindSafe(|| { let s = SQ8Vector::from_f32(&vals); (s.scale(), s.decode()) }));
        let ok = match r {
            Caught::Done((scale, dec)) => dec.len() == vals.len() && dec.iter().zip(vals.iter()).all(|(d, v)| ((*d as f64) - (*v as f64)).abs() <= scale as f64),
            Caught::Panicked(_) => false,
        };
        if !ok && fails.len() < 40 { fails.push(sq_line(&c)); }
        tried += 1;
    }
    let mut out = format!("tried={}\n", tried);
    for f in &fails { out.push_str("FAIL "); out.push_str(f); out.push('\n'); }
    std::fs::write(&a.out, out).expect("write search output");
}
