(* C34 model: src/storage/freelist.rs  (Freelist::allocate / release / initialize_trunk /
   create_new_trunk) over a page store, transcribed as written (tree at/after the repair
   bad45b6; the earlier allocate is kept, labelled, in Model/FreelistV0.v).
   Definitions only, no proofs.

   Storage is a flat array of little-endian u32 words (the mmap): word [i] of page [p] is
   the 4 bytes at byte offset 4*i of that page.  A fresh store is all zero, so an absent
   key reads 0 (that is the real initial content, not a totalising default: page numbers
   outside the store are an explicit [OErr], exactly where Storage::page/page_mut fail).
   The 16-byte PageHeader that initialize_trunk/create_new_trunk also write (words 0..3) is
   never read by the freelist and is not modelled.

   TRUNK_MAX_ENTRIES, TrunkHeader::is_full and the page geometry constants are NOT written
   here: they are regenerated from the Rust source on every run (Gen/Freelist.v,
   Gen/FreelistConsts.v). *)
From Coq Require Import ZArith List Bool FMapPositive.
From TV Require Import Lib.MachInt Gen.FreelistConsts Gen.Freelist.
Import ListNotations.
Open Scope Z_scope.

(* ------------------------------------------------------------------ geometry *)
Definition WORDS : Z := rdiv PAGE_SIZE 4.                                   (* u32 words per page *)
Definition W_NEXT : Z := rdiv PAGE_HEADER_SIZE 4.                           (* TrunkHeader.next_trunk *)
Definition W_COUNT : Z := rdiv PAGE_HEADER_SIZE 4 + 1.                      (* TrunkHeader.count *)
Definition W_ENT : Z := rdiv (PAGE_HEADER_SIZE + TRUNK_HEADER_SIZE) 4.      (* first entry *)

(* ------------------------------------------------------------------ word store *)
Definition memT := PositiveMap.t Z.
Definition key (a : Z) : positive := Z.to_pos (a + 1).
Definition mget (m : memT) (p i : Z) : Z :=
  match PositiveMap.find (key (p * WORDS + i)) m with Some v => v | None => 0 end.
Definition mset (m : memT) (p i v : Z) : memT := PositiveMap.add (key (p * WORDS + i)) v m.

Record state := mkState { mem : memT; head : Z; fc : Z }.
Definition st_new : state := mkState (PositiveMap.empty Z) 0 0.             (* Freelist::new(), zeroed store *)

Inductive op := Rel (p : Z) | Alloc | Poke (p i v : Z).
(* Poke = the client writes the u32 [v] at word [i] of page [p] (its own data). *)
Inductive out := OOk | OSome (p : Z) | ONone | OErr | OPanic.

Definition in_store (np p : Z) : bool := (0 <=? p) && (p <? np).            (* page_no < page_count *)

(* `self.free_count += 1` on u32 in the dev profile *)
Definition fc_inc_ok (c : Z) : bool := c + 1 <? 2 ^ 32.

(* ------------------------------------------------------------------ Freelist::allocate
   (as of /repo commit bad45b6: an empty head trunk hands out its own page, an emptied trunk
   stays at the head, head_page = 0 means "no trunk" and page 0 is never read) *)
Definition alloc (np : Z) (st : state) : state * out :=
  if (fc st =? 0) || (head st =? 0) then (st, ONone)                       (* is_empty() || head_page == 0 *)
  else if negb (in_store np (head st)) then (st, OErr)                      (* storage.page_mut(head)? *)
  else
    let count := mget (mem st) (head st) W_COUNT in
    let next := mget (mem st) (head st) W_NEXT in
    if count =? 0 then
      (mkState (mem st) next (fc st - 1), OSome (head st))                  (* the trunk page itself *)
    else
      let entry_index := count - 1 in
      let entry_offset := (PAGE_HEADER_SIZE + TRUNK_HEADER_SIZE) + entry_index * 4 in
      if entry_offset + 4 >? PAGE_SIZE then (st, OErr)                      (* ensure!(entry_offset + 4 <= PAGE_SIZE) *)
      else
        let page_no := mget (mem st) (head st) (W_ENT + entry_index) in
        let m1 := mset (mem st) (head st) W_COUNT (count - 1) in            (* trunk.set_count(count - 1) *)
        (mkState m1 (head st) (fc st - 1), OSome page_no).

(* ------------------------------------------------------------------ Freelist::release *)
Definition release (np : Z) (st : state) (p : Z) : state * out :=
  if head st =? 0 then
    (* initialize_trunk: TrunkHeader::new() written at the page, free_count = 1 (assigned) *)
    if negb (in_store np p) then (st, OErr)
    else (mkState (mset (mset (mem st) p W_NEXT 0) p W_COUNT 0) p 1, OOk)
  else if negb (in_store np (head st)) then (st, OErr)                      (* storage.page(head)? *)
  else
    let count := mget (mem st) (head st) W_COUNT in
    if is_full count then
      (* create_new_trunk: new trunk page points at the old head, holds no entries *)
      if negb (in_store np p) then (st, OErr)
      else
        let m1 := mset (mset (mem st) p W_NEXT (head st)) p W_COUNT 0 in
        if fc_inc_ok (fc st) then (mkState m1 p (fc st + 1), OOk)
        else (mkState m1 p (fc st), OPanic)
    else
      let entry_offset := (PAGE_HEADER_SIZE + TRUNK_HEADER_SIZE) + count * 4 in
      if entry_offset + 4 >? PAGE_SIZE then (st, OErr)
      else
        let m1 := mset (mset (mem st) (head st) (W_ENT + count) p) (head st) W_COUNT (count + 1) in
        if fc_inc_ok (fc st) then (mkState m1 (head st) (fc st + 1), OOk)
        else (mkState m1 (head st) (fc st), OPanic).

(* the client's own write into a page of the store *)
Definition poke (np : Z) (st : state) (p i v : Z) : state * out :=
  if in_store np p && (0 <=? i) && (i <? WORDS)
  then (mkState (mset (mem st) p i v) (head st) (fc st), OOk)
  else (st, OErr).

Definition step (np : Z) (st : state) (o : op) : state * out :=
  match o with
  | Rel p => release np st p
  | Alloc => alloc np st
  | Poke p i v => poke np st p i v
  end.

(* what is observable after each call: result, head_page(), free_count() *)
Inductive ev := E (o : op) (r : out) (hd : Z) (c : Z).

Fixpoint run_from (np : Z) (st : state) (ops : list op) : list ev :=
  match ops with
  | [] => []
  | o :: t => let '(st', r) := step np st o in E o r (head st') (fc st') :: run_from np st' t
  end.

Fixpoint final_from (np : Z) (st : state) (ops : list op) : state :=
  match ops with
  | [] => st
  | o :: t => final_from np (fst (step np st o)) t
  end.

Definition run (np : Z) (ops : list op) : list ev := run_from np st_new ops.
Definition final (np : Z) (ops : list op) : state := final_from np st_new ops.

(* ================================================================== the property's oracle
   Judges a trace (observed on the implementation, or produced by [run]) against the
   property itself; knows nothing about trunks.  [bag] = pages released and not handed back
   since (the abstract free bag of DESIGN.md C34), [nfree] its size. *)
Definition bagT := PositiveMap.t unit.
Definition bmem (p : Z) (b : bagT) : bool := (0 <=? p) && PositiveMap.mem (key p) b.
Definition badd (p : Z) (b : bagT) : bagT := PositiveMap.add (key p) tt b.
Definition bdel (p : Z) (b : bagT) : bagT := PositiveMap.remove (key p) b.

Record ost := mkOst { bag : bagT; nfree : Z }.
Definition ost_new : ost := mkOst (PositiveMap.empty unit) 0.

Definition ost_step (s : ost) (e : ev) : ost :=
  match e with
  | E (Rel p) OOk _ _ => mkOst (badd p (bag s)) (nfree s + 1)
  | E Alloc (OSome p) _ _ => mkOst (bdel p (bag s)) (nfree s - 1)
  | _ => s
  end.

(* client discipline: only pages it holds (never page 0, never a page that is still free)
   are released; it writes only into pages it holds (page 0 included) *)
Definition disc_ev (np : Z) (s : ost) (e : ev) : bool :=
  match e with
  | E (Rel p) _ _ _ => (1 <=? p) && (p <? np) && negb (bmem p (bag s))
  | E Alloc _ _ _ => true
  | E (Poke p i _) _ _ _ => (0 <=? p) && (p <? np) && (0 <=? i) && (i <? WORDS) && negb (bmem p (bag s))
  end.

(* safety half of the property + "a legal call does not fail" *)
Definition anomaly (s : ost) (e : ev) : bool :=
  match e with
  | E Alloc (OSome p) _ _ => negb (bmem p (bag s))     (* handed out a page that is not free *)
  | E Alloc ONone _ _ => false
  | E Alloc _ _ _ => true
  | E (Rel _) OOk _ _ => false
  | E (Rel _) _ _ _ => true
  | E (Poke _ _ _) OOk _ _ => false
  | E (Poke _ _ _) _ _ _ => true
  end.

(* allocate() says None only when the bag is empty (it says Some only for a member: [anomaly]) *)
Definition none_ok (s : ost) (e : ev) : bool :=
  match e with
  | E Alloc ONone _ _ => nfree s =? 0
  | _ => true
  end.

Fixpoint disciplined_from (np : Z) (s : ost) (tr : list ev) : bool :=
  match tr with [] => true | e :: t => disc_ev np s e && disciplined_from np (ost_step s e) t end.
Fixpoint safe_from (s : ost) (tr : list ev) : bool :=
  match tr with [] => true | e :: t => negb (anomaly s e) && safe_from (ost_step s e) t end.
Fixpoint complete_from (s : ost) (tr : list ev) : bool :=
  match tr with [] => true | e :: t => none_ok s e && complete_from (ost_step s e) t end.
(* free_count() after every call = size of the bag *)
Fixpoint reported_eq_spec_from (s : ost) (tr : list ev) : bool :=
  match tr with
  | [] => true
  | (E _ _ _ c as e) :: t => let s' := ost_step s e in (c =? nfree s') && reported_eq_spec_from s' t
  end.

Definition disciplined (np : Z) (tr : list ev) : bool := disciplined_from np ost_new tr.
Definition safe (tr : list ev) : bool := safe_from ost_new tr.
Definition complete (tr : list ev) : bool := complete_from ost_new tr.
Definition reported_eq_spec (tr : list ev) : bool := reported_eq_spec_from ost_new tr.

(* refinement of the bag specification: allocate returns a member of the bag, or None iff the
   bag is empty; free_count() = |bag| *)
Definition refines_bag (tr : list ev) : bool := safe tr && complete tr && reported_eq_spec tr.

(* "the reported free count equals the number of pages that subsequent allocations can
   actually return": decidable on a trace at every moment after which the trace only
   allocates until it sees None.  [drain_count tr] = Some k: tr starts with k successful
   allocations followed by an allocation returning None. *)
Fixpoint drain_count (tr : list ev) : option Z :=
  match tr with
  | E Alloc (OSome _) _ _ :: t => match drain_count t with Some k => Some (k + 1) | None => None end
  | E Alloc ONone _ _ :: _ => Some 0
  | _ => None
  end.

(* cmp reported actual: one linear pass from the right; [c0] = free count before tr *)
Fixpoint count_pass (cmp : Z -> Z -> bool) (tr : list ev) : option Z * bool :=
  match tr with
  | [] => (None, true)
  | E o r hd c :: t =>
      let '(dt, okt) := count_pass cmp t in
      let ok := okt && match dt with Some k => cmp c k | None => true end in
      let d := match o, r with
               | Alloc, OSome _ => match dt with Some k => Some (k + 1) | None => None end
               | Alloc, ONone => Some 0
               | _, _ => None
               end in
      (d, ok)
  end.
Definition count_check (cmp : Z -> Z -> bool) (c0 : Z) (tr : list ev) : bool :=
  let '(d, ok) := count_pass cmp tr in ok && match d with Some k => cmp c0 k | None => true end.

Definition count_exact (tr : list ev) : bool := count_check Z.eqb 0 tr.       (* the property *)
Definition count_not_under (tr : list ev) : bool := count_check Z.geb 0 tr.   (* reported >= actual *)

(* the whole property (its three clauses) on a trace of a disciplined client *)
Definition property_ok (np : Z) (tr : list ev) : bool :=
  negb (disciplined np tr) || (safe tr && count_exact tr).
