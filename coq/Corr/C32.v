(* C32 correspondence: one case = one JSON text run through the real parse_json, JsonValue::to_jsonb_bytes,
   JsonbBuilder::build and JsonbBuilder::try_build, a full read-back through JsonbView and a set of
   lookups through OwnedValue::{jsonb_get, jsonb_array_get, jsonb_get_path}.
     model_agrees : Model/JsonText.v + Model/Jsonb.v reproduce everything the implementation did;
     spec_ok      : what the implementation did satisfies the property itself, judged against the
                    document (an oracle that does not use the model of the code);
     known_class  : 0 everywhere (both recorded findings are fixed: 00ee7a4, 456f370).
   Definitions only; evaluated by vm_compute. *)
From Coq Require Import ZArith List Bool.
From Coq Require Export Uint63.
From TV Require Export Lib.MachInt Gen.JsonbBits Model.Jsonb Model.JsonText.
Import ListNotations.
Open Scope Z_scope.

Inductive pres := POk (v : json) (consumed : Z) | PErr | PPanic.
(* a value handed back by the implementation, read back into a tree by the harness *)
Inductive rres := RVal (v : json) | RNone | RErr | RPanic | RBad.
Inductive step := SKey (k : list Z) | SIdx (i : Z).
Inductive probe :=
| PSteps (steps : list step) (r : rres)                       (* jsonb_get / jsonb_array_get one step at a time *)
| PPath (keys : list (list Z)) (r_path r_step : rres)         (* jsonb_get_path, and the same keys one at a time *)
| PPathEq (keys : list (list Z)) (r : rres).                  (* = PPath keys r r (both results printed identically) *)
(* what the harness's own strict RFC 8259 reader makes of the text *)
Inductive wres :=
| WNone                 (* not a JSON document (or one with an unpaired surrogate escape): nothing is demanded of the parser *)
| WSame                 (* a JSON document, and its value is the tree reported in POk *)
| WVal (v : json).      (* a JSON document denoting v *)

(* byte strings are written by the harness as (B n [c1; c2; ...]%uint63): n bytes, seven per
   primitive integer (big-endian inside a chunk), the last chunk holding the remaining n mod 7 (or 7);
   64-bit patterns as (Q hi lo), two 32-bit halves.  (Primitive integers only because Coq reads
   them fast; they are converted to Z before anything is done with them.) *)
Definition bit_z (x : int) (k : int) (w : Z) : Z := if Uint63.is_zero (Uint63.land (Uint63.lsr x k) 1) then 0 else w.
Definition byte_z (x : int) : Z :=
  (bit_z x 0 1 + bit_z x 1 2 + bit_z x 2 4 + bit_z x 3 8 + bit_z x 4 16 + bit_z x 5 32 + bit_z x 6 64 + bit_z x 7 128)%Z.
Fixpoint chunk (k : nat) (x : int) (acc : list Z) {struct k} : list Z :=
  match k with
  | O => acc
  | S k' => chunk k' (Uint63.lsr x 8) (byte_z x :: acc)
  end.
Fixpoint unpack (n : Z) (l : list int) {struct l} : list Z :=
  match l with
  | [] => []
  | x :: r => chunk (Z.to_nat (Z.min 7 n)) x (unpack (n - 7) r)
  end.
Definition B (n : Z) (l : list int) : list Z := unpack n l.
Definition Q (hi lo : int) : Z := Uint63.to_Z hi * 2 ^ 32 + Uint63.to_Z lo.
Definition N (hi lo : int) : json := JNum (Q hi lo).

(* JsonbBuilder::try_build: Ok (and whether the bytes are those of to_jsonb_bytes), refused, panicked *)
Inductive tbres := TBOk (same_as_bytes : bool) | TBErr | TBPanic.

Inductive case :=
| Doc (text : list Z)
      (oracle : list (list Z * option Z))   (* str::parse::<f64> on every candidate number token of the text *)
      (want : wres)                         (* the harness's reference reader on the text *)
      (p : pres)                            (* parse_json *)
      (bytes : list Z)                      (* JsonValue::to_jsonb_bytes *)
      (builder_same : bool)                 (* JsonbBuilder::build gives the same bytes *)
      (tb : tbres)                          (* JsonbBuilder::try_build (what the SQL conversion path stores) *)
      (back : rres)                         (* the document read back through JsonbView *)
      (probes : list probe).

(* ------------------------------------------------------------------ equality of trees *)
Fixpoint json_eqb (a b : json) {struct a} : bool :=
  match a, b with
  | JNull, JNull => true
  | JBool x, JBool y => eqb x y
  | JNum x, JNum y => x =? y
  | JStr x, JStr y => zlist_eqb x y
  | JArr la, JArr lb =>
      (fix go (la lb : list json) {struct la} : bool :=
         match la, lb with
         | [], [] => true
         | x :: ta, y :: tb => json_eqb x y && go ta tb
         | _, _ => false
         end) la lb
  | JObj la, JObj lb =>
      (fix go (la lb : list (list Z * json)) {struct la} : bool :=
         match la, lb with
         | [], [] => true
         | (k, x) :: ta, (k', y) :: tb => zlist_eqb k k' && json_eqb x y && go ta tb
         | _, _ => false
         end) la lb
  | _, _ => false
  end.

Fixpoint remove_first {A} (p : A -> bool) (l : list A) : option (list A) :=
  match l with
  | [] => None
  | x :: t => if p x then Some t else option_map (cons x) (remove_first p t)
  end.

(* equal JSON values: objects are unordered collections of members (compared as multisets) *)
Fixpoint json_eqv (a b : json) {struct a} : bool :=
  match a, b with
  | JNull, JNull => true
  | JBool x, JBool y => eqb x y
  | JNum x, JNum y => x =? y
  | JStr x, JStr y => zlist_eqb x y
  | JArr la, JArr lb =>
      (fix go (la lb : list json) {struct la} : bool :=
         match la, lb with
         | [], [] => true
         | x :: ta, y :: tb => json_eqv x y && go ta tb
         | _, _ => false
         end) la lb
  | JObj la, JObj lb =>
      (fix go (la lb : list (list Z * json)) {struct la} : bool :=
         match la with
         | [] => match lb with [] => true | _ => false end
         | (k, x) :: ta =>
             match remove_first (fun kv => zlist_eqb k (fst kv) && json_eqv x (snd kv)) lb with
             | Some lb' => go ta lb'
             | None => false
             end
         end) la lb
  | _, _ => false
  end.

Definition rres_eqb (a b : rres) : bool :=
  match a, b with
  | RVal x, RVal y => json_eqb x y
  | RNone, RNone | RErr, RErr | RPanic, RPanic | RBad, RBad => true
  | _, _ => false
  end.

(* ------------------------------------------------------------------ model side *)
Fixpoint oracle_lookup (o : list (list Z * option Z)) (t : list Z) : res Z :=
  match o with
  | [] => Fuel                     (* no oracle entry: never equal to anything the implementation reports *)
  | (k, v) :: r => if zlist_eqb k t then match v with Some bits => Ok bits | None => Err end else oracle_lookup r t
  end.

Definition model_fuel : nat := 200.

Definition ov_tree (o : ov) : res json :=
  match o with
  | OVNull => Ok JNull | OVBool b => Ok (JBool b) | OVFloat x => Ok (JNum x) | OVText s => Ok (JStr s)
  | OVJsonb d => tree_of_view model_fuel d
  end.

Definition rres_of_tree (r : res json) : rres :=
  match r with Ok t => RVal t | Err => RErr | Panic => RPanic | Fuel => RBad end.

Definition rres_of_lookup (r : res (option ov)) : rres :=
  match r with
  | Ok None => RNone
  | Ok (Some o) => match ov_tree o with Ok t => RVal t | _ => RBad end
  | Err => RErr | Panic => RPanic | Fuel => RBad
  end.

Fixpoint model_steps (cur : option ov) (steps : list step) {struct steps} : res (option ov) :=
  match steps with
  | [] => Ok cur
  | s :: r =>
      match cur with
      | None => Ok None
      | Some o =>
          match (match s with SKey k => ov_get o k | SIdx i => ov_array_get o i end) with
          | Ok c => model_steps c r
          | Err => Err | Panic => Panic | Fuel => Fuel
          end
      end
  end.

Definition probe_agrees (bytes : list Z) (pr : probe) : bool :=
  match pr with
  | PSteps steps r => rres_eqb (rres_of_lookup (model_steps (Some (OVJsonb bytes)) steps)) r
  | PPath keys rp rs =>
      rres_eqb (rres_of_lookup (ov_get_path (OVJsonb bytes) keys)) rp &&
      rres_eqb (rres_of_lookup (ov_stepwise (Some (OVJsonb bytes)) keys)) rs
  | PPathEq keys r =>
      rres_eqb (rres_of_lookup (ov_get_path (OVJsonb bytes) keys)) r &&
      rres_eqb (rres_of_lookup (ov_stepwise (Some (OVJsonb bytes)) keys)) r
  end.

Definition model_parse (text : list Z) (oracle : list (list Z * option Z)) : pres :=
  match parse_json (oracle_lookup oracle) text with
  | Ok (v, n) => POk v n
  | Err => PErr
  | Panic => PPanic
  | Fuel => PPanic
  end.

Definition pres_eqb (a b : pres) : bool :=
  match a, b with
  | POk x n, POk y m => json_eqb x y && (n =? m)
  | PErr, PErr | PPanic, PPanic => true
  | _, _ => false
  end.

Definition model_agrees (c : case) : bool :=
  match c with
  | Doc text oracle want p bytes same tb back probes =>
      pres_eqb (model_parse text oracle) p &&
      match p with
      | POk v _ =>
          zlist_eqb (encode_value v) bytes && same &&
          match try_build v, tb with
          | Ok b, TBOk sb => Bool.eqb (zlist_eqb b bytes) sb
          | Err, TBErr => true
          | _, _ => false
          end &&
          rres_eqb (rres_of_tree (tree_of_view model_fuel bytes)) back &&
          forallb (probe_agrees bytes) probes
      | _ => true
      end
  end.

(* ------------------------------------------------------------------ the property's own oracle *)
(* every outcome a lookup along `steps` may legitimately have on document v: with duplicate keys any
   member carrying the key may be the one found; None = nothing there *)
Fixpoint outcomes (fuel : nat) (v : json) (steps : list step) {struct fuel} : list (option json) :=
  match fuel with
  | O => []
  | S f =>
      match steps with
      | [] => [Some v]
      | SKey k :: r =>
          match v with
          | JObj kvs =>
              match filter (fun kv => zlist_eqb k (fst kv)) kvs with
              | [] => [None]
              | ms => flat_map (fun kv => outcomes f (snd kv) r) ms
              end
          | _ => [None]
          end
      | SIdx i :: r =>
          match v with
          | JArr els =>
              if (0 <=? i) && (i <? zlen els) then
                match nth_error els (Z.to_nat i) with Some e => outcomes f e r | None => [None] end
              else [None]
          | _ => [None]
          end
      end
  end.

Definition absent (r : rres) : bool := match r with RNone | RErr => true | _ => false end.

Definition result_ok (v : json) (steps : list step) (r : rres) : bool :=
  match r with
  | RVal t => existsb (fun o => match o with Some e => json_eqv t e | None => false end) (outcomes (S (length steps)) v steps)
  | RNone | RErr => existsb (fun o => match o with None => true | Some _ => false end) (outcomes (S (length steps)) v steps)
  | _ => false
  end.

Definition same_result (a b : rres) : bool :=
  match a, b with
  | RVal x, RVal y => json_eqv x y
  | _, _ => absent a && absent b
  end.

Definition probe_ok (v : json) (pr : probe) : bool :=
  match pr with
  | PSteps steps r => result_ok v steps r
  | PPath keys rp rs =>
      result_ok v (map SKey keys) rp && result_ok v (map SKey keys) rs && same_result rp rs
  | PPathEq keys r => result_ok v (map SKey keys) r && same_result r r
  end.

(* the limits of the JSONB format: a string or key below the root of 2^16 bytes or more (u16 length
   field), a root string of 2^28 bytes or more (28-bit header count), or -- unless the document is a single
   string -- an encoding of more than 2^24 bytes (24-bit offsets; judged on the bytes the raw encoder produced) *)
Fixpoint has_long_nested (nested : bool) (v : json) : bool :=
  match v with
  | JStr s => if nested then 2 ^ 16 <=? blen s else 2 ^ 28 <=? blen s
  | JArr els => existsb (has_long_nested true) els
  | JObj kvs => existsb (fun kv => match kv with (k, e) => (2 ^ 16 <=? blen k) || has_long_nested true e end) kvs
  | _ => false
  end.
Definition beyond_format (v : json) (bytes : list Z) : bool :=
  has_long_nested false v || (negb (is_str v) && (2 ^ 24 <? blen bytes)).

Definition spec_ok (c : case) : bool :=
  match c with
  | Doc text oracle want p bytes same tb back probes =>
      (* a document that is JSON by construction parses to the value it was printed from *)
      match want with
      | WNone => true
      | _ =>
          match p with
          | POk v n => match want with WVal w => json_eqb v w | _ => true end &&
                       (0 <=? n) && (n <=? blen text) &&
                       match skip_ws (skipn (Z.to_nat n) text) with [] => true | _ => false end
          | _ => false
          end
      end &&
      (* what the checked entry point (try_build, the SQL path) accepts reads back as an equal value and every
         lookup finds what the document holds; it may refuse only what the format cannot represent.
         Nothing is demanded of the bytes of the raw `build` / to_jsonb_bytes for a refused document. *)
      match p with
      | POk v _ =>
          match tb with
          | TBOk sb =>
              sb && same &&
              match back with RVal t => json_eqv t v | _ => false end &&
              forallb (probe_ok v) probes
          | TBErr => beyond_format v bytes
          | TBPanic => false
          end
      | _ => true
      end
  end.

(* ------------------------------------------------------------------ recorded findings: none open *)
Definition known_class (c : case) : Z := 0.

Fixpoint failures_from (i : Z) (cs : list case) : list (Z * bool * bool * Z) :=
  match cs with
  | [] => []
  | c :: t =>
      let m := model_agrees c in
      let s := spec_ok c in
      if m && s then failures_from (i + 1) t else (i, m, s, known_class c) :: failures_from (i + 1) t
  end.
Definition failures := failures_from 0.
