(* Proof/HnswFinite.v -- a result with a finite distance is never lost: greedy descent only moves to
   strictly closer nodes, the results heap only evicts its maximum, and finalize_results keeps the
   closest.  Hence a search that starts from a readable entry point with a known vector returns at
   least one readable node. *)
From Coq Require Import ZArith List Bool Lia Permutation Sorted.
From TV Require Import Model.Hnsw Proof.HnswHeap Proof.HnswSearch.
Import ListNotations.
Open Scope Z_scope.

Definition isfin (d : dist) : bool := match d with Fin _ => true | Inf => false end.
Definition has_fin (rs : list cand) : Prop := exists x, In x rs /\ isfin (cd x) = true.

Lemma dle_fin : forall a b, dle a b = true -> isfin b = true -> isfin a = true.
Proof. intros [x|] [y|]; cbn; auto. Qed.
Lemma dlt_fin : forall a b, dlt a b = true -> isfin a = true.
Proof. intros [x|] [y|]; cbn; auto. Qed.

Lemma greedy_step_fin : forall cdf nbrs best bd n d,
  isfin bd = true -> greedy_step nbrs cdf best bd = (n, d) -> isfin d = true.
Proof.
  intros cdf nbrs. induction nbrs as [|x t IH]; intros best bd n d Hb Hg; cbn [greedy_step] in Hg.
  - inversion Hg; subst; auto.
  - destruct (dlt (cdf x) bd) eqn:E; [eapply (IH x (cdf x)); eauto; eapply dlt_fin; eauto | eapply (IH best bd); eauto].
Qed.

Lemma greedy_fin : forall iters gn cdf cur d n d',
  isfin d = true -> greedy iters gn cdf cur d = (n, d') -> isfin d' = true.
Proof.
  induction iters as [|f IH]; intros gn cdf cur d n d' Hd Hg; cbn [greedy] in Hg.
  - inversion Hg; subst; auto.
  - destruct (greedy_step (gn cur) cdf cur d) as [n1 d1] eqn:Es.
    pose proof (greedy_step_fin _ _ _ _ _ _ Hd Es) as H1.
    destruct (n1 =? cur); [inversion Hg; subst; auto | eapply IH; eauto].
Qed.

Lemma descend_fin : forall n lvl s cdf ep ed e d,
  isfin ed = true -> descend n lvl s cdf ep ed = (e, d) -> isfin d = true.
Proof.
  induction n as [|n IH]; intros lvl s cdf ep ed e d He Hd; cbn [descend] in Hd.
  - inversion Hd; subst; auto.
  - destruct (greedy GREEDY_MAX_ITER (gn_at s lvl) cdf ep ed) as [e1 d1] eqn:Eg.
    eapply IH; [|exact Hd]. eapply greedy_fin; eauto.
Qed.

Lemma add_result_fin : forall ef c rs, rheap rs -> 0 < ef -> has_fin (c :: rs) -> has_fin (add_result ef c rs).
Proof.
  intros ef c rs Hh Hef (z & Hz & Fz). unfold add_result.
  pose proof (push_perm le_max c rs) as Pp.
  pose proof (push_ok le_max le_max_total le_max_trans c rs Hh) as Po.
  pose proof (push_length le_max c rs) as Pl.
  destruct (ef <? Z.of_nat (length (push le_max c rs))) eqn:E.
  - destruct (pop le_max (push le_max c rs)) as [[x r]|] eqn:Ep.
    + destruct (pop_spec le_max le_max_total le_max_trans _ _ _ Ep) as (P & L & Hk).
      destruct (Hk Po) as [_ Hmax].
      assert (Hz2 : In z (x :: r)).
      { eapply Permutation_in; [exact P|]. eapply Permutation_in; [exact Pp | exact Hz]. }
      destruct Hz2 as [<-|Hz2]; [|exists z; auto].
      destruct r as [|y r']; [apply Z.ltb_lt in E; cbn [length] in L; lia|].
      exists y. split; [left; auto|]. eapply dle_fin; [apply (Hmax y); left; auto | exact Fz].
    + exists z. split; auto. eapply Permutation_in; [exact Pp | exact Hz].
  - exists z. split; auto. eapply Permutation_in; [exact Pp | exact Hz].
Qed.

Section BeamFin.
  Variable gn : Z -> list Z.
  Variable cdf : Z -> dist.
  Variable ef : Z.
  Hypothesis Hef : 0 < ef.

  Lemma beam_nbrs_fin : forall nbrs c, binv c -> has_fin (b_res c) -> has_fin (b_res (beam_nbrs nbrs cdf ef c)).
  Proof.
    induction nbrs as [|n t IH]; intros c Hc Hf; cbn [beam_nbrs]; auto.
    destruct (mem n (b_vis c)) eqn:Hm; auto.
    pose proof (beam_nbrs_inv cdf ef [n] c Hc) as Hstep. cbn [beam_nbrs] in Hstep. rewrite Hm in Hstep.
    destruct (dlt (cdf n) (worst (b_res c)) || (Z.of_nat (length (b_res c)) <? ef)).
    - apply IH; [exact Hstep|]. cbn [b_res]. apply add_result_fin; auto; [apply (bi_heap _ Hc)|].
      destruct Hf as (z & Hz & Fz). exists z. split; [right; auto | auto].
    - apply IH; [exact Hstep | exact Hf].
  Qed.

  Lemma beam_loop_fin : forall fuel c c', binv c -> has_fin (b_res c) ->
    beam_loop fuel gn cdf ef c = Some c' -> has_fin (b_res c').
  Proof.
    induction fuel as [|f IH]; intros c c' Hc Hf Hl; cbn [beam_loop] in Hl; [discriminate|].
    destruct (pop le_min (b_cands c)) as [[cur rest]|] eqn:Ep; [|inversion Hl; subst; auto].
    assert (Hrest : binv (B rest (b_res c) (b_vis c))).
    { destruct Hc as [H1 H2 H3 H5].
      destruct (pop_spec le_min le_min_total le_min_trans _ _ _ Ep) as (P & _ & _).
      constructor; cbn [b_res b_cands b_vis]; auto.
      intros x Hx. apply H5. eapply Permutation_in; [symmetry; exact P | right; exact Hx]. }
    destruct (dlt (worst (b_res c)) (cd cur)); [inversion Hl; subst; exact Hf|].
    eapply IH; [| |exact Hl]; [apply beam_nbrs_inv; auto | apply beam_nbrs_fin; auto].
  Qed.

  Lemma beam_fin : forall fuel e rs, isfin (cd e) = true -> beam fuel gn cdf ef e = Some rs -> has_fin rs.
  Proof.
    intros fuel e rs He Hb. unfold beam in Hb.
    destruct (beam_loop fuel gn cdf ef (beam_init ef e)) as [c'|] eqn:El; [|discriminate].
    cbn in Hb. inversion Hb; subst.
    eapply beam_loop_fin; [apply beam_init_inv | | exact El].
    unfold beam_init. cbn [b_res]. apply add_result_fin; auto; [apply heap_ok_nil|].
    exists e. split; [left; auto | auto].
  Qed.
End BeamFin.

(* finalize_results(k >= 1) keeps a finite candidate when there is one *)
Lemma finalize_fin : forall k rs, rheap rs -> 1 <= k -> has_fin rs -> has_fin (finalize k rs).
Proof.
  intros k rs Hh Hk (z & Hz & Fz).
  destruct (finalize_spec k rs Hh ltac:(lia)) as (_ & F2 & F3 & _ & F5).
  pose proof (drain_perm le_max le_max_total le_max_trans (length rs) rs (le_n _)) as P.
  unfold finalize in *. set (d := rev (drain le_max (length rs) rs)) in *.
  assert (Hzd : In z d).
  { unfold d. apply -> in_rev. eapply Permutation_in; [exact P | exact Hz]. }
  assert (Hs : asc d).
  { unfold d. apply StronglySorted_rev.
    apply (drain_sorted le_max le_max_total le_max_trans (length rs) rs (le_n _) Hh). }
  destruct d as [|h t]; [destruct Hzd|].
  destruct (Z.to_nat k) as [|k'] eqn:Ek; [lia|]. cbn [firstn].
  exists h. split; [left; auto|].
  destruct Hzd as [->|Hzt]; auto.
  inversion Hs as [|? ? _ Hall]; subst. rewrite Forall_forall in Hall.
  eapply dle_fin; [apply (Hall z Hzt) | exact Fz].
Qed.
