(* C36: executable model of src/database/page_locks.rs (PageLockManager) under the
   interleaving semantics of Lib/Interleave.v.  DEFINITIONS ONLY.

   Shared state: the page map `page -> entry id` (all PageLockShard maps together: each is only
   touched inside its own mutex critical section, so at the granularity of whole critical
   sections the sharding is invisible), the entries (ref_count, parking_lot RwLock state), the
   table intent map, the LockStats counters, and one ghost flag [s_bad] (set when a cleanup
   removes a map entry that is still referenced; it influences nothing).

   Per thread: remaining program, position inside the current call, the guards it holds.

   Atomic steps = the atomic operations / mutex critical sections of the code:
     get_or_create                  (one shard-mutex critical section)        -> site 201
     try_read()/try_write() probe   acquire (PProbe) and drop of the temporary guard
     read()                         enabled iff WRITER_BIT clear; readers += 1 -> site 202
     write()                        phase 1: enabled iff WRITER_BIT clear, sets it (PWaitR);
                                    phase 2: enabled iff readers = 0            -> site 202
     record_page_lock + guard construction (+ the harness' occupancy bump)     -> site 210
     force_unlock_read/write (+ the harness' occupancy decrement before it)    -> site 203
     entry.release()  fetch_sub, remembers whether it saw 1                    -> site 204 if it did
     cleanup          (one shard-mutex critical section): if the remembered entry's ref_count
                      is 0 and the map still points at this entry then map.remove(page_id)
                      (before d1af26b: removal BY KEY without the identity check)
     table_intent_*   one critical section each (granted iff !exclusive; exclusive is never
                      set anywhere in the crate), release_table_intent_* one critical section.
   parking_lot: read() does not overtake a writer that has set WRITER_BIT and waits for the
   readers to drain (task-fair RwLock); try_write succeeds iff the lock word is 0.

   [fx = true] is the code as it is: try_cleanup as repaired by /repo d1af26b (remove the mapping
   only if the map still holds this very entry); [fx = false] is try_cleanup BEFORE d1af26b
   (removal by key: finding F-C36-1), kept for the historical theorems. *)
From Coq Require Import ZArith List Bool Arith.
From TV Require Import Lib.Interleave.
Import ListNotations.
Open Scope Z_scope.

Inductive op :=
| OAcq (w : bool) (k : Z)       (* page_write / page_read of page k *)
| ORel (i : nat)                (* drop the i-th page guard this thread currently holds (no-op if none) *)
| OTAcq (x : bool) (tb : Z)     (* table_intent_exclusive / table_intent_shared *)
| OTRel (i : nat).              (* drop the i-th table guard this thread currently holds *)

Record entry := mkE { e_ref : Z; e_rd : Z; e_w : bool }.
Record guard := mkG { g_k : Z; g_e : nat; g_w : bool }.
Record tstate := mkT { t_is : Z; t_ix : Z; t_excl : bool }.

Inductive pc :=
| PIdle                                   (* between two calls *)
| PPark (site : Z)                        (* parked at a harness site: 0 = not started, 210 = guard obtained *)
| PGot (w : bool) (k : Z) (e : nat)       (* 201: get_or_create returned e *)
| PProbe (w : bool) (k : Z) (e : nat)     (* try_read/try_write succeeded, temporary guard alive *)
| PLock (w : bool) (k : Z) (e : nat) (c : bool)   (* about to call the blocking read()/write(); c = contended *)
| PWaitR (k : Z) (e : nat) (c : bool)     (* write(): WRITER_BIT set, waiting for readers to drain *)
| PLocked (w : bool) (k : Z) (e : nat) (c : bool) (* 202 *)
| PUnl (k : Z) (e : nat)                  (* 203: force_unlock done *)
| PClean (k : Z) (e : nat).               (* 204: release() saw 1 *)

Record thread := mkTh { th_prog : list op; th_pc : pc; th_pg : list guard; th_tg : list (Z * bool) }.

Record shared := mkSh {
  s_map : list (Z * nat);
  s_ents : list entry;
  s_tbl : list (Z * tstate);
  s_acq : Z; s_cont : Z; s_tacq : Z;
  s_bad : bool }.

Record St := mkSt { sh : shared; ths : list (nat * thread) }.

(* ---- maps *)
Fixpoint mget (k : Z) (m : list (Z * nat)) : option nat :=
  match m with [] => None | (k', e) :: r => if k' =? k then Some e else mget k r end.
Fixpoint mrem (k : Z) (m : list (Z * nat)) : list (Z * nat) :=
  match m with [] => [] | (k', e) :: r => if k' =? k then mrem k r else (k', e) :: mrem k r end.

Definition e0 : entry := mkE 0 0 false.
Definition eget (es : list entry) (i : nat) : entry := nth i es e0.
Fixpoint eupd (es : list entry) (i : nat) (f : entry -> entry) : list entry :=
  match es, i with
  | [], _ => []
  | x :: r, O => f x :: r
  | x :: r, S j => x :: eupd r j f
  end.

Fixpoint tget (tb : Z) (m : list (Z * tstate)) : option tstate :=
  match m with [] => None | (k, v) :: r => if k =? tb then Some v else tget tb r end.
Fixpoint trem (tb : Z) (m : list (Z * tstate)) : list (Z * tstate) :=
  match m with [] => [] | (k, v) :: r => if k =? tb then trem tb r else (k, v) :: trem tb r end.
Definition tput (tb : Z) (v : tstate) (m : list (Z * tstate)) : list (Z * tstate) := (tb, v) :: trem tb m.

Fixpoint remove_nth {A} (i : nat) (l : list A) : list A :=
  match l, i with
  | [], _ => []
  | _ :: r, O => r
  | x :: r, S j => x :: remove_nth j r
  end.

(* ---- RwLock word operations *)
Definition set_w (b : bool) (e : entry) : entry := mkE (e_ref e) (e_rd e) b.
Definition add_rd (d : Z) (e : entry) : entry := mkE (e_ref e) (e_rd e + d) (e_w e).
Definition add_ref (e : entry) : entry := mkE (e_ref e + 1) (e_rd e) (e_w e).
(* AtomicU64::fetch_sub(1): wraps at 0 *)
Definition sub_ref (e : entry) : entry := mkE (if e_ref e =? 0 then 18446744073709551615 else e_ref e - 1) (e_rd e) (e_w e).
Definition unlock (w : bool) (e : entry) : entry := if w then set_w false e else add_rd (-1) e.
(* try_write: compare_exchange(0 -> WRITER_BIT); try_read: fails iff WRITER_BIT *)
Definition try_ok (w : bool) (e : entry) : bool := if w then (e_rd e =? 0) && negb (e_w e) else negb (e_w e).
Definition lock_now (w : bool) (e : entry) : entry := if w then set_w true e else add_rd 1 e.

(* ---- threads *)
(* the next call of a thread: its program, then (closure end) drop of whatever it still holds *)
Definition next_op (th : thread) : option (op * list op) :=
  match th_prog th with
  | o :: r => Some (o, r)
  | [] => match th_pg th with
          | _ :: _ => Some (ORel 0, [])
          | [] => match th_tg th with _ :: _ => Some (OTRel 0, []) | [] => None end
          end
  end.

Definition with_sh_ents (s : shared) (es : list entry) : shared :=
  mkSh (s_map s) es (s_tbl s) (s_acq s) (s_cont s) (s_tacq s) (s_bad s).

Definition b2z (b : bool) : Z := if b then 1 else 0.

(* start of a call, from PIdle / PPark *)
Definition start_op (s : shared) (th : thread) (o : op) (r : list op) : option (shared * thread) :=
  match o with
  | OAcq w k =>
      match mget k (s_map s) with
      | Some e => Some (with_sh_ents s (eupd (s_ents s) e add_ref),
                        mkTh r (PGot w k e) (th_pg th) (th_tg th))
      | None => let e := length (s_ents s) in
                Some (mkSh ((k, e) :: s_map s) (s_ents s ++ [mkE 1 0 false]) (s_tbl s) (s_acq s) (s_cont s) (s_tacq s) (s_bad s),
                      mkTh r (PGot w k e) (th_pg th) (th_tg th))
      end
  | ORel i =>
      match nth_error (th_pg th) i with
      | None => Some (s, mkTh r PIdle (th_pg th) (th_tg th))
      | Some g => Some (with_sh_ents s (eupd (s_ents s) (g_e g) (unlock (g_w g))),
                        mkTh r (PUnl (g_k g) (g_e g)) (remove_nth i (th_pg th)) (th_tg th))
      end
  | OTAcq x tb =>
      let st := match tget tb (s_tbl s) with Some v => v | None => mkT 0 0 false end in
      if t_excl st then
        (* `loop { ... yield_now() }`: the or_default entry stays in the map, the thread spins *)
        Some (mkSh (s_map s) (s_ents s) (tput tb st (s_tbl s)) (s_acq s) (s_cont s) (s_tacq s) (s_bad s), th)
      else
        let st' := if x then mkT (t_is st) (t_ix st + 1) false else mkT (t_is st + 1) (t_ix st) false in
        Some (mkSh (s_map s) (s_ents s) (tput tb st' (s_tbl s)) (s_acq s) (s_cont s) (s_tacq s + 1) (s_bad s),
              mkTh r PIdle (th_pg th) (th_tg th ++ [(tb, x)]))
  | OTRel i =>
      match nth_error (th_tg th) i with
      | None => Some (s, mkTh r PIdle (th_pg th) (th_tg th))
      | Some (tb, x) =>
          let tbl' :=
            match tget tb (s_tbl s) with
            | None => s_tbl s
            | Some st =>
                let st' := if x then mkT (t_is st) (Z.max 0 (t_ix st - 1)) (t_excl st)
                           else mkT (Z.max 0 (t_is st - 1)) (t_ix st) (t_excl st) in
                if (t_is st' =? 0) && (t_ix st' =? 0) && negb (t_excl st') then trem tb (s_tbl s)
                else tput tb st' (s_tbl s)
            end in
          Some (mkSh (s_map s) (s_ents s) tbl' (s_acq s) (s_cont s) (s_tacq s) (s_bad s),
                mkTh r PIdle (th_pg th) (remove_nth i (th_tg th)))
      end
  end.

Definition set_pc (th : thread) (p : pc) : thread := mkTh (th_prog th) p (th_pg th) (th_tg th).

(* the cleanup critical section of try_cleanup *)
Definition cleanup (fx : bool) (s : shared) (k : Z) (e : nat) : shared :=
  if e_ref (eget (s_ents s) e) =? 0 then
    if fx then
      match mget k (s_map s) with
      | Some e1 => if Nat.eqb e1 e
                   then mkSh (mrem k (s_map s)) (s_ents s) (s_tbl s) (s_acq s) (s_cont s) (s_tacq s) (s_bad s)
                   else s
      | None => s
      end
    else
      let live := match mget k (s_map s) with
                  | Some e1 => negb (e_ref (eget (s_ents s) e1) =? 0)
                  | None => false
                  end in
      mkSh (mrem k (s_map s)) (s_ents s) (s_tbl s) (s_acq s) (s_cont s) (s_tacq s) (s_bad s || live)
  else s.

(* one atomic step of one thread; None = cannot move (finished, or blocked in read()/write()) *)
Definition tstep (fx : bool) (s : shared) (th : thread) : option (shared * thread) :=
  match th_pc th with
  | PIdle => match next_op th with None => None | Some (o, r) => start_op s th o r end
  | PPark _ => match next_op th with None => Some (s, set_pc th PIdle) | Some (o, r) => start_op s th o r end
  | PGot w k e =>
      if try_ok w (eget (s_ents s) e)
      then Some (with_sh_ents s (eupd (s_ents s) e (lock_now w)), set_pc th (PProbe w k e))
      else Some (s, set_pc th (PLock w k e true))
  | PProbe w k e => Some (with_sh_ents s (eupd (s_ents s) e (unlock w)), set_pc th (PLock w k e false))
  | PLock w k e c =>
      if e_w (eget (s_ents s) e) then None
      else if w then Some (with_sh_ents s (eupd (s_ents s) e (set_w true)), set_pc th (PWaitR k e c))
           else Some (with_sh_ents s (eupd (s_ents s) e (add_rd 1)), set_pc th (PLocked false k e c))
  | PWaitR k e c =>
      if e_rd (eget (s_ents s) e) =? 0 then Some (s, set_pc th (PLocked true k e c)) else None
  | PLocked w k e c =>
      Some (mkSh (s_map s) (s_ents s) (s_tbl s) (s_acq s + 1) (s_cont s + b2z c) (s_tacq s) (s_bad s),
            mkTh (th_prog th) (PPark 210) (th_pg th ++ [mkG k e w]) (th_tg th))
  | PUnl k e =>
      let saw1 := e_ref (eget (s_ents s) e) =? 1 in
      Some (with_sh_ents s (eupd (s_ents s) e sub_ref), set_pc th (if saw1 then PClean k e else PIdle))
  | PClean k e => Some (cleanup fx s k e, set_pc th PIdle)
  end.

Definition step (fx : bool) (t : nat) (s : St) : option St :=
  match lget (ths s) t with
  | None => None
  | Some th => match tstep fx (sh s) th with
               | None => None
               | Some (s', th') => Some (mkSt s' (lset (ths s) t th'))
               end
  end.

Definition sh0 : shared := mkSh [] [] [] 0 0 0 false.
Fixpoint init_ths (i : nat) (progs : list (list op)) : list (nat * thread) :=
  match progs with [] => [] | p :: r => (i, mkTh p (PPark 0) [] []) :: init_ths (S i) r end.
Definition init (progs : list (list op)) : St := mkSt sh0 (init_ths 0 progs).

(* ---- hook sites (coarse steps of the deterministic scheduler) *)
Definition finished (th : thread) : bool :=
  match th_pc th with PIdle => match next_op th with None => true | Some _ => false end | _ => false end.
Definition site_of (th : thread) : option Z :=
  match th_pc th with
  | PPark n => Some n | PGot _ _ _ => Some 201 | PLocked _ _ _ _ => Some 202
  | PUnl _ _ => Some 203 | PClean _ _ => Some 204 | _ => None
  end.
Definition at_site (t : nat) (s : St) : bool :=
  match lget (ths s) t with
  | None => true
  | Some th => finished th || match site_of th with Some _ => true | None => false end
  end.

(* ---- what the property talks about *)
(* guards held on page k (a thread parked at 202 owns the lock and is about to wrap it in a guard) *)
Definition pc_holds (w : bool) (k : Z) (p : pc) : nat :=
  match p with PLocked w' k' _ _ => if Bool.eqb w w' && (k' =? k) then 1%nat else 0%nat | _ => 0%nat end.
Definition g_holds (w : bool) (k : Z) (g : guard) : bool := Bool.eqb w (g_w g) && (g_k g =? k).
Definition th_holds (w : bool) (k : Z) (th : thread) : nat :=
  (pc_holds w k (th_pc th) + length (filter (g_holds w k) (th_pg th)))%nat.
Fixpoint tsum (f : thread -> nat) (l : list (nat * thread)) : nat :=
  match l with [] => O | (_, th) :: r => (f th + tsum f r)%nat end.
Definition writers (s : St) (k : Z) : nat := tsum (th_holds true k) (ths s).
Definition readers (s : St) (k : Z) : nat := tsum (th_holds false k) (ths s).

Definition mutual_exclusion (s : St) : Prop :=
  forall k, (writers s k <= 1)%nat /\ ((writers s k = 1)%nat -> readers s k = 0%nat).

(* every thread has run to the end of its closure *)
Definition all_done (s : St) : Prop := forall t th, In (t, th) (ths s) -> finished th = true.
