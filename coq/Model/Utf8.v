(* UTF-8 (RFC 3629) on byte lists: the meaning of Rust's `str` <-> `char` conversions
   (`s.chars()` = decode, `iter.collect::<String>()` / `push(char)` = encode).
   Code points are Z; a `char` is a Unicode scalar value ([cp_ok]).  Bytes are Z in [0,256).
   Definitions only; the round-trip theorems are in Proof/Utf8.v.  Shared: other properties may reuse it. *)
From Coq Require Import ZArith List Bool.
From TV Require Import Lib.MachInt.
Import ListNotations.
Open Scope Z_scope.

(* Unicode scalar value: 0 ..= 0x10FFFF without the surrogates *)
Definition cp_ok (c : Z) : bool :=
  (0 <=? c) && (c <=? 1114111) && negb ((55296 <=? c) && (c <=? 57343)).

Definition cp_width (c : Z) : Z :=
  if c <? 128 then 1 else if c <? 2048 then 2 else if c <? 65536 then 3 else 4.

Definition encode_cp (c : Z) : list Z :=
  if c <? 128 then [c]
  else if c <? 2048 then [192 + c / 64; 128 + c mod 64]
  else if c <? 65536 then [224 + c / 4096; 128 + (c / 64) mod 64; 128 + c mod 64]
  else [240 + c / 262144; 128 + (c / 4096) mod 64; 128 + (c / 64) mod 64; 128 + c mod 64].

Definition encode_utf8 (cps : list Z) : list Z := flat_map encode_cp cps.

(* continuation byte 10xxxxxx *)
Definition is_cont (b : Z) : bool := (128 <=? b) && (b <=? 191).

(* strict decoder: rejects stray continuation bytes, truncated sequences, overlong forms,
   surrogates and values above 0x10FFFF - exactly the byte strings a Rust `str` can never hold *)
Fixpoint decode_utf8 (b : list Z) : option (list Z) :=
  match b with
  | [] => Some []
  | b0 :: t0 =>
      if (0 <=? b0) && (b0 <? 128) then option_map (cons b0) (decode_utf8 t0)
      else
        match t0 with
        | [] => None
        | b1 :: t1 =>
            if (194 <=? b0) && (b0 <=? 223) then
              if is_cont b1 then option_map (cons ((b0 - 192) * 64 + (b1 - 128))) (decode_utf8 t1) else None
            else
              match t1 with
              | [] => None
              | b2 :: t2 =>
                  if (224 <=? b0) && (b0 <=? 239) then
                    let c := (b0 - 224) * 4096 + (b1 - 128) * 64 + (b2 - 128) in
                    if is_cont b1 && is_cont b2 && (2048 <=? c) && negb ((55296 <=? c) && (c <=? 57343))
                    then option_map (cons c) (decode_utf8 t2) else None
                  else
                    match t2 with
                    | [] => None
                    | b3 :: t3 =>
                        if (240 <=? b0) && (b0 <=? 244) then
                          let c := (b0 - 240) * 262144 + (b1 - 128) * 4096 + (b2 - 128) * 64 + (b3 - 128) in
                          if is_cont b1 && is_cont b2 && is_cont b3 && (65536 <=? c) && (c <=? 1114111)
                          then option_map (cons c) (decode_utf8 t3) else None
                        else None
                    end
              end
        end
  end.

Definition valid_utf8 (b : list Z) : bool := match decode_utf8 b with Some _ => true | None => false end.

Definition cps_ok (cps : list Z) : bool := forallb cp_ok cps.
Definition is_ascii (cps : list Z) : bool := forallb (fun c => (0 <=? c) && (c <? 128)) cps.
