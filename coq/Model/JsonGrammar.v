(* C32 specification, text side: JSON documents (RFC 8259) as a data type -- every choice the grammar
   leaves open (whitespace, which characters are escaped and how, hex digit case, number spelling) is
   part of the value of type `dj`; `render` is the text, `erase` the JSON value it denotes.
   An escape \uD800..\uDFFF that is not half of a pair is not part of the grammar: it does not denote
   a Unicode string (and the parser rejects it).
   The grammar is slightly wider than the RFC (raw control bytes inside strings are allowed; the
   number text only has to start with '-' or a digit, continue with [0-9.eE+-] and be accepted by the
   float oracle), which only makes the theorems stronger.  Definitions only. *)
From Coq Require Import ZArith List Bool.
From TV Require Import Lib.MachInt Model.Jsonb.
Import ListNotations.
Open Scope Z_scope.

Definition ws_byte (c : Z) : bool := (c =? 32) || (c =? 9) || (c =? 10) || (c =? 13).
Definition all_ws (l : list Z) : bool := forallb ws_byte l.

Definition hex_digit (c : Z) : option Z :=
  if (48 <=? c) && (c <=? 57) then Some (c - 48)
  else if (97 <=? c) && (c <=? 102) then Some (c - 87)
  else if (65 <=? c) && (c <=? 70) then Some (c - 55)
  else None.
Definition hex_cp (a b c d : Z) : option Z :=
  match hex_digit a, hex_digit b, hex_digit c, hex_digit d with
  | Some x, Some y, Some z, Some w => Some (x * 4096 + y * 256 + z * 16 + w)
  | _, _, _, _ => None
  end.

(* UTF-8 of a Unicode scalar value *)
Definition utf8_of_cp (cp : Z) : list Z :=
  if cp <? 128 then [cp]
  else if cp <? 2048 then [192 + cp / 64; 128 + cp mod 64]
  else if cp <? 65536 then [224 + cp / 4096; 128 + (cp / 64) mod 64; 128 + cp mod 64]
  else [240 + cp / 262144; 128 + (cp / 4096) mod 64; 128 + (cp / 64) mod 64; 128 + cp mod 64].

Definition esc_val (e : Z) : option Z :=
  if e =? 34 then Some 34 else if e =? 92 then Some 92 else if e =? 47 then Some 47
  else if e =? 98 then Some 8 else if e =? 102 then Some 12 else if e =? 110 then Some 10
  else if e =? 114 then Some 13 else if e =? 116 then Some 9 else None.

Inductive dchar :=
| CRaw (b : Z)                          (* a byte of an unescaped character *)
| CEsc (e : Z)                          (* backslash followed by one of: quote, backslash, slash, b f n r t *)
| CU (a b c d : Z)                      (* \uXXXX, not a surrogate *)
| CPair (a b c d a2 b2 c2 d2 : Z).      (* \uD800-\uDBFF \uDC00-\uDFFF: one character outside the BMP *)

Definition render_char (c : dchar) : list Z :=
  match c with
  | CRaw b => [b]
  | CEsc e => [92; e]
  | CU a b c d => [92; 117; a; b; c; d]
  | CPair a b c d a2 b2 c2 d2 => [92; 117; a; b; c; d; 92; 117; a2; b2; c2; d2]
  end.
Definition char_value (c : dchar) : list Z :=
  match c with
  | CRaw b => [b]
  | CEsc e => match esc_val e with Some x => [x] | None => [] end
  | CU a b c d => match hex_cp a b c d with Some cp => utf8_of_cp cp | None => [] end
  | CPair a b c d a2 b2 c2 d2 =>
      match hex_cp a b c d, hex_cp a2 b2 c2 d2 with
      | Some hi, Some lo => utf8_of_cp (65536 + (hi - 55296) * 1024 + (lo - 56320))
      | _, _ => []
      end
  end.
Definition char_ok (c : dchar) : bool :=
  match c with
  | CRaw b => (0 <=? b) && (b <? 256) && negb (b =? 34) && negb (b =? 92)
  | CEsc e => match esc_val e with Some _ => true | None => false end
  | CU a b c d => match hex_cp a b c d with Some cp => negb ((55296 <=? cp) && (cp <=? 57343)) | None => false end
  | CPair a b c d a2 b2 c2 d2 =>
      match hex_cp a b c d, hex_cp a2 b2 c2 d2 with
      | Some hi, Some lo => (55296 <=? hi) && (hi <=? 56319) && (56320 <=? lo) && (lo <=? 57343)
      | _, _ => false
      end
  end.

Definition render_str (s : list dchar) : list Z := 34 :: flat_map render_char s ++ [34].
Definition str_value (s : list dchar) : list Z := flat_map char_value s.

Definition num_byte (c : Z) : bool :=
  ((48 <=? c) && (c <=? 57)) || (c =? 46) || (c =? 101) || (c =? 69) || (c =? 43) || (c =? 45).

Inductive dj :=
| DNull
| DBool (b : bool)
| DNum (text : list Z) (bits : Z)
| DStr (s : list dchar)
| DWs (pre : list Z) (v : dj) (post : list Z)          (* ws value ws *)
| DArr (w : list Z) (els : list dj)                    (* [ w ] when els is empty, else [ e1 , e2 ... ] *)
| DObj (w : list Z) (ms : list (list Z * list dchar * list Z * dj)).   (* member: w1 key-string w2 : value *)

Fixpoint join (sep : Z) (parts : list (list Z)) : list Z :=
  match parts with
  | [] => []
  | [p] => p
  | p :: t => p ++ sep :: join sep t
  end.

Fixpoint render (d : dj) : list Z :=
  match d with
  | DNull => [110; 117; 108; 108]
  | DBool true => [116; 114; 117; 101]
  | DBool false => [102; 97; 108; 115; 101]
  | DNum text _ => text
  | DStr s => render_str s
  | DWs pre v post => pre ++ render v ++ post
  | DArr w els => 91 :: (match els with [] => w | _ => join 44 (map render els) end) ++ [93]
  | DObj w ms =>
      123 :: (match ms with
              | [] => w
              | _ => join 44 (map (fun m => match m with (w1, k, w2, v) => w1 ++ render_str k ++ w2 ++ 58 :: render v end) ms)
              end) ++ [125]
  end.

Fixpoint erase (d : dj) : json :=
  match d with
  | DNull => JNull
  | DBool b => JBool b
  | DNum _ bits => JNum bits
  | DStr s => JStr (str_value s)
  | DWs _ v _ => erase v
  | DArr _ els => JArr (map erase els)
  | DObj _ ms => JObj (map (fun m => match m with (_, k, _, v) => (str_value k, erase v) end) ms)
  end.

(* whitespace after the value that the parser leaves unread *)
Fixpoint trail (d : dj) : list Z :=
  match d with
  | DWs _ v post => trail v ++ post
  | _ => []
  end.

Section WF.
  Variable num_of : list Z -> res Z.     (* str::parse::<f64> *)

  Definition str_ok (s : list dchar) : bool := forallb char_ok s.

  Definition num_ok (text : list Z) (bits : Z) : bool :=
    match text with
    | c :: run => ((c =? 45) || ((48 <=? c) && (c <=? 57))) && forallb num_byte run &&
                  match num_of text with Ok b => b =? bits | _ => false end
    | [] => false
    end.

  Fixpoint dj_ok (d : dj) : bool :=
    match d with
    | DNum text bits => num_ok text bits
    | DStr s => str_ok s
    | DWs pre v post => all_ws pre && dj_ok v && all_ws post
    | DArr w els => all_ws w && forallb dj_ok els
    | DObj w ms => all_ws w && forallb (fun m => match m with (w1, k, w2, v) => all_ws w1 && str_ok k && all_ws w2 && dj_ok v end) ms
    | _ => true
    end.
End WF.
