(* C05 / C06 -- relational REFERENCE model of INSERT / UPDATE / DELETE / TRUNCATE on one table.
   Definitions only.  A table is a list of rows (a bag: the order is not meaningful, the
   correspondence compares bags); the hidden row identity is the position in the list.
   The reference is independent of TurDB's code: it says what standard SQL demands.

   * schema: column 0 is the (optional) key column -- no constraint, PRIMARY KEY or UNIQUE --,
     every column has a type (BIGINT / DOUBLE PRECISION / TEXT) and a NOT NULL flag.
   * statements: INSERT of full-width rows [RETURNING star], DELETE [WHERE e] [RETURNING star],
     UPDATE SET c_i = e_i, ... [WHERE e] [RETURNING star], TRUNCATE.
   * SMissing stands for any statement on a table that does not exist (refused, no effect).
   * results: RAff n ret (affected-row count, RETURNING rows) or RErr (the statement is refused
     and, by the reference, has NO effect).
   * `spec_step` returns None where the reference does not say (the WHERE predicate or a SET
     expression is undefined on some row -- see Model/SqlSpec.v --, a value that does not fit
     its column type, an assignment to the key column): checks treat None as "no demand". *)
From Coq Require Import ZArith List Bool.
From TV Require Import Model.SqlSpec.
Import ListNotations.
Open Scope Z_scope.

Inductive cty := TInt | TFloat | TText.
Inductive kkind := KNone | KPk | KUniq.
Record schema := mkSchema { s_key : kkind; s_tys : list cty; s_nn : list bool }.

Inductive stmt :=
| SInsert (rows : list row) (ret : bool)
| SDelete (w : option expr) (ret : bool)
| SUpdate (sets : list (nat * expr)) (w : option expr) (ret : bool)
| STruncate
| SMissing.          (* a statement that names a table which does not exist *)

(* RPanic / RUnmod are never produced by the reference: RPanic is an observation (the
   implementation panicked), RUnmod is the implementation model's "outside the modelled
   fragment" *)
Inductive result :=
| RAff (n : Z) (ret : option (list row))
| RErr
| RPanic
| RUnmod.

(* what is visible after a statement: its result, the rows of SELECT star, the value of COUNT star *)
Record obs := mkObs { o_res : result; o_rows : table; o_cnt : Z }.

(* ------------------------------------------------------------------ rows against the schema *)
Definition is_null (v : value) : bool := match v with VNull => true | _ => false end.
Definition key_of (r : row) : value := match r with k :: _ => k | [] => VNull end.
Definition keyed (sch : schema) : bool := match s_key sch with KNone => false | _ => true end.

Definition fits (ty : cty) (v : value) : bool :=
  match v, ty with
  | VNull, _ => true
  | VInt z, TInt => i64_ok z
  | VFloat b, TFloat => f_ok b
  | VText _, TText => true
  | _, _ => false
  end.
Fixpoint row_fits (tys : list cty) (r : row) : bool :=
  match tys, r with
  | [], [] => true
  | ty :: tys', v :: r' => fits ty v && row_fits tys' r'
  | _, _ => false
  end.

(* a text literal where a number is expected: a type error (the statement must be refused) *)
Definition type_err (ty : cty) (v : value) : bool :=
  match v, ty with
  | VText _, TInt | VText _, TFloat => true
  | _, _ => false
  end.
(* every value of the row fits its column or is such a type error (other mismatches -- a number
   for a TEXT column, an integer for a DOUBLE column ... -- are coercion questions on which the
   reference does not speak) *)
Fixpoint row_known (tys : list cty) (r : row) : bool :=
  match tys, r with
  | [], [] => true
  | ty :: tys', v :: r' => (fits ty v || type_err ty v) && row_known tys' r'
  | _, _ => false
  end.

Fixpoint nn_cols (nn : list bool) (r : row) : bool :=
  match nn, r with
  | b :: nn', v :: r' => (negb b || negb (is_null v)) && nn_cols nn' r'
  | _, _ => true
  end.
(* NOT NULL columns hold a value; a PRIMARY KEY is never NULL *)
Definition nn_ok (sch : schema) (r : row) : bool :=
  nn_cols (s_nn sch) r && match s_key sch with KPk => negb (is_null (key_of r)) | _ => true end.

(* the key of r (not NULL) is already present in t *)
Definition key_conflict (sch : schema) (t : table) (r : row) : bool :=
  keyed sch && negb (is_null (key_of r)) && existsb (fun r' => value_eqb (key_of r') (key_of r)) t.
Definition row_ok (sch : schema) (t : table) (r : row) : bool :=
  row_fits (s_tys sch) r && nn_ok sch r && negb (key_conflict sch t r).
(* every row of the statement is acceptable, each one against the table extended by the rows
   before it *)
Fixpoint ins_ok (sch : schema) (t : table) (rows : list row) : bool :=
  match rows with
  | [] => true
  | r :: rs => row_ok sch t r && ins_ok sch (t ++ [r]) rs
  end.

(* ------------------------------------------------------------------ WHERE *)
Definition wsel (w : option expr) (r : row) : option bool :=
  match w with
  | None => Some true
  | Some e => match sem3 e r with Some TT => Some true | Some _ => Some false | None => None end
  end.
Definition wpass (w : option expr) (r : row) : bool :=
  match wsel w r with Some true => true | _ => false end.
Definition wdefined (w : option expr) (t : table) : bool :=
  forallb (fun r => match wsel w r with Some _ => true | None => false end) t.

(* ------------------------------------------------------------------ UPDATE SET *)
Fixpoint assoc_set (i : nat) (sets : list (nat * expr)) : option expr :=
  match sets with
  | [] => None
  | (j, e) :: sets' => if Nat.eqb i j then Some e else assoc_set i sets'
  end.
(* the new row, column by column: every SET expression is evaluated on the OLD row *)
Fixpoint upd_cols (sets : list (nat * expr)) (old : row) (tys : list cty) (i : nat) (cur : row) : option row :=
  match cur, tys with
  | [], [] => Some []
  | v :: cur', ty :: tys' =>
      match (match assoc_set i sets with Some e => eval e old | None => Some v end),
            upd_cols sets old tys' (S i) cur' with
      | Some x, Some rest => if fits ty x then Some (x :: rest) else None
      | _, _ => None
      end
  | _, _ => None
  end.
Definition spec_upd_row (sch : schema) (sets : list (nat * expr)) (r : row) : option row :=
  upd_cols sets r (s_tys sch) 0 r.
(* no assignment to the key column of a keyed table (uniqueness of updated keys is C09's subject) *)
Definition sets_plain (sch : schema) (sets : list (nat * expr)) : bool :=
  negb (keyed sch) || forallb (fun p => negb (Nat.eqb (fst p) 0)) sets.

(* the table after UPDATE (rows in place) and the list of new rows, None if undefined *)
Fixpoint spec_upd (sch : schema) (sets : list (nat * expr)) (w : option expr) (t : table)
  : option (table * list row) :=
  match t with
  | [] => Some ([], [])
  | r :: t' =>
      match wsel w r, spec_upd sch sets w t' with
      | Some true, Some (t2, news) =>
          match spec_upd_row sch sets r with
          | Some r2 => Some (r2 :: t2, r2 :: news)
          | None => None
          end
      | Some false, Some (t2, news) => Some (r :: t2, news)
      | _, _ => None
      end
  end.

Definition zlen {A} (l : list A) : Z := Z.of_nat (length l).
Definition ret_of (ret : bool) (rows : list row) : option (list row) := if ret then Some rows else None.

(* ------------------------------------------------------------------ one statement *)
Definition spec_step (sch : schema) (t : table) (s : stmt) : option (result * table) :=
  match s with
  | SInsert rows ret =>
      if forallb (row_known (s_tys sch)) rows then
        if ins_ok sch t rows then Some (RAff (zlen rows) (ret_of ret rows), t ++ rows)
        else Some (RErr, t)
      else None
  | SDelete w ret =>
      if wdefined w t then
        let gone := filter (wpass w) t in
        Some (RAff (zlen gone) (ret_of ret gone), filter (fun r => negb (wpass w r)) t)
      else None
  | SUpdate sets w ret =>
      if sets_plain sch sets then
        match spec_upd sch sets w t with
        | Some (t2, news) =>
            if forallb (nn_ok sch) news then Some (RAff (zlen news) (ret_of ret news), t2)
            else Some (RErr, t)
        | None => None
        end
      else None
  | STruncate => Some (RAff (zlen t) None, [])
  | SMissing => Some (RErr, t)
  end.

(* the observations the reference predicts for a history, statement by statement; COUNT star is
   the number of rows.  None = undefined somewhere in the history *)
Fixpoint spec_trace (sch : schema) (t : table) (h : list stmt) : option (list obs) :=
  match h with
  | [] => Some []
  | s :: h' =>
      match spec_step sch t s with
      | Some (r, t') =>
          match spec_trace sch t' h' with
          | Some tr => Some (mkObs r t' (zlen t') :: tr)
          | None => None
          end
      | None => None
      end
  end.
Fixpoint spec_run (sch : schema) (t : table) (h : list stmt) : option table :=
  match h with
  | [] => Some t
  | s :: h' => match spec_step sch t s with Some (_, t') => spec_run sch t' h' | None => None end
  end.
