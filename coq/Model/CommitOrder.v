(* C38: concurrent commits and the order of page images in the log.  Definitions only.

   A layer on top of Model/GroupCommit.v (the C37 model of the group-commit queue and of the caller
   protocol of execute_small_commit).  The layer adds what happens BEFORE submit_and_wait:

     - handles modify pages in place (shared by all handles) and the modification marks the page
       in the GLOBAL dirty tracker (src/database/dirty_tracker.rs: one set per table id, shared by
       all handles) - one atomic step per write in this model;
     - COMMIT (Database::execute_commit): read the set of dirty tables (all_dirty_table_ids);
       if it is empty the commit returns Ok at once; otherwise execute_small_commit CAPTURES,
       under the file-manager lock, the current image of every tracked dirty page - including
       other handles' uncommitted modifications - and drains the tracker; the lock is released
       (hook site 401) and only then the payload is submitted to the queue (the C37 protocol;
       [fx] = true is the code as it is, see Model/GroupCommit.v).

   A page image is the set of updates applied to the page so far, as a bit mask (update u = bit u);
   images only grow, so "newer" is "superset".  The log of frames is the concatenation of the
   payloads of the batch ids in the C37 log.  One table = one page here (the harness keeps every
   table on a single data page).

   Ghost flags: [inverted] (a payload is queued after a payload holding a strictly newer image of
   one of its pages was queued), [borrowed] (at commit, a page written by the transaction is no
   longer in the dirty tracker: another handle's capture took it). *)
From Coq Require Import ZArith List Bool Arith.
From TV Require Import Lib.Interleave Model.GroupCommit.
Import ListNotations.
Open Scope Z_scope.

(* a transaction: its writes (page, update id) *)
Definition txn := list (Z * Z).

Inductive lpcT := LIdle | LWrite (ws : list (Z * Z)) | L400 | LRead | LCapture | LCommit.

Record lthr := LThr {
  lprog : list txn;            (* transactions still to do *)
  lcur : txn;                  (* the transaction in progress *)
  lpc : lpcT;
  lk : Z;                      (* number of transactions started *)
  lpayload : list (Z * Z)      (* captured frames (page, image) *)
}.

(* acknowledgement of a transaction: thread, number, its writes, Ok?, number of frames in the log
   at the return *)
Record lack := LAck { la_thr : nat; la_k : Z; la_writes : txn; la_ok : bool; la_frames : Z }.

Record St38 := MkSt38 {
  base : St;                           (* the C37 system *)
  images : list (Z * Z);               (* page -> image (absent = 0) *)
  tracker : list Z;                    (* dirty pages, ascending *)
  payloads : list (Z * list (Z * Z));  (* batch id -> frames, in push order *)
  lthrs : list (nat * lthr);
  lacks : list lack;
  borrowed : bool;
  inverted : bool
}.

Fixpoint image_of (im : list (Z * Z)) (p : Z) : Z :=
  match im with [] => 0 | (q, v) :: r => if q =? p then v else image_of r p end.
Fixpoint image_set (im : list (Z * Z)) (p v : Z) : list (Z * Z) :=
  match im with
  | [] => [(p, v)]
  | (q, w) :: r => if q =? p then (q, v) :: r else (q, w) :: image_set r p v
  end.
Fixpoint insert_sorted (p : Z) (l : list Z) : list Z :=
  match l with
  | [] => [p]
  | q :: r => if p <? q then p :: q :: r else if p =? q then q :: r else q :: insert_sorted p r
  end.
Fixpoint payload_of (ps : list (Z * list (Z * Z))) (id : Z) : list (Z * Z) :=
  match ps with [] => [] | (i, f) :: r => if i =? id then f else payload_of r id end.

(* the log as a sequence of frames (page, image) *)
Definition frames (s : St38) : list (Z * Z) :=
  flat_map (payload_of (payloads s)) (log (sh (base s))).

(* image a is contained in image b *)
Definition sub_image (a b : Z) : bool := Z.land a b =? a.
(* some already queued payload holds a strictly newer image of a page of payload f *)
Definition newer_queued (ps : list (Z * list (Z * Z))) (f : list (Z * Z)) : bool :=
  existsb (fun e : Z * list (Z * Z) =>
    existsb (fun g : Z * Z =>
      existsb (fun h : Z * Z => (fst g =? fst h) && sub_image (snd h) (snd g) && negb (snd g =? snd h)) f)
      (snd e)) ps.

Definition base_finished (s : St) (t : nat) : bool :=
  match lget (thrs s) t with Some th => finished th | None => true end.
Definition set_base_prog (s : St) (t : nat) (p : list op) : St :=
  match lget (thrs s) t with
  | Some th => MkSt (sh s) (lset (thrs s) t (Thr p (cur th) (pc th) (kidx th) (myid th) (elected th) (batch th) (wok th)))
  | None => s
  end.
(* did the commit that base thread t has just finished return Ok?  (acknowledgements carry the
   thread and its commit number) *)
Definition last_ok (s : St) (t : nat) : bool :=
  match lget (thrs s) t with
  | Some th => existsb (fun a => Nat.eqb (a_thr a) t && (a_k a =? kidx th) &&
                                 match a_res a with ROk => true | _ => false end) (acks (sh s))
  | None => false
  end.

Definition upd_l (s : St38) (t : nat) (lt : lthr) : St38 :=
  MkSt38 (base s) (images s) (tracker s) (payloads s) (lset (lthrs s) t lt) (lacks s) (borrowed s) (inverted s).

Definition nframes (s : St38) : Z := Z.of_nat (length (frames s)).

Definition step38 (fx : bool) (t : nat) (s : St38) : option St38 :=
  match lget (lthrs s) t with
  | None => None
  | Some lt =>
    match lpc lt with
    | LIdle =>
        match lprog lt with
        | [] => None
        | x :: r => Some (upd_l s t (LThr r x (LWrite x) (lk lt + 1) []))
        end
    | LWrite [] => Some (upd_l s t (LThr (lprog lt) (lcur lt) L400 (lk lt) (lpayload lt)))
    | LWrite ((p, u) :: ws) =>
        Some (MkSt38 (base s) (image_set (images s) p (Z.lor (image_of (images s) p) (2 ^ u)))
                     (insert_sorted p (tracker s)) (payloads s)
                     (lset (lthrs s) t (LThr (lprog lt) (lcur lt) (LWrite ws) (lk lt) (lpayload lt)))
                     (lacks s) (borrowed s) (inverted s))
    | L400 => Some (upd_l s t (LThr (lprog lt) (lcur lt) LRead (lk lt) (lpayload lt)))
    | LRead =>
        match tracker s with
        | [] => (* nothing dirty: execute_commit skips the WAL commit and returns Ok *)
            Some (MkSt38 (base s) (images s) (tracker s) (payloads s)
                         (lset (lthrs s) t (LThr (lprog lt) (lcur lt) LIdle (lk lt) (lpayload lt)))
                         (lacks s ++ [LAck t (lk lt) (lcur lt) true (nframes s)])
                         (borrowed s || nonempty (lcur lt)) (inverted s))
        | _ => Some (upd_l s t (LThr (lprog lt) (lcur lt) LCapture (lk lt) (lpayload lt)))
        end
    | LCapture =>
        let f := map (fun p => (p, image_of (images s) p)) (tracker s) in
        Some (MkSt38 (set_base_prog (base s) t [Commit (negb (nonempty f)) None])
                     (images s) [] (payloads s)
                     (lset (lthrs s) t (LThr (lprog lt) (lcur lt) LCommit (lk lt) f))
                     (lacks s)
                     (borrowed s || existsb (fun w : Z * Z => negb (memZ (fst w) (tracker s))) (lcur lt))
                     (inverted s))
    | LCommit =>
        if base_finished (base s) t then
          Some (MkSt38 (base s) (images s) (tracker s) (payloads s)
                       (lset (lthrs s) t (LThr (lprog lt) (lcur lt) LIdle (lk lt) (lpayload lt)))
                       (lacks s ++ [LAck t (lk lt) (lcur lt) (last_ok (base s) t) (nframes s)])
                       (borrowed s) (inverted s))
        else
          match step fx t (base s) with
          | None => None
          | Some b' =>
              let pushed := negb (next_id (sh b') =? next_id (sh (base s))) in
              Some (MkSt38 b' (images s) (tracker s)
                           (if pushed then payloads s ++ [(next_id (sh (base s)), lpayload lt)] else payloads s)
                           (lthrs s) (lacks s) (borrowed s)
                           (inverted s || (pushed && newer_queued (payloads s) (lpayload lt))))
          end
    end
  end.

(* ---- initial state: thread t runs the t-th list of transactions; the base threads have no
   program of their own (the layer hands them one commit at a time) *)
Definition init38 (progs : list (list txn)) : St38 :=
  MkSt38 (init (map (fun _ => []) progs)) [] [] []
         (number_from 0 (map (fun p => LThr p [] LIdle 0 []) progs)) [] false false.

(* ---- scheduler view (the sites of the real execute_small_commit, 404 included; site 400 is the
   harness's own, between the writes and COMMIT) *)
Definition finished38 (lt : lthr) : bool :=
  match lpc lt, lprog lt with LIdle, [] => true | _, _ => false end.
Definition status38 (t : nat) (s : St38) : Z :=
  match lget (lthrs s) t with
  | None => -1
  | Some lt =>
      if finished38 lt then 2 else
      match lpc lt with
      | LIdle => 0
      | L400 => 400
      | LCommit => if base_finished (base s) t then -2 else status true t (base s)
      | _ => -2
      end
  end.
Definition at_site38 (t : nat) (s : St38) : bool :=
  let x := status38 t s in (x =? -1) || (x =? 2) || (300 <=? x).
Definition blocked38 (t : nat) (s : St38) : bool := status38 t s =? 1.
Definition woken38 (t : nat) (s : St38) : bool :=
  match lget (lthrs s) t with
  | Some lt => match lpc lt with LCommit => woken t (base s) | _ => false end
  | None => false
  end.

Definition coarse38 (fx : bool) (t : nat) (s : St38) : St38 :=
  run_until (step38 fx) at_site38 fuel0 t s.
Definition settle38 (fx : bool) (s : St38) : St38 :=
  fold_left (fun acc (e : nat * lthr) => if woken38 (fst e) acc then coarse38 fx (fst e) acc else acc)
            (lthrs s) s.
Definition sched_step38 (fx : bool) (t : nat) (s : St38) : St38 :=
  if blocked38 t s then s else settle38 fx (coarse38 fx t s).

Definition obs38 (s : St38) : list Z * Z :=
  (map (fun e : nat * lthr => status38 (fst e) s) (lthrs s), nframes s).
Definition outcome38 (t : nat) (before after : St38) : Z :=
  let b := status38 t before in
  if (b =? 1) || (b =? 2) || (b =? -1) then 3 else status38 t after.
Fixpoint exec_obs38 (fx : bool) (sched : list nat) (s : St38) : St38 * list (Z * (list Z * Z)) :=
  match sched with
  | [] => (s, [])
  | t :: rest =>
      let s' := sched_step38 fx t s in
      let (sf, os) := exec_obs38 fx rest s' in
      (sf, (outcome38 t s s', obs38 s') :: os)
  end.
Definition all_finished38 (s : St38) : bool :=
  forallb (fun e : nat * lthr => finished38 (snd e)) (lthrs s).

(* ---- the property on a state *)
(* order: for every page, the last frame of the page holds the newest image among its frames *)
Fixpoint last_image (fs : list (Z * Z)) (p : Z) (acc : option Z) : option Z :=
  match fs with
  | [] => acc
  | (q, v) :: r => last_image r p (if q =? p then Some v else acc)
  end.
Definition order_ok (fs : list (Z * Z)) : bool :=
  forallb (fun f : Z * Z =>
             match last_image fs (fst f) None with
             | Some v => sub_image (snd f) v
             | None => false
             end) fs.
(* coverage: every write of an acknowledged transaction is contained in a frame of its page that
   was in the log when the transaction returned *)
Definition covered (fs : list (Z * Z)) (a : lack) : bool :=
  negb (la_ok a) ||
  forallb (fun w : Z * Z =>
             existsb (fun f : Z * Z => (fst f =? fst w) && Z.testbit (snd f) (snd w))
                     (firstn (Z.to_nat (la_frames a)) fs)) (la_writes a).
