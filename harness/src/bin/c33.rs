//! C33 spilled rows: RowSerde (serialize_row_into / deserialize_row_into / row_size) on generated
//! rows over every `Value` variant, sequences of rows in one buffer, malformed streams,
//! PartitionSpiller write-then-read (which stores rows through RowSerde once it spills) and the
//! subquery SpillableBuffer write-then-read (its own little-endian format).
//!
//! Floats are reported as their bit patterns (u64 / u32), text as its UTF-8 bytes.
use std::borrow::Cow;
use tvh::*;
use turdb::sql::partition_spiller::PartitionSpiller;
use turdb::sql::row_serde::RowSerde;
use turdb::sql::subquery::spill::{MaterializedRow, SpillableBuffer};
use turdb::types::{OwnedValue, Value};

// ------------------------------------------------------------------ harness-side value
#[derive(Clone, Debug, PartialEq)]
enum V {
    Null,
    Int(i64),
    Float(u64),
    Text(Vec<u8>),
    Blob(Vec<u8>),
    Vector(Vec<u32>),
    Uuid([u8; 16]),
    Mac([u8; 6]),
    Inet4([u8; 4]),
    Inet6([u8; 16]),
    Jsonb(Vec<u8>),
    Tz(i64, i32),
    Interval(i64, i32, i32),
    Point(u64, u64),
    GeoBox([u64; 4]),
    Circle([u64; 3]),
    Enum(u16, u16),
    Decimal(i128, i16),
    Toast(Vec<u8>),
    // OwnedValue only (subquery spill format)
    Bool(bool),
    Date(i32),
    Time(i64),
    Timestamp(i64),
}

fn fb(p: u64) -> f64 { f64::from_bits(p) }

fn to_value(v: &V) -> Value<'static> {
    match v {
        V::Null => Value::Null,
        V::Int(i) => Value::Int(*i),
        V::Float(p) => Value::Float(fb(*p)),
        V::Text(b) => Value::Text(Cow::Owned(String::from_utf8_lossy(b).into_owned())),
        V::Blob(b) => Value::Blob(Cow::Owned(b.clone())),
        V::Vector(f) => Value::Vector(Cow::Owned(f.iter().map(|x| f32::from_bits(*x)).collect())),
        V::Uuid(b) => Value::Uuid(*b),
        V::Mac(b) => Value::MacAddr(*b),
        V::Inet4(b) => Value::Inet4(*b),
        V::Inet6(b) => Value::Inet6(*b),
        V::Jsonb(b) => Value::Jsonb(Cow::Owned(b.clone())),
        V::Tz(m, o) => Value::TimestampTz { micros: *m, offset_secs: *o },
        V::Interval(m, d, mo) => Value::Interval { micros: *m, days: *d, months: *mo },
        V::Point(x, y) => Value::Point { x: fb(*x), y: fb(*y) },
        V::GeoBox(a) => Value::GeoBox { low: (fb(a[0]), fb(a[1])), high: (fb(a[2]), fb(a[3])) },
        V::Circle(a) => Value::Circle { center: (fb(a[0]), fb(a[1])), radius: fb(a[2]) },
        V::Enum(t, o) => Value::Enum { type_id: *t, ordinal: *o },
        V::Decimal(d, s) => Value::Decimal { digits: *d, scale: *s },
        V::Toast(b) => Value::ToastPointer(Cow::Owned(b.clone())),
        // not representable as Value: never generated for the RowSerde paths
        V::Bool(_) | V::Date(_) | V::Time(_) | V::Timestamp(_) => Value::Null,
    }
}

fn from_value(v: &Value<'_>) -> V {
    match v {
        Value::Null => V::Null,
        Value::Int(i) => V::Int(*i),
        Value::Float(f) => V::Float(f.to_bits()),
        Value::Text(s) => V::Text(s.as_bytes().to_vec()),
        Value::Blob(b) => V::Blob(b.to_vec()),
        Value::Vector(f) => V::Vector(f.iter().map(|x| x.to_bits()).collect()),
        Value::Uuid(b) => V::Uuid(*b),
        Value::MacAddr(b) => V::Mac(*b),
        Value::Inet4(b) => V::Inet4(*b),
        Value::Inet6(b) => V::Inet6(*b),
        Value::Jsonb(b) => V::Jsonb(b.to_vec()),
        Value::TimestampTz { micros, offset_secs } => V::Tz(*micros, *offset_secs),
        Value::Interval { micros, days, months } => V::Interval(*micros, *days, *months),
        Value::Point { x, y } => V::Point(x.to_bits(), y.to_bits()),
        Value::GeoBox { low, high } => V::GeoBox([low.0.to_bits(), low.1.to_bits(), high.0.to_bits(), high.1.to_bits()]),
        Value::Circle { center, radius } => V::Circle([center.0.to_bits(), center.1.to_bits(), radius.to_bits()]),
        Value::Enum { type_id, ordinal } => V::Enum(*type_id, *ordinal),
        Value::Decimal { digits, scale } => V::Decimal(*digits, *scale),
        Value::ToastPointer(b) => V::Toast(b.to_vec()),
    }
}

fn to_owned(v: &V) -> OwnedValue {
    match v {
        V::Null => OwnedValue::Null,
        V::Int(i) => OwnedValue::Int(*i),
        V::Float(p) => OwnedValue::Float(fb(*p)),
        V::Text(b) => OwnedValue::Text(String::from_utf8_lossy(b).into_owned()),
        V::Blob(b) => OwnedValue::Blob(b.clone()),
        V::Vector(f) => OwnedValue::Vector(f.iter().map(|x| f32::from_bits(*x)).collect()),
        V::Uuid(b) => OwnedValue::Uuid(*b),
        V::Mac(b) => OwnedValue::MacAddr(*b),
        V::Inet4(b) => OwnedValue::Inet4(*b),
        V::Inet6(b) => OwnedValue::Inet6(*b),
        V::Jsonb(b) => OwnedValue::Jsonb(b.clone()),
        V::Tz(m, o) => OwnedValue::TimestampTz(*m, *o),
        V::Interval(m, d, mo) => OwnedValue::Interval(*m, *d, *mo),
        V::Point(x, y) => OwnedValue::Point(fb(*x), fb(*y)),
        V::GeoBox(a) => OwnedValue::Box((fb(a[0]), fb(a[1])), (fb(a[2]), fb(a[3]))),
        V::Circle(a) => OwnedValue::Circle((fb(a[0]), fb(a[1])), fb(a[2])),
        V::Enum(t, o) => OwnedValue::Enum(*t, *o),
        V::Decimal(d, s) => OwnedValue::Decimal(*d, *s),
        V::Toast(b) => OwnedValue::ToastPointer(b.clone()),
        V::Bool(b) => OwnedValue::Bool(*b),
        V::Date(d) => OwnedValue::Date(*d),
        V::Time(t) => OwnedValue::Time(*t),
        V::Timestamp(t) => OwnedValue::Timestamp(*t),
    }
}

fn from_owned(v: &OwnedValue) -> V {
    match v {
        OwnedValue::Null => V::Null,
        OwnedValue::Bool(b) => V::Bool(*b),
        OwnedValue::Int(i) => V::Int(*i),
        OwnedValue::Float(f) => V::Float(f.to_bits()),
        OwnedValue::Text(s) => V::Text(s.as_bytes().to_vec()),
        OwnedValue::Blob(b) => V::Blob(b.clone()),
        OwnedValue::Vector(f) => V::Vector(f.iter().map(|x| x.to_bits()).collect()),
        OwnedValue::Date(d) => V::Date(*d),
        OwnedValue::Time(t) => V::Time(*t),
        OwnedValue::Timestamp(t) => V::Timestamp(*t),
        OwnedValue::TimestampTz(m, o) => V::Tz(*m, *o),
        OwnedValue::Uuid(b) => V::Uuid(*b),
        OwnedValue::MacAddr(b) => V::Mac(*b),
        OwnedValue::Inet4(b) => V::Inet4(*b),
        OwnedValue::Inet6(b) => V::Inet6(*b),
        OwnedValue::Interval(m, d, mo) => V::Interval(*m, *d, *mo),
        OwnedValue::Point(x, y) => V::Point(x.to_bits(), y.to_bits()),
        OwnedValue::Box(l, h) => V::GeoBox([l.0.to_bits(), l.1.to_bits(), h.0.to_bits(), h.1.to_bits()]),
        OwnedValue::Circle(c, r) => V::Circle([c.0.to_bits(), c.1.to_bits(), r.to_bits()]),
        OwnedValue::Jsonb(b) => V::Jsonb(b.clone()),
        OwnedValue::Decimal(d, s) => V::Decimal(*d, *s),
        OwnedValue::Enum(t, o) => V::Enum(*t, *o),
        OwnedValue::ToastPointer(b) => V::Toast(b.clone()),
    }
}

// ------------------------------------------------------------------ printers: Coq terms
fn zi(v: i128) -> String { if v < 0 { format!("({})", v) } else { format!("{}", v) } }
fn cu32s(f: &[u32]) -> String {
    if f.len() >= 32 && f.iter().all(|x| *x == f[0]) { return format!("(repeat {} (Z.to_nat {}))", f[0], f.len()); }
    let mut s = String::from("[");
    for (i, x) in f.iter().enumerate() { if i > 0 { s.push(';'); } s.push_str(&x.to_string()); }
    s.push(']');
    s
}
/// byte list as a Gallina term; long runs of one byte become `repeat b (Z.to_nat n)` so that
/// payloads of tens of kilobytes stay small in the case file
fn cbytes(b: &[u8]) -> String {
    if b.len() < 48 { return tvh::cbytes(b); }
    let mut parts: Vec<String> = vec![];
    let mut lit: Vec<u8> = vec![];
    let mut i = 0;
    while i < b.len() {
        let mut j = i;
        while j < b.len() && b[j] == b[i] { j += 1; }
        if j - i >= 32 {
            if !lit.is_empty() { parts.push(tvh::cbytes(&lit)); lit.clear(); }
            parts.push(format!("repeat {} (Z.to_nat {})", b[i], j - i));
        } else {
            lit.extend_from_slice(&b[i..j]);
        }
        i = j;
    }
    if !lit.is_empty() { parts.push(tvh::cbytes(&lit)); }
    if parts.len() == 1 && parts[0].starts_with('[') { return parts.pop().unwrap(); }
    format!("({})", parts.join(" ++ "))
}
fn vterm(v: &V) -> String {
    match v {
        V::Null => "VNull".into(),
        V::Int(i) => format!("VInt {}", zi(*i as i128)),
        V::Float(p) => format!("VFloat {}", p),
        V::Text(b) => format!("VText {}", cbytes(b)),
        V::Blob(b) => format!("VBlob {}", cbytes(b)),
        V::Vector(f) => format!("VVector {}", cu32s(f)),
        V::Uuid(b) => format!("VUuid {}", cbytes(b)),
        V::Mac(b) => format!("VMacAddr {}", cbytes(b)),
        V::Inet4(b) => format!("VInet4 {}", cbytes(b)),
        V::Inet6(b) => format!("VInet6 {}", cbytes(b)),
        V::Jsonb(b) => format!("VJsonb {}", cbytes(b)),
        V::Tz(m, o) => format!("VTimestampTz {} {}", zi(*m as i128), zi(*o as i128)),
        V::Interval(m, d, mo) => format!("VInterval {} {} {}", zi(*m as i128), zi(*d as i128), zi(*mo as i128)),
        V::Point(x, y) => format!("VPoint {} {}", x, y),
        V::GeoBox(a) => format!("VGeoBox {} {} {} {}", a[0], a[1], a[2], a[3]),
        V::Circle(a) => format!("VCircle {} {} {}", a[0], a[1], a[2]),
        V::Enum(t, o) => format!("VEnum {} {}", t, o),
        V::Decimal(d, s) => format!("VDecimal {} {}", zi(*d), zi(*s as i128)),
        V::Toast(b) => format!("VToast {}", cbytes(b)),
        V::Bool(_) | V::Date(_) | V::Time(_) | V::Timestamp(_) => "VNull".into(),   // never printed: see ovterm
    }
}
/// OwnedValue (subquery spill) as the model's `ovalue`
fn ovterm(v: &V) -> String {
    match v {
        V::Bool(b) => format!("OBool {}", cbool(*b)),
        V::Date(d) => format!("ODate {}", zi(*d as i128)),
        V::Time(t) => format!("OTime {}", zi(*t as i128)),
        V::Timestamp(t) => format!("OTimestamp {}", zi(*t as i128)),
        V::Null => "OV VNull".into(),
        _ => format!("OV ({})", vterm(v)),
    }
}
fn orowsterm(rs: &[Vec<V>]) -> String { clist(&rs.iter().map(|r| clist(&r.iter().map(ovterm).collect::<Vec<_>>())).collect::<Vec<_>>()) }
fn rowterm(r: &[V]) -> String { clist(&r.iter().map(vterm).collect::<Vec<_>>()) }
fn rowsterm(rs: &[Vec<V>]) -> String { clist(&rs.iter().map(|r| rowterm(r)).collect::<Vec<_>>()) }

// ------------------------------------------------------------------ replay syntax
// value tokens joined by ',' ; rows joined by '|' ; the empty row is '_' ; no rows is ''
fn vtok(v: &V) -> String {
    let h64 = |x: u64| format!("{:016x}", x);
    match v {
        V::Null => "N".into(),
        V::Int(i) => format!("I{}", i),
        V::Float(p) => format!("F{}", h64(*p)),
        V::Text(b) => format!("T{}", hex(b)),
        V::Blob(b) => format!("B{}", hex(b)),
        V::Vector(f) => { let mut s = String::from("V"); for x in f { s.push_str(&format!("{:08x}", x)); } s }
        V::Uuid(b) => format!("U{}", hex(b)),
        V::Mac(b) => format!("M{}", hex(b)),
        V::Inet4(b) => format!("4{}", hex(b)),
        V::Inet6(b) => format!("6{}", hex(b)),
        V::Jsonb(b) => format!("J{}", hex(b)),
        V::Tz(m, o) => format!("Z{}:{}", m, o),
        V::Interval(m, d, mo) => format!("L{}:{}:{}", m, d, mo),
        V::Point(x, y) => format!("P{}:{}", h64(*x), h64(*y)),
        V::GeoBox(a) => format!("G{}:{}:{}:{}", h64(a[0]), h64(a[1]), h64(a[2]), h64(a[3])),
        V::Circle(a) => format!("C{}:{}:{}", h64(a[0]), h64(a[1]), h64(a[2])),
        V::Enum(t, o) => format!("E{}:{}", t, o),
        V::Decimal(d, s) => format!("D{}:{}", d, s),
        V::Toast(b) => format!("O{}", hex(b)),
        V::Bool(b) => format!("b{}", if *b { 1 } else { 0 }),
        V::Date(d) => format!("d{}", d),
        V::Time(t) => format!("t{}", t),
        V::Timestamp(t) => format!("s{}", t),
    }
}
fn rowtok(r: &[V]) -> String { if r.is_empty() { "_".into() } else { r.iter().map(vtok).collect::<Vec<_>>().join(",") } }
fn rowstok(rs: &[Vec<V>]) -> String { rs.iter().map(|r| rowtok(r)).collect::<Vec<_>>().join("|") }

fn arr<const N: usize>(b: &[u8]) -> [u8; N] { let mut a = [0u8; N]; for (i, x) in b.iter().take(N).enumerate() { a[i] = *x; } a }
fn ph64(s: &str) -> u64 { u64::from_str_radix(s, 16).unwrap_or(0) }
fn parse_v(t: &str) -> Option<V> {
    if t.is_empty() { return None; }
    let (k, r) = t.split_at(1);
    let parts: Vec<&str> = r.split(':').collect();
    Some(match k {
        "N" => V::Null,
        "I" => V::Int(r.parse().ok()?),
        "F" => V::Float(ph64(r)),
        "T" => V::Text(unhex(r)),
        "B" => V::Blob(unhex(r)),
        "V" => V::Vector(unhex(r).chunks(4).filter(|c| c.len() == 4).map(|c| u32::from_be_bytes([c[0], c[1], c[2], c[3]])).collect()),
        "U" => V::Uuid(arr(&unhex(r))),
        "M" => V::Mac(arr(&unhex(r))),
        "4" => V::Inet4(arr(&unhex(r))),
        "6" => V::Inet6(arr(&unhex(r))),
        "J" => V::Jsonb(unhex(r)),
        "Z" => V::Tz(parts.get(0)?.parse().ok()?, parts.get(1)?.parse().ok()?),
        "L" => V::Interval(parts.get(0)?.parse().ok()?, parts.get(1)?.parse().ok()?, parts.get(2)?.parse().ok()?),
        "P" => V::Point(ph64(parts.get(0)?), ph64(parts.get(1)?)),
        "G" => V::GeoBox([ph64(parts.get(0)?), ph64(parts.get(1)?), ph64(parts.get(2)?), ph64(parts.get(3)?)]),
        "C" => V::Circle([ph64(parts.get(0)?), ph64(parts.get(1)?), ph64(parts.get(2)?)]),
        "E" => V::Enum(parts.get(0)?.parse().ok()?, parts.get(1)?.parse().ok()?),
        "D" => V::Decimal(parts.get(0)?.parse().ok()?, parts.get(1)?.parse().ok()?),
        "O" => V::Toast(unhex(r)),
        "b" => V::Bool(r == "1"),
        "d" => V::Date(r.parse().ok()?),
        "t" => V::Time(r.parse().ok()?),
        "s" => V::Timestamp(r.parse().ok()?),
        _ => return None,
    })
}
fn parse_rows(s: &str) -> Vec<Vec<V>> {
    if s.is_empty() { return vec![]; }
    s.split('|').map(|r| if r == "_" { vec![] } else { r.split(',').filter_map(parse_v).collect() }).collect()
}
fn field<'a>(l: &'a str, key: &str) -> Option<&'a str> {
    let k = format!("{}=", key);
    for w in l.split(' ') { if let Some(r) = w.strip_prefix(&k) { return Some(r); } }
    None
}

// ------------------------------------------------------------------ the implementation
/// Re-read the rows through `Value` so that the case describes exactly what was run
/// (text that is not UTF-8 in a replay line is replaced lossily before it reaches the code).
fn normalise(rows: &[Vec<V>]) -> Vec<Vec<V>> {
    rows.iter().map(|r| r.iter().map(|v| from_value(&to_value(v))).collect()).collect()
}
fn normalise_owned(rows: &[Vec<V>]) -> Vec<Vec<V>> {
    rows.iter().map(|r| r.iter().map(|v| from_owned(&to_owned(v))).collect()).collect()
}

enum DRes { Ok(Vec<V>, usize), Err, Panic }
fn deser(data: &[u8], off: usize) -> DRes {
    let data = data.to_vec();
    let r = catch(move || {
        let mut out = Default::default();
        let mut o = off;
        match RowSerde::deserialize_row_into(&data, &mut o, &mut out) {
            Ok(()) => Some((out.iter().map(from_value).collect::<Vec<V>>(), o)),
            Err(_) => None,
        }
    });
    match r { Caught::Done(Some((row, o))) => DRes::Ok(row, o), Caught::Done(None) => DRes::Err, Caught::Panicked(_) => DRes::Panic }
}
fn dres_term(d: &DRes) -> String {
    match d { DRes::Ok(r, o) => format!("(DOk {} {})", rowterm(r), o), DRes::Err => "DErr".into(), DRes::Panic => "DPanic".into() }
}

/// serialize every row after `pre` into one buffer; returns (buffer, bytes appended per row, row_size per row)
fn ser_all(pre: &[u8], rows: &[Vec<V>]) -> Caught<(Vec<u8>, Vec<usize>, Vec<usize>)> {
    let pre = pre.to_vec();
    let rows: Vec<Vec<Value<'static>>> = rows.iter().map(|r| r.iter().map(to_value).collect()).collect();
    catch(move || {
        let mut buf = pre;
        let mut lens = vec![];
        let mut sizes = vec![];
        for r in &rows {
            let before = buf.len();
            sizes.push(RowSerde::row_size(r));
            RowSerde::serialize_row_into(r, &mut buf);
            lens.push(buf.len() - before);
        }
        (buf, lens, sizes)
    })
}

enum SRes { Ok(Vec<Vec<V>>, usize), Err(usize), Panic }
/// decode `n` rows in order starting at `off`
fn deser_seq(data: &[u8], off: usize, n: usize) -> SRes {
    let mut o = off;
    let mut out = vec![];
    for k in 0..n {
        match deser(data, o) {
            DRes::Ok(r, no) => { out.push(r); o = no; }
            DRes::Err => return SRes::Err(k),
            DRes::Panic => return SRes::Panic,
        }
    }
    SRes::Ok(out, o)
}
fn sres_term(d: &SRes, input: &[Vec<V>]) -> String {
    match d { SRes::Ok(rs, o) if rs.as_slice() == input => format!("(SSame {})", o),      // bit-identical to what was written
              SRes::Ok(rs, o) => format!("(SOk {} {})", rowsterm(rs), o), SRes::Err(k) => format!("(SErr {})", k), SRes::Panic => "SPanic".into() }
}
fn cusizes(x: &[usize]) -> String { clist(&x.iter().map(|v| v.to_string()).collect::<Vec<_>>()) }

fn tmpdir(tag: &str, n: u64) -> std::path::PathBuf {
    std::env::temp_dir().join(format!("tvh-c33-{}-{}-{}", std::process::id(), tag, n))
}

/// PartitionSpiller with one partition and memory budget `budget`: write all rows, read them back.
/// returns (spilled?, row_count reported, rows read back or error)
fn spill_run(budget: usize, rows: &[Vec<V>], uniq: u64) -> Caught<Option<(bool, usize, Option<Vec<Vec<V>>>)>> {
    let rows: Vec<Vec<Value<'static>>> = rows.iter().map(|r| r.iter().map(to_value).collect()).collect();
    let dir = tmpdir("ps", uniq);
    let d2 = dir.clone();
    let r = catch(move || {
        let mut sp = match PartitionSpiller::new(d2, 1, budget, uniq, 'L') { Ok(s) => s, Err(_) => return None };
        for r in rows {
            if sp.write_row(0, r.into_iter().collect()).is_err() { return None; }
        }
        let spilled = sp.partition_is_spilled(0);
        let cnt = sp.partition_row_count(0);
        if sp.start_read(0).is_err() { return Some((spilled, cnt, None)); }
        let mut out = vec![];
        loop {
            match sp.read_next() {
                Ok(Some(r)) => out.push(r.iter().map(from_value).collect::<Vec<V>>()),
                Ok(None) => break,
                Err(_) => { sp.end_read(); let _ = sp.cleanup(); return Some((spilled, cnt, None)); }
            }
            if out.len() > 100_000 { break; }
        }
        sp.end_read();
        let _ = sp.cleanup();
        Some((spilled, cnt, Some(out)))
    });
    let _ = std::fs::remove_dir_all(&dir);
    r
}

/// subquery SpillableBuffer with memory limit `limit`: push all rows, iterate them back.
fn sub_run(limit: usize, rows: &[Vec<V>]) -> Caught<Option<(bool, Option<Vec<Vec<V>>>)>> {
    let rows: Vec<Vec<OwnedValue>> = rows.iter().map(|r| r.iter().map(to_owned).collect()).collect();
    catch(move || {
        let mut b = SpillableBuffer::new(limit);
        for r in rows { if b.push(MaterializedRow::new(r)).is_err() { return None; } }
        let spilled = b.is_spilled();
        let it = match b.iter() { Ok(i) => i, Err(_) => return Some((spilled, None)) };
        let mut out = vec![];
        for r in it {
            match r { Ok(m) => out.push(m.values.iter().map(from_owned).collect::<Vec<V>>()), Err(_) => return Some((spilled, None)) }
        }
        Some((spilled, Some(out)))
    })
}
fn orows_term(o: &Option<Vec<Vec<V>>>, input: &[Vec<V>]) -> String {
    match o { Some(rs) if rs.as_slice() == input => "OSame".into(), Some(rs) => format!("(ORows {})", rowsterm(rs)), None => "OReadErr".into() }
}
fn oorows_term(o: &Option<Vec<Vec<V>>>, input: &[Vec<V>]) -> String {
    match o { Some(rs) if rs.as_slice() == input => "OSame".into(), Some(rs) => format!("(ORows {})", orowsterm(rs)), None => "OReadErr".into() }
}

// ------------------------------------------------------------------ oracle on the implementation (search mode)
fn is_nan64(p: u64) -> bool { (p & 0x7fff_ffff_ffff_ffff) > 0x7ff0_0000_0000_0000 }
fn is_nan32(p: u32) -> bool { (p & 0x7fff_ffff) > 0x7f80_0000 }
fn feq64(a: u64, b: u64) -> bool { a == b || (is_nan64(a) && is_nan64(b)) }
fn feq32(a: u32, b: u32) -> bool { a == b || (is_nan32(a) && is_nan32(b)) }
/// "equal value of the same type": same variant, same contents; floats equal as bit patterns or both NaN
fn veq(a: &V, b: &V) -> bool {
    match (a, b) {
        (V::Float(x), V::Float(y)) => feq64(*x, *y),
        (V::Vector(x), V::Vector(y)) => x.len() == y.len() && x.iter().zip(y).all(|(p, q)| feq32(*p, *q)),
        (V::Point(x1, y1), V::Point(x2, y2)) => feq64(*x1, *x2) && feq64(*y1, *y2),
        (V::GeoBox(x), V::GeoBox(y)) => x.iter().zip(y).all(|(p, q)| feq64(*p, *q)),
        (V::Circle(x), V::Circle(y)) => x.iter().zip(y).all(|(p, q)| feq64(*p, *q)),
        _ => a == b,
    }
}
fn roweq(a: &[V], b: &[V]) -> bool { a.len() == b.len() && a.iter().zip(b).all(|(x, y)| veq(x, y)) }
fn rowseq(a: &[Vec<V>], b: &[Vec<V>]) -> bool { a.len() == b.len() && a.iter().zip(b).all(|(x, y)| roweq(x, y)) }

fn oracle_ser(pre: &[u8], rows: &[Vec<V>], tail: &[u8]) -> bool {
    match ser_all(pre, rows) {
        Caught::Done((mut buf, lens, sizes)) => {
            if lens != sizes { return false; }
            let end = buf.len();
            buf.extend_from_slice(tail);
            match deser_seq(&buf, pre.len(), rows.len()) {
                SRes::Ok(out, o) => o == end && rowseq(rows, &out),
                _ => false,
            }
        }
        Caught::Panicked(_) => false,
    }
}

// ------------------------------------------------------------------ generators
const F64_EDGES: [u64; 22] = [
    0, 1, 2, 0x000f_ffff_ffff_ffff, 0x0010_0000_0000_0000, 0x3ff0_0000_0000_0000, 0x4005_bf0a_8b14_5769,
    0x7fef_ffff_ffff_ffff, 0x7ff0_0000_0000_0000, 0x7ff0_0000_0000_0001, 0x7ff8_0000_0000_0000, 0x7ff8_0000_0000_0001, 0x7fff_ffff_ffff_ffff,
    0x8000_0000_0000_0000, 0x8000_0000_0000_0001, 0xbff0_0000_0000_0000, 0xffef_ffff_ffff_ffff,
    0xfff0_0000_0000_0000, 0xfff0_0000_0000_0001, 0xfff8_0000_0000_0000, 0xffff_ffff_ffff_ffff, 0x7ff4_0000_0000_0000,
];
const F32_EDGES: [u32; 10] = [0, 1, 0x3f80_0000, 0x7f7f_ffff, 0x7f80_0000, 0x7fc0_0000, 0x7f80_0001, 0x8000_0000, 0xff80_0000, 0xffff_ffff];

fn g_f64(rng: &mut Rng, allow_zero: bool) -> u64 {
    loop {
        let p = match rng.below(10) {
            0..=3 => *rng.pick(&F64_EDGES),
            4..=5 => { let e = *rng.pick(&F64_EDGES); e.wrapping_add(rng.below(5)).wrapping_sub(2) }
            6 => fb_of(rng.range(-1000, 1000) as f64 / 8.0),
            _ => rng.next(),
        };
        if allow_zero || (p != 0 && p != 0x8000_0000_0000_0000) { return p; }
    }
}
fn fb_of(f: f64) -> u64 { f.to_bits() }
fn g_i64(rng: &mut Rng) -> i64 {
    match rng.below(8) {
        0 => 0,
        1 => *rng.pick(&[1i64, -1, i64::MAX, i64::MIN, i64::MAX - 1, i64::MIN + 1, 255, 256, -256, 65535, -65536]),
        2 => { let k = rng.below(63) as u32; let p = 1i64 << k; *rng.pick(&[p, -p, p - 1, -(p - 1), p.wrapping_add(1)]) }
        3 => rng.range(-300, 300),
        _ => { let bits = 1 + rng.below(64) as u32; (rng.next() >> (64 - bits)) as i64 }
    }
}
fn g_i32(rng: &mut Rng) -> i32 {
    match rng.below(5) { 0 => *rng.pick(&[0i32, 1, -1, i32::MAX, i32::MIN, 86400, -28800]), 1 => rng.range(-400, 400) as i32, _ => rng.next() as i32 }
}
fn g_utf8(rng: &mut Rng, maxchars: usize) -> Vec<u8> {
    let n = rng.below(maxchars as u64 + 1) as usize;
    let mut s = String::new();
    for _ in 0..n {
        let c = match rng.below(8) {
            0..=3 => (0x20 + rng.below(0x5f)) as u32,
            4 => *rng.pick(&[0u32, 0x7f, 0x80, 0x7ff, 0x800, 0xffff, 0x10000, 0x10ffff, 0xd7ff, 0xe000, 0xfffd]),
            5 => 0x80 + rng.below(0x780) as u32,
            6 => 0x800 + rng.below(0xf800) as u32,
            _ => 0x10000 + rng.below(0x100000) as u32,
        };
        if let Some(ch) = char::from_u32(c) { s.push(ch); }
    }
    s.into_bytes()
}
fn g_bytes(rng: &mut Rng, max: usize) -> Vec<u8> {
    let n = match rng.below(6) { 0 => 0, 1 => 1, _ => rng.below(max as u64 + 1) as usize };
    let mut b = rng.bytes(n);
    // bytes that look like discriminants / lengths make a mis-framed decoder visible
    if rng.chance(1, 3) { for x in b.iter_mut() { if rng.chance(1, 2) { *x = *rng.pick(&[0u8, 1, 0x14, 0x16, 0x19, 0x20, 0x21, 0x70, 0x84, 0xff]); } } }
    b
}
/// one value of variant `k` (0..19 = `Value` variants, 19..23 = OwnedValue-only)
fn g_value_of(rng: &mut Rng, k: u64, allow_zero_float: bool) -> V {
    match k {
        0 => V::Null,
        1 => V::Int(g_i64(rng)),
        2 => V::Float(g_f64(rng, allow_zero_float)),
        3 => V::Text(g_utf8(rng, 12)),
        4 => V::Blob(g_bytes(rng, 24)),
        5 => { let n = rng.below(7) as usize; V::Vector((0..n).map(|_| if rng.chance(1, 3) { *rng.pick(&F32_EDGES) } else { rng.next() as u32 }).collect()) }
        6 => V::Uuid(arr(&rng.bytes(16))),
        7 => V::Mac(arr(&rng.bytes(6))),
        8 => V::Inet4(arr(&rng.bytes(4))),
        9 => V::Inet6(arr(&rng.bytes(16))),
        10 => V::Jsonb(g_bytes(rng, 24)),
        11 => V::Tz(g_i64(rng), g_i32(rng)),
        12 => V::Interval(g_i64(rng), g_i32(rng), g_i32(rng)),
        13 => V::Point(g_f64(rng, true), g_f64(rng, true)),
        14 => V::GeoBox([g_f64(rng, true), g_f64(rng, true), g_f64(rng, true), g_f64(rng, true)]),
        15 => V::Circle([g_f64(rng, true), g_f64(rng, true), g_f64(rng, true)]),
        16 => V::Enum(if rng.chance(1, 3) { *rng.pick(&[0u16, 1, 255, 256, 65535]) } else { rng.next() as u16 }, rng.next() as u16),
        17 => {
            let d: i128 = match rng.below(5) {
                0 => *rng.pick(&[0i128, 1, -1, i128::MAX, i128::MIN, i64::MAX as i128 + 1]),
                1 => rng.range(-1000, 1000) as i128,
                _ => { let bits = 1 + rng.below(128) as u32; let x = ((rng.next() as u128) << 64 | rng.next() as u128) >> (128 - bits); x as i128 }
            };
            V::Decimal(d, if rng.chance(1, 3) { *rng.pick(&[0i16, 1, -1, i16::MAX, i16::MIN]) } else { rng.next() as i16 })
        }
        18 => V::Toast(g_bytes(rng, 20)),
        19 => V::Bool(rng.chance(1, 2)),
        20 => V::Date(g_i32(rng)),
        21 => V::Time(g_i64(rng)),
        _ => V::Timestamp(g_i64(rng)),
    }
}
/// `zero_floats`: whether Float(+-0.0) may appear (the class of the former finding F-C33-1)
fn g_row(rng: &mut Rng, nvariants: u64, zero_floats: bool) -> Vec<V> {
    let n = match rng.below(24) { 0 => 0, 1 | 2 => 1, 3 => 16, 4 => 17, 5 => 15 + rng.below(30), _ => 1 + rng.below(6) } as usize;
    (0..n).map(|_| { let k = rng.below(nvariants); g_value_of(rng, k, zero_floats) }).collect()
}
fn has_zero_float(rows: &[Vec<V>]) -> bool {
    rows.iter().any(|r| r.iter().any(|v| matches!(v, V::Float(p) if *p == 0 || *p == 0x8000_0000_0000_0000)))
}
fn nvariants(rows: &[Vec<V>]) -> usize {
    let mut s = std::collections::HashSet::new();
    for r in rows { for v in r { s.insert(std::mem::discriminant(v)); } }
    s.len()
}

// ------------------------------------------------------------------ case emitters
fn emit_ser(w: &mut CaseWriter, pre: &[u8], rows0: &[Vec<V>], tail: &[u8], kind: &str) {
    let rows = normalise(rows0);
    let replay = format!("ser pre={} tail={} rows={}", hex(pre), hex(tail), rowstok(&rows));
    let (bterm, lterm, sterm, dterm) = match ser_all(pre, &rows) {
        Caught::Done((mut buf, lens, sizes)) => {
            let b = cbytes(&buf);
            buf.extend_from_slice(tail);
            let d = deser_seq(&buf, pre.len(), rows.len());
            (format!("(Some {})", b), cusizes(&lens), cusizes(&sizes), sres_term(&d, &rows))
        }
        Caught::Panicked(_) => ("None".into(), "[]".into(), "[]".into(), "SPanic".into()),
    };
    let term = format!("Ser {} {} {} {} {} {} {}", cbytes(pre), rowsterm(&rows), cbytes(tail), bterm, lterm, sterm, dterm);
    let nontrivial = nvariants(&rows) >= 2 || rows.len() >= 2;
    w.push(term, replay, nontrivial, kind);
}
fn emit_dec(w: &mut CaseWriter, data: &[u8], off: usize, kind: &str) {
    let d = deser(data, off);
    let term = format!("Dec {} {} {}", cbytes(data), off, dres_term(&d));
    w.push(term, format!("dec off={} data={}", off, hex(data)), data.len() >= 3, kind);
}
fn emit_spill(w: &mut CaseWriter, budget: usize, rows0: &[Vec<V>], uniq: u64, kind: &str) {
    let rows = normalise(rows0);
    let replay = format!("spill budget={} rows={}", budget, rowstok(&rows));
    let (term, spilled) = match spill_run(budget, &rows, uniq) {
        Caught::Done(Some((spilled, cnt, out))) => (format!("Spill {} {} (PDone {} {} {})", budget, rowsterm(&rows), cbool(spilled), cnt, orows_term(&out, &rows)), spilled),
        Caught::Done(None) => (format!("Spill {} {} PWriteErr", budget, rowsterm(&rows)), false),
        Caught::Panicked(_) => (format!("Spill {} {} PPanic", budget, rowsterm(&rows)), false),
    };
    w.push(term, replay, spilled, kind);
}
fn emit_sub(w: &mut CaseWriter, limit: usize, rows0: &[Vec<V>], kind: &str) {
    let rows = normalise_owned(rows0);
    let replay = format!("sub limit={} rows={}", limit, rowstok(&rows));
    let (term, spilled) = match sub_run(limit, &rows) {
        Caught::Done(Some((spilled, out))) => (format!("Sub {} {} (BDone {} {})", limit, orowsterm(&rows), cbool(spilled), oorows_term(&out, &rows)), spilled),
        Caught::Done(None) => (format!("Sub {} {} BWriteErr", limit, orowsterm(&rows)), false),
        Caught::Panicked(_) => (format!("Sub {} {} BPanic", limit, orowsterm(&rows)), false),
    };
    w.push(term, replay, spilled, kind);
}
/// a row of `n` copies of one value: reaches the u16 column-count boundary without a huge case text
fn emit_wide(w: &mut CaseWriter, n: usize, v0: &V, kind: &str) {
    let v = from_value(&to_value(v0));
    let replay = format!("wide n={} v={}", n, vtok(&v));
    let row: Vec<V> = vec![v.clone(); n];
    let term = match ser_all(&[], &[row]) {
        Caught::Done((buf, lens, sizes)) => {
            let (dn, doff, same) = match deser(&buf, 0) {
                DRes::Ok(r, o) => (r.len() as i64, o as i64, r.iter().all(|x| *x == v)),
                DRes::Err => (-1, -1, false),
                DRes::Panic => (-2, -2, false),
            };
            format!("Wide {} ({}) {} {} {} {} {} {}", n, vterm(&v), lens[0], sizes[0], cbytes(&buf[..buf.len().min(2)]), dn, doff, cbool(same))
        }
        Caught::Panicked(_) => format!("Wide {} ({}) (-1) (-1) [] (-2) (-2) false", n, vterm(&v)),
    };
    w.push(term, replay, n >= 65530, kind);
}

fn main() {
    let a = Args::parse();
    match a.mode.as_str() {
        "gen" => gen(&a),
        "search" => search(&a),
        _ => { eprintln!("c33: unknown mode"); std::process::exit(2); }
    }
}

fn replay_line(w: &mut CaseWriter, l: &str, uniq: u64) {
    let pu = |k: &str| field(l, k).and_then(|x| x.parse::<usize>().ok()).unwrap_or(0);
    if l.starts_with("ser ") {
        emit_ser(w, &unhex(field(l, "pre").unwrap_or("")), &parse_rows(field(l, "rows").unwrap_or("")), &unhex(field(l, "tail").unwrap_or("")), "replay");
    } else if l.starts_with("dec ") {
        emit_dec(w, &unhex(field(l, "data").unwrap_or("")), pu("off"), "replay");
    } else if l.starts_with("spill ") {
        emit_spill(w, pu("budget"), &parse_rows(field(l, "rows").unwrap_or("")), 900_000 + uniq, "replay");
    } else if l.starts_with("sub ") {
        emit_sub(w, pu("limit"), &parse_rows(field(l, "rows").unwrap_or("")), "replay");
    } else if l.starts_with("wide ") {
        if let Some(v) = field(l, "v").and_then(parse_v) { emit_wide(w, pu("n").min(200_000), &v, "replay"); }
    }
}

/// structurally damaged encodings of valid rows
fn mutate(rng: &mut Rng, buf: &[u8]) -> Vec<u8> {
    let mut b = buf.to_vec();
    if b.is_empty() { return b; }
    match rng.below(8) {
        0 => { let k = rng.below(b.len() as u64) as usize; b.truncate(k); }
        1 => { let k = rng.below(b.len() as u64) as usize; b[k] ^= 1 << rng.below(8); }
        2 => { if b.len() >= 2 { b[1] = b[1].wrapping_add(*rng.pick(&[1u8, 255, 2])); } }       // column count off by a little
        3 => { let k = rng.below(b.len() as u64) as usize; b[k] = *rng.pick(&[0x01u8, 0x10, 0x12, 0x13, 0x14, 0x15, 0x16, 0x18, 0x19, 0x20, 0x21, 0x33, 0x34, 0x40, 0x41, 0x42, 0x43, 0x50, 0x63, 0x70, 0x80, 0x81, 0x82, 0x83, 0x84, 0x00, 0x02, 0x03, 0x11, 0x17, 0x85, 0xff]); }
        4 => { let k = rng.below(b.len() as u64) as usize; b[k] = *rng.pick(&[0x80u8, 0xc0, 0xc1, 0xe0, 0xed, 0xf0, 0xf4, 0xf5, 0xff, 0xa0, 0xbf]); }   // UTF-8 trouble when it lands in text
        5 => { let n = 1 + rng.below(3) as usize; let t = rng.bytes(n); b.extend_from_slice(&t); }
        6 => { let k = rng.below(b.len() as u64) as usize; b.remove(k); }
        _ => { let k = rng.below(b.len() as u64 + 1) as usize; b.insert(k, rng.next() as u8); }
    }
    b
}
/// hand-built UTF-8 edge cases inside a one-column text row
fn utf8_edge_rows() -> Vec<Vec<u8>> {
    let seqs: Vec<Vec<u8>> = vec![
        vec![0x7f], vec![0x80], vec![0xbf], vec![0xc0, 0x80], vec![0xc1, 0xbf], vec![0xc2, 0x80], vec![0xc2, 0x7f], vec![0xc2], vec![0xdf, 0xbf], vec![0xdf, 0xc0],
        vec![0xe0, 0x9f, 0xbf], vec![0xe0, 0xa0, 0x80], vec![0xe0, 0xa0], vec![0xe1, 0x80, 0x80], vec![0xec, 0xbf, 0xbf], vec![0xed, 0x9f, 0xbf], vec![0xed, 0xa0, 0x80],
        vec![0xee, 0x80, 0x80], vec![0xef, 0xbf, 0xbf], vec![0xef, 0xbf, 0xc0], vec![0xf0, 0x8f, 0xbf, 0xbf], vec![0xf0, 0x90, 0x80, 0x80], vec![0xf0, 0x90, 0x80],
        vec![0xf1, 0x80, 0x80, 0x80], vec![0xf3, 0xbf, 0xbf, 0xbf], vec![0xf4, 0x8f, 0xbf, 0xbf], vec![0xf4, 0x90, 0x80, 0x80], vec![0xf5, 0x80, 0x80, 0x80],
        vec![0xf8, 0x88, 0x80, 0x80, 0x80], vec![0xff], vec![0xfe], vec![0x41, 0xc3, 0xa9, 0x42], vec![0x41, 0xc3], vec![0xe2, 0x82, 0xac, 0x80], vec![0xf0, 0x9f, 0x98, 0x80, 0x41],
        vec![0xe1, 0x80, 0x41], vec![0xf1, 0x80, 0x80, 0x41], vec![0xf1, 0x80, 0x41, 0x80], vec![0xf0, 0x90, 0xc0, 0x80], vec![0xe0, 0xa0, 0xc0],
    ];
    seqs.into_iter().map(|s| {
        let mut b = vec![0u8, 1, 0x20];
        b.extend_from_slice(&(s.len() as u32).to_be_bytes());
        b.extend_from_slice(&s);
        b
    }).collect()
}

fn gen(a: &Args) {
    let mut rng = Rng::new(a.seed);
    let mut w = CaseWriter::new(&a.out, "C33", "Corr.C33", 400);
    if let Some(lines) = a.replay_lines() {
        for (i, l) in lines.iter().enumerate() { replay_line(&mut w, l, i as u64); }
        w.finish(&[]);
        return;
    }
    let th = a.thorough();
    // ---- every variant alone, several draws each (boundary-heavy generators)
    let per_variant = if th { 200 } else { 25 };
    for k in 0..19u64 {
        for _ in 0..per_variant {
            let v = g_value_of(&mut rng, k, true);
            let n = rng.below(4) as usize; let pre = rng.bytes(n);
            let n = rng.below(4) as usize; let tail = rng.bytes(n);
            emit_ser(&mut w, &pre, &[vec![v]], &tail, "single_variant");
        }
    }
    // ---- every f64 edge pattern (and its neighbours) as Float, as Point coordinate
    for e in F64_EDGES {
        for d in [-1i64, 0, 1] {
            let p = e.wrapping_add(d as u64);
            emit_ser(&mut w, &[], &[vec![V::Float(p)]], &[], if p == 0 || p == 1 << 63 { "float_zero" } else { "float_edge" });
            emit_ser(&mut w, &[], &[vec![V::Point(p, e), V::Circle([e, p, p])]], &[], "float_edge");
        }
    }
    for e in [0i64, 1, -1, i64::MAX, i64::MIN] { emit_ser(&mut w, &[], &[vec![V::Int(e)]], &[], "int_edge"); }
    emit_ser(&mut w, &[], &[], &[], "no_rows");
    emit_ser(&mut w, &[1, 2, 3], &[vec![]], &[9], "empty_row");
    // ---- mixed rows, sequences of rows in one buffer
    let n_rows = if th { 9_000 } else { 1_000 };
    for i in 0..n_rows {
        let zero_ok = true;             // +-0.0 is an ordinary value since /repo commit a939896 (was finding F-C33-1)
        let nr = match rng.below(6) { 0 => 1, 1 => 2, 2 => 3, _ => 1 + rng.below(5) } as usize;
        let rows: Vec<Vec<V>> = (0..nr).map(|_| g_row(&mut rng, 19, zero_ok)).collect();
        let n = if rng.chance(1, 2) { 0 } else { rng.below(6) as usize }; let pre = rng.bytes(n);
        let n = if rng.chance(1, 2) { 0 } else { rng.below(6) as usize }; let tail = rng.bytes(n);
        let kind = if has_zero_float(&rows) { "rows_with_zero_float" } else if nr == 1 { "mixed_row" } else { "row_sequence" };
        emit_ser(&mut w, &pre, &rows, &tail, kind);
    }
    // ---- longer payloads (length prefixes above one byte)
    let n_long = if th { 70 } else { 14 };
    for i in 0..n_long {
        // one repeated byte: the case file holds it as `repeat b n`
        let len = [255usize, 256, 257, 1000, 65535, 65536, 70000][i % 7];
        let fill = rng.next() as u8;
        let v = match rng.below(4) {
            0 => V::Blob(vec![fill; len]),
            1 => V::Text(vec![b'a' + (fill % 26); len]),
            2 => V::Jsonb(vec![fill; len]),
            _ => V::Vector(vec![(fill as u32) * 0x0101_0101; len / 4]),
        };
        emit_ser(&mut w, &[], &[vec![V::Int(7), v, V::Null], vec![V::Null]], &[0x14], "long_payload");
    }
    // ---- column count around the u16 boundary
    for n in [65534usize, 65535, 65536, 65537] { emit_wide(&mut w, n, &V::Null, "wide_row"); }
    emit_wide(&mut w, 65536 + 3, &V::Int(-2), "wide_row");
    emit_wide(&mut w, 300, &V::Float(0x3ff0_0000_0000_0000), "wide_row");
    if th { emit_wide(&mut w, 131072 + 5, &V::Enum(7, 9), "wide_row"); emit_wide(&mut w, 65535, &V::Text(vec![0xc3, 0xa9]), "wide_row"); }
    // ---- malformed / arbitrary streams through the decoder
    for b in utf8_edge_rows() { emit_dec(&mut w, &b, 0, "utf8_edge"); }
    let n_mut = if th { 8_000 } else { 900 };
    for _ in 0..n_mut {
        let rows: Vec<Vec<V>> = vec![g_row(&mut rng, 19, true)];
        if let Caught::Done((buf, _, _)) = ser_all(&[], &rows) {
            let mut m = mutate(&mut rng, &buf);
            if rng.chance(1, 4) { m = mutate(&mut rng, &m); }
            let off = if rng.chance(1, 8) { rng.below(m.len() as u64 + 3) as usize } else { 0 };
            emit_dec(&mut w, &m, off, "mutated_valid");
        }
    }
    let n_rand = if th { 4_000 } else { 500 };
    for _ in 0..n_rand {
        // count byte + discriminant-led junk
        let nc = rng.below(4) as u8;
        let mut b = vec![0u8, nc];
        for _ in 0..nc {
            b.push(*rng.pick(&[0x01u8, 0x10, 0x12, 0x13, 0x14, 0x15, 0x16, 0x18, 0x19, 0x20, 0x21, 0x33, 0x34, 0x40, 0x41, 0x42, 0x43, 0x50, 0x63, 0x70, 0x80, 0x81, 0x82, 0x83, 0x84, 0x05]));
            if rng.chance(1, 2) { b.extend_from_slice(&[0, 0, 0, rng.below(6) as u8]); }
            let n = rng.below(20) as usize; let t = rng.bytes(n);
            b.extend_from_slice(&t);
        }
        emit_dec(&mut w, &b, 0, "random_stream");
    }
    for n in 0..4usize { for off in 0..5usize { emit_dec(&mut w, &vec![0u8; n], off, "short"); } }
    emit_dec(&mut w, &[0xff, 0xff, 0x01, 0x01], 0, "short");
    emit_dec(&mut w, &[0x00, 0x01, 0x70, 0xff, 0xff, 0xff, 0xff, 1, 2, 3, 4], 0, "short");
    emit_dec(&mut w, &[0x00, 0x01, 0x20, 0xff, 0xff, 0xff, 0xff, 1, 2, 3, 4], 0, "short");
    // ---- PartitionSpiller write-then-read (real files; stores through RowSerde once over budget)
    let n_spill = if th { 1_000 } else { 100 };
    for i in 0..n_spill {
        let nr = rng.below(14) as usize;
        let zero_ok = true;
        let rows: Vec<Vec<V>> = (0..nr).map(|_| g_row(&mut rng, 19, zero_ok)).collect();
        let budget = match rng.below(5) { 0 => 0, 1 => 1 + rng.below(40), 2 => 10_000_000, _ => 20 + rng.below(600) } as usize;
        let kind = if has_zero_float(&rows) { "spiller_with_zero_float" } else { "partition_spiller" };
        emit_spill(&mut w, budget, &rows, i as u64, kind);
    }
    // ---- subquery SpillableBuffer write-then-read (all 23 OwnedValue variants)
    let n_sub = if th { 2_000 } else { 150 };
    for _ in 0..n_sub {
        let nr = rng.below(10) as usize;
        let rows: Vec<Vec<V>> = (0..nr).map(|_| g_row(&mut rng, 23, true)).collect();
        let limit = match rng.below(4) { 0 => 0, 1 => 10_000_000, _ => 30 + rng.below(700) } as usize;
        emit_sub(&mut w, limit, &rows, "subquery_buffer");
    }
    w.finish(&[]);
}

/// Oracle only (no model): the round trip, the in-order decoding of sequences and
/// row_size == bytes written, on the implementation, with a larger budget.
fn search(a: &Args) {
    let mut rng = Rng::new(a.seed ^ 0xC33_5EA);
    let mut fails: Vec<String> = vec![];
    let mut tried: u64 = 0;
    let budget = a.budget.min(400_000);
    let mut check = |pre: &[u8], rows: &[Vec<V>], tail: &[u8], fails: &mut Vec<String>| {
        let rows = normalise(rows);
        if !oracle_ser(pre, &rows, tail) && fails.len() < 40 {
            fails.push(format!("ser pre={} tail={} rows={}", hex(pre), hex(tail), rowstok(&rows)));
        }
    };
    for e in F64_EDGES { for d in [-1i64, 0, 1] { check(&[], &[vec![V::Float(e.wrapping_add(d as u64))]], &[], &mut fails); tried += 1; } }
    for k in 0..19u64 { for _ in 0..2000 { let v = g_value_of(&mut rng, k, true); check(&[], &[vec![v]], &[], &mut fails); tried += 1; } }
    while tried < budget {
        let nr = 1 + rng.below(4) as usize;
        let rows: Vec<Vec<V>> = (0..nr).map(|_| g_row(&mut rng, 19, true)).collect();
        let n = rng.below(4) as usize; let pre = rng.bytes(n);
        let n = rng.below(4) as usize; let tail = rng.bytes(n);
        check(&pre, &rows, &tail, &mut fails);
        tried += 1;
    }
    // the two spill paths, black box: what was written comes back
    for i in 0..300u64 {
        let nr = rng.below(10) as usize;
        let rows = normalise(&(0..nr).map(|_| g_row(&mut rng, 19, true)).collect::<Vec<_>>());
        let budget = 20 + rng.below(400) as usize;
        let ok = matches!(spill_run(budget, &rows, 500_000 + i), Caught::Done(Some((_, _, Some(out)))) if rowseq(&rows, &out));
        if !ok && fails.len() < 60 { fails.push(format!("spill budget={} rows={}", budget, rowstok(&rows))); }
        let rows = normalise_owned(&(0..nr).map(|_| g_row(&mut rng, 23, true)).collect::<Vec<_>>());
        let ok = matches!(sub_run(budget, &rows), Caught::Done(Some((_, Some(out)))) if rowseq(&rows, &out));
        if !ok && fails.len() < 60 { fails.push(format!("sub limit={} rows={}", budget, rowstok(&rows))); }
        tried += 2;
    }
    let mut out = String::new();
    out.push_str(&format!("tried={}\n", tried));
    for f in &fails { out.push_str("FAIL "); out.push_str(f); out.push('\n'); }
    std::fs::write(&a.out, out).expect("write search output");
}
