(* C34 proofs, part 1: the word store, the geometry constants regenerated from the source,
   and the facts that hold for EVERY state and history
   (no client discipline needed): free_count never goes negative, a successful allocate
   lowers it by exactly one, hence the reported count is never below what the following
   allocations return. *)
From Coq Require Import ZArith List Bool Lia ZifyBool FMapPositive.
From TV Require Import Lib.MachInt Gen.FreelistConsts Gen.Freelist Model.Freelist.
Import ListNotations.
Open Scope Z_scope.

(* ------------------------------------------------------------------ constants (break if the source changes) *)
Lemma WORDS_eq : WORDS = 4096. Proof. reflexivity. Qed.
Lemma W_NEXT_eq : W_NEXT = 4. Proof. reflexivity. Qed.
Lemma W_COUNT_eq : W_COUNT = 5. Proof. reflexivity. Qed.
Lemma W_ENT_eq : W_ENT = 6. Proof. reflexivity. Qed.
Lemma TME_eq : TRUNK_MAX_ENTRIES = 4090. Proof. reflexivity. Qed.
Lemma PAGE_SIZE_eq : PAGE_SIZE = 16384. Proof. reflexivity. Qed.
Lemma PHS_eq : PAGE_HEADER_SIZE = 16. Proof. reflexivity. Qed.
Lemma THS_eq : TRUNK_HEADER_SIZE = 8. Proof. reflexivity. Qed.
Lemma is_full_eq : forall c, is_full c = (c >=? 4090). Proof. reflexivity. Qed.

Global Opaque WORDS W_NEXT W_COUNT W_ENT TRUNK_MAX_ENTRIES PAGE_SIZE PAGE_HEADER_SIZE TRUNK_HEADER_SIZE is_full.

Ltac geom :=
  rewrite ?WORDS_eq, ?W_NEXT_eq, ?W_COUNT_eq, ?W_ENT_eq, ?TME_eq, ?PAGE_SIZE_eq, ?PHS_eq, ?THS_eq, ?is_full_eq in *.

(* ------------------------------------------------------------------ word store *)
Lemma key_inj : forall a b, 0 <= a -> 0 <= b -> key a = key b -> a = b.
Proof.
  unfold key. intros a b Ha Hb H. apply Z2Pos.inj in H; lia.
Qed.

Lemma mget_mset_same : forall m p i v, mget (mset m p i v) p i = v.
Proof. intros. unfold mget, mset. rewrite PositiveMap.gss. reflexivity. Qed.

Lemma mget_mset_other : forall m p i v q j,
  0 <= p -> 0 <= q -> 0 <= i < WORDS -> 0 <= j < WORDS -> (p <> q \/ i <> j) ->
  mget (mset m p i v) q j = mget m q j.
Proof.
  intros m p i v q j Hp Hq Hi Hj Hne. unfold mget, mset.
  rewrite PositiveMap.gso; [reflexivity|].
  intro Hk. apply key_inj in Hk; geom; nia.
Qed.

(* ------------------------------------------------------------------ bag *)
Lemma bmem_badd_same : forall p b, 0 <= p -> bmem p (badd p b) = true.
Proof.
  intros p b Hp. unfold bmem, badd. rewrite PositiveMap.mem_find, PositiveMap.gss.
  destruct (Z.leb_spec 0 p); [reflexivity|lia].
Qed.
Lemma bmem_badd_other : forall p q b, 0 <= p -> 0 <= q -> p <> q -> bmem q (badd p b) = bmem q b.
Proof.
  intros p q b Hp Hq Hne. unfold bmem, badd. rewrite !PositiveMap.mem_find, PositiveMap.gso; [reflexivity|].
  intro Hk. apply key_inj in Hk; lia.
Qed.
Lemma bmem_bdel_same : forall p b, bmem p (bdel p b) = false.
Proof.
  intros p b. unfold bmem, bdel. rewrite PositiveMap.mem_find, PositiveMap.grs. apply andb_false_r.
Qed.
Lemma bmem_bdel_other : forall p q b, 0 <= p -> 0 <= q -> p <> q -> bmem q (bdel p b) = bmem q b.
Proof.
  intros p q b Hp Hq Hne. unfold bmem, bdel. rewrite !PositiveMap.mem_find, PositiveMap.gro; [reflexivity|].
  intro Hk. apply key_inj in Hk; lia.
Qed.
Lemma bmem_nonneg : forall p b, bmem p b = true -> 0 <= p.
Proof. unfold bmem. intros p b H. apply andb_prop in H. lia. Qed.
Lemma bmem_empty : forall p, bmem p (PositiveMap.empty unit) = false.
Proof. intros. unfold bmem. rewrite PositiveMap.mem_find, PositiveMap.gempty. apply andb_false_r. Qed.

(* ------------------------------------------------------------------ facts that need no discipline *)
Lemma alloc_fc : forall np st st' r,
  0 <= fc st -> alloc np st = (st', r) ->
  0 <= fc st' /\ (forall p, r = OSome p -> fc st' = fc st - 1) /\ (r = ONone -> st' = st).
Proof.
  intros np st st' r Hfc H. unfold alloc in H. cbv zeta in H.
  destruct (Z.eqb_spec (fc st) 0) as [Hz|Hz]; cbn [orb] in H;
  [inversion H; subst; repeat split; try lia; intros; congruence|].
  destruct (head st =? 0);
  [inversion H; subst; repeat split; try lia; intros; congruence|].
  destruct (negb (in_store np (head st)));
  [inversion H; subst; repeat split; try lia; intros; congruence|].
  destruct (mget (mem st) (head st) W_COUNT =? 0);
  [inversion H; subst; cbn [fc]; repeat split; try lia; intros; congruence|].
  destruct (_ >? PAGE_SIZE);
  inversion H; subst; cbn [fc]; repeat split; try lia; intros; congruence.
Qed.

Lemma release_fc : forall np st p st' r, 0 <= fc st -> release np st p = (st', r) -> 0 <= fc st'.
Proof.
  intros np st p st' r Hfc H. unfold release in H.
  repeat match type of H with
         | (if ?c then _ else _) = _ => destruct c
         | (let _ := _ in _) = _ => cbv zeta in H
         end; inversion H; subst; cbn [fc]; lia.
Qed.

Lemma step_fc : forall np st o, 0 <= fc st -> 0 <= fc (fst (step np st o)).
Proof.
  intros np st o Hfc. destruct o as [p| |p i v]; cbn [step].
  - destruct (release np st p) eqn:E. eapply release_fc; eauto.
  - destruct (alloc np st) eqn:E. eapply alloc_fc in E; cbn [fst]; tauto.
  - unfold poke. destruct (_ && _); cbn [fst fc]; lia.
Qed.

(* the linear pass computes drain_count, and is fine iff every suffix is *)
Lemma count_pass_fst : forall cmp tr, fst (count_pass cmp tr) = drain_count tr.
Proof.
  intros cmp tr. induction tr as [|[o r hd c] t IH]; [reflexivity|].
  cbn [count_pass drain_count]. destruct (count_pass cmp t) as [dt okt]. cbn [fst] in *. subst dt.
  destruct o, r; reflexivity.
Qed.

(* reported count >= what the following allocations return, on every model trace from every state *)
Lemma not_under_from : forall np ops st,
  0 <= fc st ->
  snd (count_pass Z.geb (run_from np st ops)) = true /\
  (forall k, drain_count (run_from np st ops) = Some k -> 0 <= k <= fc st).
Proof.
  intros np ops. induction ops as [|o t IH]; intros st Hfc.
  - cbn. split; [reflexivity|discriminate].
  - cbn [run_from]. destruct (step np st o) as [st' r] eqn:Es.
    assert (Hfc' : 0 <= fc st') by (pose proof (step_fc np st o Hfc) as X; rewrite Es in X; exact X).
    destruct (IH st' Hfc') as [IH1 IH2].
    cbn [count_pass drain_count].
    pose proof (count_pass_fst Z.geb (run_from np st' t)) as Hd.
    destruct (count_pass Z.geb (run_from np st' t)) as [dt okt]. cbn [fst snd] in *. subst dt okt.
    split.
    + cbn [snd]. destruct (drain_count (run_from np st' t)) as [k|] eqn:Ek; [|reflexivity].
      cbn [andb]. specialize (IH2 k eq_refl). lia.
    + intros k Hk. destruct o as [p| |p i v].
      * destruct r; discriminate.
      * cbn [step] in Es. apply alloc_fc in Es; [|exact Hfc]. destruct Es as (_ & Hs & Hn).
        destruct r; try discriminate.
        -- destruct (drain_count (run_from np st' t)) as [k'|] eqn:Ek; [|discriminate].
           inversion Hk; subst. specialize (IH2 k' eq_refl). specialize (Hs p eq_refl). lia.
        -- inversion Hk; subst. lia.
      * destruct r; discriminate.
Qed.

Theorem count_not_under_l : forall np ops, count_not_under (run np ops) = true.
Proof.
  intros np ops. unfold count_not_under, count_check, run.
  destruct (not_under_from np ops st_new) as [H1 H2]; [cbn; lia|].
  pose proof (count_pass_fst Z.geb (run_from np st_new ops)) as Hd.
  destruct (count_pass Z.geb (run_from np st_new ops)) as [d ok]. cbn [fst snd] in *. subst.
  cbn [andb]. destruct (drain_count _) as [k|] eqn:Ek; [|reflexivity].
  specialize (H2 k eq_refl). cbn [fc st_new] in H2. lia.
Qed.
