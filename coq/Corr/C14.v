(* C14 correspondence: judge what the harness observed on the real Database against
   (a) the implementation model Model/PredImpl.v (model_agrees) and
   (b) the reference semantics Model/SqlSpec.v, i.e. the property itself (spec_ok).
   Evaluated by vm_compute; definitions only. *)
From Coq Require Import ZArith List Bool.
From TV Require Export Model.SqlSpec Model.PredImpl Model.PredClass.
Import ListNotations.
Open Scope Z_scope.

(* sty: how the harness printed e.  0 = fully parenthesised; 1 = `NOT x <op> y` printed without
   parentheses where x is an atom (standard SQL reads NOT (x <op> y); see PredImpl.reparse_bare) *)
Inductive case :=
| Where (sty : Z) (t : table) (e : expr) (o : qout)     (* SELECT * FROM t WHERE (e) *)
| Select (sty : Z) (t : table) (e : expr) (o : qout).   (* SELECT id, (e) FROM t *)

Fixpoint zl_eqb (a b : list Z) : bool :=
  match a, b with
  | [], [] => true
  | x :: a', y :: b' => (x =? y) && zl_eqb a' b'
  | _, _ => false
  end.
Definition qout_eqb (a b : qout) : bool :=
  match a, b with
  | QRows x, QRows y => zl_eqb x y
  | QVals x, QVals y => zl_eqb x y
  | QErr, QErr | QPanic, QPanic | QBad, QBad => true
  | _, _ => false
  end.
Definition mout_is (m : mout) (o : qout) : bool :=
  match m with MOut q => qout_eqb q o | MUnmod => false end.

(* does the model reproduce the implementation on this case? *)
Definition model_agrees (c : case) : bool :=
  match c with
  | Where sty t e o => mout_is (model_where (parsed sty e) t) o
  | Select sty t e o => mout_is (model_select (parsed sty e) t) o
  end.

(* what the property demands: spec_rows / spec_vals of Model/PredClass.v *)

(* does the implementation's behaviour satisfy the property itself on this case?
   The property speaks only where the reference semantics is defined on every row. *)
Definition spec_ok (c : case) : bool :=
  match c with
  | Where _ t e o => if defined_on e t then qout_eqb o (QRows (spec_rows e t)) else true
  | Select _ t e o => if defined_on e t then qout_eqb o (QVals (spec_vals e t)) else true
  end.

(* the recorded finding class of the case (Model/PredClass.v); 0 = none *)
Definition known_class (c : case) : Z :=
  match c with
  | Where sty t e _ => cls_where sty e t
  | Select sty t e _ => cls_select sty e t
  end.

Fixpoint failures_from (i : Z) (cs : list case) : list (Z * bool * bool * Z) :=
  match cs with
  | [] => []
  | c :: t =>
      let m := model_agrees c in
      let s := spec_ok c in
      if m && s then failures_from (i + 1) t else (i, m, s, known_class c) :: failures_from (i + 1) t
  end.
Definition failures := failures_from 0.
