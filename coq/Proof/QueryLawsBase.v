(* Bag-level helper lemmas for the query laws: row widths, filters, the cross product and the
   join under an exchange of its inputs. *)
From Coq Require Import ZArith List Bool Lia Permutation.
From TV Require Import Model.SqlSpec Proof.SqlSpecLaws Model.QuerySpec Proof.QueryExprLaws.
Import ListNotations.
Open Scope Z_scope.

(* ------------------------------------------------------------------ generic list facts *)
Lemma filter_ext_in' : forall {A} (f g : A -> bool) l, (forall x, In x l -> f x = g x) -> filter f l = filter g l.
Proof.
  induction l as [|x l IH]; intros H; cbn; [reflexivity|].
  rewrite (H x (or_introl eq_refl)). rewrite IH; [reflexivity|]. intros y Hy. apply H. now right.
Qed.
Lemma existsb_ext_in : forall {A} (f g : A -> bool) l, (forall x, In x l -> f x = g x) -> existsb f l = existsb g l.
Proof.
  induction l as [|x l IH]; intros H; cbn; [reflexivity|].
  rewrite (H x (or_introl eq_refl)). rewrite IH; [reflexivity|]. intros y Hy. apply H. now right.
Qed.
Lemma flat_map_ext_in : forall {A B} (f g : A -> list B) l, (forall x, In x l -> f x = g x) -> flat_map f l = flat_map g l.
Proof.
  induction l as [|x l IH]; intros H; cbn; [reflexivity|].
  rewrite (H x (or_introl eq_refl)). rewrite IH; [reflexivity|]. intros y Hy. apply H. now right.
Qed.
Lemma map_ext_in' : forall {A B} (f g : A -> B) l, (forall x, In x l -> f x = g x) -> map f l = map g l.
Proof. intros. now apply map_ext_in. Qed.
Lemma filter_map_comm : forall {A B} (f : A -> B) (p : B -> bool) l, filter p (map f l) = map f (filter (fun x => p (f x)) l).
Proof. induction l as [|x l IH]; cbn; [reflexivity|]. destruct (p (f x)); cbn; now rewrite IH. Qed.
Lemma map_flat_map : forall {A B C} (g : B -> C) (f : A -> list B) l, map g (flat_map f l) = flat_map (fun x => map g (f x)) l.
Proof. induction l as [|x l IH]; cbn; [reflexivity|]. now rewrite map_app, IH. Qed.
Lemma filter_flat_map : forall {A B} (p : B -> bool) (f : A -> list B) l, filter p (flat_map f l) = flat_map (fun x => filter p (f x)) l.
Proof. induction l as [|x l IH]; cbn; [reflexivity|]. now rewrite filter_app, IH. Qed.
Lemma flat_map_filter : forall {A B} (p : A -> bool) (f : A -> list B) l,
  flat_map f (filter p l) = flat_map (fun x => if p x then f x else []) l.
Proof. induction l as [|x l IH]; cbn; [reflexivity|]. destruct (p x); cbn; now rewrite IH. Qed.
Lemma Permutation_filter : forall {A} (p : A -> bool) l l', Permutation l l' -> Permutation (filter p l) (filter p l').
Proof.
  intros A p l l' H. induction H; cbn.
  - constructor.
  - destruct (p x); [now constructor|assumption].
  - destruct (p x), (p y); try reflexivity; now constructor.
  - eapply perm_trans; eassumption.
Qed.

(* exchanging the two loops of a cross product *)
Lemma flat_map_singleton_swap : forall {A B C} (f : A -> B -> C) (L : list A) (R : list B),
  Permutation (flat_map (fun l => map (fun r => f l r) R) L) (flat_map (fun r => map (fun l => f l r) L) R).
Proof.
  intros A B C f L. induction L as [|l L IH]; intros R.
  - cbn. induction R as [|r R IHR]; cbn; [constructor|assumption].
  - cbn [flat_map]. eapply perm_trans; [apply Permutation_app_head, IH|].
    clear IH. induction R as [|r R IHR]; cbn [flat_map map app]; [constructor|].
    constructor.
    eapply perm_trans; [|apply Permutation_app_head, IHR].
    rewrite !app_assoc. apply Permutation_app_tail.
    eapply perm_trans; [apply Permutation_app_comm|]. reflexivity.
Qed.

(* ------------------------------------------------------------------ widths *)
Lemma nulls_length : forall n, length (nulls n) = n.
Proof. intros. apply repeat_length. Qed.

Lemma in_cross : forall L R x, In x (cross L R) <-> exists l r, In l L /\ In r R /\ x = l ++ r.
Proof.
  intros L R x. unfold cross. rewrite in_flat_map. split.
  - intros (l & Hl & Hx). apply in_map_iff in Hx as (r & <- & Hr). eauto.
  - intros (l & r & Hl & Hr & ->). exists l. split; [assumption|]. apply in_map_iff. eauto.
Qed.

Lemma join_spec_length : forall k on wl wr L R,
  (forall l, In l L -> length l = wl) -> (forall r, In r R -> length r = wr) ->
  forall x, In x (join_spec k on wl wr L R) -> length x = (wl + wr)%nat.
Proof.
  intros k on wl wr L R HL HR x Hx.
  assert (C : forall y, In y (cross L R) -> length y = (wl + wr)%nat).
  { intros y Hy. apply in_cross in Hy as (l & r & Hl & Hr & ->). rewrite app_length, (HL _ Hl), (HR _ Hr). reflexivity. }
  assert (I : forall y, In y (inner on L R) -> length y = (wl + wr)%nat).
  { intros y Hy. apply filter_In in Hy as [Hy _]. now apply C. }
  assert (UL : forall y, In y (unmatched_left on wr L R) -> length y = (wl + wr)%nat).
  { intros y Hy. unfold unmatched_left in Hy. apply in_flat_map in Hy as (l & Hl & Hy).
    destruct (existsb _ R); [contradiction|]. destruct Hy as [<-|[]]. rewrite app_length, nulls_length, (HL _ Hl). reflexivity. }
  assert (UR : forall y, In y (unmatched_right on wl L R) -> length y = (wl + wr)%nat).
  { intros y Hy. unfold unmatched_right in Hy. apply in_flat_map in Hy as (r & Hr & Hy).
    destruct (existsb _ L); [contradiction|]. destruct Hy as [<-|[]]. rewrite app_length, nulls_length, (HR _ Hr). reflexivity. }
  destruct k; cbn [join_spec] in Hx; repeat (apply in_app_or in Hx as [Hx|Hx]); auto.
Qed.

Lemma eval_from_length : forall d, db_wf d -> forall f r, In r (eval_from d f) -> length r = from_width d f.
Proof.
  intros d Hd. induction f as [i|k l IHl r IHr on]; intros x Hx; cbn [eval_from from_width] in *.
  - destruct (nth_error d i) as [[w t]|] eqn:E; [|contradiction].
    apply nth_error_In in E. exact (Hd _ _ E _ Hx).
  - eapply join_spec_length; eauto.
Qed.

(* ------------------------------------------------------------------ exchanging the inputs of a join *)
Definition swap_row (wl : nat) (r : row) : row := skipn wl r ++ firstn wl r.
Lemma swap_row_app : forall l r, swap_row (length l) (l ++ r) = r ++ l.
Proof.
  intros. unfold swap_row. rewrite skipn_app, firstn_app, Nat.sub_diag, skipn_all, firstn_all. cbn. now rewrite app_nil_r.
Qed.

Lemma nth_error_swap : forall (l r : row) i,
  nth_error (r ++ l) (swap_col (length l) (length r) i) = nth_error (l ++ r) i.
Proof.
  intros l r i. unfold swap_col.
  destruct (Nat.ltb i (length l)) eqn:A.
  - apply Nat.ltb_lt in A. rewrite nth_error_app2 by lia. rewrite nth_error_app1 by lia. f_equal. lia.
  - apply Nat.ltb_ge in A. destruct (Nat.ltb i (length l + length r)) eqn:B.
    + apply Nat.ltb_lt in B. rewrite nth_error_app1 by lia. rewrite nth_error_app2 by lia. reflexivity.
    + apply Nat.ltb_ge in B.
      transitivity (@None value); [|symmetry]; apply nth_error_None; rewrite app_length; lia.
Qed.

Lemma eval_swap : forall e (l r : row),
  eval (remap (swap_col (length l) (length r)) e) (r ++ l) = eval e (l ++ r).
Proof. intros. apply remap_eval. intros i. apply nth_error_swap. Qed.
Lemma passes_swap : forall e (l r : row),
  passes (remap (swap_col (length l) (length r)) e) (r ++ l) = passes e (l ++ r).
Proof. intros. unfold passes, sem3. now rewrite eval_swap. Qed.

Section JoinSwap.
  Variables (on : expr) (wl wr : nat) (L R : table).
  Hypothesis HL : forall l, In l L -> length l = wl.
  Hypothesis HR : forall r, In r R -> length r = wr.
  Let on' := remap (swap_col wl wr) on.

  Lemma passes_swap_in : forall l r, In l L -> In r R -> passes on' (r ++ l) = passes on (l ++ r).
  Proof. intros l r Hl Hr. unfold on'. rewrite <- (HL _ Hl), <- (HR _ Hr). apply passes_swap. Qed.

  Lemma cross_swap : Permutation (map (swap_row wl) (cross L R)) (cross R L).
  Proof.
    unfold cross. rewrite map_flat_map.
    assert (E : flat_map (fun l => map (swap_row wl) (map (fun r => l ++ r) R)) L
                = flat_map (fun l => map (fun r => r ++ l) R) L).
    { apply flat_map_ext_in. intros l Hl. rewrite map_map. apply map_ext. intros r.
      rewrite <- (HL _ Hl). apply swap_row_app. }
    rewrite E. apply (flat_map_singleton_swap (fun l r => r ++ l)).
  Qed.

  Lemma inner_swap : Permutation (map (swap_row wl) (inner on L R)) (inner on' R L).
  Proof.
    unfold inner.
    assert (E : map (swap_row wl) (filter (passes on) (cross L R))
                = filter (passes on') (map (swap_row wl) (cross L R))).
    { rewrite filter_map_comm. f_equal. apply filter_ext_in'. intros x Hx.
      apply in_cross in Hx as (l & r & Hl & Hr & ->).
      rewrite <- (HL _ Hl) at 1. rewrite swap_row_app. symmetry. now apply passes_swap_in. }
    rewrite E. apply Permutation_filter, cross_swap.
  Qed.

  Lemma unmatched_left_swap : map (swap_row wl) (unmatched_left on wr L R) = unmatched_right on' wr R L.
  Proof.
    unfold unmatched_left, unmatched_right. rewrite map_flat_map. apply flat_map_ext_in. intros l Hl.
    rewrite (existsb_ext_in (fun r => passes on' (r ++ l)) (fun r => passes on (l ++ r))).
    2:{ intros r Hr. now apply passes_swap_in. }
    destruct (existsb (fun r => passes on (l ++ r)) R); cbn; [reflexivity|].
    rewrite <- (HL _ Hl) at 1. now rewrite swap_row_app.
  Qed.

  Lemma unmatched_right_swap : map (swap_row wl) (unmatched_right on wl L R) = unmatched_left on' wl R L.
  Proof.
    unfold unmatched_left, unmatched_right. rewrite map_flat_map. apply flat_map_ext_in. intros r Hr.
    rewrite (existsb_ext_in (fun l => passes on' (r ++ l)) (fun l => passes on (l ++ r))).
    2:{ intros l Hl. now apply passes_swap_in. }
    destruct (existsb (fun l => passes on (l ++ r)) L); cbn; [reflexivity|].
    f_equal. rewrite <- (nulls_length wl) at 1. now rewrite swap_row_app.
  Qed.

  Theorem join_swap : forall k,
    Permutation (map (swap_row wl) (join_spec k on wl wr L R)) (join_spec (mirror_kind k) on' wr wl R L).
  Proof.
    intros []; cbn [join_spec mirror_kind]; rewrite ?map_app.
    - apply cross_swap.
    - apply inner_swap.
    - rewrite unmatched_left_swap. apply Permutation_app_tail, inner_swap.
    - rewrite unmatched_right_swap. apply Permutation_app_tail, inner_swap.
    - rewrite unmatched_left_swap, unmatched_right_swap.
      eapply perm_trans; [apply Permutation_app_tail, inner_swap|].
      apply Permutation_app_head, Permutation_app_comm.
  Qed.
End JoinSwap.
