(* C18: whole statements.  The join path (EXISTS / NOT EXISTS / IN as the whole WHERE clause),
   FROM (subquery) with simple levels, and the main theorem: on every well-formed statement
   outside the recorded finding classes the implementation model returns what the reference
   semantics defines. *)
From Coq Require Import ZArith List Bool Arith Lia.
From TV Require Import Model.SqlSpec Proof.SqlSpecLaws Model.SubqSpec Model.SubqImpl Model.SubqWf Model.SubqClass.
From TV Require Import Proof.SubqLaws Proof.SetOpsBag Proof.SubqEval Proof.SubqSelect Proof.SubqFilter Proof.SubqJoin Proof.SetOpsChain.
Import ListNotations.
Open Scope Z_scope.

Definition keep_of (db : list table) (env : list row) (w : option sx) (r : row) : res bool :=
  match w with None => ROk true | Some p => pass_res (rtv (xeval db (r :: env) p)) end.

(* ------------------------------------------------------------------ the subquery's rows against exists_opt *)
Lemma exists_match : forall db env its w2 (P : row -> option bool) R t,
  sel_rows db env its w2 R = ROk t ->
  (forall r b, In r R -> keep_of db env w2 r = ROk b -> P r = Some b) ->
  exists_opt P R = Some (negb (is_nil t)).
Proof.
  intros db env its w2 P R. induction R as [|r rest IH]; intros t H HP.
  - cbn [sel_rows] in H. inversion H. reflexivity.
  - cbn [sel_rows] in H. apply rmap2_ok in H. destruct H as [k [tl [Hk [Htl Hres]]]].
    assert (HP' : forall r0 b, In r0 rest -> keep_of db env w2 r0 = ROk b -> P r0 = Some b)
      by (intros r0 b Hin; apply HP; right; exact Hin).
    specialize (IH tl Htl HP'). cbn [exists_opt]. rewrite (HP r k (or_introl eq_refl) Hk), IH.
    destruct k.
    + apply rbind_ok in Hres. destruct Hres as [o [_ Ht]]. inversion Ht. reflexivity.
    + inversion Hres; subst t. reflexivity.
Qed.

Lemma in_match : forall db env it w2 (P : row -> option bool) x R t ys tt,
  sel_rows db env [it] w2 R = ROk t -> first_col t = Some ys -> in_vals x ys = Some tt ->
  (forall r, In r R -> exists b y e,
      keep_of db env w2 r = ROk b /\ P r = Some (b && e) /\
      (b = true -> sel_items db (r :: env) [it] = ROk [y]) /\
      (forall t0, cmp3 CEq x y = Some t0 -> e = tv_is_true t0)) ->
  exists_opt P R = Some (tv_is_true tt).
Proof.
  intros db env it w2 P x R. induction R as [|r rest IH]; intros t ys tt H Hfc Hin HP.
  - cbn [sel_rows] in H. inversion H; subst t. cbn [first_col] in Hfc. inversion Hfc; subst ys.
    cbn [in_vals] in Hin. inversion Hin. reflexivity.
  - cbn [sel_rows] in H. apply rmap2_ok in H. destruct H as [k [tl [Hk [Htl Hres]]]].
    destruct (HP r (or_introl eq_refl)) as [b [y [e [Hb [HPr [Hitem He]]]]]].
    unfold keep_of in Hb. rewrite Hb in Hk. inversion Hk; subst k.
    assert (HP' : forall r0, In r0 rest -> exists b y e,
      keep_of db env w2 r0 = ROk b /\ P r0 = Some (b && e) /\
      (b = true -> sel_items db (r0 :: env) [it] = ROk [y]) /\
      (forall t0, cmp3 CEq x y = Some t0 -> e = tv_is_true t0))
      by (intros r0 Hin0; apply HP; right; exact Hin0).
    cbn [exists_opt]. rewrite HPr. destruct b.
    + rewrite (Hitem eq_refl) in Hres. cbn [rbind] in Hres. inversion Hres; subst t.
      cbn [first_col] in Hfc. destruct (first_col tl) as [ys'|] eqn:Efc; cbn [option_map] in Hfc; [|discriminate].
      inversion Hfc; subst ys. cbn [in_vals] in Hin.
      destruct (cmp3 CEq x y) as [c|] eqn:Ec; [|discriminate]. destruct (in_vals x ys') as [tt'|] eqn:Ei; [|discriminate].
      cbn [opt_tv_or] in Hin. inversion Hin; subst tt.
      rewrite (IH tl ys' tt' Htl Efc Ei HP'). rewrite (He c eq_refl). cbn [andb]. rewrite tv_is_true_or. reflexivity.
    + inversion Hres; subst t. rewrite (IH tl ys tt Htl Hfc Hin HP'). reflexivity.
Qed.

(* ------------------------------------------------------------------ projection on the join path *)
Lemma join_project_plain : forall db lw rw l items o,
  length l = lw -> forallb plain_col_item items = true ->
  sel_items db [l] items = ROk o -> join_project lw rw items l = Some o.
Proof.
  intros db lw rw l items o Hl Hp H. unfold join_project.
  pose proof (sel_items_plain db l [] items o Hp H) as Hm. clear H.
  revert o Hm. induction items as [|it items IH]; intros o Hm; [exact Hm|].
  cbn [forallb] in Hp. apply andb_true_iff in Hp. destruct Hp as [Hit Hp]. cbn [map_opt] in *.
  destruct it as [lv i q| | | | | | | | | |]; try discriminate. destruct lv; [|discriminate]. cbn [plain_item join_item proj_idx] in *.
  destruct (nth_error l i) as [v|] eqn:Ev; [|discriminate].
  assert (Hi : (i < lw)%nat) by (rewrite <- Hl; apply nth_error_Some; congruence).
  apply Nat.ltb_lt in Hi.
  assert (Hj : (if q then (if (i <? lw)%nat then Some i else idx_by_name lw rw i) else idx_by_name lw rw i) = Some i)
    by (unfold idx_by_name; rewrite Hi; destruct q; reflexivity).
  rewrite Hj, Hi, Ev.
  destruct (map_opt (plain_item l) items) as [vs|]; [|discriminate].
  rewrite (IH Hp vs eq_refl). exact Hm.
Qed.

(* ------------------------------------------------------------------ no error *)
Lemma sel_rows_no_err_gen : forall db env items w T,
  existsb has_sub items = false ->
  (forall r, In r T -> keep_of db env w r <> RErr) ->
  sel_rows db env items w T <> RErr.
Proof.
  intros db env items w T Hi. induction T as [|r rest IH]; intro Hk; [cbn; discriminate|].
  cbn [sel_rows]. pose proof (Hk r (or_introl eq_refl)) as Hr. unfold keep_of in Hr.
  pose proof (sel_items_no_err db (r :: env) items Hi) as Hs.
  assert (IH' := IH (fun r0 Hin => Hk r0 (or_intror Hin))).
  destruct (match w with None => ROk true | Some p => pass_res (rtv (xeval db (r :: env) p)) end) as [k| |];
    destruct (sel_rows db env items w rest) as [tl| |]; cbn [rmap2]; try congruence; try discriminate.
  destruct k; [|discriminate]. destruct (sel_items db (r :: env) items); cbn [rbind]; congruence.
Qed.

Lemma pure_keys_no_sub : forall lw rw c, pure_keys lw rw c = true -> has_sub c = false.
Proof.
  intros lw rw. induction c; cbn [pure_keys has_sub]; intro H; try discriminate.
  - destruct op; try discriminate. destruct c1; try discriminate. destruct c2; try discriminate. reflexivity.
  - apply andb_true_iff in H. destruct H as [H1 H2]. rewrite IHc1, IHc2 by assumption. reflexivity.
Qed.
Lemma pure_keys_pform : forall lw rw c, pure_keys lw rw c = true -> pform c = true.
Proof.
  intros lw rw. induction c; cbn [pure_keys pform]; intro H; try discriminate.
  - destruct op; try discriminate. destruct c1; try discriminate. destruct c2; try discriminate. reflexivity.
  - apply andb_true_iff in H. destruct H as [H1 H2]. rewrite IHc1, IHc2 by assumption. reflexivity.
Qed.

Lemma plain_items_no_sub : forall items, forallb plain_col_item items = true -> existsb has_sub items = false.
Proof.
  induction items as [|it items IH]; intro H; [reflexivity|].
  cbn [forallb existsb] in *. apply andb_true_iff in H. destruct H as [H1 H2]. rewrite (IH H2).
  destruct it; try discriminate. reflexivity.
Qed.

(* ------------------------------------------------------------------ the condition of a class-0 join *)
(* nested loop over a typed subquery-free condition, or a conjunction of usable keys *)
Definition cond_ok (lw rw : nat) (c : sx) : Prop :=
  (hash_path c = false /\ has_sub c = false /\ bare_ok [rw; lw] c = true /\ pform c = true) \/ pure_keys lw rw c = true.

Lemma cond_ok_no_sub : forall lw rw c, cond_ok lw rw c -> has_sub c = false.
Proof. intros lw rw c [[_ [H _]]|H]; [exact H|eapply pure_keys_no_sub; eauto]. Qed.

Section JoinStmt.
  Variables (widths : list nat) (db : list table).
  Hypothesis Hwf : db_wf widths db = true.
  Variables (k lw k2 rw : nat) (L R : table).
  Hypothesis HlwW : nth_error widths k = Some lw.
  Hypothesis HrwW : nth_error widths k2 = Some rw.
  Hypothesis HL : nth_error db k = Some L.
  Hypothesis HR : nth_error db k2 = Some R.

  Lemma rowsL : forall l, In l L -> row_plain l = true /\ length l = lw.
  Proof. intros l Hin. exact (db_wf_row widths db k L lw l Hwf HL HlwW Hin). Qed.
  Lemma rowsR : forall r, In r R -> row_plain r = true /\ length r = rw.
  Proof. intros r Hin. exact (db_wf_row widths db k2 R rw r Hwf HR HrwW Hin). Qed.

  (* ---- [NOT] EXISTS (SELECT it FROM t_k2 [WHERE w2]) *)
  Theorem join_exists_correct : forall items neg j qq w2,
    forallb plain_col_item items = true -> (j < rw)%nat ->
    match w2 with None => True | Some c => cond_ok lw rw c end ->
    let sq := QSel [XCol 0 j qq] (SBase k2) w2 in
    agree (join_path widths db items L lw (DExists neg k2 w2))
          (sel_rows db [] items (Some (XExists neg sq)) L).
  Proof.
    intros items neg j qq w2 Hitems Hj Hc sq.
    assert (Hsub_no_err : forall l, sel_rows db [l] [XCol 0 j qq] w2 R <> RErr).
    { intro l. apply sel_rows_no_err; [reflexivity|]. destruct w2 as [c|]; [eapply cond_ok_no_sub; eauto|exact I]. }
    assert (Hpair : forall l, In l L -> forall r b, In r R ->
              keep_of db [l] w2 r = ROk b -> join_match lw rw w2 l r = Some b).
    { intros l Hl r b Hr Hb. destruct (rowsL l Hl) as [Hpl Hll]. destruct (rowsR r Hr) as [Hpr Hlr].
      destruct w2 as [c|]; unfold keep_of in Hb.
      - destruct Hc as [[Hk [Hs [Hbare Hpf]]]|Hp].
        + eapply nl_pair; eauto.
        + eapply hash_pair; eauto.
      - inversion Hb. reflexivity. }
    unfold join_path. cbn [dec_tab dec_neg join_cond]. rewrite HR, HrwW. unfold semi_anti.
    destruct (sel_rows db [] items (Some (XExists neg sq)) L) as [t| |] eqn:Hsel; cbn [agree]; [|exact I|].
    - destruct (sel_rows_filter db [] items (Some (XExists neg sq))
                 (fun l => option_map (xorb neg) (exists_opt (join_match lw rw w2 l) R)) (join_project lw rw items) L t) as [rows [Hf Hm]].
      + intros l b Hl Hb. unfold pass_res in Hb. apply rbind_ok in Hb. destruct Hb as [tv0 [Htv Hb]].
        apply rtv_ok in Htv. destruct Htv as [v [Hv Htv]].
        rewrite xeval_exists in Hv. apply rbind_ok in Hv. destruct Hv as [t' [Ht' Hv]]. inversion Hv; subst v.
        unfold sq in Ht'. rewrite qeval_sel, seval_base, HR in Ht'. cbn [of_opt rbind] in Ht'.
        rewrite (exists_match db [l] [XCol 0 j qq] w2 (join_match lw rw w2 l) R t' Ht' (Hpair l Hl)).
        cbn [option_map]. cbn [tv_of_value] in Htv. inversion Hb; subst b.
        destruct (xorb neg (negb (is_nil t'))); inversion Htv; reflexivity.
      + intros l o Hl Ho. destruct (rowsL l Hl) as [_ Hll]. eapply join_project_plain; eauto.
      + exact Hsel.
      + rewrite Hf. cbv beta iota. unfold row in *. rewrite Hm. exists t. split; [reflexivity|apply bag_eq_refl].
    - exfalso. eapply sel_rows_no_err_gen; [apply plain_items_no_sub; exact Hitems| |exact Hsel].
      intros l Hl. unfold keep_of. rewrite xeval_exists. unfold sq. rewrite qeval_sel, seval_base, HR. cbn [of_opt rbind].
      pose proof (Hsub_no_err l) as Hne.
      destruct (sel_rows db [l] [XCol 0 j qq] w2 R) as [t'| |]; cbn [rbind];
        [destruct (xorb neg (negb (is_nil t'))); cbn; discriminate|cbn; discriminate|congruence].
  Qed.

  (* ---- a IN (SELECT it FROM t_k2 [WHERE w2]) *)
  Theorem join_in_correct : forall items a j qq w2,
    forallb plain_col_item items = true -> (j < rw)%nat -> vform a = true ->
    let c1 := XCmp CEq (lift1 a) (XCol 0 j true) in
    let c := match w2 with Some p2 => XAnd c1 p2 | None => c1 end in
    cond_ok lw rw c ->
    let sq := QSel [XCol 0 j qq] (SBase k2) w2 in
    agree (join_path widths db items L lw (DIn false a (XCol 0 j qq) k2 w2))
          (sel_rows db [] items (Some (XIn false a sq)) L).
  Proof.
    intros items a j qq w2 Hitems Hj Hva c1 c Hc sq.
    assert (Hcs : has_sub c = false) by (eapply cond_ok_no_sub; eauto).
    assert (Has : has_sub a = false).
    { subst c c1. destruct w2 as [p2|]; cbn [has_sub] in Hcs; rewrite has_sub_lift1 in Hcs.
      - apply orb_false_iff in Hcs. destruct Hcs as [H1 _]. apply orb_false_iff in H1. destruct H1 as [H1 _]. exact H1.
      - apply orb_false_iff in Hcs. destruct Hcs as [H1 _]. exact H1. }
    assert (Hw2s : match w2 with Some p => has_sub p = false | None => True end).
    { subst c c1. destruct w2; [|exact I]. cbn [has_sub] in Hcs. apply orb_false_iff in Hcs. destruct Hcs. assumption. }
    assert (Hsub_no_err : forall l, sel_rows db [l] [XCol 0 j qq] w2 R <> RErr).
    { intro l. apply sel_rows_no_err; [reflexivity|exact Hw2s]. }
    assert (Hjc : join_cond (DIn false a (XCol 0 j qq) k2 w2) = Some c).
    { cbn [join_cond]. subst c c1. destruct qq; destruct w2; reflexivity. }
    (* the pair lemma in the form in_match wants *)
    assert (Hpair : forall l x, In l L -> xeval db [l] a = ROk x ->
              forall r, In r R -> forall b, keep_of db [l] w2 r = ROk b ->
              exists y e, nth_error r j = Some y /\ join_match lw rw (Some c) l r = Some (b && e) /\
                          (forall t0, cmp3 CEq x y = Some t0 -> e = tv_is_true t0)).
    { intros l x Hl Hx r Hr b Hb. destruct (rowsL l Hl) as [Hpl Hll]. destruct (rowsR r Hr) as [Hpr Hlr].
      destruct Hc as [[Hk [Hs [Hbare Hpf]]]|Hp].
      - (* nested loop *)
        apply (nl_in_pair db lw rw l r Hll Hlr Hpl Hpr a j w2 x b); auto.
        + subst c c1. destruct w2; cbn [bare_ok] in Hbare; repeat (apply andb_true_iff in Hbare; destruct Hbare as [Hbare ?]); assumption.
        + subst c c1. destruct w2 as [p2|]; unfold keep_of in Hb.
          * cbn [pform bare_ok] in *. apply andb_true_iff in Hpf. destruct Hpf as [_ Hpf2].
            apply andb_true_iff in Hbare. destruct Hbare as [_ Hb2]. repeat split; auto.
          * inversion Hb. reflexivity.
      - (* hash: the outer expression is a column *)
        assert (Hcol : exists la ia qa, a = XCol la ia qa).
        { subst c c1. destruct w2; cbn [pure_keys] in Hp; try (apply andb_true_iff in Hp; destruct Hp as [Hp _]);
            destruct a; cbn [lift1] in Hp; try discriminate; eauto. }
        destruct Hcol as [la [ia [qa Ea]]]. subst a. cbn [lift1] in *.
        apply (hash_in_pair db lw rw l r Hll Hlr Hpl Hpr la ia qa j w2 x b); auto.
        destruct w2; unfold keep_of in Hb; [exact Hb|inversion Hb; reflexivity]. }
    unfold join_path. cbn [dec_tab dec_neg]. rewrite Hjc, HR, HrwW. unfold semi_anti.
    destruct (sel_rows db [] items (Some (XIn false a sq)) L) as [t| |] eqn:Hsel; cbn [agree]; [|exact I|].
    - destruct (sel_rows_filter db [] items (Some (XIn false a sq))
                 (fun l => option_map (xorb false) (exists_opt (join_match lw rw (Some c) l) R)) (join_project lw rw items) L t) as [rows [Hf Hm]].
      + intros l b Hl Hb. unfold pass_res in Hb. apply rbind_ok in Hb. destruct Hb as [tv0 [Htv Hb]].
        apply rtv_ok in Htv. destruct Htv as [v [Hv Htv]].
        rewrite xeval_in in Hv. apply rmap2_ok in Hv. destruct Hv as [x [t' [Hx [Ht' Hv]]]].
        unfold sq in Ht'. rewrite qeval_sel, seval_base, HR in Ht'. cbn [of_opt rbind] in Ht'.
        unfold in_rows in Hv. destruct (first_col t') as [ys|] eqn:Efc; [|discriminate].
        apply of_opt_ok in Hv. unfold ret_tv in Hv. cbn [opt_tv_neg] in Hv.
        destruct (in_vals x ys) as [tt|] eqn:Ein; cbn [option_map] in Hv; [|discriminate]. inversion Hv; subst v.
        rewrite tv_of_value_of_tv in Htv. inversion Htv; subst tv0. inversion Hb; subst b.
        rewrite (in_match db [l] (XCol 0 j qq) w2 (join_match lw rw (Some c) l) x R t' ys tt Ht' Efc Ein).
        * cbn [option_map xorb]. destruct (tv_is_true tt); reflexivity.
        * intros r Hr. destruct (sel_rows_keep db [l] [XCol 0 j qq] w2 R t' Ht' r Hr) as [b Hb'].
          destruct (Hpair l x Hl Hx r Hr b Hb') as [y [e [Hy [Hjm He]]]].
          exists b, y, e. repeat split; auto.
          intros _. change (sel_items db [r; l] [XCol 0 j qq]) with
            (rmap2 (fun v vs => ROk (v :: vs)) (xeval db [r; l] (XCol 0 j qq)) (ROk [])).
          rewrite xeval_col. cbn [nth_error]. rewrite Hy. reflexivity.
      + intros l o Hl Ho. destruct (rowsL l Hl) as [_ Hll]. eapply join_project_plain; eauto.
      + exact Hsel.
      + rewrite Hf. cbv beta iota. unfold row in *. rewrite Hm. exists t. split; [reflexivity|apply bag_eq_refl].
    - exfalso. eapply sel_rows_no_err_gen; [apply plain_items_no_sub; exact Hitems| |exact Hsel].
      intros l Hl. unfold keep_of. rewrite xeval_in. unfold sq. rewrite qeval_sel, seval_base, HR. cbn [of_opt rbind].
      pose proof (Hsub_no_err l) as Hne. pose proof (xeval_no_err db [l] a Has) as Hna.
      destruct (xeval db [l] a) as [x| |]; destruct (sel_rows db [l] [XCol 0 j qq] w2 R) as [t'| |]; cbn [rmap2]; try congruence;
        try (unfold rtv, pass_res; cbn; discriminate).
      unfold in_rows. destruct (first_col t'); [|unfold rtv, pass_res; cbn; discriminate].
      destruct (ret_tv (opt_tv_neg false (in_vals x l0))) as [v|]; cbn [of_opt]; unfold rtv, pass_res; cbn [rbind];
        [destruct (tv_of_value v); cbn; discriminate|discriminate].
  Qed.
End JoinStmt.
