(* C20 model, part 3: the SQL wrappers of the calendar helpers (src/sql/functions/datetime.rs):
   YEAR MONTH DAY DAYOFWEEK DAYOFYEAR TO_DAYS FROM_DAYS LAST_DAY DATEDIFF DATE_ADD DATE_SUB.
   The helpers themselves (date_to_days, days_to_date, day_of_week, day_of_year, days_in_month) are
   the REGENERATED Gen/CalFunc.v (tools/rs2v.py reads datetime.rs on every run; proved against the
   calendar in Props/C41.v); this file transcribes what the eval_* wrappers do around them
   (repaired tree: fix commit e5e0a82 - day numbers outside 0001-01-01 .. 9999-12-31 give NULL).
   A date argument is given by its fields (y, m, d): the harness passes the text "{:04}-{:02}-{:02}",
   and `parse_date` (split on ' ' and '-', str::parse) returning those fields is an assumption that the
   correspondence run samples, not a modelled step.  Definitions only. *)
From Coq Require Import ZArith List Bool.
From TV Require Import Lib.MachInt Model.Arith Model.Calendar Model.StrFun.
From TV Require Gen.CalFunc.
Import ListNotations.
Open Scope Z_scope.

Inductive darg := DDate (y m d : Z) | DNum (n : Z) | DNullA.
Inductive dfn := DYear | DMonth | DDay | DDayOfWeek | DDayOfYear | DToDays | DFromDays | DLastDay
               | DDateDiff | DDateAdd | DDateSub.

(* decimal digits (ASCII) of n >= 0; 20 digits cover every u64 / i64 magnitude *)
Fixpoint digits_fuel (fuel : nat) (n : Z) (acc : list Z) : list Z :=
  match fuel with
  | O => acc
  | S f => let acc' := (48 + n mod 10) :: acc in if n <? 10 then acc' else digits_fuel f (n / 10) acc'
  end.
Definition digits (n : Z) : list Z := digits_fuel 20 n [].
Definition pad_digits (w : nat) (n : Z) : list Z := let ds := digits n in repeat 48 (w - length ds) ++ ds.
(* format!("{:04}", y) for an i64 (sign-aware zero padding) *)
Definition fmt4 (y : Z) : list Z := if y <? 0 then 45 :: pad_digits 3 (- y) else pad_digits 4 y.
(* format!("{:04}-{:02}-{:02}", year, month, day), month and day unsigned *)
Definition fmt_date (y m d : Z) : list Z := fmt4 y ++ [45] ++ pad_digits 2 m ++ [45] ++ pad_digits 2 d.

(* the fields the harness can write as "{:04}-{:02}-{:02}" and parse_date reads back unchanged *)
Definition fields_ok (y m d : Z) : bool :=
  (0 <=? y) && (y <=? 9999) && (0 <=? m) && (m <=? 99) && (0 <=? d) && (d <=? 99).

Definition guard (ok : bool) (o : out) : out := if ok then o else OPanic.
(* MIN_DAY_NUMBER ..= MAX_DAY_NUMBER: the day numbers of 0001-01-01 and 9999-12-31 *)
Definition day_number_ok (n : Z) : bool := (1 <=? n) && (n <=? 3652059).
Definition date_text (t : Z * Z * Z) : out := let '(y, m, d) := t in OVal (VText (fmt_date y m d)).

Definition eval_dfn (f : dfn) (args : list darg) : out :=
  match f, args with
  | _, DNullA :: _ => ONone                                             (* get_text(args.first()?)? *)
  | (DYear | DMonth | DDay | DDayOfWeek | DDayOfYear | DToDays | DLastDay), DDate y m d :: _ =>
      if negb (fields_ok y m d) then OUnmod else
      match f with
      | DYear => OVal (VInt y)
      | DMonth => OVal (VInt m)
      | DDay => OVal (VInt d)
      | DDayOfWeek => guard (CalFunc.day_of_week_safe y m d) (OVal (VInt (CalFunc.day_of_week y m d + 1)))
      | DDayOfYear => guard (CalFunc.day_of_year_safe y m d) (OVal (VInt (CalFunc.day_of_year y m d)))
      | DToDays => guard (CalFunc.date_to_days_safe y m d) (OVal (VInt (CalFunc.date_to_days y m d)))
      | _ => guard (CalFunc.days_in_month_safe y m) (OVal (VText (fmt_date y m (CalFunc.days_in_month y m))))
      end
  | DFromDays, DNum n :: _ =>
      if day_number_ok n then guard (CalFunc.days_to_date_safe n) (date_text (CalFunc.days_to_date n)) else OVal VNull
  | DDateDiff, DDate y1 m1 d1 :: DDate y2 m2 d2 :: _ =>
      if negb (fields_ok y1 m1 d1 && fields_ok y2 m2 d2) then OUnmod else
      guard (CalFunc.date_to_days_safe y1 m1 d1 && CalFunc.date_to_days_safe y2 m2 d2)
            (chk (CalFunc.date_to_days y1 m1 d1 - CalFunc.date_to_days y2 m2 d2))
  | DDateDiff, DDate _ _ _ :: DNullA :: _ => ONone
  | (DDateAdd | DDateSub), DDate y m d :: DNum k :: _ =>
      if negb (fields_ok y m d) then OUnmod else
      guard (CalFunc.date_to_days_safe y m d)
        (let n := CalFunc.date_to_days y m d in
         let n' := match f with DDateAdd => n + k | _ => n - k end in
         (* checked_add / checked_sub, then the range check *)
         if in_i64 n' && day_number_ok n' then guard (CalFunc.days_to_date_safe n') (date_text (CalFunc.days_to_date n'))
         else OVal VNull)
  | (DDateAdd | DDateSub), DDate _ _ _ :: DNullA :: _ => ONone
  | _, [] => ONone
  | _, _ => OUnmod
  end.

(* ------------------------------------------------------------------ Spec: the calendar of Model/Calendar.v *)
Definition last_rata : Z := rata_fast 9999 12 31.

(* the date with day number n (0001-01-01 = 0), found by search - independent of the code's formulas *)
Fixpoint find_month (fuel : nat) (leap : bool) (rest m : Z) : Z * Z :=
  match fuel with
  | O => (m, rest + 1)
  | S f =>
      let len := dbm_table leap (m + 1) - dbm_table leap m in
      if (m <? 12) && (len <=? rest) then find_month f leap (rest - len) (m + 1) else (m, rest + 1)
  end.
Fixpoint find_year (fuel : nat) (n y : Z) : Z :=
  match fuel with
  | O => y
  | S f => if dby_closed (y + 1) <=? n then find_year f n (y + 1) else y
  end.
Definition date_of_rata (n : Z) : Z * Z * Z :=
  let y := find_year 40 n (n / 366 + 1) in
  let '(m, d) := find_month 12 (is_leap y) (n - dby_closed y) 1 in
  (y, m, d).

Definition real_date (y m d : Z) : bool := (1 <=? y) && (y <=? 9999) && valid_date y m d.

Definition date_exact (f : dfn) (args : list darg) : sres :=
  match f, args with
  | _, DNullA :: _ => SNull
  | (DDateDiff | DDateAdd | DDateSub), _ :: DNullA :: _ => SNull
  | (DYear | DMonth | DDay | DDayOfWeek | DDayOfYear | DToDays | DLastDay), [DDate y m d] =>
      if negb (real_date y m d) then SAny else
      match f with
      | DYear => SInt y
      | DMonth => SInt m
      | DDay => SInt d
      | DDayOfWeek => SInt ((rata_fast y m d + 1) mod 7 + 1)                 (* 1 = Sunday ... 7 = Saturday *)
      | DDayOfYear => SInt (dbm_table (is_leap y) m + d)
      | DToDays => SAny                                                      (* the epoch of the day number is not documented *)
      | _ => SText (fmt_date y m (dim y m))
      end
  | DDateDiff, [DDate y1 m1 d1; DDate y2 m2 d2] =>
      if real_date y1 m1 d1 && real_date y2 m2 d2 then SInt (rata_fast y1 m1 d1 - rata_fast y2 m2 d2) else SAny
  | (DDateAdd | DDateSub), [DDate y m d; DNum k] =>
      if negb (real_date y m d) then SAny else
      let n := match f with DDateAdd => rata_fast y m d + k | _ => rata_fast y m d - k end in
      if (0 <=? n) && (n <=? last_rata) then let '(y', m', d') := date_of_rata n in SText (fmt_date y' m' d') else SAny
  | _, _ => SAny
  end.

(* no finding class is left for the date functions (F-C20-8, panics on huge day counts, is repaired) *)
