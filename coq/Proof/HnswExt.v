(* Proof/HnswExt.v -- search depends on the index state only through its node array, entry point and
   max level (not through the row-id map or the vacuum queue). *)
From Coq Require Import ZArith List Bool Lia.
From TV Require Import Model.Hnsw.
Import ListNotations.
Open Scope Z_scope.

Lemma greedy_step_ext : forall nbrs cdf cdf' best bd,
  (forall n, cdf n = cdf' n) -> greedy_step nbrs cdf best bd = greedy_step nbrs cdf' best bd.
Proof.
  induction nbrs as [|x t IH]; intros cdf cdf' best bd H; cbn [greedy_step]; auto.
  rewrite <- (H x). destruct (dlt (cdf x) bd); apply IH; auto.
Qed.

Lemma greedy_ext : forall iters gn gn' cdf cdf' cur d,
  (forall n, gn n = gn' n) -> (forall n, cdf n = cdf' n) ->
  greedy iters gn cdf cur d = greedy iters gn' cdf' cur d.
Proof.
  induction iters as [|f IH]; intros gn gn' cdf cdf' cur d Hg Hc; cbn [greedy]; auto.
  rewrite <- (Hg cur), (greedy_step_ext (gn cur) cdf cdf' cur d Hc).
  destruct (greedy_step (gn cur) cdf' cur d) as [n' d']. destruct (n' =? cur); auto.
Qed.

Lemma beam_nbrs_ext : forall nbrs cdf cdf' ef c,
  (forall n, cdf n = cdf' n) -> beam_nbrs nbrs cdf ef c = beam_nbrs nbrs cdf' ef c.
Proof.
  induction nbrs as [|x t IH]; intros cdf cdf' ef c H; cbn [beam_nbrs]; auto.
  rewrite <- (H x). destruct (mem x (b_vis c)); [apply IH; auto|].
  destruct (dlt (cdf x) (worst (b_res c)) || (Z.of_nat (length (b_res c)) <? ef)); apply IH; auto.
Qed.

Lemma beam_loop_ext : forall fuel gn gn' cdf cdf' ef c,
  (forall n, gn n = gn' n) -> (forall n, cdf n = cdf' n) ->
  beam_loop fuel gn cdf ef c = beam_loop fuel gn' cdf' ef c.
Proof.
  induction fuel as [|f IH]; intros gn gn' cdf cdf' ef c Hg Hc; cbn [beam_loop]; auto.
  destruct (pop le_min (b_cands c)) as [[cur rest]|]; auto.
  destruct (dlt (worst (b_res c)) (cd cur)); auto.
  rewrite <- (Hg (cid cur)), (beam_nbrs_ext (gn (cid cur)) cdf cdf' ef _ Hc). apply IH; auto.
Qed.

Lemma descend_ext : forall n lvl s s' cdf cdf' ep ed,
  nodes s' = nodes s -> (forall x, cdf x = cdf' x) ->
  descend n lvl s cdf ep ed = descend n lvl s' cdf' ep ed.
Proof.
  induction n as [|n IH]; intros lvl s s' cdf cdf' ep ed Hn Hc; cbn [descend]; auto.
  rewrite (greedy_ext GREEDY_MAX_ITER (gn_at s lvl) (gn_at s' lvl) cdf cdf' ep ed); auto.
  - destruct (greedy GREEDY_MAX_ITER (gn_at s' lvl) cdf' ep ed) as [e' d']. apply IH; auto.
  - intros x. unfold gn_at, read_node. rewrite Hn. reflexivity.
Qed.

Lemma search_graph_only : forall p getv s s' q k ef,
  nodes s' = nodes s -> entry s' = entry s -> maxlvl s' = maxlvl s ->
  search p getv s' q k ef = search p getv s q k ef.
Proof.
  intros p getv s s' q k ef Hn He Hm. unfold search. rewrite He, Hm.
  destruct (negb (Z.of_nat (length q) =? dims p)); auto.
  destruct (entry s) as [ep|]; auto. destruct (ep <? 0); auto.
  assert (Hcd : forall x, cd_search s' getv q x = cd_search s getv q x).
  { intros x. unfold cd_search, read_node. rewrite Hn. reflexivity. }
  rewrite (descend_ext _ _ s' s (cd_search s' getv q) (cd_search s getv q) ep _ (eq_sym Hn) Hcd), (Hcd ep).
  destruct (descend _ _ s (cd_search s getv q) ep _) as [cur d].
  unfold beam, beam_fuel, total_links, all_links. rewrite Hn.
  rewrite (beam_loop_ext _ (gn_at s' 0) (gn_at s 0) (cd_search s' getv q) (cd_search s getv q)); auto.
  - destruct (beam_loop _ _ _ _ _) as [c|]; cbn [option_map]; auto.
    f_equal. generalize (finalize k (b_res c)). intros l. induction l as [|c0 t IHl]; cbn [flat_map]; auto.
    rewrite IHl. f_equal. unfold result_of, read_node. rewrite Hn. reflexivity.
  - intros x. unfold gn_at, read_node. rewrite Hn. reflexivity.
Qed.
