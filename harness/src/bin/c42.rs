//! C42 -- configuration choices do not change query results.
//!   gen    --seed S --tier T --out DIR [--lines FILE]
//!   search --seed S --budget N --out FILE
//! Two case kinds, judged by coq/Corr/C42.v:
//!  * `L cap|ops`   : an operation sequence on the real `turdb::storage::LruFileCache<u64, u64>` (the
//!                    open-file LRU of src/storage/file_manager.rs), every result recorded;
//!  * `H <history>` : one DML history of dml_common (the C05 generator) run on the real Database once
//!                    per configuration of CONFIGS (PRAGMA wal / synchronous / wal_autoflush /
//!                    wal_checkpoint_threshold, and 70 filler tables + 70 indexes = 140 data files, more
//!                    than the 64-file limit, all scanned before every statement), observed after
//!                    every statement.
#[path = "sqlgen/mod.rs"]
mod sqlgen;
#[path = "dml_common/mod.rs"]
mod dml_common;
use dml_common::*;
use sqlgen::Val;
use tvh::*;
use turdb::storage::LruFileCache;

/// (name, wal, pragmas, filler tables).  Configuration 0 is the baseline the others are compared with.
fn configs() -> Vec<(&'static str, bool, Vec<&'static str>, usize)> {
    vec![
        ("wal_off", false, vec![], 0),
        ("wal_on_full", true, vec!["PRAGMA synchronous=FULL", "PRAGMA wal_autoflush=ON"], 0),
        ("wal_on_sync_off_noflush", true, vec!["PRAGMA synchronous=OFF", "PRAGMA wal_autoflush=OFF"], 0),
        ("wal_on_normal_ckpt1", true, vec!["PRAGMA synchronous=NORMAL", "PRAGMA wal_autoflush=ON", "PRAGMA wal_checkpoint_threshold=1"], 0),
        ("wal_off_140files", false, vec![], 70),
        ("wal_on_ckpt2_140files", true, vec!["PRAGMA synchronous=NORMAL", "PRAGMA wal_checkpoint_threshold=2"], 70),
    ]
}

// ------------------------------------------------------------------ LRU cases
#[derive(Clone, Debug)]
enum LOp { Get(u64), GetMut(u64), Insert(u64, u64), Pop, Remove(u64), Len }
impl LOp {
    fn line(&self) -> String {
        match self { LOp::Get(k) => format!("g{}", k), LOp::GetMut(k) => format!("m{}", k), LOp::Insert(k, v) => format!("i{}:{}", k, v), LOp::Pop => "p".into(), LOp::Remove(k) => format!("r{}", k), LOp::Len => "l".into() }
    }
    fn parse(t: &str) -> Option<LOp> {
        let (h, r) = t.split_at(1);
        Some(match h {
            "g" => LOp::Get(r.parse().ok()?), "m" => LOp::GetMut(r.parse().ok()?), "r" => LOp::Remove(r.parse().ok()?),
            "p" => LOp::Pop, "l" => LOp::Len,
            "i" => { let (a, b) = r.split_once(':')?; LOp::Insert(a.parse().ok()?, b.parse().ok()?) }
            _ => return None,
        })
    }
    fn coq(&self) -> String {
        match self { LOp::Get(k) => format!("LGet {}", k), LOp::GetMut(k) => format!("LGetMut {}", k), LOp::Insert(k, v) => format!("LInsert {} {}", k, v), LOp::Pop => "LPop".into(), LOp::Remove(k) => format!("LRemove {}", k), LOp::Len => "LLen".into() }
    }
}
fn oz(v: Option<u64>) -> String { match v { Some(x) => format!("OVal (Some {})", x), None => "OVal None".into() } }
fn op2(v: Option<(u64, u64)>) -> String { match v { Some((a, b)) => format!("OPair (Some ({}, {}))", a, b), None => "OPair None".into() } }

#[derive(Clone, Debug, PartialEq)]
enum LOut { Val(Option<u64>), Pair(Option<(u64, u64)>), Num(u64) }
fn lru_run(cap: usize, ops: &[LOp]) -> Vec<LOut> {
    let mut c: LruFileCache<u64, u64> = LruFileCache::new(cap);
    ops.iter().map(|o| match o {
        LOp::Get(k) => LOut::Val(c.get(k).copied()),
        LOp::GetMut(k) => LOut::Val(c.get_mut(k).map(|v| *v)),
        LOp::Insert(k, v) => LOut::Pair(c.insert(*k, *v)),
        LOp::Pop => LOut::Pair(c.pop_lru()),
        LOp::Remove(k) => LOut::Val(c.remove(k)),
        LOp::Len => LOut::Num(c.len() as u64),
    }).collect()
}
fn lru_line(cap: usize, ops: &[LOp]) -> String { format!("L {}|{}", cap, ops.iter().map(|o| o.line()).collect::<Vec<_>>().join(" ")) }
fn lru_parse(l: &str) -> Option<(usize, Vec<LOp>)> {
    let (c, o) = l.strip_prefix("L ")?.split_once('|')?;
    Some((c.trim().parse().ok()?, o.split_whitespace().map(LOp::parse).collect::<Option<Vec<_>>>()?))
}
/// the property's own oracle on the observed results: a bounded partial map that never answers with a
/// value other than the last one stored for the key and never drops a key without reporting it
fn lru_oracle(cap: usize, ops: &[LOp], outs: &[LOut]) -> bool {
    let mut m: std::collections::BTreeMap<u64, u64> = Default::default();
    for (o, r) in ops.iter().zip(outs) {
        let ok = match (o, r) {
            (LOp::Get(k), LOut::Val(v)) | (LOp::GetMut(k), LOut::Val(v)) => m.get(k).copied() == *v,
            (LOp::Insert(k, v), LOut::Pair(ev)) => {
                let e_ok = match ev { Some((e, w)) => e != k && m.remove(e) == Some(*w), None => true };
                m.insert(*k, *v);
                e_ok && m.len() <= cap.max(1)
            }
            (LOp::Pop, LOut::Pair(ev)) => match ev { Some((e, w)) => m.remove(e) == Some(*w), None => m.is_empty() },
            (LOp::Remove(k), LOut::Val(v)) => m.remove(k) == *v,
            (LOp::Len, LOut::Num(n)) => *n == m.len() as u64,
            _ => false,
        };
        if !ok { return false; }
    }
    true
}
fn gen_lru(rng: &mut Rng) -> (usize, Vec<LOp>) {
    let cap = *rng.pick(&[0usize, 1, 2, 3, 3, 4, 4, 5, 8, 8, 16, 64]);
    let keys = (cap as u64 + 1 + rng.below(4)).max(2);
    let n = 4 + rng.below(if cap >= 16 { 160 } else { 50 }) as usize;
    let mut ops = vec![];
    for i in 0..n {
        let k = rng.below(keys);
        ops.push(match rng.below(20) {
            0..=7 => LOp::Insert(k, 100 + i as u64),
            8..=12 => LOp::Get(k),
            13..=14 => LOp::GetMut(k),
            15 => LOp::Pop,
            16..=17 => LOp::Remove(k),
            _ => LOp::Len,
        });
    }
    (cap, ops)
}
fn emit_lru(w: &mut CaseWriter, cap: usize, ops: &[LOp]) {
    let line = lru_line(cap, ops);
    let outs = match catch({ let o = ops.to_vec(); move || lru_run(cap, &o) }) {
        Caught::Done(o) => o,
        Caught::Panicked(_) => { w.push(format!("LruCase {} [LLen] []", cap), line, false, "lru:panic"); return; }
    };
    let evictions = outs.iter().filter(|o| matches!(o, LOut::Pair(Some(_)))).count();
    let terms: Vec<String> = outs.iter().map(|o| match o { LOut::Val(v) => oz(*v), LOut::Pair(p) => op2(*p), LOut::Num(n) => format!("ONum {}", n) }).collect();
    let t = format!("LruCase {} {} {}", cap, clist(&ops.iter().map(|o| o.coq()).collect::<Vec<_>>()), clist(&terms));
    w.push(t, line, evictions > 0, &format!("lru:cap={}", if cap <= 1 { "0-1" } else if cap <= 5 { "2-5" } else { "8+" }));
    w.count("lru:operations", ops.len() as u64);
    w.count("lru:evictions_on_insert", evictions as u64);
    if !lru_oracle(cap, ops, &outs) { w.count("oracle:property_violated_in_lru_case", 1); }
}

// ------------------------------------------------------------------ configuration cases
struct Suts(Vec<Sut>);
impl Suts {
    fn new() -> Suts {
        Suts(configs().iter().enumerate().map(|(i, (_, _, pre, filler))| {
            let mut s = Sut::new(&format!("C42c{}", i));
            s.pre = pre.iter().map(|p| p.to_string()).collect();
            s.filler = *filler;
            s
        }).collect())
    }
    fn run(&mut self, sch: &Schema, h: &[Stmt]) -> Result<Vec<Vec<HObs>>, String> {
        let cfgs = configs();
        let mut out = vec![];
        for (i, s) in self.0.iter_mut().enumerate() {
            let mut sc = sch.clone();
            sc.wal = cfgs[i].1;
            out.push(s.run_history(&sc, h).map_err(|e| format!("config {}: {}", cfgs[i].0, e))?);
        }
        Ok(out)
    }
    fn cleanup(&mut self) { for s in self.0.iter_mut() { s.cleanup(); } }
}
fn obs_same(a: &HObs, b: &HObs) -> bool {
    let bag = |x: &Option<Vec<Vec<Val>>>, y: &Option<Vec<Vec<Val>>>| match (x, y) {
        (Some(x), Some(y)) => { let mut x: Vec<String> = x.iter().map(|r| format!("{:?}", r)).collect(); let mut y: Vec<String> = y.iter().map(|r| format!("{:?}", r)).collect(); x.sort(); y.sort(); x == y }
        (None, None) => true,
        _ => false,
    };
    let res = match (&a.res, &b.res) {
        (Res::Aff(n, x), Res::Aff(m, y)) => n == m && bag(x, y),
        (Res::Err(_), Res::Err(_)) | (Res::Panic, Res::Panic) => true,
        _ => false,
    };
    res && bag(&a.rows, &b.rows) && a.cnt == b.cnt
}
/// first (config, step) whose observation differs from the baseline configuration
fn first_diff(runs: &[Vec<HObs>]) -> Option<(usize, usize)> {
    for (c, r) in runs.iter().enumerate().skip(1) {
        for (i, (a, b)) in runs[0].iter().zip(r.iter()).enumerate() { if !obs_same(a, b) { return Some((c, i)); } }
    }
    None
}
fn emit_hist(w: &mut CaseWriter, suts: &mut Suts, sch: &Schema, h: &[Stmt], stream: &str) {
    let line = format!("H {}", hist_line(sch, h));
    let runs = match suts.run(sch, h) {
        Ok(r) => r,
        Err(m) => { eprintln!("C42: setup failed ({}): {}", m, line); w.count("setup_failed", 1); return; }
    };
    let cfgs = configs();
    let terms: Vec<String> = runs.iter().enumerate().map(|(i, obs)| { let mut sc = sch.clone(); sc.wal = cfgs[i].1; format!("({})", case_term(&sc, h, obs)) }).collect();
    let wrote = runs[0].iter().filter(|o| matches!(&o.res, Res::Aff(n, _) if *n > 0)).count();
    w.push(format!("CfgCase {}", clist(&terms)), line, wrote >= 2, &format!("cfg:{}:key={}", stream, match sch.key { KeyKind::None => "none", KeyKind::Pk => "pk", KeyKind::Uniq => "unique" }));
    w.count("cfg:statements_per_configuration", h.len() as u64);
    w.count("cfg:configurations_run", runs.len() as u64);
    if sch.xidx { w.count("cfg:secondary_index", 1); }
    if first_diff(&runs).is_some() { w.count("oracle:property_violated_in_history", 1); }
}

fn gen(a: &Args) {
    let mut w = CaseWriter::new(&a.out, "C42", "Corr.C42", 40);
    let mut suts = Suts::new();
    if let Some(lines) = a.replay_lines() {
        for l in lines {
            if let Some((cap, ops)) = lru_parse(&l) { emit_lru(&mut w, cap, &ops); }
            else if let Some((sch, h)) = l.strip_prefix("H ").and_then(parse_hist) { emit_hist(&mut w, &mut suts, &sch, &h, "replay"); }
            else { eprintln!("C42: cannot parse replay line: {}", l); }
        }
        suts.cleanup();
        w.finish(&[]);
        return;
    }
    let mut rng = Rng::new(a.seed);
    let (nl, nh, hi) = if a.thorough() { (6000, 300, 40) } else { (600, 36, 16) };
    for _ in 0..nl { let (cap, ops) = gen_lru(&mut rng); emit_lru(&mut w, cap, &ops); }
    for i in 0..nh {
        let prof = if i % 3 == 2 { Profile::Dirty } else { Profile::Clean };
        let len = 4 + rng.below((hi - 3) as u64) as usize;
        let (sch, h) = gen_history(&mut rng, prof, len);
        emit_hist(&mut w, &mut suts, &sch, &h, if i % 3 == 2 { "dirty" } else { "clean" });
    }
    suts.cleanup();
    let names: Vec<String> = configs().iter().map(|c| format!("{}[wal={} {} filler_tables={}]", c.0, c.1, c.2.join("; "), c.3)).collect();
    w.finish(&[("configurations".to_string(), format!("{:?}", names.join(" | ")))]);
}

fn search(a: &Args) {
    let mut rng = Rng::new(a.seed ^ 0xC42_5EA7);
    let mut suts = Suts::new();
    let mut fails: Vec<String> = vec![];
    let mut tried: u64 = 0;
    let budget = a.budget.min(6_000);
    while tried < budget {
        if rng.below(4) > 0 {
            let (cap, ops) = gen_lru(&mut rng);
            tried += 1;
            if let Caught::Done(outs) = catch({ let o = ops.clone(); move || lru_run(cap, &o) }) {
                if !lru_oracle(cap, &ops, &outs) && fails.len() < 40 { fails.push(lru_line(cap, &ops)); }
            } else if fails.len() < 40 { fails.push(lru_line(cap, &ops)); }
        } else {
            let len = 3 + rng.below(20) as usize;
            let prof = if rng.below(3) == 0 { Profile::Dirty } else { Profile::Clean };
            let (sch, h) = gen_history(&mut rng, prof, len);
            tried += h.len() as u64;
            let Ok(runs) = suts.run(&sch, &h) else { continue };
            if let Some((_, i)) = first_diff(&runs) { if fails.len() < 40 { fails.push(format!("H {}", hist_line(&sch, &h[..=i]))); } }
        }
    }
    suts.cleanup();
    let mut out = format!("tried={}\n", tried);
    for f in &fails { out.push_str("FAIL "); out.push_str(f); out.push('\n'); }
    std::fs::write(&a.out, out).expect("write search output");
}

fn main() {
    let a = Args::parse();
    match a.mode.as_str() {
        "gen" => gen(&a),
        "search" => search(&a),
        _ => { eprintln!("C42: unknown mode"); std::process::exit(2); }
    }
}
