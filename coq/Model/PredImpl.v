(* Hand-written model of TurDB's predicate evaluation AS IT IS after the repairs
   09f6c0c (three-valued eval_tv), e461c39 (constant folding), ad4c27e (LIKE), dd0c52e (IN
   equality), f600909 (i64::MIN literal), 4a1f993 (NOT precedence), 5b60fb5 (BETWEEN with an
   unevaluable bound), d9dc553 (checked integer arithmetic: overflow yields None), for property C14.
   Definitions only.

   Transcribed from /repo:
     src/sql/predicate.rs   CompiledPredicate::eval_expr / eval_tv (the three-valued evaluator used
                            by FilterExec), is_predicate, value_as_tv, eval_value (Option<Value>,
                            operands and the select list through evaluate_to_value), values_equal,
                            value_cmp, like_match_impl, eval_arithmetic_op, compare_values
     src/sql/optimizer/rules/constant_folding.rs   try_fold_filter_predicate, literals_equal,
                            fold_plan (a predicate folded to FALSE keeps the scan under a constant
                            FALSE filter)
     src/sql/optimizer/mod.rs                      optimize (max_iterations = 10)
     src/sql/parser.rs      a negative numeric literal is UnaryOp{Minus, Literal}; NOT binds weaker
                            than comparison / IS / IN / BETWEEN / LIKE
   Not translatable by tools/rs2v.py (enums, Option, strings, recursion over an AST), hence
   hand-modelled; tied to the code by the correspondence run (Corr/C14.v). *)
From Coq Require Import ZArith List Bool.
From TV Require Import Model.SqlSpec.
Import ListNotations.
Open Scope Z_scope.

(* crate::types::Value restricted to the variants a BIGINT / DOUBLE PRECISION / TEXT table
   and the literals can produce *)
Inductive ivalue := INull | IInt (z : Z) | IFloat (bits : Z) | IText (s : list Z).

(* outcome of running implementation code: a result, a panic (dev profile: overflow checks),
   or a construct this model does not cover (never produced by the generators; a case that
   reaches it is reported as a disagreement, not silently accepted) *)
Inductive res (A : Type) := Ok (a : A) | Panic | Unmod.
Arguments Ok {A} a.
Arguments Panic {A}.
Arguments Unmod {A}.

Definition bindr {A B} (x : res A) (f : A -> res B) : res B :=
  match x with Ok a => f a | Panic => Panic | Unmod => Unmod end.
(* the `?` on Option<Value>: None short-circuits *)
Definition bindo {A B} (x : res (option A)) (f : A -> res (option B)) : res (option B) :=
  match x with Ok (Some a) => f a | Ok None => Ok None | Panic => Panic | Unmod => Unmod end.

Definition ib (b : bool) : ivalue := IInt (Z.b2z b).

(* ------------------------------------------------------------------ floats in the implementation *)
(* `x as f64` for an i64: round to nearest, ties to even; the result is an integer *)
Definition round53 (x : Z) : Z :=
  let a := Z.abs x in
  if a <=? 2 ^ 53 then x else
  let k := Z.log2 a - 52 in
  let q := a / 2 ^ k in
  let r := a mod 2 ^ k in
  let half := 2 ^ (k - 1) in
  let q' := if (half <? r) || ((r =? half) && Z.odd q) then q + 1 else q in
  Z.sgn x * (q' * 2 ^ k).

(* f64::partial_cmp *)
Definition f_partial_cmp (a b : Z) : option comparison := fcmp a b.
(* (x as f64).partial_cmp(&b) *)
Definition if_partial_cmp (x b : Z) : option comparison :=
  if f_ok b && negb (f_is_nan b) then Some (ifcmp_exact (round53 x) b) else None.

(* ------------------------------------------------------------------ value helpers *)
Definition is_inull (v : ivalue) : bool := match v with INull => true | _ => false end.

(* values_equal (IN lists): exact equality; NULL is handled by the caller *)
Definition values_equal (a b : ivalue) : bool :=
  match a, b with
  | INull, INull => true
  | INull, _ | _, INull => false
  | IInt x, IInt y => x =? y
  | IFloat x, IFloat y => match f_partial_cmp x y with Some Eq => true | _ => false end
  | IInt x, IFloat y => match if_partial_cmp x y with Some Eq => true | _ => false end
  | IFloat x, IInt y => match if_partial_cmp y x with Some Eq => true | _ => false end
  | IText x, IText y => zlist_eqb' x y
  | _, _ => false
  end.

(* value_cmp: used by BETWEEN *)
Definition value_cmp (a b : ivalue) : option comparison :=
  match a, b with
  | INull, _ | _, INull => None
  | IInt x, IInt y => Some (Z.compare x y)
  | IFloat x, IFloat y => f_partial_cmp x y
  | IInt x, IFloat y => if_partial_cmp x y
  | IFloat x, IInt y => option_map CompOpp (if_partial_cmp y x)
  | IText x, IText y => Some (bytes_cmp x y)
  | _, _ => None
  end.

(* compare_values: (Null, Null) is still Ordering::Equal there, but eval_tv never passes a NULL *)
Definition cmp_ordering (a b : ivalue) : option comparison :=
  match a, b with
  | INull, INull => Some Eq
  | INull, _ | _, INull => None
  | IInt x, IInt y => Some (Z.compare x y)
  | IInt x, IFloat y => if_partial_cmp x y
  | IFloat x, IInt y => option_map CompOpp (if_partial_cmp y x)
  | IFloat x, IFloat y => f_partial_cmp x y
  | IText x, IText y => Some (bytes_cmp x y)
  | _, _ => None
  end.
Definition compare_values (a b : ivalue) (op : cmpop) : bool :=
  match cmp_ordering a b with
  | Some c => cmp_holds op c
  | None => false
  end.

(* value_as_tv: truth value of a non-predicate expression used as a condition *)
Definition value_as_tv (o : option ivalue) : option bool :=
  match o with
  | Some (IInt n) => Some (negb (n =? 0))
  | Some (IFloat f) => Some (negb (f_key f =? 0) || f_is_nan f)
  | Some INull | None => None
  | Some (IText _) => Some false
  end.

(* eval_arithmetic_op with i64::checked_add / checked_sub / checked_mul: overflow yields None *)
Definition arith_i (op : arith) (a b : ivalue) : res (option ivalue) :=
  match a, b with
  | IInt x, IInt y => let z := arith_z op x y in if i64_ok z then Ok (Some (IInt z)) else Ok None
  | IFloat _, (IInt _ | IFloat _) | IInt _, IFloat _ => Unmod      (* float arithmetic: not modelled *)
  | _, _ => Ok None
  end.

(* ------------------------------------------------------------------ LIKE (like_match_impl) *)
Fixpoint strip_pct (p : list Z) : list Z :=
  match p with c :: p' => if c =? 37 then strip_pct p' else p | [] => [] end.
Definition is_nil (p : list Z) : bool := match p with [] => true | _ => false end.

(* The two-index loop, on suffixes: t = text[ti..], p = pattern[pi..],
   star = Some (pattern[star_pi+1..], text[star_ti..]).  None = out of fuel.
   The wildcard test comes first. *)
Fixpoint like_loop (fuel : nat) (t p : list Z) (star : option (list Z * list Z)) : option bool :=
  match fuel with
  | O => None
  | S f =>
      match t with
      | [] => Some (is_nil (strip_pct p))
      | x :: t' =>
          let backtrack :=
            match star with
            | Some (sp, _ :: st') => like_loop f st' sp (Some (sp, st'))
            | Some (sp, []) => Some (is_nil (strip_pct sp))
            | None => Some false
            end in
          match p with
          | c :: p' =>
              if c =? 37 then like_loop f t p' (Some (p', t))
              else if (c =? 95) || (c =? x) then like_loop f t' p' star
              else backtrack
          | [] => backtrack
          end
      end
  end.
Definition like_fuel (t p : list Z) : nat := (length t + 2) * (length p + 2).
Definition like_impl (t p : list Z) : option bool := like_loop (like_fuel t p) t p None.

(* ------------------------------------------------------------------ literals and columns *)
(* how the harness prints a literal and what the parser + eval_value make of it: a negative
   integer is UnaryOp{Minus, Integer(digits)}, evaluated by parsing "-digits" as i64 *)
Definition lit_value (v : value) : res (option ivalue) :=
  match v with
  | VNull => Ok (Some INull)
  | VInt z => if i64_ok z then Ok (Some (IInt z)) else Ok None
  | VFloat b => if f_finite b then Ok (Some (IFloat b)) else Unmod
  | VText s => Ok (Some (IText s))
  | VBool b => Ok (Some (ib b))
  end.

Definition col_value (v : value) : res (option ivalue) :=
  match v with
  | VNull => Ok (Some INull)
  | VInt z => Ok (Some (IInt z))
  | VFloat b => Ok (Some (IFloat b))
  | VText s => Ok (Some (IText s))
  | VBool _ => Unmod
  end.

(* ------------------------------------------------------------------ eval_tv / eval_value *)
(* One traversal computes what both mutually recursive Rust functions return for a node:
   a predicate node (is_predicate) has a truth value XT (Some true / Some false / None = UNKNOWN),
   every other node a value XV (Option<Value>). *)
Inductive xval := XT (t : option bool) | XV (o : option ivalue).

(* eval_tv of a node, given its result: predicate nodes directly, others through value_as_tv *)
Definition as_tv (x : xval) : option bool :=
  match x with XT t => t | XV o => value_as_tv o end.
(* eval_value of a node: predicates become Int(1) / Int(0) / Null *)
Definition as_val (x : xval) : option ivalue :=
  match x with
  | XT (Some b) => Some (ib b)
  | XT None => Some INull
  | XV o => o
  end.

Definition and3 (a b : option bool) : option bool :=
  match a, b with
  | Some false, _ | _, Some false => Some false
  | Some true, Some true => Some true
  | _, _ => None
  end.
Definition or3 (a b : option bool) : option bool :=
  match a, b with
  | Some true, _ | _, Some true => Some true
  | Some false, Some false => Some false
  | _, _ => None
  end.
(* one bound of BETWEEN: `side` *)
Definition between_side (x bound : ivalue) (reject : comparison) : option bool :=
  if is_inull x || is_inull bound then None
  else Some (match value_cmp x bound with
             | Some o => match o, reject with Lt, Lt | Gt, Gt => false | _, _ => true end
             | None => false
             end).

Definition or_null (o : option ivalue) : ivalue := match o with Some v => v | None => INull end.

Fixpoint evalx (e : expr) (r : row) : res xval :=
  match e with
  | ECol i => match nth_error r i with
              | Some v => bindr (col_value v) (fun o => Ok (XV o))
              | None => Ok (XV None)
              end
  | ELit v => bindr (lit_value v) (fun o => Ok (XV o))
  | EArith op a b =>
      bindr (evalx a r) (fun xa =>
        match as_val xa with
        | None => Ok (XV None)
        | Some x =>
            bindr (evalx b r) (fun xb =>
              match as_val xb with
              | None => Ok (XV None)
              | Some y => bindr (arith_i op x y) (fun o => Ok (XV o))
              end)
        end)
  | ECmp op a b =>
      bindr (evalx a r) (fun xa =>
        match as_val xa with
        | None => Ok (XT None)
        | Some x =>
            bindr (evalx b r) (fun xb =>
              match as_val xb with
              | None => Ok (XT None)
              | Some y =>
                  if is_inull x || is_inull y then Ok (XT None)
                  else Ok (XT (Some (compare_values x y op)))
              end)
        end)
  | EAnd a b =>
      bindr (evalx a r) (fun xa =>
        match as_tv xa with
        | Some false => Ok (XT (Some false))
        | l => bindr (evalx b r) (fun xb => Ok (XT (and3 l (as_tv xb))))
        end)
  | EOr a b =>
      bindr (evalx a r) (fun xa =>
        match as_tv xa with
        | Some true => Ok (XT (Some true))
        | l => bindr (evalx b r) (fun xb => Ok (XT (or3 l (as_tv xb))))
        end)
  | ENot a => bindr (evalx a r) (fun xa => Ok (XT (option_map negb (as_tv xa))))
  | EIsNull neg a =>
      bindr (evalx a r) (fun xa =>
        let is_null :=
          match xa with
          | XT t => match t with None => true | Some _ => false end
          | XV o => match o with Some INull | None => true | Some _ => false end
          end in
        Ok (XT (Some (xorb neg is_null))))
  | EIn neg a l =>
      bindr (evalx a r) (fun xa =>
        match as_val xa with
        | None | Some INull => Ok (XT None)
        | Some x =>
            bindr ((fix go (l : list expr) (unknown : bool) : res (option bool) :=
                      match l with
                      | [] => Ok (if unknown then None else Some neg)
                      | i :: l' =>
                          bindr (evalx i r) (fun xi =>
                            match as_val xi with
                            | None | Some INull => go l' true
                            | Some y => if values_equal x y then Ok (Some (negb neg)) else go l' unknown
                            end)
                      end) l false)
                  (fun t => Ok (XT t))
        end)
  | EBetween neg a lo hi =>
      (* an operand that cannot be evaluated (None) counts as NULL: unwrap_or(Value::Null) *)
      bindr (evalx a r) (fun xa => bindr (evalx lo r) (fun xl => bindr (evalx hi r) (fun xh =>
        let x := or_null (as_val xa) in
        let l := or_null (as_val xl) in
        let h := or_null (as_val xh) in
        Ok (XT (option_map (xorb neg) (and3 (between_side x l Lt) (between_side x h Gt)))))))
  | ELike neg a p =>
      bindr (evalx a r) (fun xa =>
        match as_val xa with
        | None => Ok (XT None)
        | Some x =>
            bindr (evalx p r) (fun xp =>
              match as_val xp with
              | None => Ok (XT None)
              | Some q =>
                  match x, q with
                  | INull, _ | _, INull => Ok (XT None)
                  | IText s, IText pat =>
                      match like_impl s pat with
                      | Some m => Ok (XT (Some (xorb neg m)))
                      | None => Unmod
                      end
                  | _, _ => Ok (XT (Some neg))
                  end
              end)
        end)
  end.

Definition eval_tv (e : expr) (r : row) : res (option bool) := bindr (evalx e r) (fun x => Ok (as_tv x)).
Definition eval_value (e : expr) (r : row) : res (option ivalue) := bindr (evalx e r) (fun x => Ok (as_val x)).
(* eval_expr: a row passes only if the predicate is TRUE *)
Definition eval_expr (e : expr) (r : row) : res bool :=
  bindr (eval_tv e r) (fun t => Ok (match t with Some true => true | _ => false end)).

(* ------------------------------------------------------------------ constant folding *)
Inductive folded := FTrue | FFalse | FSimp (e : expr).

(* is this node an ast::Expr::Literal (negative numbers are UnaryOp nodes) *)
Definition as_literal (e : expr) : option value :=
  match e with
  | ELit VNull => Some VNull
  | ELit (VBool b) => Some (VBool b)
  | ELit (VText s) => Some (VText s)
  | ELit (VInt z) => if 0 <=? z then Some (VInt z) else None
  | ELit (VFloat b) => if f_sign b =? 0 then Some (VFloat b) else None
  | _ => None
  end.
(* literals_equal: decided only for two literals of one kind (booleans, integers that parse as
   i64, strings); NULL, floats and mixed kinds are left to the executor *)
Definition literals_equal (l r : value) : option bool :=
  match l, r with
  | VBool a, VBool b => Some (Bool.eqb a b)
  | VInt a, VInt b => if i64_ok a && i64_ok b then Some (a =? b) else None
  | VText a, VText b => Some (zlist_eqb' a b)
  | _, _ => None
  end.

Fixpoint try_fold (e : expr) : option folded :=
  match e with
  | ELit (VBool true) => Some FTrue
  | ELit (VBool false) => Some FFalse
  | EAnd l r =>
      match try_fold l, try_fold r with
      | Some FFalse, _ | _, Some FFalse => Some FFalse
      | Some FTrue, None => Some (FSimp r)
      | None, Some FTrue => Some (FSimp l)
      | Some FTrue, Some FTrue => Some FTrue
      | _, _ => None
      end
  | EOr l r =>
      match try_fold l, try_fold r with
      | Some FTrue, _ | _, Some FTrue => Some FTrue
      | Some FFalse, None => Some (FSimp r)
      | None, Some FFalse => Some (FSimp l)
      | Some FFalse, Some FFalse => Some FFalse
      | _, _ => None
      end
  | ECmp CEq l r =>
      match as_literal l, as_literal r with
      | Some a, Some b => option_map (fun eq : bool => if eq then FTrue else FFalse) (literals_equal a b)
      | _, _ => None
      end
  | ECmp CNe l r =>
      match as_literal l, as_literal r with
      | Some a, Some b => option_map (fun eq : bool => if eq then FFalse else FTrue) (literals_equal a b)
      | _, _ => None
      end
  | ENot a =>
      match try_fold a with
      | Some FTrue => Some FFalse
      | Some FFalse => Some FTrue
      | _ => None
      end
  | _ => None
  end.

(* Optimizer::optimize: the rule is applied until nothing changes, at most 10 times.
   AlwaysTrue drops the filter; AlwaysFalse keeps the scan under the filter `FALSE`. *)
Inductive plan_pred := PAll | PFilter (e : expr).
Fixpoint fold_iter (n : nat) (e : expr) : plan_pred :=
  match n with
  | O => PFilter e
  | S n' =>
      match try_fold e with
      | None => PFilter e
      | Some FTrue => PAll
      | Some FFalse => PFilter (ELit (VBool false))
      | Some (FSimp e') => fold_iter n' e'
      end
  end.

(* ------------------------------------------------------------------ parser *)
(* The harness prints either fully parenthesised (style 0) or with `NOT x <op> y` bare (style 1,
   x an atom).  Since 4a1f993 the parser reads NOT x <op> y as NOT (x <op> y): both styles
   build the same tree. *)
Definition bare_atom (e : expr) : bool :=
  match e with
  | ECol _ => true
  | ELit (VInt z) => 0 <=? z
  | ELit (VFloat b) => f_sign b =? 0
  | ELit _ => true
  | _ => false
  end.
Definition bare_target (x : expr) : bool :=
  match x with
  | ECmp _ a _ | EIsNull _ a | EIn false a _ | EBetween false a _ _ | ELike false a _ => bare_atom a
  | _ => false
  end.
Definition parsed (sty : Z) (e : expr) : expr := e.

(* ------------------------------------------------------------------ the two query shapes *)
(* what a query is observed to do *)
Inductive qout :=
| QRows (counts : list Z)      (* WHERE: per table row, how many times it was returned *)
| QVals (codes : list Z)       (* select list: per table row 1 TRUE, 0 FALSE, 2 NULL, 3 other *)
| QErr                         (* the statement returned an error *)
| QPanic                       (* the statement panicked *)
| QBad.                        (* the result is not made of rows of the table *)

Inductive mout := MOut (q : qout) | MUnmod.

Fixpoint filter_rows (e : expr) (t : table) : res (list Z) :=
  match t with
  | [] => Ok []
  | r :: t' =>
      bindr (eval_expr e r) (fun b => bindr (filter_rows e t') (fun m => Ok (Z.b2z b :: m)))
  end.

(* SELECT * FROM t WHERE e *)
Definition model_where (e : expr) (t : table) : mout :=
  match fold_iter 10 e with
  | PAll => MOut (QRows (map (fun _ => 1) t))
  | PFilter e' =>
      match filter_rows e' t with
      | Ok m => MOut (QRows m)
      | Panic => MOut QPanic
      | Unmod => MUnmod
      end
  end.

Definition code_of (o : option ivalue) : Z :=
  match o with
  | None | Some INull => 2
  | Some (IInt 1) => 1
  | Some (IInt 0) => 0
  | Some _ => 3
  end.
Fixpoint select_rows (e : expr) (t : table) : res (list Z) :=
  match t with
  | [] => Ok []
  | r :: t' =>
      bindr (eval_value e r) (fun o => bindr (select_rows e t') (fun m => Ok (code_of o :: m)))
  end.

(* SELECT id, (e) FROM t *)
Definition model_select (e : expr) (t : table) : mout :=
  match select_rows e t with
  | Ok m => MOut (QVals m)
  | Panic => MOut QPanic
  | Unmod => MUnmod
  end.
