(* C05 -- basic facts about the DML mechanism model (Model/Tombstone.v): value equality,
   filters, row ids, the invariant `Inv` that ties header row_count and the unique index to
   the live entries. *)
From Coq Require Import ZArith List Bool Lia.
From TV Require Import Model.SqlSpec Model.DmlSpec Model.Tombstone Proof.SqlSpecLaws.
Import ListNotations.
Open Scope Z_scope.

(* ------------------------------------------------------------------ values *)
Lemma value_eqb_eq : forall a b, value_eqb a b = true <-> a = b.
Proof.
  intros a b. split.
  - destruct a as [|x|x|x|x], b as [|y|y|y|y]; cbn [value_eqb]; intro H; try discriminate; try reflexivity.
    + apply Z.eqb_eq in H. subst. reflexivity.
    + apply Z.eqb_eq in H. subst. reflexivity.
    + apply zlist_eqb'_eq in H. subst. reflexivity.
    + apply Bool.eqb_prop in H. subst. reflexivity.
  - intro H. subst b. destruct a as [|x|x|x|x]; cbn [value_eqb]; try reflexivity.
    + apply Z.eqb_refl.
    + apply Z.eqb_refl.
    + apply zlist_eqb'_eq. reflexivity.
    + apply Bool.eqb_reflx.
Qed.
Lemma value_eqb_refl : forall a, value_eqb a a = true.
Proof. intro a. apply value_eqb_eq. reflexivity. Qed.
Lemma value_eqb_neq : forall a b, value_eqb a b = false <-> a <> b.
Proof.
  intros a b. split.
  - intros H E. apply value_eqb_eq in E. congruence.
  - intro H. destruct (value_eqb a b) eqn:E; [|reflexivity]. apply value_eqb_eq in E. contradiction.
Qed.

(* ------------------------------------------------------------------ lists *)
Lemma filter_map_comm : forall (A B : Type) (f : B -> bool) (g : A -> B) (l : list A),
  filter f (map g l) = map g (filter (fun x => f (g x)) l).
Proof.
  intros A B f g l. induction l as [|x l IH]; cbn [map filter]; [reflexivity|].
  destruct (f (g x)); cbn [map]; rewrite IH; reflexivity.
Qed.
Lemma filter_filter_and : forall (A : Type) (f g : A -> bool) (l : list A),
  filter f (filter g l) = filter (fun x => g x && f x) l.
Proof.
  intros A f g l. induction l as [|x l IH]; cbn [filter]; [reflexivity|].
  destruct (g x); cbn [filter andb]; [destruct (f x)|]; rewrite IH; reflexivity.
Qed.
Lemma zlen_app : forall (A : Type) (a b : list A), zlen (a ++ b) = zlen a + zlen b.
Proof. intros. unfold zlen. rewrite app_length. lia. Qed.
Lemma zlen_nonneg : forall (A : Type) (a : list A), 0 <= zlen a.
Proof. intros. unfold zlen. lia. Qed.
Lemma zlen_map : forall (A B : Type) (f : A -> B) (l : list A), zlen (map f l) = zlen l.
Proof. intros. unfold zlen. rewrite map_length. reflexivity. Qed.
Lemma zlen_filter_split : forall (A : Type) (f g : A -> bool) (l : list A),
  zlen (filter f l) = zlen (filter (fun x => f x && g x) l) + zlen (filter (fun x => f x && negb (g x)) l).
Proof.
  intros A f g l. unfold zlen. induction l as [|x l IH]; cbn [filter]; [reflexivity|].
  destruct (f x), (g x); cbn [andb negb length]; lia.
Qed.
Lemma filter_unique : forall (A : Type) (f : A -> bool) (l : list A) (e : A),
  NoDup l -> In e l -> f e = true -> (forall x, In x l -> f x = true -> x = e) -> filter f l = [e].
Proof.
  intros A f l e Hnd. induction Hnd as [|x l Hx Hnd IH]; intros Hin Hf Hu; [contradiction|].
  cbn [filter]. destruct Hin as [->|Hin].
  - rewrite Hf. f_equal.
    assert (G : forall y, In y l -> f y = false).
    { intros y Hy. destruct (f y) eqn:E; [|reflexivity]. assert (y = e) by (apply Hu; [right; exact Hy|exact E]).
      subst. contradiction. }
    clear -G. induction l as [|y l IH]; cbn [filter]; [reflexivity|].
    rewrite (G y (or_introl eq_refl)). apply IH. intros z Hz. apply G. right. exact Hz.
  - destruct (f x) eqn:E.
    + assert (x = e) by (apply Hu; [left; reflexivity|exact E]). subst. contradiction.
    + apply IH; [exact Hin|exact Hf|]. intros y Hy. apply Hu. right. exact Hy.
Qed.

(* ------------------------------------------------------------------ row ids *)
Definition ids_ok (es : list entry) (n : Z) : Prop :=
  NoDup (map e_id es) /\ forall e, In e es -> e_id e < n.

Lemma ids_inj : forall es a b, NoDup (map e_id es) -> In a es -> In b es -> e_id a = e_id b -> a = b.
Proof.
  induction es as [|x es IH]; intros a b Hnd Ha Hb E; [contradiction|].
  cbn [map] in Hnd. inversion Hnd as [|? ? Hx Hnd']; subst.
  destruct Ha as [->|Ha], Hb as [->|Hb].
  - reflexivity.
  - exfalso. apply Hx. rewrite E. apply in_map. exact Hb.
  - exfalso. apply Hx. rewrite <- E. apply in_map. exact Ha.
  - apply IH; assumption.
Qed.
Lemma ids_nodup : forall es, NoDup (map e_id es) -> NoDup es.
Proof. intros es H. eapply NoDup_map_inv. exact H. Qed.

Lemma find_ent_some : forall id es e, find_ent id es = Some e -> In e es /\ e_id e = id.
Proof.
  intros id es e H. unfold find_ent in H. apply find_some in H. destruct H as [Hin Hid].
  apply Z.eqb_eq in Hid. split; assumption.
Qed.
Lemma find_ent_in : forall es e, NoDup (map e_id es) -> In e es -> find_ent (e_id e) es = Some e.
Proof.
  induction es as [|x es IH]; intros e Hnd Hin; [contradiction|].
  cbn [map] in Hnd. inversion Hnd as [|? ? Hx Hnd']; subst.
  unfold find_ent. cbn [find]. destruct (e_id x =? e_id e) eqn:E.
  - apply Z.eqb_eq in E. f_equal. destruct Hin as [->|Hin]; [reflexivity|].
    exfalso. apply Hx. rewrite E. apply in_map. exact Hin.
  - destruct Hin as [->|Hin]; [rewrite Z.eqb_refl in E; discriminate|]. apply IH; assumption.
Qed.

(* membership in a filtered selection is decided by the filter (ids are unique) *)
Lemma in_sel_filter : forall es P e, NoDup (map e_id es) -> In e es ->
  in_sel (filter P es) e = P e.
Proof.
  intros es P e Hnd Hin. unfold in_sel. destruct (P e) eqn:E.
  - apply existsb_exists. exists e. split; [apply filter_In; split; assumption|apply Z.eqb_refl].
  - destruct (existsb (fun s => e_id s =? e_id e) (filter P es)) eqn:X; [|reflexivity].
    apply existsb_exists in X. destruct X as [s [Hs Hid]]. apply filter_In in Hs. destruct Hs as [Hs HP].
    apply Z.eqb_eq in Hid. assert (s = e) by (eapply ids_inj; eassumption). subst. congruence.
Qed.

(* ------------------------------------------------------------------ the unique index *)
Definition idx_live (e : entry) : bool := live e && negb (is_null (e_key e)).
Definition idx_of (es : list entry) : list (value * Z) :=
  map (fun e => (e_key e, e_id e)) (filter idx_live es).
(* live entries with the same non-NULL key are the same entry *)
Definition uniq_keys (es : list entry) : Prop :=
  forall a b, In a es -> In b es -> live a = true -> live b = true ->
    is_null (e_key a) = false -> e_key a = e_key b -> e_id a = e_id b.
Definition key_int (v : value) : bool := match v with VInt _ | VNull => true | _ => false end.

(* structure invariant (everything but the header count) *)
Record InvS (sch : schema) (st : tstate) : Prop := mkInvS {
  inv_ids : ids_ok (ents st) (nextid st);
  inv_idx : kidx st = if keyed sch then idx_of (ents st) else [];
  inv_uniq : keyed sch = true -> uniq_keys (ents st);
  inv_kty : keyed sch = true -> forall e, In e (ents st) -> key_int (e_key e) = true
}.
Definition Inv (sch : schema) (st : tstate) : Prop :=
  InvS sch st /\ rcount st = zlen (visible st).

(* the key column of a keyed table is BIGINT *)
Definition wf_schema (sch : schema) : Prop :=
  keyed sch = true -> exists tl, s_tys sch = TInt :: tl.

Lemma inv_empty : forall sch, Inv sch t_empty.
Proof.
  intro sch. split; [|reflexivity]. constructor; cbn.
  - split; [constructor|intros e []].
  - destruct (keyed sch); reflexivity.
  - intros _ a b [].
  - intros _ e [].
Qed.

Lemma idx_mem_idx_of : forall es k, is_null k = false ->
  idx_mem k (idx_of es) = existsb (fun r => value_eqb (key_of r) k) (map e_row (filter live es)).
Proof.
  intros es k Hk. unfold idx_mem, idx_of. induction es as [|e es IH]; cbn [filter map existsb]; [reflexivity|].
  unfold idx_live at 1. destruct (live e) eqn:L; cbn [andb].
  - destruct (is_null (e_key e)) eqn:N; cbn [negb map existsb fst].
    + rewrite IH. unfold e_key in N.
      assert (value_eqb (key_of (e_row e)) k = false) as ->.
      { apply value_eqb_neq. intro E. rewrite E in N. congruence. }
      reflexivity.
    + rewrite IH. reflexivity.
  - exact IH.
Qed.

Lemma idx_find_some : forall ix k id, idx_find k ix = Some id -> In (k, id) ix.
Proof.
  intros ix k id H. unfold idx_find in H. destruct (find (fun p => value_eqb (fst p) k) ix) as [p|] eqn:F; [|discriminate].
  inversion H; subst. apply find_some in F. destruct F as [Hin E]. apply value_eqb_eq in E.
  destruct p as [a b]. cbn in *. subst. exact Hin.
Qed.
Lemma in_idx_of : forall es k id, In (k, id) (idx_of es) ->
  exists e, In e es /\ live e = true /\ is_null (e_key e) = false /\ e_key e = k /\ e_id e = id.
Proof.
  intros es k id H. unfold idx_of in H. apply in_map_iff in H. destruct H as [e [E Hin]].
  apply filter_In in Hin. destruct Hin as [Hin HL]. unfold idx_live in HL. apply andb_true_iff in HL.
  destruct HL as [L N]. apply negb_true_iff in N. inversion E; subst. exists e. repeat split; assumption.
Qed.

Lemma visible_app : forall es1 es2 rc ix n rc' ix' n',
  visible (mkT (es1 ++ es2) rc ix n) = visible (mkT es1 rc' ix' n') ++ map e_row (filter live es2).
Proof. intros. unfold visible. cbn [ents]. rewrite filter_app, map_app. reflexivity. Qed.

Lemma key_of_fits : forall sch r, wf_schema sch -> keyed sch = true -> row_fits (s_tys sch) r = true ->
  key_int (key_of r) = true.
Proof.
  intros sch r Hwf Hk Hf. destruct (Hwf Hk) as [tl E]. rewrite E in Hf.
  destruct r as [|v r]; cbn [row_fits] in Hf; [discriminate|].
  apply andb_true_iff in Hf. destruct Hf as [Hf _]. cbn [key_of]. destruct v; cbn in *; congruence.
Qed.

Lemma NoDup_snoc : forall (A : Type) (l : list A) (x : A), NoDup l -> ~ In x l -> NoDup (l ++ [x]).
Proof.
  intros A l x Hnd Hx. induction Hnd as [|y l Hy Hnd IH]; cbn [app].
  - constructor; [intros []|constructor].
  - constructor.
    + intro Hin. apply in_app_or in Hin. destruct Hin as [Hin|[->|[]]]; [contradiction|].
      apply Hx. left. reflexivity.
    + apply IH. intro Hin. apply Hx. right. exact Hin.
Qed.
