(* Model of the filter part of ConstantFoldingRule (src/sql/optimizer/rules/constant_folding.rs:
   try_fold_filter_predicate, literals_equal, and what fold_plan does with a Filter node),
   transcribed by hand (enums and string literals are outside tools/rs2v.py).  Definitions only;
   soundness is proved in Proof/ConstFold.v, the tie to the code is the `Fold` cases of the
   correspondence run (the REAL rule is applied to generated plans). *)
From Coq Require Import ZArith List Bool.
From TV Require Import Model.SqlSpec.
Import ListNotations.
Open Scope Z_scope.

Inductive folded := FdTrue | FdFalse | FdSimp (e : expr).

(* is the node a Literal of TurDB's AST in the SQL text the harness prints?  Negative numbers are
   printed as (-n) and parse as UnaryOp(Minus, Literal): not literals for the rule. *)
Definition ast_literal (e : expr) : option value :=
  match e with
  | ELit (VInt z) => if z <? 0 then None else Some (VInt z)
  | ELit (VFloat b) => if f_sign b =? 0 then Some (VFloat b) else None
  | ELit v => Some v
  | _ => None
  end.

(* literals_equal: decided from the source text alone -- two literals of the same kind, neither
   NULL; integers through str::parse::<i64> *)
Definition literals_equal (l r : value) : option bool :=
  match l, r with
  | VBool a, VBool b => Some (Bool.eqb a b)
  | VInt a, VInt b => if i64_ok a && i64_ok b then Some (a =? b) else None
  | VText a, VText b => Some (zlist_eqb' a b)
  | _, _ => None
  end.

Definition of_eq (want_eq : bool) (o : option bool) : option folded :=
  match o with
  | Some eq => Some (if Bool.eqb eq want_eq then FdTrue else FdFalse)
  | None => None
  end.

Fixpoint fold (e : expr) : option folded :=
  match e with
  | ELit (VBool true) => Some FdTrue
  | ELit (VBool false) => Some FdFalse
  | EAnd a b =>
      match fold a, fold b with
      | Some FdFalse, _ | _, Some FdFalse => Some FdFalse
      | Some FdTrue, None => Some (FdSimp b)
      | None, Some FdTrue => Some (FdSimp a)
      | Some FdTrue, Some FdTrue => Some FdTrue
      | _, _ => None
      end
  | EOr a b =>
      match fold a, fold b with
      | Some FdTrue, _ | _, Some FdTrue => Some FdTrue
      | Some FdFalse, None => Some (FdSimp b)
      | None, Some FdFalse => Some (FdSimp a)
      | Some FdFalse, Some FdFalse => Some FdFalse
      | _, _ => None
      end
  | ECmp CEq a b =>
      match ast_literal a, ast_literal b with
      | Some l, Some r => of_eq true (literals_equal l r)
      | _, _ => None
      end
  | ECmp CNe a b =>
      match ast_literal a, ast_literal b with
      | Some l, Some r => of_eq false (literals_equal l r)
      | _, _ => None
      end
  | ENot x =>
      match fold x with
      | Some FdTrue => Some FdFalse
      | Some FdFalse => Some FdTrue
      | _ => None
      end
  | _ => None
  end.

(* what one application of the rule does to  Filter(e) over an unchanged input *)
Inductive fold_out := FNoChange | FRemoved | FFalse | FSimp (e : expr) | FOther.
Definition is_lit_false (e : expr) : bool := match e with ELit (VBool false) => true | _ => false end.
Definition fold_step (e : expr) : fold_out :=
  match fold e with
  | None => FNoChange
  | Some FdTrue => FRemoved
  | Some FdFalse => if is_lit_false e then FNoChange else FFalse
  | Some (FdSimp q) => FSimp q
  end.

(* the predicate left in the plan at the optimizer's fixed point (None: no filter).  A second
   application changes nothing: FdSimp q is only produced for a q with fold q = None
   (Proof/ConstFold.v, fold_simp_stable). *)
Definition effective (e : expr) : option expr :=
  match fold e with
  | None => Some e
  | Some FdTrue => None
  | Some FdFalse => Some (ELit (VBool false))
  | Some (FdSimp q) => Some q
  end.
Definition effective_where (p : option expr) : option expr :=
  match p with None => None | Some e => effective e end.
