//! C08 -- uncommitted changes are isolated from other handles.
//!   c08 gen    --seed S --tier T --out DIR [--lines FILE]
//!   c08 search --seed S --budget N --out FILE     (oracle only: implementation vs a Rust port of the
//!                                                  snapshot-isolation reference Model/SI.v)
//!   c08 sql FILE | c08 show --lines FILE          (debugging aids)
//! One case = one schedule of statements issued through 2..3 cloned handles of one real Database
//! (table t(id BIGINT, c1 BIGINT), no key: index paths stay out of the way), driven from this one
//! thread in schedule order.  After every step: result, SELECT * and COUNT(*) through the handle
//! that made the step.  The judge is coq/Corr/C08.v.
#[path = "sqlgen/mod.rs"]
mod sqlgen;
#[path = "txn_common/mod.rs"]
mod txn_common;
use sqlgen::*;
use std::collections::BTreeMap;
use tvh::*;
use txn_common::*;

#[derive(Clone, Debug, PartialEq)]
struct SchedCase { nh: usize, steps: Vec<(usize, Op)> }

fn the_schema() -> Schema { Schema { kind: KKind::None, text_key: false, sec: false, pad: false, wal: false } }

fn sched_line(c: &SchedCase) -> String {
    format!("sched nh={} ops={}", c.nh, c.steps.iter().map(|(h, o)| format!("{}:{}", h, o.to_tok())).collect::<Vec<_>>().join("|"))
}
fn parse_sched(l: &str) -> Option<SchedCase> {
    let l = l.split(" #").next().unwrap_or(l).trim();
    let rest = l.strip_prefix("sched nh=")?;
    let (nh, ops) = rest.split_once(" ops=")?;
    let nh: usize = nh.parse().ok()?;
    let mut steps = vec![];
    for s in ops.split('|') {
        let (h, o) = s.split_once(':')?;
        steps.push((h.parse().ok()?, Op::from_tok(o)?));
    }
    Some(SchedCase { nh, steps })
}

fn run_sched(sut: &mut Sut, c: &SchedCase) -> Result<Vec<SObs>, String> {
    let sch = the_schema();
    let mut live = sut.fresh(&sch.create_sql(), c.nh)?;
    let mut out = vec![];
    for (h, o) in &c.steps { out.push(live.step(*h, &sch, o, None)); }
    live.close();
    Ok(out)
}
fn sched_term(c: &SchedCase, obs: &[SObs]) -> String {
    let steps: Vec<String> = c.steps.iter().map(|(h, o)| format!("({}%nat, {})", h, o.to_coq())).collect();
    let ob: Vec<String> = obs.iter().map(|o| format!("(HO {} [{}] {})", o.res.to_coq(), o.rows.iter().map(|r| format!("(R {} {})", r.0.to_coq(), r.1.to_coq())).collect::<Vec<_>>().join("; "), z(o.cnt as i128))).collect();
    format!("Sched {} {}%nat\n    [{}]\n    [{}]", the_schema().to_coq(), c.nh, steps.join("; "), ob.join(";\n     "))
}

// ------------------------------------------------------------------ Rust port of the reference (Model/SI.v)
#[derive(Clone)]
struct HTx { view: Vec<TRow>, wkeys: Vec<Val>, start: i64 }
struct SI { committed: Vec<TRow>, lastw: Vec<(Val, i64)>, clock: i64, hs: Vec<Option<HTx>> }
fn wmatch(w: &WClause, r: &TRow) -> bool { match w { None => true, Some((c, v)) => !v.is_null() && (if *c == 0 { &r.0 } else { &r.1 }) == v } }
fn dml_apply(o: &Op, t: &[TRow]) -> Option<(Res, Vec<TRow>, Vec<Val>)> {
    match o {
        Op::Ins(rows) => { let mut n = t.to_vec(); n.extend(rows.iter().cloned()); Some((Res::Aff(rows.len() as i64), n, rows.iter().map(|r| r.0.clone()).collect())) }
        Op::Upd(sc, v, w) => {
            let hit: Vec<Val> = t.iter().filter(|r| wmatch(w, r)).map(|r| r.0.clone()).collect();
            let n = t.iter().map(|r| if wmatch(w, r) { if *sc == 0 { (v.clone(), r.1.clone()) } else { (r.0.clone(), v.clone()) } } else { r.clone() }).collect();
            Some((Res::Aff(hit.len() as i64), n, hit))
        }
        Op::Del(w) => {
            let hit: Vec<Val> = t.iter().filter(|r| wmatch(w, r)).map(|r| r.0.clone()).collect();
            Some((Res::Aff(hit.len() as i64), t.iter().filter(|r| !wmatch(w, r)).cloned().collect(), hit))
        }
        _ => None,
    }
}
impl SI {
    fn new(nh: usize) -> SI { SI { committed: vec![], lastw: vec![], clock: 0, hs: vec![None; nh] } }
    fn lastw_of(&self, k: &Val) -> i64 { self.lastw.iter().find(|p| &p.0 == k).map(|p| p.1).unwrap_or(0) }
    fn stamp(&mut self, ks: &[Val], ts: i64) { let mut n: Vec<(Val, i64)> = ks.iter().map(|k| (k.clone(), ts)).collect(); n.extend(self.lastw.drain(..)); self.lastw = n; }
    fn view(&self, h: usize) -> Vec<TRow> { match self.hs.get(h) { Some(Some(tx)) => tx.view.clone(), _ => self.committed.clone() } }
    fn exec(&mut self, h: usize, o: &Op) -> Res {
        if h >= self.hs.len() { return Res::Bad("handle".into()); }
        match self.hs[h].clone() {
            None => match o {
                Op::Begin => { self.hs[h] = Some(HTx { view: self.committed.clone(), wkeys: vec![], start: self.clock }); Res::Ok }
                Op::Commit | Op::Rollback | Op::Save(_) | Op::RollTo(_) | Op::Release(_) => Res::Err("no txn".into()),
                Op::Drop | Op::Obs => Res::Ok,
                _ => match dml_apply(o, &self.committed) {
                    Some((r, t, ks)) => { self.committed = t; let ts = self.clock + 1; self.stamp(&ks, ts); self.clock = ts; r }
                    None => Res::Bad("dml".into()),
                },
            },
            Some(tx) => match o {
                Op::Begin => Res::Err("in txn".into()),
                Op::Commit => {
                    let conflict = tx.wkeys.iter().any(|k| tx.start < self.lastw_of(k));
                    self.hs[h] = None;
                    if conflict { return Res::Err("conflict".into()); }
                    let mut n: Vec<TRow> = self.committed.iter().filter(|r| !tx.wkeys.contains(&r.0)).cloned().collect();
                    n.extend(tx.view.iter().filter(|r| tx.wkeys.contains(&r.0)).cloned());
                    self.committed = n;
                    let ts = self.clock + 1;
                    self.stamp(&tx.wkeys, ts);
                    self.clock = ts;
                    Res::Ok
                }
                Op::Rollback | Op::Drop => { self.hs[h] = None; Res::Ok }
                Op::Obs => Res::Ok,
                Op::Save(_) | Op::RollTo(_) | Op::Release(_) => Res::Bad("savepoint".into()),
                _ => match dml_apply(o, &tx.view) {
                    Some((r, t, ks)) => { let mut wk = tx.wkeys.clone(); wk.extend(ks); self.hs[h] = Some(HTx { view: t, wkeys: wk, start: tx.start }); r }
                    None => Res::Bad("dml".into()),
                },
            },
        }
    }
}
fn spec_defined(c: &SchedCase) -> bool {
    let mut keys: Vec<Val> = vec![];
    let mut del: Vec<Val> = vec![];
    let mut upd: Vec<Val> = vec![];
    for (h, o) in &c.steps {
        if *h >= c.nh { return false; }
        match o {
            Op::Ins(rows) => for r in rows { if r.0.is_null() || keys.contains(&r.0) { return false; } keys.push(r.0.clone()); },
            Op::Upd(0, _, _) | Op::Save(_) | Op::RollTo(_) | Op::Release(_) => return false,
            Op::Upd(_, _, Some((0, k))) => upd.push(k.clone()),
            Op::Del(Some((0, k))) => { if k.is_null() || del.contains(k) { return false; } del.push(k.clone()); }
            Op::Upd(..) | Op::Del(_) => return false,
            _ => {}
        }
    }
    !del.iter().any(|k| upd.contains(k))
}
fn bag(rows: &[TRow]) -> Vec<String> { let mut v: Vec<String> = rows.iter().map(|r| format!("{},{}", r.0.to_tok(), r.1.to_tok())).collect(); v.sort(); v }
fn spec_holds(c: &SchedCase, obs: &[SObs]) -> bool {
    if !spec_defined(c) { return true; }
    let mut si = SI::new(c.nh);
    for ((h, o), ob) in c.steps.iter().zip(obs.iter()) {
        let r = si.exec(*h, o);
        if !r.same(&ob.res) || bag(&si.view(*h)) != bag(&ob.rows) { return false; }
    }
    true
}

// ------------------------------------------------------------------ Rust port of known_class (Corr/C08.v)
#[derive(Clone, Copy, Default)]
struct HFlag { inn: bool, wrote: bool, stale: bool, sawc: bool }
fn known_class(c: &SchedCase) -> i64 {
    let mut fs = vec![HFlag::default(); c.nh];
    let (mut a, mut b, mut cc) = (false, false, false);
    for (h, o) in &c.steps {
        let h = *h;
        if h >= c.nh { continue; }
        let me = fs[h];
        if fs.iter().enumerate().any(|(i, x)| i != h && x.inn && x.wrote) { a = true; }
        if me.inn && me.stale { b = true; }
        match o {
            Op::Begin => if !me.inn { fs[h] = HFlag { inn: true, ..Default::default() }; },
            Op::Commit => if me.inn {
                if me.wrote && me.sawc { cc = true; }
                fs[h] = HFlag::default();
                if me.wrote { for (i, x) in fs.iter_mut().enumerate() { if i != h && x.inn { x.stale = true; x.sawc = true; } } }
            },
            Op::Rollback | Op::Drop => fs[h] = HFlag::default(),
            o if o.is_write() => if me.inn { fs[h].wrote = true; } else { for (i, x) in fs.iter_mut().enumerate() { if i != h && x.inn { x.stale = true; } } },
            _ => {}
        }
    }
    if cc { 3 } else if a { 1 } else if b { 2 } else { 0 }
}

// ------------------------------------------------------------------ generators
/// Keys of one case.  The scripts of a case are generated one after the other but run interleaved,
/// so a key that some script DELETEs must not be touched by any other UPDATE / DELETE of the case,
/// before or after: UPDATE / DELETE scans do not skip tombstones (finding of C05), which would leak
/// into this property.
struct Keys { next: i64, live: Vec<i64>, updated: Vec<i64> }
impl Keys {
    fn new() -> Keys { Keys { next: 0, live: vec![], updated: vec![] } }
    fn fresh(&mut self) -> i64 { self.next += 1; self.live.push(self.next); self.next }
    fn pick_update(&mut self, rng: &mut Rng) -> Option<i64> {
        if self.live.is_empty() { return None; }
        let k = *rng.pick(&self.live);
        if !self.updated.contains(&k) { self.updated.push(k); }
        Some(k)
    }
    fn pick_delete(&mut self, rng: &mut Rng) -> Option<i64> {
        let cand: Vec<i64> = self.live.iter().copied().filter(|k| !self.updated.contains(k)).collect();
        if cand.is_empty() { return None; }
        let k = *rng.pick(&cand);
        self.live.retain(|x| *x != k);
        Some(k)
    }
}
fn gen_dml(rng: &mut Rng, ks: &mut Keys) -> Op {
    match rng.below(10) {
        0..=3 => Op::Ins(vec![(Val::Int(ks.fresh()), Val::Int(rng.range(1, 9)))]),
        4..=7 => match ks.pick_update(rng) { Some(k) => Op::Upd(1, Val::Int(rng.range(10, 99)), Some((0, Val::Int(k)))), None => Op::Ins(vec![(Val::Int(ks.fresh()), Val::Int(1))]) },
        _ => match ks.pick_delete(rng) { Some(k) => Op::Del(Some((0, Val::Int(k)))), None => Op::Obs },
    }
}
/// the statements one handle wants to issue, in order
fn gen_script(rng: &mut Rng, ks: &mut Keys) -> Vec<Op> {
    match rng.below(12) {
        0..=3 => { let mut v = vec![Op::Begin]; for _ in 0..1 + rng.below(2) { v.push(gen_dml(rng, ks)); } v.push(Op::Commit); v }
        4..=6 => { let mut v = vec![Op::Begin]; for _ in 0..1 + rng.below(2) { v.push(gen_dml(rng, ks)); } v.push(Op::Rollback); v }
        7 => vec![Op::Begin, gen_dml(rng, ks), Op::Drop],
        8 => vec![gen_dml(rng, ks), Op::Obs],
        9 => vec![Op::Obs, Op::Obs],
        10 => vec![Op::Begin, Op::Obs, Op::Obs, Op::Commit],
        _ => vec![Op::Begin, Op::Obs, gen_dml(rng, ks), Op::Obs, Op::Commit],
    }
}
fn seed_step(ks: &mut Keys, rng: &mut Rng) -> (usize, Op) {
    let n = 2 + rng.below(2);
    (0, Op::Ins((0..n).map(|_| (Val::Int(ks.fresh()), Val::Int(rng.range(1, 9)))).collect()))
}
/// all interleavings of two scripts
fn interleavings(a: &[Op], b: &[Op], out: &mut Vec<Vec<(usize, Op)>>, cur: &mut Vec<(usize, Op)>) {
    if a.is_empty() && b.is_empty() { out.push(cur.clone()); return; }
    if let Some((x, rest)) = a.split_first() { cur.push((0, x.clone())); interleavings(rest, b, out, cur); cur.pop(); }
    if let Some((x, rest)) = b.split_first() { cur.push((1, x.clone())); interleavings(a, rest, out, cur); cur.pop(); }
}
fn random_merge(rng: &mut Rng, scripts: Vec<Vec<Op>>) -> Vec<(usize, Op)> {
    let mut idx = vec![0usize; scripts.len()];
    let mut out = vec![];
    loop {
        let avail: Vec<usize> = (0..scripts.len()).filter(|i| idx[*i] < scripts[*i].len()).collect();
        if avail.is_empty() { break; }
        let h = *rng.pick(&avail);
        out.push((h, scripts[h][idx[h]].clone()));
        idx[h] += 1;
    }
    out
}
fn gen_cases(rng: &mut Rng, thorough: bool) -> Vec<(SchedCase, &'static str)> {
    let mut cases = vec![];
    // exhaustive interleavings of pairs of short scripts
    let pairs = if thorough { 60 } else { 12 };
    for _ in 0..pairs {
        let mut ks = Keys::new();
        let seed = seed_step(&mut ks, rng);
        let mut a = gen_script(rng, &mut ks); a.truncate(3);
        let mut b = gen_script(rng, &mut ks); b.truncate(3);
        let mut all = vec![];
        interleavings(&a, &b, &mut all, &mut vec![]);
        for il in all {
            let mut steps = vec![seed.clone()];
            steps.extend(il);
            steps.push((0, Op::Obs));
            steps.push((1, Op::Obs));
            cases.push((SchedCase { nh: 2, steps }, "all_interleavings"));
        }
    }
    // serial schedules: one handle after the other
    for _ in 0..if thorough { 300 } else { 30 } {
        let mut ks = Keys::new();
        let nh = 2 + rng.below(2) as usize;
        let mut steps = vec![seed_step(&mut ks, rng)];
        for _ in 0..2 + rng.below(3) {
            let h = rng.below(nh as u64) as usize;
            for o in gen_script(rng, &mut ks) { steps.push((h, o)); }
        }
        for h in 0..nh { steps.push((h, Op::Obs)); }
        cases.push((SchedCase { nh, steps }, "serial"));
    }
    // random interleavings of 2..3 handles, several scripts each
    for _ in 0..if thorough { 3000 } else { 50 } {
        let mut ks = Keys::new();
        let nh = 2 + rng.below(2) as usize;
        let seed = seed_step(&mut ks, rng);
        let scripts: Vec<Vec<Op>> = (0..nh).map(|_| { let mut v = gen_script(rng, &mut ks); if rng.chance(1, 2) { v.extend(gen_script(rng, &mut ks)); } v }).collect();
        let mut steps = vec![seed];
        steps.extend(random_merge(rng, scripts));
        for h in 0..nh { steps.push((h, Op::Obs)); }
        cases.push((SchedCase { nh, steps }, "random_merge"));
    }
    cases
}

// ------------------------------------------------------------------ modes
fn main() {
    let a = Args::parse();
    match a.mode.as_str() {
        "gen" => gen(&a),
        "search" => search(&a),
        "sql" => sql_mode(&a, "C08"),
        "show" => show(&a),
        _ => { eprintln!("c08: unknown mode"); std::process::exit(2); }
    }
}
fn fields(l: &str) -> BTreeMap<String, String> {
    let mut f = BTreeMap::new();
    for w in l.split_whitespace() { if let Some((k, v)) = w.split_once('=') { f.insert(k.to_string(), v.to_string()); } }
    f
}
fn show(a: &Args) {
    let mut sut = Sut::new("C08");
    let _ = fields("");
    for l in a.replay_lines().unwrap_or_default() {
        if let Some(c) = parse_sched(&l) {
            println!("-- {}", l);
            if let Ok(obs) = run_sched(&mut sut, &c) {
                let mut si = SI::new(c.nh);
                for ((h, o), ob) in c.steps.iter().zip(obs.iter()) {
                    let r = si.exec(*h, o);
                    println!("{}: {:<40} impl {:?} {:?} cnt={}   | SI {:?} {:?}", h, o.to_sql(&the_schema()).unwrap_or_else(|| format!("<{}>", o.to_tok())), ob.res, bag(&ob.rows), ob.cnt, r, bag(&si.view(*h)));
                }
                println!("class={} spec={}", known_class(&c), spec_holds(&c, &obs));
            }
        }
    }
    sut.cleanup();
}
fn gen(a: &Args) {
    let mut rng = Rng::new(a.seed);
    let mut w = CaseWriter::new(&a.out, "C08", "Corr.C08", 60);
    let mut sut = Sut::new("C08");
    let cases: Vec<(SchedCase, &'static str)> = match a.replay_lines() {
        Some(lines) => lines.iter().filter_map(|l| parse_sched(l)).map(|c| (c, "replay")).collect(),
        None => gen_cases(&mut rng, a.thorough()),
    };
    let mut in_class = 0u64;
    let mut spec_fail = 0u64;
    for (c, kind) in cases {
        match run_sched(&mut sut, &c) {
            Ok(obs) => {
                let cls = known_class(&c);
                if cls != 0 { in_class += 1; }
                if !spec_holds(&c, &obs) { spec_fail += 1; }
                // non-trivial: two handles are inside a transaction at the same time, or a handle acts
                // while another one has uncommitted writes
                let k = format!("{}:{}", kind, if cls == 0 { "isolated".to_string() } else { format!("class{}", cls) });
                w.push(sched_term(&c, &obs), sched_line(&c), cls != 0 || c.steps.iter().any(|(_, o)| matches!(o, Op::Commit | Op::Rollback)), &k);
            }
            Err(e) => { eprintln!("c08: case skipped ({})", e); w.count("skipped", 1); }
        }
    }
    sut.cleanup();
    w.finish(&[("cases_in_known_classes".to_string(), in_class.to_string()), ("spec_failures_seen_by_harness".to_string(), spec_fail.to_string())]);
}
fn search(a: &Args) {
    let mut rng = Rng::new(a.seed ^ 0xC08_5EA7);
    let mut sut = Sut::new("C08");
    let mut fails: Vec<String> = vec![];
    let mut tried = 0u64;
    let t0 = std::time::Instant::now();
    'outer: while tried < a.budget && t0.elapsed().as_secs() < 600 {
        for (c, _) in gen_cases(&mut rng, false) {
            tried += 1;
            if let Ok(obs) = run_sched(&mut sut, &c) {
                if !spec_holds(&c, &obs) { fails.push(format!("{} #class={}", sched_line(&c), known_class(&c))); }
            }
            if tried >= a.budget || fails.len() >= 400 { break 'outer; }
        }
    }
    sut.cleanup();
    // keep the failures outside the recorded classes first
    fails.sort_by_key(|f| !f.ends_with("#class=0"));
    fails.truncate(40);
    let mut out = format!("tried={}\n", tried);
    for f in &fails { out.push_str("FAIL "); out.push_str(f); out.push('\n'); }
    std::fs::write(&a.out, out).expect("write search output");
}
