(* C03 correspondence: the harness (harness/src/bin/c03.rs) runs the real Wal on an op
   sequence + one fault and prints what it observed; here the model (Model.Wal) is run on the
   same case and the property's own rule (Model.WalSpec.spec_check) judges the observation.
   CrcCase: header fields + checksum the real writer stored for a page of `fill` bytes, against
   the Gallina CRC-64.  Evaluated by vm_compute; definitions only. *)
From Coq Require Import ZArith List Bool.
From TV Require Export Lib.MachInt Model.WalCrc Model.Wal Model.WalSpec.
Import ListNotations.
Open Scope Z_scope.

Inductive case :=
| Run (ops : list op) (d : dmg) (o : obs)
| CrcCase (fid page dbs salt1 salt2 fill checksum : Z) (as_written : bool)
| CrcFail.

Definition rec_eqb (a b : rec) : bool :=
  match a, b with
  | RecOk n p, RecOk m q => (n =? m) && zlist_eqb p q
  | RecErr, RecErr => true
  | RecPanic, RecPanic => true
  | _, _ => false
  end.

Definition obs_eqb (a b : obs) : bool :=
  Bool.eqb (o_ok a) (o_ok b) && zlist_eqb (o_seglens a) (o_seglens b)
  && rds_eqb (o_live a) (o_live b) && rds_eqb (o_reads a) (o_reads b)
  && rec_eqb (o_rec a) (o_rec b) && rec_eqb (o_rec0 a) (o_rec0 b) && rec_eqb (o_rec1 a) (o_rec1 b)
  && (o_curlen a =? o_curlen b).

(* does the model reproduce the implementation on this case? *)
Definition model_agrees (c : case) : bool :=
  match c with
  | Run ops d o => obs_eqb (model_obs ops d) o
  | CrcCase fid page dbs s1 s2 fill ck _ =>
      compute_checksum fid page dbs s1 s2 (repeat fill PAGE_N) =? ck
  | CrcFail => false
  end.

(* does the implementation's behaviour satisfy the property itself on this case? *)
Definition spec_ok (c : case) : bool :=
  match c with
  | Run ops d o => spec_check ops d o
  | CrcCase _ _ _ _ _ _ _ w => w          (* the file holds the header fields and page that were written *)
  | CrcFail => false
  end.

Definition known_class (c : case) : Z :=
  match c with
  | Run ops d _ => known_case ops d
  | _ => 0
  end.

Fixpoint failures_from (i : Z) (cs : list case) : list (Z * bool * bool * Z) :=
  match cs with
  | [] => []
  | c :: t =>
      let m := model_agrees c in
      let s := spec_ok c in
      if m && s then failures_from (i + 1) t else (i, m, s, known_class c) :: failures_from (i + 1) t
  end.
Definition failures := failures_from 0.
