(* C40 model, codec half: the catalog value and the binary format of
   src/schema/persistence.rs (CatalogPersistence::serialize / deserialize / save / load),
   transcribed by hand (strings, Option/enum matches and HashMaps are outside the rs2v
   subset).  Faithful to the code AS IT IS, including what it gets wrong:
     - an expression index column is written as the empty column name, a partial index's
       WHERE text is not written at all (serialize_index);
     - deserialize merges tables into the schemas that already exist in the target catalog
       (Catalog::new(): "root" id 0 and "turdb_catalog" id 1; such a schema keeps its own id,
       the id in the stream is ignored) and re-creates any other schema with the id in the
       stream (restore_schema, since /repo 0f25949); a built-in schema that is absent from the
       stream is there after the load all the same;
     - lengths other than the four `ensure!`d names are cast with `as u16` / `as u32`.
   Definitions only, no proofs. *)
From Coq Require Import ZArith List Bool.
From TV Require Import Lib.MachInt.
Import ListNotations.
Open Scope Z_scope.

(* ------------------------------------------------------------------ the catalog value *)
Definition str := list Z.                       (* a Rust String: its UTF-8 bytes *)

Inductive ref_action := RCascade | RRestrict | RNoAction | RSetNull | RSetDefault.

Inductive constr :=
| CNotNull | CPrimaryKey | CUnique | CAutoIncrement
| CForeignKey (table column : str) (on_delete on_update : option ref_action)
| CCheck (e : str).

Record column := Column {
  col_name : str;
  col_type : Z;                                  (* DataType as u8 (repr(u8) discriminant) *)
  col_constraints : list constr;
  col_default : option str;
  col_max_length : option Z }.

Inductive ic_kind := ICColumn (n : str) | ICExpr (e : str).
Record idx_col := IdxCol { ic_what : ic_kind; ic_desc : bool }.

Record index := Index {
  ix_name : str;
  ix_cols : list idx_col;
  ix_unique : bool;
  ix_hnsw : bool;                                (* IndexType: false = BTree, true = Hnsw *)
  ix_where : option str }.

(* TableDef.row_count is not part of the persisted format (load_catalog re-reads it from the
   table file) and is not modelled. *)
Record table := Table {
  t_id : Z;
  t_name : str;
  t_columns : list column;
  t_pk : option (list str);
  t_indexes : list index;
  t_toast : option Z }.

(* Schema.tables and Catalog.schemas are HashMaps; here association lists in iteration
   order (the order is whatever the HashMap yields: nothing below depends on it). *)
Record schema := Schema { s_id : Z; s_name : str; s_tables : list table }.
Definition catalog := list schema.

(* "root" / "turdb_catalog" *)
Definition name_root : str := [114;111;111;116].
Definition name_syscat : str := [116;117;114;100;98;95;99;97;116;97;108;111;103].
(* Catalog::new() *)
Definition base_catalog : catalog :=
  [Schema 0 name_root []; Schema 1 name_syscat []].

Definition find_schema (c : catalog) (n : str) : option schema :=
  find (fun s => zlist_eqb (s_name s) n) c.
Definition find_table_in (ts : list table) (n : str) : option table :=
  find (fun t => zlist_eqb (t_name t) n) ts.
Definition find_table (c : catalog) (sn tn : str) : option table :=
  match find_schema c sn with Some s => find_table_in (s_tables s) tn | None => None end.

(* ------------------------------------------------------------------ UTF-8 (std::str::from_utf8) *)
Definition cont (b : Z) : bool := (128 <=? b) && (b <=? 191).
Definition inr (lo hi b : Z) : bool := (lo <=? b) && (b <=? hi).

Fixpoint utf8_valid (bs : list Z) : bool :=
  match bs with
  | [] => true
  | b0 :: t =>
    if b0 <? 128 then utf8_valid t
    else if inr 194 223 b0 then
      match t with b1 :: t' => cont b1 && utf8_valid t' | _ => false end
    else if b0 =? 224 then
      match t with b1 :: b2 :: t' => inr 160 191 b1 && cont b2 && utf8_valid t' | _ => false end
    else if inr 225 236 b0 || inr 238 239 b0 then
      match t with b1 :: b2 :: t' => cont b1 && cont b2 && utf8_valid t' | _ => false end
    else if b0 =? 237 then
      match t with b1 :: b2 :: t' => inr 128 159 b1 && cont b2 && utf8_valid t' | _ => false end
    else if b0 =? 240 then
      match t with b1 :: b2 :: b3 :: t' => inr 144 191 b1 && cont b2 && cont b3 && utf8_valid t' | _ => false end
    else if inr 241 243 b0 then
      match t with b1 :: b2 :: b3 :: t' => cont b1 && cont b2 && cont b3 && utf8_valid t' | _ => false end
    else if b0 =? 244 then
      match t with b1 :: b2 :: b3 :: t' => inr 128 143 b1 && cont b2 && cont b3 && utf8_valid t' | _ => false end
    else false
  end.

(* ------------------------------------------------------------------ serialize *)
Definition u8b (b : bool) : Z := if b then 1 else 0.
Definition zlen {A} (l : list A) : Z := Z.of_nat (length l).
(* `(x.len() as u16).to_le_bytes()` / `as u32`: le_bytes keeps the low bytes, i.e. truncates *)
Definition len16 {A} (l : list A) : list Z := le_bytes 2 (zlen l).
Definition len32 {A} (l : list A) : list Z := le_bytes 4 (zlen l).
Definition enc_str (s : str) : list Z := len16 s ++ s.

Definition enc_action (a : option ref_action) : Z :=
  match a with
  | None => 0 | Some RCascade => 1 | Some RRestrict => 2 | Some RNoAction => 3
  | Some RSetNull => 4 | Some RSetDefault => 5
  end.
Definition dec_action (b : Z) : option ref_action :=
  if b =? 1 then Some RCascade else if b =? 2 then Some RRestrict else if b =? 3 then Some RNoAction
  else if b =? 4 then Some RSetNull else if b =? 5 then Some RSetDefault else None.

Definition enc_constr (c : constr) : list Z :=
  match c with
  | CNotNull => [0]
  | CPrimaryKey => [1]
  | CUnique => [2]
  | CForeignKey t col d u => [3] ++ enc_str t ++ enc_str col ++ [enc_action d; enc_action u]
  | CCheck e => [4] ++ enc_str e
  | CAutoIncrement => [5]
  end.

Definition enc_column (c : column) : list Z :=
  enc_str (col_name c) ++ [col_type c] ++ len16 (col_constraints c)
  ++ flat_map enc_constr (col_constraints c)
  ++ match col_default c with Some d => [1] ++ enc_str d | None => [0] end
  ++ match col_max_length c with Some m => [1] ++ le_bytes 4 m | None => [0] end.

(* `col_def.as_column().unwrap_or("")`: an expression column is written as "" *)
Definition ic_written_name (k : ic_kind) : str :=
  match k with ICColumn n => n | ICExpr _ => [] end.
Definition enc_idx_col (c : idx_col) : list Z :=
  enc_str (ic_written_name (ic_what c)) ++ [u8b (ic_desc c)].
(* where_clause is not written *)
Definition enc_index (i : index) : list Z :=
  enc_str (ix_name i) ++ len16 (ix_cols i) ++ flat_map enc_idx_col (ix_cols i)
  ++ [u8b (ix_unique i); u8b (ix_hnsw i)].

Definition enc_table (t : table) : list Z :=
  le_bytes 8 (t_id t) ++ enc_str (t_name t) ++ len32 (t_columns t)
  ++ flat_map enc_column (t_columns t)
  ++ match t_pk t with Some pk => [1] ++ len16 pk ++ flat_map enc_str pk | None => [0] end
  ++ len32 (t_indexes t) ++ flat_map enc_index (t_indexes t)
  ++ match t_toast t with Some x => [1] ++ le_bytes 8 x | None => [0] end.

Definition enc_schema (s : schema) : list Z :=
  le_bytes 4 (s_id s) ++ enc_str (s_name s) ++ len32 (s_tables s)
  ++ flat_map enc_table (s_tables s).

Definition enc_catalog (c : catalog) : list Z := flat_map enc_schema c.

(* the `ensure!(name_bytes.len() <= u16::MAX)` checks: schema, table, column and index names *)
Definition name_fits (s : str) : bool := zlen s <=? 65535.
Definition table_ser_ok (t : table) : bool :=
  name_fits (t_name t) && forallb (fun c => name_fits (col_name c)) (t_columns t)
  && forallb (fun i => name_fits (ix_name i)) (t_indexes t).
Definition schema_ser_ok (s : schema) : bool :=
  name_fits (s_name s) && forallb table_ser_ok (s_tables s).
(* CatalogPersistence::serialize: None = Err *)
Definition serialize (c : catalog) : option (list Z) :=
  if forallb schema_ser_ok c then Some (enc_catalog c) else None.

(* ------------------------------------------------------------------ deserialize *)
Inductive res (A : Type) := Ok (a : A) | Err | OutOfFuel.
Arguments Ok {A} a.
Arguments Err {A}.
Arguments OutOfFuel {A}.

Definition bind {A B} (r : res A) (f : A -> res B) : res B :=
  match r with Ok a => f a | Err => Err | OutOfFuel => OutOfFuel end.
Notation "'let*' p ':=' r 'in' k" := (bind r (fun p => k))
  (at level 200, p pattern, r at level 100, k at level 200, right associativity).

Definition parser (A : Type) := list Z -> res (A * list Z).

(* `ensure!(pos + k <= bytes.len())` then k bytes little-endian *)
Definition rd_u8 : parser Z := fun bs =>
  match bs with b :: r => Ok (b, r) | _ => Err end.
Definition rd_u16 : parser Z := fun bs =>
  match bs with b0 :: b1 :: r => Ok (from_le [b0; b1], r) | _ => Err end.
Definition rd_u32 : parser Z := fun bs =>
  match bs with b0 :: b1 :: b2 :: b3 :: r => Ok (from_le [b0; b1; b2; b3], r) | _ => Err end.
Definition rd_u64 : parser Z := fun bs =>
  match bs with
  | b0 :: b1 :: b2 :: b3 :: b4 :: b5 :: b6 :: b7 :: r => Ok (from_le [b0; b1; b2; b3; b4; b5; b6; b7], r)
  | _ => Err
  end.
Fixpoint take_n (n : nat) (bs : list Z) : option (list Z * list Z) :=
  match n with
  | O => Some ([], bs)
  | S n' => match bs with
            | [] => None
            | b :: r => match take_n n' r with Some (a, r') => Some (b :: a, r') | None => None end
            end
  end.
(* u16 length, `ensure!(pos + len <= bytes.len())`, `from_utf8(..)?` *)
Definition rd_str : parser str := fun bs =>
  let* (n, r) := rd_u16 bs in
  match take_n (Z.to_nat n) r with
  | Some (s, r') => if utf8_valid s then Ok (s, r') else Err
  | None => Err
  end.

(* `for _ in 0..n { let (x, new_pos) = rd(bytes, pos)?; ... }`.  n comes from the input (up to
   2^32-1), so the recursion is on fuel; every item parser consumes at least one byte, hence
   fuel = 1 + (bytes left) always suffices (Proof/Catalog.v: deserialize_fuel_enough). *)
Fixpoint rd_many {A} (rd : parser A) (fuel : nat) (n : Z) (bs : list Z) : res (list A * list Z) :=
  if n <=? 0 then Ok ([], bs) else
  match fuel with
  | O => OutOfFuel
  | S f =>
    let* (a, r) := rd bs in
    let* (l, r') := rd_many rd f (n - 1) r in
    Ok (a :: l, r')
  end.
Definition many {A} (rd : parser A) (n : Z) : parser (list A) := fun bs =>
  rd_many rd (S (length bs)) n bs.

Definition rd_constr : parser constr := fun bs =>
  let* (ty, r) := rd_u8 bs in
  if ty =? 0 then Ok (CNotNull, r)
  else if ty =? 1 then Ok (CPrimaryKey, r)
  else if ty =? 2 then Ok (CUnique, r)
  else if ty =? 3 then
    let* (t, r1) := rd_str r in
    let* (c, r2) := rd_str r1 in
    (* `if pos + 2 <= bytes.len()` else (None, None) *)
    match r2 with
    | d :: u :: r3 => Ok (CForeignKey t c (dec_action d) (dec_action u), r3)
    | _ => Ok (CForeignKey t c None None, r2)
    end
  else if ty =? 4 then
    let* (e, r1) := rd_str r in Ok (CCheck e, r1)
  else if ty =? 5 then Ok (CAutoIncrement, r)
  else Err.

Definition type_bytes : list Z :=
  [0;1;2;3;4;5;6;7;8;9;10;11;12;13;20;21;22;23;24;25;30;31;40;41;42;43;50;60;61;62;70;71].
Definition type_ok (b : Z) : bool := existsb (Z.eqb b) type_bytes.

Definition rd_column : parser column := fun bs =>
  let* (name, r) := rd_str bs in
  let* (ty, r) := rd_u8 r in
  if negb (type_ok ty) then Err else
  let* (nc, r) := rd_u16 r in
  let* (cs, r) := many rd_constr nc r in
  let* (hd, r) := rd_u8 r in
  let* (dflt, r) := (if hd =? 0 then Ok (None, r)
                     else let* (d, r') := rd_str r in Ok (Some d, r')) in
  (* `if pos < bytes.len()`: max_length is optional at the very end of the data *)
  match r with
  | [] => Ok (Column name ty cs dflt None, r)
  | hm :: r1 =>
    if hm =? 0 then Ok (Column name ty cs dflt None, r1)
    else let* (m, r2) := rd_u32 r1 in Ok (Column name ty cs dflt (Some m), r2)
  end.

Definition rd_idx_col : parser idx_col := fun bs =>
  let* (n, r) := rd_str bs in
  let* (d, r) := rd_u8 r in
  Ok (IdxCol (ICColumn n) (d =? 1), r).

Definition rd_index : parser index := fun bs =>
  let* (name, r) := rd_str bs in
  let* (nc, r) := rd_u16 r in
  let* (cols, r) := many rd_idx_col nc r in
  let* (u, r) := rd_u8 r in
  let* (ty, r) := rd_u8 r in
  if ty =? 0 then Ok (Index name cols (negb (u =? 0)) false None, r)
  else if ty =? 1 then Ok (Index name cols (negb (u =? 0)) true None, r)
  else Err.

Definition rd_table : parser table := fun bs =>
  let* (id, r) := rd_u64 bs in
  let* (name, r) := rd_str r in
  let* (nc, r) := rd_u32 r in
  let* (cols, r) := many rd_column nc r in
  let* (hp, r) := rd_u8 r in
  let* (pk, r) := (if hp =? 0 then Ok (None, r)
                   else let* (np, r') := rd_u16 r in
                        let* (names, r'') := many rd_str np r' in Ok (Some names, r'')) in
  let* (ni, r) := rd_u32 r in
  let* (idx, r) := many rd_index ni r in
  (* `if pos < bytes.len() { has_toast; if has_toast && pos + 8 <= bytes.len() {..} }` *)
  match r with
  | [] => Ok (Table id name cols pk idx None, r)
  | ht :: r1 =>
    if ht =? 0 then Ok (Table id name cols pk idx None, r1)
    else match rd_u64 r1 with
         | Ok (x, r2) => Ok (Table id name cols pk idx (Some x), r2)
         | _ => Ok (Table id name cols pk idx None, r1)
         end
  end.

(* Schema::add_table = HashMap::insert keyed by table name *)
Fixpoint tbl_insert (t : table) (ts : list table) : list table :=
  match ts with
  | [] => [t]
  | x :: r => if zlist_eqb (t_name x) (t_name t) then t :: r else x :: tbl_insert t r
  end.
Definition tbl_insert_all (new old : list table) : list table :=
  fold_left (fun acc t => tbl_insert t acc) new old.

(* deserialize_schema: a temporary Schema::new(id, name) filled with add_table *)
Definition rd_schema : parser schema := fun bs =>
  let* (id, r) := rd_u32 bs in
  let* (name, r) := rd_str r in
  let* (nt, r) := rd_u32 r in
  let* (ts, r) := many rd_table nt r in
  Ok (Schema id name (tbl_insert_all ts []), r).

(* `if !catalog.schema_exists(name) { catalog.restore_schema(id, name) }` (a fresh
   Schema::new(id, name)), then `for t in tables { existing.add_table(t) }` -- a schema that was
   already there keeps its own id *)
Fixpoint merge_schema (c : catalog) (s : schema) : catalog :=
  match c with
  | [] => [Schema (s_id s) (s_name s) (tbl_insert_all (s_tables s) [])]
  | x :: r =>
    if zlist_eqb (s_name x) (s_name s)
    then Schema (s_id x) (s_name x) (tbl_insert_all (s_tables s) (s_tables x)) :: r
    else x :: merge_schema r s
  end.

(* `while pos < bytes.len()` *)
Fixpoint deser_loop (fuel : nat) (bs : list Z) (c : catalog) : res catalog :=
  match bs with
  | [] => Ok c
  | _ :: _ =>
    match fuel with
    | O => OutOfFuel
    | S f =>
      let* (s, r) := rd_schema bs in
      deser_loop f r (merge_schema c s)
    end
  end.
(* CatalogPersistence::deserialize(bytes, &mut catalog); on Err the partially filled catalog
   is not reported (load's caller drops it) *)
Definition deserialize (bs : list Z) (c : catalog) : res catalog := deser_loop (S (length bs)) bs c.

(* ------------------------------------------------------------------ the file: save / load *)
Definition magic : list Z := [84;117;114;68;66;32;82;117;115;116;32;118;49;0;0;0].
Definition header_size : Z := 128.

Definition default_schema_id (c : catalog) : Z :=
  match find_schema c name_root with Some s => s_id s | None => 0 end.

Definition header (c : catalog) (body_len : Z) : list Z :=
  magic ++ le_bytes 4 1 ++ le_bytes 4 16384 ++ le_bytes 8 (zlen c)
  ++ le_bytes 8 (default_schema_id c) ++ repeat 0 24
  ++ le_bytes 8 header_size ++ le_bytes 8 body_len ++ repeat 0 48.

(* what CatalogPersistence::save writes, as the two write_all calls *)
Definition save_parts (c : catalog) : option (list Z * list Z) :=
  match serialize c with
  | Some body => Some (header c (zlen body), body)
  | None => None
  end.
Definition save_file (c : catalog) : option (list Z) :=
  match save_parts c with Some (h, b) => Some (h ++ b) | None => None end.

(* CatalogPersistence::load on a file with contents f, into Catalog::new().
   (vec![0u8; catalog_length] is assumed to succeed: catalog_length is not bounded by the code.) *)
Definition load_file (f : list Z) : res catalog :=
  match take_n 128 f with
  | None => Err                                          (* read_exact(header) *)
  | Some (h, rest) =>
    if negb (zlist_eqb (firstn 16 h) magic) then Err
    else if negb (from_le (bslice h 16 20) =? 1) then Err
    else if negb (from_le (bslice h 64 72) =? header_size) then Err
    else
      let clen := from_le (bslice h 72 80) in
      if zlen rest <? clen then Err                        (* read_exact(catalog_bytes) *)
      else deserialize (firstn (Z.to_nat clen) rest) base_catalog
  end.

(* ------------------------------------------------------------------ well-formedness *)
Definition wf_str (s : str) : bool := bytes_ok s && utf8_valid s && (zlen s <? 65536).
Definition wf_constr (c : constr) : bool :=
  match c with
  | CForeignKey t col _ _ => wf_str t && wf_str col
  | CCheck e => wf_str e
  | _ => true
  end.
Definition wf_opt {A} (f : A -> bool) (o : option A) : bool :=
  match o with Some a => f a | None => true end.
Definition wf_column (c : column) : bool :=
  wf_str (col_name c) && type_ok (col_type c)
  && (zlen (col_constraints c) <? 65536) && forallb wf_constr (col_constraints c)
  && wf_opt wf_str (col_default c) && wf_opt (in_u 32) (col_max_length c).
(* field widths only; what the format cannot express (expression text, WHERE) is the known class *)
Definition wf_idx_col (c : idx_col) : bool :=
  match ic_what c with ICColumn n => wf_str n | ICExpr e => true end.
Definition wf_index (i : index) : bool :=
  wf_str (ix_name i) && (zlen (ix_cols i) <? 65536) && forallb wf_idx_col (ix_cols i).
Definition wf_table (t : table) : bool :=
  in_u 64 (t_id t) && wf_str (t_name t)
  && (zlen (t_columns t) <? 2 ^ 32) && forallb wf_column (t_columns t)
  && wf_opt (fun pk => (zlen pk <? 65536) && forallb wf_str pk) (t_pk t)
  && (zlen (t_indexes t) <? 2 ^ 32) && forallb wf_index (t_indexes t)
  && wf_opt (in_u 64) (t_toast t).
Fixpoint names_distinct (ns : list str) : bool :=
  match ns with
  | [] => true
  | n :: r => negb (existsb (zlist_eqb n) r) && names_distinct r
  end.
Definition wf_schema (s : schema) : bool :=
  in_u 32 (s_id s) && wf_str (s_name s)
  && (zlen (s_tables s) <? 2 ^ 32) && forallb wf_table (s_tables s)
  && names_distinct (map t_name (s_tables s)).          (* a HashMap keyed by table name *)
Definition wf_catalog (c : catalog) : bool :=
  forallb wf_schema c && names_distinct (map s_name c).  (* a HashMap keyed by schema name *)

(* ------------------------------------------------------------------ known classes (codec) *)
(* class 1: a schema that Catalog::new() creates is missing from the catalog (DROP SCHEMA root),
   or is there with another id (dropped and created again): after a load it is back / has the
   built-in id again *)
Definition builtin_ok (c : catalog) (n : str) (id : Z) : bool :=
  match find_schema c n with Some s => s_id s =? id | None => false end.
Definition builtins_ok (c : catalog) : bool := builtin_ok c name_root 0 && builtin_ok c name_syscat 1.
(* class 2: some index has an expression column or a WHERE clause *)
Definition index_plain (i : index) : bool :=
  forallb (fun c => match ic_what c with ICColumn _ => true | ICExpr _ => false end) (ix_cols i)
  && match ix_where i with None => true | Some _ => false end.
Definition table_plain (t : table) : bool := forallb index_plain (t_indexes t).
Definition catalog_plain (c : catalog) : bool := forallb (fun s => forallb table_plain (s_tables s)) c.

Definition codec_class (c : catalog) : Z :=
  if negb (builtins_ok c) then 1 else if negb (catalog_plain c) then 2 else 0.

(* ------------------------------------------------------------------ what the format keeps *)
(* the catalog that comes back: an expression column has become the column named "", the
   WHERE text is gone (identity on catalogs without such indexes) *)
Definition lossy_idx_col (c : idx_col) : idx_col :=
  IdxCol (ICColumn (ic_written_name (ic_what c))) (ic_desc c).
Definition lossy_index (i : index) : index :=
  Index (ix_name i) (map lossy_idx_col (ix_cols i)) (ix_unique i) (ix_hnsw i) None.
Definition lossy_table (t : table) : table :=
  Table (t_id t) (t_name t) (t_columns t) (t_pk t) (map lossy_index (t_indexes t)) (t_toast t).
Definition lossy_schema (s : schema) : schema :=
  Schema (s_id s) (s_name s) (map lossy_table (s_tables s)).
Definition lossy_catalog (c : catalog) : catalog := map lossy_schema c.

(* merging every schema of a stream into a catalog, as deserialize does *)
Definition merge_all (ss : list schema) (c : catalog) : catalog := fold_left merge_schema ss c.

(* the catalog_length field of the header is a u64 *)
Definition file_fits (c : catalog) : bool := zlen (enc_catalog c) <? 2 ^ 64.

(* ------------------------------------------------------------------ witnesses of the two codec classes *)
(* CREATE INDEX ixe ON t1 (lower(name)); CREATE INDEX ixp ON t1 (name) WHERE id > 3 *)
Definition ex_expr_table : table :=
  Table 3 [116;49] [Column [110;97;109;101] 20 [] None None] None
    [Index [105;120;101] [IdxCol (ICExpr [108;111;119;101;114;40;110;97;109;101;41]) false] false false None;
     Index [105;120;112] [IdxCol (ICColumn [110;97;109;101]) false] false false (Some [40;105;100;32;71;116;32;51;41])]
    None.
Definition ex_expr_table_plain : table :=
  Table 4 [116;49] [Column [110;97;109;101] 20 [CNotNull] None None] None
    [Index [105;120] [IdxCol (ICColumn [110;97;109;101]) true] true false None] None.
Definition ex_expr_catalog : catalog := [Schema 0 name_root [ex_expr_table]; Schema 1 name_syscat []].
(* CREATE SCHEMA analytics; CREATE TABLE analytics.t1 (...) *)
Definition ex_user_catalog : catalog :=
  [Schema 2 [97;110;97;108;121;116;105;99;115] [ex_expr_table_plain]; Schema 0 name_root []; Schema 1 name_syscat []].
(* DROP SCHEMA root *)
Definition ex_noroot_catalog : catalog := [Schema 1 name_syscat []].
