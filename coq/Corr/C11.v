(* C11 correspondence: histories run through the real Database (harness/src/bin/c11.rs) are judged
   against the model (Model/Toast.v, Model/ToastSql.v) and against the property's own oracle
   (ToastSql.spec_hist); direct calls of the public helpers of src/storage/toast.rs are compared with
   the model of the pointer / chunk-key codec.  Evaluated by vm_compute; definitions only.

   Byte strings are written compactly by the harness (literal, run-length, or "the bytes of the value
   written at step i of this history") and expanded here before the model runs on them. *)
From Coq Require Import ZArith List Bool.
From TV Require Import Lib.MachInt Gen.Toast Model.Toast Model.Utf8.
From TV Require Export Model.ToastSql.
Import ListNotations.
Open Scope Z_scope.

Inductive bdesc :=
| BLit (b : list Z)
| BRuns (rs : list (Z * Z))          (* (count, byte) ... *)
| BRef (i : Z).                      (* the bytes of the text/blob/jsonb value written by step i *)

Inductive cval :=
| CNull | CBool (b : bool) | CInt (z : Z) | CFloat (bits : Z)
| CText (d : bdesc) | CBlob (d : bdesc)
| CDate (z : Z) | CTime (z : Z) | CTs (z : Z) | CUuid (b : list Z) | CJsonb (d : bdesc) | CVec (l : list Z)
| CPtr (d : bdesc) | COther.

Inductive cop :=
| KIns (p : path) (k : Z) (v : cval) | KUpd (p : path) (k : Z) (v : cval) | KDel (k : Z)
| KReopen | KQuery (s : Z) | KSkip.

Inductive cobs :=
| BWrote (ok : bool) | BRows (rows : list (Z * cval)) | BQueryErr | BQueryPanic | BQueryAbort
| BReopened (ok : bool) | BSkipped | BNotRun | BWeird.

Inductive case :=
| Hist (ty : colty) (wal pk : bool) (steps : list (cop * cobs))
| Ptr (rid col size : Z) (enc : list Z) (dec : option (Z * Z)) (row_id col_idx : Z) (isptr : bool)
| Dec (b : list Z) (dec : option (Z * Z)) (isptr : bool)
| Key (cid seq : Z) (key : list Z) (parsed : option (Z * Z))
| Cnt (n count : Z) (needs : bool).

(* ---- expansion *)
Definition expand_runs (rs : list (Z * Z)) : list Z := flat_map (fun p => repeat (snd p) (Z.to_nat (fst p))) rs.
Definition expand (env : list (list Z)) (d : bdesc) : list Z :=
  match d with
  | BLit b => b
  | BRuns rs => expand_runs rs
  | BRef i => nth (Z.to_nat i) env []
  end.
Definition xval (env : list (list Z)) (v : cval) : value :=
  match v with
  | CNull => VNull | CBool b => VBool b | CInt z => VInt z | CFloat z => VFloat z
  | CText d => VText (expand env d) | CBlob d => VBlob (expand env d)
  | CDate z => VDate z | CTime z => VTime z | CTs z => VTs z | CUuid b => VUuid b
  | CJsonb d => VJsonb (expand env d) | CVec l => VVec l
  | CPtr d => VPtr (expand env d) | COther => VOther
  end.
Definition val_bytes (v : value) : list Z :=
  match v with VText b => b | VBlob b => b | VJsonb b => b | _ => [] end.

(* ops in order; env grows by one entry per step (the bytes written there, [] otherwise) *)
Fixpoint xops (env : list (list Z)) (steps : list (cop * cobs)) : list op * list (list Z) :=
  match steps with
  | [] => ([], env)
  | (o, _) :: t =>
      let '(o', b) :=
        match o with
        | KIns p k v => let v' := xval env v in (OIns p k v', val_bytes v')
        | KUpd p k v => let v' := xval env v in (OUpd p k v', val_bytes v')
        | KDel k => (ODel k, [])
        | KReopen => (OReopen, [])
        | KQuery s => (OQuery s, [])
        | KSkip => (OSkip, [])
        end in
      let '(os, env') := xops (env ++ [b]) t in (o' :: os, env')
  end.
Definition xobs (env : list (list Z)) (o : cobs) : sobs :=
  match o with
  | BWrote ok => SWrote ok
  | BRows rows => SRows (map (fun kv => (fst kv, xval env (snd kv))) rows)
  | BQueryErr => SQueryErr | BQueryPanic => SQueryPanic | BQueryAbort => SQueryAbort
  | BReopened ok => SReopened ok | BSkipped => SSkipped | BNotRun => SNotRun | BWeird => SWeird
  end.

Definition sobs_eqb (a b : sobs) : bool :=
  match a, b with
  | SWrote x, SWrote y => Bool.eqb x y
  | SRows x, SRows y => rows_eqb x y
  | SQueryErr, SQueryErr | SQueryPanic, SQueryPanic | SQueryAbort, SQueryAbort => true
  | SReopened x, SReopened y => Bool.eqb x y
  | SSkipped, SSkipped | SNotRun, SNotRun => true
  | _, _ => false                      (* SWeird agrees with nothing *)
  end.
Fixpoint sobs_list_eqb (a b : list sobs) : bool :=
  match a, b with
  | [], [] => true
  | x :: a', y :: b' => sobs_eqb x y && sobs_list_eqb a' b'
  | _, _ => false
  end.

Definition hist_parts (steps : list (cop * cobs)) : list op * list sobs :=
  let '(ops, env) := xops [] steps in (ops, map (fun s => xobs env (snd s)) steps).

Definition opt_eqb (a b : option (Z * Z)) : bool :=
  match a, b with
  | None, None => true
  | Some (x, n), Some (y, m) => (x =? y) && (n =? m)
  | _, _ => false
  end.

(* ---- does the model reproduce what the implementation did? *)
Definition model_agrees (c : case) : bool :=
  match c with
  | Hist ty wal pk steps => let '(ops, obs) := hist_parts steps in sobs_list_eqb (run ty pk ops) obs
  | Ptr rid col size enc dec row_id col_idx isptr =>
      let cid := chunk_id_of rid col in
      zlist_eqb (ptr_encode size cid) enc && opt_eqb (ptr_decode enc) dec &&
      (ptr_row_id size cid =? row_id) && (ptr_column_index size cid =? col_idx) &&
      Bool.eqb (is_toast_pointer enc) isptr
  | Dec b dec isptr => opt_eqb (ptr_decode b) dec && Bool.eqb (is_toast_pointer b) isptr
  | Key cid seq key parsed => zlist_eqb (make_chunk_key cid seq) key && opt_eqb (parse_chunk_key key) parsed
  | Cnt n count needs =>
      (chunk_count n =? count) &&
      (if n <=? 100000 then Bool.eqb (needs_toast (repeat 0 (Z.to_nat n))) needs else needs)   (* larger n: chunk_count only *)
  end.

(* ---- does the implementation's behaviour satisfy the property itself? *)
Definition spec_ok (c : case) : bool :=
  match c with
  | Hist ty wal pk steps => let '(ops, obs) := hist_parts steps in spec_hist ops obs
  | Ptr rid col size enc dec row_id col_idx isptr =>
      (* the pointer is 17 bytes, is recognised, and gives back size, row id and column (row ids below 2^48) *)
      (blen enc =? 17) && isptr &&
      match dec with Some (t, _) => t =? size | None => false end &&
      (if rid <? 2 ^ 48 then (row_id =? rid) && (col_idx =? col) else true)
  | Dec _ _ _ => true
  | Key cid seq key parsed => (blen key =? 12) && opt_eqb parsed (Some (cid, seq))
  | Cnt n count needs => (count * 4000 >=? n) && ((count - 1) * 4000 <? n) && (0 <=? count) && Bool.eqb needs (1000 <? n)
  end.

(* every recorded finding class has been repaired upstream (16c5acb, 170f3f6, 1b44555, cc39952): nothing is excused *)
Definition known_class (c : case) : Z := 0.

Fixpoint failures_from (i : Z) (cs : list case) : list (Z * bool * bool * Z) :=
  match cs with
  | [] => []
  | c :: t =>
      let m := model_agrees c in
      let s := spec_ok c in
      if m && s then failures_from (i + 1) t else (i, m, s, known_class c) :: failures_from (i + 1) t
  end.
Definition failures := failures_from 0.
