(* C17 bag lemmas: permutations of flat_map / filter / partitions, and bag_eqb is multiset
   equality.  Used by Proof/JoinExec.v and Proof/JoinHw.v. *)
From Coq Require Import ZArith List Bool Lia Permutation.
From TV Require Import Model.SqlSpec Model.JoinSpec.
Import ListNotations.
Open Scope Z_scope.

(* ------------------------------------------------------------------ flat_map / filter under permutations *)
Lemma perm_flat_map {A B} (f : A -> list B) l l' :
  Permutation l l' -> Permutation (flat_map f l) (flat_map f l').
Proof.
  induction 1 as [|x l l' P IH|x y l|l l' l'' P1 IH1 P2 IH2]; cbn [flat_map].
  - constructor.
  - apply Permutation_app_head. exact IH.
  - rewrite !app_assoc. apply Permutation_app_tail. apply Permutation_app_comm.
  - eapply Permutation_trans; eassumption.
Qed.

Lemma perm_filter {A} (f : A -> bool) l l' :
  Permutation l l' -> Permutation (filter f l) (filter f l').
Proof.
  induction 1 as [|x l l' P IH|x y l|l l' l'' P1 IH1 P2 IH2]; cbn [filter].
  - constructor.
  - destruct (f x); [constructor|]; exact IH.
  - destruct (f x), (f y); try apply Permutation_refl. constructor.
  - eapply Permutation_trans; eassumption.
Qed.

Lemma perm_flat_map_ext {A B} (f g : A -> list B) l :
  (forall a, In a l -> Permutation (f a) (g a)) -> Permutation (flat_map f l) (flat_map g l).
Proof.
  induction l as [|x l IH]; intros H; cbn [flat_map]; [constructor|].
  apply Permutation_app; [apply H; left; reflexivity | apply IH; intros a Ha; apply H; right; exact Ha].
Qed.

Lemma flat_map_ext_in {A B} (f g : A -> list B) l :
  (forall a, In a l -> f a = g a) -> flat_map f l = flat_map g l.
Proof.
  induction l as [|x l IH]; intros H; cbn [flat_map]; [reflexivity|].
  rewrite (H x (or_introl eq_refl)), IH; [reflexivity|]. intros a Ha. apply H. right. exact Ha.
Qed.

Lemma perm_flat_map_app {A B} (f g : A -> list B) l :
  Permutation (flat_map (fun x => f x ++ g x) l) (flat_map f l ++ flat_map g l).
Proof.
  induction l as [|x l IH]; cbn [flat_map app]; [constructor|].
  rewrite <- !app_assoc. apply Permutation_app_head.
  eapply Permutation_trans; [apply Permutation_app_head; exact IH|].
  rewrite !app_assoc. apply Permutation_app_tail. apply Permutation_app_comm.
Qed.

Lemma flat_map_flat_map {A B C} (f : A -> list B) (g : B -> list C) l :
  flat_map g (flat_map f l) = flat_map (fun x => flat_map g (f x)) l.
Proof. induction l as [|x l IH]; cbn [flat_map]; [reflexivity|]. rewrite flat_map_app, IH. reflexivity. Qed.

Lemma filter_flat_map {A B} (p : B -> bool) (f : A -> list B) l :
  filter p (flat_map f l) = flat_map (fun x => filter p (f x)) l.
Proof. induction l as [|x l IH]; cbn [flat_map]; [reflexivity|]. rewrite filter_app, IH. reflexivity. Qed.

Lemma map_flat_map {A B C} (g : B -> C) (f : A -> list B) l :
  map g (flat_map f l) = flat_map (fun x => map g (f x)) l.
Proof. induction l as [|x l IH]; cbn [flat_map]; [reflexivity|]. rewrite map_app, IH. reflexivity. Qed.

Lemma filter_filter {A} (p q : A -> bool) l :
  filter p (filter q l) = filter (fun x => q x && p x) l.
Proof.
  induction l as [|x l IH]; cbn [filter]; [reflexivity|].
  destruct (q x); cbn [filter andb]; [destruct (p x)|]; rewrite IH; reflexivity.
Qed.

Lemma existsb_filter_nil {A} (f : A -> bool) l : existsb f l = negb (is_nil (filter f l)).
Proof.
  induction l as [|x l IH]; cbn [existsb filter]; [reflexivity|].
  destruct (f x); cbn [orb is_nil negb]; [reflexivity|exact IH].
Qed.

Lemma existsb_ext_in {A} (f g : A -> bool) l :
  (forall a, In a l -> f a = g a) -> existsb f l = existsb g l.
Proof.
  induction l as [|x l IH]; intros H; cbn [existsb]; [reflexivity|].
  rewrite (H x (or_introl eq_refl)), IH; [reflexivity|]. intros a Ha. apply H. right. exact Ha.
Qed.

Lemma existsb_filter {A} (f p : A -> bool) l :
  existsb f (filter p l) = existsb (fun x => p x && f x) l.
Proof.
  induction l as [|x l IH]; cbn [existsb filter]; [reflexivity|].
  destruct (p x); cbn [existsb andb orb]; rewrite IH; reflexivity.
Qed.

(* an optional singleton per element, collected *)
Lemma flat_map_opt {A B} (c : A -> bool) (g : A -> B) l :
  flat_map (fun x => if c x then [g x] else []) l = map g (filter c l).
Proof.
  induction l as [|x l IH]; cbn [flat_map filter]; [reflexivity|].
  destruct (c x); cbn [app map]; rewrite IH; reflexivity.
Qed.

(* ------------------------------------------------------------------ swapping the two loops of a join *)
Lemma flat_map_nil {A B} (l : list A) : flat_map (fun _ => @nil B) l = [].
Proof. induction l; cbn [flat_map app]; auto. Qed.

Lemma swap_loops {A B C} (p : A -> B -> bool) (f : A -> B -> C) (L : list A) (R : list B) :
  Permutation (flat_map (fun r => map (fun l => f l r) (filter (fun l => p l r) L)) R)
              (flat_map (fun l => map (f l) (filter (p l) R)) L).
Proof.
  induction L as [|a L IH]; cbn [flat_map filter map].
  - rewrite flat_map_nil. constructor.
  - eapply Permutation_trans.
    2:{ apply Permutation_app_head. exact IH. }
    (* split every r's list into the contribution of a and the rest *)
    eapply Permutation_trans.
    { apply perm_flat_map_ext with (g := fun r => (if p a r then [f a r] else []) ++ map (fun l => f l r) (filter (fun l => p l r) L)).
      intros r _. destruct (p a r); cbn [map app]; apply Permutation_refl. }
    eapply Permutation_trans; [apply perm_flat_map_app|].
    apply Permutation_app_tail.
    rewrite flat_map_opt. apply Permutation_refl.
Qed.

(* ------------------------------------------------------------------ partitions by h mod n *)
Section Partition.
  Variable n : Z.
  Hypothesis Hn : 0 < n.

  Definition partsZ : list Z := map Z.of_nat (seq 0 (Z.to_nat n)).

  Lemma partsZ_nodup : NoDup partsZ.
  Proof.
    unfold partsZ. apply FinFun.Injective_map_NoDup; [|apply seq_NoDup].
    intros a b H. apply Nat2Z.inj. exact H.
  Qed.

  Lemma partsZ_in (h : Z) : In (h mod n) partsZ.
  Proof.
    unfold partsZ. apply in_map_iff. exists (Z.to_nat (h mod n)).
    pose proof (Z.mod_pos_bound h n Hn) as B.
    split; [apply Z2Nat.id; lia|]. apply in_seq. split; [lia|]. cbn. apply Z2Nat.inj_lt; lia.
  Qed.

  Lemma one_slot {A} (x : A) (q : Z) (F : Z -> list A) : forall ps,
    NoDup ps -> In q ps ->
    Permutation (flat_map (fun p => (if q =? p then [x] else []) ++ F p) ps) (x :: flat_map F ps).
  Proof.
    induction ps as [|p ps IH]; intros ND Hin; [destruct Hin|].
    inversion ND as [|? ? Hnot ND']; subst. cbn [flat_map].
    destruct (Z.eqb_spec q p) as [E|E].
    - subst p. cbn [app]. constructor. apply Permutation_app_head.
      apply perm_flat_map_ext. intros a Ha. destruct (Z.eqb_spec q a) as [E2|E2]; [subst; contradiction|]. apply Permutation_refl.
    - cbn [app]. destruct Hin as [Hq|Hq]; [congruence|].
      eapply Permutation_trans; [apply Permutation_app_head; apply IH; assumption|].
      apply Permutation_sym. apply Permutation_middle.
  Qed.

  Lemma perm_partition {A} (h : A -> Z) (l : list A) :
    Permutation (flat_map (fun p => filter (fun x => h x mod n =? p) l) partsZ) l.
  Proof.
    induction l as [|x l IH]; cbn [filter].
    - rewrite flat_map_nil. constructor.
    - eapply Permutation_trans.
      { apply perm_flat_map_ext with (g := fun p => (if h x mod n =? p then [x] else []) ++ filter (fun x0 => h x0 mod n =? p) l).
        intros p _. destruct (h x mod n =? p); apply Permutation_refl. }
      eapply Permutation_trans; [apply one_slot; [apply partsZ_nodup|apply partsZ_in]|].
      constructor. exact IH.
  Qed.
End Partition.

(* ------------------------------------------------------------------ bag_eqb is multiset equality *)
Lemma zlist_eqb'_eq a : forall b, zlist_eqb' a b = true <-> a = b.
Proof.
  induction a as [|x a IH]; intros [|y b]; cbn; split; intros H; try reflexivity; try discriminate.
  - apply andb_true_iff in H. destruct H as [H1 H2]. apply Z.eqb_eq in H1. apply IH in H2. subst. reflexivity.
  - inversion H; subst. rewrite Z.eqb_refl. cbn. apply IH. reflexivity.
Qed.

Lemma value_eqb_eq a b : value_eqb a b = true <-> a = b.
Proof.
  destruct a, b; cbn; split; intros H; try reflexivity; try discriminate.
  - apply Z.eqb_eq in H. subst. reflexivity.
  - inversion H. apply Z.eqb_refl.
  - apply Z.eqb_eq in H. subst. reflexivity.
  - inversion H. apply Z.eqb_refl.
  - apply zlist_eqb'_eq in H. subst. reflexivity.
  - inversion H. apply zlist_eqb'_eq. reflexivity.
  - apply eqb_prop in H. subst. reflexivity.
  - inversion H. apply eqb_reflx.
Qed.

Lemma row_eqb_eq a : forall b, row_eqb a b = true <-> a = b.
Proof.
  induction a as [|x a IH]; intros [|y b]; cbn; split; intros H; try reflexivity; try discriminate.
  - apply andb_true_iff in H. destruct H as [H1 H2]. apply value_eqb_eq in H1. apply IH in H2. subst. reflexivity.
  - inversion H; subst. apply andb_true_iff. split; [apply value_eqb_eq|apply IH]; reflexivity.
Qed.

Lemma remove1_perm r : forall t t', remove1 r t = Some t' -> Permutation t (r :: t').
Proof.
  induction t as [|x t IH]; intros t' H; cbn in H; [discriminate|].
  destruct (row_eqb r x) eqn:E.
  - apply row_eqb_eq in E. inversion H; subst. apply Permutation_refl.
  - destruct (remove1 r t) as [t''|] eqn:E2; [|discriminate]. inversion H; subst.
    eapply Permutation_trans; [constructor; apply IH; reflexivity|]. constructor.
Qed.

Lemma remove1_in r : forall t, In r t -> exists t', remove1 r t = Some t'.
Proof.
  induction t as [|x t IH]; intros H; [destruct H|]. cbn.
  destruct (row_eqb r x) eqn:E; [eexists; reflexivity|].
  destruct H as [H|H]; [subst; assert (row_eqb r r = true) by (apply row_eqb_eq; reflexivity); congruence|].
  destruct (IH H) as [t' Ht]. rewrite Ht. eexists; reflexivity.
Qed.

Lemma bag_eqb_perm : forall a b, bag_eqb a b = true -> Permutation a b.
Proof.
  induction a as [|r a IH]; intros b H; cbn in H.
  - destruct b; [constructor|discriminate].
  - destruct (remove1 r b) as [b'|] eqn:E; [|discriminate].
    apply Permutation_sym. eapply Permutation_trans; [apply remove1_perm; exact E|].
    constructor. apply Permutation_sym. apply IH. exact H.
Qed.

Lemma perm_bag_eqb : forall a b, Permutation a b -> bag_eqb a b = true.
Proof.
  induction a as [|r a IH]; intros b P; cbn.
  - apply Permutation_nil in P. subst. reflexivity.
  - assert (In r b) as Hin by (eapply Permutation_in; [exact P|left; reflexivity]).
    destruct (remove1_in r b Hin) as [b' E]. rewrite E. apply IH.
    apply Permutation_cons_inv with (a := r).
    eapply Permutation_trans; [exact P|]. apply remove1_perm. exact E.
Qed.

Theorem bag_eqb_iff a b : bag_eqb a b = true <-> Permutation a b.
Proof. split; [apply bag_eqb_perm|apply perm_bag_eqb]. Qed.
