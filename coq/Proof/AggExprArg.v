(* C16: an aggregate over an EXPRESSION (columns, integer literals, + - * ) -- the argument is evaluated
   row by row (aggregate_args), and the fold over those values finalizes to the reference aggregate,
   for every list of rows.  (The class repaired by 52ebd35: before, column 0 was aggregated.) *)
From Coq Require Import ZArith List Bool Lia.
From TV Require Import Model.SqlSpecAgg Model.AggImpl Model.AggClass
  Proof.AggFold Proof.AggFoldSpec Proof.AggKeys Proof.AggNames Proof.AggQuery1.
Import ListNotations.
Open Scope Z_scope.

(* the expressions evaluate_to_value is modelled on *)
Fixpoint frag (e : expr) : bool :=
  match e with
  | ECol _ => true
  | ELit (VInt _) => true
  | EArith _ a b => frag a && frag b
  | _ => false
  end.

(* what the evaluator yields against what the reference yields: the same value, or nothing for NULL *)
Definition yields (o : option value) (v : value) : Prop := o = Some v \/ (v = VNull /\ o = None).

Lemma ieval_eval : forall e r w, frag e = true -> eval e r = Some w -> exists o, ieval e r = SOk o /\ yields o w.
Proof.
  induction e; intros r w F E; cbn [frag] in F; try discriminate.
  - cbn [eval] in E. cbn [ieval]. rewrite E. exists (Some w). split; [reflexivity|now left].
  - destruct v; try discriminate. cbn [eval] in E. injection E as <-. cbn [ieval]. eexists; split; [reflexivity|now left].
  - apply andb_true_iff in F as [F1 F2]. cbn [eval] in E.
    destruct (eval e1 r) as [x|] eqn:E1; [|discriminate]. destruct (eval e2 r) as [y|] eqn:E2; [|discriminate].
    destruct (IHe1 r x F1 E1) as [oa [Ia Ya]]. destruct (IHe2 r y F2 E2) as [ob [Ib Yb]].
    cbn [ieval]. rewrite Ia, Ib. cbn [sbind]. unfold arith_values in E.
    destruct x; destruct y; try discriminate.
    + injection E as <-. exists None. split; [|right; auto].
      destruct Ya as [->|[_ ->]]; destruct Yb as [->|[_ ->]]; reflexivity.
    + injection E as <-. exists None. split; [|right; auto].
      destruct Ya as [->|[_ ->]]; destruct Yb as [->|[Hc _]]; try discriminate; reflexivity.
    + injection E as <-. exists None. split; [|right; auto].
      destruct Ya as [->|[Hc _]]; try discriminate; destruct Yb as [->|[_ ->]]; reflexivity.
    + destruct (i64_ok (arith_z op z z0)) eqn:Ok; [|discriminate]. injection E as <-.
      destruct Ya as [->|[Hc _]]; try discriminate. destruct Yb as [->|[Hc _]]; try discriminate.
      cbn [arith_step]. rewrite Ok. eexists; split; [reflexivity|now left].
Qed.

Lemma upd_yields : forall k s o v, yields o v -> upd k s o = upd k s (Some v).
Proof. intros k s o v [->|[-> ->]]; [reflexivity|]. destruct k; reflexivity. Qed.

Lemma arg_vals_expr : forall e rows vs, frag e = true -> map_opt (eval e) rows = Some vs ->
  exists os, arg_vals_of (AExpr e) rows = SOk os /\ Forall2 yields os vs.
Proof.
  intros e. induction rows as [|r t IH]; intros vs F M; cbn [map_opt] in M.
  - injection M as <-. exists []. split; [reflexivity|constructor].
  - destruct (eval e r) as [v|] eqn:E; [|discriminate]. destruct (map_opt (eval e) t) as [l|] eqn:Mt; [|discriminate]. injection M as <-.
    destruct (ieval_eval e r v F E) as [o [Io Yo]]. destruct (IH l F eq_refl) as [os [Eo Fo]].
    exists (o :: os). split; [|constructor; auto]. cbn [arg_vals_of arg_val]. rewrite Io. cbn [sbind]. rewrite Eo. reflexivity.
Qed.
Lemma fold_upd_yields : forall k os vs s, Forall2 yields os vs -> fold_upd k s os = fold_upd k s (map Some vs).
Proof.
  intros k os vs s H. revert s. induction H as [|o v os vs Y Ht IH]; intros s; [reflexivity|].
  cbn [map fold_upd]. rewrite (upd_yields k s o v Y). destruct (upd k s (Some v)); cbn [sbind]; auto.
Qed.

(* the aggregate of the reference over the rows of a group is what the fold of update finalizes to,
   for every argument expression of the fragment *)
Theorem agg_run_spec_expr : forall a rows v,
  (a_fn a = FCountStar \/ frag (a_arg a) = true) -> agg_spec a rows = AVal v ->
  (forall vs, map_opt (eval (a_arg a)) rows = Some vs -> int_sums (a_fn a) vs = true) ->
  exists s, run_agg (mfn_of a) st0 rows = SOk s /\ finalize (mfn_of a) s = v.
Proof.
  intros [f e] rows v Hf S Hcls. cbn [a_fn a_arg] in *.
  destruct (is_plain e) eqn:Pl.
  - apply (agg_run_spec (mkAgg f e) rows v); auto. unfold plain_agg. cbn [a_fn a_arg]. destruct f; auto.
  - destruct f; [apply (agg_run_spec (mkAgg FCountStar e) rows v); auto| | | | |];
      (destruct Hf as [Hf|Hf]; [discriminate|]);
      unfold agg_spec in S; cbn [a_fn a_arg] in S;
      (destruct (map_opt (eval e) rows) as [vs|] eqn:M; [|discriminate]);
      destruct (arg_vals_expr e rows vs Hf M) as [os [Eo Fo]];
      unfold finalize; rewrite kind_of_mfn_of; cbn [a_fn].
    + assert (Em : mfn_of (mkAgg FCount e) = MCount (AExpr e)) by (unfold mfn_of, marg_of; cbn [a_fn a_arg]; destruct e; try discriminate; reflexivity).
      rewrite Em. rewrite (run_agg_fold (MCount (AExpr e)) rows os st0 Eo). cbn [kind_of kind_of_fn].
      rewrite (fold_upd_yields _ _ _ _ Fo). apply (agg_fold_spec FCount vs v (Hcls vs eq_refl) S).
    + assert (Em : mfn_of (mkAgg FSum e) = MSum (AExpr e)) by (unfold mfn_of, marg_of; cbn [a_fn a_arg]; destruct e; try discriminate; reflexivity).
      rewrite Em. rewrite (run_agg_fold (MSum (AExpr e)) rows os st0 Eo). cbn [kind_of kind_of_fn].
      rewrite (fold_upd_yields _ _ _ _ Fo). apply (agg_fold_spec FSum vs v (Hcls vs eq_refl) S).
    + assert (Em : mfn_of (mkAgg FAvg e) = MAvg (AExpr e)) by (unfold mfn_of, marg_of; cbn [a_fn a_arg]; destruct e; try discriminate; reflexivity).
      rewrite Em. rewrite (run_agg_fold (MAvg (AExpr e)) rows os st0 Eo). cbn [kind_of kind_of_fn].
      rewrite (fold_upd_yields _ _ _ _ Fo). apply (agg_fold_spec FAvg vs v (Hcls vs eq_refl) S).
    + assert (Em : mfn_of (mkAgg FMin e) = MMin (AExpr e)) by (unfold mfn_of, marg_of; cbn [a_fn a_arg]; destruct e; try discriminate; reflexivity).
      rewrite Em. rewrite (run_agg_fold (MMin (AExpr e)) rows os st0 Eo). cbn [kind_of kind_of_fn].
      rewrite (fold_upd_yields _ _ _ _ Fo). apply (agg_fold_spec FMin vs v (Hcls vs eq_refl) S).
    + assert (Em : mfn_of (mkAgg FMax e) = MMax (AExpr e)) by (unfold mfn_of, marg_of; cbn [a_fn a_arg]; destruct e; try discriminate; reflexivity).
      rewrite Em. rewrite (run_agg_fold (MMax (AExpr e)) rows os st0 Eo). cbn [kind_of kind_of_fn].
      rewrite (fold_upd_yields _ _ _ _ Fo). apply (agg_fold_spec FMax vs v (Hcls vs eq_refl) S).
Qed.

Corollary agg_frun_spec_expr : forall a rows v,
  (a_fn a = FCountStar \/ frag (a_arg a) = true) -> agg_spec a rows = AVal v ->
  (forall vs, map_opt (eval (a_arg a)) rows = Some vs -> int_sums (a_fn a) vs = true) ->
  (exists s, run_agg (mfn_of a) st0 rows = SOk s) /\ frun (mfn_of a) rows = v.
Proof.
  intros a rows v Pa S H. destruct (agg_run_spec_expr a rows v Pa S H) as [s [E F]].
  split; [eauto|]. unfold frun. now rewrite E.
Qed.

(* ------------------------------------------------------------------ names and positions with expression arguments *)
Definition ok_agg (a : agg) : bool := match a_fn a with FCountStar => true | _ => frag (a_arg a) end.
Lemma ok_agg_or a : ok_agg a = true -> a_fn a = FCountStar \/ frag (a_arg a) = true.
Proof. unfold ok_agg. destruct (a_fn a); auto. Qed.
Lemma plain_ok a : plain_agg a = true -> ok_agg a = true.
Proof. unfold plain_agg, ok_agg. destruct (a_fn a); auto; intros H; destruct (is_plain_col _ H) as [c ->]; reflexivity. Qed.

Lemma value_eqb_eq : forall x y, value_eqb x y = true -> x = y.
Proof.
  intros [] [] H; cbn [value_eqb] in H; try discriminate; try reflexivity.
  - apply Z.eqb_eq in H. now subst.
  - apply Z.eqb_eq in H. now subst.
  - apply zlist_eqb'_eq in H. now subst.
  - apply Bool.eqb_prop in H. now subst.
Qed.
Lemma expr_eqb_eq : forall a b, expr_eqb a b = true -> a = b.
Proof.
  induction a; intros b H; destruct b; cbn [expr_eqb] in H; try discriminate.
  - apply Nat.eqb_eq in H. now subst.
  - apply value_eqb_eq in H. now subst.
  - apply andb_true_iff in H as [H H2]. apply andb_true_iff in H as [H0 H1].
    rewrite (IHa1 _ H1), (IHa2 _ H2). destruct op; destruct op0; try discriminate; reflexivity.
Qed.
Lemma expr_eqb_refl : forall e, frag e = true -> expr_eqb e e = true.
Proof.
  induction e; intros F; cbn [frag] in F; try discriminate; cbn [expr_eqb].
  - apply Nat.eqb_refl.
  - destruct v; try discriminate. cbn [value_eqb]. apply Z.eqb_refl.
  - apply andb_true_iff in F as [F1 F2]. rewrite IHe1, IHe2 by assumption. destruct op; reflexivity.
Qed.

Lemma fm_same_mfn_x : forall g a, fm_cond g a = true -> mfn_of g = mfn_of a.
Proof.
  intros [fg eg] [fa ea] N. unfold fm_cond, mfn_of, marg_of in *. cbn [a_fn a_arg] in *.
  destruct fg; destruct fa; cbn [same_fn andb] in N; try discriminate; try reflexivity;
    (destruct (plain_col eg) as [c|] eqn:Pg; destruct (plain_col ea) as [d|] eqn:Pa;
     [destruct eg; try discriminate; destruct ea; try discriminate; cbn [plain_col] in *; injection Pg as ->; injection Pa as ->; apply Nat.eqb_eq in N; now subst
     |apply expr_eqb_eq in N; now subst
     |apply expr_eqb_eq in N; now subst
     |apply expr_eqb_eq in N; now subst]).
Qed.
Lemma fm_refl_x : forall a, ok_agg a = true -> fm_cond a a = true.
Proof.
  intros [f e] Pa. unfold ok_agg, fm_cond in *. cbn [a_fn a_arg] in *.
  destruct f; cbn [same_fn andb]; try reflexivity;
    (destruct (plain_col e) as [c|] eqn:P; [apply Nat.eqb_refl|now apply expr_eqb_refl]).
Qed.
(* a plain aggregate against anything of the same name: the same executor function, unless the name is
   the bare `count` of COUNT( * ) and the other one is a COUNT over an expression *)
Lemma name_same_mfn_l : forall a b, plain_agg a = true -> name_eqb (agg_name a) (agg_name b) = true ->
  (a_fn a = FCountStar -> a_fn b = FCount -> plain_agg b = true) -> mfn_of a = mfn_of b.
Proof.
  intros [fa ea] [fb eb] Pa N Hs. unfold plain_agg, agg_name, name_eqb, mfn_of, marg_of in *. cbn [a_fn a_arg fst snd] in *.
  destruct fa; destruct fb; cbn [same_fn andb] in N; try discriminate; try reflexivity.
  1: { specialize (Hs eq_refl eq_refl). destruct (is_plain_col _ Hs) as [d ->]. cbn [plain_col] in N. discriminate. }
  all: destruct (is_plain_col _ Pa) as [c ->]; cbn [plain_col] in N; try discriminate;
       destruct eb; cbn [plain_col] in N; try discriminate; apply Nat.eqb_eq in N; now subst.
Qed.
