(* C23 proofs, part 5: ArrayView (src/records/array.rs) on arbitrary bytes (code since 5281222).
   ArrayView::new returns a view or an error for every byte string, and for every view it returns, elem_type,
   is_null and the element read the caller's dispatch selects (array_elem = sql/decoder.rs format_array: the
   getter of the stored element type) return a value or an error.  The getters themselves are still unchecked:
   the wf_* lemmas state the layout each one needs, and validate() establishes exactly that for the getter
   matching the stored type.  (Before 5281222 new() accepted any 8 bytes: findings F-C23-6, F-C23-7.) *)
From Coq Require Import ZArith List Bool Lia ZifyBool.
From TV Require Import Lib.MachInt Lib.MachIntFacts Model.Utf8 Model.StoredBytes Model.ArrayView Proof.StoredBytes.
Import ListNotations.
Open Scope Z_scope.
Ltac Zify.zify_post_hook ::= Z.to_euclidean_division_equations.
Arguments Z.div : simpl never.
Arguments Z.modulo : simpl never.
Arguments Z.mul : simpl never.
Arguments Z.add : simpl never.
Arguments Z.sub : simpl never.
Arguments Z.pow : simpl never.
Arguments Z.of_nat : simpl never.
Arguments Z.to_nat : simpl never.

(* n unchecked byte reads: inside the data they succeed with a non-negative value *)
Lemma le_at_ok d : bytes_ok d = true -> forall n p, 0 <= p -> p + Z.of_nat n <= blen d ->
  exists v, le_at d p n = Ok v /\ 0 <= v.
Proof.
  intros Hb. induction n as [|n IH]; intros p Hp Hl; cbn [le_at].
  - exists 0. split; [reflexivity | lia].
  - rewrite idx_ok by (unfold bidx_ok; lia). cbn [bind].
    destruct (IH (p + 1)) as (r & -> & Hr); [lia | lia |]. cbn [bind].
    eexists. split; [reflexivity|].
    pose proof (bytes_ok_bidx d p Hb). lia.
Qed.
Lemma le_at_voe_or_panic d : forall n p, match le_at d p n with Ok _ | Panic => True | _ => False end.
Proof.
  induction n as [|n IH]; intros p; cbn [le_at]; [exact I|].
  unfold idx. destruct (bidx_ok d p); cbn [bind]; [|exact I].
  specialize (IH (p + 1)). destruct (le_at d (p + 1) n); cbn [bind]; try contradiction; exact I.
Qed.

Lemma alen_ok d : bytes_ok d = true -> ARRAY_HEADER_SIZE <= blen d -> exists n, alen d = Ok n /\ 0 <= n.
Proof. intros Hb Hl. unfold alen, ARRAY_HEADER_SIZE in *. apply le_at_ok; [exact Hb | lia | lia]. Qed.

(* ------------------------------------------------------------------ elem_type *)
Definition array_type_bad (d : list Z) : bool := negb (dtype_code_ok (bidx d 4)).
Lemma elem_type_panic_iff_l : forall d, ARRAY_HEADER_SIZE <= blen d ->
  (elem_type d = Panic <-> array_type_bad d = true).
Proof.
  intros d Hn. unfold ARRAY_HEADER_SIZE in Hn.
  unfold elem_type, array_type_bad. rewrite idx_ok by (unfold bidx_ok; lia). cbn [bind].
  destruct (dtype_code_ok (bidx d 4)); cbn [negb]; split; congruence.
Qed.

(* ------------------------------------------------------------------ is_null *)
Lemma is_null_total_l : forall d i, bytes_ok d = true -> wf_bitmap d = true -> 0 <= i ->
  value_or_error (is_null d i).
Proof.
  intros d i Hb Hw Hi. unfold wf_bitmap in Hw. apply andb_prop in Hw. destruct Hw as [Hl Hw].
  apply Z.leb_le in Hl. destruct (alen_ok d Hb Hl) as (n & En & Hn). rewrite En in Hw. apply Z.leb_le in Hw.
  unfold is_null. rewrite En. cbn [bind].
  destruct (Z.geb_spec i n); [exact I|].
  unfold ARRAY_HEADER_SIZE, bitmap_size in *.
  rewrite idx_ok by (unfold bidx_ok; lia). cbn [bind]. exact I.
Qed.

(* ------------------------------------------------------------------ fixed-width getters *)
Lemma get_fixed_total_l : forall d w i, bytes_ok d = true -> wf_fixed d (Z.of_nat w) = true -> 0 <= i ->
  value_or_error (get_fixed d w i).
Proof.
  intros d w i Hb Hw Hi. unfold wf_fixed in Hw. apply andb_prop in Hw. destruct Hw as [Hl Hw].
  apply Z.leb_le in Hl. destruct (alen_ok d Hb Hl) as (n & En & Hn). rewrite En in Hw. apply Z.leb_le in Hw.
  unfold get_fixed. rewrite En. cbn [bind].
  destruct (Z.ltb_spec i n) as [L|G]; [|exact I].
  unfold ARRAY_HEADER_SIZE, bitmap_size in *.
  destruct (le_at_ok d Hb w (8 + (n + 7) / 8 + i * Z.of_nat w)) as (v & -> & _); [nia | nia | exact I].
Qed.
Lemma get_bool_total_l : forall d i, bytes_ok d = true -> wf_fixed d 1 = true -> 0 <= i ->
  value_or_error (get_bool d i).
Proof.
  intros d i Hb Hw Hi. unfold get_bool.
  pose proof (get_fixed_total_l d 1 i Hb Hw Hi) as H.
  destruct (get_fixed d 1 i); cbn [bind]; try contradiction; exact I.
Qed.

(* ------------------------------------------------------------------ variable-width getters *)
Lemma get_blob_total_l : forall d i, bytes_ok d = true -> wf_var d i = true -> 0 <= i ->
  value_or_error (get_blob d i) /\ value_or_error (get_text d i).
Proof.
  intros d i Hb Hw Hi.
  assert (HB : value_or_error (get_blob d i)).
  { unfold wf_var in Hw. apply andb_prop in Hw. destruct Hw as [Hl Hw].
    apply Z.leb_le in Hl. destruct (alen_ok d Hb Hl) as (n & En & Hn). rewrite En in Hw.
    destruct (total_size d) as [ts| | |] eqn:Ets; try discriminate.
    cbv zeta in Hw. apply andb_prop in Hw. destruct Hw as [Hw Hoff].
    apply andb_prop in Hw. destruct Hw as [Hds Hts]. apply Z.leb_le in Hds. apply Z.leb_le in Hts.
    destruct (read_offset d n i) as [st| | |] eqn:Est; try discriminate.
    assert (Hwb : wf_bitmap d = true).
    { unfold wf_bitmap. rewrite En. unfold ARRAY_HEADER_SIZE, bitmap_size in *. lia. }
    pose proof (is_null_total_l d i Hb Hwb Hi) as HN.
    unfold get_blob. destruct (is_null d i) as [nl| | |]; cbn [bind]; try contradiction; [|exact I].
    destruct nl; [exact I|].
    unfold get_var_bounds. rewrite En. cbn [bind].
    destruct (Z.ltb_spec i n) as [L|G]; [|exact I].
    cbv zeta. rewrite Est. cbn [bind].
    assert (Hst : 0 <= st).
    { unfold read_offset in Est. unfold ARRAY_HEADER_SIZE, bitmap_size in *.
      destruct (le_at_ok d Hb 4 (8 + (n + 7) / 8 + i * 4)) as (v & Ev & Hv); [lia | lia |].
      rewrite Ev in Est. inversion Est. subst. exact Hv. }
    destruct (i + 1 <? n).
    - destruct (read_offset d n (i + 1)) as [en| | |]; try discriminate. cbn [bind fst snd].
      apply andb_prop in Hoff. destruct Hoff as [H1 H2]. apply Z.leb_le in H1. apply Z.leb_le in H2.
      rewrite sub_ok by (apply bslice_ok_true; unfold ARRAY_HEADER_SIZE, bitmap_size in *; lia). exact I.
    - rewrite Ets. cbn [bind]. destruct (Z.ltb_spec ts (ARRAY_HEADER_SIZE + bitmap_size n + n * 4)); [lia|].
      cbn [bind fst snd].
      apply andb_prop in Hoff. destruct Hoff as [H1 H2]. apply Z.leb_le in H1. apply Z.leb_le in H2.
      rewrite sub_ok by (apply bslice_ok_true; unfold ARRAY_HEADER_SIZE, bitmap_size in *; lia). exact I. }
  split; [exact HB|]. unfold get_text.
  destruct (get_blob d i); cbn [bind]; try contradiction; try exact I. destruct (valid_utf8 a); exact I.
Qed.

(* ------------------------------------------------------------------ validate() *)
Lemma read_offset_ok d n i : bytes_ok d = true -> 0 <= n -> 0 <= i ->
  ARRAY_HEADER_SIZE + bitmap_size n + (i + 1) * 4 <= blen d -> exists st, read_offset d n i = Ok st /\ 0 <= st.
Proof.
  intros Hb Hn Hi Hl. unfold read_offset, ARRAY_HEADER_SIZE, bitmap_size in *.
  apply le_at_ok; [exact Hb | lia | lia].
Qed.

Lemma offsets_ok_voe d n room : bytes_ok d = true -> 0 <= n ->
  forall k i prev, 0 <= i -> ARRAY_HEADER_SIZE + bitmap_size n + (i + Z.of_nat k) * 4 <= blen d ->
  value_or_error (offsets_ok d n room k i prev).
Proof.
  intros Hb Hn. induction k as [|k IH]; intros i prev Hi Hl; cbn [offsets_ok]; [exact I|].
  destruct (read_offset_ok d n i Hb Hn Hi) as (st & -> & _); [lia|]. cbn [bind].
  destruct ((prev <=? st) && (st <=? room)); [|exact I]. apply IH; lia.
Qed.

Lemma offsets_ok_spec d n room : forall k i prev, offsets_ok d n room k i prev = Ok tt ->
  forall j, i <= j < i + Z.of_nat k ->
  exists st, read_offset d n j = Ok st /\ prev <= st <= room /\
             (j + 1 < i + Z.of_nat k -> exists st', read_offset d n (j + 1) = Ok st' /\ st <= st').
Proof.
  induction k as [|k IH]; intros i prev H j Hj; [lia|].
  cbn [offsets_ok] in H. destruct (read_offset d n i) as [st0| | |] eqn:E0; cbn [bind] in H; try discriminate.
  destruct (Z.leb_spec prev st0) as [P|P]; cbn [andb] in H; [|discriminate].
  destruct (Z.leb_spec st0 room) as [Q|Q]; [|discriminate].
  destruct (Z.eq_dec j i) as [->|Ne].
  - exists st0. split; [exact E0|]. split; [lia|]. intros Hnext.
    destruct (IH (i + 1) st0 H (i + 1) ltac:(lia)) as (st' & E' & B' & _). exists st'. split; [exact E' | lia].
  - destruct (IH (i + 1) st0 H j ltac:(lia)) as (st & E & B & Nx). exists st. split; [exact E|]. split; [lia|].
    intros Hnext. apply Nx. lia.
Qed.

(* what a successful new() has established *)
Lemma array_new_inv d : bytes_ok d = true -> array_new d = Ok tt ->
  ARRAY_HEADER_SIZE <= blen d /\ dtype_code_ok (bidx d 4) = true /\
  exists n, alen d = Ok n /\ 0 <= n /\
    match elem_fixed_size (bidx d 4) with
    | Some sz => ARRAY_HEADER_SIZE + bitmap_size n + n * sz <= blen d
    | None => exists total, total_size d = Ok total /\
              ARRAY_HEADER_SIZE + bitmap_size n + n * 4 <= total /\ total <= blen d /\
              offsets_ok d n (total - (ARRAY_HEADER_SIZE + bitmap_size n + n * 4)) (Z.to_nat n) 0 0 = Ok tt
    end.
Proof.
  intros Hb. unfold array_new. destruct (Z.ltb_spec (blen d) ARRAY_HEADER_SIZE) as [L|G]; [discriminate|].
  unfold array_validate. rewrite idx_ok by (unfold bidx_ok, ARRAY_HEADER_SIZE in *; lia). cbn [bind].
  destruct (dtype_code_ok (bidx d 4)) eqn:T; [|discriminate].
  destruct (alen_ok d Hb G) as (n & En & Hn). rewrite En. cbn [bind]. cbv zeta.
  intros H. split; [exact G|]. split; [reflexivity|]. exists n. split; [reflexivity|]. split; [exact Hn|].
  destruct (elem_fixed_size (bidx d 4)) as [sz|].
  - destruct (Z.leb_spec (ARRAY_HEADER_SIZE + bitmap_size n + n * sz) (blen d)); [assumption | discriminate].
  - destruct (total_size d) as [total| | |]; cbn [bind] in H; try discriminate.
    destruct (Z.leb_spec (ARRAY_HEADER_SIZE + bitmap_size n + n * 4) total) as [A|A]; cbn [andb] in H; [|discriminate].
    destruct (Z.leb_spec total (blen d)) as [B|B]; [|discriminate].
    exists total. auto.
Qed.

Lemma array_new_total_l : forall d, bytes_ok d = true -> value_or_error (array_new d).
Proof.
  intros d Hb. unfold array_new. destruct (Z.ltb_spec (blen d) ARRAY_HEADER_SIZE) as [L|G]; [exact I|].
  unfold array_validate. rewrite idx_ok by (unfold bidx_ok, ARRAY_HEADER_SIZE in *; lia). cbn [bind].
  destruct (dtype_code_ok (bidx d 4)); [|exact I].
  destruct (alen_ok d Hb G) as (n & En & Hn). rewrite En. cbn [bind]. cbv zeta.
  destruct (elem_fixed_size (bidx d 4)); [destruct (_ <=? _); exact I|].
  destruct (le_at_ok d Hb 4 0) as (total & Et & _); [lia | unfold ARRAY_HEADER_SIZE in G; lia |].
  unfold total_size. rewrite Et. cbn [bind].
  destruct (Z.leb_spec (ARRAY_HEADER_SIZE + bitmap_size n + n * 4) total) as [A|A]; cbn [andb]; [|exact I].
  destruct (Z.leb_spec total (blen d)) as [B|B]; [|exact I].
  apply offsets_ok_voe; [exact Hb | exact Hn | lia | rewrite Z2Nat.id by lia; lia].
Qed.

(* ------------------------------------------------------------------ the property, for views new() returns *)
Lemma bitmap_size_nonneg n : 0 <= n -> 0 <= bitmap_size n.
Proof. unfold bitmap_size. lia. Qed.

Lemma array_view_total_l : forall d i, bytes_ok d = true -> array_new d = Ok tt -> 0 <= i ->
  value_or_error (elem_type d) /\ value_or_error (is_null d i) /\ value_or_error (array_elem d i).
Proof.
  intros d i Hb Hnew Hi.
  destruct (array_new_inv d Hb Hnew) as (G & T & n & En & Hn & Hlay).
  pose proof (bitmap_size_nonneg n Hn) as Hbm.
  assert (ET : elem_type d = Ok (bidx d 4)).
  { unfold elem_type. rewrite idx_ok by (unfold bidx_ok, ARRAY_HEADER_SIZE in *; lia). cbn [bind]. rewrite T. reflexivity. }
  assert (WB : wf_bitmap d = true).
  { unfold wf_bitmap. rewrite En. destruct (elem_fixed_size (bidx d 4)) as [sz|] eqn:F.
    - assert (0 <= sz) by (unfold elem_fixed_size in F;
        repeat match type of F with (if ?c then _ else _) = _ => destruct c end; inversion F; lia).
      assert (0 <= n * sz) by nia. lia.
    - destruct Hlay as (total & _ & A & B & _). lia. }
  pose proof (is_null_total_l d i Hb WB Hi) as HN.
  split; [rewrite ET; exact I|]. split; [exact HN|].
  unfold array_elem. rewrite ET. cbn [bind].
  destruct (is_null d i) as [nl| | |] eqn:EN; cbn [bind]; try contradiction; [|exact I].
  destruct nl; [exact I|].
  set (t := bidx d 4) in *.
  assert (FX : forall w, elem_fixed_size t = Some (Z.of_nat w) -> value_or_error (get_fixed d w i)).
  { intros w F. apply get_fixed_total_l; [exact Hb | | exact Hi]. unfold wf_fixed. rewrite En. rewrite F in Hlay. lia. }
  assert (VAR : elem_fixed_size t = None -> value_or_error (get_blob d i) /\ value_or_error (get_text d i)).
  { intros F. rewrite F in Hlay. destruct Hlay as (total & Et & A & B & OK).
    (* the element is not null, so i < n *)
    assert (Lt : i < n).
    { unfold is_null in EN. rewrite En in EN. cbn [bind] in EN. destruct (Z.geb_spec i n); [inversion EN | assumption]. }
    destruct (offsets_ok_spec d n _ _ 0 0 OK i) as (st & Est & Bst & Nx); [rewrite Z2Nat.id by lia; lia|].
    apply get_blob_total_l; [exact Hb | | exact Hi].
    unfold wf_var. rewrite En, Et. cbv zeta. rewrite Est.
    destruct (Z.ltb_spec (i + 1) n) as [L1|G1].
    - destruct Nx as (st' & Est' & Hle); [rewrite Z2Nat.id by lia; lia|]. rewrite Est'.
      destruct (offsets_ok_spec d n _ _ 0 0 OK (i + 1)) as (st2 & E2 & B2 & _); [rewrite Z2Nat.id by lia; lia|].
      rewrite Est' in E2. inversion E2. subst st2. lia.
    - lia. }
  destruct (Z.eqb_spec t 1) as [E|_].
  { pose proof (FX 2%nat) as H. rewrite E in H. specialize (H eq_refl).
    destruct (get_fixed d 2 i); cbn [bind]; try contradiction; exact I. }
  destruct ((t =? 2) || (t =? 4)) eqn:E24.
  { assert (F : elem_fixed_size t = Some (Z.of_nat 4)) by (destruct (Z.eqb_spec t 2) as [->|]; [reflexivity|];
      destruct (Z.eqb_spec t 4) as [->|]; [reflexivity | discriminate]).
    pose proof (FX 4%nat F) as H. destruct (get_fixed d 4 i); cbn [bind]; try contradiction; exact I. }
  destruct ((t =? 3) || (t =? 5)) eqn:E35.
  { assert (F : elem_fixed_size t = Some (Z.of_nat 8)) by (destruct (Z.eqb_spec t 3) as [->|]; [reflexivity|];
      destruct (Z.eqb_spec t 5) as [->|]; [reflexivity | discriminate]).
    pose proof (FX 8%nat F) as H. destruct (get_fixed d 8 i); cbn [bind]; try contradiction; exact I. }
  destruct (Z.eqb_spec t 0) as [E|_].
  { assert (W : wf_fixed d 1 = true).
    { unfold wf_fixed. rewrite En. rewrite E in Hlay. cbn in Hlay. lia. }
    pose proof (get_bool_total_l d i Hb W Hi) as H.
    destruct (get_bool d i); cbn [bind]; try contradiction; exact I. }
  destruct ((t =? 20) || (t =? 24) || (t =? 25)) eqn:ET3.
  { assert (F : elem_fixed_size t = None) by (destruct (Z.eqb_spec t 20) as [->|]; [reflexivity|];
      destruct (Z.eqb_spec t 24) as [->|]; [reflexivity|]; destruct (Z.eqb_spec t 25) as [->|]; [reflexivity | discriminate]).
    destruct (VAR F) as (_ & H). destruct (get_text d i); cbn [bind]; try contradiction; exact I. }
  destruct (Z.eqb_spec t 21) as [E|_].
  { assert (F : elem_fixed_size t = None) by (rewrite E; reflexivity).
    destruct (VAR F) as (H & _). destruct (get_blob d i); cbn [bind]; try contradiction; exact I. }
  exact I.
Qed.

(* ------------------------------------------------------------------ the former witnesses *)
(* the small inputs on which the getters panic (they still would): new() now turns every one of them away *)
Lemma array_former_witnesses_l :
  elem_type [8;0;0;0;99;1;0;0] = Panic /\ array_new [8;0;0;0;99;1;0;0] = Err /\
  is_null [8;0;0;0;2;1;1;0] 0 = Panic /\ get_fixed [8;0;0;0;2;1;1;0] 4 0 = Panic /\ array_new [8;0;0;0;2;1;1;0] = Err /\
  get_blob [0;0;0;0;21;1;1;0;0;0;0;0;0] 0 = Panic /\ array_new [0;0;0;0;21;1;1;0;0;0;0;0;0] = Err /\
  get_blob [13;0;0;0;21;1;1;0;0;9;0;0;0] 0 = Panic /\ array_new [13;0;0;0;21;1;1;0;0;9;0;0;0] = Err /\
  array_new [12;0;0;0;2;1;1;0;0;5;0;0;0] = Ok tt /\ array_elem [12;0;0;0;2;1;1;0;0;5;0;0;0] 0 = Ok (ENum 5) /\
  array_new [15;0;0;0;21;1;1;0;0;0;0;0;0;104;105] = Ok tt /\
  array_elem [15;0;0;0;21;1;1;0;0;0;0;0;0;104;105] 0 = Ok (EBytes [104; 105]).
Proof. vm_compute. repeat split. Qed.
