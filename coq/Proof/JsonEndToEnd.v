(* C32 proofs: text -> parse_json -> to_jsonb_bytes -> JsonbView read-back, composed. *)
From Coq Require Import ZArith List Bool.
From TV Require Import Lib.MachInt Model.Jsonb Model.JsonText Model.JsonGrammar Proof.JsonbTop Proof.JsonbTryBuild Proof.JsonText.
Import ListNotations.
Open Scope Z_scope.

Lemma text_jsonb_roundtrip_l :
  forall (num_of : list Z -> res Z) d, dj_ok num_of d = true -> fits (erase d) = true ->
  exists v n, parse_json num_of (render d) = Ok (v, n) /\
              tree_of_view (S (depth v)) (encode_value v) = Ok (canon (erase d)) /\
              jequiv (erase d) (canon (erase d)).
Proof.
  intros num_of d Hok Hfit. destruct (parse_json_ok_l num_of d Hok) as [Hp _].
  exists (erase d), (blen (render d) - blen (trail d)).
  split; [exact Hp|]. split; [apply roundtrip_l; exact Hfit|apply canon_equiv_l].
Qed.

Lemma text_try_build_roundtrip_l :
  forall (num_of : list Z -> res Z) d, dj_ok num_of d = true -> typed (erase d) = true ->
  exists v n, parse_json num_of (render d) = Ok (v, n) /\ v = erase d /\
              (try_build v = Err \/
               exists b, try_build v = Ok b /\ tree_of_view (S (depth v)) b = Ok (canon v) /\ jequiv v (canon v)).
Proof.
  intros num_of d Hok Ht. destruct (parse_json_ok_l num_of d Hok) as [Hp _].
  exists (erase d), (blen (render d) - blen (trail d)). split; [exact Hp|]. split; [reflexivity|].
  destruct (fits (erase d)) eqn:Hf.
  - right. exists (encode_value (erase d)). split; [apply try_build_fits_l; exact Hf|].
    split; [apply roundtrip_l; exact Hf|apply canon_equiv_l].
  - left. apply try_build_refuses_l; assumption.
Qed.
