(* C17 - Joins return the SQL-defined rows under any memory budget.
   Property theorems only.  Spec: Model/JoinSpec.v (join_g / join_rows: the nested-loop definition of
   INNER / LEFT / RIGHT / FULL / CROSS joins over bags).  Implementation models: Model/JoinExec.v (the
   Volcano join executors of src/sql/executor.rs), Model/JoinHw.v (the hand-written two-table path of
   Database::query).  Proofs: Proof/JoinBag.v, JoinExec.v, JoinSpill.v.
   Results are compared as bags: Permutation. *)
From Coq Require Import ZArith List Bool Permutation.
From TV Require Import Model.SqlSpec Model.JoinSpec Model.JoinExec Proof.JoinBag Proof.JoinExec Proof.JoinSpill.
Import ListNotations.
Open Scope Z_scope.

(* the nested-loop executor (one pass over the left input, matched flags, unmatched right rows last)
   returns the SQL join for every condition, join type and pair of inputs *)
Theorem nested_loop_is_sql_join :
  forall (A B C : Type) (both : A -> B -> C) (lonly : A -> C) (ronly : B -> C) (jt : jtype)
         (on : A -> B -> bool) (L : list A) (R : list B),
    Permutation (nl_exec both lonly ronly jt on L R) (join_g on both lonly ronly jt L R).
Proof. exact nl_exec_spec_l. Qed.

(* one hash partition (= the streaming hash join): build table on the left rows, probe with the
   right rows, unmatched probe rows on the spot, unmatched build rows at the end: the SQL join under
   the condition "same hash and keys_match" *)
Theorem hash_partition_is_sql_join :
  forall (A B C : Type) (both : A -> B -> C) (lonly : A -> C) (ronly : B -> C) (jt : jtype)
         (hl : A -> Z) (hr : B -> Z) (km : A -> B -> bool) (build : list A) (probe : list B),
    Permutation (part_exec both lonly ronly jt hl hr km build probe)
                (join_g (hit hl hr km) both lonly ronly jt build probe).
Proof. exact part_exec_spec_l. Qed.

(* grace hash join = nested-loop join, for EVERY hash function that respects the key comparison and
   EVERY partition count (hence every memory budget that only changes the partitioning) *)
Theorem grace_eq_nested :
  forall (A B C : Type) (both : A -> B -> C) (lonly : A -> C) (ronly : B -> C) (jt : jtype)
         (hl : A -> Z) (hr : B -> Z) (km : A -> B -> bool) (n : Z),
    0 < n -> (forall l r, km l r = true -> hl l = hr r) ->
    forall (L : list A) (R : list B),
    exists out, grace_exec both lonly ronly jt hl hr km n Some Some L R = Some out /\
                Permutation out (join_g km both lonly ronly jt L R).
Proof. exact grace_exec_spec_l. Qed.

(* spilling: what PartitionSpiller hands back is what was written, for every byte budget (C33) *)
Theorem spill_transparent :
  forall budget rows, forallb srow_ok rows = true -> spill_rows budget rows = Some rows.
Proof. exact spill_rows_id_l. Qed.

(* the grace hash join executor with a spill directory emits, under ANY memory budget, exactly
   what it emits in memory *)
Theorem grace_budget_independent :
  forall jt n lk rk lw rw budget sw (L R : list hrow),
    forallb srow_ok L = true -> forallb srow_ok R = true ->
    exec_model AGraceDyn jt n (Some budget) sw lk rk lw rw L R = exec_model AGraceDyn jt n None sw lk rk lw rw L R.
Proof. exact grace_spill_transparent_l. Qed.

(* ... which is the SQL join of the two inputs under keys_match_static, for every join type, partition
   count, budget and every hash oracle that gives matching rows the same hash *)
Theorem grace_dyn_is_sql_join :
  forall jt n lk rk lw rw spill sw (L R : list hrow),
    0 < n ->
    (forall l r : hrow, keys_match_static (fst l) (fst r) lk rk = true -> snd l = snd r) ->
    (spill = None \/ (forallb srow_ok L = true /\ forallb srow_ok R = true)) ->
    exists t, exec_model AGraceDyn jt n spill sw lk rk lw rw L R = XRows t /\
              Permutation t (join_rows jt lw rw (fun l r => keys_match_static l r lk rk) (map fst L) (map fst R)).
Proof. exact grace_dyn_is_join_l. Qed.

(* bag_eqb, the comparison used by the correspondence, is multiset equality *)
Theorem bag_eqb_is_permutation : forall a b, bag_eqb a b = true <-> Permutation a b.
Proof. exact bag_eqb_iff. Qed.

(* non-vacuity: duplicate and NULL keys, a FULL join over 3 partitions with a 64-byte budget; the
   hypotheses of grace_dyn_is_sql_join hold and the result has matched, left-only and right-only rows *)
Example c17_witness :
  let L : list hrow := [([VInt 1; VInt 1], 11); ([VInt 2; VInt 1], 11); ([VInt 3; VNull], 0); ([VInt 4; VInt 5], 55)] in
  let R : list hrow := [([VInt 1; VInt 10], 11); ([VNull; VInt 20], 0); ([VInt 7; VInt 30], 77); ([VInt 1; VInt 40], 11)] in
  forallb srow_ok L = true /\ forallb srow_ok R = true /\
  forallb (fun l => forallb (fun r => implb (keys_match_static (fst l) (fst r) [1%nat] [0%nat]) (snd l =? snd r)) R) L = true /\
  match exec_model AGraceDyn JFull 3 (Some 64) false [1%nat] [0%nat] 2 2 L R with
  | XRows t => bag_eqb t (join_rows JFull 2 2 (fun l r => keys_match_static l r [1%nat] [0%nat]) (map fst L) (map fst R)) && (length t =? 8)%nat
  | _ => false
  end = true.
Proof. vm_compute. repeat split. Qed.

Check nested_loop_is_sql_join : forall (A B C : Type) (both : A -> B -> C) (lonly : A -> C) (ronly : B -> C) (jt : jtype) (on : A -> B -> bool) (L : list A) (R : list B), Permutation (nl_exec both lonly ronly jt on L R) (join_g on both lonly ronly jt L R).
Check hash_partition_is_sql_join : forall (A B C : Type) (both : A -> B -> C) (lonly : A -> C) (ronly : B -> C) (jt : jtype) (hl : A -> Z) (hr : B -> Z) (km : A -> B -> bool) (build : list A) (probe : list B), Permutation (part_exec both lonly ronly jt hl hr km build probe) (join_g (hit hl hr km) both lonly ronly jt build probe).
Check grace_eq_nested : forall (A B C : Type) (both : A -> B -> C) (lonly : A -> C) (ronly : B -> C) (jt : jtype) (hl : A -> Z) (hr : B -> Z) (km : A -> B -> bool) (n : Z), 0 < n -> (forall l r, km l r = true -> hl l = hr r) -> forall (L : list A) (R : list B), exists out, grace_exec both lonly ronly jt hl hr km n Some Some L R = Some out /\ Permutation out (join_g km both lonly ronly jt L R).
Check spill_transparent : forall budget rows, forallb srow_ok rows = true -> spill_rows budget rows = Some rows.
Check grace_budget_independent : forall jt n lk rk lw rw budget sw (L R : list hrow), forallb srow_ok L = true -> forallb srow_ok R = true -> exec_model AGraceDyn jt n (Some budget) sw lk rk lw rw L R = exec_model AGraceDyn jt n None sw lk rk lw rw L R.
Check grace_dyn_is_sql_join : forall jt n lk rk lw rw spill sw (L R : list hrow), 0 < n -> (forall l r : hrow, keys_match_static (fst l) (fst r) lk rk = true -> snd l = snd r) -> (spill = None \/ (forallb srow_ok L = true /\ forallb srow_ok R = true)) -> exists t, exec_model AGraceDyn jt n spill sw lk rk lw rw L R = XRows t /\ Permutation t (join_rows jt lw rw (fun l r => keys_match_static l r lk rk) (map fst L) (map fst R)).
Check bag_eqb_is_permutation : forall a b, bag_eqb a b = true <-> Permutation a b.

Print Assumptions nested_loop_is_sql_join.
Print Assumptions hash_partition_is_sql_join.
Print Assumptions grace_eq_nested.
Print Assumptions spill_transparent.
Print Assumptions grace_budget_independent.
Print Assumptions grace_dyn_is_sql_join.
Print Assumptions bag_eqb_is_permutation.
