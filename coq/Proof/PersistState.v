(* C04 proofs, part 4: the state reached by a history.  Outside the recorded classes an
   interruption leaves every table exactly as it was: leaf rows (with their row ids), header
   row_count, header auto_increment counter and PRIMARY KEY index. *)
From Coq Require Import ZArith List Bool Lia.
From TV Require Import Model.Persist Proof.Persist Proof.PersistSim.
Import ListNotations.
Open Scope Z_scope.

(* the state after a run (same skipping rule as `run`) *)
Fixpoint exec (ints : bool) (s : st) (h : list op) : st :=
  match h with
  | [] => s
  | o :: t => if is_int o && negb ints then exec ints s t else exec ints (fst (step s o)) t
  end.

Lemma exec_true_cons : forall s o t, exec true s (o :: t) = exec true (fst (step s o)) t.
Proof. intros. cbn [exec negb]. now rewrite andb_false_r. Qed.
Lemma exec_false_int : forall s o t, is_int o = true -> exec false s (o :: t) = exec false s t.
Proof. intros s o t H. cbn [exec negb]. now rewrite H. Qed.
Lemma exec_false_stmt : forall s o t, is_int o = false -> exec false s (o :: t) = exec false (fst (step s o)) t.
Proof. intros s o t H. cbn [exec negb]. now rewrite H. Qed.

(* the invariants of the simulation hold at the end of every history outside the classes *)
Lemma reach : forall h a b c sA sB,
  forallb op_in_lang h = true -> Lrel a sA sB -> Fresh b sA ->
  kclass (kscan a b c h (run true sA h)) = 0 ->
  Lrel (fst (fst (kscan a b c h (run true sA h)))) (exec true sA h) (exec false sB h)
  /\ Fresh (snd (fst (kscan a b c h (run true sA h)))) (exec true sA h).
Proof.
  induction h as [|o h IH]; intros a b c sA sB HL L F HK; [cbn; auto|].
  cbn [forallb] in HL. apply andb_true_iff in HL. destruct HL as [HO HL].
  rewrite run_true_cons in *. cbn [kscan] in *. rewrite exec_true_cons.
  destruct (final_zero_now _ _ _ _ _ HK) as [C1 C2].
  destruct (is_int o) eqn:HI.
  - rewrite (exec_false_int sB o h HI).
    destruct (int_step o a b sA sB HI HO L F C2) as (EO & L' & F').
    apply IH; assumption.
  - rewrite (exec_false_stmt sB o h HI).
    destruct (stmt_L o a sA sB HI L C1) as (EO & L').
    pose proof (stmt_F o b sA HI HO F) as F'.
    apply IH; assumption.
Qed.

(* the flags of all three classes are sticky, so a prefix of a class-0 history is class 0 *)
Lemma k3_step_mono : forall c o,
  (k_recreated c = true -> k_recreated (k3_step c o) = true)
  /\ (k_reopened c = true -> k_reopened (k3_step c o) = true).
Proof. intros [d r p] o. destruct o; cbn; split; intros H; try assumption; subst; auto using orb_true_l. Qed.

Lemma kscan_app : forall h1 h2 oa1 oa2 a b c,
  length oa1 = length h1 ->
  kscan a b c (h1 ++ h2) (oa1 ++ oa2)
  = kscan (fst (fst (kscan a b c h1 oa1))) (snd (fst (kscan a b c h1 oa1))) (snd (kscan a b c h1 oa1)) h2 oa2.
Proof.
  induction h1 as [|o h1 IH]; intros h2 oa1 oa2 a b c HLn.
  - destruct oa1; [reflexivity | discriminate].
  - destruct oa1 as [|x oa1]; [discriminate|]. cbn [app kscan]. apply IH. cbn in HLn. lia.
Qed.

Lemma kscan_k3_mono : forall h oa a b c,
  (k_recreated c = true -> k_recreated (snd (kscan a b c h oa)) = true)
  /\ (k_reopened c = true -> k_reopened (snd (kscan a b c h oa)) = true).
Proof.
  induction h as [|o h IH]; intros oa a b c; cbn [kscan]; [split; auto|].
  destruct oa as [|x oa]; [split; auto|].
  destruct (IH oa (k1_step a o) (k2_step b o x) (k3_step c o)) as [I1 I2].
  destruct (k3_step_mono c o) as [M1 M2]. split; auto.
Qed.

Lemma kclass_prefix : forall h1 h2 oa1 oa2 a b c,
  length oa1 = length h1 ->
  kclass (kscan a b c (h1 ++ h2) (oa1 ++ oa2)) = 0 -> kclass (kscan a b c h1 oa1) = 0.
Proof.
  intros h1 h2 oa1 oa2 a b c HLn HK. rewrite (kscan_app h1 h2 oa1 oa2 a b c HLn) in HK.
  destruct (kscan a b c h1 oa1) as [[a1 b1] c1] eqn:E1. cbn [fst snd] in HK.
  destruct (final_zero_now _ _ _ _ _ HK) as [C1 C2].
  destruct (kscan a1 b1 c1 h2 oa2) as [[a2 b2] c2] eqn:E2.
  unfold kclass in *. rewrite C1, C2.
  destruct (k_c2 b2); [discriminate|].
  destruct (k_recreated c1 && k_reopened c1) eqn:R; [|reflexivity].
  apply andb_true_iff in R. destruct R as [R1 R2].
  destruct (kscan_k3_mono h2 oa2 a1 b1 c1) as [M1 M2]. rewrite E2 in M1, M2. cbn [snd] in M1, M2.
  rewrite (M1 R1), (M2 R2) in HK. discriminate.
Qed.

Lemma run_app : forall h1 h2 s, run true s (h1 ++ h2) = run true s h1 ++ run true (exec true s h1) h2.
Proof.
  induction h1 as [|o h1 IH]; intros h2 s; [reflexivity|].
  cbn [app]. rewrite !run_true_cons, exec_true_cons. cbn [app]. now rewrite IH.
Qed.
Lemma run_true_length : forall h s, length (run true s h) = length h.
Proof. induction h as [|o h IH]; intros s; [reflexivity|]. rewrite run_true_cons. cbn. now rewrite IH. Qed.
Lemma exec_app : forall ints h1 h2 s, exec ints s (h1 ++ h2) = exec ints (exec ints s h1) h2.
Proof.
  induction h1 as [|o h1 IH]; intros h2 s; [reflexivity|].
  cbn [app exec]. destruct (is_int o && negb ints); apply IH.
Qed.

(* any interruption, at the end of any history outside the classes, changes no table *)
Lemma interruption_preserves_tables_l : forall wal h o,
  is_int o = true -> in_lang (h ++ [o]) = true ->
  known_class_of wal (h ++ [o]) (run true (init wal) (h ++ [o])) = 0 ->
  forall t, s_tab (exec true (init wal) (h ++ [o])) t = s_tab (exec true (init wal) h) t.
Proof.
  intros wal h o HI HL HK t. unfold in_lang in HL. apply andb_true_iff in HL. destruct HL as [HL _].
  unfold known_class_of in HK.
  pose proof (reach (h ++ [o]) k1_init (k2_init wal) k3_init (init wal) (init wal) HL
                    (init_Lrel wal) (init_Fresh wal) HK) as [[T1 _ _ _] _].
  assert (forallb op_in_lang h = true) as HL1 by (rewrite forallb_app in HL; apply andb_true_iff in HL; tauto).
  rewrite run_app in HK.
  pose proof (kclass_prefix h [o] _ _ _ _ _ (run_true_length h (init wal)) HK) as HK1.
  pose proof (reach h k1_init (k2_init wal) k3_init (init wal) (init wal) HL1
                    (init_Lrel wal) (init_Fresh wal) HK1) as [[T2 _ _ _] _].
  rewrite T1, T2. rewrite exec_app. cbn [exec negb]. now rewrite HI.
Qed.
