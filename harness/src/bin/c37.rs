//! C37 group commit: the REAL `GroupCommitQueue` driven by 2-3 committer threads under the
//! deterministic scheduler.  Every committer runs `commit()` below, a line-by-line copy of the
//! caller protocol of `Database::execute_small_commit` (src/database/transaction.rs) in which the
//! WAL is a vector of (batch id, thread, commit number) and a write failure can be injected.
//! The copy carries the hook sites of the original (401, 402, 403) plus two of its own: 404 between
//! `take_pending` and the WAL write (a window that exists in the original but has no hook) and
//! 406 after `fail_batch` (mirrors 306 of `complete_batch`).
//!
//!   gen    cases = (programs, schedule, everything observed) for coq/Corr/C37.v
//!   search the property's oracle only (no model), random schedules, prints FAIL lines
use std::sync::{mpsc, Arc, Mutex};
use std::time::{Duration, Instant};
use turdb::database::group_commit::{CommitPayload, GroupCommitQueue, PendingCommit};
use turdb::memory::PageBufferPool;
use turdb::verif_hooks::sched_point;
use tvh::sched::*;
use tvh::*;

const INJECTED: &str = "injected wal write failure";

#[derive(Clone, Copy, Debug, PartialEq, Eq)]
struct Op {
    empty: bool,
    /// Some(j): if this commit writes a batch, the write of payload number j fails
    wfail: Option<usize>,
}

type Log = Mutex<Vec<(u64, u32, u32)>>;

/// stand-in for `execute_group_wal_flush`: one critical section, payloads in batch order,
/// stops at the first failing write
fn wal_flush(log: &Log, batch: &[Arc<PendingCommit>], wfail: Option<usize>) -> Result<(), String> {
    let mut g = log.lock().unwrap();
    for (j, c) in batch.iter().enumerate() {
        if wfail == Some(j) {
            return Err(INJECTED.to_string());
        }
        let (t, k) = c.payload.first().map(|e| (e.0, e.1)).unwrap_or((u32::MAX, u32::MAX));
        g.push((c.batch_id, t, k));
    }
    Ok(())
}

/// the caller protocol of execute_small_commit (from the point where the payload was captured)
///
/// Built with `--cfg c37_fixed` (against a tree that has fixes/C37-take-pending-only-as-leader.diff
/// applied) it is the copy of the REPAIRED protocol instead, and the cases say so (`Case true ..`).
fn commit(q: &GroupCommitQueue, log: &Log, failed: &Mutex<Vec<u64>>, payload: CommitPayload, wfail: Option<usize>) -> Result<u64, String> {
    sched_point(401);
    // as in the code: after Ok, take_pending is called unconditionally
    #[cfg(not(c37_fixed))]
    let (batch_id, batch) = match q.submit_and_wait(payload) {
        Ok(batch_id) => {
            sched_point(402);
            (batch_id, q.take_pending())
        }
        Err(e) => return Err(format!("group commit failed: {}", e)),
    };
    // the repair: only the elected leader calls take_pending
    #[cfg(c37_fixed)]
    let (batch_id, batch) = match q.submit_and_wait_role(payload) {
        Ok((batch_id, is_leader)) => {
            sched_point(402);
            (batch_id, if is_leader { q.take_pending() } else { None })
        }
        Err(e) => return Err(format!("group commit failed: {}", e)),
    };
    if let Some(pending_commits) = batch {
        sched_point(404);
        let result = wal_flush(log, &pending_commits, wfail);
        sched_point(403);
        match &result {
            Ok(()) => q.complete_batch(&pending_commits),
            Err(e) => {
                failed.lock().unwrap().extend(pending_commits.iter().map(|c| c.batch_id));
                q.fail_batch(&pending_commits, e);
                sched_point(406);
            }
        }
        result.map_err(|e| format!("flush: {}", e))?;
    }
    Ok(batch_id)
}

#[derive(Clone, Debug, Default)]
struct Obs {
    sched: Vec<usize>,
    /// per step: outcome, statuses of all threads, pending_count, log length
    steps: Vec<(i64, Vec<i64>, usize, usize)>,
    log: Vec<(u64, u32, u32)>,
    /// per thread: (commit number, code, batch id, log length at return)
    results: Vec<Vec<(u32, i64, u64, usize)>>,
    failed: Vec<u64>,
    drained: bool,
    probe: i64,
    /// per step: which threads were parked at a site before the step (for the enumeration)
    avail: Vec<Vec<usize>>,
    /// facts for the distribution / nontrivial
    blocked_steps: usize,
    preemptions: usize,
}

fn status_code(s: TState) -> i64 {
    match s {
        TState::NotStarted => -3,
        TState::AtSite(n) => n as i64,
        TState::Running => 1,
        TState::Finished => 2,
    }
}

/// how the schedule is produced
#[derive(Clone, Copy)]
enum Plan<'a> {
    /// exactly these entries, then round robin until everybody has finished
    Fixed(&'a [usize]),
    /// default policy (stay on the current thread while it can run, else the next one in cyclic
    /// order) with forced switches: (step index, thread)
    Preempt(&'a [(usize, usize)]),
    /// random: stay with probability 1 - 1/sw, sometimes pick a thread that cannot run
    Random(u64, u64),
}

/// Blocking is detected by a time-out, so a run on a heavily loaded machine can mistake a slow
/// thread for a blocked one.  Such a run betrays itself (a "blocked" thread shows up at a site
/// although nobody has called notify_all since): it is discarded and repeated.
fn run_case(progs: &[Vec<Op>], plan: Plan) -> Obs {
    let mut last = None;
    for _ in 0..5 {
        let (o, flaky) = run_once(progs, plan);
        if !flaky { return o; }
        if std::env::var("C37_DEBUG").is_ok() { eprintln!("c37: flaky run repeated: {}", replay_line(progs, &o.sched)); }
        last = Some(o);
        std::thread::sleep(Duration::from_millis(50));
    }
    last.unwrap()
}

fn run_once(progs: &[Vec<Op>], plan: Plan) -> (Obs, bool) {
    let n = progs.len();
    let q = Arc::new(GroupCommitQueue::with_default_config());
    let pool = PageBufferPool::new(16);
    let log: Arc<Log> = Arc::new(Mutex::new(vec![]));
    let failed: Arc<Mutex<Vec<u64>>> = Arc::new(Mutex::new(vec![]));
    let results: Vec<Arc<Mutex<Vec<(u32, i64, u64, usize)>>>> = (0..n).map(|_| Arc::new(Mutex::new(vec![]))).collect();
    let s = Scheduler::new(n);
    s.install();
    let mut hs = vec![];
    for (id, prog) in progs.iter().cloned().enumerate() {
        let (q, pool, log, failed, res) = (Arc::clone(&q), pool.clone(), Arc::clone(&log), Arc::clone(&failed), Arc::clone(&results[id]));
        hs.push(s.spawn(id, move || {
            for (k0, op) in prog.iter().enumerate() {
                let k = k0 as u32 + 1;
                let mut payload = CommitPayload::new();
                if !op.empty {
                    let buf = pool.acquire().expect("pool");
                    payload.push((id as u32, k, buf, 0));
                }
                let r = commit(&q, &log, &failed, payload, op.wfail);
                let ll = log.lock().unwrap().len();
                let (code, bid) = match r {
                    Ok(b) => (0, b),
                    Err(e) if e.starts_with("flush: ") => (2, 0),
                    Err(e) if e.contains(INJECTED) => (1, 0),
                    Err(e) if e.contains("timeout") => (3, 0),
                    Err(_) => (4, 0),
                };
                res.lock().unwrap().push((k, code, bid, ll));
            }
        }));
    }
    s.wait_all_started();
    let mut o = Obs { results: vec![vec![]; n], ..Default::default() };
    let statuses = |s: &Scheduler| -> Vec<i64> { (0..n).map(|i| status_code(s.state(i))).collect() };
    let runnable = |s: &Scheduler| -> Vec<usize> { (0..n).filter(|&i| matches!(s.state(i), TState::AtSite(_))).collect() };
    let mut rng = Rng::new(match plan { Plan::Random(seed, _) => seed, _ => 0 });
    let mut cur: usize = 0;
    let mut idx = 0usize;
    let mut stuck = false;
    let mut flaky = false;
    let mut believed_blocked: Vec<usize> = vec![];
    let max_steps = 400;
    loop {
        if believed_blocked.iter().any(|&b| s.state(b) != TState::Running) { flaky = true; }
        let av = runnable(&s);
        let fixed_left = match &plan { Plan::Fixed(l) => idx < l.len(), _ => false };
        if av.is_empty() && !fixed_left {
            if s.all_finished() { break; }
            // nobody parked: either a woken thread is still on its way to a site, or deadlock
            let t0 = Instant::now();
            while runnable(&s).is_empty() && !s.all_finished() && t0.elapsed() < Duration::from_secs(3) {
                std::thread::sleep(Duration::from_micros(200));
            }
            if runnable(&s).is_empty() && !s.all_finished() { stuck = true; break; }
            continue;
        }
        if idx >= max_steps { stuck = !s.all_finished(); break; }
        // default policy choice
        let policy = if av.contains(&cur) { cur } else { (1..=n).map(|d| (cur + d) % n).find(|u| av.contains(u)).unwrap_or(cur) };
        let t = match &plan {
            Plan::Fixed(l) => if idx < l.len() { l[idx] % n } else { policy },
            Plan::Preempt(ps) => match ps.iter().find(|(p, _)| *p == idx) { Some((_, u)) => *u % n, None => policy },
            Plan::Random(_, sw) => {
                if rng.chance(1, 25) { rng.below(n as u64) as usize }
                else if rng.chance(1, *sw) || !av.contains(&cur) { *rng.pick(&av) }
                else { cur }
            }
        };
        // a preemption: switching away from a thread that is parked in the middle of a commit
        if t != cur && av.contains(&t) && matches!(s.state(cur), TState::AtSite(x) if x != 0 && x != 401) { o.preemptions += 1; }
        o.avail.push(av.clone());
        let before = s.state(t);
        let mut out = s.step(t);
        if out == StepOutcome::Blocked {
            // only the step from site 302 can block (flush_complete.wait_for); anywhere else, or if
            // the thread arrives a little later, it was merely slow
            let may_block = before == TState::AtSite(302);
            let t0 = Instant::now();
            let grace = if may_block { Duration::from_millis(90) } else { Duration::from_secs(5) };
            while t0.elapsed() < grace {
                match s.state(t) {
                    TState::AtSite(x) => { out = StepOutcome::Reached(x); break; }
                    TState::Finished => { out = StepOutcome::Finished; break; }
                    _ => std::thread::sleep(Duration::from_micros(200)),
                }
            }
        }
        let code = match out {
            StepOutcome::Reached(x) => x as i64,
            StepOutcome::Finished => 2,
            StepOutcome::Blocked => { o.blocked_steps += 1; believed_blocked.push(t); 1 }
            StepOutcome::Skipped => 3,
        };
        // a step that performed notify_all (it ends at 306 / 406) releases every waiter: each of
        // them runs on to its next site by itself
        if matches!(out, StepOutcome::Reached(306) | StepOutcome::Reached(406)) {
            let t0 = Instant::now();
            while (0..n).any(|i| s.state(i) == TState::Running) && t0.elapsed() < Duration::from_secs(5) {
                std::thread::sleep(Duration::from_micros(100));
            }
            believed_blocked.clear();
        }
        o.sched.push(t);
        o.steps.push((code, statuses(&s), q.pending_count(), log.lock().unwrap().len()));
        if matches!(out, StepOutcome::Reached(_) | StepOutcome::Finished | StepOutcome::Blocked) { cur = t; }
        idx += 1;
    }
    o.drained = !stuck;
    if stuck && std::env::var("C37_DEBUG").is_ok() {
        eprintln!("c37: stuck: {} flaky={} codes={:?} states={:?} pending={} loglen={}", replay_line(progs, &o.sched), flaky,
            o.steps.iter().map(|x| x.0).collect::<Vec<_>>(), (0..n).map(|i| s.state(i)).collect::<Vec<_>>(), q.pending_count(), log.lock().unwrap().len());
    }
    // snapshot before any 30 s timeout of a stuck waiter can change the picture
    o.log = log.lock().unwrap().clone();
    o.failed = failed.lock().unwrap().clone();
    for i in 0..n { o.results[i] = results[i].lock().unwrap().clone(); }
    o.probe = 2;
    if !stuck {
        for h in hs { let _ = h.join(); }
        Scheduler::uninstall();
        // probe: is the queue still usable (flush flag not left set)?  A fresh committer must be
        // elected at once.
        let (tx, rx) = mpsc::channel();
        let (q2, pool2) = (Arc::clone(&q), pool.clone());
        std::thread::spawn(move || {
            let mut payload = CommitPayload::new();
            payload.push((99, 99, pool2.acquire().expect("pool"), 0));
            let r = q2.submit_and_wait(payload);
            if r.is_ok() {
                if let Some(b) = q2.take_pending() { q2.complete_batch(&b); }
            }
            let _ = tx.send(r.is_ok());
        });
        o.probe = match rx.recv_timeout(Duration::from_secs(10)) { Ok(true) => 1, Ok(false) => 0, Err(_) => 0 };
    } else {
        // let the blocked waiters run into their 30 s timeout so that the threads can be joined
        let t0 = Instant::now();
        while !s.all_finished() && t0.elapsed() < Duration::from_secs(40) {
            for i in 0..n { let _ = s.step(i); }
            std::thread::sleep(Duration::from_millis(50));
        }
        for h in hs { let _ = h.join(); }
        Scheduler::uninstall();
    }
    (o, flaky)
}

// ---------------------------------------------------------------- the property's oracle
/// None = satisfied; Some(why)
fn oracle(o: &Obs) -> Option<&'static str> {
    // at most once
    for (i, e) in o.log.iter().enumerate() {
        if o.log[..i].iter().any(|f| f.0 == e.0) { return Some("written_twice"); }
    }
    // written (with the submitter's own payload) before the submitter is told Ok
    for (t, rs) in o.results.iter().enumerate() {
        for &(k, code, bid, ll) in rs {
            if code == 0 && bid != 0 {
                let ok = o.log.iter().take(ll).any(|e| e.0 == bid && e.1 == t as u32 && e.2 == k);
                if !ok { return Some("ack_before_write"); }
            }
            if code == 0 && bid != 0 && o.failed.contains(&bid) { return Some("failure_not_reported"); }
            if code == 3 { return Some("timeout"); }
        }
    }
    if !o.drained { return Some("stuck_waiter"); }
    if o.probe != 1 { return Some("stuck_flag"); }
    None
}

// ---------------------------------------------------------------- printing / parsing
fn op_str(op: &Op) -> String {
    format!("{}{}", if op.empty { "E" } else { "C" }, match op.wfail { Some(j) => format!("!{}", j), None => String::new() })
}
fn replay_line(progs: &[Vec<Op>], sched: &[usize]) -> String {
    let mut s = format!("n={}", progs.len());
    for (i, p) in progs.iter().enumerate() {
        s.push_str(&format!(" p{}={}", i, p.iter().map(op_str).collect::<Vec<_>>().join(",")));
    }
    s.push_str(&format!(" sched={}", sched.iter().map(|t| t.to_string()).collect::<Vec<_>>().join(",")));
    s
}
fn parse_line(l: &str) -> Option<(Vec<Vec<Op>>, Vec<usize>)> {
    let mut progs: Vec<Vec<Op>> = vec![];
    let mut sched = vec![];
    for tok in l.split_whitespace() {
        if let Some(r) = tok.strip_prefix("sched=") {
            sched = r.split(',').filter(|x| !x.is_empty()).filter_map(|x| x.parse().ok()).collect();
        } else if tok.starts_with('p') && tok.contains('=') {
            let r = tok.splitn(2, '=').nth(1).unwrap_or("");
            let mut p = vec![];
            for o in r.split(',').filter(|x| !x.is_empty()) {
                let empty = o.starts_with('E');
                let wfail = o.find('!').and_then(|i| o[i + 1..].parse().ok());
                p.push(Op { empty, wfail });
            }
            progs.push(p);
        }
    }
    if progs.is_empty() || progs.iter().any(|p| p.is_empty()) { None } else { Some((progs, sched)) }
}
fn st4(x: i64) -> u64 {
    match x { 0 => 0, 1 => 1, 2 => 2, 3 => 3, 301 => 4, 302 => 5, 304 => 6, 305 => 7, 306 => 8, 401 => 9, 402 => 10, 403 => 11, 404 => 12, 406 => 13, _ => 15 }
}
/// compact encodings, see coq/Corr/C37.v
fn case_term(progs: &[Vec<Op>], o: &Obs) -> String {
    let ps: Vec<String> = progs.iter().map(|p| clist(&p.iter().map(|op| ((op.empty as u64) + 2 * op.wfail.map(|j| j as u64 + 1).unwrap_or(0)).to_string()).collect::<Vec<_>>())).collect();
    let steps: Vec<String> = o.sched.iter().zip(o.steps.iter()).map(|(t, (c, st, p, l))| {
        let mut acc: u64 = 0;
        for x in st.iter().rev() { acc = st4(*x) + 16 * acc; }
        (*t as u64 + 4 * (st4(*c) + 16 * ((*p).min(15) as u64 + 16 * ((*l).min(15) as u64 + 16 * acc)))).to_string()
    }).collect();
    let log: Vec<String> = o.log.iter().map(|e| (e.0 + 64 * (e.1 as u64 + 8 * e.2 as u64)).to_string()).collect();
    let res: Vec<String> = o.results.iter().map(|rs| clist(&rs.iter().map(|r| (r.0 as u64 + 8 * (r.1 as u64 + 8 * (r.2 + 64 * r.3 as u64))).to_string()).collect::<Vec<_>>())).collect();
    let failed: Vec<String> = o.failed.iter().map(|x| x.to_string()).collect();
    format!("Case {} {} {} {} {} {} {} {}", cbool(cfg!(c37_fixed)), clist(&ps), clist(&steps), clist(&log), clist(&res), clist(&failed), cbool(o.drained), o.probe)
}

fn kind_of(base: &str, o: &Obs) -> String {
    match oracle(o) { Some(w) => format!("{}:{}", base, w), None => base.to_string() }
}
fn nontrivial(o: &Obs) -> bool {
    // at least one switch between two threads that are both in the middle of a commit
    o.preemptions > 0 || o.blocked_steps > 0
}

// ---------------------------------------------------------------- program sets
fn c() -> Op { Op { empty: false, wfail: None } }
fn e() -> Op { Op { empty: true, wfail: None } }
fn cf(j: usize) -> Op { Op { empty: false, wfail: Some(j) } }
fn ef(j: usize) -> Op { Op { empty: true, wfail: Some(j) } }

fn enum_sets(thorough: bool) -> Vec<(Vec<Vec<Op>>, usize)> {
    // (programs, preemption bound)
    if !thorough {
        vec![
            (vec![vec![c()], vec![c()]], 2),
            (vec![vec![c()], vec![e()]], 2),
            (vec![vec![c(), c()], vec![c()]], 2),
            (vec![vec![cf(0)], vec![c()]], 2),
            (vec![vec![c()], vec![c()], vec![c()]], 1),
        ]
    } else {
        vec![
            (vec![vec![c()], vec![c()]], 3),
            (vec![vec![c()], vec![e()]], 3),
            (vec![vec![c(), c()], vec![c()]], 3),
            (vec![vec![c(), c()], vec![c(), c()]], 2),
            (vec![vec![c(), e()], vec![c()]], 2),
            (vec![vec![cf(0)], vec![c()]], 3),
            (vec![vec![cf(1)], vec![c()]], 2),
            (vec![vec![c(), c()], vec![cf(0)]], 2),
            (vec![vec![c(), cf(1)], vec![c()]], 2),
            (vec![vec![ef(0)], vec![c(), c()]], 2),
            (vec![vec![c()], vec![c()], vec![c()]], 2),
            (vec![vec![c(), c()], vec![c()], vec![cf(0)]], 1),
        ]
    }
}

fn random_progs(rng: &mut Rng) -> Vec<Vec<Op>> {
    let n = if rng.chance(1, 2) { 2 } else { 3 };
    (0..n).map(|_| {
        let len = 1 + rng.below(if n == 2 { 3 } else { 2 }) as usize;
        (0..len).map(|_| Op { empty: rng.chance(1, 10), wfail: if rng.chance(1, 6) { Some(rng.below(3) as usize) } else { None } }).collect()
    }).collect()
}

fn main() {
    let a = Args::parse();
    match a.mode.as_str() {
        "gen" => gen(&a),
        "search" => search(&a),
        "worker" => worker(&a),
        _ => { eprintln!("c37: unknown mode"); std::process::exit(2); }
    }
}

/// One unit of work of a generation run (executed in a worker process: the scheduler hook is
/// process-global, so parallelism needs processes).
#[derive(Clone, Debug)]
enum Task {
    /// every schedule of program set `set` with at most `bound` preemptions of the default policy
    /// whose FIRST preemption index is congruent to `res` modulo `modulus` (the schedule without
    /// preemption belongs to residue 0)
    Enum { set: usize, bound: usize, modulus: usize, res: usize },
    Random { seed: u64, count: usize },
}
impl Task {
    fn to_args(&self) -> Vec<String> {
        match self {
            Task::Enum { set, bound, modulus, res } => vec!["enum".into(), set.to_string(), bound.to_string(), modulus.to_string(), res.to_string()],
            Task::Random { seed, count } => vec!["random".into(), seed.to_string(), count.to_string()],
        }
    }
    fn from_args(r: &[String]) -> Option<Task> {
        let n = |i: usize| -> Option<u64> { r.get(i).and_then(|x| x.parse().ok()) };
        match r.first().map(|x| x.as_str()) {
            Some("enum") => Some(Task::Enum { set: n(1)? as usize, bound: n(2)? as usize, modulus: n(3)? as usize, res: n(4)? as usize }),
            Some("random") => Some(Task::Random { seed: n(1)?, count: n(2)? as usize }),
            _ => None,
        }
    }
}

struct Row { kind: String, nontrivial: bool, blocked: usize, replay: String, term: String }

fn run_task(task: &Task, thorough: bool) -> Vec<Row> {
    let mut rows = vec![];
    let mut add = |progs: &[Vec<Op>], o: &Obs, base: &str| {
        rows.push(Row { kind: kind_of(base, o), nontrivial: nontrivial(o), blocked: o.blocked_steps, replay: replay_line(progs, &o.sched), term: case_term(progs, o) });
    };
    match task {
        Task::Enum { set, bound, modulus, res } => {
            let (progs, _) = enum_sets(thorough)[*set].clone();
            let mut stack: Vec<Vec<(usize, usize)>> = vec![vec![]];
            while let Some(d) = stack.pop() {
                let o = run_case(&progs, Plan::Preempt(&d));
                if d.len() < *bound {
                    let from = d.last().map(|x| x.0 + 1).unwrap_or(0);
                    for i in from..o.sched.len() {
                        if d.is_empty() && i % modulus != *res { continue; }
                        for &u in &o.avail[i] {
                            if u != o.sched[i] {
                                let mut d2 = d.clone();
                                d2.push((i, u));
                                stack.push(d2);
                            }
                        }
                    }
                }
                if !d.is_empty() || *res == 0 { add(&progs, &o, &format!("enum{}t", progs.len())); }
            }
        }
        Task::Random { seed, count } => {
            let mut rng = Rng::new(*seed);
            for i in 0..*count {
                let progs = random_progs(&mut rng);
                let o = run_case(&progs, Plan::Random(rng.next(), 2 + (i % 4) as u64));
                add(&progs, &o, &format!("random{}t", progs.len()));
            }
        }
    }
    rows
}

fn worker(a: &Args) {
    let task = Task::from_args(&a.rest).expect("worker task");
    let rows = run_task(&task, a.thorough());
    let mut s = String::new();
    for r in rows {
        s.push_str(&format!("{}\t{}\t{}\t{}\t{}\n", r.kind, if r.nontrivial { 1 } else { 0 }, r.blocked, r.replay, r.term));
    }
    std::fs::write(&a.out, s).expect("worker output");
}

fn gen(a: &Args) {
    let mut w = CaseWriter::new(&a.out, "C37", "Corr.C37", 400);
    if let Some(lines) = a.replay_lines() {
        for l in lines {
            if let Some((progs, sched)) = parse_line(&l) {
                let o = run_case(&progs, Plan::Fixed(&sched));
                w.push(case_term(&progs, &o), replay_line(&progs, &o.sched), nontrivial(&o), &kind_of("replay", &o));
            }
        }
        w.finish(&[]);
        return;
    }
    let t_start = Instant::now();
    // ---- task list
    let mut tasks: Vec<Task> = vec![];
    for (set, (_, bound)) in enum_sets(a.thorough()).iter().enumerate() {
        let modulus = if *bound >= 3 { 8 } else if *bound == 2 { 4 } else { 1 };
        for res in 0..modulus { tasks.push(Task::Enum { set, bound: *bound, modulus, res }); }
    }
    let mut rng = Rng::new(a.seed);
    let (chunks, per) = if a.thorough() { (32, 150) } else { (8, 40) };
    for _ in 0..chunks { tasks.push(Task::Random { seed: rng.next(), count: per }); }
    // ---- run them in worker processes
    let exe = std::env::current_exe().expect("current_exe");
    let jobs: usize = std::env::var("C37_JOBS").ok().and_then(|x| x.parse().ok()).unwrap_or(12);
    let tmp = a.out.join("work");
    std::fs::create_dir_all(&tmp).expect("work dir");
    let mut running: Vec<(usize, std::process::Child, Instant, u32)> = vec![];
    let mut queue: std::collections::VecDeque<(usize, u32)> = (0..tasks.len()).map(|i| (i, 0u32)).collect();
    let mut failed_tasks = 0usize;
    let mut retried = 0usize;
    let task_limit = Duration::from_secs(if a.thorough() { 900 } else { 240 });
    while !queue.is_empty() || !running.is_empty() {
        while !queue.is_empty() && running.len() < jobs {
            let (ti, attempt) = queue.pop_front().unwrap();
            let out = tmp.join(format!("t{:04}.tsv", ti));
            let child = std::process::Command::new(&exe).arg("worker").arg("--tier").arg(&a.tier).arg("--out").arg(&out)
                .args(tasks[ti].to_args()).spawn().expect("spawn worker");
            running.push((ti, child, Instant::now(), attempt));
        }
        let mut i = 0;
        let mut progressed = false;
        while i < running.len() {
            let over = running[i].2.elapsed() > task_limit;
            match running[i].1.try_wait() {
                Ok(Some(st)) => {
                    let (ti, _, _, attempt) = running.remove(i);
                    if !st.success() { if attempt == 0 { queue.push_back((ti, 1)); retried += 1; } else { failed_tasks += 1; } }
                    progressed = true;
                }
                _ if over => {
                    // a worker that hangs (it should take seconds) is killed and its task repeated once
                    let (ti, mut ch, _, attempt) = running.remove(i);
                    let _ = ch.kill();
                    let _ = ch.wait();
                    eprintln!("c37: worker for task {:?} exceeded its time limit", tasks[ti]);
                    if attempt == 0 { queue.push_back((ti, 1)); retried += 1; } else { failed_tasks += 1; }
                    progressed = true;
                }
                _ => i += 1,
            }
        }
        if !progressed { std::thread::sleep(Duration::from_millis(20)); }
    }
    if failed_tasks > 0 { eprintln!("c37: {} worker(s) failed", failed_tasks); std::process::exit(3); }
    // ---- collect in task order
    let mut blocked_total = 0usize;
    for i in 0..tasks.len() {
        let txt = std::fs::read_to_string(tmp.join(format!("t{:04}.tsv", i))).unwrap_or_default();
        for l in txt.lines() {
            let f: Vec<&str> = l.splitn(5, '\t').collect();
            if f.len() != 5 { continue; }
            blocked_total += f[2].parse::<usize>().unwrap_or(0);
            w.push(f[4].to_string(), f[3].to_string(), f[1] == "1", f[0]);
        }
    }
    let _ = std::fs::remove_dir_all(&tmp);
    let wall = t_start.elapsed().as_secs_f64();
    w.finish(&[("blocked_steps".into(), blocked_total.to_string()), ("harness_wall_s".into(), format!("{:.1}", wall)), ("worker_tasks".into(), tasks.len().to_string()), ("worker_tasks_repeated".into(), retried.to_string())]);
}

/// Oracle only: random programs and schedules on the implementation.
fn search(a: &Args) {
    let mut rng = Rng::new(a.seed ^ 0xC37C37);
    let mut fails: Vec<String> = vec![];
    let mut tried = 0u64;
    let t0 = Instant::now();
    let budget = a.budget.min(20_000);
    while tried < budget && t0.elapsed() < Duration::from_secs(600) && fails.len() < 20 {
        let progs = random_progs(&mut rng);
        let o = run_case(&progs, Plan::Random(rng.next(), 2 + tried % 4));
        tried += 1;
        if let Some(why) = oracle(&o) {
            fails.push(format!("{} why={}", replay_line(&progs, &o.sched), why));
        }
    }
    let mut s = String::new();
    for f in &fails { s.push_str(&format!("FAIL {}\n", f)); }
    s.push_str(&format!("tried={}\n", tried));
    std::fs::write(&a.out, s).expect("write search output");
}
