//! C31 row records: RecordBuilder / RecordView / OwnedValue::{build_record_into_buffer,
//! extract_row_from_record} on generated schemas and rows.
//!
//! replay lines:
//!   row s=<type codes,..> h=<row>|<row>.. r=<row>      (row = value tokens separated by ','; h=- for no history)
//!   view s=<type codes,..> d=<bytes>
//! value tokens: N | b0 b1 | i<dec> | f<hex u64> | t<bytes> | l<bytes> | v<hex u32>.<hex u32>.. |
//!   d<dec> m<dec> s<dec> z<dec>:<dec> | u<bytes> a<bytes> 4<bytes> 6<bytes> | I<dec>:<dec>:<dec> |
//!   p<hex>:<hex> x<hex>:<hex>:<hex>:<hex> c<hex>:<hex>:<hex> | j<bytes> | D<dec>:<dec> | e<dec>:<dec> | P<bytes>
//! bytes: segments joined by '+', each hex digits or r<count>x<hh> (run of one byte).
use std::panic::AssertUnwindSafe;
use turdb::records::types::ColumnDef as RCol;
use turdb::records::{RecordBuilder, RecordView, Schema};
use turdb::schema::ColumnDef as SCol;
use turdb::types::{DataType, OwnedValue};
use tvh::*;

// ---------------------------------------------------------------- types
const CODES: [u8; 32] = [0, 1, 2, 3, 4, 5, 6, 7, 8, 9, 10, 11, 12, 13, 20, 21, 22, 23, 24, 25, 30, 31, 40, 41, 42, 43, 50, 60, 61, 62, 70, 71];

fn dt(code: u8) -> DataType {
    DataType::try_from(code).unwrap_or(DataType::Int8)
}
fn coq_type(code: u8) -> &'static str {
    match code {
        0 => "TBool", 1 => "TInt2", 2 => "TInt4", 3 => "TInt8", 4 => "TFloat4", 5 => "TFloat8", 6 => "TDate",
        7 => "TTime", 8 => "TTimestamp", 9 => "TTimestampTz", 10 => "TUuid", 11 => "TMacAddr", 12 => "TInet4",
        13 => "TInet6", 20 => "TText", 21 => "TBlob", 22 => "TVector", 23 => "TJsonb", 24 => "TVarchar",
        25 => "TChar", 30 => "TDecimal", 31 => "TInterval", 40 => "TInt4Range", 41 => "TInt8Range",
        42 => "TDateRange", 43 => "TTimestampRange", 50 => "TEnum", 60 => "TPoint", 61 => "TBox",
        62 => "TCircle", 70 => "TComposite", 71 => "TArray", _ => "TInt8",
    }
}
fn fixed_size(code: u8) -> Option<usize> { dt(code).fixed_size() }
fn is_range(code: u8) -> bool { (40..=43).contains(&code) }

// ---------------------------------------------------------------- byte strings (run-length aware)
fn runs(b: &[u8]) -> Vec<(usize, usize)> {
    // maximal segments: (start, len) alternating literal stretches and runs >= 24 of one byte
    let mut out = vec![];
    let mut i = 0;
    let mut lit_start = 0;
    while i < b.len() {
        let mut j = i;
        while j < b.len() && b[j] == b[i] { j += 1; }
        if j - i >= 24 {
            if lit_start < i { out.push((lit_start, i - lit_start)); }
            out.push((i, j - i));
            lit_start = j;
        }
        i = j;
    }
    if lit_start < b.len() { out.push((lit_start, b.len() - lit_start)); }
    out
}
fn is_run(b: &[u8], s: usize, n: usize) -> bool { n >= 24 && b[s..s + n].iter().all(|x| *x == b[s]) }

fn coq_bytes(b: &[u8]) -> String {
    if b.len() < 24 { return cbytes(b); }
    let segs = runs(b);
    let mut parts = vec![];
    for (s, n) in segs {
        if is_run(b, s, n) { parts.push(format!("R {} {}", n, b[s])); } else { parts.push(cbytes(&b[s..s + n])); }
    }
    if parts.len() == 1 { format!("({})", parts[0]) } else { format!("({})", parts.join(" ++ ")) }
}
fn enc_bytes(b: &[u8]) -> String {
    let mut parts = vec![];
    for (s, n) in runs(b) {
        if is_run(b, s, n) { parts.push(format!("r{}x{:02x}", n, b[s])); } else { parts.push(hex(&b[s..s + n])); }
    }
    parts.join("+")
}
fn dec_bytes(s: &str) -> Vec<u8> {
    let mut out = vec![];
    for seg in s.split('+') {
        if let Some(r) = seg.strip_prefix('r') {
            let mut it = r.split('x');
            let n: usize = it.next().unwrap_or("0").parse().unwrap_or(0);
            let x = u8::from_str_radix(it.next().unwrap_or("00"), 16).unwrap_or(0);
            out.extend(std::iter::repeat(x).take(n.min(1 << 20)));
        } else {
            out.extend(unhex(seg));
        }
    }
    out
}

// ---------------------------------------------------------------- values
fn coq_value(v: &OwnedValue) -> String {
    match v {
        OwnedValue::Null => "VNull".into(),
        OwnedValue::Bool(b) => format!("(VBool {})", cbool(*b)),
        OwnedValue::Int(i) => format!("(VInt {})", z(*i)),
        OwnedValue::Float(f) => format!("(VFloat {})", f.to_bits()),
        OwnedValue::Text(s) => format!("(VText {})", coq_bytes(s.as_bytes())),
        OwnedValue::Blob(b) => format!("(VBlob {})", coq_bytes(b)),
        OwnedValue::Vector(fs) => format!("(VVector {})", clist(&fs.iter().map(|f| f.to_bits().to_string()).collect::<Vec<_>>())),
        OwnedValue::Date(d) => format!("(VDate {})", z(*d)),
        OwnedValue::Time(t) => format!("(VTime {})", z(*t)),
        OwnedValue::Timestamp(t) => format!("(VTimestamp {})", z(*t)),
        OwnedValue::TimestampTz(t, o) => format!("(VTimestampTz {} {})", z(*t), z(*o)),
        OwnedValue::Uuid(b) => format!("(VUuid {})", cbytes(b)),
        OwnedValue::MacAddr(b) => format!("(VMacAddr {})", cbytes(b)),
        OwnedValue::Inet4(b) => format!("(VInet4 {})", cbytes(b)),
        OwnedValue::Inet6(b) => format!("(VInet6 {})", cbytes(b)),
        OwnedValue::Interval(a, b, c) => format!("(VInterval {} {} {})", z(*a), z(*b), z(*c)),
        OwnedValue::Point(x, y) => format!("(VPoint {} {})", x.to_bits(), y.to_bits()),
        OwnedValue::Box(a, b) => format!("(VBox {} {} {} {})", a.0.to_bits(), a.1.to_bits(), b.0.to_bits(), b.1.to_bits()),
        OwnedValue::Circle(c, r) => format!("(VCircle {} {} {})", c.0.to_bits(), c.1.to_bits(), r.to_bits()),
        OwnedValue::Jsonb(b) => format!("(VJsonb {})", coq_bytes(b)),
        OwnedValue::Decimal(d, s) => format!("(VDecimal {} {})", z(*d), z(*s)),
        OwnedValue::Enum(a, b) => format!("(VEnum {} {})", a, b),
        OwnedValue::ToastPointer(b) => format!("(VToast {})", coq_bytes(b)),
    }
}
fn coq_row(r: &[OwnedValue]) -> String { clist(&r.iter().map(coq_value).collect::<Vec<_>>()) }

fn enc_value(v: &OwnedValue) -> String {
    match v {
        OwnedValue::Null => "N".into(),
        OwnedValue::Bool(b) => format!("b{}", *b as u8),
        OwnedValue::Int(i) => format!("i{}", i),
        OwnedValue::Float(f) => format!("f{:x}", f.to_bits()),
        OwnedValue::Text(s) => format!("t{}", enc_bytes(s.as_bytes())),
        OwnedValue::Blob(b) => format!("l{}", enc_bytes(b)),
        OwnedValue::Vector(fs) => format!("v{}", fs.iter().map(|f| format!("{:x}", f.to_bits())).collect::<Vec<_>>().join(".")),
        OwnedValue::Date(d) => format!("d{}", d),
        OwnedValue::Time(t) => format!("m{}", t),
        OwnedValue::Timestamp(t) => format!("s{}", t),
        OwnedValue::TimestampTz(t, o) => format!("z{}:{}", t, o),
        OwnedValue::Uuid(b) => format!("u{}", hex(b)),
        OwnedValue::MacAddr(b) => format!("a{}", hex(b)),
        OwnedValue::Inet4(b) => format!("4{}", hex(b)),
        OwnedValue::Inet6(b) => format!("6{}", hex(b)),
        OwnedValue::Interval(a, b, c) => format!("I{}:{}:{}", a, b, c),
        OwnedValue::Point(x, y) => format!("p{:x}:{:x}", x.to_bits(), y.to_bits()),
        OwnedValue::Box(a, b) => format!("x{:x}:{:x}:{:x}:{:x}", a.0.to_bits(), a.1.to_bits(), b.0.to_bits(), b.1.to_bits()),
        OwnedValue::Circle(c, r) => format!("c{:x}:{:x}:{:x}", c.0.to_bits(), c.1.to_bits(), r.to_bits()),
        OwnedValue::Jsonb(b) => format!("j{}", enc_bytes(b)),
        OwnedValue::Decimal(d, s) => format!("D{}:{}", d, s),
        OwnedValue::Enum(a, b) => format!("e{}:{}", a, b),
        OwnedValue::ToastPointer(b) => format!("P{}", enc_bytes(b)),
    }
}
fn enc_row(r: &[OwnedValue]) -> String { r.iter().map(enc_value).collect::<Vec<_>>().join(",") }
fn enc_hist(h: &[Vec<OwnedValue>]) -> String { if h.is_empty() { "-".into() } else { h.iter().map(|r| enc_row(r)).collect::<Vec<_>>().join("|") } }

fn fx(s: &str) -> f64 { f64::from_bits(u64::from_str_radix(s, 16).unwrap_or(0)) }
fn arr<const N: usize>(b: Vec<u8>) -> [u8; N] {
    let mut a = [0u8; N];
    for (i, x) in b.iter().take(N).enumerate() { a[i] = *x; }
    a
}
fn dec_value(tok: &str) -> OwnedValue {
    if tok.is_empty() { return OwnedValue::Null; }
    let (k, r) = tok.split_at(1);
    let parts: Vec<&str> = r.split(':').collect();
    let p = |i: usize| -> &str { parts.get(i).copied().unwrap_or("0") };
    match k {
        "N" => OwnedValue::Null,
        "b" => OwnedValue::Bool(r == "1"),
        "i" => OwnedValue::Int(r.parse().unwrap_or(0)),
        "f" => OwnedValue::Float(fx(r)),
        "t" => OwnedValue::Text(String::from_utf8_lossy(&dec_bytes(r)).to_string()),
        "l" => OwnedValue::Blob(dec_bytes(r)),
        "v" => OwnedValue::Vector(if r.is_empty() { vec![] } else { r.split('.').map(|h| f32::from_bits(u32::from_str_radix(h, 16).unwrap_or(0))).collect() }),
        "d" => OwnedValue::Date(r.parse().unwrap_or(0)),
        "m" => OwnedValue::Time(r.parse().unwrap_or(0)),
        "s" => OwnedValue::Timestamp(r.parse().unwrap_or(0)),
        "z" => OwnedValue::TimestampTz(p(0).parse().unwrap_or(0), p(1).parse().unwrap_or(0)),
        "u" => OwnedValue::Uuid(arr::<16>(unhex(r))),
        "a" => OwnedValue::MacAddr(arr::<6>(unhex(r))),
        "4" => OwnedValue::Inet4(arr::<4>(unhex(r))),
        "6" => OwnedValue::Inet6(arr::<16>(unhex(r))),
        "I" => OwnedValue::Interval(p(0).parse().unwrap_or(0), p(1).parse().unwrap_or(0), p(2).parse().unwrap_or(0)),
        "p" => OwnedValue::Point(fx(p(0)), fx(p(1))),
        "x" => OwnedValue::Box((fx(p(0)), fx(p(1))), (fx(p(2)), fx(p(3)))),
        "c" => OwnedValue::Circle((fx(p(0)), fx(p(1))), fx(p(2))),
        "j" => OwnedValue::Jsonb(dec_bytes(r)),
        "D" => OwnedValue::Decimal(p(0).parse().unwrap_or(0), p(1).parse().unwrap_or(0)),
        "e" => OwnedValue::Enum(p(0).parse().unwrap_or(0), p(1).parse().unwrap_or(0)),
        "P" => OwnedValue::ToastPointer(dec_bytes(r)),
        _ => OwnedValue::Null,
    }
}
fn dec_row(s: &str) -> Vec<OwnedValue> {
    if s.is_empty() { return vec![]; }
    s.split(',').map(dec_value).collect()
}
fn dec_types(s: &str) -> Vec<u8> {
    if s.is_empty() { return vec![]; }
    s.split(',').map(|x| x.parse().unwrap_or(3)).collect()
}
fn enc_types(t: &[u8]) -> String { t.iter().map(|c| c.to_string()).collect::<Vec<_>>().join(",") }
fn coq_types(t: &[u8]) -> String { clist(&t.iter().map(|c| coq_type(*c).to_string()).collect::<Vec<_>>()) }

// ---------------------------------------------------------------- running the implementation
#[derive(Clone, PartialEq)]
enum BOut { Bytes(Vec<u8>), Err, Panic }
#[derive(Clone, PartialEq)]
enum XOut { Row(Vec<OwnedValue>), Err, Panic, None }

/// Corr.C31.bhash
fn bhash(b: &[u8]) -> u64 {
    let mut acc: u128 = 0;
    for x in b { acc = (acc * 1_000_003 + *x as u128 + 1) & 2_305_843_009_213_693_951u128; }
    acc as u64
}
fn coq_bout(b: &BOut) -> String {
    match b { BOut::Bytes(v) => format!("(BHash {} {})", v.len(), bhash(v)), BOut::Err => "BErrO".into(), BOut::Panic => "BPanicO".into() }
}
/// `same_as`: the row that was built (None for view cases)
fn coq_xout(x: &XOut, same_as: Option<&[OwnedValue]>) -> String {
    match x {
        XOut::Row(r) => if same_as.map(|s| same_row(r, s)).unwrap_or(false) { "XSame".into() } else { format!("(XRow {})", coq_row(r)) },
        XOut::Err => "XErr".into(), XOut::Panic => "XPanic".into(), XOut::None => "XNone".into(),
    }
}

fn mk_schema(types: &[u8]) -> (Schema, Vec<SCol>) {
    let schema = Schema::new(types.iter().enumerate().map(|(i, t)| RCol::new(format!("c{}", i), dt(*t))).collect());
    let cols: Vec<SCol> = types.iter().enumerate().map(|(i, t)| SCol::new(format!("c{}", i), dt(*t))).collect();
    (schema, cols)
}

/// a new RecordBuilder, one build_record_into_buffer
fn build_fresh(schema: &Schema, row: &[OwnedValue]) -> BOut {
    let r = catch(AssertUnwindSafe(|| {
        let mut b = RecordBuilder::new(schema);
        let mut buf = vec![0xAAu8; 7];
        OwnedValue::build_record_into_buffer(row, &mut b, &mut buf).map(|_| buf)
    }));
    match r { Caught::Done(Ok(v)) => BOut::Bytes(v), Caught::Done(Err(_)) => BOut::Err, Caught::Panicked(_) => BOut::Panic }
}

/// one builder that first builds every row of `hist`, then `row`.  A history row that panics
/// poisons the builder: it is replaced by a new one and the history restarts (returned).
fn build_reused(schema: &Schema, hist: &[Vec<OwnedValue>], row: &[OwnedValue]) -> (Vec<Vec<OwnedValue>>, BOut) {
    let mut b = RecordBuilder::new(schema);
    let mut buf: Vec<u8> = Vec::new();
    let mut kept: Vec<Vec<OwnedValue>> = vec![];
    for h in hist {
        let r = catch(AssertUnwindSafe(|| OwnedValue::build_record_into_buffer(h, &mut b, &mut buf).is_ok()));
        match r {
            Caught::Done(_) => kept.push(h.clone()),
            Caught::Panicked(_) => { b = RecordBuilder::new(schema); kept.clear(); }
        }
    }
    let r = catch(AssertUnwindSafe(|| OwnedValue::build_record_into_buffer(row, &mut b, &mut buf).map(|_| buf.clone())));
    let out = match r { Caught::Done(Ok(v)) => BOut::Bytes(v), Caught::Done(Err(_)) => BOut::Err, Caught::Panicked(_) => BOut::Panic };
    (kept, out)
}

fn extract(schema: &Schema, cols: &[SCol], data: &[u8]) -> XOut {
    let r = catch(AssertUnwindSafe(|| -> Result<Vec<OwnedValue>, ()> {
        let view = RecordView::new(data, schema).map_err(|_| ())?;
        OwnedValue::extract_row_from_record(&view, cols).map_err(|_| ())
    }));
    match r { Caught::Done(Ok(v)) => XOut::Row(v), Caught::Done(Err(_)) => XOut::Err, Caught::Panicked(_) => XOut::Panic }
}

/// bit-exact row equality (floats by bit pattern: a storage round trip must not change bits)
fn same_row(a: &[OwnedValue], b: &[OwnedValue]) -> bool {
    a.len() == b.len() && a.iter().zip(b).all(|(x, y)| enc_value(x) == enc_value(y) && std::mem::discriminant(x) == std::mem::discriminant(y))
}

// ---------------------------------------------------------------- the property's vocabulary (oracle side)
fn f32_representable(x: f64) -> bool {
    let b = x.to_bits();
    let e = (b >> 52) & 0x7FF;
    let m = b & ((1u64 << 52) - 1);
    (e == 0 && m == 0) || (e == 2047 && m == 0) || ((897..=1150).contains(&e) && m & ((1 << 29) - 1) == 0)
}
fn is_toast(b: &[u8]) -> bool { b.len() == 17 && b[0] == 0xFE }
fn fits(code: u8, v: &OwnedValue) -> bool {
    match (v, code) {
        (OwnedValue::Null, _) => true,
        (OwnedValue::Bool(_), 0) => true,
        (OwnedValue::Int(i), 1) => *i >= i16::MIN as i64 && *i <= i16::MAX as i64,
        (OwnedValue::Int(i), 2) => *i >= i32::MIN as i64 && *i <= i32::MAX as i64,
        (OwnedValue::Int(_), 3) => true,
        (OwnedValue::Float(_), 5) => true,
        (OwnedValue::Float(f), 4) => f32_representable(*f),
        (OwnedValue::Text(_), 20 | 24 | 25) => true,
        (OwnedValue::ToastPointer(b), 20 | 24 | 25 | 21) => is_toast(b),
        (OwnedValue::Blob(_), 21 | 70 | 71) => true,
        (OwnedValue::Vector(_), 22) => true,
        (OwnedValue::Date(_), 6) | (OwnedValue::Time(_), 7) | (OwnedValue::Timestamp(_), 8) | (OwnedValue::TimestampTz(_, _), 9) => true,
        (OwnedValue::Uuid(_), 10) | (OwnedValue::MacAddr(_), 11) | (OwnedValue::Inet4(_), 12) | (OwnedValue::Inet6(_), 13) => true,
        (OwnedValue::Interval(_, _, _), 31) | (OwnedValue::Point(_, _), 60) | (OwnedValue::Box(_, _), 61) | (OwnedValue::Circle(_, _), 62) => true,
        (OwnedValue::Jsonb(b), 23) => b.len() >= 4,
        (OwnedValue::Decimal(_, _), 30) => true,
        (OwnedValue::Enum(_, _), 50) => true,
        _ => false,
    }
}
fn var_len(v: &OwnedValue) -> usize {
    match v {
        OwnedValue::Text(s) => s.len(),
        OwnedValue::Blob(b) | OwnedValue::Jsonb(b) | OwnedValue::ToastPointer(b) => b.len(),
        OwnedValue::Vector(f) => 4 + 4 * f.len(),
        OwnedValue::Decimal(_, _) => 19,
        _ => 0,
    }
}
fn total_var(types: &[u8], row: &[OwnedValue]) -> usize {
    types.iter().zip(row).map(|(t, v)| if fixed_size(*t).is_none() { var_len(v) } else { 0 }).sum()
}
fn schema_ok(types: &[u8]) -> bool {
    let nvar = types.iter().filter(|t| fixed_size(**t).is_none()).count();
    2 + types.len().div_ceil(8) + 2 * nvar < 65536
}
fn fits_row(types: &[u8], row: &[OwnedValue]) -> bool {
    types.len() == row.len() && types.iter().zip(row).all(|(t, v)| fits(*t, v)) && total_var(types, row) < 65536
}
/// the recorded defect class (same definition as Model/Record.v known_class); only used to
/// label search-mode output and to steer the generators
fn known_class(types: &[u8], row: &[OwnedValue]) -> u32 {
    if types.iter().zip(row).any(|(t, v)| *t == 21 && matches!(v, OwnedValue::Blob(b) if is_toast(b))) { return 3; }
    0
}

// ---------------------------------------------------------------- generators
fn rand_i(rng: &mut Rng, bits: u32) -> i64 {
    // signed value of the given width: boundaries, small, random bit length
    let min = if bits == 64 { i64::MIN } else { -(1i64 << (bits - 1)) };
    let max = if bits == 64 { i64::MAX } else { (1i64 << (bits - 1)) - 1 };
    match rng.below(10) {
        0 => min, 1 => max, 2 => 0, 3 => -1, 4 => 1,
        5 => min + rng.below(4) as i64, 6 => max - rng.below(4) as i64,
        _ => {
            let k = 1 + rng.below(bits as u64) as u32;
            let v = (rng.next() >> (64 - k)) as i64;
            let v = if rng.chance(1, 2) { v.wrapping_neg() } else { v };
            v.clamp(min, max)
        }
    }
}
fn rand_f64(rng: &mut Rng) -> f64 {
    match rng.below(12) {
        0 => 0.0, 1 => -0.0, 2 => f64::INFINITY, 3 => f64::NEG_INFINITY, 4 => f64::NAN,
        5 => f64::from_bits(rng.below(1 << 20)), // subnormal
        6 => f64::from_bits(0x7FF0_0000_0000_0001 + rng.below(1 << 40)), // NaN payloads
        7 => rng.range(-1000, 1000) as f64 / 8.0,
        _ => f64::from_bits(rng.next()),
    }
}
/// f64 values that exercise `as f32`: exact f32 values (normal, subnormal, special), halfway
/// and near-halfway points, the overflow and underflow thresholds, arbitrary f64
fn rand_f64_near_f32(rng: &mut Rng) -> f64 {
    let base = f32::from_bits(rand_f32_bits(rng)) as f64;
    let bits = base.to_bits();
    match rng.below(10) {
        0 => base,
        1 => f64::from_bits(bits.wrapping_add(1 << 28)),                 // exactly halfway to the next f32
        2 => f64::from_bits(bits.wrapping_add((1 << 28) + 1)),
        3 => f64::from_bits(bits.wrapping_add((1 << 28) - 1)),
        4 => f64::from_bits(bits.wrapping_add(rng.below(1 << 29))),
        5 => *rng.pick(&[3.4028234663852886e38, 3.4028235677973366e38, 3.4028235677973362e38, 3.402823669209385e38, 1e39, -1e39,
                         1.1754943508222875e-38, 1.401298464324817e-45, 7.006492321624085e-46, 7.00649232162409e-46, 1e-46, 5e-324, 2.2250738585072014e-308]),
        6 => f64::from_bits((rng.range(860, 900) as u64) << 52 | rng.next() >> 12),   // f32 subnormal range
        7 => f64::from_bits(0x7FF0_0000_0000_0001 + rng.below(1 << 51)),
        _ => rand_f64(rng),
    }
}
fn rand_f32_bits(rng: &mut Rng) -> u32 {
    match rng.below(10) {
        0 => 0, 1 => 0x8000_0000, 2 => 0x7F80_0000, 3 => 0xFF80_0000, 4 => 0x7FC0_0000,
        5 => rng.below(1 << 23) as u32, 6 => 0x7F80_0001 + rng.below(1 << 22) as u32,
        7 => (rng.range(-1000, 1000) as f32 / 8.0).to_bits(),
        _ => rng.next() as u32,
    }
}
fn rand_text(rng: &mut Rng, max: usize) -> String {
    let n = match rng.below(8) { 0 => 0, 1 => 1, 2 => max, _ => rng.below(max as u64 + 1) as usize };
    let alphabet: [&str; 12] = ["a", "Z", "0", " ", "'", "\u{e9}", "\u{df}", "\u{4e2d}", "\u{20ac}", "\u{1F600}", "\u{0}", "\u{7f}"];
    let mut s = String::new();
    for _ in 0..n { s.push_str(alphabet[rng.below(12) as usize]); }
    s
}
fn rand_blob(rng: &mut Rng, max: usize, allow_toast_shape: bool) -> Vec<u8> {
    let n = match rng.below(8) { 0 => 0, 1 => 17, 2 => 16, 3 => 18, _ => rng.below(max as u64 + 1) as usize };
    let mut b = rng.bytes(n);
    if n > 0 && rng.chance(1, 4) { b[0] = 0xFE; }
    if !allow_toast_shape && is_toast(&b) { b[0] = 0xFD; }
    b
}
fn toast_ptr(rng: &mut Rng) -> Vec<u8> { let mut b = rng.bytes(17); b[0] = 0xFE; b }

/// a value that fits a column of this type (never NULL)
fn rand_fit(rng: &mut Rng, code: u8, maxvar: usize, allow_toast_blob: bool) -> OwnedValue {
    match code {
        0 => OwnedValue::Bool(rng.chance(1, 2)),
        1 => OwnedValue::Int(rand_i(rng, 16)),
        2 => OwnedValue::Int(rand_i(rng, 32)),
        3 => OwnedValue::Int(rand_i(rng, 64)),
        4 => OwnedValue::Float(f32::from_bits({ let b = rand_f32_bits(rng); let e = (b >> 23) & 0xFF; if e == 0 || e == 255 { b & 0xFF80_0000 } else { b } }) as f64),
        5 => OwnedValue::Float(rand_f64(rng)),
        6 => OwnedValue::Date(rand_i(rng, 32) as i32),
        7 => OwnedValue::Time(rand_i(rng, 64)),
        8 => OwnedValue::Timestamp(rand_i(rng, 64)),
        9 => OwnedValue::TimestampTz(rand_i(rng, 64), rand_i(rng, 32) as i32),
        10 => OwnedValue::Uuid(arr::<16>(rng.bytes(16))),
        11 => OwnedValue::MacAddr(arr::<6>(rng.bytes(6))),
        12 => OwnedValue::Inet4(arr::<4>(rng.bytes(4))),
        13 => OwnedValue::Inet6(arr::<16>(rng.bytes(16))),
        20 | 24 | 25 => if rng.chance(1, 24) { OwnedValue::ToastPointer(toast_ptr(rng)) } else { OwnedValue::Text(rand_text(rng, maxvar / 4)) },
        21 => if rng.chance(1, 24) { OwnedValue::ToastPointer(toast_ptr(rng)) } else { OwnedValue::Blob(rand_blob(rng, maxvar, allow_toast_blob)) },
        22 => { let n = rng.below((maxvar / 4).min(12) as u64 + 1) as usize; OwnedValue::Vector((0..n).map(|_| f32::from_bits(rand_f32_bits(rng))).collect()) }
        23 => { let n = 4 + rng.below(maxvar as u64 + 1) as usize; OwnedValue::Jsonb(rng.bytes(n)) }
        30 => {
            let k = rng.below(128) as u32;
            let mag: i128 = if k == 0 { 0 } else { (((rng.next() as u128) << 64 | rng.next() as u128) >> (128 - k)) as i128 };
            let d = match rng.below(8) { 0 => i128::MIN, 1 => i128::MAX, 2 => 0, 3 => -1, _ => if rng.chance(1, 2) { -mag } else { mag } };
            OwnedValue::Decimal(d, rand_i(rng, 16) as i16)
        }
        31 => OwnedValue::Interval(rand_i(rng, 64), rand_i(rng, 32) as i32, rand_i(rng, 32) as i32),
        50 => OwnedValue::Enum(*rng.pick(&[0u16, 1, 255, 256, 65535]), rng.next() as u16),
        60 => OwnedValue::Point(rand_f64(rng), rand_f64(rng)),
        61 => OwnedValue::Box((rand_f64(rng), rand_f64(rng)), (rand_f64(rng), rand_f64(rng))),
        62 => OwnedValue::Circle((rand_f64(rng), rand_f64(rng)), rand_f64(rng)),
        70 | 71 => OwnedValue::Blob(rand_blob(rng, maxvar, true)),
        _ => OwnedValue::Null, // ranges: only NULL fits (no OwnedValue variant)
    }
}
/// a value of some other variant (does not fit)
fn rand_misfit(rng: &mut Rng) -> OwnedValue {
    match rng.below(10) {
        0 => OwnedValue::Int(rand_i(rng, 64)),
        1 => OwnedValue::Text(rand_text(rng, 8)),
        2 => OwnedValue::Blob(rng.bytes(3)),
        3 => OwnedValue::Float(rand_f64(rng)),
        4 => OwnedValue::Bool(true),
        5 => OwnedValue::Uuid(arr::<16>(rng.bytes(16))),
        6 => OwnedValue::Box((1.0, 2.0), (3.0, 4.0)),
        7 => OwnedValue::Vector(vec![1.0, 2.0]),
        8 => OwnedValue::Jsonb(rng.bytes(2)),
        _ => OwnedValue::Date(7),
    }
}

/// from_utf8_lossy on invalid UTF-8 is not modelled: binary payloads stay out of text columns
fn misfit_for(rng: &mut Rng, code: u8) -> OwnedValue {
    loop {
        let v = rand_misfit(rng);
        let binary = matches!(v, OwnedValue::Blob(_) | OwnedValue::Jsonb(_) | OwnedValue::Vector(_));
        if !(binary && matches!(code, 20 | 24 | 25)) { return v; }
    }
}

fn rand_ncols(rng: &mut Rng) -> usize {
    match rng.below(20) {
        0 | 1 => *rng.pick(&[1usize, 2, 7, 8, 9, 15, 16, 17, 31, 32, 33, 63, 64]),
        2..=12 => 1 + rng.below(8) as usize,
        13..=18 => 1 + rng.below(24) as usize,
        _ => 1 + rng.below(64) as usize,
    }
}
const FIXED_CODES: [u8; 19] = [0, 1, 2, 3, 5, 6, 7, 8, 9, 10, 11, 12, 13, 31, 50, 60, 61, 62, 4];
const VAR_CODES: [u8; 9] = [20, 21, 22, 23, 24, 25, 30, 70, 71];
const RANGE_CODES: [u8; 4] = [40, 41, 42, 43];

fn rand_types(rng: &mut Rng, n: usize, var_pct: u64) -> Vec<u8> {
    (0..n).map(|_| {
        if rng.below(100) < var_pct { *rng.pick(&VAR_CODES) }
        else if rng.chance(1, 16) { *rng.pick(&RANGE_CODES) }
        else { *rng.pick(&FIXED_CODES) }
    }).collect()
}
/// a fitting row (`anyfloat`: Float4 columns may also get f64 values that are not exact f32
/// values - these do not fit); toast-shaped blobs only if `toasty`
fn rand_fit_row(rng: &mut Rng, types: &[u8], null_pct: u64, maxvar: usize, anyfloat: bool, toasty: bool) -> Vec<OwnedValue> {
    types.iter().map(|t| {
        if is_range(*t) || rng.below(100) < null_pct { OwnedValue::Null }
        else if *t == 4 && anyfloat && rng.chance(1, 2) { OwnedValue::Float(rand_f64_near_f32(rng)) }
        else if *t == 21 && toasty && rng.chance(1, 2) { OwnedValue::Blob(toast_ptr(rng)) }
        else { rand_fit(rng, *t, maxvar, toasty) }
    }).collect()
}

struct Gen { types: Vec<u8>, hist: Vec<Vec<OwnedValue>>, row: Vec<OwnedValue>, kind: &'static str }

fn gen_row_case(rng: &mut Rng, kind: &'static str) -> Gen {
    let var_pct = *rng.pick(&[0u64, 20, 35, 35, 60, 100]);
    let null_pct = *rng.pick(&[0u64, 10, 25, 50, 90]);
    let maxvar = *rng.pick(&[4usize, 8, 16, 24, 24, 120]);
    let (types, row) = match kind {
        "all_null" => { let n = rand_ncols(rng); let t = rand_types(rng, n, var_pct); let r = vec![OwnedValue::Null; n]; (t, r) }
        "var_only" => {
            // only variable-width columns; many empty values (class 1 and its neighbourhood)
            let n = 1 + rng.below(6) as usize;
            let t: Vec<u8> = (0..n).map(|_| *rng.pick(&[20u8, 21, 24, 25, 70, 71, 20, 21, 22, 30])).collect();
            let r = t.iter().map(|c| match rng.below(4) {
                0 => OwnedValue::Null,
                1 | 2 => match *c { 20 | 24 | 25 => OwnedValue::Text(String::new()), 21 | 70 | 71 => OwnedValue::Blob(vec![]), c => rand_fit(rng, c, 8, false) },
                _ => rand_fit(rng, *c, 8, false),
            }).collect();
            (t, r)
        }
        "float4" => {
            let n = 1 + rng.below(6) as usize;
            let mut t = rand_types(rng, n, 20);
            let k = rng.below(n as u64) as usize;
            t[k] = 4;
            let any = rng.chance(1, 2);
            let r = rand_fit_row(rng, &t, 10, 16, any, false);
            (t, r)
        }
        "toast_blob" => {
            let n = 1 + rng.below(5) as usize;
            let mut t = rand_types(rng, n, 30);
            let k = rng.below(n as u64) as usize;
            t[k] = 21;
            let mut r = rand_fit_row(rng, &t, 10, 24, false, true);
            if rng.chance(3, 4) { r[k] = OwnedValue::Blob(toast_ptr(rng)); }
            (t, r)
        }
        "misfit" => {
            let n = rand_ncols(rng).min(12);
            let t = rand_types(rng, n, var_pct);
            let mut r = rand_fit_row(rng, &t, null_pct, 16, false, false);
            match rng.below(5) {
                0 => { r.push(if rng.chance(1, 2) { OwnedValue::Null } else { rand_misfit(rng) }); }
                1 => { r.pop(); }
                2 => { for _ in 0..(1 + rng.below(9)) { r.push(OwnedValue::Null); } }
                _ => { let k = rng.below(n as u64) as usize; r[k] = misfit_for(rng, t[k]); }
            }
            (t, r)
        }
        "big_var" => {
            // total variable bytes around the u16 limit
            let nv = 1 + rng.below(3) as usize;
            let mut t: Vec<u8> = vec![];
            if rng.chance(1, 2) { t.push(2); }
            for _ in 0..nv { t.push(*rng.pick(&[20u8, 21, 20])); }
            if rng.chance(1, 2) { t.push(3); }
            let target = *rng.pick(&[65535usize, 65535, 65534, 65536, 65537, 65000, 131072, 65536 + 17]);
            let mut left = target;
            let mut r = vec![];
            let nvar_total = t.iter().filter(|c| **c >= 20).count();
            let mut seen = 0;
            for c in &t {
                if *c < 20 { r.push(OwnedValue::Int(rand_i(rng, 32))); continue; }
                seen += 1;
                let take = if seen == nvar_total { left } else { rng.below(left as u64 + 1) as usize };
                left -= take;
                let ch = *rng.pick(&[b'x', b'y', 0u8, b' ']);
                let mut bytes = vec![ch; take];
                if take > 3 && rng.chance(1, 2) { bytes[0] = b'A'; bytes[take - 1] = b'Z'; }
                r.push(if *c == 20 { OwnedValue::Text(String::from_utf8(bytes).unwrap_or_default()) } else { OwnedValue::Blob(bytes) });
            }
            (t, r)
        }
        _ => {
            let n = rand_ncols(rng);
            let t = rand_types(rng, n, var_pct);
            let r = rand_fit_row(rng, &t, null_pct, maxvar, false, false);
            (t, r)
        }
    };
    // rows built earlier with the reused builder (same schema): mostly fitting, sometimes not
    let nh = *rng.pick(&[0usize, 0, 1, 1, 2, 3]);
    let hist = (0..nh).map(|_| {
        let np = *rng.pick(&[0u64, 30]);
        let mut h = rand_fit_row(rng, &types, np, 12, kind == "float4", kind == "toast_blob");
        if rng.chance(1, 8) && !h.is_empty() { let k = rng.below(h.len() as u64) as usize; h[k] = misfit_for(rng, types[k]); }
        if rng.chance(1, 16) { h.push(OwnedValue::Null); }
        h
    }).collect();
    Gen { types, hist, row, kind }
}

fn push_row_case(w: &mut CaseWriter, g: Gen) {
    let (schema, cols) = mk_schema(&g.types);
    let fo = build_fresh(&schema, &g.row);
    let (hist, ro) = build_reused(&schema, &g.hist, &g.row);
    let x = match &fo { BOut::Bytes(b) => extract(&schema, &cols, b), _ => XOut::None };
    let term = format!("Row {} {} {} {} {} {}", coq_types(&g.types),
        clist(&hist.iter().map(|h| coq_row(h)).collect::<Vec<_>>()), coq_row(&g.row), coq_bout(&fo),
        if ro == fo { "RSame".to_string() } else { format!("(ROther {})", coq_bout(&ro)) }, coq_xout(&x, Some(&g.row)));
    let replay = format!("row s={} h={} r={}", enc_types(&g.types), enc_hist(&hist), enc_row(&g.row));
    let nontrivial = fits_row(&g.types, &g.row) && g.types.len() >= 2 && g.row.iter().any(|v| *v != OwnedValue::Null);
    w.push(term, replay, nontrivial, g.kind);
}
fn push_view_case(w: &mut CaseWriter, types: &[u8], data: &[u8], kind: &'static str) {
    let (schema, cols) = mk_schema(types);
    let x = extract(&schema, &cols, data);
    let term = format!("View {} {} {}", coq_types(types), coq_bytes(data), coq_xout(&x, None));
    w.push(term, format!("view s={} d={}", enc_types(types), enc_bytes(data)), data.len() >= 2, kind);
}

/// malformed records: truncations, flipped header / offset bytes, random bytes.  Text-like
/// columns are left out (from_utf8_lossy on invalid UTF-8 is not modelled).
fn gen_view_case(rng: &mut Rng) -> (Vec<u8>, Vec<u8>, &'static str) {
    let n = 1 + rng.below(8) as usize;
    let types: Vec<u8> = (0..n).map(|_| if rng.chance(2, 5) { *rng.pick(&[21u8, 22, 23, 30, 70, 71]) } else if rng.chance(1, 12) { *rng.pick(&RANGE_CODES) } else { *rng.pick(&FIXED_CODES) }).collect();
    let (schema, _) = mk_schema(&types);
    let row = rand_fit_row(rng, &types, 20, 12, true, true);
    let mut data = match build_fresh(&schema, &row) { BOut::Bytes(b) => b, _ => vec![] };
    let kind = match rng.below(5) {
        0 => { let k = rng.below(data.len() as u64 + 1) as usize; data.truncate(k); "view_truncated" }
        1 => { let hl = (2 + n.div_ceil(8) + 2 * types.iter().filter(|c| fixed_size(**c).is_none()).count()).min(data.len()); if hl > 0 { let k = rng.below(hl as u64) as usize; data[k] ^= 1 << rng.below(8); } "view_header_flip" }
        2 => { if !data.is_empty() { let k = rng.below(data.len() as u64) as usize; data[k] = rng.next() as u8; } "view_byte_changed" }
        3 => { let k = rng.below(40) as usize; data = rng.bytes(k); "view_random" }
        _ => { let k = rng.below(6) as usize; let t = rng.bytes(k); data.extend_from_slice(&t); "view_extended" }
    };
    (types, data, kind)
}

fn main() {
    let a = Args::parse();
    match a.mode.as_str() {
        "gen" => gen(&a),
        "search" => search(&a),
        _ => { eprintln!("c31: unknown mode"); std::process::exit(2); }
    }
}

fn field<'a>(l: &'a str, key: &str) -> &'a str {
    for tok in l.split(' ') { if let Some(r) = tok.strip_prefix(key) { return r; } }
    ""
}

fn gen(a: &Args) {
    let mut rng = Rng::new(a.seed);
    let mut w = CaseWriter::new(&a.out, "C31", "Corr.C31", 200);
    if let Some(lines) = a.replay_lines() {
        for l in lines {
            if l.starts_with("row ") {
                let types = dec_types(field(&l, "s="));
                let h = field(&l, "h=");
                let hist: Vec<Vec<OwnedValue>> = if h == "-" { vec![] } else { h.split('|').map(dec_row).collect() };
                push_row_case(&mut w, Gen { types, hist, row: dec_row(field(&l, "r=")), kind: "replay" });
            } else if l.starts_with("view ") {
                push_view_case(&mut w, &dec_types(field(&l, "s=")), &dec_bytes(field(&l, "d=")), "replay");
            }
        }
        w.finish(&[]);
        return;
    }
    let thorough = a.thorough();
    // hand-picked boundary cases first
    for (t, r) in [
        (vec![20u8], vec![OwnedValue::Text(String::new())]),
        (vec![20, 21], vec![OwnedValue::Text(String::new()), OwnedValue::Blob(vec![])]),
        (vec![20, 21], vec![OwnedValue::Null, OwnedValue::Null]),
        (vec![2, 20], vec![OwnedValue::Int(7), OwnedValue::Text(String::new())]),
        (vec![20, 21], vec![OwnedValue::Text("a".into()), OwnedValue::Blob(vec![])]),
        (vec![4], vec![OwnedValue::Float(1.5)]),
        (vec![4, 3], vec![OwnedValue::Float(1.5), OwnedValue::Int(3)]),
        (vec![4, 3], vec![OwnedValue::Float(0.0), OwnedValue::Int(3)]),
        (vec![4, 3], vec![OwnedValue::Null, OwnedValue::Int(3)]),
        (vec![21], vec![OwnedValue::Blob({ let mut b = vec![1u8; 17]; b[0] = 0xFE; b })]),
        (vec![21], vec![OwnedValue::Blob(vec![0xFE; 16])]),
        (vec![70], vec![OwnedValue::Blob({ let mut b = vec![1u8; 17]; b[0] = 0xFE; b })]),
        (vec![20], vec![OwnedValue::Text("x".repeat(65535))]),
        (vec![20], vec![OwnedValue::Text("x".repeat(65536))]),
        (vec![20, 20], vec![OwnedValue::Text("x".repeat(65535)), OwnedValue::Text("y".into())]),
        (vec![40], vec![OwnedValue::Null]),
        (vec![40], vec![OwnedValue::Blob(vec![1, 2, 3])]),
        (vec![23], vec![OwnedValue::Jsonb(vec![1, 2])]),
        (vec![22], vec![OwnedValue::Vector(vec![])]),
        (vec![30], vec![OwnedValue::Decimal(-12345, -3)]),
        (vec![], vec![]),
    ] {
        push_row_case(&mut w, Gen { types: t, hist: vec![], row: r, kind: "handpicked" });
    }
    let n = if thorough { 24_000 } else { 2_400 };
    for i in 0..n {
        let kind = match rng.below(100) {
            0..=64 => "structured",
            65..=69 => "all_null",
            70..=77 => "var_only",
            78..=82 => "float4",
            83..=86 => "toast_blob",
            87..=96 => "misfit",
            _ => if i % 8 == 0 || (thorough && i % 3 == 0) { "big_var" } else { "structured" },
        };
        let g = gen_row_case(&mut rng, kind);
        push_row_case(&mut w, g);
    }
    let nv = if thorough { 4_000 } else { 600 };
    for _ in 0..nv {
        let (t, d, k) = gen_view_case(&mut rng);
        push_view_case(&mut w, &t, &d, k);
    }
    w.finish(&[]);
}

/// Oracle only (no model): every fitting row builds, reads back bit-identical, and a reused
/// builder produces the same bytes as a new one.  FAIL lines carry the defect class computed by
/// `known_class` (0 = not the recorded one).
fn search(a: &Args) {
    let mut rng = Rng::new(a.seed ^ 0xC31C31);
    let mut fails: Vec<String> = vec![];
    let mut per_class = [0usize; 4];
    let mut tried: u64 = 0;
    let budget = a.budget.min(400_000);
    while tried < budget {
        let kind = match rng.below(100) { 0..=69 => "structured", 70..=74 => "all_null", 75..=84 => "var_only", 85..=89 => "float4", 90..=94 => "toast_blob", _ => if tried % 64 == 0 { "big_var" } else { "structured" } };
        let g = gen_row_case(&mut rng, kind);
        tried += 1;
        if !(schema_ok(&g.types) && fits_row(&g.types, &g.row)) { continue; }
        let (schema, cols) = mk_schema(&g.types);
        let fo = build_fresh(&schema, &g.row);
        let (hist, ro) = build_reused(&schema, &g.hist, &g.row);
        let ok = match (&fo, &ro) {
            (BOut::Bytes(b), BOut::Bytes(b2)) => b == b2 && matches!(extract(&schema, &cols, b), XOut::Row(r) if same_row(&r, &g.row)),
            _ => false,
        };
        if !ok {
            let k = known_class(&g.types, &g.row) as usize;
            if per_class[k.min(3)] < 10 {
                per_class[k.min(3)] += 1;
                fails.push(format!("row s={} h={} r={} class={}", enc_types(&g.types), enc_hist(&hist), enc_row(&g.row), k));
            }
        }
    }
    let mut out = String::new();
    out.push_str(&format!("tried={}\n", tried));
    for f in &fails { out.push_str("FAIL "); out.push_str(f); out.push('\n'); }
    std::fs::write(&a.out, out).expect("write search output");
}
