(* C01 - the catalog: a table whose CREATE TABLE has returned is in the catalog that
   Database::open loads from every power-loss image, and from every kill image whose catalog
   file is not in the middle of being rewritten.  No side condition on the workload. *)
From Coq Require Import ZArith List Bool Lia.
From TV Require Import Model.Crash Proof.CrashBase Proof.CrashStep Proof.CrashRun Proof.CrashMain.
Import ListNotations.
Open Scope Z_scope.

Definition created (os : list op) : list Z :=
  flat_map (fun o => match o with OCreate t _ _ _ _ => [t] | _ => [] end) os.

Definition Ccat (s : st) (T : list Z) : Prop :=
  (forall t, In t T -> In t (tabs s))
  /\ (forall ts, cat_v s = CatOk ts -> forall t, In t T -> In t ts)
  /\ (forall t, In t T -> In t (cat_d s)).

Lemma cat_step : forall s T e, Ccat s T -> Ccat (apply_ev s e) T.
Proof.
  intros s T e [C1 [C2 C3]]. destruct e; cbn [apply_ev]; try (repeat split; assumption);
    try (destruct (mem f (files s)); repeat split; assumption).
  - (* EAddTab *) repeat split; sproj; try assumption. intros t0 H. apply In_add_z. right. apply C1. exact H.
  - (* ECatTrunc *) repeat split; sproj; try assumption. intros ts H. discriminate.
  - (* ECatHdr *) repeat split; sproj; try assumption. intros ts H. discriminate.
  - (* ECatBody *) repeat split; sproj; try assumption. intros ts H t0 Ht. inversion H. subst. apply C1. exact Ht.
  - (* ECatSync *) repeat split; sproj; try assumption. destruct (cat_v s) eqn:E; [| exact C3]. intros t0 Ht. apply (C2 ts eq_refl). exact Ht.
Qed.
Lemma cat_evs : forall es s T, Ccat s T -> Ccat (run_evs s es) T.
Proof. induction es as [| e r IH]; intros s T H; [exact H |]. cbn [run_evs fold_left]. fold (run_evs (apply_ev s e) r). apply IH. apply cat_step. exact H. Qed.

(* events that leave the catalog alone *)
Definition nocat (e : ev) : bool :=
  match e with EAddTab _ | ECatTrunc | ECatHdr | ECatBody | ECatSync => false | _ => true end.
Lemma nocat_pres : forall es s, forallb nocat es = true ->
  tabs (run_evs s es) = tabs s /\ cat_v (run_evs s es) = cat_v s /\ cat_d (run_evs s es) = cat_d s.
Proof.
  induction es as [| e r IH]; intros s H; [repeat split |].
  cbn [forallb] in H. apply andb_true_iff in H. destruct H as [He Hr]. cbn [run_evs fold_left]. fold (run_evs (apply_ev s e) r).
  destruct (IH (apply_ev s e) Hr) as [A [B C]]. rewrite A, B, C.
  destruct e; try discriminate; cbn [apply_ev]; try (repeat split; reflexivity);
    destruct (mem f (files s)); repeat split; reflexivity.
Qed.
Lemma nocat_map : forall {A} (f : A -> ev) l, (forall x, nocat (f x) = true) -> forallb nocat (map f l) = true.
Proof. intros. apply forallb_forall. intros e He. apply in_map_iff in He. destruct He as [x [<- _]]. apply H. Qed.
Lemma nocat_flush : forall ks, forallb nocat (flush_evs ks) = true.
Proof. intros. unfold flush_evs. destruct ks; [reflexivity |]. rewrite forallb_app, nocat_map by reflexivity. reflexivity. Qed.
Lemma nocat_flat : forall {A} (f : A -> list ev) l, (forall x, forallb nocat (f x) = true) -> forallb nocat (flat_map f l) = true.
Proof. induction l as [| a r IH]; intros H; [reflexivity |]. cbn [flat_map]. rewrite forallb_app, H, IH; auto. Qed.
Lemma nocat_ckpt : forall s ord, forallb nocat (ckpt_evs s ord) = true.
Proof. intros. unfold ckpt_evs. cbn [forallb nocat andb]. rewrite forallb_app, nocat_flat by (intros; reflexivity). reflexivity. Qed.

Definition Cb (s : st) : Prop := cat_v s = CatOk (tabs s) /\ cat_d s = tabs s.

Lemma step_cb : forall s o, Cb s ->
  Cb (step s o) /\ (forall t, In t (tabs s) -> In t (tabs (step s o)))
  /\ (forall t, In t (created [o]) -> In t (tabs (step s o))).
Proof.
  intros s o [B1 B2]. unfold step.
  assert (NC : forall es, forallb nocat es = true ->
               Cb (run_evs s es) /\ (forall t, In t (tabs s) -> In t (tabs (run_evs s es)))).
  { intros es H. destruct (nocat_pres es s H) as [A [B C]]. unfold Cb. rewrite A, B, C. repeat split; auto. }
  destruct o; cbn [events created flat_map app].
  - (* OCreate *)
    set (P := [ECreate t; EStore t 0 h; EMsync t; EGrow t; EStore t 1 r; ECreate (idx_file t); EStore (idx_file t) 0 hi;
               EMsync (idx_file t); EGrow (idx_file t); EStore (idx_file t) 1 ri]).
    change (ECreate t :: EStore t 0 h :: EMsync t :: EGrow t :: EStore t 1 r :: ECreate (idx_file t) :: EStore (idx_file t) 0 hi
            :: EMsync (idx_file t) :: EGrow (idx_file t) :: EStore (idx_file t) 1 ri :: EAddTab t :: cat_save ++ [EMetaW; EMetaSync; EAck])
      with (P ++ (EAddTab t :: cat_save ++ [EMetaW; EMetaSync; EAck])).
    rewrite run_evs_app. destruct (nocat_pres P s eq_refl) as [A1 [A2 A3]]. set (s1 := run_evs s P) in *.
    unfold run_evs, Cb. cbn [cat_save app fold_left apply_ev]. sproj. rewrite A1.
    repeat split; [intros t0 H; apply In_add_z; auto | intros t0 [<- | []]; apply In_add_z; auto].
  - destruct (NC (events s (ODml t marks body post))) as [X Y]; [| repeat split; [apply X | apply X | exact Y | intros t0 []]].
    cbn [events]. rewrite !forallb_app, !nocat_map; try reflexivity; try (intros []; reflexivity).
    destruct (in_txn s); [reflexivity | rewrite nocat_flush; reflexivity].
  - destruct (NC (events s OBegin)) as [X Y]; [reflexivity | repeat split; [apply X | apply X | exact Y | intros t0 []]].
  - destruct (NC (events s (OCommit ord))) as [X Y]; [| repeat split; [apply X | apply X | exact Y | intros t0 []]].
    cbn [events]. rewrite !forallb_app, nocat_flush. destruct (dirty s); [reflexivity | rewrite nocat_map by reflexivity; reflexivity].
  - destruct (NC (events s (OCkpt ord))) as [X Y]; [| repeat split; [apply X | apply X | exact Y | intros t0 []]].
    cbn [events]. rewrite forallb_app, nocat_ckpt. reflexivity.
  - destruct (NC (events s OApiCkpt)) as [X Y]; [| repeat split; [apply X | apply X | exact Y | intros t0 []]].
    cbn [events]. destruct (ever_dirty s); [| reflexivity].
    rewrite !forallb_app, nocat_flat by (intros; apply nocat_flush).
    destruct (cur_fl s ++ buf s ++ map (fun k => (k, None)) (dirty s)); reflexivity.
  - (* OReopen *)
    rewrite !run_evs_app.
    destruct (nocat_pres (ckpt_evs s ord1) s (nocat_ckpt s ord1)) as [A1 [A2 A3]].
    set (s1 := run_evs s (ckpt_evs s ord1)) in *.
    set (s2 := run_evs s1 cat_save).
    assert (T2 : tabs s2 = tabs s /\ cat_v s2 = CatOk (tabs s) /\ cat_d s2 = tabs s).
    { subst s2. cbn [cat_save run_evs fold_left apply_ev]. sproj. rewrite A1. repeat split. }
    destruct T2 as [T2a [T2b T2c]].
    destruct (nocat_pres (map EMsync (arrange ord2 (files s)) ++ [EReset; ESetLen; EAck]) s2) as [C1 [C2 C3]].
    { rewrite forallb_app, nocat_map by reflexivity. reflexivity. }
    rewrite <- run_evs_app. fold s2. unfold Cb. rewrite C1, C2, C3, T2a, T2b, T2c. repeat split; auto. intros t0 [].
Qed.

Lemma run_cb : forall os s, Cb s ->
  Cb (run s os) /\ (forall t, In t (tabs s) \/ In t (created os) -> In t (tabs (run s os))).
Proof.
  induction os as [| o r IH]; intros s H; [split; [exact H | intros t [A | []]; exact A] |].
  destruct (step_cb s o H) as [H1 [H2 H3]]. cbn [run fold_left]. destruct (IH (step s o) H1) as [I1 I2].
  split; [exact I1 |]. intros t [A | A]; apply I2.
  - left. apply H2. exact A.
  - unfold created in A. cbn [flat_map] in A. apply in_app_iff in A. destruct A as [A | A].
    + left. apply H3. unfold created. cbn [flat_map]. rewrite app_nil_r. exact A.
    + right. exact A.
Qed.

Lemma tables_durable_l : forall os i n t, In t (created (firstn i os)) ->
  r_open (recover Power (at_pos os i n)) = true
  /\ In t (r_tabs (recover Power (at_pos os i n)))
  /\ (cat_ok (at_pos os i n) = true -> In t (r_tabs (recover Kill (at_pos os i n)))).
Proof.
  intros os i n t H.
  assert (B0 : Cb init) by (split; reflexivity).
  destruct (run_cb (firstn i os) init B0) as [[B1 B2] TT].
  assert (C0 : Ccat (run init (firstn i os)) (tabs (run init (firstn i os)))).
  { unfold Ccat. split; [auto |]. split.
    - intros ts E t0 Ht. rewrite B1 in E. inversion E. subst. exact Ht.
    - intros t0 Ht. rewrite B2. exact Ht. }
  assert (CP : Ccat (at_pos os i n) (tabs (run init (firstn i os)))).
  { unfold at_pos. destruct (nth_error os i); [apply cat_evs; exact C0 | exact C0]. }
  destruct CP as [_ [P2 P3]]. assert (Tin : In t (tabs (run init (firstn i os)))) by (apply TT; right; exact H).
  split; [reflexivity |]. split; [apply P3; exact Tin |].
  intros CO. unfold cat_ok in CO. cbn [recover r_tabs]. destruct (cat_v (at_pos os i n)) eqn:E; [| discriminate].
  apply (P2 ts eq_refl). exact Tin.
Qed.
