(* C01 / C02 - theorems about whole workloads: at every crash position of every well-formed
   workload the kill image / the power-loss image is what InvK / InvP say. *)
From Coq Require Import ZArith List Bool Lia.
From TV Require Import Model.Crash Proof.CrashBase Proof.CrashStep Proof.CrashRun.
Import ListNotations.
Open Scope Z_scope.

Lemma InvK_init : InvK init.
Proof. constructor; cbn; intros; discriminate. Qed.
Lemma InvP_init : InvP init ghost0.
Proof.
  constructor; cbn; try reflexivity; intros; try discriminate.
  - destruct H as [[] | []].
Qed.
Lemma Inv_init : forall pw, Inv pw init ghost0.
Proof. intros. split; [exact InvK_init | intros; exact InvP_init]. Qed.
Lemma Shape_init : forall pw, Shape pw init.
Proof. intros. unfold Shape. cbn. repeat split; reflexivity. Qed.

(* positions, from an arbitrary start state *)
Definition at_from (s : st) (os : list op) (i n : nat) : st :=
  let s' := run s (firstn i os) in
  match nth_error os i with
  | Some o => run_evs s' (firstn n (events s' o))
  | None => s'
  end.
Definition ghost_from (s : st) (g : ghost) (os : list op) (i n : nat) : ghost :=
  let s' := run s (firstn i os) in
  let g' := ghost_run s g (firstn i os) in
  match nth_error os i with
  | Some o => ghost_evs s' g' (firstn n (events s' o))
  | None => g'
  end.
Lemma at_pos_from : forall os i n, at_pos os i n = at_from init os i n.
Proof. reflexivity. Qed.
Lemma ghost_at_from : forall os i n, ghost_at os i n = ghost_from init ghost0 os i n.
Proof. reflexivity. Qed.

Lemma pos_inv : forall pw os s g,
  Inv pw s g -> Shape pw s -> wf_run s os = true ->
  forall i n, InvPos pw (at_from s os i n) (ghost_from s g os i n).
Proof.
  induction os as [| o r IH]; intros s g HI HS WF i n.
  - unfold at_from, ghost_from. destruct i; cbn; apply Inv_InvPos; exact HI.
  - cbn [wf_run] in WF. apply andb_true_iff in WF. destruct WF as [W1 W2].
    destruct (op_inv pw s g o HI HS W1) as [IA [IE SH]].
    destruct i as [| i].
    + unfold at_from, ghost_from. cbn [firstn run fold_left nth_error ghost_run]. exact (IA n).
    + unfold at_from, ghost_from. cbn [firstn run fold_left nth_error ghost_run].
      apply (IH (step s o) (ghost_evs s g (events s o))); [exact IE | exact SH | exact W2].
Qed.

Lemma run_shape : forall pw os s g,
  Inv pw s g -> Shape pw s -> wf_run s os = true ->
  Shape pw (run s os) /\ Inv pw (run s os) (ghost_run s g os).
Proof.
  induction os as [| o r IH]; intros s g HI HS WF; [split; assumption |].
  cbn [wf_run] in WF. apply andb_true_iff in WF. destruct WF as [W1 W2].
  destruct (op_inv pw s g o HI HS W1) as [IA [IE SH]].
  cbn [run fold_left ghost_run]. apply IH; [exact IE | exact SH | exact W2].
Qed.

(* prefixes of a workload *)
Lemma wf_run_firstn : forall os s k, wf_run s os = true -> wf_run s (firstn k os) = true.
Proof.
  induction os as [| o r IH]; intros s k H; destruct k; cbn [firstn wf_run] in *; try reflexivity.
  apply andb_true_iff in H. destruct H as [H1 H2]. rewrite H1, (IH _ _ H2). reflexivity.
Qed.
Lemma nth_error_firstn_lt : forall {A} (l : list A) i k, (i < k)%nat -> nth_error (firstn k l) i = nth_error l i.
Proof.
  induction l as [| a r IH]; intros i k H; destruct k, i; cbn; try reflexivity; try lia.
  apply IH. lia.
Qed.
Lemma at_from_prefix : forall s os i n, at_from s (firstn (S i) os) i n = at_from s os i n.
Proof.
  intros. unfold at_from. rewrite firstn_firstn, Nat.min_l by lia. rewrite nth_error_firstn_lt by lia. reflexivity.
Qed.
Lemma ghost_from_prefix : forall s g os i n, ghost_from s g (firstn (S i) os) i n = ghost_from s g os i n.
Proof.
  intros. unfold ghost_from. rewrite firstn_firstn, Nat.min_l by lia. rewrite nth_error_firstn_lt by lia. reflexivity.
Qed.

Lemma quiet_fields : forall s, quiet s = true -> dirty s = [] /\ buf s = [].
Proof. intros s H. unfold quiet in H. destruct (dirty s), (buf s); try discriminate. split; reflexivity. Qed.

(* ------------------------------------------------------------------ process kill *)
Lemma kill_quiet_exact_l : forall os, wf_run init os = true ->
  forall i n, quiet (at_pos os i n) = true ->
  forall k, r_pages (recover Kill (at_pos os i n)) k = vol (at_pos os i n) k.
Proof.
  intros os WF i n Q k. rewrite at_pos_from in *.
  destruct (pos_inv false os init ghost0 (Inv_init false) (Shape_init false) WF i n) as [HK _].
  destruct (quiet_fields _ Q) as [Hd Hb].
  exact (kill_exact _ HK Hd Hb k).
Qed.

Lemma ack_quiet_l : forall os, wf_run init os = true ->
  forall i, in_txn (run init (firstn i os)) = false ->
  quiet (run init (firstn i os)) = true /\ cur_du (run init (firstn i os)) = cur_fl (run init (firstn i os)).
Proof.
  intros os WF i T.
  destruct (run_shape true (firstn i os) init ghost0 (Inv_init true) (Shape_init true) (wf_run_firstn _ _ _ WF))
    as [[Hb [_ [_ [Hd Hc]]]] _].
  split; [unfold quiet; rewrite (Hd T), Hb; reflexivity | exact (Hc eq_refl)].
Qed.

Lemma ack_durable_kill_l : forall os, wf_run init os = true ->
  forall i, in_txn (run init (firstn i os)) = false ->
  forall k, r_pages (recover Kill (run init (firstn i os))) k = vol (run init (firstn i os)) k.
Proof.
  intros os WF i T k.
  destruct (run_shape false (firstn i os) init ghost0 (Inv_init false) (Shape_init false) (wf_run_firstn _ _ _ WF))
    as [[Hb [_ [_ [Hd _]]]] [HK _]].
  exact (kill_exact _ HK (Hd T) Hb k).
Qed.

(* ------------------------------------------------------------------ power loss *)
Lemma power_view_l : forall os, wf_run init os = true ->
  forall i n k, kmem k (g_unl (ghost_at os i n)) = false ->
  r_pages (recover Power (at_pos os i n)) k = g_view (ghost_at os i n) k.
Proof.
  intros os WF i n k U. rewrite at_pos_from, ghost_at_from in *.
  destruct (pos_inv true os init ghost0 (Inv_init true) (Shape_init true) WF i n) as [_ HP].
  destruct (HP eq_refl) as [P1 _]. apply P1. apply kmem_false. exact U.
Qed.

Lemma power_quiet_exact_l : forall os, wf_run init os = true ->
  forall i n, quiet (at_pos os i n) = true -> cur_du (at_pos os i n) = cur_fl (at_pos os i n) ->
  forall k, kmem k (g_unl (ghost_at os i n)) = false ->
  r_pages (recover Power (at_pos os i n)) k = vol (at_pos os i n) k.
Proof.
  intros os WF i n Q C k U. rewrite at_pos_from, ghost_at_from in *.
  destruct (pos_inv true os init ghost0 (Inv_init true) (Shape_init true) WF i n) as [_ HP].
  destruct (HP eq_refl) as [_ P2]. destruct (quiet_fields _ Q) as [Hd Hb].
  apply (power_exact _ _ (P2 C) Hd Hb C). apply kmem_false. exact U.
Qed.

Lemma ack_durable_power_l : forall os, wf_run init os = true ->
  forall i, in_txn (run init (firstn i os)) = false ->
  forall k, kmem k (g_unl (ghost_run init ghost0 (firstn i os))) = false ->
  r_pages (recover Power (run init (firstn i os))) k = vol (run init (firstn i os)) k.
Proof.
  intros os WF i T k U.
  destruct (run_shape true (firstn i os) init ghost0 (Inv_init true) (Shape_init true) (wf_run_firstn _ _ _ WF))
    as [[Hb [_ [_ [Hd Hc]]]] [_ HP]].
  apply (power_exact _ _ (HP eq_refl) (Hd T) Hb (Hc eq_refl)). apply kmem_false. exact U.
Qed.

(* unique table ids: recover_sh [] is recover *)
Lemma recover_sh_nil_l : forall m s, recover_sh [] m s = recover m s.
Proof.
  assert (F : forall l : list Z, filter (fun f => negb (mem f [])) l = l).
  { induction l as [| a r IH]; [reflexivity |]. cbn [filter]. cbn [mem existsb negb]. cbn [mem existsb negb] in IH. rewrite IH. reflexivity. }
  intros m s. destruct m; unfold recover_sh, recover; rewrite F; reflexivity.
Qed.
