(* C09 correspondence: judge what the harness observed on the real Database (one history on a
   new database with the tables p and c of the case's schema; after every statement: accepted
   or refused, then SELECT * of both tables) against
   (a) the implementation model Model/ConstrImpl.v (model_agrees) and
   (b) the reference Model/ConstrSpec.v, i.e. the property itself (spec_ok).
   Evaluated by vm_compute; definitions only. *)
From Coq Require Import ZArith List Bool.
From TV Require Export Model.SqlSpec Model.CheckStr Model.ConstrSpec Model.ConstrImpl Model.ConstrClass.
Import ListNotations.
Open Scope Z_scope.

(* what was seen after one statement *)
Inductive hobs :=
| HObs (ok : bool) (p c : table)     (* Ok / Err of the write, the rows of p and of c afterwards *)
| HBad.                              (* a panic, or a read-back that failed *)
Inductive case := Hist (sch : schema) (steps : list (stmt * hobs)).

(* ------------------------------------------------------------------ bags of rows *)
Fixpoint row_eqb (a b : row) : bool :=
  match a, b with
  | [], [] => true
  | x :: a', y :: b' => value_eqb x y && row_eqb a' b'
  | _, _ => false
  end.
Fixpoint remove_row (r : row) (t : table) : option table :=
  match t with
  | [] => None
  | x :: t' => if row_eqb r x then Some t'
               else match remove_row r t' with Some t2 => Some (x :: t2) | None => None end
  end.
Fixpoint bag_eqb (a b : table) : bool :=
  match a with
  | [] => match b with [] => true | _ => false end
  | r :: a' => match remove_row r b with Some b' => bag_eqb a' b' | None => false end
  end.
Definition db_matches (d : db) (p c : table) : bool := bag_eqb (fst d) p && bag_eqb (snd d) c.

(* ------------------------------------------------------------------ model_agrees *)
Fixpoint impl_go (sch : schema) (st : dstate) (steps : list (stmt * hobs)) : bool :=
  match steps with
  | [] => true
  | (s, o) :: rest =>
      match impl_step sch st s, o with
      | (Some ok, st'), HObs ok' p c =>
          Bool.eqb ok ok' && db_matches (abs_db st') p c && impl_go sch st' rest
      | _, _ => false
      end
  end.
Definition model_agrees (c : case) : bool :=
  match c with Hist sch steps => impl_go sch (d_empty sch) steps end.

(* ------------------------------------------------------------------ spec_ok: the property *)
(* every write is accepted iff the reference accepts it, and the tables afterwards are the
   reference's.  The reference state is carried forward; where the reference does not say
   (spec_step = None) nothing is demanded from there on. *)
Fixpoint spec_go (sch : schema) (d : db) (steps : list (stmt * hobs)) : bool :=
  match steps with
  | [] => true
  | (s, o) :: rest =>
      match spec_step sch d s with
      | None => true
      | Some (ok, d') =>
          match o with
          | HObs ok' p c => Bool.eqb ok ok' && db_matches d' p c && spec_go sch d' rest
          | HBad => false
          end
      end
  end.
Definition spec_ok (c : case) : bool :=
  match c with Hist sch steps => spec_go sch db_empty steps end.

(* the recorded findings that are still open (Model/ConstrClass.v kn_hist_class) *)
Definition known_class (c : case) : Z :=
  match c with Hist sch steps => kn_hist_class sch (map fst steps) end.
(* the side conditions of the theorems (known findings + conditions the proofs still use) *)
Definition side_class (c : case) : Z :=
  match c with Hist sch steps => hist_class sch (map fst steps) end.

Fixpoint failures_from (i : Z) (cs : list case) : list (Z * bool * bool * Z) :=
  match cs with
  | [] => []
  | c :: t =>
      let m := model_agrees c in
      let s := spec_ok c in
      if m && s then failures_from (i + 1) t else (i, m, s, known_class c) :: failures_from (i + 1) t
  end.
Definition failures := failures_from 0.
