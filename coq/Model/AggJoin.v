(* C16, second execution path: aggregates over a JOIN are not run by the Volcano HashAggregate but by
   the hand-written code at the end of the join branch of Database::query_with_columns
   (src/database/database.rs: find_hash_aggregate, AggregateGroups).  Definitions only: the
   reference for `SELECT .. FROM l JOIN r ON l.lk = r.rk [GROUP BY ..]` and a model of that code AS IT
   IS.  What it does:
     * the joined rows are first projected onto the select list: a plain column item takes that
       column of the joined row, every other item (an aggregate call) takes column 0;
     * GROUP BY columns and SUM arguments are then looked up BY THEIR INDEX IN THE JOINED ROW -- but
       in the projected row; an index beyond the projected row finds nothing;
     * groups are keyed by the Debug text of the values found (structural equality);
     * COUNT counts the projected rows of the group, SUM adds the values found as doubles, every
       other aggregate is NULL; HAVING is not applied; no joined row means no output row;
     * the output row is the group values found, then one value per aggregate (not the select order).
   Tied to the code by the correspondence run only. *)
From Coq Require Import ZArith List Bool.
From TV Require Export Model.SqlSpecAgg Model.AggImpl.
Import ListNotations.
Open Scope Z_scope.

(* ------------------------------------------------------------------ reference *)
(* inner join on l.lk = r.rk: the pairs whose keys compare equal (TRUE, not UNKNOWN) *)
Definition join_spec (l r : table) (lk rk : nat) : option table :=
  map_opt (fun x => x)
    (flat_map (fun a =>
       flat_map (fun b =>
         match nth_error a lk, nth_error b rk with
         | Some x, Some y =>
             match cmp3 CEq x y with
             | Some TT => [Some (a ++ b)]
             | Some _ => []
             | None => [None]
             end
         | _, _ => [None]
         end) r) l).

Definition spec_join_query (l r : table) (lk rk : nat) (q : aquery) : sres :=
  match join_spec l r lk rk with
  | Some j => spec_query q j
  | None => SNoDemand
  end.

(* ------------------------------------------------------------------ the hand-written path *)
(* the join itself, for integer keys (the order of the pairs is not observable here) *)
Definition join_impl (l r : table) (lk rk : nat) : option table :=
  map_opt (fun x => x)
    (flat_map (fun b =>
       flat_map (fun a =>
         match nth_error a lk, nth_error b rk with
         | Some (VInt x), Some (VInt y) => if x =? y then [Some (a ++ b)] else []
         | Some VNull, Some (VInt _ | VNull) | Some (VInt _), Some VNull => []
         | _, _ => [None]
         end) l) r).

(* output_source_indices: the column of the joined row a select item is read from; an item that is
   not a plain column (an aggregate call) reads column 0 *)
Definition jsrc (q : aquery) (i : nat) : nat :=
  match nth_error (q_keys q) i with
  | Some (ECol c) => c
  | _ => O
  end.
Definition jproject (q : aquery) (j : row) : row :=
  map (fun i => match nth_error j (jsrc q i) with Some v => v | None => VNull end) (q_sel q).

(* group_by_indices: the plain-column keys, by their index in the joined row *)
Definition jgroup_idx (q : aquery) : list nat :=
  flat_map (fun k => match plain_col k with Some c => [c] | None => [] end) (q_keys q).

Definition ov_eqb (a b : option value) : bool :=
  match a, b with
  | Some x, Some y => value_eqb x y
  | None, None => true
  | _, _ => false
  end.
Fixpoint ovl_eqb (a b : list (option value)) : bool :=
  match a, b with
  | [], [] => true
  | x :: a', y :: b' => ov_eqb x y && ovl_eqb a' b'
  | _, _ => false
  end.

(* one accumulator per aggregate: (count, exact sum scaled by 2^1074, every addend small enough
   that all partial sums are exact doubles) *)
Definition jstate := (Z * Z * bool)%type.
Definition jupd (p : row) (a : agg) (s : jstate) : jstate :=
  let '(c, x, ok) := s in
  match a_fn a with
  | FCountStar | FCount => (c + 1, x, ok)
  | FSum =>
      match plain_col (a_arg a) with
      | Some idx =>
          match nth_error p idx with
          | Some (VInt i) => (c, x + i * 2 ^ 1074, ok && (Z.abs i <? 2 ^ 40))
          | Some (VFloat f) => (c, x + f_scaled f, ok && f_safe f)
          | _ => s
          end
      | None => s
      end
  | _ => s
  end.
Definition jfin (a : agg) (s : jstate) : value :=
  let '(c, x, _) := s in
  match a_fn a with
  | FCountStar | FCount => VInt c
  | FSum => VFloat (round_q x (2 ^ 1074))
  | _ => VNull
  end.

Definition jentry := (list (option value) * list value * list jstate * Z)%type.   (* key, group values, states, rows *)

Fixpoint jinsert (aggs : list agg) (k : list (option value)) (vals : list value) (p : row) (tbl : list jentry) : list jentry :=
  match tbl with
  | [] => [(k, vals, map (fun a => jupd p a (0, 0, true)) aggs, 1)]
  | (k', vals', ss, n) :: t =>
      if ovl_eqb k k' then (k', vals', map (fun as_ => jupd p (fst as_) (snd as_)) (combine aggs ss), n + 1) :: t
      else (k', vals', ss, n) :: jinsert aggs k vals p t
  end.

Definition model_join_query (l r : table) (lk rk : nat) (q : aquery) : mres :=
  match q_where q, q_having q, join_impl l r lk rk with
  | None, None, Some j =>
      let aggs := sel_aggs q in
      let idx := jgroup_idx q in
      let tbl := fold_left (fun tbl jr =>
                   let p := jproject q jr in
                   jinsert aggs (map (nth_error p) idx)
                           (flat_map (fun i => match nth_error p i with Some v => [v] | None => [] end) idx) p tbl)
                 j [] in
      if forallb (fun e : jentry => forallb (fun s : jstate => snd s) (snd (fst e)) && (snd e <? 1024)) tbl
      then MRows (map (fun e : jentry => snd (fst (fst e)) ++ map (fun as_ => jfin (fst as_) (snd as_)) (combine aggs (snd (fst e)))) tbl)
      else MUnmod
  | _, _, _ => MUnmod
  end.
