(* C30 - Vectorized leaf search equals binary search.
   Property theorems only; the model is Model/LeafSearch.v (hand-written from src/btree/simd_scan.rs as of
   /repo commit 6f8c0a4 and extract_prefix of src/btree/leaf.rs), the proofs are in Proof/LeafSearch*.v.
   A page is the list of its keys in slot order; well-formed = strict_sorted (strictly increasing byte
   strings) with byte values in [0,256).  `bsearch` is the plain binary search over the full keys,
   `lin_search` its characterisation (first key >= probe). *)
From Coq Require Import ZArith List Bool.
From TV Require Import Lib.MachInt Model.LeafSearch
  Proof.LeafSearchLex Proof.LeafSearchBase Proof.LeafSearchMask Proof.LeafSearch Proof.LeafSearchTotal.
Import ListNotations.
Open Scope Z_scope.

(* the oracle: plain binary search never panics / runs out of fuel on a sorted page and returns the
   characterised answer ... *)
Theorem bsearch_is_reference :
  forall keys k, strict_sorted keys = true -> bsearch keys k = Done (lin_search keys k).
Proof. exact bsearch_correct. Qed.

(* ... Found i: key i is the probe; NotFound i: i keys are smaller, key i (if any) is greater *)
Theorem reference_found :
  forall keys k i, strict_sorted keys = true -> lin_search keys k = Found i ->
    0 <= i < klen keys /\ nth (Z.to_nat i) keys [] = k.
Proof. exact lin_search_found_iff. Qed.

Theorem reference_notfound :
  forall keys k i, lin_search keys k = NotFound i ->
    0 <= i <= klen keys /\
    (forall j, (j < Z.to_nat i)%nat -> lex_cmp (nth j keys []) k = Lt) /\
    (i < klen keys -> lex_cmp (nth (Z.to_nat i) keys []) k = Gt).
Proof. exact lin_search_notfound_iff. Qed.

(* CPU without AVX2: for every well-formed page of any size and every probe, find_key_simd = binary search *)
Theorem scalar_path_correct :
  forall keys k, strict_sorted keys = true -> keys_ok keys = true -> bytes_ok k = true ->
    find_scalar keys k = bsearch keys k /\ bsearch keys k = Done (lin_search keys k).
Proof. exact scalar_path_correct_thm. Qed.

(* the window returned by simd_prefix_search_scalar keeps the answer inside (what Corr/C30.v checks on the
   real function, which find_key cannot reach on a CPU that has AVX2) *)
Theorem scalar_window_valid :
  forall keys k, strict_sorted keys = true -> keys_ok keys = true -> bytes_ok k = true -> 0 < klen keys ->
    exists l r e, scalar_narrow (prefixes keys) (prefix_of k) = Done (l, r, e) /\ window_valid keys k l r.
Proof. exact scalar_window_l. Qed.

(* CPU with AVX2, the code as it is since commit 6f8c0a4 (fix of findings F-C30-1/2): for every
   well-formed page of any size and every probe, find_key_simd = binary search - no exception class *)
Theorem avx2_path_correct :
  forall keys k, strict_sorted keys = true -> keys_ok keys = true -> bytes_ok k = true ->
    find_avx2 keys k = bsearch keys k.
Proof. exact avx2_path_correct_thm. Qed.

(* HISTORICAL, about the loop as it was BEFORE commit 6f8c0a4 (Model avx2_loop_prefix_bug; not the current
   code): it was equal to binary search exactly outside the class of inputs on which its narrowing dropped a
   slot whose prefix equals the probe's ... *)
Theorem prefix_bug_correct_outside_class :
  forall keys k, strict_sorted keys = true -> keys_ok keys = true -> bytes_ok k = true ->
    defect_class keys k = 0 -> find_avx2_prefix_bug keys k = bsearch keys k.
Proof. exact prefix_bug_correct_outside_class_thm. Qed.

(* ... and wrong inside it: class 1, `lt_mask == 0 => right = batch_start` on a batch holding the target
   prefix (9 keys sharing one prefix: the 6th key was reported NotFound(0)); the current code finds it *)
Theorem prefix_bug_refuted_lt_mask_zero :
  exists keys k, strict_sorted keys = true /\ keys_ok keys = true /\ bytes_ok k = true /\
    defect_class keys k = 1 /\ bsearch keys k = Done (Found 5) /\ find_avx2_prefix_bug keys k = Done (NotFound 0).
Proof. exact prefix_bug_refuted_lt_mask_zero_l. Qed.

(* class 2, the final step cut the window at the end of the batch although the run of equal prefixes
   continued (16 keys, key 14 was reported NotFound(12)) *)
Theorem prefix_bug_refuted_batch_end :
  exists keys k, strict_sorted keys = true /\ keys_ok keys = true /\ bytes_ok k = true /\
    defect_class keys k = 2 /\ bsearch keys k = Done (Found 14) /\ find_avx2_prefix_bug keys k = Done (NotFound 12).
Proof. exact prefix_bug_refuted_batch_end_l. Qed.

(* the current code on the two former witnesses *)
Theorem former_witnesses_now_found :
  find_avx2 wit1_keys wit1_probe = Done (Found 5) /\ find_avx2 wit2_keys wit2_probe = Done (Found 14).
Proof. exact avx2_on_former_witnesses. Qed.

(* any page (sorted or not, any byte values), any probe, either CPU path: the search terminates within
   the model's fuel and takes no Panic branch (no usize underflow, no read outside the slot array) *)
Theorem find_key_total :
  forall avx2 keys k, exists s, find_key avx2 keys k = Done s.
Proof. exact find_key_total_l. Qed.

(* the prefix hint is monotone, so a strict prefix comparison decides the key comparison *)
Theorem prefix_monotone :
  forall a b, bytes_ok a = true -> bytes_ok b = true -> lex_cmp a b = Lt -> prefix_of a <= prefix_of b.
Proof. exact prefix_mono. Qed.

Theorem prefix_lt_implies_lt :
  forall a b, bytes_ok a = true -> bytes_ok b = true -> prefix_of a < prefix_of b -> lex_cmp a b = Lt.
Proof. exact prefix_lt_lex_lt. Qed.

(* signed cmpgt on sign-flipped 32-bit lanes is the unsigned comparison *)
Theorem avx2_unsigned_cmp :
  forall t p, 0 <= t < 2 ^ 32 -> 0 <= p < 2 ^ 32 -> lane_lt t p = (p <? t).
Proof. exact lane_lt_unsigned. Qed.

(* non-vacuity: a well-formed 20-key page with prefix ties (6 + 8 + 6 keys on three prefixes, one of them
   with the high bit set) searched through the vectorized loop (ex_keys, Proof/LeafSearch.v); both outcomes
   occur, also for a probe the pre-fix loop got wrong (defect_class 1); keys shorter than 4 bytes *)
Example c30_witness :
  strict_sorted ex_keys = true /\ keys_ok ex_keys = true /\
  find_avx2 ex_keys [97; 97; 97; 97; 3] = Done (Found 3) /\
  find_avx2 ex_keys [97; 97; 97; 99] = Done (NotFound 14) /\
  find_scalar ex_keys [97; 97; 97; 98; 7] = Done (Found 13) /\ find_avx2 ex_keys [97; 97; 97; 98; 7] = Done (Found 13) /\
  defect_class wit1_keys wit1_probe = 1 /\ find_avx2 wit1_keys wit1_probe = Done (Found 5) /\
  strict_sorted [[]; [0]; [0; 0]; [0; 0; 0; 0; 0]; [97]] = true /\
  find_scalar [[]; [0]; [0; 0]; [0; 0; 0; 0; 0]; [97]] [0; 0; 0] = Done (NotFound 3) /\
  prefix_of [97; 98] = 1633812480.
Proof. vm_compute. repeat split. Qed.

Check bsearch_is_reference : forall keys k, strict_sorted keys = true -> bsearch keys k = Done (lin_search keys k).
Check reference_found : forall keys k i, strict_sorted keys = true -> lin_search keys k = Found i -> 0 <= i < klen keys /\ nth (Z.to_nat i) keys [] = k.
Check reference_notfound : forall keys k i, lin_search keys k = NotFound i -> 0 <= i <= klen keys /\ (forall j, (j < Z.to_nat i)%nat -> lex_cmp (nth j keys []) k = Lt) /\ (i < klen keys -> lex_cmp (nth (Z.to_nat i) keys []) k = Gt).
Check scalar_path_correct : forall keys k, strict_sorted keys = true -> keys_ok keys = true -> bytes_ok k = true -> find_scalar keys k = bsearch keys k /\ bsearch keys k = Done (lin_search keys k).
Check scalar_window_valid : forall keys k, strict_sorted keys = true -> keys_ok keys = true -> bytes_ok k = true -> 0 < klen keys -> exists l r e, scalar_narrow (prefixes keys) (prefix_of k) = Done (l, r, e) /\ window_valid keys k l r.
Check avx2_path_correct : forall keys k, strict_sorted keys = true -> keys_ok keys = true -> bytes_ok k = true -> find_avx2 keys k = bsearch keys k.
Check prefix_bug_correct_outside_class : forall keys k, strict_sorted keys = true -> keys_ok keys = true -> bytes_ok k = true -> defect_class keys k = 0 -> find_avx2_prefix_bug keys k = bsearch keys k.
Check prefix_bug_refuted_lt_mask_zero : exists keys k, strict_sorted keys = true /\ keys_ok keys = true /\ bytes_ok k = true /\ defect_class keys k = 1 /\ bsearch keys k = Done (Found 5) /\ find_avx2_prefix_bug keys k = Done (NotFound 0).
Check prefix_bug_refuted_batch_end : exists keys k, strict_sorted keys = true /\ keys_ok keys = true /\ bytes_ok k = true /\ defect_class keys k = 2 /\ bsearch keys k = Done (Found 14) /\ find_avx2_prefix_bug keys k = Done (NotFound 12).
Check former_witnesses_now_found : find_avx2 wit1_keys wit1_probe = Done (Found 5) /\ find_avx2 wit2_keys wit2_probe = Done (Found 14).
Check find_key_total : forall avx2 keys k, exists s, find_key avx2 keys k = Done s.
Check prefix_monotone : forall a b, bytes_ok a = true -> bytes_ok b = true -> lex_cmp a b = Lt -> prefix_of a <= prefix_of b.
Check prefix_lt_implies_lt : forall a b, bytes_ok a = true -> bytes_ok b = true -> prefix_of a < prefix_of b -> lex_cmp a b = Lt.
Check avx2_unsigned_cmp : forall t p, 0 <= t < 2 ^ 32 -> 0 <= p < 2 ^ 32 -> lane_lt t p = (p <? t).

Print Assumptions bsearch_is_reference.
Print Assumptions reference_found.
Print Assumptions reference_notfound.
Print Assumptions scalar_path_correct.
Print Assumptions scalar_window_valid.
Print Assumptions avx2_path_correct.
Print Assumptions prefix_bug_correct_outside_class.
Print Assumptions prefix_bug_refuted_lt_mask_zero.
Print Assumptions prefix_bug_refuted_batch_end.
Print Assumptions former_witnesses_now_found.
Print Assumptions find_key_total.
Print Assumptions prefix_monotone.
Print Assumptions prefix_lt_implies_lt.
Print Assumptions avx2_unsigned_cmp.
