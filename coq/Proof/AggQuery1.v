(* C16, towards query_correct (1): the rows HashAggregate emits, in terms of the reference groups;
   one aggregate over the rows of a group; the reference environments. *)
From Coq Require Import ZArith List Bool Lia.
From TV Require Import Model.SqlSpecAgg Model.AggImpl Model.AggClass
  Proof.AggFold Proof.AggFoldSpec Proof.AggKeys Proof.AggGroups Proof.AggGroupsMain Proof.AggProgress Proof.AggNames.
Import ListNotations.
Open Scope Z_scope.

(* the finalized fold of one executor function over the rows of a group *)
Definition frun (f : mfn) (rows : list row) : value :=
  match run_agg f st0 rows with SOk s => finalize f s | _ => VNull end.
(* the row HashAggregate emits for a group: the key, then one value per function *)
Definition garow (fs : list mfn) (g : list value * list row) : row :=
  fst g ++ map (fun f => frun f (snd g)) fs.

Lemma finalize_all_frun : forall fs rows ss, states_ok fs rows ss -> finalize_all fs ss = map (fun f => frun f rows) fs.
Proof.
  intros fs rows ss H. induction H as [|f s fs' ss' H1 H2 IH]; [reflexivity|].
  cbn [finalize_all map]. unfold frun at 1. rewrite H1. now rewrite IH.
Qed.

Lemma entries_rows : forall fs tbl Gs, Forall2 (entry_ok fs) tbl Gs ->
  map (fun e : gentry => snd (fst e) ++ finalize_all fs (snd e)) tbl = map (garow fs) Gs.
Proof.
  intros fs tbl Gs H. induction H as [|e g tbl Gs [Hk [Hv Hs]] Ht IH]; [reflexivity|].
  cbn [map]. rewrite IH. f_equal. unfold garow. rewrite Hv. f_equal. now apply finalize_all_frun.
Qed.

(* ------------------------------------------------------------------ no GROUP BY: one group *)
Lemma nokeys_ks : forall rows ks, map_opt (fun r : row => map_opt (fun e => eval e r) []) rows = Some ks ->
  ks = map (fun _ => []) rows.
Proof.
  induction rows as [|r t IH]; intros ks H; cbn [map_opt] in H.
  - injection H as <-; reflexivity.
  - destruct (map_opt (fun r0 : row => Some []) t) as [l|] eqn:E; [|discriminate]. injection H as <-.
    cbn [map]. f_equal. apply IH. exact E.
Qed.
Lemma distinct_all_nil : forall (rows : list row), distinct_keys [[]] (map (fun _ => []) rows) = [].
Proof. induction rows as [|r t IH]; [reflexivity|]. simpl. exact IH. Qed.
Lemma filter_all_nil : forall (rows : list row),
  map snd (filter (fun kr : list value * row => key_same [] (fst kr)) (combine (map (fun _ => []) rows) rows)) = rows.
Proof.
  induction rows as [|r t IH]; [reflexivity|]. cbn [map combine]. cbn [filter].
  change (key_same [] (fst (@nil value, r))) with true. cbn iota. cbn [map snd]. f_equal. exact IH.
Qed.
Lemma groups_nokeys : forall r (t : list row),
  groups_of (combine (map (fun _ => []) (r :: t)) (r :: t)) = [([], r :: t)].
Proof.
  intros r t. unfold groups_of.
  replace (map fst (combine (map (fun _ : row => @nil value) (r :: t)) (r :: t))) with (map (fun _ : row => @nil value) (r :: t)).
  - cbn [map distinct_keys existsb]. rewrite distinct_all_nil. cbn [map]. f_equal. f_equal.
    apply (filter_all_nil (r :: t)).
  - generalize (r :: t). intros l. induction l as [|x l IH]; [reflexivity|]. cbn [map combine fst]. now rewrite <- IH.
Qed.

(* the groups the reference forms *)
Definition ref_gs (keys : list expr) (ks : list (list value)) (rows : list row) : list (list value * list row) :=
  match keys with
  | [] => [([], rows)]
  | _ => groups_of (combine ks rows)
  end.

Theorem agg_rows_groups : forall keys fs rows ks,
  all_plain keys = true ->
  map_opt (fun r => map_opt (fun e => eval e r) keys) rows = Some ks ->
  key_cols_ok (length keys) ks = true ->
  (forall g, In g (ref_gs keys ks rows) -> folds_ok fs (snd g)) ->
  agg_rows keys fs rows = SOk (map (garow fs) (ref_gs keys ks rows)).
Proof.
  intros keys fs rows ks A M K Hf.
  destruct (map_opt_combine _ rows ks M) as [C1 [C2 C3]].
  assert (Hlen : forall k, In k ks -> length k = length keys).
  { intros k Hk. rewrite <- C1 in Hk. apply in_map_iff in Hk as [[k' r] [<- Hp]]. rewrite Forall_forall in C3.
    specialize (C3 _ Hp). cbn [fst snd] in *. now apply map_opt_length in C3. }
  set (P := fun k => In k ks).
  assert (Hc : forall a b, P a -> P b -> key_same a b = gkl_eqb (cls a) (cls b)).
  { intros a b Ia Ib. apply same_cls. apply (key_cols_compat (length keys) ks); auto. }
  assert (Hkeys : Forall (fun kr : list value * row => key_of keys (snd kr) = SOk (cls (fst kr), fst kr)) (combine ks rows)).
  { rewrite Forall_forall in *. intros kr Hkr. apply key_of_plain; auto. }
  assert (HP : Forall P (map fst (combine ks rows))) by (rewrite C1; apply Forall_forall; auto).
  (* the general machinery needs the folds over groups_of (combine ks rows) *)
  assert (Hf' : forall g, In g (groups_of (combine ks rows)) -> folds_ok fs (snd g)).
  { destruct keys as [|k0 kt]; [|exact Hf].
    apply nokeys_ks in M. subst ks. destruct rows as [|r t]; [intros g []|].
    rewrite groups_nokeys. intros g [<-|[]]. apply Hf. now left. }
  destruct (hash_progress P Hc keys fs (combine ks rows) Hkeys HP Hf') as [tbl H]. rewrite C2 in H.
  pose proof (hash_groups P Hc keys fs (combine ks rows) tbl Hkeys HP) as R. rewrite C2 in R. specialize (R H).
  unfold agg_rows. rewrite H. cbn [sbind]. f_equal.
  destruct keys as [|k0 kt].
  - apply nokeys_ks in M. subst ks. destruct rows as [|r t].
    + cbn in H. injection H as <-. cbn [ref_gs map]. unfold garow. cbn [fst snd app]. f_equal.
      apply finalize_all_frun. apply init_states_ok.
    + rewrite groups_nokeys in R. inversion R as [|e g tb gs Re Rt]; subst. inversion Rt; subst.
      cbn [ref_gs]. apply (entries_rows fs [e] [([], r :: t)]). constructor; [exact Re|constructor].
  - destruct tbl; cbn [ref_gs]; now apply entries_rows.
Qed.

(* ------------------------------------------------------------------ one aggregate over the rows of a group *)
Lemma map_opt_col : forall c rows vs, map_opt (eval (ECol c)) rows = Some vs ->
  map (fun r : list value => nth_error r c) rows = map Some vs.
Proof.
  induction rows as [|r t IH]; intros vs H; cbn [map_opt] in H.
  - injection H as <-; reflexivity.
  - change (eval (ECol c) r) with (nth_error r c) in H. destruct (nth_error r c) as [v|] eqn:N; [|discriminate].
    destruct (map_opt (eval (ECol c)) t) as [l|] eqn:E; [|discriminate]. injection H as <-.
    cbn [map]. rewrite N. f_equal. now apply IH.
Qed.

Lemma fold_count_rows : forall (rows : list row) s,
  exists s', fold_upd KCount s (map (fun _ => Some (VInt 1)) rows) = SOk s' /\ st_count s' = st_count s + zlen rows.
Proof.
  induction rows as [|v t IH]; intros s; cbn [map fold_upd upd sbind].
  - exists s; split; [reflexivity|]. unfold zlen; cbn; lia.
  - destruct (IH (with_count s (st_count s + 1))) as [s' [E C]]. exists s'; split; [exact E|].
    rewrite C, zlen_cons; cbn [with_count st_count]; lia.
Qed.
Lemma kind_of_mfn_of : forall a, kind_of (mfn_of a) = kind_of_fn (a_fn a).
Proof. intros [f e]; destruct f; reflexivity. Qed.

(* the aggregate of the reference over the rows of a group is what the fold of update finalizes to *)
Theorem agg_run_spec : forall a rows v,
  plain_agg a = true -> agg_spec a rows = AVal v ->
  (forall vs, map_opt (eval (a_arg a)) rows = Some vs -> int_sums (a_fn a) vs = true) ->
  exists s, run_agg (mfn_of a) st0 rows = SOk s /\ finalize (mfn_of a) s = v.
Proof.
  intros [f e] rows v Pa S Hcls. unfold agg_spec in S. cbn [a_fn a_arg] in *.
  unfold finalize. rewrite kind_of_mfn_of. cbn [a_fn].
  destruct f.
  - (* COUNT( * ) *)
    injection S as <-.
    change (mfn_of {| a_fn := FCountStar; a_arg := e |}) with (MCount AStar).
    rewrite (run_agg_fold (MCount AStar) rows _ st0 (arg_vals_star rows)). cbn [kind_of kind_of_fn].
    destruct (fold_count_rows rows st0) as [s [E N]].
    exists s; split; [exact E|]. cbn [fin]. rewrite N. reflexivity.
  - unfold plain_agg in Pa; cbn [a_fn a_arg] in Pa. destruct (is_plain_col _ Pa) as [c ->].
    destruct (map_opt (eval (ECol c)) rows) as [vs|] eqn:M; [|discriminate].
    change (mfn_of {| a_fn := FCount; a_arg := ECol c |}) with (MCount (ACol c)).
    rewrite (run_agg_fold (MCount (ACol c)) rows _ st0 (arg_vals_col c rows)). rewrite (map_opt_col c rows vs M).
    apply (agg_fold_spec FCount vs v (Hcls vs eq_refl) S).
  - unfold plain_agg in Pa; cbn [a_fn a_arg] in Pa. destruct (is_plain_col _ Pa) as [c ->].
    destruct (map_opt (eval (ECol c)) rows) as [vs|] eqn:M; [|discriminate].
    change (mfn_of {| a_fn := FSum; a_arg := ECol c |}) with (MSum (ACol c)).
    rewrite (run_agg_fold (MSum (ACol c)) rows _ st0 (arg_vals_col c rows)). rewrite (map_opt_col c rows vs M).
    apply (agg_fold_spec FSum vs v (Hcls vs eq_refl) S).
  - unfold plain_agg in Pa; cbn [a_fn a_arg] in Pa. destruct (is_plain_col _ Pa) as [c ->].
    destruct (map_opt (eval (ECol c)) rows) as [vs|] eqn:M; [|discriminate].
    change (mfn_of {| a_fn := FAvg; a_arg := ECol c |}) with (MAvg (ACol c)).
    rewrite (run_agg_fold (MAvg (ACol c)) rows _ st0 (arg_vals_col c rows)). rewrite (map_opt_col c rows vs M).
    apply (agg_fold_spec FAvg vs v (Hcls vs eq_refl) S).
  - unfold plain_agg in Pa; cbn [a_fn a_arg] in Pa. destruct (is_plain_col _ Pa) as [c ->].
    destruct (map_opt (eval (ECol c)) rows) as [vs|] eqn:M; [|discriminate].
    change (mfn_of {| a_fn := FMin; a_arg := ECol c |}) with (MMin (ACol c)).
    rewrite (run_agg_fold (MMin (ACol c)) rows _ st0 (arg_vals_col c rows)). rewrite (map_opt_col c rows vs M).
    apply (agg_fold_spec FMin vs v (Hcls vs eq_refl) S).
  - unfold plain_agg in Pa; cbn [a_fn a_arg] in Pa. destruct (is_plain_col _ Pa) as [c ->].
    destruct (map_opt (eval (ECol c)) rows) as [vs|] eqn:M; [|discriminate].
    change (mfn_of {| a_fn := FMax; a_arg := ECol c |}) with (MMax (ACol c)).
    rewrite (run_agg_fold (MMax (ACol c)) rows _ st0 (arg_vals_col c rows)). rewrite (map_opt_col c rows vs M).
    apply (agg_fold_spec FMax vs v (Hcls vs eq_refl) S).
Qed.

Corollary agg_frun_spec : forall a rows v,
  plain_agg a = true -> agg_spec a rows = AVal v ->
  (forall vs, map_opt (eval (a_arg a)) rows = Some vs -> int_sums (a_fn a) vs = true) ->
  (exists s, run_agg (mfn_of a) st0 rows = SOk s) /\ frun (mfn_of a) rows = v.
Proof.
  intros a rows v Pa S H. destruct (agg_run_spec a rows v Pa S H) as [s [E F]].
  split; [eauto|]. unfold frun. now rewrite E.
Qed.

(* ------------------------------------------------------------------ the environments of the reference *)
Lemma agg_row_spec : forall aggs rows vs, agg_row aggs rows = Some (Some vs) ->
  Forall2 (fun a v => agg_spec a rows = AVal v) aggs vs.
Proof.
  induction aggs as [|a t IH]; intros rows vs H; cbn [agg_row] in H.
  - injection H as <-. constructor.
  - destruct (agg_spec a rows) as [| |v] eqn:S; try discriminate;
      destruct (agg_row t rows) as [[l|]|] eqn:R; try discriminate.
    injection H as <-. constructor; [exact S|]. now apply IH.
Qed.
Lemma group_envs_spec : forall aggs gs envs, group_envs aggs gs = Some (Some envs) ->
  Forall2 (fun g env => exists vs, env = fst g ++ vs /\ Forall2 (fun a v => agg_spec a (snd g) = AVal v) aggs vs) gs envs.
Proof.
  intros aggs. induction gs as [|[k rows] t IH]; intros envs H; cbn [group_envs] in H.
  - injection H as <-. constructor.
  - destruct (agg_row aggs rows) as [[vs|]|] eqn:R; try discriminate;
      destruct (group_envs aggs t) as [[es|]|] eqn:G; try discriminate.
    injection H as <-. constructor; [|now apply IH].
    exists vs. split; [reflexivity|]. now apply agg_row_spec.
Qed.
