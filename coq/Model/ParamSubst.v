(* C13 model: how a bound parameter becomes SQL text on the query path.
     src/database/prepared.rs   substitute_parameters, value_to_sql_literal, count_parameters
     src/sql/lexer.rs           Lexer::next_token and every scan_* helper, restricted to what decides
                                WHERE a token starts and ends and whether it is a parameter
     src/sql/parser.rs:1122     the parser's `s.replace("''", "'")` on Token::String
     src/database/convert.rs    eval_literal on Literal::Integer / HexNumber (what the literal denotes)
   DEFINITIONS ONLY, no proofs.

   Conventions
   * the input is the UTF-8 byte string of the `&str` (bytes are Z, text is `list Z`);
   * a scanner gets the first byte `b` of a token and the remaining input `r` and returns the token
     kind and the number of bytes of `r` the token consumes (so a token is `b :: firstn n r` and the
     lexer goes on with `skipn n r`); nat is used only for these lengths and for fuel;
   * whitespace is a one-byte item of kind KWs and a comment is an item of kind KCom: the Rust lexer
     skips both before/inside next_token, and substitute_parameters copies every byte that is not
     inside a Parameter token, so nothing is lost by making them items (since d86c1b1 next_token
     skips comments in a loop before the dispatch instead of recursing from scan_minus / scan_slash:
     the same token stream, and the same items here);
   * keyword lookup is not modelled (keywords and identifiers are both KId);
   * `depth` of scan_block_comment is an i32 in Rust; it cannot overflow on inputs shorter than 4 GiB
     and is a nat here;
   * the token loop is recursion on fuel; `lex` passes `length sql`, and Proof/ParamSubstLex.v
     (lex_total) shows that fuel never runs out. *)
From Coq Require Import ZArith List Bool.
Import ListNotations.
Open Scope Z_scope.

(* ---------------------------------------------------------------- byte classes *)
Definition is_upper (b : Z) : bool := (65 <=? b) && (b <=? 90).
Definition is_lower (b : Z) : bool := (97 <=? b) && (b <=? 122).
Definition is_alpha (b : Z) : bool := is_upper b || is_lower b.
Definition is_digit (b : Z) : bool := (48 <=? b) && (b <=? 57).
Definition is_alnum (b : Z) : bool := is_alpha b || is_digit b.
Definition is_hexdigit (b : Z) : bool :=
  is_digit b || ((65 <=? b) && (b <=? 70)) || ((97 <=? b) && (b <=? 102)).
Definition is_bindigit (b : Z) : bool := (b =? 48) || (b =? 49).
Definition is_octdigit (b : Z) : bool := (48 <=? b) && (b <=? 55).
Definition is_ident_start (b : Z) : bool := is_alpha b || (b =? 95).
Definition is_ident_char (b : Z) : bool := is_alnum b || (b =? 95).
Definition is_ws (b : Z) : bool := (b =? 32) || (b =? 9) || (b =? 13) || (b =? 10).
Definition is_exp (b : Z) : bool := (b =? 101) || (b =? 69).
Definition is_sign (b : Z) : bool := (b =? 43) || (b =? 45).
Definition not_newline (b : Z) : bool := negb (b =? 10).

Definition q_single := 39.   (* single quote *)
Definition q_double := 34.   (* double quote *)
Definition q_back := 96.     (* backtick *)

(* ---------------------------------------------------------------- token kinds *)
Inductive tk :=
| KWs                (* one whitespace byte (skip_whitespace) *)
| KCom               (* a `--` comment up to the newline, or a closed (nested) block comment *)
| KId                (* identifier or keyword *)
| KInt               (* Token::Integer *)
| KFlt               (* Token::Float *)
| KStr               (* Token::String: closed '...' or $tag$...$tag$ *)
| KQid               (* Token::QuotedIdent: closed "..." or `...` *)
| KHex               (* Token::HexNumber / BinaryNumber / OctalNumber (X'..', 0x.., 0b.., 0o..) *)
| KMinus             (* Token::Minus *)
| KOp                (* any other operator / punctuation token *)
| KErr               (* Token::Error(_) *)
| KAnon              (* Token::Parameter(Anonymous) *)
| KPos (n : Z)       (* Token::Parameter(Positional(n)) *)
| KNamed.            (* Token::Parameter(Named(_)) *)

Definition is_param (k : tk) : bool :=
  match k with KAnon | KPos _ | KNamed => true | _ => false end.

(* ---------------------------------------------------------------- scanning helpers *)
(* `while !eof && p(current) { advance }`: how many bytes *)
Fixpoint count_while (p : Z -> bool) (l : list Z) : nat :=
  match l with
  | b :: t => if p b then S (count_while p t) else O
  | [] => O
  end.

Definition starts_with (b : Z) (l : list Z) : bool :=
  match l with c :: _ => c =? b | [] => false end.

Fixpoint prefix_of (t l : list Z) : bool :=
  match t, l with
  | [], _ => true
  | x :: t', y :: l' => (x =? y) && prefix_of t' l'
  | _ :: _, [] => false
  end.

(* decimal value of an all-digit byte string *)
Definition digits_value (l : list Z) : Z := fold_left (fun acc b => acc * 10 + (b - 48)) l 0.
Definition u32_max : Z := 4294967295.
Definition i64_max : Z := 9223372036854775807.
Definition i64_min : Z := -9223372036854775808.

(* the loop of scan_string / scan_quoted_identifier / scan_backtick_identifier, started just after
   the opening quote q: Some (body, rest) when a closing quote is found (body = the raw bytes between
   the quotes, doubled quotes still doubled, as in Token::String(&input[start..end])), None when the
   input ends first ("unterminated ...") *)
Fixpoint qsplit (q : Z) (l : list Z) : option (list Z * list Z) :=
  match l with
  | [] => None
  | c :: t =>
      if c =? q then
        match t with
        | c2 :: t2 =>
            if c2 =? q then
              match qsplit q t2 with Some (body, rest) => Some (c :: c2 :: body, rest) | None => None end
            else Some ([], t)
        | [] => Some ([], [])
        end
      else
        match qsplit q t with Some (body, rest) => Some (c :: body, rest) | None => None end
  end.

(* bytes of `r` consumed by a quoted token whose opening quote has been read *)
Definition scan_quoted (q : Z) (kclosed : tk) (r : list Z) : tk * nat :=
  match qsplit q r with
  | Some (body, _) => (kclosed, S (length body))
  | None => (KErr, length r)
  end.

(* scan_block_comment after `/*`, depth = Rust depth - 1; Some n = closed after n bytes *)
Fixpoint blk (depth : nat) (l : list Z) : option nat :=
  match l with
  | [] => None
  | c :: t =>
      match t with
      | c2 :: t2 =>
          if (c =? 47) && (c2 =? 42) then option_map (fun n => S (S n)) (blk (S depth) t2)
          else if (c =? 42) && (c2 =? 47) then
            match depth with O => Some 2%nat | S d => option_map (fun n => S (S n)) (blk d t2) end
          else option_map S (blk depth t)
      | [] => None
      end
  end.

(* scan_dollar_string after the opening tag: position of the first `$` at which end_tag starts *)
Fixpoint find_tag (end_tag : list Z) (l : list Z) : option nat :=
  match l with
  | [] => None
  | c :: t =>
      if (c =? 36) && prefix_of end_tag l then Some O
      else option_map S (find_tag end_tag t)
  end.

Definition scan_dollar_string (end_tag : list Z) (l : list Z) : tk * nat :=
  match find_tag end_tag l with
  | Some n => (KStr, (n + length end_tag)%nat)
  | None => (KErr, length l)
  end.

(* optional exponent: bytes consumed, and whether there was one *)
Definition scan_exponent (l : list Z) : nat * bool :=
  match l with
  | c :: t =>
      if is_exp c then
        match t with
        | s :: t2 => if is_sign s then (S (S (count_while is_digit t2)), true)
                     else (S (count_while is_digit t), true)
        | [] => (1%nat, true)
        end
      else (O, false)
  | [] => (O, false)
  end.

(* scan_hex_number / scan_binary_number / scan_octal_number: `0` read, r = x|b|o :: digits *)
Definition scan_radix (p : Z -> bool) (r : list Z) : tk * nat :=
  let n := count_while p (tl r) in
  if (n =? 0)%nat then (KErr, 1%nat) else (KHex, S n).

(* the optional fraction of scan_number, at r1 = input after the integer digits *)
Definition scan_fraction (r1 : list Z) : nat * bool :=
  match r1 with
  | c :: r2 =>
      if c =? 46 then
        match r2 with
        | n :: _ =>
            if is_digit n then (S (count_while is_digit r2), true)
            else if n =? 46 then (O, false)
            else (1%nat, true)
        | [] => (O, false)
        end
      else (O, false)
  | [] => (O, false)
  end.

Definition scan_plain (r : list Z) : tk * nat :=
  let d1 := count_while is_digit r in
  let r1 := skipn d1 r in
  let '(d2, fl) := scan_fraction r1 in
  let '(d3, ex) := scan_exponent (skipn d2 r1) in
  (if fl || ex then KFlt else KInt, (d1 + d2 + d3)%nat).

(* scan_number when the first byte is a digit `b` (already read) *)
Definition scan_number (b : Z) (r : list Z) : tk * nat :=
  if b =? 48 then
    match r with
    | n :: _ =>
        if (n =? 120) || (n =? 88) then scan_radix is_hexdigit r
        else if (n =? 98) || (n =? 66) then scan_radix is_bindigit r
        else if (n =? 111) || (n =? 79) then scan_radix is_octdigit r
        else scan_plain r
    | [] => scan_plain r
    end
  else scan_plain r.

(* scan_identifier_or_keyword, incl. the X'..' hex string literal *)
Definition scan_ident (b : Z) (r : list Z) : tk * nat :=
  if ((b =? 120) || (b =? 88)) && starts_with 39 r then
    let body := tl r in
    let h := count_while is_hexdigit body in
    match skipn h body with
    | c :: _ => if c =? 39 then (KHex, S (S h)) else (KErr, S h)     (* invalid hex character: NOT consumed *)
    | [] => (KErr, S h)                                              (* unterminated *)
    end
  else (KId, count_while is_ident_char r).

Definition scan_dollar (r : list Z) : tk * nat :=
  match r with
  | [] => (KErr, O)
  | c :: t =>
      if is_digit c then
        let d := count_while is_digit r in
        let n := digits_value (firstn d r) in
        (if n <=? u32_max then KPos n else KErr, d)
      else if c =? 36 then
        let '(k, n) := scan_dollar_string [36; 36] t in (k, S n)
      else if is_ident_start c then
        let g := count_while is_ident_char r in
        match skipn g r with
        | d :: t2 =>
            if d =? 36 then
              let '(k, n) := scan_dollar_string (36 :: firstn g r ++ [36]) t2 in (k, (g + 1 + n)%nat)
            else (KErr, g)
        | [] => (KErr, g)
        end
      else (KErr, O)
  end.

Definition scan_colon (r : list Z) : tk * nat :=
  match r with
  | [] => (KOp, O)
  | c :: _ =>
      if (c =? 58) || (c =? 61) then (KOp, 1%nat)
      else if is_ident_start c then (KNamed, count_while is_ident_char r)
      else (KOp, O)
  end.

Definition scan_at (r : list Z) : tk * nat :=
  match r with
  | [] => (KErr, O)
  | c :: _ =>
      if c =? 62 then (KOp, 1%nat)
      else if is_ident_start c then (KNamed, count_while is_ident_char r)
      else (KErr, O)
  end.

Definition scan_question (r : list Z) : tk * nat :=
  match r with
  | c :: _ => if (c =? 124) || (c =? 38) then (KOp, 1%nat) else (KAnon, O)
  | [] => (KAnon, O)
  end.

Definition scan_minus (r : list Z) : tk * nat :=
  match r with
  | c :: t =>
      if c =? 45 then (KCom, count_while not_newline r)
      else if c =? 62 then (KOp, if starts_with 62 t then 2%nat else 1%nat)
      else (KMinus, O)
  | [] => (KMinus, O)
  end.

Definition scan_slash (r : list Z) : tk * nat :=
  match r with
  | c :: t =>
      if c =? 42 then
        match blk O t with Some n => (KCom, S n) | None => (KErr, length r) end
      else (KOp, O)
  | [] => (KOp, O)
  end.

Definition scan_pair (c2 : Z) (r : list Z) : nat := if starts_with c2 r then 1%nat else O.

Definition scan_lt (r : list Z) : nat :=
  match r with
  | c :: t =>
      if c =? 61 then (if starts_with 62 t then 2%nat else 1%nat)
      else if (c =? 62) || (c =? 60) || (c =? 64) then 1%nat
      else if (c =? 45) || (c =? 35) then (if starts_with 62 t then 2%nat else O)   (* else self.pos -= 1 *)
      else O
  | [] => O
  end.

Definition scan_dot (r : list Z) : tk * nat :=
  match r with
  | c :: _ =>
      if c =? 46 then (KOp, 1%nat)
      else if is_digit c then
        let d := count_while is_digit r in
        (KFlt, (d + fst (scan_exponent (skipn d r)))%nat)
      else (KOp, O)
  | [] => (KOp, O)
  end.

(* the dispatch of next_token on the first byte `b` of a token; `r` is the input after it *)
Definition scan (b : Z) (r : list Z) : tk * nat :=
  if is_ws b then (KWs, O)
  else if is_ident_start b then scan_ident b r
  else if is_digit b then scan_number b r
  else if b =? 39 then scan_quoted 39 KStr r
  else if b =? 34 then scan_quoted 34 KQid r
  else if b =? 96 then scan_quoted 96 KQid r
  else if b =? 36 then scan_dollar r
  else if b =? 58 then scan_colon r
  else if b =? 64 then scan_at r
  else if b =? 63 then scan_question r
  else if b =? 45 then scan_minus r
  else if b =? 47 then scan_slash r
  else if (b =? 43) || (b =? 42) || (b =? 37) || (b =? 94) || (b =? 126) then (KOp, O)
  else if b =? 38 then (KOp, scan_pair 38 r)
  else if b =? 124 then (KOp, scan_pair 124 r)
  else if b =? 35 then (KOp, match r with c :: t => if c =? 62 then (if starts_with 62 t then 2%nat else 1%nat) else O | [] => O end)
  else if b =? 61 then (KOp, scan_pair 62 r)
  else if b =? 60 then (KOp, scan_lt r)
  else if b =? 62 then (KOp, match r with c :: _ => if (c =? 61) || (c =? 62) then 1%nat else O | [] => O end)
  else if b =? 33 then (if starts_with 61 r then (KOp, 1%nat) else (KErr, O))
  else if (b =? 40) || (b =? 41) || (b =? 91) || (b =? 93) || (b =? 123) || (b =? 125) || (b =? 44) || (b =? 59)
       then (KOp, O)
  else if b =? 46 then scan_dot r
  else (KErr, O).

(* ---------------------------------------------------------------- the token loop *)
(* an item: token kind and its text *)
Definition item := (tk * list Z)%type.

Fixpoint lex_loop (fuel : nat) (l : list Z) : option (list item) :=
  match l with
  | [] => Some []
  | b :: r =>
      match fuel with
      | O => None                                   (* out of fuel *)
      | S f =>
          let '(k, n) := scan b r in
          match lex_loop f (skipn n r) with
          | Some t => Some ((k, b :: firstn n r) :: t)
          | None => None
          end
      end
  end.

Definition lex (sql : list Z) : option (list item) := lex_loop (length sql) sql.

(* ---------------------------------------------------------------- values and their SQL literal *)
(* OwnedValue, the variants whose rendering is modelled; a float carries, as an oracle column, what
   Rust's `{:?}` formatting printed for it (`shown`: shortest round-trip digits, always with a
   fraction or an exponent) *)
Inductive val :=
| VNull
| VBool (b : bool)
| VInt (z : Z)
| VText (s : list Z)
| VBlob (b : list Z)
| VFloat (bits : Z) (shown : list Z).

(* i64::to_string *)
Fixpoint dec_digits (fuel : nat) (n : Z) (acc : list Z) : list Z :=
  match fuel with
  | O => acc
  | S f => if n <? 10 then (48 + n) :: acc else dec_digits f (n / 10) ((48 + n mod 10) :: acc)
  end.
Definition show_nat (n : Z) : list Z := dec_digits 40 n [].
Definition show_int (z : Z) : list Z := if z <? 0 then 45 :: show_nat (- z) else show_nat z.

(* s.replace('\'', "''") *)
Fixpoint escape (s : list Z) : list Z :=
  match s with
  | [] => []
  | c :: t => if c =? 39 then 39 :: 39 :: escape t else c :: escape t
  end.

(* format!("{:02x}", byte) *)
Definition hex_digit (n : Z) : Z := if n <? 10 then 48 + n else 87 + n.
Fixpoint hex_of (b : list Z) : list Z :=
  match b with
  | [] => []
  | x :: t => hex_digit (x / 16) :: hex_digit (x mod 16) :: hex_of t
  end.

Definition t_null : list Z := [78; 85; 76; 76].
Definition t_true : list Z := [84; 82; 85; 69].
Definition t_false : list Z := [70; 65; 76; 83; 69].

(* fn value_to_sql_literal *)
Definition render (v : val) : list Z :=
  match v with
  | VNull => t_null
  | VBool b => if b then t_true else t_false
  | VInt z => show_int z
  | VText s => 39 :: escape s ++ [39]
  | VBlob b => 88 :: 39 :: hex_of b ++ [39]
  | VFloat _ shown => shown
  end.

(* what substitute_parameters writes for a value: the literal, after one space when the literal
   starts with a minus sign (so that `30-?` with -10 becomes `30- -10`, not the comment `30--10`) *)
Definition emit (v : val) : list Z :=
  if starts_with 45 (render v) then 32 :: render v else render v.

(* ---------------------------------------------------------------- substitute_parameters *)
Inductive sres := SOk (out : list Z) | SErr | SFuel.

(* the loop body on the remaining items; `pidx` is param_idx *)
Fixpoint subst_items (items : list item) (ps : list val) (pidx : nat) : option (list Z) :=
  match items with
  | [] => Some []
  | (k, txt) :: t =>
      let go (idx next : nat) :=
        match nth_error ps idx with
        | Some v =>
            match subst_items t ps next with Some o => Some (emit v ++ o) | None => None end
        | None => None                              (* bail!("parameter index out of range") *)
        end in
      match k with
      | KAnon | KNamed => go pidx (S pidx)
      | KPos n => go (Z.to_nat (n - 1)) pidx        (* n.saturating_sub(1) as usize *)
      | _ => match subst_items t ps pidx with Some o => Some (txt ++ o) | None => None end
      end
  end.

Definition subst (sql : list Z) (ps : list val) : sres :=
  match lex sql with
  | None => SFuel
  | Some items => match subst_items items ps O with Some o => SOk o | None => SErr end
  end.

(* fn count_parameters *)
Definition count_items (items : list item) : Z :=
  let maxpos := fold_left (fun m it => match fst it with KPos n => Z.max m n | _ => m end) items 0 in
  let anon := fold_left (fun c it => match fst it with KAnon | KNamed => c + 1 | _ => c end) items 0 in
  if 0 <? maxpos then maxpos else anon.

(* parameter tokens with their spans (start, end), in order: what the loop of
   substitute_parameters sees through lexer.span() *)
Fixpoint spans_from (pos : Z) (items : list item) : list (tk * Z * Z) :=
  match items with
  | [] => []
  | (k, txt) :: t =>
      let e := pos + Z.of_nat (length txt) in
      match k with
      | KWs | KCom => spans_from e t
      | _ => (k, pos, e) :: spans_from e t
      end
  end.

(* ---------------------------------------------------------------- what a literal denotes *)
(* the parser's unescape of a Token::String body: s.replace("''", "'") (leftmost, non-overlapping) *)
Fixpoint unescape (s : list Z) : list Z :=
  match s with
  | [] => []
  | c :: t =>
      match t with
      | c2 :: t2 => if (c =? 39) && (c2 =? 39) then 39 :: unescape t2 else c :: unescape t
      | [] => [c]
      end
  end.

(* str::parse::<i64>() on the text of a Token::Integer (all digits, non-empty) *)
Definition parse_i64_digits (ds : list Z) : option Z :=
  let v := digits_value ds in if v <=? i64_max then Some v else None.

Definition unhex_digit (c : Z) : Z :=
  if is_digit c then c - 48 else if c <? 97 then c - 55 else c - 87.
Fixpoint unhex (h : list Z) : list Z :=
  match h with
  | a :: b :: t => (unhex_digit a * 16 + unhex_digit b) :: unhex t
  | _ => []
  end.

(* the value a literal text denotes, read the way the lexer + parser + eval_literal read it:
   only the token sequences value_to_sql_literal can produce for NULL / bool / int / text / blob *)
Inductive lit_val := LNull | LBool (b : bool) | LInt (z : Z) | LText (s : list Z) | LBlob (b : list Z)
                   | LIntOverflow      (* Integer token that does not fit i64: parse error *)
                   | LOther.

Definition zl_eqb (a b : list Z) : bool :=
  (fix go (a b : list Z) : bool :=
     match a, b with
     | [], [] => true
     | x :: a', y :: b' => (x =? y) && go a' b'
     | _, _ => false
     end) a b.

Definition upper (b : Z) : Z := if is_lower b then b - 32 else b.

Definition read_literal (txt : list Z) : lit_val :=
  match lex txt with
  | Some [(KId, w)] =>
      let u := map upper w in
      if zl_eqb u t_null then LNull else if zl_eqb u t_true then LBool true
      else if zl_eqb u t_false then LBool false else LOther
  | Some [(KInt, ds)] =>
      match parse_i64_digits ds with Some v => LInt v | None => LIntOverflow end
  | Some [(KMinus, _); (KInt, ds)] =>
      match parse_i64_digits ds with Some v => LInt (- v) | None => LIntOverflow end
  | Some [(KStr, q :: body)] =>
      if q =? 39 then LText (unescape (removelast body)) else LOther
  | Some [(KHex, x :: q :: body)] =>
      if ((x =? 88) || (x =? 120)) && (q =? 39) then LBlob (unhex (removelast body)) else LOther
  | _ => LOther
  end.

(* ---------------------------------------------------------------- does substitution keep the token structure? *)
(* substituting the literals changes the token structure of the statement (the model's own
   prediction): e.g. `50-?` with -5 becomes `50--5`, a comment *)
Fixpoint expand_items (items : list item) (ps : list val) (pidx : nat) : option (list item) :=
  match items with
  | [] => Some []
  | (k, txt) :: t =>
      let go (idx next : nat) :=
        match nth_error ps idx, expand_items t ps next with
        | Some v, Some r => match lex (emit v) with Some li => Some (li ++ r) | None => None end
        | _, _ => None
        end in
      match k with
      | KAnon | KNamed => go pidx (S pidx)
      | KPos n => go (Z.to_nat (n - 1)) pidx
      | _ => option_map (cons (k, txt)) (expand_items t ps pidx)
      end
  end.
Definition tk_eqb (a b : tk) : bool :=
  match a, b with
  | KWs, KWs | KCom, KCom | KId, KId | KInt, KInt | KFlt, KFlt | KStr, KStr | KQid, KQid | KHex, KHex
  | KMinus, KMinus | KOp, KOp | KErr, KErr | KAnon, KAnon | KNamed, KNamed => true
  | KPos n, KPos m => n =? m
  | _, _ => false
  end.
Definition item_eqb (a b : item) : bool := tk_eqb (fst a) (fst b) && zl_eqb (snd a) (snd b).
Fixpoint items_eqb (a b : list item) : bool :=
  match a, b with
  | [], [] => true
  | x :: a', y :: b' => item_eqb x y && items_eqb a' b'
  | _, _ => false
  end.
Definition subst_stable (sql : list Z) (ps : list val) : bool :=
  match lex sql with
  | Some items =>
      match subst_items items ps O, expand_items items ps O with
      | Some out, Some want => match lex out with Some got => items_eqb got want | None => false end
      | None, None => true
      | _, _ => false
      end
  | None => false
  end.


(* ---------------------------------------------------------------- recorded deviations of single values *)
Definition is_int_min (v : val) : bool := match v with VInt z => z =? i64_min | _ => false end.


(* the value a bound parameter stands for, as a literal value *)
Definition lit_of (v : val) : lit_val :=
  match v with
  | VNull => LNull
  | VBool b => LBool b
  | VInt z => LInt z
  | VText s => LText s
  | VBlob b => LBlob b
  | VFloat _ _ => LOther
  end.

(* finding class of a single value: 6 = i64::MIN (eval_literal cannot read its literal); 0 = none *)
Definition val_class (v : val) : Z := if is_int_min v then 6 else 0.

Definition is_float (v : val) : bool := match v with VFloat _ _ => true | _ => false end.
Definition byte_ok (x : Z) : bool := (0 <=? x) && (x <? 256).
(* well-formed value: an i64, bytes in range *)
Definition val_ok (v : val) : bool :=
  match v with
  | VInt z => (i64_min <=? z) && (z <=? i64_max)
  | VBlob b => forallb byte_ok b
  | _ => true
  end.

(* ---------------------------------------------------------------- vocabulary of the theorems *)
(* the three quoted constructs: '...' strings, "..." and `...` identifiers *)
Definition quote_kind (q : Z) (k : tk) : Prop :=
  (q = 39 /\ k = KStr) \/ (q = 34 /\ k = KQid) \/ (q = 96 /\ k = KQid).

(* how many anonymous / named placeholders a run of items contains *)
Definition count_anon (items : list item) : nat :=
  length (filter (fun it => match fst it with KAnon | KNamed => true | _ => false end) items).

(* the byte after a number does not continue it: no digit, no dot, no letter or underscore *)
Definition num_follow_ok (rest : list Z) : bool :=
  match rest with
  | [] => true
  | c :: _ => negb (is_digit c) && negb (c =? 46) && negb (is_ident_char c)
  end.

(* ---------------------------------------------------------------- placeholders that stand as tokens of their own *)
(* bytes after which a placeholder may stand: whitespace, `(` and `,` *)
Definition is_sep_before (b : Z) : bool := is_ws b || (b =? 40) || (b =? 44).
(* bytes that may follow a placeholder: whitespace, `)`, `,` and `;` *)
Definition is_sep_after (b : Z) : bool := is_ws b || (b =? 41) || (b =? 44) || (b =? 59).

(* a well-formed NULL / boolean / integer / text / blob value *)
Definition simple_val (v : val) : bool := val_ok v && negb (is_float v).

(* every parameter item is preceded by a one-byte separator item (or starts the statement: prev_ok)
   and is followed by a non-parameter item that begins with a separator (or ends the statement) *)
Fixpoint isolated (prev_ok : bool) (items : list item) : bool :=
  match items with
  | [] => true
  | (k, txt) :: t =>
      if is_param k then
        prev_ok
        && match t with
           | [] => true
           | (k2, c :: _) :: _ => negb (is_param k2) && is_sep_after c
           | (_, []) :: _ => false
           end
        && isolated false t
      else isolated (match txt with [c] => is_sep_before c | _ => false end) t
  end.

(* the items substitute_parameters' output for a value is read as (a negative number: space, minus, digits) *)
Definition lit_items (v : val) : list item :=
  match v with
  | VNull => [(KId, t_null)]
  | VBool b => [(KId, if b then t_true else t_false)]
  | VInt z => if z <? 0 then [(KWs, [32]); (KMinus, [45]); (KInt, show_nat (- z))] else [(KInt, show_nat z)]
  | VText s => [(KStr, render (VText s))]
  | VBlob b => [(KHex, render (VBlob b))]
  | VFloat _ _ => []
  end.

(* the scanner cannot tell X from Y behind the byte c: c is a separator, or X and Y begin alike *)
Definition look2 (c : Z) (X Y : list Z) : Prop := is_sep_before c = true \/ hd_error X = hd_error Y.
