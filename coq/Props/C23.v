(* C23 - Decoders of stored bytes reject corruption without crashing.
   Property theorems only.  The models are hand transcriptions of the decoders' ACTUAL checks
   (Model/StoredBytes.v: file headers + page header; Model/PageAccess.v: leaf / interior / HNSW page
   accessors; Model/ArrayView.v: array views), with the slot geometry, the page constants and
   decode_varint regenerated from the source on every run (Gen/PageConsts, LeafLayout, InteriorLayout,
   HnswLayout, Varint); tied to the code by the correspondence run (Corr/C23.v).
   `value_or_error r` is the property's wording: r is Ok _ or Err - not Panic, not out of fuel.
   Where the code does panic on corrupted bytes the theorem is an equivalence "panics exactly on the
   class ..." (the classes of the recorded findings F-C23-1..7), the property is proved outside the
   class, and a `..._refuted` theorem exhibits the witness, which the harness runs on the real code.
   Theorems of colleagues' models that cover other decoders of the property are restated at the end. *)
From Coq Require Import ZArith List Bool.
From TV Require Import Lib.MachInt Gen.PageConsts Gen.Varint
  Model.StoredBytes Model.PageAccess Model.ArrayView
  Proof.StoredBytes Proof.PageAccessLeaf Proof.PageAccessInterior Proof.PageAccessHnsw Proof.ArrayView.
From TV Require Model.Record Proof.RecordViewBytes.
From TV Require Proof.Varint Model.Catalog Proof.CatalogFuel Model.Wal Model.WalSpec Proof.Wal.
Import ListNotations.
Open Scope Z_scope.

(* ================================================================ file headers: every byte string *)
Theorem meta_header_total : forall d, value_or_error (meta_from_bytes d).
Proof. exact meta_total_l. Qed.
Theorem table_header_total : forall d, value_or_error (table_from_bytes d).
Proof. exact table_total_l. Qed.
Theorem index_header_total : forall d, value_or_error (index_from_bytes d).
Proof. exact index_total_l. Qed.
Theorem hnsw_header_total : forall d, value_or_error (hnsw_file_from_bytes d).
Proof. exact hnsw_file_total_l. Qed.

(* ... and corruption of the magic (or of the turdb.meta version) is rejected, never accepted *)
Theorem meta_header_accepts : forall d v, meta_from_bytes d = Ok v ->
  FILE_HEADER_SIZE <= blen d /\ bslice d 0 16 = META_MAGIC /\ le d 16 4 = CURRENT_VERSION.
Proof. exact meta_accepts_l. Qed.
Theorem table_header_accepts : forall d v, table_from_bytes d = Ok v ->
  FILE_HEADER_SIZE <= blen d /\ bslice d 0 16 = TABLE_MAGIC.
Proof. exact table_accepts_l. Qed.
Theorem index_header_accepts : forall d v, index_from_bytes d = Ok v ->
  FILE_HEADER_SIZE <= blen d /\ bslice d 0 16 = INDEX_MAGIC.
Proof. exact index_accepts_l. Qed.
Theorem hnsw_header_accepts : forall d v, hnsw_file_from_bytes d = Ok v ->
  FILE_HEADER_SIZE <= blen d /\ bslice d 0 16 = HNSW_MAGIC.
Proof. exact hnsw_file_accepts_l. Qed.

(* ================================================================ page header, page constructors *)
Theorem page_header_total : forall d, value_or_error (page_header d).
Proof. exact page_header_total_l. Qed.
Theorem validate_page_total : forall d, value_or_error (validate_page d).
Proof. exact validate_page_total_l. Qed.
(* LeafNode / InteriorNode::from_page and HnswPageRef::from_bytes *)
Theorem node_from_page_total : forall want d, value_or_error (node_from_page want d).
Proof. exact node_from_page_total_l. Qed.

(* ================================================================ leaf pages: every 16 KiB page, every index *)
Theorem leaf_slot_at_panics_iff : forall d i, leaf_from_page d = Ok tt -> bytes_ok d = true -> 0 <= i ->
  (leaf_slot_at d i = Panic <-> leaf_slot_oob d i = true).
Proof. exact leaf_slot_at_panic_iff_l. Qed.
Theorem leaf_key_at_panics_iff : forall d i, leaf_from_page d = Ok tt -> bytes_ok d = true -> 0 <= i ->
  (leaf_key_at d i = Panic <-> leaf_slot_oob d i = true).
Proof. exact leaf_key_at_panic_iff_l. Qed.
Theorem leaf_value_len_at_panics_iff : forall d i, leaf_from_page d = Ok tt -> bytes_ok d = true -> 0 <= i ->
  (leaf_value_len_at d i = Panic <-> leaf_slot_oob d i = true).
Proof. exact leaf_value_len_at_panic_iff_l. Qed.
Theorem leaf_value_at_panics_iff : forall d i, leaf_from_page d = Ok tt -> bytes_ok d = true -> 0 <= i ->
  (leaf_value_at d i = Panic <-> leaf_slot_oob d i = true \/ leaf_value_ovf d i = true).
Proof. exact leaf_value_at_panic_iff_l. Qed.
(* the property outside the two classes *)
Theorem leaf_accessors_total : forall d i, leaf_from_page d = Ok tt -> bytes_ok d = true -> 0 <= i ->
  leaf_slot_oob d i = false ->
  value_or_error (leaf_slot_at d i) /\ value_or_error (leaf_key_at d i) /\ value_or_error (leaf_value_len_at d i) /\
  (leaf_value_ovf d i = false -> value_or_error (leaf_value_at d i)).
Proof. exact leaf_accessors_total_l. Qed.
(* "never reads out of bounds": what key_at / value_at return is a slice of the page *)
Theorem leaf_results_inside_page : forall d i, blen d = PAGE_SIZE -> bytes_ok d = true -> 0 <= i ->
  (forall k, leaf_key_at d i = Ok k -> exists lo len, 0 <= lo /\ 0 <= len /\ lo + len <= PAGE_SIZE /\ k = bslice d lo (lo + len)) /\
  (forall v, leaf_value_at d i = Ok v -> exists lo len, 0 <= lo /\ 0 <= len /\ lo + len <= PAGE_SIZE /\ v = bslice d lo (lo + len)).
Proof. exact leaf_results_inside_l. Qed.
Theorem leaf_accessors_refuted :
  leaf_from_page leaf_witness_oob = Ok tt /\ bytes_ok leaf_witness_oob = true /\
  leaf_slot_at leaf_witness_oob 2045 = Panic /\ leaf_key_at leaf_witness_oob 2045 = Panic /\
  leaf_value_at leaf_witness_oob 2045 = Panic /\ leaf_value_len_at leaf_witness_oob 2045 = Panic /\
  leaf_from_page leaf_witness_ovf = Ok tt /\ bytes_ok leaf_witness_ovf = true /\
  leaf_slot_oob leaf_witness_ovf 0 = false /\ leaf_key_at leaf_witness_ovf 0 = Ok [1; 2; 3; 4] /\
  leaf_value_len_at leaf_witness_ovf 0 = Ok 18446744073709551615 /\ leaf_value_at leaf_witness_ovf 0 = Panic.
Proof. exact leaf_accessors_refuted_l. Qed.

(* ================================================================ interior pages *)
Theorem interior_slot_at_panics_iff : forall d i, interior_from_page d = Ok tt -> bytes_ok d = true -> 0 <= i ->
  (interior_slot_at d i = Panic <-> interior_slot_oob d i = true).
Proof. exact interior_slot_at_panic_iff_l. Qed.
Theorem interior_key_at_panics_iff : forall d i, interior_from_page d = Ok tt -> bytes_ok d = true -> 0 <= i ->
  (interior_key_at d i = Panic <-> interior_slot_oob d i = true).
Proof. exact interior_key_at_panic_iff_l. Qed.
(* the binary search terminates within its 17 rounds on EVERY page and key ("never loops forever") *)
Theorem find_child_terminates : forall d key, interior_from_page d = Ok tt -> bytes_ok d = true ->
  find_child d key <> Fuel.
Proof. exact find_child_terminates_l. Qed.
(* ... and returns a value or an error whenever the announced slot array fits the page *)
Theorem find_child_total : forall d key, interior_from_page d = Ok tt -> bytes_ok d = true ->
  interior_slots_fit d = true -> value_or_error (find_child d key).
Proof. exact find_child_total_l. Qed.
Theorem interior_accessors_refuted :
  interior_from_page interior_witness_oob = Ok tt /\ bytes_ok interior_witness_oob = true /\
  interior_slot_at interior_witness_oob 1364 = Panic /\ interior_key_at interior_witness_oob 1364 = Panic /\
  interior_from_page interior_witness_search = Ok tt /\ bytes_ok interior_witness_search = true /\
  find_child interior_witness_search [] = Panic /\ find_child interior_witness_search [255] = Panic.
Proof. exact interior_accessors_refuted_l. Qed.

(* ================================================================ HNSW node pages *)
Theorem hnsw_header_readers_total : forall d, hnsw_from_bytes d = Ok tt ->
  value_or_error (hnsw_slot_count d) /\ value_or_error (hnsw_free_space d).
Proof. exact hnsw_total_l. Qed.
Theorem hnsw_get_slot_panics_iff : forall d i, hnsw_from_bytes d = Ok tt -> bytes_ok d = true -> 0 <= i < 65536 ->
  (hnsw_get_slot d i = Panic <-> hnsw_slot_oob d i = true).
Proof. exact hnsw_get_slot_panic_iff_l. Qed.
Theorem hnsw_read_node_data_panics_iff : forall d i, hnsw_from_bytes d = Ok tt -> bytes_ok d = true -> 0 <= i < 65536 ->
  (hnsw_read_node_data d i = Panic <-> hnsw_slot_oob d i = true \/ hnsw_node_oob d i = true).
Proof. exact hnsw_read_node_data_panic_iff_l. Qed.
Theorem hnsw_readers_total : forall d i, hnsw_from_bytes d = Ok tt -> bytes_ok d = true -> 0 <= i < 65536 ->
  hnsw_slot_oob d i = false ->
  value_or_error (hnsw_get_slot d i) /\ (hnsw_node_oob d i = false -> value_or_error (hnsw_read_node_data d i)).
Proof. exact hnsw_readers_total_l. Qed.
Theorem hnsw_readers_refuted :
  hnsw_from_bytes hnsw_witness_slot = Ok tt /\ bytes_ok hnsw_witness_slot = true /\
  hnsw_get_slot hnsw_witness_slot 4080 = Panic /\ hnsw_read_node_data hnsw_witness_slot 4080 = Panic /\
  hnsw_from_bytes hnsw_witness_node = Ok tt /\ bytes_ok hnsw_witness_node = true /\
  hnsw_get_slot hnsw_witness_node 0 = Ok (Some (8191, 1, 8194)) /\ hnsw_read_node_data hnsw_witness_node 0 = Panic.
Proof. exact hnsw_readers_refuted_l. Qed.

(* ================================================================ array views *)
Theorem array_new_total : forall d, value_or_error (array_new d).
Proof. exact array_new_total_l. Qed.
Theorem array_elem_type_panics_iff : forall d, array_new d = Ok tt ->
  (elem_type d = Panic <-> array_type_bad d = true).
Proof. exact elem_type_panic_iff_l. Qed.
Theorem array_is_null_total : forall d i, bytes_ok d = true -> wf_bitmap d = true -> 0 <= i ->
  value_or_error (is_null d i).
Proof. exact is_null_total_l. Qed.
Theorem array_get_fixed_total : forall d w i, bytes_ok d = true -> wf_fixed d (Z.of_nat w) = true -> 0 <= i ->
  value_or_error (get_fixed d w i).
Proof. exact get_fixed_total_l. Qed.
Theorem array_get_bool_total : forall d i, bytes_ok d = true -> wf_fixed d 1 = true -> 0 <= i ->
  value_or_error (get_bool d i).
Proof. exact get_bool_total_l. Qed.
Theorem array_get_blob_text_total : forall d i, bytes_ok d = true -> wf_var d i = true -> 0 <= i ->
  value_or_error (get_blob d i) /\ value_or_error (get_text d i).
Proof. exact get_blob_total_l. Qed.
Theorem array_getters_refuted :
  array_new [8;0;0;0;99;1;0;0] = Ok tt /\ elem_type [8;0;0;0;99;1;0;0] = Panic /\
  array_new [8;0;0;0;2;1;1;0] = Ok tt /\ is_null [8;0;0;0;2;1;1;0] 0 = Panic /\
  get_fixed [8;0;0;0;2;1;1;0] 4 0 = Panic /\ get_bool [8;0;0;0;2;1;1;0] 0 = Panic /\
  array_new [0;0;0;0;21;1;1;0;0;0;0;0;0] = Ok tt /\ is_null [0;0;0;0;21;1;1;0;0;0;0;0;0] 0 = Ok false /\
  get_blob [0;0;0;0;21;1;1;0;0;0;0;0;0] 0 = Panic /\ get_text [0;0;0;0;21;1;1;0;0;0;0;0;0] 0 = Panic /\
  get_blob [13;0;0;0;21;1;1;0;0;9;0;0;0] 0 = Panic.
Proof. exact array_getters_refuted_l. Qed.

(* ================================================================ row records (C31 model) *)
(* RecordView::new accepts any 2 bytes; extract_row_from_record then panics on a record too short for its
   null bitmap, or whose stored end offset points beyond the bytes (finding F-C23-14) *)
Theorem record_view_refuted :
  Record.view_new [2; 0] = Record.Ok tt /\
  Record.extract [Record.TText] [2; 0] = Record.Panic /\
  Record.extract [Record.TInt4; Record.TText] [5; 0; 0; 9; 0; 1; 2; 3; 4] = Record.Panic /\
  Record.extract [Record.TInt4; Record.TText] [5; 0; 0; 0; 0; 1; 2; 3; 4] = Record.Ok [Record.VInt 67305985; Record.VText []] /\
  Record.extract [Record.TInt4] [4; 0] = Record.Ok [Record.VNull].
Proof. exact RecordViewBytes.record_view_refuted_l. Qed.

(* ================================================================ decoders modelled by colleagues (restated) *)
(* varint (C27, regenerated from src/encoding/varint.rs): arbitrary bytes never overflow or index out of
   bounds, and a decoded length lies inside the input *)
Theorem varint_decode_total : forall buf, bytes_ok buf = true -> decode_varint_safe buf = true.
Proof. exact Proof.Varint.varint_decode_no_panic_l. Qed.
Theorem varint_decode_inside : forall buf v n, bytes_ok buf = true -> decode_varint buf = Some (v, n) ->
  1 <= n <= blen buf /\ 0 <= v < 2 ^ 64.
Proof. exact Proof.Varint.varint_decode_bounds_l. Qed.
(* catalog file body (C40, Model/Catalog.v deserialize: outcomes Ok / Err / OutOfFuel, the cursor reads of
   src/schema/persistence.rs are all bounds-checked): the fuel 1 + bytes left always suffices, so arbitrary
   bytes give a catalog or an error *)
Theorem catalog_deserialize_total : forall bs c, Catalog.deserialize bs c <> Catalog.OutOfFuel.
Proof. exact CatalogFuel.deserialize_fuel_enough_l. Qed.
(* WAL (C03, Model/Wal.v, frame-slot level: checksum validity is a bit of the slot): replaying ANY
   segment files never panics as long as no checksum-valid frame carries page number u32::MAX *)
Theorem wal_recover_no_panic : forall files,
  Forall (fun f => WalSpec.frame_ok f = true) (Wal.seg_frames files) -> Wal.recover files <> Wal.RecPanic.
Proof. exact Proof.Wal.recover_no_panic_l. Qed.

(* ================================================================ non-vacuity *)
(* the hypotheses are met by concrete pages built the way the implementation builds them: a leaf with one
   cell (key "k1", value "v"), an interior page with one separator, an HNSW page with one active node *)
Definition ex_leaf : list Z :=
  image 16384 0 [(0, [2; 0; 1; 0; 32; 0; 252; 63]); (24, [107; 49; 0; 0; 252; 63; 2; 0]); (16380, [107; 49; 1; 118])].
Definition ex_interior : list Z :=
  image 16384 0 [(0, [1; 0; 1; 0; 28; 0; 254; 63; 0; 0; 0; 0; 9; 0; 0; 0]); (16, [107; 49; 0; 0; 7; 0; 0; 0; 254; 63; 2; 0]); (16382, [107; 49])].
Definition ex_hnsw : list Z :=
  image 16384 0 [(0, [16]); (16, [1; 0; 68; 0; 253; 63; 1; 0; 0; 0; 185; 63]); (64, [253; 63; 3; 0]); (8189, [7; 8; 9])].
Example c23_witness :
  leaf_from_page ex_leaf = Ok tt /\ bytes_ok ex_leaf = true /\ leaf_slots_fit ex_leaf = true /\
  leaf_slot_oob ex_leaf 0 = false /\ leaf_value_ovf ex_leaf 0 = false /\
  leaf_key_at ex_leaf 0 = Ok [107; 49] /\ leaf_value_at ex_leaf 0 = Ok [118] /\ leaf_key_at ex_leaf 1 = Err /\
  interior_from_page ex_interior = Ok tt /\ bytes_ok ex_interior = true /\ interior_slots_fit ex_interior = true /\
  find_child ex_interior [107; 48] = Ok (7, 0) /\ find_child ex_interior [107; 50] = Ok (9, -1) /\
  hnsw_from_bytes ex_hnsw = Ok tt /\ hnsw_slot_oob ex_hnsw 0 = false /\ hnsw_node_oob ex_hnsw 0 = false /\
  hnsw_read_node_data ex_hnsw 0 = Ok [7; 8; 9] /\ hnsw_read_node_data ex_hnsw 1 = Err /\
  wf_fixed [12;0;0;0;2;1;1;0;0;5;0;0;0] 4 = true /\ get_fixed [12;0;0;0;2;1;1;0;0;5;0;0;0] 4 0 = Ok 5 /\
  wf_var [15;0;0;0;21;1;1;0;0;0;0;0;0;104;105] 0 = true /\ get_text [15;0;0;0;21;1;1;0;0;0;0;0;0;104;105] 0 = Ok [104; 105] /\
  meta_from_bytes (META_MAGIC ++ [1;0;0;0; 0;64;0;0] ++ repeat 0 104) = Ok [1; 16384; 0; 0; 0; 0; 0] /\
  meta_from_bytes (TABLE_MAGIC ++ [1;0;0;0; 0;64;0;0] ++ repeat 0 104) = Err.
Proof. vm_compute. repeat split. Qed.

Check meta_header_total : forall d, value_or_error (meta_from_bytes d).
Check table_header_total : forall d, value_or_error (table_from_bytes d).
Check index_header_total : forall d, value_or_error (index_from_bytes d).
Check hnsw_header_total : forall d, value_or_error (hnsw_file_from_bytes d).
Check meta_header_accepts : forall d v, meta_from_bytes d = Ok v -> FILE_HEADER_SIZE <= blen d /\ bslice d 0 16 = META_MAGIC /\ le d 16 4 = CURRENT_VERSION.
Check table_header_accepts : forall d v, table_from_bytes d = Ok v -> FILE_HEADER_SIZE <= blen d /\ bslice d 0 16 = TABLE_MAGIC.
Check index_header_accepts : forall d v, index_from_bytes d = Ok v -> FILE_HEADER_SIZE <= blen d /\ bslice d 0 16 = INDEX_MAGIC.
Check hnsw_header_accepts : forall d v, hnsw_file_from_bytes d = Ok v -> FILE_HEADER_SIZE <= blen d /\ bslice d 0 16 = HNSW_MAGIC.
Check page_header_total : forall d, value_or_error (page_header d).
Check validate_page_total : forall d, value_or_error (validate_page d).
Check node_from_page_total : forall want d, value_or_error (node_from_page want d).
Check leaf_slot_at_panics_iff : forall d i, leaf_from_page d = Ok tt -> bytes_ok d = true -> 0 <= i -> (leaf_slot_at d i = Panic <-> leaf_slot_oob d i = true).
Check leaf_key_at_panics_iff : forall d i, leaf_from_page d = Ok tt -> bytes_ok d = true -> 0 <= i -> (leaf_key_at d i = Panic <-> leaf_slot_oob d i = true).
Check leaf_value_len_at_panics_iff : forall d i, leaf_from_page d = Ok tt -> bytes_ok d = true -> 0 <= i -> (leaf_value_len_at d i = Panic <-> leaf_slot_oob d i = true).
Check leaf_value_at_panics_iff : forall d i, leaf_from_page d = Ok tt -> bytes_ok d = true -> 0 <= i -> (leaf_value_at d i = Panic <-> leaf_slot_oob d i = true \/ leaf_value_ovf d i = true).
Check leaf_accessors_total : forall d i, leaf_from_page d = Ok tt -> bytes_ok d = true -> 0 <= i -> leaf_slot_oob d i = false -> value_or_error (leaf_slot_at d i) /\ value_or_error (leaf_key_at d i) /\ value_or_error (leaf_value_len_at d i) /\ (leaf_value_ovf d i = false -> value_or_error (leaf_value_at d i)).
Check leaf_results_inside_page : forall d i, blen d = PAGE_SIZE -> bytes_ok d = true -> 0 <= i -> (forall k, leaf_key_at d i = Ok k -> exists lo len, 0 <= lo /\ 0 <= len /\ lo + len <= PAGE_SIZE /\ k = bslice d lo (lo + len)) /\ (forall v, leaf_value_at d i = Ok v -> exists lo len, 0 <= lo /\ 0 <= len /\ lo + len <= PAGE_SIZE /\ v = bslice d lo (lo + len)).
Check leaf_accessors_refuted : leaf_from_page leaf_witness_oob = Ok tt /\ bytes_ok leaf_witness_oob = true /\ leaf_slot_at leaf_witness_oob 2045 = Panic /\ leaf_key_at leaf_witness_oob 2045 = Panic /\ leaf_value_at leaf_witness_oob 2045 = Panic /\ leaf_value_len_at leaf_witness_oob 2045 = Panic /\ leaf_from_page leaf_witness_ovf = Ok tt /\ bytes_ok leaf_witness_ovf = true /\ leaf_slot_oob leaf_witness_ovf 0 = false /\ leaf_key_at leaf_witness_ovf 0 = Ok [1; 2; 3; 4] /\ leaf_value_len_at leaf_witness_ovf 0 = Ok 18446744073709551615 /\ leaf_value_at leaf_witness_ovf 0 = Panic.
Check interior_slot_at_panics_iff : forall d i, interior_from_page d = Ok tt -> bytes_ok d = true -> 0 <= i -> (interior_slot_at d i = Panic <-> interior_slot_oob d i = true).
Check interior_key_at_panics_iff : forall d i, interior_from_page d = Ok tt -> bytes_ok d = true -> 0 <= i -> (interior_key_at d i = Panic <-> interior_slot_oob d i = true).
Check find_child_terminates : forall d key, interior_from_page d = Ok tt -> bytes_ok d = true -> find_child d key <> Fuel.
Check find_child_total : forall d key, interior_from_page d = Ok tt -> bytes_ok d = true -> interior_slots_fit d = true -> value_or_error (find_child d key).
Check interior_accessors_refuted : interior_from_page interior_witness_oob = Ok tt /\ bytes_ok interior_witness_oob = true /\ interior_slot_at interior_witness_oob 1364 = Panic /\ interior_key_at interior_witness_oob 1364 = Panic /\ interior_from_page interior_witness_search = Ok tt /\ bytes_ok interior_witness_search = true /\ find_child interior_witness_search [] = Panic /\ find_child interior_witness_search [255] = Panic.
Check hnsw_header_readers_total : forall d, hnsw_from_bytes d = Ok tt -> value_or_error (hnsw_slot_count d) /\ value_or_error (hnsw_free_space d).
Check hnsw_get_slot_panics_iff : forall d i, hnsw_from_bytes d = Ok tt -> bytes_ok d = true -> 0 <= i < 65536 -> (hnsw_get_slot d i = Panic <-> hnsw_slot_oob d i = true).
Check hnsw_read_node_data_panics_iff : forall d i, hnsw_from_bytes d = Ok tt -> bytes_ok d = true -> 0 <= i < 65536 -> (hnsw_read_node_data d i = Panic <-> hnsw_slot_oob d i = true \/ hnsw_node_oob d i = true).
Check hnsw_readers_total : forall d i, hnsw_from_bytes d = Ok tt -> bytes_ok d = true -> 0 <= i < 65536 -> hnsw_slot_oob d i = false -> value_or_error (hnsw_get_slot d i) /\ (hnsw_node_oob d i = false -> value_or_error (hnsw_read_node_data d i)).
Check hnsw_readers_refuted : hnsw_from_bytes hnsw_witness_slot = Ok tt /\ bytes_ok hnsw_witness_slot = true /\ hnsw_get_slot hnsw_witness_slot 4080 = Panic /\ hnsw_read_node_data hnsw_witness_slot 4080 = Panic /\ hnsw_from_bytes hnsw_witness_node = Ok tt /\ bytes_ok hnsw_witness_node = true /\ hnsw_get_slot hnsw_witness_node 0 = Ok (Some (8191, 1, 8194)) /\ hnsw_read_node_data hnsw_witness_node 0 = Panic.
Check array_new_total : forall d, value_or_error (array_new d).
Check array_elem_type_panics_iff : forall d, array_new d = Ok tt -> (elem_type d = Panic <-> array_type_bad d = true).
Check array_is_null_total : forall d i, bytes_ok d = true -> wf_bitmap d = true -> 0 <= i -> value_or_error (is_null d i).
Check array_get_fixed_total : forall d w i, bytes_ok d = true -> wf_fixed d (Z.of_nat w) = true -> 0 <= i -> value_or_error (get_fixed d w i).
Check array_get_bool_total : forall d i, bytes_ok d = true -> wf_fixed d 1 = true -> 0 <= i -> value_or_error (get_bool d i).
Check array_get_blob_text_total : forall d i, bytes_ok d = true -> wf_var d i = true -> 0 <= i -> value_or_error (get_blob d i) /\ value_or_error (get_text d i).
Check array_getters_refuted : array_new [8;0;0;0;99;1;0;0] = Ok tt /\ elem_type [8;0;0;0;99;1;0;0] = Panic /\ array_new [8;0;0;0;2;1;1;0] = Ok tt /\ is_null [8;0;0;0;2;1;1;0] 0 = Panic /\ get_fixed [8;0;0;0;2;1;1;0] 4 0 = Panic /\ get_bool [8;0;0;0;2;1;1;0] 0 = Panic /\ array_new [0;0;0;0;21;1;1;0;0;0;0;0;0] = Ok tt /\ is_null [0;0;0;0;21;1;1;0;0;0;0;0;0] 0 = Ok false /\ get_blob [0;0;0;0;21;1;1;0;0;0;0;0;0] 0 = Panic /\ get_text [0;0;0;0;21;1;1;0;0;0;0;0;0] 0 = Panic /\ get_blob [13;0;0;0;21;1;1;0;0;9;0;0;0] 0 = Panic.
Check record_view_refuted : Record.view_new [2; 0] = Record.Ok tt /\ Record.extract [Record.TText] [2; 0] = Record.Panic /\ Record.extract [Record.TInt4; Record.TText] [5; 0; 0; 9; 0; 1; 2; 3; 4] = Record.Panic /\ Record.extract [Record.TInt4; Record.TText] [5; 0; 0; 0; 0; 1; 2; 3; 4] = Record.Ok [Record.VInt 67305985; Record.VText []] /\ Record.extract [Record.TInt4] [4; 0] = Record.Ok [Record.VNull].
Check varint_decode_total : forall buf, bytes_ok buf = true -> decode_varint_safe buf = true.
Check varint_decode_inside : forall buf v n, bytes_ok buf = true -> decode_varint buf = Some (v, n) -> 1 <= n <= blen buf /\ 0 <= v < 2 ^ 64.
Check catalog_deserialize_total : forall bs c, Catalog.deserialize bs c <> Catalog.OutOfFuel.
Check wal_recover_no_panic : forall files, Forall (fun f => WalSpec.frame_ok f = true) (Wal.seg_frames files) -> Wal.recover files <> Wal.RecPanic.

Print Assumptions meta_header_total.
Print Assumptions table_header_total.
Print Assumptions index_header_total.
Print Assumptions hnsw_header_total.
Print Assumptions meta_header_accepts.
Print Assumptions table_header_accepts.
Print Assumptions index_header_accepts.
Print Assumptions hnsw_header_accepts.
Print Assumptions page_header_total.
Print Assumptions validate_page_total.
Print Assumptions node_from_page_total.
Print Assumptions leaf_slot_at_panics_iff.
Print Assumptions leaf_key_at_panics_iff.
Print Assumptions leaf_value_len_at_panics_iff.
Print Assumptions leaf_value_at_panics_iff.
Print Assumptions leaf_accessors_total.
Print Assumptions leaf_results_inside_page.
Print Assumptions leaf_accessors_refuted.
Print Assumptions interior_slot_at_panics_iff.
Print Assumptions interior_key_at_panics_iff.
Print Assumptions find_child_terminates.
Print Assumptions find_child_total.
Print Assumptions interior_accessors_refuted.
Print Assumptions hnsw_header_readers_total.
Print Assumptions hnsw_get_slot_panics_iff.
Print Assumptions hnsw_read_node_data_panics_iff.
Print Assumptions hnsw_readers_total.
Print Assumptions hnsw_readers_refuted.
Print Assumptions array_new_total.
Print Assumptions array_elem_type_panics_iff.
Print Assumptions array_is_null_total.
Print Assumptions array_get_fixed_total.
Print Assumptions array_get_bool_total.
Print Assumptions array_get_blob_text_total.
Print Assumptions array_getters_refuted.
Print Assumptions record_view_refuted.
Print Assumptions varint_decode_total.
Print Assumptions varint_decode_inside.
Print Assumptions catalog_deserialize_total.
Print Assumptions wal_recover_no_panic.
