(* C04 proofs, part 6: corollaries of the simulation theorem with purely syntactic hypotheses. *)
From Coq Require Import ZArith List Bool Lia.
From TV Require Import Model.Persist Proof.Persist Proof.PersistRel Proof.PersistSim Proof.PersistWit.
Import ListNotations.
Open Scope Z_scope.

(* interruptions that never replay the WAL: Database::checkpoint() and close() + open *)
Definition no_replay (o : op) : bool := match o with ReopenDrop | CkptPragma | AutoCkpt => false | _ => true end.
(* the WAL is never switched on *)
Definition no_wal_on (o : op) : bool := match o with SetWal true => false | _ => true end.

(* ---- the class cannot be hit when nothing replays the WAL ... *)
Lemma k2_no_replay : forall h oa b,
  forallb no_replay h = true -> forallb op_in_lang h = true -> k_c2 b = false ->
  k_c2 (kscan b h oa) = false.
Proof.
  induction h as [|o h IH]; intros oa b HN HL HC; [exact HC|].
  destruct oa as [|x oa]; [exact HC|]. cbn [kscan]. cbn [forallb] in HN, HL.
  apply andb_true_iff in HN. destruct HN as [HN1 HN]. apply andb_true_iff in HL. destruct HL as [HL1 HL].
  apply IH; auto.
  destruct o; cbn [no_replay op_in_lang] in HN1, HL1; try discriminate; cbn [k2_step];
    repeat match goal with
           | |- context [if ?e then _ else _] => destruct e
           | |- context [match ?v with [] => _ | _ :: _ => _ end] => destruct v
           end; cbn; rewrite ?HC; auto.
Qed.

(* ... or when the WAL is never on (no image is ever logged) *)
Lemma k2_no_wal : forall h oa b,
  forallb no_wal_on h = true -> forallb op_in_lang h = true ->
  k_wal b = false -> (forall t, k_lg b t = false) -> k_c2 b = false ->
  k_c2 (kscan b h oa) = false.
Proof.
  induction h as [|o h IH]; intros oa b HN HL HW HG HC; [exact HC|].
  destruct oa as [|x oa]; [exact HC|]. cbn [kscan]. cbn [forallb] in HN, HL.
  apply andb_true_iff in HN. destruct HN as [HN1 HN]. apply andb_true_iff in HL. destruct HL as [HL1 HL].
  assert (stale_any b = false) as HS.
  { unfold stale_any. apply not_true_is_false. intros E. apply existsb_exists in E. destruct E as [t [_ E]].
    rewrite HG in E. discriminate. }
  destruct b as [w tx au lg st c2]. cbn in HW, HG, HC. subst w c2.
  apply IH; auto;
    destruct o; cbn [no_wal_on op_in_lang] in HN1, HL1; try discriminate; cbn [k2_step k2_touch k2_clear k2_session k_wal k_txn k_auto k_lg k_st k_c2 andb];
    repeat match goal with
           | |- context [if ?e then _ else _] => destruct e
           | |- context [match ?v with [] => _ | _ :: _ => _ end] => destruct v
           | H : context [match ?v with true => _ | false => _ end] |- _ => destruct v
           end; cbn [k2_step k2_touch k2_clear k2_session k_wal k_txn k_auto k_lg k_st k_c2 andb orb]; try discriminate; auto;
    try (intros u; unfold upd; destruct (u =? t); auto);
    try (unfold stale_any in *; cbn [k_lg k_st] in *; rewrite HS; auto).
Qed.

(* close() + open and Database::checkpoint() at arbitrary points: no restriction *)
Lemma close_reopen_id_l : forall wal h,
  in_lang h = true -> forallb no_replay h = true ->
  oracle h (run true (init wal) h) (run false (init wal) h) = true.
Proof.
  intros wal h HL HR. apply persist_observational_id_l; [exact HL|].
  unfold known_class_of. apply kclass_zero_intro. apply k2_no_replay; auto.
Qed.

(* all four interruptions at arbitrary points with the WAL never enabled: no restriction *)
Lemma no_wal_id_l : forall h,
  in_lang h = true -> forallb no_wal_on h = true ->
  oracle h (run true (init false) h) (run false (init false) h) = true.
Proof.
  intros h HL HW. apply persist_observational_id_l; [exact HL|].
  unfold known_class_of. apply kclass_zero_intro. apply k2_no_wal; auto.
Qed.

(* non-vacuity of the two corollaries (INSERTs after the reopens, a table dropped and re-created) *)
Definition cor1 : list op :=
  [SetWal true; Create 0 2; Ins 0 [(None, 10); (None, 11)]; SetWal false; Ins 0 [(None, 12)]; CkptApi; ReopenClose;
   Del 0 11; Ins 0 [(None, 13); (Some 1, 14)]; CkptApi; Upd 0 12 15; ReopenClose; Ins 0 [(None, 16)]; Query].
Definition cor2 : list op :=
  [Create 1 1; Ins 1 [(Some 1, 10); (Some 2, 11)]; CkptPragma; Del 1 10; ReopenDrop; Ins 1 [(Some 3, 12)]; Query; CkptApi;
   DropT 1; Create 1 0; ReopenClose; Ins 1 [(None, 13)]; CkptPragma; Query].
Lemma cor_witness :
  in_lang cor1 = true /\ forallb no_replay cor1 = true
  /\ in_lang cor2 = true /\ forallb no_wal_on cor2 = true
  /\ nth_error (run true (init false) cor2) 13
     = Some (OQ [TAbsent; TPresent [[None; Some 13]] (Some 1) [[]; []; []; []; []; []; []; []]; TAbsent]).
Proof. vm_compute. repeat split. Qed.
