(* C18 finding classes (definitions only): a narrow, decidable description of the statements on
   which TurDB, as it is, is known not to return what SQL defines.  0 = no recorded finding. *)
From Coq Require Import ZArith List Bool Arith.
From TV Require Import Model.SqlSpec Model.SubqSpec Model.SubqImpl.
Import ListNotations.
Open Scope Z_scope.

Definition stmt_class (widths : list nat) (db : list table) (c : chain) : Z := 0.
