(* C23 proofs, part 3: interior-page accessors on arbitrary page bytes.
   For every page accepted by InteriorNode::from_page (slot geometry checked since c8c46cc) slot_at, key_at and
   find_child return a value or an error.  find_child terminates within 17 rounds on EVERY 16 KiB byte string
   (the window halves and the stored count is below 2^16).  The case lemmas hold for any 16 KiB byte string:
   there slot_at / key_at take their Panic branch exactly when the announced slot lies beyond the page
   (interior_slot_oob, the class of the former finding F-C23-3). *)
From Coq Require Import ZArith List Bool Lia ZifyBool.
From TV Require Import Lib.MachInt Lib.MachIntFacts Gen.PageConsts Gen.InteriorLayout
  Model.StoredBytes Model.PageAccess Proof.StoredBytes Proof.PageAccessLeaf.
Import ListNotations.
Open Scope Z_scope.
Ltac Zify.zify_post_hook ::= Z.to_euclidean_division_equations.
Arguments Z.div : simpl never.
Arguments Z.modulo : simpl never.
Arguments Z.mul : simpl never.
Arguments Z.add : simpl never.
Arguments Z.sub : simpl never.
Arguments Z.pow : simpl never.
Arguments Z.of_nat : simpl never.
Arguments Z.to_nat : simpl never.

Lemma interior_off i : interior_slot_offset i = 16 + 12 * i.
Proof. cbv [interior_slot_offset INTERIOR_CONTENT_START PAGE_HEADER_SIZE INTERIOR_SLOT_SIZE]. lia. Qed.
Lemma interior_off_safe i : 0 <= i < 65536 -> interior_slot_offset_safe i = true.
Proof.
  intros H. cbv [interior_slot_offset_safe INTERIOR_CONTENT_START PAGE_HEADER_SIZE INTERIOR_SLOT_SIZE in_u].
  change (2 ^ 64) with 18446744073709551616. lia.
Qed.

Lemma interior_slot_at_cases d i : blen d = PAGE_SIZE -> bytes_ok d = true -> 0 <= i ->
  (interior_slot_oob d i = true /\ interior_slot_at d i = Panic) \/
  (interior_slot_oob d i = false /\ le d 2 2 <= i /\ interior_slot_at d i = Err) \/
  (interior_slot_oob d i = false /\ i < le d 2 2 /\ 16 + 12 * i + 12 <= PAGE_SIZE /\
   exists p ch co kl, interior_slot_at d i = Ok (p, ch, co, kl) /\ 0 <= co < 65536 /\ 0 <= kl < 65536).
Proof.
  intros Hl Hb Hi. unfold interior_slot_oob, interior_slot_at.
  assert (G : PH_SIZE <= blen d) by (rewrite Hl; unfold PH_SIZE, PAGE_SIZE; lia).
  rewrite (cell_count_ok d G). cbn [bind].
  pose proof (cell_count_range d Hb G) as Hc. set (cc := le d 2 2) in *.
  destruct (Z.ltb_spec i cc) as [L|Ge]; cbn [andb].
  2:{ right. left. auto. }
  rewrite interior_off_safe by lia. rewrite interior_off.
  unfold INTERIOR_SLOT_SIZE, PAGE_SIZE in *.
  destruct (Z.ltb_spec 16384 (16 + 12 * i + 12)) as [O|I].
  - left. split; [reflexivity|]. rewrite sub_bad by (apply bslice_ok_false; lia). reflexivity.
  - right. right. split; [reflexivity|]. split; [exact L|]. split; [exact I|].
    rewrite sub_ok by (apply bslice_ok_true; lia). cbn [bind].
    set (s := bslice d (16 + 12 * i) (16 + 12 * i + 12)).
    assert (Hs : bytes_ok s = true) by (apply bytes_ok_bslice; exact Hb).
    assert (Hsl : blen s = 12) by (unfold s; rewrite blen_bslice by (apply bslice_ok_true; lia); lia).
    eexists _, _, _, _. split; [reflexivity|].
    pose proof (le_bound s 8 2 Hs) as H1. pose proof (le_bound s 10 2 Hs) as H2.
    change (256 ^ 2) with 65536 in *. split; [apply H1 | apply H2]; lia.
Qed.

Lemma interior_slot_at_panic_iff_l : forall d i, blen d = PAGE_SIZE -> bytes_ok d = true -> 0 <= i ->
  (interior_slot_at d i = Panic <-> interior_slot_oob d i = true).
Proof.
  intros d i Hp Hb Hi.
  destruct (interior_slot_at_cases d i Hp Hb Hi)
    as [(O & R)|[(O & _ & R)|(O & _ & _ & p & ch & co & kl & R & _)]]; rewrite O, R; split; congruence.
Qed.

Lemma interior_key_at_cases d i : blen d = PAGE_SIZE -> bytes_ok d = true -> 0 <= i ->
  (interior_slot_oob d i = true /\ interior_key_at d i = Panic) \/
  (interior_slot_oob d i = false /\
   (interior_key_at d i = Err \/
    exists co kl, 0 <= co /\ 0 <= kl /\ co + kl <= PAGE_SIZE /\ interior_key_at d i = Ok (bslice d co (co + kl)))).
Proof.
  intros Hl Hb Hi. unfold interior_key_at.
  destruct (interior_slot_at_cases d i Hl Hb Hi)
    as [(O & R)|[(O & _ & R)|(O & _ & _ & p & ch & co & kl & R & Hco & Hkl)]]; rewrite R; cbn [bind].
  - left. auto.
  - right. auto.
  - right. split; [exact O|].
    destruct (Z.leb_spec (co + kl) PAGE_SIZE) as [L|G]; [|left; reflexivity].
    right. exists co, kl. rewrite sub_ok by (apply bslice_ok_true; lia). repeat split; lia.
Qed.

Lemma interior_key_at_panic_iff_l : forall d i, blen d = PAGE_SIZE -> bytes_ok d = true -> 0 <= i ->
  (interior_key_at d i = Panic <-> interior_slot_oob d i = true).
Proof.
  intros d i Hp Hb Hi.
  destruct (interior_key_at_cases d i Hp Hb Hi) as [(O & R)|(O & [R|(co & kl & _ & _ & _ & R)])];
    rewrite O, R; split; congruence.
Qed.

Lemma interior_accessors_panic_iff_unchecked_l : forall d i, blen d = PAGE_SIZE -> bytes_ok d = true -> 0 <= i ->
  (interior_slot_at d i = Panic <-> interior_slot_oob d i = true) /\ (interior_key_at d i = Panic <-> interior_slot_oob d i = true).
Proof.
  intros d i H1 H2 H3. split; [apply (interior_slot_at_panic_iff_l d i H1 H2 H3) | apply (interior_key_at_panic_iff_l d i H1 H2 H3)].
Qed.

Lemma interior_slots_fit_no_oob d i : PH_SIZE <= blen d -> interior_slots_fit d = true -> 0 <= i ->
  interior_slot_oob d i = false.
Proof.
  intros G F Hi. unfold interior_slots_fit, interior_slot_oob in *. rewrite (cell_count_ok d G) in *.
  rewrite !interior_off in *. unfold INTERIOR_SLOT_SIZE, PAGE_SIZE in *.
  destruct (Z.ltb_spec i (le d 2 2)); cbn [andb]; [|reflexivity]. lia.
Qed.

(* ------------------------------------------------------------------ find_child: termination on every page *)
Lemma find_child_loop_fuel d key kp : blen d = PAGE_SIZE -> bytes_ok d = true ->
  forall f l r, 0 <= l -> r - l < 2 ^ Z.of_nat f -> find_child_loop (S f) d key kp l r <> Fuel.
Proof.
  intros Hl Hb. induction f as [|f IH]; intros l r H0 Hw.
  - change (2 ^ Z.of_nat 0) with 1 in Hw. cbn [find_child_loop].
    destruct (Z.ltb_spec l r); [lia | discriminate].
  - assert (Hp2 : 2 ^ Z.of_nat (S f) = 2 * 2 ^ Z.of_nat f).
    { rewrite Nat2Z.inj_succ, Z.pow_succ_r by lia. reflexivity. }
    assert (Hpos : 0 < 2 ^ Z.of_nat f) by (apply Z.pow_pos_nonneg; lia).
    rewrite Hp2 in Hw. clear Hp2. set (P := 2 ^ Z.of_nat f) in *.
    remember (S f) as sf. cbn [find_child_loop].
    destruct (Z.ltb_spec l r) as [L|G]; [|discriminate].
    cbv zeta. set (mid := l + (r - l) / 2).
    assert (W1 : mid - l < P) by (unfold mid; clearbody P; lia).
    assert (W2 : r - (mid + 1) < P) by (unfold mid; clearbody P; lia).
    assert (M0 : 0 <= mid) by (unfold mid; lia).
    subst sf.
    destruct (interior_slot_at_cases d mid Hl Hb M0)
      as [(_ & R)|[(_ & _ & R)|(_ & _ & _ & p & ch & co & kl & R & _)]]; rewrite R; cbn [bind]; try discriminate.
    destruct (kp <? from_be p); [apply IH; lia|].
    destruct (from_be p <? kp); [apply IH; lia|].
    destruct (interior_key_at_cases d mid Hl Hb M0) as [(_ & K)|(_ & [K|(co' & kl' & _ & _ & _ & K)])];
      rewrite K; cbn [bind]; try discriminate.
    destruct (lex_cmp key _); apply IH; lia.
Qed.

Lemma find_child_terminates_l : forall d key, blen d = PAGE_SIZE -> bytes_ok d = true ->
  find_child d key <> Fuel.
Proof.
  intros d key Hp Hb.
  assert (G : PH_SIZE <= blen d) by (rewrite Hp; unfold PH_SIZE, PAGE_SIZE; lia).
  unfold find_child, find_child_fuel. rewrite (cell_count_ok d G), (right_child_ok d G). cbn [bind].
  pose proof (cell_count_range d Hb G) as Hc. set (cc := le d 2 2) in *.
  destruct (cc =? 0); [discriminate|].
  pose proof (find_child_loop_fuel d key (prefix_of key) Hp Hb 16 0 cc) as HF.
  change (2 ^ Z.of_nat 16) with 65536 in HF. specialize (HF ltac:(lia) ltac:(lia)).
  destruct (find_child_loop 17 d key (prefix_of key) 0 cc) as [x| | |]; cbn [bind]; try discriminate; [|congruence].
  destruct (x <? cc); [|discriminate].
  unfold interior_slot_at. rewrite (cell_count_ok d G). cbn [bind]. fold cc.
  destruct (x <? cc); [|discriminate]. destruct (interior_slot_offset_safe x); [|discriminate].
  pose proof (sub_not_fuel d (interior_slot_offset x) (interior_slot_offset x + INTERIOR_SLOT_SIZE)).
  destruct (sub d (interior_slot_offset x) _) as [s| | |]; cbn [bind]; try congruence; discriminate.
Qed.

(* ------------------------------------------------------------------ find_child: no panic when the slots fit *)
Lemma find_child_loop_safe d key kp : blen d = PAGE_SIZE -> bytes_ok d = true -> interior_slots_fit d = true ->
  forall fuel l r, 0 <= l -> l <= r -> r <= le d 2 2 ->
  match find_child_loop fuel d key kp l r with
  | Panic => False
  | Ok x => l <= x <= r
  | _ => True
  end.
Proof.
  intros Hl Hb Hf.
  assert (G : PH_SIZE <= blen d) by (rewrite Hl; unfold PH_SIZE, PAGE_SIZE; lia).
  induction fuel as [|f IH]; intros l r H0 Hlr Hr; cbn [find_child_loop]; [exact I|].
  destruct (Z.ltb_spec l r) as [L|Ge]; [|lia].
  cbv zeta. set (mid := l + (r - l) / 2).
  assert (M : l <= mid < r) by (unfold mid; lia).
  assert (M0 : 0 <= mid) by lia.
  pose proof (interior_slots_fit_no_oob d mid G Hf M0) as NO.
  destruct (interior_slot_at_cases d mid Hl Hb M0)
    as [(O & _)|[(_ & _ & R)|(_ & _ & _ & p & ch & co & kl & R & _)]]; [congruence | rewrite R; exact I |].
  rewrite R. cbn [bind].
  assert (IH1 := IH l mid ltac:(lia) ltac:(lia) ltac:(lia)).
  assert (IH2 := IH (mid + 1) r ltac:(lia) ltac:(lia) ltac:(lia)).
  assert (E1 : match find_child_loop f d key kp l mid with Panic => False | Ok x => l <= x <= r | _ => True end).
  { destruct (find_child_loop f d key kp l mid); try exact I; [lia | exact IH1]. }
  assert (E2 : match find_child_loop f d key kp (mid + 1) r with Panic => False | Ok x => l <= x <= r | _ => True end).
  { destruct (find_child_loop f d key kp (mid + 1) r); try exact I; [lia | exact IH2]. }
  destruct (kp <? from_be p); [exact E1|].
  destruct (from_be p <? kp); [exact E2|].
  destruct (interior_key_at_cases d mid Hl Hb M0) as [(O & _)|(_ & [K|(co' & kl' & _ & _ & _ & K)])];
    [congruence | rewrite K; exact I |].
  rewrite K. cbn [bind]. destruct (lex_cmp key _); assumption.
Qed.

Lemma find_child_fit_total_l : forall d key, blen d = PAGE_SIZE -> bytes_ok d = true ->
  interior_slots_fit d = true -> value_or_error (find_child d key).
Proof.
  intros d key Hp Hb Hf. pose proof (find_child_terminates_l d key Hp Hb) as HT.
  assert (G : PH_SIZE <= blen d) by (rewrite Hp; unfold PH_SIZE, PAGE_SIZE; lia).
  unfold find_child, find_child_fuel in *. rewrite (cell_count_ok d G), (right_child_ok d G) in *. cbn [bind] in *.
  pose proof (cell_count_range d Hb G) as Hc. set (cc := le d 2 2) in *.
  destruct (cc =? 0); [exact I|].
  pose proof (find_child_loop_safe d key (prefix_of key) Hp Hb Hf 17 0 cc ltac:(lia) ltac:(lia) ltac:(lia)) as HS.
  destruct (find_child_loop 17 d key (prefix_of key) 0 cc) as [x| | |]; cbn [bind] in *; try exact I; try contradiction;
    try congruence.
  destruct (Z.ltb_spec x cc) as [L|Ge]; [|exact I].
  assert (X0 : 0 <= x) by lia.
  pose proof (interior_slots_fit_no_oob d x G Hf X0) as NO.
  destruct (interior_slot_at_cases d x Hp Hb X0)
    as [(O & _)|[(_ & _ & R)|(_ & _ & _ & p & ch & co & kl & R & _)]]; [congruence | rewrite R; exact I |].
  rewrite R. exact I.
Qed.

(* ------------------------------------------------------------------ the property, for pages from_page accepts *)
Lemma interior_from_page_fit d : interior_from_page d = Ok tt -> blen d = PAGE_SIZE /\ interior_slots_fit d = true.
Proof.
  intros Hp. apply btree_from_page_inv in Hp. destruct Hp as (Hl & G). split; [exact Hl|].
  assert (G16 : PH_SIZE <= blen d) by (rewrite Hl; unfold PH_SIZE, PAGE_SIZE; lia).
  unfold interior_slots_fit. rewrite (cell_count_ok d G16). rewrite interior_off.
  unfold slot_geometry_ok in G. cbv [INTERIOR_CONTENT_START PAGE_HEADER_SIZE INTERIOR_SLOT_SIZE PAGE_SIZE] in *. lia.
Qed.

Lemma interior_accessors_total_l : forall d i key, interior_from_page d = Ok tt -> bytes_ok d = true -> 0 <= i ->
  value_or_error (interior_slot_at d i) /\ value_or_error (interior_key_at d i) /\ value_or_error (find_child d key).
Proof.
  intros d i key Hp Hb Hi. destruct (interior_from_page_fit d Hp) as (Hl & Hf).
  assert (G16 : PH_SIZE <= blen d) by (rewrite Hl; unfold PH_SIZE, PAGE_SIZE; lia).
  pose proof (interior_slots_fit_no_oob d i G16 Hf Hi) as O.
  repeat split.
  - destruct (interior_slot_at_cases d i Hl Hb Hi)
      as [(O' & _)|[(_ & _ & R)|(_ & _ & _ & p & ch & co & kl & R & _)]]; [congruence | |]; rewrite R; exact I.
  - destruct (interior_key_at_cases d i Hl Hb Hi) as [(O' & _)|(_ & [R|(co & kl & _ & _ & _ & R)])];
      [congruence | |]; rewrite R; exact I.
  - exact (find_child_fit_total_l d key Hl Hb Hf).
Qed.

(* ------------------------------------------------------------------ the former witnesses *)
(* F-C23-3: zeros with type byte 1 and cell_count 1365 / 65535: the accessors would still panic, from_page turns
   the pages away *)
Definition interior_witness_oob : list Z := image 16384 0 [(0, [1; 0; 85; 5])].
Definition interior_witness_search : list Z := image 16384 0 [(0, [1; 0; 255; 255])].

Lemma interior_former_witnesses_l :
  bytes_ok interior_witness_oob = true /\ interior_slot_at interior_witness_oob 1364 = Panic /\
  interior_from_page interior_witness_oob = Err /\
  bytes_ok interior_witness_search = true /\ find_child interior_witness_search [] = Panic /\
  interior_from_page interior_witness_search = Err.
Proof. vm_compute. repeat split. Qed.
