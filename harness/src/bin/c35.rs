//! C35 page cache: drives the real `PageCache` (with a `MemoryBudget`) under the deterministic
//! scheduler.  A case = configuration + thread programs + schedule; observed: per coarse step the
//! outcome, the operations that completed (with results) and the Cache-pool counter; at the end the
//! resident data, len(), evict_all_unpinned(), clear() and the counter after each.
//!
//! Client protocol (mirrored in coq/Model/Cache.v): a thread keeps the PageRefs it obtained; Unpin
//! and Write act only on a PageRef the thread holds.  Between two operations of a thread there is a
//! harness-level site 900.
//!
//! Replay line:  `cap=<total> c0=<bytes> o=<bytes> | <ops of T0> | <ops of T1> ... | s=<t,t,...>`
//! ops: g<k> get, i<k>:<1|0>:<v> get_or_insert (init ok / fails), u<k> unpin, w<k>:<v> write,
//! r<k> read, c clear, e evict_all_unpinned.   k = file_id * 2^32 + page_no.
//! (Code as of /repo b391e62: a failing init releases its charge at site 112; clear() starts at site 502.)
use std::sync::atomic::{AtomicUsize, Ordering};
use std::sync::{Arc, Mutex};
use std::time::{Duration, Instant};
use tvh::sched::*;
use tvh::*;
use turdb::memory::{MemoryBudget, Pool};
use turdb::storage::{PageCache, PageKey};

const PS: usize = 16384;
const KIB: usize = 1024;
const LIMIT: usize = 4 * 1024 * 1024;

#[derive(Clone, Debug, PartialEq)]
enum Op { Get(u64), GetIns(u64, bool, u64), Unpin(u64), Write(u64, u64), Read(u64), Clear, EvictAll }

#[derive(Clone, Debug, PartialEq)]
enum Res { Hit, Miss, Ins, InitErr, ErrExhausted, ErrAlloc, ErrFull, Unpinned, UnpinPanic, NoRef, Data(Option<u64>), Wrote, WritePanic, Cleared, Evicted(usize), Panic }

#[derive(Clone, Debug)]
struct Cfg { total: usize, c0: usize, o: usize }

fn pk(k: u64) -> PageKey { PageKey::new((k >> 32) as u32, (k & 0xFFFF_FFFF) as u32) }

impl Op {
    fn term(&self) -> String {
        match self {
            Op::Get(k) => format!("OGet {}", k),
            Op::GetIns(k, ok, v) => format!("OGetIns {} {} {}", k, cbool(*ok), v),
            Op::Unpin(k) => format!("OUnpin {}", k),
            Op::Write(k, v) => format!("OWrite {} {}", k, v),
            Op::Read(k) => format!("ORead {}", k),
            Op::Clear => "OClear".into(),
            Op::EvictAll => "OEvictAll".into(),
        }
    }
    fn line(&self) -> String {
        match self {
            Op::Get(k) => format!("g{}", k),
            Op::GetIns(k, ok, v) => format!("i{}:{}:{}", k, if *ok { 1 } else { 0 }, v),
            Op::Unpin(k) => format!("u{}", k),
            Op::Write(k, v) => format!("w{}:{}", k, v),
            Op::Read(k) => format!("r{}", k),
            Op::Clear => "c".into(),
            Op::EvictAll => "e".into(),
        }
    }
    fn parse(s: &str) -> Option<Op> {
        let (h, r) = s.split_at(1);
        let nums: Vec<u64> = r.split(':').filter(|x| !x.is_empty()).map(|x| x.parse().unwrap_or(0)).collect();
        match h {
            "g" => Some(Op::Get(*nums.first()?)),
            "i" => Some(Op::GetIns(*nums.first()?, *nums.get(1)? != 0, *nums.get(2)?)),
            "u" => Some(Op::Unpin(*nums.first()?)),
            "w" => Some(Op::Write(*nums.first()?, *nums.get(1)?)),
            "r" => Some(Op::Read(*nums.first()?)),
            "c" => Some(Op::Clear),
            "e" => Some(Op::EvictAll),
            _ => None,
        }
    }
    fn key(&self) -> Option<u64> {
        match self { Op::Get(k) | Op::GetIns(k, _, _) | Op::Unpin(k) | Op::Write(k, _) | Op::Read(k) => Some(*k), _ => None }
    }
}

impl Res {
    fn term(&self) -> String {
        match self {
            Res::Hit => "RHit".into(), Res::Miss => "RMiss".into(), Res::Ins => "RIns".into(), Res::InitErr => "RInitErr".into(),
            Res::ErrExhausted => "RErrExhausted".into(), Res::ErrAlloc => "RErrAlloc".into(), Res::ErrFull => "RErrFull".into(),
            Res::Unpinned => "RUnpinned".into(), Res::UnpinPanic => "RUnpinPanic".into(), Res::NoRef => "RNoRef".into(),
            Res::Data(d) => format!("(RData {})", copt(d.map(|x| x.to_string()))),
            Res::Wrote => "RWrote".into(), Res::WritePanic => "RWritePanic".into(), Res::Cleared => "RCleared".into(),
            Res::Evicted(n) => format!("(REvicted {})", n), Res::Panic => "RPanic".into(),
        }
    }
}

fn case_line(cfg: &Cfg, progs: &[Vec<Op>], sched: &[usize]) -> String {
    let mut s = format!("cap={} c0={} o={}", cfg.total, cfg.c0, cfg.o);
    for p in progs { s.push_str(" | "); s.push_str(&p.iter().map(|o| o.line()).collect::<Vec<_>>().join(" ")); }
    s.push_str(" | s=");
    s.push_str(&sched.iter().map(|t| t.to_string()).collect::<Vec<_>>().join(","));
    s
}

fn parse_line(l: &str) -> Option<(Cfg, Vec<Vec<Op>>, Vec<usize>)> {
    let parts: Vec<&str> = l.split('|').map(|x| x.trim()).collect();
    if parts.len() < 3 { return None; }
    let mut cfg = Cfg { total: 64, c0: 0, o: 0 };
    for kv in parts[0].split_whitespace() {
        let mut it = kv.split('=');
        let (k, v) = (it.next()?, it.next()?.parse::<usize>().ok()?);
        match k { "cap" => cfg.total = v, "c0" => cfg.c0 = v, "o" => cfg.o = v, _ => return None }
    }
    let mut progs = vec![];
    for p in &parts[1..parts.len() - 1] {
        let ops: Option<Vec<Op>> = p.split_whitespace().map(Op::parse).collect();
        let ops = ops?;
        if ops.is_empty() { return None; }
        progs.push(ops);
    }
    let s = parts[parts.len() - 1].strip_prefix("s=")?;
    let sched: Vec<usize> = s.split(',').filter(|x| !x.is_empty()).filter_map(|x| x.parse().ok()).collect();
    Some((cfg, progs, sched))
}

#[derive(Clone, Debug)]
struct StepObs { t: usize, out: StepOutcome, ev: Vec<(usize, Res)>, used: usize }

#[derive(Clone, Debug)]
struct Observed {
    steps: Vec<StepObs>,
    datas: Vec<(u64, Option<u64>)>,
    len1: usize, used1: usize, evicted: usize, len2: usize, used2: usize, len3: usize, used3: usize,
    blocked_steps: usize,
}

enum RunResult { Ok(Observed), Discard(&'static str) }

fn classify_err(msg: &str) -> Res {
    if msg.contains("init failed") { Res::InitErr }
    else if msg.contains("memory budget exhausted") { Res::ErrExhausted }
    else if msg.contains("memory budget exceeded") { Res::ErrAlloc }
    else if msg.contains("cache shard full") { Res::ErrFull }
    else { Res::Panic }
}

fn os_tid() -> usize {
    std::fs::read_link("/proc/thread-self").ok()
        .and_then(|p| p.file_name().and_then(|n| n.to_str().map(|x| x.to_string())))
        .and_then(|n| n.parse().ok()).unwrap_or(0)
}

/// OS scheduling state of a thread of this process: 'R' running/runnable, 'S' sleeping (futex wait), ...
fn os_state(tid: usize) -> char {
    if tid == 0 { return '?'; }
    match std::fs::read_to_string(format!("/proc/self/task/{}/stat", tid)) {
        Ok(s) => s.rfind(')').and_then(|i| s[i + 1..].trim_start().chars().next()).unwrap_or('?'),
        Err(_) => '?',
    }
}

fn thread_body(id: usize, cache: Arc<PageCache>, prog: Vec<Op>, log: Arc<Mutex<Vec<(usize, Res)>>>, cur: Arc<Vec<AtomicUsize>>, tids: Arc<Vec<AtomicUsize>>) {
    tids[id].store(os_tid(), Ordering::SeqCst);
    let cache_ref: &PageCache = &cache;
    let mut held: Vec<(u64, turdb::storage::PageRef<'_>)> = vec![];
    let n = prog.len();
    for (i, op) in prog.into_iter().enumerate() {
        cur[id].store(i, Ordering::SeqCst);
        let r = match op {
            Op::Get(k) => match catch(std::panic::AssertUnwindSafe(|| cache_ref.get(&pk(k)))) {
                Caught::Done(Some(r)) => { held.push((k, r)); Res::Hit }
                Caught::Done(None) => Res::Miss,
                Caught::Panicked(_) => Res::Panic,
            },
            Op::GetIns(k, ok, v) => {
                let called = std::cell::Cell::new(false);
                let out = catch(std::panic::AssertUnwindSafe(|| cache_ref.get_or_insert(pk(k), |d: &mut [u8]| {
                    called.set(true);
                    if ok { d[..8].copy_from_slice(&v.to_le_bytes()); Ok(()) } else { eyre::bail!("init failed") }
                })));
                match out {
                    Caught::Done(Ok(r)) => { held.push((k, r)); if called.get() { Res::Ins } else { Res::Hit } }
                    Caught::Done(Err(e)) => classify_err(&format!("{}", e)),
                    Caught::Panicked(_) => Res::Panic,
                }
            }
            Op::Unpin(k) => match held.iter().position(|(hk, _)| *hk == k) {
                None => Res::NoRef,
                Some(p) => {
                    let (_, r) = held.remove(p);
                    match catch(std::panic::AssertUnwindSafe(move || drop(r))) { Caught::Done(()) => Res::Unpinned, Caught::Panicked(_) => Res::UnpinPanic }
                }
            },
            Op::Write(k, v) => match held.iter().position(|(hk, _)| *hk == k) {
                None => Res::NoRef,
                Some(p) => {
                    let r = &mut held[p].1;
                    match catch(std::panic::AssertUnwindSafe(|| { r.data_mut()[..8].copy_from_slice(&v.to_le_bytes()); })) {
                        Caught::Done(()) => Res::Wrote, Caught::Panicked(_) => Res::WritePanic }
                }
            },
            Op::Read(k) => match catch(std::panic::AssertUnwindSafe(|| cache_ref.data(&pk(k)).map(|d| u64::from_le_bytes(d[..8].try_into().unwrap())))) {
                Caught::Done(d) => Res::Data(d), Caught::Panicked(_) => Res::Panic },
            Op::Clear => match catch(std::panic::AssertUnwindSafe(|| cache_ref.clear())) { Caught::Done(()) => Res::Cleared, Caught::Panicked(_) => Res::Panic },
            Op::EvictAll => match catch(std::panic::AssertUnwindSafe(|| cache_ref.evict_all_unpinned())) { Caught::Done(n) => Res::Evicted(n), Caught::Panicked(_) => Res::Panic },
        };
        log.lock().unwrap().push((id, r));
        if i + 1 < n { turdb::verif_hooks::sched_point(900); }
    }
    // the pins of PageRefs still held stay in place (as in the model)
    for (_, r) in held { std::mem::forget(r); }
}

/// Wait until logical thread `id` has parked / finished (true), or is confirmed to be blocked in the
/// implementation (false): the scheduler says it is running while the OS says it sleeps, on
/// several consecutive polls.  A thread that is merely slow (machine under load) is runnable, not
/// sleeping, and is waited for.
fn wait_not_running(s: &Scheduler, id: usize, tid: usize, max: Duration) -> bool {
    let end = Instant::now() + max;
    let mut asleep = 0;
    loop {
        if s.state(id) != TState::Running { return true; }
        if os_state(tid) == 'S' { asleep += 1; } else { asleep = 0; }
        if asleep >= 6 && s.state(id) == TState::Running { return false; }
        if Instant::now() >= end { return false; }
        std::thread::sleep(Duration::from_micros(1500));
    }
}

fn run_case(cfg: &Cfg, progs: &[Vec<Op>], sched: &[usize], keys: &[u64]) -> RunResult {
    let budget = Arc::new(MemoryBudget::with_limit(LIMIT));
    if cfg.c0 > 0 && budget.allocate(Pool::Cache, cfg.c0).is_err() { return RunResult::Discard("cfg_c0"); }
    if cfg.o > 0 && budget.allocate(Pool::Shared, cfg.o).is_err() { return RunResult::Discard("cfg_o"); }
    let cache = match PageCache::with_budget(cfg.total, Some(Arc::clone(&budget))) { Ok(c) => Arc::new(c), Err(_) => return RunResult::Discard("cfg_cap") };
    let n = progs.len();
    let log: Arc<Mutex<Vec<(usize, Res)>>> = Arc::new(Mutex::new(vec![]));
    let cur: Arc<Vec<AtomicUsize>> = Arc::new((0..n).map(|_| AtomicUsize::new(0)).collect());
    let tids: Arc<Vec<AtomicUsize>> = Arc::new((0..n).map(|_| AtomicUsize::new(0)).collect());
    let mut s = Scheduler::new(n);
    if let Some(m) = Arc::get_mut(&mut s) { m.block_timeout = Duration::from_millis(20); }
    s.install();
    let mut hs = vec![];
    for (id, prog) in progs.iter().enumerate() {
        let (c2, l2, cu2, p2, t2) = (Arc::clone(&cache), Arc::clone(&log), Arc::clone(&cur), prog.clone(), Arc::clone(&tids));
        hs.push(s.spawn(id, move || thread_body(id, c2, p2, l2, cu2, t2)));
    }
    s.wait_all_started();
    let mut steps: Vec<StepObs> = vec![];
    let mut blocked: Vec<usize> = vec![];
    let mut discard: Option<&'static str> = None;
    let mut blocked_steps = 0usize;
    let confirm = Duration::from_millis(3000);
    let mut do_step = |t: usize, steps: &mut Vec<StepObs>, blocked: &mut Vec<usize>, discard: &mut Option<&'static str>| {
        if t >= n { return; }
        let op_before = progs[t].get(cur[t].load(Ordering::SeqCst)).cloned();
        let mut out = s.step(t);
        if out == StepOutcome::Blocked {
            // confirm: a thread that is merely slow arrives now
            if wait_not_running(&s, t, tids[t].load(Ordering::SeqCst), confirm) {
                out = match s.state(t) { TState::AtSite(x) => StepOutcome::Reached(x), TState::Finished => StepOutcome::Finished, _ => StepOutcome::Blocked };
            }
        }
        if out == StepOutcome::Blocked { blocked.push(t); blocked_steps += 1; }
        // threads blocked earlier may have been released by this step of t: a shard write lock is
        // released at the end of get_or_insert (and between shards by evict_all_unpinned), the
        // budget's alloc_lock when allocate returns
        let evict_all = op_before == Some(Op::EvictAll);
        if !blocked.is_empty() && out != StepOutcome::Skipped && out != StepOutcome::Blocked {
            let mut still = vec![];
            for &u in blocked.iter() {
                if u == t { still.push(u); continue; }
                if wait_not_running(&s, u, tids[u].load(Ordering::SeqCst), confirm) { if evict_all { *discard = Some("unblocked_by_evict_all"); } } else { still.push(u); }
            }
            *blocked = still;
        }
        if blocked.len() >= 2 { *discard = Some("two_blocked"); }
        let mut ev: Vec<(usize, Res)> = std::mem::take(&mut *log.lock().unwrap());
        ev.sort_by_key(|e| e.0);
        steps.push(StepObs { t, out, ev, used: budget.stats().cache_used });
    };
    for &t in sched { do_step(t, &mut steps, &mut blocked, &mut discard); if discard.is_some() { break; } }
    // drain: thread by thread to the end
    let mut guard = 0;
    while discard.is_none() && !s.all_finished() {
        let mut progressed = false;
        for t in 0..n {
            while discard.is_none() && matches!(s.state(t), TState::AtSite(_)) {
                do_step(t, &mut steps, &mut blocked, &mut discard);
                guard += 1;
                match steps.last().map(|x| x.out.clone()) { Some(StepOutcome::Blocked) | Some(StepOutcome::Skipped) => break, _ => progressed = true }
                if guard > 600 { discard = Some("too_long"); }
            }
        }
        if !progressed && discard.is_none() {
            // everybody left is blocked or running: give them time once, then give up
            std::thread::sleep(Duration::from_millis(100));
            if !(0..n).any(|t| matches!(s.state(t), TState::AtSite(_))) && !s.all_finished() { discard = Some("stuck"); }
        }
    }
    if discard.is_some() {
        // let everything run out so that the OS threads end
        Scheduler::uninstall();
        let _ = s.drain(1000);
        for h in hs { let _ = h.join(); }
        return RunResult::Discard(discard.unwrap());
    }
    for h in hs { let _ = h.join(); }
    Scheduler::uninstall();
    let leftover: Vec<(usize, Res)> = std::mem::take(&mut *log.lock().unwrap());
    if !leftover.is_empty() { return RunResult::Discard("late_event"); }
    let datas: Vec<(u64, Option<u64>)> = keys.iter().map(|&k| (k, cache.data(&pk(k)).map(|d| u64::from_le_bytes(d[..8].try_into().unwrap())))).collect();
    let len1 = cache.len();
    let used1 = budget.stats().cache_used;
    let evicted = cache.evict_all_unpinned();
    let len2 = cache.len();
    let used2 = budget.stats().cache_used;
    cache.clear();
    let len3 = cache.len();
    let used3 = budget.stats().cache_used;
    RunResult::Ok(Observed { steps, datas, len1, used1, evicted, len2, used2, len3, used3, blocked_steps })
}

fn keys_of(progs: &[Vec<Op>]) -> Vec<u64> {
    let mut ks: Vec<u64> = progs.iter().flatten().filter_map(|o| o.key()).collect();
    ks.sort();
    ks.dedup();
    ks
}

fn out_term(o: &StepOutcome) -> String {
    match o { StepOutcome::Reached(x) => format!("(OReached {})", x), StepOutcome::Finished => "OFinished".into(), StepOutcome::Blocked => "OBlocked".into(), StepOutcome::Skipped => "OSkipped".into() }
}

fn case_term(cfg: &Cfg, progs: &[Vec<Op>], ob: &Observed) -> String {
    let ps: Vec<String> = progs.iter().enumerate().map(|(i, p)| format!("({}%nat, {})", i, clist(&p.iter().map(|o| o.term()).collect::<Vec<_>>()))).collect();
    let ss: Vec<String> = ob.steps.iter().map(|st| {
        let ev: Vec<String> = st.ev.iter().map(|(t, r)| format!("({}%nat, {})", t, r.term())).collect();
        format!("Step {} {} {} {}", st.t, out_term(&st.out), clist(&ev), st.used)
    }).collect();
    let ds: Vec<String> = ob.datas.iter().map(|(k, d)| format!("({}, {})", k, copt(d.map(|x| x.to_string())))).collect();
    format!("Case {} {} {} {} {} {} (Final {} {} {} {} {} {} {} {})", cfg.total, LIMIT, cfg.c0, cfg.o, clist(&ps), clist(&ss), clist(&ds),
        ob.len1, ob.used1, ob.evicted, ob.len2, ob.used2, ob.len3, ob.used3)
}

// ------------------------------------------------------------------ the property's oracle (Rust twin of spec_ok, for search mode)
fn oracle(cfg: &Cfg, progs: &[Vec<Op>], ob: &Observed) -> bool {
    use std::collections::{HashMap, HashSet};
    let mut done = vec![0usize; progs.len()];
    let mut refs: HashMap<u64, i64> = HashMap::new();
    let mut last: HashMap<u64, u64> = HashMap::new();
    let mut taint: HashSet<u64> = HashSet::new();
    let mut clearing: Vec<usize> = vec![];
    let mut bad = false;
    let taint_pinned = |refs: &HashMap<u64, i64>, taint: &mut HashSet<u64>, clearing: &Vec<usize>| {
        if !clearing.is_empty() { for (k, n) in refs { if *n > 0 { taint.insert(*k); } } }
    };
    for st in &ob.steps {
        if st.out != StepOutcome::Skipped && progs[st.t].get(done[st.t]) == Some(&Op::Clear) && !clearing.contains(&st.t) { clearing.push(st.t); }
        taint_pinned(&refs, &mut taint, &clearing);
        let mut evs: Vec<&(usize, Res)> = st.ev.iter().filter(|e| e.0 == st.t).collect();
        evs.extend(st.ev.iter().filter(|e| e.0 != st.t));
        for (t, r) in evs {
            let op = progs[*t].get(done[*t]).cloned();
            let pinned = |k: u64, refs: &HashMap<u64, i64>, taint: &HashSet<u64>| refs.get(&k).copied().unwrap_or(0) > 0 && !taint.contains(&k);
            let addref = |k: u64, d: i64, refs: &mut HashMap<u64, i64>| { let e = refs.entry(k).or_insert(0); *e = (*e + d).max(0); };
            match (op, r) {
                (Some(Op::Get(k)), Res::Hit) => addref(k, 1, &mut refs),
                (Some(Op::Get(k)), Res::Miss) => bad |= pinned(k, &refs, &taint),
                (Some(Op::GetIns(k, _, _)), Res::Hit) => addref(k, 1, &mut refs),
                (Some(Op::GetIns(k, true, v)), Res::Ins) => { bad |= pinned(k, &refs, &taint); last.insert(k, v); addref(k, 1, &mut refs); }
                (Some(Op::GetIns(k, false, _)), Res::InitErr) => bad |= pinned(k, &refs, &taint),
                (Some(Op::GetIns(k, _, _)), Res::ErrExhausted) | (Some(Op::GetIns(k, _, _)), Res::ErrAlloc) | (Some(Op::GetIns(k, _, _)), Res::ErrFull) => bad |= pinned(k, &refs, &taint),
                (Some(Op::Unpin(k)), Res::Unpinned) => addref(k, -1, &mut refs),
                (Some(Op::Unpin(k)), Res::UnpinPanic) => { bad |= !taint.contains(&k); addref(k, -1, &mut refs); }
                (Some(Op::Unpin(_)), Res::NoRef) => {}
                (Some(Op::Write(k, v)), Res::Wrote) => { last.insert(k, v); }
                (Some(Op::Write(k, _)), Res::WritePanic) => bad |= !taint.contains(&k),
                (Some(Op::Write(_, _)), Res::NoRef) => {}
                (Some(Op::Read(k)), Res::Data(Some(d))) => bad |= last.get(&k) != Some(d),
                (Some(Op::Read(k)), Res::Data(None)) => bad |= pinned(k, &refs, &taint),
                (Some(Op::Clear), Res::Cleared) => { taint_pinned(&refs, &mut taint, &clearing); clearing.retain(|u| u != t); }
                (Some(Op::EvictAll), Res::Evicted(_)) => {}
                _ => bad = true,
            }
            done[*t] += 1;
        }
        taint_pinned(&refs, &mut taint, &clearing);
    }
    if bad { return false; }
    for (k, d) in &ob.datas {
        match d {
            Some(v) => if last.get(k) != Some(v) { return false; },
            None => if refs.get(k).copied().unwrap_or(0) > 0 && !taint.contains(k) { return false; },
        }
    }
    // capacity (documented shard function: (file_id * 31 + page_no) % 64)
    for i in 0..64usize {
        let capi = cfg.total / 64 + if i < cfg.total % 64 { 1 } else { 0 };
        let cnt = ob.datas.iter().filter(|(k, d)| d.is_some() && (((k >> 32) as usize) * 31 + (k & 0xFFFF_FFFF) as usize) % 64 == i).count();
        if cnt > capi { return false; }
    }
    // every entry of the cache is the page of exactly one key of the case: no key twice, no orphaned entry
    if ob.len1 != ob.datas.iter().filter(|(_, d)| d.is_some()).count() { return false; }
    ob.len1 <= cfg.total && ob.len2 <= ob.len1 && ob.len3 == 0 && ob.used3 == cfg.c0
}

// ------------------------------------------------------------------ generators
const K0: u64 = 0;            // shard 0
const K1: u64 = 64;           // shard 0
const K2: u64 = 128;          // shard 0
const K3: u64 = (2u64 << 32) | 2;   // file 2, page 2: (62 + 2) % 64 = shard 0
const J0: u64 = 1;            // shard 1
const J1: u64 = 65;           // shard 1
const K4: u64 = 192;          // shard 0
const K5: u64 = 256;          // shard 0

fn budget_cfgs() -> Vec<(usize, usize, &'static str)> {
    let mut v = vec![(0usize, 0usize, "roomy")];
    for n in 1..=3usize { v.push((512 * KIB, LIMIT - 512 * KIB - n * PS, "tight")); }       // n pages fit, then the eviction loop runs
    for n in 1..=2usize { v.push((0, LIMIT - n * PS, "limit")); }                          // can_allocate says yes, allocate fails
    v.push((512 * KIB - PS, LIMIT - 512 * KIB - PS, "edge"));
    v
}

/// scripted programs that reach the interesting windows
fn scripts() -> Vec<(Vec<Vec<Op>>, &'static str)> {
    use Op::*;
    vec![
        (vec![vec![GetIns(K0, true, 11), Unpin(K0), Clear], vec![GetIns(K1, true, 21), Read(K1), Unpin(K1)]], "clear_vs_insert"),
        (vec![vec![GetIns(K0, true, 11), Unpin(K0), Clear], vec![GetIns(J0, true, 21), Unpin(J0)]], "clear_vs_insert"),
        (vec![vec![GetIns(K0, true, 11), GetIns(J0, true, 12), Unpin(K0), Unpin(J0), Clear], vec![EvictAll]], "clear_vs_evict_all"),
        (vec![vec![GetIns(K0, true, 11), Unpin(K0), GetIns(K1, true, 12)], vec![GetIns(J0, true, 21), Unpin(J0), GetIns(J1, true, 22)]], "alloc_lock_two_shards"),
        (vec![vec![GetIns(K0, false, 11)], vec![GetIns(K1, true, 21), Unpin(K1)]], "init_failure"),
        (vec![vec![GetIns(K0, true, 11), GetIns(K1, false, 12), Unpin(K0)], vec![Read(K0), Get(K0), Unpin(K0)]], "init_failure"),
        (vec![vec![GetIns(K0, true, 11), Write(K0, 12), Read(K0), Unpin(K0)], vec![GetIns(K1, true, 21), Read(K1), Unpin(K1), Read(K0)]], "pin_vs_evict"),
        (vec![vec![GetIns(K0, true, 11), Unpin(K0), Get(K0), Write(K0, 13), Unpin(K0)], vec![GetIns(K1, true, 21), Unpin(K1), GetIns(K2, true, 31), Unpin(K2)]], "pin_vs_evict"),
        (vec![vec![GetIns(K0, true, 11), Unpin(K0), GetIns(K1, true, 12), Unpin(K1)], vec![GetIns(K2, true, 21), Unpin(K2), GetIns(K3, true, 22), Unpin(K3)]], "sieve"),
        (vec![vec![GetIns(K0, true, 11), Unpin(K0), Get(K0), Unpin(K0)], vec![GetIns(K0, true, 21), Write(K0, 22), Unpin(K0), Read(K0)]], "same_key"),
        (vec![vec![GetIns(K0, true, 11), Unpin(K0)], vec![GetIns(K0, true, 21), Unpin(K0)], vec![Get(K0), Read(K0), Unpin(K0)]], "same_key"),
        (vec![vec![GetIns(K0, true, 11), GetIns(K1, true, 12), Unpin(K0), Unpin(K1), EvictAll], vec![Get(K1), Read(K1), Unpin(K1), Read(K0)]], "evict_all"),
        (vec![vec![GetIns(K0, true, 11), Unpin(K0), Clear, Read(K0)], vec![Clear, GetIns(K0, true, 21), Unpin(K0)]], "two_clears"),
        (vec![vec![GetIns(K0, true, 11), Clear, Unpin(K0), Read(K0)], vec![GetIns(K0, true, 21), Unpin(K0), Unpin(K0)]], "clear_with_pins"),
    ]
}

fn random_prog(rng: &mut Rng, keys: &[u64], len: usize, tid: usize, allow_clear: bool) -> Vec<Op> {
    let mut p = vec![];
    let mut held: Vec<u64> = vec![];
    let mut seq = 0u64;
    for _ in 0..len {
        let k = *rng.pick(keys);
        let c = rng.below(100);
        seq += 1;
        let v = (tid as u64 + 1) * 1000 + seq * 10 + (k % 7);
        let op = if c < 34 { held.push(k); Op::GetIns(k, !rng.chance(1, 12), v) }
            else if c < 46 { held.push(k); Op::Get(k) }
            else if c < 66 { if let Some(&h) = held.last() { held.pop(); Op::Unpin(h) } else { Op::Unpin(k) } }
            else if c < 78 { if let Some(&h) = held.last() { Op::Write(h, v) } else { Op::Write(k, v) } }
            else if c < 90 { Op::Read(k) }
            else if c < 95 { Op::EvictAll }
            else if allow_clear { Op::Clear } else { Op::Read(k) };
        p.push(op);
    }
    p
}

fn random_sched(rng: &mut Rng, n: usize, len: usize) -> Vec<usize> {
    let mut s = vec![];
    while s.len() < len {
        let t = rng.below(n as u64) as usize;
        let run = 1 + rng.below(4) as usize;
        for _ in 0..run { s.push(t); }
    }
    s
}

struct Gen { cases: Vec<(Cfg, Vec<Vec<Op>>, Vec<usize>, &'static str)> }

fn generate(rng: &mut Rng, thorough: bool) -> Gen {
    let mut g = Gen { cases: vec![] };
    let caps = [64usize, 128, 65, 192];
    let bcfg = budget_cfgs();
    // (1) scripts x two-phase schedules: thread x runs a steps, then thread y runs b steps, the rest is drained
    //     in thread order.  The values of a are taken from a probe run of x alone: every position where x is
    //     parked at a hook site (501, 99, 100, 101, 102, 112, 502) and some operation boundaries.
    for (si, (progs, kind)) in scripts().into_iter().enumerate() {
        let cfgs: Vec<Cfg> = if thorough {
            let nb = bcfg.len();
            vec![Cfg { total: caps[si % 4], c0: 0, o: 0 },
                 Cfg { total: caps[(si + 1) % 4], c0: bcfg[1 + si % (nb - 1)].0, o: bcfg[1 + si % (nb - 1)].1 },
                 Cfg { total: caps[(si + 2) % 4], c0: bcfg[1 + (si + 2) % (nb - 1)].0, o: bcfg[1 + (si + 2) % (nb - 1)].1 },
                 Cfg { total: caps[(si + 3) % 4], c0: bcfg[1 + (si + 4) % (nb - 1)].0, o: bcfg[1 + (si + 4) % (nb - 1)].1 }]
        } else {
            vec![Cfg { total: caps[si % 2], c0: 0, o: 0 }, Cfg { total: caps[(si + 1) % 4], c0: bcfg[1 + si % 3].0, o: bcfg[1 + si % 3].1 }]
        };
        for cfg in cfgs {
            for (x, y) in [(0usize, 1usize), (1, 0)] {
                let keys = keys_of(&progs);
                let probe = match run_case(&cfg, &progs, &vec![x; 40], &keys) { RunResult::Ok(ob) => ob, RunResult::Discard(_) => continue };
                let mut points: Vec<usize> = vec![0];
                let mut boundaries = 0;
                for (i, st) in probe.steps.iter().enumerate() {
                    if st.t != x { break; }
                    match st.out {
                        StepOutcome::Reached(900) => { boundaries += 1; if thorough || boundaries % 2 == 1 { points.push(i + 1); } }
                        StepOutcome::Reached(_) => points.push(i + 1),
                        _ => {}
                    }
                }
                let bs: Vec<usize> = if thorough { vec![1, 3, 30] } else { vec![2, 30] };
                for &a in &points {
                    for &b in &bs {
                        if !thorough && (a + b + si + x) % 3 == 0 { continue; }
                        let mut sch = vec![x; a];
                        sch.extend(std::iter::repeat(y).take(b));
                        g.cases.push((cfg.clone(), progs.clone(), sch, kind));
                    }
                }
            }
        }
    }
    // (3) same-key race in a FULL shard with several evictable pages: thread 0 fills shard 0 to its capacity
    //     (>= 2 pages per shard) with unpinned pages, then both threads get_or_insert the same absent key;
    //     one PageRef is dropped, a further key is inserted into the shard, the remaining PageRef is read.
    //     Schedules: after the prefill, x runs a steps, y runs b, x runs c, y runs d, rest drained in order
    //     (every combination of how far each thread gets before / behind site 501 and through the write-locked
    //     part; while one holds the shard's write lock the other is blocked, so this covers every order of the
    //     two racing calls), both thread orders, both roles (which thread drops first).
    {
        let shard0 = [K0, K1, K2, K3, K4, K5];
        let mut fam: Vec<(Cfg, Vec<Vec<Op>>)> = vec![];
        let mut cfgs: Vec<(usize, usize, usize)> = vec![(128, 0, 0)];                       // (total, c0, o): 2 pages per shard
        if thorough { cfgs.push((192, 0, 0)); cfgs.push((128, 512 * KIB, LIMIT - 512 * KIB - 2 * PS)); cfgs.push((129, 0, 0)); }
        for (total, c0, o) in cfgs {
            let cap0 = total / 64 + if total % 64 > 0 { 1 } else { 0 };
            let mut pre: Vec<Op> = vec![];
            for i in 0..cap0 { pre.push(Op::GetIns(shard0[i], true, 100 + i as u64)); pre.push(Op::Unpin(shard0[i])); }
            let (kr, kn) = (shard0[cap0], shard0[cap0 + 1]);
            // role A: thread 0 drops its PageRef and inserts the further key; thread 1 keeps reading
            let mut t0 = pre.clone(); t0.extend([Op::GetIns(kr, true, 30), Op::Unpin(kr), Op::GetIns(kn, true, 40), Op::Unpin(kn)]);
            let t1 = vec![Op::GetIns(kr, true, 31), Op::Read(kr), Op::Write(kr, 32), Op::Read(kr), Op::Unpin(kr)];
            fam.push((Cfg { total, c0, o }, vec![t0, t1]));
            // role B: thread 1 drops and inserts; thread 0 keeps reading
            let mut t0 = pre.clone(); t0.extend([Op::GetIns(kr, true, 30), Op::Read(kr), Op::Get(kr), Op::Read(kr), Op::Unpin(kr), Op::Unpin(kr)]);
            let t1 = vec![Op::GetIns(kr, true, 31), Op::Unpin(kr), Op::GetIns(kn, true, 41), Op::Read(kr), Op::Unpin(kn)];
            fam.push((Cfg { total, c0, o }, vec![t0, t1]));
        }
        for (fi, (cfg, progs)) in fam.into_iter().enumerate() {
            let deep = thorough && fi < 2;      // the full ranges on the plain 128-page cache, the sampled ones elsewhere
            let keys = keys_of(&progs);
            // length of the prefill in coarse steps: thread 0 alone until its (2 * cap)th operation boundary
            let npre_ops = progs[0].iter().take_while(|o| !matches!(o, Op::GetIns(k, _, v) if *v == 30 && *k != K0)).count();
            let probe = match run_case(&cfg, &progs, &vec![0; 60], &keys) { RunResult::Ok(ob) => ob, RunResult::Discard(_) => continue };
            let mut pre_steps = 0; let mut seen = 0;
            for (i, st) in probe.steps.iter().enumerate() {
                if st.t != 0 { break; }
                if st.out == StepOutcome::Reached(900) { seen += 1; if seen == npre_ops { pre_steps = i + 1; break; } }
            }
            if pre_steps == 0 { continue; }
            let (ab, cs, ds): (Vec<usize>, Vec<usize>, Vec<usize>) = if deep {
                (vec![0, 1, 2, 3], vec![0, 1, 2, 3, 4, 5, 6, 7, 8, 9], vec![0, 1, 2, 6, 7, 8, 9, 12])
            } else {
                (vec![0, 1, 2], vec![0, 5, 6, 7, 9], vec![0, 1, 8])
            };
            for (x, y) in [(0usize, 1usize), (1, 0)] {
                for &a in &ab { for &b in &ab { for &c in &cs { for &d in &ds {
                    if !thorough && a == 0 && b == 0 { continue; }
                    let mut sch = vec![0usize; pre_steps];
                    sch.extend(std::iter::repeat(x).take(a));
                    sch.extend(std::iter::repeat(y).take(b));
                    sch.extend(std::iter::repeat(x).take(c));
                    sch.extend(std::iter::repeat(y).take(d));
                    g.cases.push((cfg.clone(), progs.clone(), sch, "same_key_race_full_shard"));
                } } } }
            }
        }
    }
    // (2) random programs and schedules
    let n_rand = if thorough { 2500 } else { 200 };
    for i in 0..n_rand {
        let nt = if rng.chance(1, 4) { 3 } else if rng.chance(1, 10) { 1 } else { 2 };
        let keysets: [&[u64]; 4] = [&[K0, K1], &[K0, K1, K2], &[K0, K1, J0], &[K0, K1, K2, K3, J0, J1]];
        let keys = keysets[rng.below(4) as usize];
        let allow_clear = rng.chance(1, 3);
        let progs: Vec<Vec<Op>> = (0..nt).map(|t| { let l = 1 + rng.below(if nt == 1 { 8 } else { 5 }) as usize; random_prog(rng, keys, l, t, allow_clear) }).collect();
        let (c0, o, _) = bcfg[if rng.chance(1, 2) { 0 } else { rng.below(bcfg.len() as u64) as usize }];
        let cfg = Cfg { total: caps[rng.below(4) as usize], c0, o };
        let sl = rng.below(14) as usize;
        let s = random_sched(rng, nt, sl);
        g.cases.push((cfg, progs, s, if nt == 1 { "random_sequential" } else if i % 2 == 0 { "random_2_3_threads" } else { "random_2_3_threads" }));
    }
    g
}

fn nontrivial(progs: &[Vec<Op>], ob: &Observed) -> bool {
    // at least two threads took turns, or an eviction / error / clear path was exercised
    let mut switches = 0;
    for w in ob.steps.windows(2) { if w[0].t != w[1].t { switches += 1; } }
    let special = ob.steps.iter().flat_map(|s| s.ev.iter()).any(|(_, r)| matches!(r, Res::ErrFull | Res::ErrAlloc | Res::ErrExhausted | Res::InitErr | Res::Cleared | Res::Evicted(_)));
    (progs.len() >= 2 && switches >= 2) || special
}

fn main() {
    let a = Args::parse();
    match a.mode.as_str() {
        "gen" => gen(&a),
        "search" => search(&a),
        _ => { eprintln!("c35: unknown mode"); std::process::exit(2); }
    }
}

fn gen(a: &Args) {
    let mut rng = Rng::new(a.seed);
    let mut w = CaseWriter::new(&a.out, "C35", "Corr.C35", 120);
    let cases: Vec<(Cfg, Vec<Vec<Op>>, Vec<usize>, &'static str)> = if let Some(lines) = a.replay_lines() {
        lines.iter().filter_map(|l| parse_line(l)).map(|(c, p, s)| (c, p, s, "replay")).collect()
    } else { generate(&mut rng, a.thorough()).cases };
    let mut blocked_total = 0u64;
    let mut windows: std::collections::BTreeMap<String, u64> = Default::default();
    for (cfg, progs, sched, kind) in cases {
        let keys = keys_of(&progs);
        match run_case(&cfg, &progs, &sched, &keys) {
            RunResult::Discard(why) => { w.count(&format!("discarded_{}", why), 1); }
            RunResult::Ok(ob) => {
                blocked_total += ob.blocked_steps as u64;
                // which racy windows were hit: another thread stepped while one was parked at 501 / 502 / inside the budget calls
                let mut parked: Vec<Option<u32>> = vec![None; progs.len()];
                for st in &ob.steps {
                    for (u, p) in parked.iter().enumerate() {
                        if u != st.t && st.out != StepOutcome::Skipped { if let Some(site) = p { if *site != 900 { *windows.entry(format!("window_{}", site)).or_insert(0) += 1; } } }
                    }
                    if st.out == StepOutcome::Blocked && parked[st.t] == Some(99) { *windows.entry("blocked_on_alloc_lock".to_string()).or_insert(0) += 1; }
                    parked[st.t] = match st.out { StepOutcome::Reached(x) => Some(x), StepOutcome::Finished => None, _ => parked[st.t] };
                }
                let nt = nontrivial(&progs, &ob);
                w.push(case_term(&cfg, &progs, &ob), case_line(&cfg, &progs, &sched), nt, kind);
            }
        }
    }
    let extra: Vec<(String, String)> = vec![
        ("blocked_steps".to_string(), blocked_total.to_string()),
        ("windows_hit".to_string(), format!("{{{}}}", windows.iter().map(|(k, v)| format!("{}: {}", jstr(k), v)).collect::<Vec<_>>().join(", "))),
    ];
    w.finish(&extra);
}

fn search(a: &Args) {
    let mut rng = Rng::new(a.seed ^ 0xC35C35);
    let mut tried = 0u64;
    let mut fails: Vec<String> = vec![];
    let budget_cases = (a.budget / 1000).clamp(200, 3000);
    let g = generate(&mut rng, true);
    let total = g.cases.len() as u64;
    let stride = (total / budget_cases).max(1);
    let deadline = Instant::now() + Duration::from_secs(600);
    for (i, (cfg, progs, sched, _)) in g.cases.into_iter().enumerate() {
        if (i as u64) % stride != 0 { continue; }
        if Instant::now() > deadline { break; }
        let keys = keys_of(&progs);
        if let RunResult::Ok(ob) = run_case(&cfg, &progs, &sched, &keys) {
            tried += 1;
            if !oracle(&cfg, &progs, &ob) && fails.len() < 60 { fails.push(case_line(&cfg, &progs, &sched)); }
        }
    }
    let mut out = format!("tried={}\n", tried);
    for f in &fails { out.push_str("FAIL "); out.push_str(f); out.push('\n'); }
    std::fs::write(&a.out, out).expect("write search output");
}
