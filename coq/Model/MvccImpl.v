(* C08 -- what the implementation does with several handles: Model/UndoLog.v, one undo log per
   handle, ONE shared table that every statement of every handle modifies in place; scans filter
   DELETE_BIT only (src/sql/executor.rs StreamingBTreeSource::next_row), the visibility and
   write-conflict helpers of src/mvcc/version.rs are never called by scans or DML, COMMIT only frees
   the handle's slot.  Definitions only. *)
From Coq Require Import ZArith List Bool.
From TV Require Import Model.SqlSpec Model.UndoLog.
Import ListNotations.
Open Scope Z_scope.

Definition impl_init (nh : nat) : hstate := (t_empty, repeat None nh).
(* every handle sees the same thing *)
Definition impl_view (s : hstate) : list trow := scan (fst s).
Fixpoint impl_run (sch : schema) (sched : list (nat * op)) (s : hstate) : hstate :=
  match sched with
  | [] => s
  | (h, o) :: rest => impl_run sch rest (snd (exec_h sch h o s))
  end.
(* the results of the statements of a schedule *)
Fixpoint impl_results (sch : schema) (sched : list (nat * op)) (s : hstate) : list res :=
  match sched with
  | [] => []
  | (h, o) :: rest => let (r, s') := exec_h sch h o s in r :: impl_results sch rest s'
  end.
