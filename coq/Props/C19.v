(* C19 -- Equivalent query formulations return identical results.
   Statements only; all proofs are in Proof/QueryExprLaws.v, QueryLawsBase.v, QueryLaws.v,
   ConstFold.v, Pushdown.v, PlanClass.v. *)
From Coq Require Import ZArith List Bool Permutation.
From TV Require Import Model.SqlSpec Model.QuerySpec Model.ConstFold Model.Pushdown Model.PlanClass.
From TV Require Import Proof.SqlSpecLaws Proof.QueryExprLaws Proof.QueryLawsBase Proof.QueryLaws Proof.ConstFold Proof.Pushdown Proof.PlanClass.
Import ListNotations.
Open Scope Z_scope.

(* ------------------------------------------------------------------ the reference semantics: laws *)
(* every generated rewrite (operand order of AND / OR everywhere or at the top, re-association,
   De Morgan, double negation, IN / BETWEEN expansion, equality as two inequalities, always-true conjuncts, select-item order,
   FROM order with LEFT <-> RIGHT, ON <-> WHERE of an inner join, surface syntax) returns the same
   bag of rows, up to the column permutation it states -- for every database and query *)
Theorem equivalent_formulations : forall d rw q q' perm, db_wf d -> apply_rw d rw q = Some (q', perm) ->
  Permutation (map (permute_orow perm) (q_out d q)) (q_out d q').
Proof. exact rewrite_sound. Qed.
Check equivalent_formulations : forall d rw q q' perm, db_wf d -> apply_rw d rw q = Some (q', perm) ->
  Permutation (map (permute_orow perm) (q_out d q)) (q_out d q').
Print Assumptions equivalent_formulations.

(* WHERE p, WHERE NOT p and WHERE p IS NULL together return the rows of the query without WHERE *)
Theorem tlp_partition : forall d q p, q_where q = Some p -> defined_on p (eval_from d (q_from q)) = true ->
  Permutation (q_out d q ++ q_out d (tlp_not q) ++ q_out d (tlp_null q)) (q_out d (tlp_all q)).
Proof. exact tlp_query. Qed.
Check tlp_partition : forall d q p, q_where q = Some p -> defined_on p (eval_from d (q_from q)) = true ->
  Permutation (q_out d q ++ q_out d (tlp_not q) ++ q_out d (tlp_null q)) (q_out d (tlp_all q)).
Print Assumptions tlp_partition.

(* AND / OR: operand order (at every node: mirror) and association never change a truth value,
   not even an undefined one *)
Theorem and_or_comm_assoc : forall e r,
  eval (mirror e) r = eval e r /\ sem3 (comm_top e) r = sem3 e r /\
  sem3 (assoc_r e) r = sem3 e r /\ sem3 (assoc_l e) r = sem3 e r /\ sem3 (de_morgan e) r = sem3 e r.
Proof.
  exact (fun e r => conj (mirror_eval e r) (conj (comm_top_sem3 e r) (conj (assoc_r_sem3 e r) (conj (assoc_l_sem3 e r) (de_morgan_sem3 e r))))).
Qed.
Check and_or_comm_assoc : forall e r,
  eval (mirror e) r = eval e r /\ sem3 (comm_top e) r = sem3 e r /\
  sem3 (assoc_r e) r = sem3 e r /\ sem3 (assoc_l e) r = sem3 e r /\ sem3 (de_morgan e) r = sem3 e r.
Print Assumptions and_or_comm_assoc.

(* IN is the disjunction of its equalities, BETWEEN the conjunction of its two comparisons *)
Theorem in_between_expansion : forall e r, sem3 (expand e) r = sem3 e r.
Proof. exact expand_sem3. Qed.
Check in_between_expansion : forall e r, sem3 (expand e) r = sem3 e r.
Print Assumptions in_between_expansion.

(* a = b is a <= b AND a >= b (the formulation a hash join cannot take) *)
Theorem equality_as_range : forall e r, sem3 (eq_range e) r = sem3 e r.
Proof. exact eq_range_sem3. Qed.
Check equality_as_range : forall e r, sem3 (eq_range e) r = sem3 e r.
Print Assumptions equality_as_range.

(* reordering FROM items: every join with its inputs exchanged (LEFT <-> RIGHT) returns the same
   rows with the two column blocks swapped *)
Theorem from_reorder : forall on wl wr L R,
  (forall l, In l L -> length l = wl) -> (forall r, In r R -> length r = wr) ->
  forall k, Permutation (map (swap_row wl) (join_spec k on wl wr L R))
                        (join_spec (mirror_kind k) (remap (swap_col wl wr) on) wr wl R L).
Proof. exact join_swap. Qed.
Check from_reorder : forall on wl wr L R,
  (forall l, In l L -> length l = wl) -> (forall r, In r R -> length r = wr) ->
  forall k, Permutation (map (swap_row wl) (join_spec k on wl wr L R))
                        (join_spec (mirror_kind k) (remap (swap_col wl wr) on) wr wl R L).
Print Assumptions from_reorder.

(* select items reordered: the same rows with the columns permuted *)
Theorem select_item_perm : forall d q p q', db_wf d -> apply_rw d (RwItems p) q = Some (q', p) ->
  Permutation (map (permute_orow p) (q_out d q)) (q_out d q').
Proof. exact (fun d q p q' H E => rewrite_sound d (RwItems p) q q' p H E). Qed.
Check select_item_perm : forall d q p q', db_wf d -> apply_rw d (RwItems p) q = Some (q', p) ->
  Permutation (map (permute_orow p) (q_out d q)) (q_out d q').
Print Assumptions select_item_perm.

(* an always-true conjunct changes nothing, on either side of the AND *)
Theorem true_conjunct_neutral : forall t p r, sem3 t r = Some TT ->
  sem3 (EAnd p t) r = sem3 p r /\ sem3 (EAnd t p) r = sem3 p r.
Proof. exact true_conjunct_sem3. Qed.
Check true_conjunct_neutral : forall t p r, sem3 t r = Some TT ->
  sem3 (EAnd p t) r = sem3 p r /\ sem3 (EAnd t p) r = sem3 p r.
Print Assumptions true_conjunct_neutral.
Theorem generated_conjuncts_true : forall w t, is_taut w t = true -> forall r, length r = w -> sem3 t r = Some TT.
Proof. exact is_taut_sound. Qed.
Check generated_conjuncts_true : forall w t, is_taut w t = true -> forall r, length r = w -> sem3 t r = Some TT.
Print Assumptions generated_conjuncts_true.

(* ------------------------------------------------------------------ predicate pushdown *)
(* sound for a predicate over one input: CROSS / INNER joins and the preserved side of an outer join *)
Theorem pushdown_sound_left : forall on p wl wr L R,
  (forall l, In l L -> length l = wl) -> only_left wl p = true ->
  forall k, left_push_ok k = true -> plan_left k on wl wr L R p = plan_before k on wl wr L R p.
Proof. exact pushdown_left_sound. Qed.
Check pushdown_sound_left : forall on p wl wr L R,
  (forall l, In l L -> length l = wl) -> only_left wl p = true ->
  forall k, left_push_ok k = true -> plan_left k on wl wr L R p = plan_before k on wl wr L R p.
Print Assumptions pushdown_sound_left.
Theorem pushdown_sound_right : forall on p wl wr L R,
  (forall l, In l L -> length l = wl) -> only_right wl p = true ->
  forall k, right_push_ok k = true -> plan_right k on wl wr L R p = plan_before k on wl wr L R p.
Proof. exact pushdown_right_sound. Qed.
Check pushdown_sound_right : forall on p wl wr L R,
  (forall l, In l L -> length l = wl) -> only_right wl p = true ->
  forall k, right_push_ok k = true -> plan_right k on wl wr L R p = plan_before k on wl wr L R p.
Print Assumptions pushdown_sound_right.

(* the pushdown rule as repaired in /repo (2cb4862) only makes the pushes proved sound above *)
Theorem pushdown_rule_sound : forall k on p wl wr L R,
  (forall l, In l L -> length l = wl) ->
  match push_decision k wl p with
  | PLeft => plan_left k on wl wr L R p = plan_before k on wl wr L R p
  | PRight => plan_right k on wl wr L R p = plan_before k on wl wr L R p
  | PStay | POther => True
  end.
Proof. exact rule_sound_lemma. Qed.
Check pushdown_rule_sound : forall k on p wl wr L R,
  (forall l, In l L -> length l = wl) ->
  match push_decision k wl p with
  | PLeft => plan_left k on wl wr L R p = plan_before k on wl wr L R p
  | PRight => plan_right k on wl wr L R p = plan_before k on wl wr L R p
  | PStay | POther => True
  end.
Print Assumptions pushdown_rule_sound.

(* UNsound under the NULL-supplying side of an outer join: what the rule has to respect (it did not
   before 2cb4862: finding F-C19-6, fixed) *)
Theorem pushdown_unsound_outer :
  let on := ECmp CEq (ECol 0) (ECol 1) in
  let p := ECmp CEq (ECol 1) (ELit (VInt 2)) in
  only_right 1 p = true /\
  plan_before JLeft on 1 1 [[VInt 1]] [[VInt 2]] p = [] /\
  plan_right JLeft on 1 1 [[VInt 1]] [[VInt 2]] p = [[VInt 1; VNull]].
Proof. exact pushdown_outer_unsound. Qed.
Check pushdown_unsound_outer :
  let on := ECmp CEq (ECol 0) (ECol 1) in
  let p := ECmp CEq (ECol 1) (ELit (VInt 2)) in
  only_right 1 p = true /\
  plan_before JLeft on 1 1 [[VInt 1]] [[VInt 2]] p = [] /\
  plan_right JLeft on 1 1 [[VInt 1]] [[VInt 2]] p = [[VInt 1; VNull]].
Print Assumptions pushdown_unsound_outer.

(* HISTORICAL (finding F-C19-4, fixed by 2cb4862): the old rule decided from the columns it saw; the
   repaired rule leaves this predicate above the join *)
Theorem historical_pushdown_blind :
  let p := EAnd (ECmp CEq (ECol 0) (ELit (VInt 1))) (EIn false (ECol 1) [ELit (VInt 3)]) in
  push_decision_old 1 p = PLeft /\ only_left 1 p = false /\ push_decision JInner 1 p = PStay.
Proof. exact push_blind_refuted. Qed.
Check historical_pushdown_blind :
  let p := EAnd (ECmp CEq (ECol 0) (ELit (VInt 1))) (EIn false (ECol 1) [ELit (VInt 3)]) in
  push_decision_old 1 p = PLeft /\ only_left 1 p = false /\ push_decision JInner 1 p = PStay.
Print Assumptions historical_pushdown_blind.

(* ------------------------------------------------------------------ constant folding *)
(* the folded filter keeps exactly the rows of the original (x AND FALSE, x OR TRUE, TRUE AND x,
   literal comparisons, NOT of a decided predicate ...) *)
Theorem constant_folding_sound : forall e t, defined_on e t = true -> where_rows (effective e) t = filter_spec e t.
Proof. exact const_fold_sound. Qed.
Check constant_folding_sound : forall e t, defined_on e t = true -> where_rows (effective e) t = filter_spec e t.
Print Assumptions constant_folding_sound.
Theorem const_fold_step_sound : forall e r v, sem3 e r = Some v ->
  match fold_step e with
  | FRemoved => v = TT
  | FFalse => tv_is_true v = false
  | FSimp q => passes q r = tv_is_true v
  | FNoChange | FOther => True
  end.
Proof. exact fold_step_sound. Qed.
Check const_fold_step_sound : forall e r v, sem3 e r = Some v ->
  match fold_step e with
  | FRemoved => v = TT
  | FFalse => tv_is_true v = false
  | FSimp q => passes q r = tv_is_true v
  | FNoChange | FOther => True
  end.
Print Assumptions const_fold_step_sound.
(* folding x = x to TRUE would not be sound, and is not done; x AND FALSE is folded, soundly *)
Theorem self_equality_not_foldable :
  (exists x r, sem3 (ECmp CEq x x) r = Some UU /\ passes (ECmp CEq x x) r = false) /\
  (forall i, fold (ECmp CEq (ECol i) (ECol i)) = None) /\
  (forall x r, fold (EAnd x (ELit (VBool false))) = Some FdFalse /\ passes (EAnd x (ELit (VBool false))) r = false).
Proof. exact (conj self_equality_is_not_true (conj self_equality_not_folded and_false_folded)). Qed.
Check self_equality_not_foldable :
  (exists x r, sem3 (ECmp CEq x x) r = Some UU /\ passes (ECmp CEq x x) r = false) /\
  (forall i, fold (ECmp CEq (ECol i) (ECol i)) = None) /\
  (forall x r, fold (EAnd x (ELit (VBool false))) = Some FdFalse /\ passes (EAnd x (ELit (VBool false))) r = false).
Print Assumptions self_equality_not_foldable.

(* ------------------------------------------------------------------ single-table implementation model *)
(* single-table queries: the implementation model is the reference semantics and no finding class
   applies (class 1, the projection fast path, is repaired in /repo: its former witness is answered
   correctly by the model, and by the real Database on every check) *)
Theorem single_table_correct : forall d q, single q -> impl_single d q = q_out d q /\ q_class d q = 0.
Proof. exact impl_single_correct. Qed.
Check single_table_correct : forall d q, single q -> impl_single d q = q_out d q /\ q_class d q = 0.
Print Assumptions single_table_correct.
Theorem projection_fast_path_fixed :
  let d : db := [(2%nat, [[VInt 1; VInt 10]; [VInt 2; VInt 20]])] in
  impl_single d (mkQuery (FTab 0) None false [ECol 1]) = [[Some (VInt 10)]; [Some (VInt 20)]] /\
  impl_single d (mkQuery (FTab 0) None false [ECol 1; ECol 0]) = [[Some (VInt 10); Some (VInt 1)]; [Some (VInt 20); Some (VInt 2)]].
Proof. exact proj_fixed. Qed.
Check projection_fast_path_fixed :
  let d : db := [(2%nat, [[VInt 1; VInt 10]; [VInt 2; VInt 20]])] in
  impl_single d (mkQuery (FTab 0) None false [ECol 1]) = [[Some (VInt 10)]; [Some (VInt 20)]] /\
  impl_single d (mkQuery (FTab 0) None false [ECol 1; ECol 0]) = [[Some (VInt 10); Some (VInt 1)]; [Some (VInt 20); Some (VInt 2)]].
Print Assumptions projection_fast_path_fixed.

(* ------------------------------------------------------------------ non-vacuity *)
Definition ex_db : db := [(2%nat, [[VInt 1; VInt 1]; [VInt 2; VNull]]); (2%nat, [[VInt 1; VInt 1]; [VInt 2; VInt 3]])].
Definition ex_q : query :=
  mkQuery (FJoin JLeft (FTab 0) (FTab 1) (ECmp CEq (ECol 1) (ECol 3)))
          (Some (EOr (ECmp CGt (ECol 0) (ELit (VInt 1))) (EIsNull false (ECol 3)))) false [ECol 0; ECol 2].
Example ex_db_wf : db_wfb ex_db = true.
Proof. reflexivity. Qed.
(* the rewrites apply to a LEFT JOIN query with a WHERE clause, and the swapped query is a RIGHT JOIN *)
Example ex_swap : exists q', apply_rw ex_db RwFromSwap ex_q = Some (q', []) /\
                             q_from q' = FJoin JRight (FTab 1) (FTab 0) (ECmp CEq (ECol 3) (ECol 1)).
Proof. eexists. split; reflexivity. Qed.
Example ex_items : exists q', apply_rw ex_db (RwItems [1%nat; 0%nat]) ex_q = Some (q', [1%nat; 0%nat]).
Proof. eexists. reflexivity. Qed.
Example ex_true : exists q', apply_rw ex_db (RwTrueConj true (ECmp CLt (ELit (VInt 1)) (ELit (VInt 2)))) ex_q = Some (q', []).
Proof. eexists. reflexivity. Qed.
(* the partition law's hypothesis holds, with all three parts non-empty or UNKNOWN present *)
Example ex_tlp : defined_on (EOr (ECmp CGt (ECol 0) (ELit (VInt 1))) (EIsNull false (ECol 3))) (eval_from ex_db (q_from ex_q)) = true
                 /\ length (q_out ex_db (tlp_all ex_q)) = 2%nat /\ length (q_out ex_db ex_q) = 1%nat /\ length (q_out ex_db (tlp_not ex_q)) = 1%nat.
Proof. repeat split; vm_compute; reflexivity. Qed.
(* the pushdown hypotheses are satisfiable and the fold model folds something *)
Example ex_push : only_left 2 (ECmp CEq (ECol 1) (ELit (VInt 1))) = true /\ left_push_ok JLeft = true /\
                  push_decision JLeft 2 (ECmp CEq (ECol 1) (ELit (VInt 1))) = PLeft.
Proof. repeat split; reflexivity. Qed.
Example ex_fold : fold_step (EAnd (ECmp CEq (ELit (VInt 1)) (ELit (VInt 1))) (ECmp CLt (ECol 0) (ELit (VInt 3)))) = FSimp (ECmp CLt (ECol 0) (ELit (VInt 3)))
                  /\ fold_step (EOr (ECol 0) (ELit (VBool true))) = FRemoved.
Proof. split; reflexivity. Qed.
Example ex_single : single (mkQuery (FTab 0) None false [ECol 1; ECol 0]) /\
                    q_defined ex_db (mkQuery (FTab 0) None false [ECol 1; ECol 0]) = true.
Proof. split; [now exists 0%nat|]. vm_compute; reflexivity. Qed.
