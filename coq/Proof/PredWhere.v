(* C14: row-level correctness of the WHERE evaluator model.  Outside the recorded finding
   classes (cls_p e r = 0) and wherever the reference semantics is defined,
   CompiledPredicate::eval_expr returns true exactly when the predicate is TRUE. *)
From Coq Require Import ZArith List Bool Lia.
From TV Require Import Model.SqlSpec Model.PredImpl Model.PredClass
  Proof.SqlSpecLaws Proof.PredBase Proof.PredLike.
Import ListNotations.
Open Scope Z_scope.

(* ------------------------------------------------------------------ comparison *)
Lemma compare_values_correct : forall op x y t o1 o2,
  cmp3 op x y = Some t -> Rv x o1 -> Rv y o2 ->
  (o1 = Some INull -> o2 = Some INull -> null_eq_op op = false) ->
  compare_values o1 o2 op = tv_is_true t.
Proof.
  intros op x y t o1 o2 Hc R1 R2 Hnn.
  destruct x as [|zx|fx|sx|bx].
  - (* x NULL *)
    rewrite (cmp3_null_l' _ _ _ Hc). cbn [tv_is_true].
    destruct R1 as [-> | ->]; [|reflexivity].
    destruct y as [|zy|fy|sy|by_]; cbn [Rv] in R2.
    + destruct R2 as [-> | ->]; [|reflexivity].
      specialize (Hnn eq_refl eq_refl). destruct op; cbn in *; congruence.
    + subst o2. reflexivity.
    + subst o2. reflexivity.
    + subst o2. reflexivity.
    + subst o2. reflexivity.
  - cbn [Rv] in R1. subst o1. destruct y as [|zy|fy|sy|by_]; cbn [Rv] in R2.
    + rewrite (cmp3_null_r' _ _ _ Hc). destruct R2 as [-> | ->]; reflexivity.
    + subst o2. destruct (cmp3_nonnull _ _ _ _ Hc ltac:(discriminate) ltac:(discriminate)) as (c & Hv & ->).
      unfold compare_values. rewrite (cmp_ordering_spec _ _ _ Hv). now rewrite tv_is_true_of_bool.
    + subst o2. destruct (cmp3_nonnull _ _ _ _ Hc ltac:(discriminate) ltac:(discriminate)) as (c & Hv & ->).
      unfold compare_values. rewrite (cmp_ordering_spec _ _ _ Hv). now rewrite tv_is_true_of_bool.
    + discriminate.
    + discriminate.
  - cbn [Rv] in R1. subst o1. destruct y as [|zy|fy|sy|by_]; cbn [Rv] in R2.
    + rewrite (cmp3_null_r' _ _ _ Hc). destruct R2 as [-> | ->]; reflexivity.
    + subst o2. destruct (cmp3_nonnull _ _ _ _ Hc ltac:(discriminate) ltac:(discriminate)) as (c & Hv & ->).
      unfold compare_values. rewrite (cmp_ordering_spec _ _ _ Hv). now rewrite tv_is_true_of_bool.
    + subst o2. destruct (cmp3_nonnull _ _ _ _ Hc ltac:(discriminate) ltac:(discriminate)) as (c & Hv & ->).
      unfold compare_values. rewrite (cmp_ordering_spec _ _ _ Hv). now rewrite tv_is_true_of_bool.
    + discriminate.
    + discriminate.
  - cbn [Rv] in R1. subst o1. destruct y as [|zy|fy|sy|by_]; cbn [Rv] in R2; try discriminate.
    + rewrite (cmp3_null_r' _ _ _ Hc). destruct R2 as [-> | ->]; reflexivity.
    + subst o2. destruct (cmp3_nonnull _ _ _ _ Hc ltac:(discriminate) ltac:(discriminate)) as (c & Hv & ->).
      unfold compare_values. rewrite (cmp_ordering_spec _ _ _ Hv). now rewrite tv_is_true_of_bool.
  - cbn [Rv] in R1. subst o1. destruct y as [|zy|fy|sy|by_]; cbn [Rv] in R2; try discriminate.
    + rewrite (cmp3_null_r' _ _ _ Hc). destruct R2 as [-> | ->]; reflexivity.
    + subst o2. destruct (cmp3_nonnull _ _ _ _ Hc ltac:(discriminate) ltac:(discriminate)) as (c & Hv & ->).
      unfold compare_values. rewrite (cmp_ordering_spec _ _ _ Hv). now rewrite tv_is_true_of_bool.
Qed.

(* ------------------------------------------------------------------ IN lists *)
Definition any_spec (x : value) (r : row) : list expr -> option tv :=
  fix any (l : list expr) : option tv :=
    match l with
    | [] => Some FF
    | i :: l' =>
        match eval i r with
        | Some y => opt_tv_or (cmp3 CEq x y) (any l')
        | None => None
        end
    end.
Definition found_impl (x : ivalue) (r : row) : list expr -> res bool :=
  fix found (l : list expr) : res bool :=
    match l with
    | [] => Ok false
    | i :: l' =>
        bindr (eval_value i r) (fun o =>
          match o with
          | Some y => if values_equal x y then Ok true else found l'
          | None => found l'
          end)
    end.

Lemma eval_in_unfold : forall neg a l r,
  eval (EIn neg a l) r =
  match eval a r with
  | Some x => ret_tv (opt_tv_neg neg (any_spec x r l))
  | None => None
  end.
Proof. reflexivity. Qed.
Lemma eval_value_in_unfold : forall neg a l r,
  eval_value (EIn neg a l) r =
  bindo (eval_value a r) (fun x => bindr (found_impl x r l) (fun f => Ok (Some (ib (xorb neg f))))).
Proof. reflexivity. Qed.

Lemma values_equal_nonnull_null : forall v, v <> VNull -> values_equal (inj v) INull = false.
Proof. intros [] H; cbn; try reflexivity. congruence. Qed.
Lemma values_equal_null_l : forall y, values_equal INull y = true -> y = INull.
Proof. intros [] H; cbn in H; congruence. Qed.

Lemma eq_differs_false : forall x y c, cmp_values x y = Some (Some c) ->
  eq_differs (Some x) (Some y) = false ->
  values_equal (inj x) (inj y) = cmp_holds CEq c.
Proof.
  intros x y c Hv Hd. unfold eq_differs in Hd. rewrite Hv in Hd.
  destruct (values_equal (inj x) (inj y)), c; cbn in *; congruence.
Qed.

(* probe not NULL *)
Lemma in_nonnull_probe : forall x r l tany,
  x <> VNull -> cls_vl l r = 0 ->
  existsb (fun i => eq_differs (Some x) (eval i r)) l = false ->
  any_spec x r l = Some tany ->
  exists f, found_impl (inj x) r l = Ok f /\ tv_is_true tany = f /\
            (existsb (fun i => is_vnull (eval i r)) l = false -> tany = tv_of_bool f).
Proof.
  intros x r l. induction l as [|i l IH]; intros tany Hx Hcl Hd Ha.
  - cbn in *. injection Ha as <-. exists false. auto.
  - cbn [cls_vl] in Hcl. split_nz. cbn [existsb] in Hd. apply orb_false_elim in Hd as [Hd1 Hd2].
    cbn [any_spec] in Ha. fold (any_spec x r) in Ha.
    destruct (eval i r) as [y|] eqn:Ei; [|discriminate].
    destruct (cmp3 CEq x y) as [t1|] eqn:Ec; [|discriminate].
    destruct (any_spec x r l) as [t2|] eqn:Ea; [|discriminate].
    cbn [opt_tv_or] in Ha. injection Ha as <-.
    destruct (IH t2 Hx H0 Hd2 eq_refl) as (f & Hf & Hf1 & Hf2).
    destruct (scalar_rel i r y H Ei) as (oi & Vi & Ri).
    cbn [found_impl]. fold (found_impl (inj x) r). rewrite Vi. cbn [bindr].
    destruct y as [|zy|fy|sy|by_] eqn:Ey.
    + (* NULL item *)
      rewrite (cmp3_null_r' _ _ _ Ec).
      assert (Hfo : match oi with
                    | Some y0 => if values_equal (inj x) y0 then Ok true else found_impl (inj x) r l
                    | None => found_impl (inj x) r l end = found_impl (inj x) r l).
      { destruct Ri as [-> | ->]; [|reflexivity]. now rewrite values_equal_nonnull_null. }
      rewrite Hfo, Hf. exists f. split; [reflexivity|]. split.
      * rewrite <- Hf1. now destruct t2.
      * intros Hn. cbn [existsb] in Hn. rewrite Ei in Hn. discriminate.
    + cbn [Rv] in Ri. subst oi.
      destruct (cmp3_nonnull _ _ _ _ Ec Hx ltac:(discriminate)) as (c & Hv & ->).
      rewrite (eq_differs_false _ _ _ Hv Hd1). destruct (cmp_holds CEq c).
      * exists true. cbn. split; [reflexivity|]. split; [reflexivity|]. intros _. reflexivity.
      * rewrite Hf. exists f. split; [reflexivity|]. cbn [tv_of_bool]. rewrite tv_or_FF_l.
        split; [exact Hf1|]. cbn [existsb]. rewrite Ei. cbn [is_vnull orb]. exact Hf2.
    + cbn [Rv] in Ri. subst oi.
      destruct (cmp3_nonnull _ _ _ _ Ec Hx ltac:(discriminate)) as (c & Hv & ->).
      rewrite (eq_differs_false _ _ _ Hv Hd1). destruct (cmp_holds CEq c).
      * exists true. cbn. split; [reflexivity|]. split; [reflexivity|]. intros _. reflexivity.
      * rewrite Hf. exists f. split; [reflexivity|]. cbn [tv_of_bool]. rewrite tv_or_FF_l.
        split; [exact Hf1|]. cbn [existsb]. rewrite Ei. cbn [is_vnull orb]. exact Hf2.
    + cbn [Rv] in Ri. subst oi.
      destruct (cmp3_nonnull _ _ _ _ Ec Hx ltac:(discriminate)) as (c & Hv & ->).
      rewrite (eq_differs_false _ _ _ Hv Hd1). destruct (cmp_holds CEq c).
      * exists true. cbn. split; [reflexivity|]. split; [reflexivity|]. intros _. reflexivity.
      * rewrite Hf. exists f. split; [reflexivity|]. cbn [tv_of_bool]. rewrite tv_or_FF_l.
        split; [exact Hf1|]. cbn [existsb]. rewrite Ei. cbn [is_vnull orb]. exact Hf2.
    + cbn [Rv] in Ri. subst oi.
      destruct (cmp3_nonnull _ _ _ _ Ec Hx ltac:(discriminate)) as (c & Hv & ->).
      rewrite (eq_differs_false _ _ _ Hv Hd1). destruct (cmp_holds CEq c).
      * exists true. cbn. split; [reflexivity|]. split; [reflexivity|]. intros _. reflexivity.
      * rewrite Hf. exists f. split; [reflexivity|]. cbn [tv_of_bool]. rewrite tv_or_FF_l.
        split; [exact Hf1|]. cbn [existsb]. rewrite Ei. cbn [is_vnull orb]. exact Hf2.
Qed.

(* probe NULL: the reference is never TRUE; the implementation finds nothing unless a list item
   is Some(Value::Null) *)
Lemma in_null_probe_spec : forall r l tany, any_spec VNull r l = Some tany -> tv_is_true tany = false.
Proof.
  intros r. induction l as [|i l IH]; intros tany Ha.
  - cbn in Ha. now injection Ha as <-.
  - cbn [any_spec] in Ha. fold (any_spec VNull r) in Ha.
    destruct (eval i r) as [y|]; [|discriminate]. rewrite cmp3_null_l in Ha.
    destruct (any_spec VNull r l) as [t2|]; [|discriminate]. cbn in Ha. injection Ha as <-.
    specialize (IH t2 eq_refl). now destruct t2.
Qed.
Lemma in_null_probe_impl : forall r l tany,
  cls_vl l r = 0 -> existsb (fun i => dnull i r) l = false ->
  any_spec VNull r l = Some tany ->
  found_impl INull r l = Ok false.
Proof.
  intros r. induction l as [|i l IH]; intros tany Hcl Hd Ha; [reflexivity|].
  cbn [cls_vl] in Hcl. split_nz. cbn [existsb] in Hd. apply orb_false_elim in Hd as [Hd1 Hd2].
  cbn [any_spec] in Ha. fold (any_spec VNull r) in Ha.
  destruct (eval i r) as [y|] eqn:Ei; [|discriminate].
  destruct (any_spec VNull r l) as [t2|] eqn:Ea; [|destruct (cmp3 CEq VNull y); discriminate].
  destruct (scalar_rel i r y H Ei) as (oi & Vi & Ri).
  cbn [found_impl]. fold (found_impl INull r). rewrite Vi. cbn [bindr].
  rewrite (IH t2 H0 Hd2 eq_refl).
  destruct oi as [yi|]; [|reflexivity].
  destruct (values_equal INull yi) eqn:E; [|reflexivity].
  apply values_equal_null_l in E. subst yi.
  rewrite (scalar_some_null i r H Vi) in Hd1. discriminate.
Qed.

(* ------------------------------------------------------------------ BETWEEN *)
Definition lo_flag (o : option comparison) : bool := match o with Some Lt | None => false | Some _ => true end.
Definition hi_flag (o : option comparison) : bool := match o with Some Gt | None => false | Some _ => true end.

Lemma eval_value_between_unfold : forall neg a lo hi r,
  eval_value (EBetween neg a lo hi) r =
  bindo (eval_value a r) (fun x => bindo (eval_value lo r) (fun l => bindo (eval_value hi r) (fun h =>
    Ok (Some (ib (xorb neg (lo_flag (value_cmp x l) && hi_flag (value_cmp x h)))))))).
Proof. reflexivity. Qed.

Lemma between_side : forall op x y t xi yi,
  (op = CGe \/ op = CLe) -> cmp3 op x y = Some t -> Rv x (Some xi) -> Rv y (Some yi) ->
  (if match op with CGe => true | _ => false end then lo_flag (value_cmp xi yi) else hi_flag (value_cmp xi yi))
  = tv_is_true t /\ (x <> VNull -> y <> VNull -> t = tv_of_bool (tv_is_true t)).
Proof.
  intros op x y t xi yi Hop Hc R1 R2.
  destruct (value_eqb x VNull) eqn:Ex.
  - destruct x; try discriminate. rewrite (cmp3_null_l' _ _ _ Hc). cbn [Rv] in R1.
    destruct R1 as [R1|R1]; [|discriminate]. injection R1 as ->. rewrite value_cmp_null_l.
    split; [destruct Hop as [-> | ->]; reflexivity|]. intros H; congruence.
  - assert (Hx : x <> VNull) by (intros ->; discriminate).
    destruct (value_eqb y VNull) eqn:Ey.
    + destruct y; try discriminate. rewrite (cmp3_null_r' _ _ _ Hc). cbn [Rv] in R2.
      destruct R2 as [R2|R2]; [|discriminate]. injection R2 as ->. rewrite value_cmp_null_r.
      split; [destruct Hop as [-> | ->]; reflexivity|]. intros _ H; congruence.
    + assert (Hy : y <> VNull) by (intros ->; discriminate).
      destruct (cmp3_nonnull _ _ _ _ Hc Hx Hy) as (c & Hv & ->).
      apply (Rv_nonnull _ _ Hx) in R1. apply (Rv_nonnull _ _ Hy) in R2.
      injection R1 as ->. injection R2 as ->. rewrite (value_cmp_spec _ _ _ Hv).
      rewrite tv_is_true_of_bool. split; [|reflexivity].
      destruct Hop as [-> | ->]; destruct c; reflexivity.
Qed.

(* ------------------------------------------------------------------ the theorem *)
Lemma Rv_none_null : forall v, Rv v None -> v = VNull.
Proof. intros [] H; cbn in H; try discriminate. reflexivity. Qed.
Lemma Rv_inull : forall v, Rv v (Some INull) -> v = VNull.
Proof. intros [] H; cbn in H; try discriminate; reflexivity. Qed.

Theorem where_row_correct : forall e r t,
  cls_p e r = 0 -> sem3 e r = Some t -> eval_expr e r = Ok (tv_is_true t).
Proof.
  induction e as [i|lv|op a IHa b IHb|op a IHa b IHb|a IHa b IHb|a IHa b IHb|a IHa|neg a IHa l|neg a IHa lo IHlo hi IHhi|neg a IHa p IHp|neg a IHa];
    intros r t Hc Hs; cbn [cls_p] in Hc; try discriminate.
  - (* literal: only TRUE / FALSE *)
    destruct lv as [| | | |bv]; try discriminate. unfold sem3 in Hs. cbn in Hs.
    destruct bv; injection Hs as <-; reflexivity.
  - (* comparison *)
    split_nz. unfold sem3 in Hs. cbn [eval] in Hs.
    destruct (eval a r) as [x|] eqn:Ea; [|discriminate].
    destruct (eval b r) as [y|] eqn:Eb; [|discriminate].
    rewrite bind_ret_tv in Hs.
    destruct (scalar_rel a r x H Ea) as (o1 & V1 & R1).
    destruct (scalar_rel b r y H0 Eb) as (o2 & V2 & R2).
    cbn [eval_expr]. rewrite V1, V2. cbn [bindr]. f_equal.
    apply (compare_values_correct op x y t o1 o2 Hs R1 R2).
    intros -> ->. rewrite (scalar_some_null a r H V1), (scalar_some_null b r H0 V2) in H1.
    cbn [andb] in H1. destruct (null_eq_op op); [discriminate|reflexivity].
  - (* AND *)
    split_nz. rewrite sem3_and in Hs.
    destruct (sem3 a r) as [ta|] eqn:Ea; [|discriminate].
    destruct (sem3 b r) as [tb|] eqn:Eb; [|discriminate].
    cbn in Hs. injection Hs as <-.
    cbn [eval_expr]. rewrite (IHa r ta H Ea), (IHb r tb H0 Eb). cbn [bindr].
    destruct ta, tb; reflexivity.
  - (* OR *)
    split_nz. rewrite sem3_or in Hs.
    destruct (sem3 a r) as [ta|] eqn:Ea; [|discriminate].
    destruct (sem3 b r) as [tb|] eqn:Eb; [|discriminate].
    cbn in Hs. injection Hs as <-.
    cbn [eval_expr]. rewrite (IHa r ta H Ea), (IHb r tb H0 Eb). cbn [bindr].
    destruct ta, tb; reflexivity.
  - (* IN *)
    split_nz. unfold sem3 in Hs. rewrite eval_in_unfold in Hs.
    destruct (eval a r) as [x|] eqn:Ea; [|discriminate].
    rewrite bind_ret_tv in Hs.
    destruct (any_spec x r l) as [tany|] eqn:Eany; [|discriminate].
    cbn [opt_tv_neg] in Hs. injection Hs as <-.
    destruct (scalar_rel a r x H Ea) as (o1 & V1 & R1).
    cbn [eval_expr]. rewrite eval_value_in_unfold, V1.
    unfold in_class in H1. split_nz.
    destruct (value_eqb x VNull) eqn:Ex.
    + (* NULL probe *)
      destruct x; try discriminate.
      pose proof (in_null_probe_spec r l tany Eany) as Hsp.
      destruct neg.
      * rewrite Ea in H1. cbn in H1. discriminate.
      * assert (Ht : tv_is_true tany = false) by exact Hsp. rewrite Ht.
        destruct R1 as [-> | ->]; [|reflexivity].
        cbn [bindo]. rewrite (scalar_some_null a r H V1) in H1. cbn [andb] in H1.
        destruct (existsb (fun i => dnull i r) l) eqn:Ed; [discriminate|].
        rewrite (in_null_probe_impl r l tany H0 Ed Eany). reflexivity.
    + assert (Hx : x <> VNull) by (intros ->; discriminate).
      apply (Rv_nonnull _ _ Hx) in R1. subst o1. cbn [bindo].
      rewrite Ea in H2.
      destruct (existsb (fun i => eq_differs (Some x) (eval i r)) l) eqn:Ed; [discriminate|].
      destruct (in_nonnull_probe x r l tany Hx H0 Ed Eany) as (f & Hf & Hf1 & Hf2).
      rewrite Hf. cbn [bindr]. rewrite truthy_ib. f_equal.
      destruct neg; cbn [xorb].
      * rewrite Ea in H1. assert (Hxn : is_vnull (Some x) = false) by (destruct x; congruence || reflexivity).
        rewrite Hxn in H1. cbn [orb] in H1.
        destruct (existsb (fun i => is_vnull (eval i r)) l) eqn:En; [discriminate|].
        rewrite (Hf2 eq_refl). now destruct f.
      * rewrite Hf1. now destruct f.
  - (* BETWEEN *)
    split_nz. unfold sem3 in Hs. cbn [eval] in Hs.
    destruct (eval a r) as [x|] eqn:Ea; [|discriminate].
    destruct (eval lo r) as [vl|] eqn:El; [|discriminate].
    destruct (eval hi r) as [vh|] eqn:Eh; [|discriminate].
    rewrite bind_ret_tv in Hs.
    destruct (cmp3 CGe x vl) as [t1|] eqn:E1; [|discriminate].
    destruct (cmp3 CLe x vh) as [t2|] eqn:E2; [|discriminate].
    cbn [opt_tv_and opt_tv_neg] in Hs. injection Hs as <-.
    destruct (scalar_rel a r x H Ea) as (o1 & V1 & R1).
    destruct (scalar_rel lo r vl H0 El) as (o2 & V2 & R2).
    destruct (scalar_rel hi r vh H1 Eh) as (o3 & V3 & R3).
    cbn [eval_expr]. rewrite eval_value_between_unfold, V1, V2, V3.
    unfold between_class in H2. rewrite Ea, El, Eh in H2.
    (* a None operand is a NULL value *)
    destruct o1 as [xi|].
    2:{ cbn [bindo bindr truthy]. f_equal. apply Rv_none_null in R1. subst x.
        rewrite (cmp3_null_l' _ _ _ E1). destruct neg; [cbn in H2; discriminate|]. now destruct t2. }
    destruct o2 as [li|].
    2:{ cbn [bindo bindr truthy]. f_equal. apply Rv_none_null in R2. subst vl.
        rewrite (cmp3_null_r' _ _ _ E1).
        destruct neg; [cbn in H2; rewrite orb_true_r in H2; discriminate|]. now destruct t2. }
    destruct o3 as [hi_|].
    2:{ cbn [bindo bindr truthy]. f_equal. apply Rv_none_null in R3. subst vh.
        rewrite (cmp3_null_r' _ _ _ E2).
        destruct neg; [cbn in H2; rewrite !orb_true_r in H2; discriminate|]. now destruct t1. }
    cbn [bindo bindr]. rewrite truthy_ib. f_equal.
    destruct (between_side CGe x vl t1 xi li (or_introl eq_refl) E1 R1 R2) as (F1 & D1).
    destruct (between_side CLe x vh t2 xi hi_ (or_intror eq_refl) E2 R1 R3) as (F2 & D2).
    cbn iota in F1, F2. rewrite F1, F2.
    destruct neg; cbn [xorb].
    + assert (Hx : x <> VNull) by (intros ->; cbn in H2; discriminate).
      assert (Hl : vl <> VNull) by (intros ->; cbn in H2; rewrite orb_true_r in H2; discriminate).
      assert (Hh : vh <> VNull) by (intros ->; cbn in H2; rewrite !orb_true_r in H2; discriminate).
      rewrite (D1 Hx Hl), (D2 Hx Hh). destruct (tv_is_true t1), (tv_is_true t2); reflexivity.
    + now destruct t1, t2.
  - (* LIKE *)
    split_nz. unfold sem3 in Hs. cbn [eval] in Hs.
    destruct (eval a r) as [x|] eqn:Ea; [|discriminate].
    destruct (eval p r) as [q|] eqn:Ep; [|discriminate].
    rewrite bind_ret_tv in Hs.
    destruct (scalar_rel a r x H Ea) as (o1 & V1 & R1).
    destruct (scalar_rel p r q H0 Ep) as (o2 & V2 & R2).
    cbn [eval_expr eval_value]. rewrite V1, V2.
    unfold like_class in H1. rewrite Ea, Ep in H1. split_nz.
    destruct x as [|zx|fx|sx|bx]; cbn [like3] in Hs; try discriminate.
    + (* text NULL *)
      assert (Ht : t = UU) by (destruct q; congruence). subst t. cbn [tv_is_true].
      destruct neg; [cbn in H1; discriminate|].
      destruct R1 as [-> | ->]; [|reflexivity]. cbn [bindo].
      destruct o2 as [qi|]; [|reflexivity]. cbn [bindo bindr]. reflexivity.
    + cbn [Rv] in R1. subst o1. cbn [bindo inj].
      destruct q as [|zq|fq|sq|bq]; try discriminate.
      * (* pattern NULL *)
        injection Hs as <-. cbn [tv_is_true].
        destruct neg; [cbn in H1; discriminate|].
        destruct R2 as [-> | ->]; reflexivity.
      * cbn [Rv] in R2. subst o2. cbn [bindo inj].
        destruct (is_ascii sx && is_ascii sq); [|discriminate]. injection Hs as <-.
        destruct (has_pct sx && has_pct sq) eqn:Epc; [discriminate|].
        rewrite (like_impl_correct sx sq Epc). cbn [bindr]. rewrite truthy_ib, tv_is_true_of_bool. reflexivity.
  - (* IS NULL *)
    unfold sem3 in Hs. cbn [eval] in Hs.
    destruct (eval a r) as [x|] eqn:Ea; [|discriminate].
    destruct (scalar_rel a r x Hc Ea) as (o1 & V1 & R1).
    cbn [eval_expr eval_value]. rewrite V1. cbn [bindr]. rewrite truthy_ib. f_equal.
    destruct x as [|zx|fx|sx|bx]; cbn [Rv] in R1.
    + destruct R1 as [-> | ->]; destruct neg; cbn in Hs; injection Hs as <-; reflexivity.
    + subst o1. destruct neg; cbn in Hs; injection Hs as <-; reflexivity.
    + subst o1. destruct neg; cbn in Hs; injection Hs as <-; reflexivity.
    + subst o1. destruct neg; cbn in Hs; injection Hs as <-; reflexivity.
    + subst o1. destruct neg, bx; cbn in Hs; injection Hs as <-; reflexivity.
Qed.
