(* C15 correspondence: judge what harness/src/bin/c15.rs observed on the real Database against
   (a) the implementation model Model/SortImpl.v (model_agrees: the exact rows, in order) and
   (b) the reference semantics Model/SortSpec.v + Model/SortQuery.v, i.e. the property itself
       (spec_ok: the rows are a window of SOME arrangement sorted by the keys; ties in any order).
   Evaluated by vm_compute; definitions only. *)
From Coq Require Import ZArith List Bool.
From TV Require Import Model.KnnOrder.
From TV Require Export Model.SqlSpec Model.SortSpec Model.SortQuery Model.SortImpl Model.SortGroup.
Import ListNotations.
Open Scope Z_scope.

(* what came back: the rows in order, either written out or (QIdx) as 0-based positions of table
   rows whose projection on the query's output columns they are (the harness uses QIdx only
   after checking that it reproduces the rows bit for bit) *)
Inductive qout := QRows (rows : list row) | QIdx (idx : list Z) | QErr | QPanic.

(* one query of the fragment of Model/SortQuery.v on a fresh table t(id, c1, .., c<ncols-1>)
   whose rows were inserted in the order given (and read back bit for bit);
   Same = on the table of the nearest preceding Single of the same file *)
Inductive case :=
| Single (ncols : nat) (t : table) (q : query) (o : qout)
| Same (q : query) (o : qout)
(* SELECT g.., COUNT( * ) AS n FROM t [WHERE id > w] GROUP BY g.. ORDER BY .. [LIMIT l] [OFFSET o]
   (Model/SortGroup.v); GSame = on the table in force *)
| Group (ncols : nat) (t : table) (gq : gquery) (o : qout)
| GSame (gq : gquery) (o : qout).

Inductive obs := ORows (rows : list row) | OErr | OPanic.
Definition obs_of (ncols : nat) (t : table) (q : query) (o : qout) : obs :=
  match o with
  | QRows rows => ORows rows
  | QIdx idx => ORows (map (fun i => proj (out_cols ncols (q_sel q)) (nth (Z.to_nat i) t [])) idx)
  | QErr => OErr
  | QPanic => OPanic
  end.

Fixpoint rows_eqb (a b : list row) : bool :=
  match a, b with
  | [], [] => true
  | x :: a', y :: b' => row_eqb x y && rows_eqb a' b'
  | _, _ => false
  end.

(* does the model reproduce the implementation on this case (same rows, same order)? *)
Definition model_agrees1 (ncols : nat) (t : table) (q : query) (o : obs) : bool :=
  match model_query ncols q t, o with
  | MRows rows, ORows rows' => rows_eqb rows rows'
  | MPanic, OPanic => true
  | _, _ => false
  end.

(* does the implementation's answer satisfy the property itself?  The property speaks where the
   reference meaning of the query is defined (valid keys, key expressions defined on every row,
   homogeneous key columns; for DISTINCT: the output row determines the keys). *)
Definition spec_ok1 (ncols : nat) (t : table) (q : query) (o : obs) : bool :=
  match spec_elts ncols q t with
  | None => true
  | Some B =>
      if result_defined (q_dirs q) (q_distinct q) B && nonneg (q_limit q) && nonneg (q_offset q) then
        match o with
        | ORows rows => result_chk (q_dirs q) (q_distinct q) B (q_off q) (q_lim q) rows
        | _ => false
        end
      else true
  end.

(* ORDER BY over GROUP BY *)
Definition gobs_of (o : qout) : obs :=
  match o with QRows rows => ORows rows | QPanic => OPanic | _ => OErr end.
Definition model_agrees_g (ncols : nat) (t : table) (gq : gquery) (o : obs) : bool :=
  match model_group ncols gq t, o with
  | MRows rows, ORows rows' => rows_eqb rows rows'
  | _, _ => false
  end.
Definition spec_ok_g (ncols : nat) (t : table) (gq : gquery) (o : obs) : bool :=
  let B := g_elts gq t in
  if g_well_formed ncols gq && result_defined (g_dirs gq) false B then
    match o with
    | ORows rows => result_chk (g_dirs gq) false B (g_off gq) (g_lim gq) rows
    | _ => false
    end
  else true.

(* the table a case refers to, given the one in force before it *)
Definition case_ctx (ctx : nat * table) (c : case) : nat * table :=
  match c with Single ncols t _ _ | Group ncols t _ _ => (ncols, t) | Same _ _ | GSame _ _ => ctx end.

(* (model_agrees, spec_ok, known_class) of a case in a context *)
Definition judge (ctx : nat * table) (c : case) : bool * bool * Z :=
  let (ncols, t) := case_ctx ctx c in
  match c with
  | Single _ _ q o | Same q o =>
      let ob := obs_of ncols t q o in
      (model_agrees1 ncols t q ob, spec_ok1 ncols t q ob, known_class_q ncols q)
  | Group _ _ gq o | GSame gq o =>
      let ob := gobs_of o in
      (model_agrees_g ncols t gq ob, spec_ok_g ncols t gq ob, 0)
  end.

Definition model_agrees_in (ctx : nat * table) (c : case) : bool := fst (fst (judge ctx c)).
Definition spec_ok_in (ctx : nat * table) (c : case) : bool := snd (fst (judge ctx c)).
(* the recorded finding class of the case (Model/SortImpl.v known_class_q); 0 = none *)
Definition known_class_in (ctx : nat * table) (c : case) : Z := snd (judge ctx c).

(* a case standing alone (Same without a table: an empty table of no columns) *)
Definition model_agrees (c : case) : bool := model_agrees_in (O, []) c.
Definition spec_ok (c : case) : bool := spec_ok_in (O, []) c.
Definition known_class (c : case) : Z := known_class_in (O, []) c.

Fixpoint failures_from (i : Z) (ctx : nat * table) (cs : list case) : list (Z * bool * bool * Z) :=
  match cs with
  | [] => []
  | c :: rest =>
      let '(m, s, k) := judge ctx c in
      let ctx' := case_ctx ctx c in
      if m && s then failures_from (i + 1) ctx' rest
      else (i, m, s, k) :: failures_from (i + 1) ctx' rest
  end.
Definition failures := failures_from 0 (O, []).
