//! C09 declared constraints hold exactly: histories of INSERT / UPDATE / DELETE on a parent table
//! p and a child table c (BIGINT columns with PRIMARY KEY / UNIQUE / NOT NULL / CHECK / REFERENCES
//! p(col) [ON DELETE CASCADE | RESTRICT]) against the real `turdb::Database`.
//!   c09 gen    --seed S --tier T --out DIR [--lines FILE]
//!   c09 search --seed S --budget N --out FILE     (oracle only: Rust port of Model/ConstrSpec.v)
//!   c09 sql FILE                                   (debug: run statements, print results)
//!   c09 show --lines FILE                          (debug: print the SQL of replay lines)
//! One case = one history on a NEW database: after every statement Ok / Err is recorded together
//! with SELECT * of both tables, and printed as the Coq term `Hist schema [(stmt, HObs ..); ..]`
//! of coq/Corr/C09.v.  The judge of a correspondence run is Coq.
#![allow(dead_code)]
#[path = "sqlgen/mod.rs"]
mod sqlgen;
use sqlgen::{sem3, ArithOp, CmpOp, Expr, Tv, Val};
use std::path::PathBuf;
use turdb::{Database, OwnedValue};
use tvh::*;

// ------------------------------------------------------------------ schema / statements
#[derive(Clone, Debug, PartialEq)]
struct Fk { col: usize, act: u8 }                       // act: 0 none, 1 RESTRICT, 2 CASCADE
#[derive(Clone, Debug, PartialEq)]
struct Col { key: u8, nn: bool, chk: Option<Expr>, fk: Option<Fk> }   // key: 0 none, 1 PK, 2 UNIQUE
#[derive(Clone, Debug, PartialEq)]
struct Schema { p: Vec<Col>, c: Vec<Col> }
#[derive(Clone, Copy, Debug, PartialEq)]
enum Tid { P, C }
#[derive(Clone, Debug, PartialEq)]
enum Stmt {
    Ins(Tid, Vec<Vec<Val>>),
    Upd(Tid, Vec<(usize, Val)>, Option<Expr>),
    Del(Tid, Option<Expr>),
    /// UPDATE t SET x<col> = <arithmetic expression over the old row> [WHERE ..]
    UpdE(Tid, usize, Expr, Option<Expr>),
}
#[derive(Clone, Debug, PartialEq)]
enum Obs { Seen(bool, Vec<Vec<Val>>, Vec<Vec<Val>>), Bad }

fn cb(b: bool) -> &'static str { if b { "true" } else { "false" } }
fn cname(i: usize) -> String { format!("x{}", i) }
impl Tid {
    fn name(&self) -> &'static str { match self { Tid::P => "p", Tid::C => "c" } }
    fn coq(&self) -> &'static str { match self { Tid::P => "TP", Tid::C => "TC" } }
    fn from(c: char) -> Option<Tid> { match c { 'p' => Some(Tid::P), 'c' => Some(Tid::C), _ => None } }
}

/// SQL text of an expression over the columns x0.. : every binary node in parentheses, NOT as
/// `NOT (..)`, negative integers as `(-n)`.  The parser drops the parentheses: the AST is the tree.
fn expr_sql(e: &Expr) -> String {
    match e {
        Expr::Col(i) => cname(*i),
        Expr::Lit(Val::Int(i)) => if *i < 0 { format!("(-{})", (*i as i128).abs()) } else { format!("{}", i) },
        Expr::Lit(v) => v.to_sql(),
        Expr::Arith(op, a, b) => format!("({} {} {})", expr_sql(a), op.sql(), expr_sql(b)),
        Expr::Cmp(op, a, b) => format!("({} {} {})", expr_sql(a), op.sql(), expr_sql(b)),
        Expr::And(a, b) => format!("({} AND {})", expr_sql(a), expr_sql(b)),
        Expr::Or(a, b) => format!("({} OR {})", expr_sql(a), expr_sql(b)),
        Expr::Not(a) => format!("(NOT ({}))", expr_sql(a)),
        Expr::In(neg, a, l) => format!("({} {}IN ({}))", expr_sql(a), if *neg { "NOT " } else { "" }, l.iter().map(expr_sql).collect::<Vec<_>>().join(", ")),
        Expr::Between(neg, a, l, h) => format!("({} {}BETWEEN {} AND {})", expr_sql(a), if *neg { "NOT " } else { "" }, expr_sql(l), expr_sql(h)),
        Expr::Like(neg, a, p) => format!("({} {}LIKE {})", expr_sql(a), if *neg { "NOT " } else { "" }, expr_sql(p)),
        Expr::IsNull(neg, a) => format!("({} IS {}NULL)", expr_sql(a), if *neg { "NOT " } else { "" }),
    }
}
fn val_sql(v: &Val) -> String {
    match v { Val::Int(i) if *i < 0 => format!("(-{})", (*i as i128).abs()), _ => v.to_sql() }
}

impl Col {
    fn plain() -> Col { Col { key: 0, nn: false, chk: None, fk: None } }
    fn sql(&self, i: usize) -> String {
        let mut s = format!("{} BIGINT", cname(i));
        match self.key { 1 => s.push_str(" PRIMARY KEY"), 2 => s.push_str(" UNIQUE"), _ => {} }
        if self.nn { s.push_str(" NOT NULL"); }
        if let Some(e) = &self.chk { s.push_str(&format!(" CHECK ({})", expr_sql(e))); }
        if let Some(f) = &self.fk {
            s.push_str(&format!(" REFERENCES p({})", cname(f.col)));
            match f.act { 1 => s.push_str(" ON DELETE RESTRICT"), 2 => s.push_str(" ON DELETE CASCADE"), _ => {} }
        }
        s
    }
    fn coq(&self) -> String {
        format!("(mkCol {} {} {} {})", self.key, cb(self.nn),
            match &self.chk { Some(e) => format!("(Some {})", e.to_coq()), None => "None".into() },
            match &self.fk { Some(f) => format!("(Some (mkFk {} {}))", f.col, f.act), None => "None".into() })
    }
    fn line(&self) -> String {
        format!("{}{},{},{}", match self.key { 1 => 'p', 2 => 'u', _ => 'n' }, self.nn as u8,
            match &self.fk { Some(f) => format!("{}{}", f.col, f.act), None => "-".into() },
            match &self.chk { Some(e) => e.to_line(), None => "-".into() })
    }
    fn from_line(s: &str) -> Option<Col> {
        let mut it = s.splitn(3, ',');
        let a = it.next()?; let f = it.next()?; let e = it.next()?;
        let mut ch = a.chars();
        let key = match ch.next()? { 'p' => 1, 'u' => 2, 'n' => 0, _ => return None };
        let nn = match ch.next()? { '1' => true, '0' => false, _ => return None };
        let fk = if f == "-" { None } else {
            let mut fc = f.chars();
            let col = fc.next()?.to_digit(10)? as usize; let act = fc.next()?.to_digit(10)? as u8;
            if act > 2 { return None; }
            Some(Fk { col, act })
        };
        let chk = if e.trim() == "-" { None } else { Some(Expr::from_line(e.trim())?) };
        Some(Col { key, nn, chk, fk })
    }
}
impl Schema {
    fn cols(&self, t: Tid) -> &Vec<Col> { match t { Tid::P => &self.p, Tid::C => &self.c } }
    fn create_sql(&self, t: Tid) -> String {
        format!("CREATE TABLE {} ({})", t.name(), self.cols(t).iter().enumerate().map(|(i, c)| c.sql(i)).collect::<Vec<_>>().join(", "))
    }
    fn coq(&self) -> String {
        format!("(mkSch [{}] [{}])", self.p.iter().map(|c| c.coq()).collect::<Vec<_>>().join("; "), self.c.iter().map(|c| c.coq()).collect::<Vec<_>>().join("; "))
    }
    fn line(&self) -> String {
        format!("p={} c={}", self.p.iter().map(|c| c.line()).collect::<Vec<_>>().join(";"), self.c.iter().map(|c| c.line()).collect::<Vec<_>>().join(";"))
    }
}
fn rows_coq(rows: &[Vec<Val>]) -> String {
    format!("[{}]", rows.iter().map(|r| format!("[{}]", r.iter().map(|v| v.to_coq()).collect::<Vec<_>>().join("; "))).collect::<Vec<_>>().join("; "))
}
fn wcoq(w: &Option<Expr>) -> String { match w { Some(e) => format!("(Some {})", e.to_coq()), None => "None".into() } }
fn wline(w: &Option<Expr>) -> String { match w { Some(e) => e.to_line(), None => "-".into() } }
fn wparse(s: &str) -> Option<Option<Expr>> { if s.trim() == "-" { Some(None) } else { Expr::from_line(s.trim()).map(Some) } }

impl Stmt {
    fn sql(&self) -> String {
        match self {
            Stmt::Ins(t, rows) => format!("INSERT INTO {} VALUES {}", t.name(),
                rows.iter().map(|r| format!("({})", r.iter().map(val_sql).collect::<Vec<_>>().join(", "))).collect::<Vec<_>>().join(", ")),
            Stmt::Upd(t, sets, w) => format!("UPDATE {} SET {}{}", t.name(),
                sets.iter().map(|(c, v)| format!("{} = {}", cname(*c), val_sql(v))).collect::<Vec<_>>().join(", "),
                match w { Some(e) => format!(" WHERE {}", where_sql(e)), None => String::new() }),
            Stmt::Del(t, w) => format!("DELETE FROM {}{}", t.name(), match w { Some(e) => format!(" WHERE {}", where_sql(e)), None => String::new() }),
            Stmt::UpdE(t, c, e, w) => format!("UPDATE {} SET {} = {}{}", t.name(), cname(*c), expr_sql(e),
                match w { Some(e) => format!(" WHERE {}", where_sql(e)), None => String::new() }),
        }
    }
    fn coq(&self) -> String {
        match self {
            Stmt::Ins(t, rows) => format!("SIns {} {}", t.coq(), rows_coq(rows)),
            Stmt::Upd(t, sets, w) => format!("SUpd {} [{}] {}", t.coq(), sets.iter().map(|(c, v)| format!("({}%nat, {})", c, v.to_coq())).collect::<Vec<_>>().join("; "), wcoq(w)),
            Stmt::Del(t, w) => format!("SDel {} {}", t.coq(), wcoq(w)),
            Stmt::UpdE(t, c, e, w) => format!("SUpdE {} {}%nat {} {}", t.coq(), c, e.to_coq(), wcoq(w)),
        }
    }
    fn tok(&self) -> String {
        match self {
            Stmt::Ins(t, rows) => format!("I{}:{}", t.name(), rows.iter().map(|r| r.iter().map(|v| v.to_tok()).collect::<Vec<_>>().join(",")).collect::<Vec<_>>().join("/")),
            Stmt::Upd(t, sets, w) => format!("U{}:{}:{}", t.name(), sets.iter().map(|(c, v)| format!("{}={}", c, v.to_tok())).collect::<Vec<_>>().join("&"), wline(w)),
            Stmt::Del(t, w) => format!("D{}:{}", t.name(), wline(w)),
            Stmt::UpdE(t, c, e, w) => format!("E{}:{}={}:{}", t.name(), c, e.to_line(), wline(w)),
        }
    }
    fn from_tok(s: &str) -> Option<Stmt> {
        let s = s.trim();
        let mut ch = s.chars();
        let k = ch.next()?; let t = Tid::from(ch.next()?)?;
        let rest = s.get(2..)?.strip_prefix(':')?;
        match k {
            'I' => {
                let mut rows = vec![];
                for r in rest.split('/') { rows.push(r.split(',').map(|x| Val::from_tok(x.trim())).collect::<Option<Vec<Val>>>()?); }
                Some(Stmt::Ins(t, rows))
            }
            'U' => {
                let (a, w) = rest.split_once(':')?;
                let mut sets = vec![];
                for p in a.split('&') { let (c, v) = p.split_once('=')?; sets.push((c.trim().parse().ok()?, Val::from_tok(v.trim())?)); }
                Some(Stmt::Upd(t, sets, wparse(w)?))
            }
            'D' => Some(Stmt::Del(t, wparse(rest)?)),
            'E' => {
                let (a, w) = rest.split_once(':')?;
                let (c, e) = a.split_once('=')?;
                Some(Stmt::UpdE(t, c.trim().parse().ok()?, Expr::from_line(e.trim())?, wparse(w)?))
            }
            _ => None,
        }
    }
}
/// a top-level `col = literal` is printed bare (the shape the primary-key paths recognise)
fn where_sql(e: &Expr) -> String {
    match e {
        Expr::Cmp(op, a, b) if matches!(**a, Expr::Col(_) | Expr::Lit(_)) && matches!(**b, Expr::Col(_) | Expr::Lit(_)) =>
            format!("{} {} {}", expr_sql(a), op.sql(), expr_sql(b)),
        _ => expr_sql(e),
    }
}
fn hist_line(sch: &Schema, h: &[Stmt]) -> String {
    format!("h {} | {}", sch.line(), h.iter().map(|s| s.tok()).collect::<Vec<_>>().join(" | "))
}
fn parse_hist(l: &str) -> Option<(Schema, Vec<Stmt>)> {
    let l = l.trim().strip_prefix("h ")?;
    let mut parts = l.split('|');
    let head = parts.next()?.trim();
    let head = head.strip_prefix("p=")?;
    let (ps, cs) = head.split_once(" c=")?;
    let pc = |s: &str| -> Option<Vec<Col>> { if s.trim().is_empty() { Some(vec![]) } else { s.trim().split(';').map(Col::from_line).collect() } };
    let sch = Schema { p: pc(ps)?, c: pc(cs)? };
    let mut h = vec![];
    for t in parts { if t.trim().is_empty() { continue; } h.push(Stmt::from_tok(t)?); }
    Some((sch, h))
}

// ------------------------------------------------------------------ the system under test
fn scratch_root() -> PathBuf {
    let base = if std::path::Path::new("/dev/shm").is_dir() { PathBuf::from("/dev/shm") } else { PathBuf::from("/verif/build/tmp") };
    base.join(format!("tvh-c09-{}", std::process::id()))
}
fn to_val(o: &OwnedValue) -> Option<Val> {
    match o { OwnedValue::Null => Some(Val::Null), OwnedValue::Int(i) => Some(Val::Int(*i)), _ => None }
}
fn to_rows(rs: &[turdb::Row]) -> Option<Vec<Vec<Val>>> {
    rs.iter().map(|r| r.values.iter().map(to_val).collect::<Option<Vec<Val>>>()).collect()
}
struct Sut { dir: PathBuf, seq: u64 }
impl Sut {
    fn new() -> Sut { Sut { dir: scratch_root(), seq: 0 } }
    fn cleanup(&mut self) { let _ = std::fs::remove_dir_all(&self.dir); }
    fn run(&mut self, sch: &Schema, h: &[Stmt]) -> Result<Vec<Obs>, String> {
        self.seq += 1;
        let path = self.dir.join(format!("db{}", self.seq));
        let _ = std::fs::remove_dir_all(&path);
        std::fs::create_dir_all(&self.dir).map_err(|e| format!("mkdir: {}", e))?;
        let p2 = path.clone();
        let db = match catch(std::panic::AssertUnwindSafe(move || Database::create(&p2).map_err(|e| format!("create: {:#}", e)))) {
            Caught::Done(Ok(db)) => db,
            Caught::Done(Err(e)) => return Err(e),
            Caught::Panicked(m) => return Err(format!("panic in create: {}", m)),
        };
        let mut ddl = vec![sch.create_sql(Tid::P)];
        if !sch.c.is_empty() { ddl.push(sch.create_sql(Tid::C)); }
        for q in ddl {
            match catch(std::panic::AssertUnwindSafe(|| db.execute(&q).map(|_| ()).map_err(|e| format!("{}: {:#}", q, e)))) {
                Caught::Done(Ok(())) => {}
                Caught::Done(Err(e)) => { drop(db); let _ = std::fs::remove_dir_all(&path); return Err(e); }
                Caught::Panicked(m) => { let _ = std::fs::remove_dir_all(&path); return Err(format!("panic in {}: {}", q, m)); }
            }
        }
        let mut out = vec![];
        let mut dead = false;
        for s in h {
            if dead { out.push(Obs::Bad); continue; }
            let sql = s.sql();
            let ok = match catch(std::panic::AssertUnwindSafe(|| db.execute(&sql).map(|_| ()))) {
                Caught::Done(Ok(())) => Some(true),
                Caught::Done(Err(_)) => Some(false),
                Caught::Panicked(_) => None,
            };
            let q = |sql: &str| -> Option<Vec<Vec<Val>>> {
                match catch(std::panic::AssertUnwindSafe(|| db.query(sql))) { Caught::Done(Ok(rs)) => to_rows(&rs), _ => None }
            };
            let pr = q("SELECT * FROM p");
            let cr = if sch.c.is_empty() { Some(vec![]) } else { q("SELECT * FROM c") };
            match (ok, pr, cr) {
                (Some(ok), Some(p), Some(c)) => out.push(Obs::Seen(ok, p, c)),
                (None, _, _) => { dead = true; out.push(Obs::Bad); }
                _ => out.push(Obs::Bad),
            }
        }
        if dead { std::mem::forget(db); } else { drop(db); }
        let _ = std::fs::remove_dir_all(&path);
        Ok(out)
    }
}
fn case_term(sch: &Schema, h: &[Stmt], obs: &[Obs]) -> String {
    let steps: Vec<String> = h.iter().zip(obs.iter()).map(|(s, o)| format!("({}, {})", s.coq(), match o {
        Obs::Seen(ok, p, c) => format!("HObs {} {} {}", cb(*ok), rows_coq(p), rows_coq(c)),
        Obs::Bad => "HBad".into(),
    })).collect();
    format!("Hist {} [{}]", sch.coq(), steps.join(";\n     "))
}

// ------------------------------------------------------------------ Rust port of the reference (search oracle, statistics)
type Db = (Vec<Vec<Val>>, Vec<Vec<Val>>);
fn must_nn(c: &Col) -> bool { c.nn || c.key == 1 }
fn chk_b(e: &Expr, r: &[Val]) -> Option<bool> { sem3(e, r).map(|t| t != Tv::F) }
fn row_ok(cols: &[Col], r: &[Val]) -> Option<bool> {
    let mut ok = true;
    for (i, c) in cols.iter().enumerate() {
        if must_nn(c) && r[i].is_null() { ok = false; }
        if let Some(e) = &c.chk { if !chk_b(e, r)? { ok = false; } }
    }
    Some(ok)
}
fn uniq_ok(cols: &[Col], t: &[Vec<Val>]) -> bool {
    for (i, c) in cols.iter().enumerate() {
        if c.key == 0 { continue; }
        let mut seen: Vec<&Val> = vec![];
        for r in t { if r[i].is_null() { continue; } if seen.contains(&&r[i]) { return false; } seen.push(&r[i]); }
    }
    true
}
fn fk_ok(sch: &Schema, d: &Db) -> bool {
    for r in &d.1 { for (i, c) in sch.c.iter().enumerate() { if let Some(f) = &c.fk {
        if !r[i].is_null() && !d.0.iter().any(|pr| pr[f.col] == r[i]) { return false; }
    } } }
    true
}
fn valid_db(sch: &Schema, d: &Db) -> Option<bool> {
    let mut ok = true;
    for r in &d.0 { if !row_ok(&sch.p, r)? { ok = false; } }
    for r in &d.1 { if !row_ok(&sch.c, r)? { ok = false; } }
    Some(ok && uniq_ok(&sch.p, &d.0) && uniq_ok(&sch.c, &d.1) && fk_ok(sch, d))
}
fn wsel(w: &Option<Expr>, r: &[Val]) -> Option<bool> { match w { None => Some(true), Some(e) => sem3(e, r).map(|t| t == Tv::T) } }
fn fits(n: usize, r: &[Val]) -> bool { r.len() == n && r.iter().all(|v| matches!(v, Val::Null | Val::Int(_))) }
fn fk_std(sch: &Schema, p: &[Vec<Val>]) -> bool {
    sch.c.iter().all(|c| match &c.fk {
        Some(f) => sch.p.get(f.col).map(|pc| pc.key != 0 || {
            let mut seen: Vec<&Val> = vec![];
            p.iter().all(|r| r[f.col].is_null() || { let dup = seen.contains(&&r[f.col]); seen.push(&r[f.col]); !dup })
        }).unwrap_or(false),
        None => true })
}
fn fk_wf(sch: &Schema) -> bool { sch.c.iter().all(|c| match &c.fk { Some(f) => f.col < sch.p.len(), None => true }) && sch.p.iter().all(|c| c.fk.is_none()) }
/// None = the reference does not say; Some((accepted, db after))
fn spec_step(sch: &Schema, d: &Db, s: &Stmt) -> Option<(bool, Db)> {
    if !fk_wf(sch) { return None; }
    let mut n = d.clone();
    match s {
        Stmt::Ins(t, rows) => {
            let k = sch.cols(*t).len();
            if !rows.iter().all(|r| fits(k, r)) { return None; }
            match t { Tid::P => n.0.extend(rows.iter().cloned()), Tid::C => n.1.extend(rows.iter().cloned()) }
        }
        Stmt::Upd(t, sets, w) => {
            let k = sch.cols(*t).len();
            if sets.is_empty() || sets.iter().any(|(c, v)| *c >= k || !matches!(v, Val::Null | Val::Int(_))) { return None; }
            for (i, (c, _)) in sets.iter().enumerate() { if sets[..i].iter().any(|(c2, _)| c2 == c) { return None; } }
            if *t == Tid::P && !fk_std(sch, &d.0) { return None; }
            let tab = match t { Tid::P => &mut n.0, Tid::C => &mut n.1 };
            for r in tab.iter_mut() { if wsel(w, r)? { for (c, v) in sets { r[*c] = v.clone(); } } }
        }
        Stmt::UpdE(t, c, e, w) => {
            let k = sch.cols(*t).len();
            if *c >= k { return None; }
            if *t == Tid::P && !fk_std(sch, &d.0) { return None; }
            let tab = match t { Tid::P => &mut n.0, Tid::C => &mut n.1 };
            for r in tab.iter_mut() { if wsel(w, r)? {
                let v = sqlgen::eval(e, r)?;
                if !matches!(v, Val::Null | Val::Int(_)) { return None; }
                r[*c] = v;
            } }
        }
        Stmt::Del(t, w) => {
            if *t == Tid::P && !fk_std(sch, &d.0) { return None; }
            let tab = match t { Tid::P => &d.0, Tid::C => &d.1 };
            let mut gone = vec![]; let mut keep = vec![];
            for r in tab { if wsel(w, r)? { gone.push(r.clone()); } else { keep.push(r.clone()); } }
            match t {
                Tid::C => n.1 = keep,
                Tid::P => {
                    n.0 = keep;
                    n.1.retain(|cr| !sch.c.iter().enumerate().any(|(i, c)| match &c.fk {
                        Some(f) => f.act == 2 && !cr[i].is_null() && gone.iter().any(|g| g[f.col] == cr[i]), None => false }));
                }
            }
        }
    }
    match valid_db(sch, &n)? { true => Some((true, n)), false => Some((false, d.clone())) }
}
fn bag_eq(a: &[Vec<Val>], b: &[Vec<Val>]) -> bool {
    if a.len() != b.len() { return false; }
    let mut used = vec![false; b.len()];
    'o: for r in a { for (i, x) in b.iter().enumerate() { if !used[i] && x == r { used[i] = true; continue 'o; } } return false; }
    true
}
/// the property's oracle on an observed history: index of the first step that violates it
fn oracle(sch: &Schema, h: &[Stmt], obs: &[Obs]) -> Option<usize> {
    let mut d: Db = (vec![], vec![]);
    for (i, (s, o)) in h.iter().zip(obs.iter()).enumerate() {
        match spec_step(sch, &d, s) {
            None => return None,
            Some((ok, n)) => match o {
                Obs::Seen(ok2, p, c) => { if ok != *ok2 || !bag_eq(&n.0, p) || !bag_eq(&n.1, c) { return Some(i); } d = n; }
                Obs::Bad => return Some(i),
            },
        }
    }
    None
}

// ------------------------------------------------------------------ generators
const DOM: [i64; 7] = [1, 2, 3, 4, 5, 7, 9];
fn gval(rng: &mut Rng, null_pct: u64) -> Val { if rng.chance(null_pct, 100) { Val::Null } else { Val::Int(*rng.pick(&DOM)) } }
fn atom(rng: &mut Rng, ci: usize) -> Expr {
    let op = *rng.pick(&[CmpOp::Lt, CmpOp::Le, CmpOp::Gt, CmpOp::Ge]);
    Expr::cmp(op, Expr::col(ci), Expr::int(*rng.pick(&[-2, 0, 1, 2, 3, 4, 5, 6, 8, 10])))
}
fn conj(rng: &mut Rng, ci: usize) -> Expr { let mut e = atom(rng, ci); for _ in 0..rng.below(3) { e = if rng.chance(1, 2) { Expr::and(e, atom(rng, ci)) } else { Expr::and(atom(rng, ci), e) }; } e }
/// a CHECK inside the fragment the string evaluator handles: OR of ANDs of `col op int`
fn chk_good(rng: &mut Rng, ci: usize) -> Expr { let mut e = conj(rng, ci); for _ in 0..rng.below(3) { e = if rng.chance(1, 2) { Expr::or(e, conj(rng, ci)) } else { Expr::or(conj(rng, ci), e) }; } e }
/// shapes outside the fragment (recorded finding classes 1..4)
fn chk_bad(rng: &mut Rng, ci: usize, ncols: usize) -> Expr {
    let lit = Expr::int(*rng.pick(&[1, 2, 3, 5, 7]));
    let other = (ci + 1) % ncols.max(1);
    match rng.below(12) {
        0 => Expr::cmp(CmpOp::Eq, Expr::col(ci), lit),
        1 => Expr::cmp(CmpOp::Ne, Expr::col(ci), lit),
        2 => Expr::cmp(*rng.pick(&[CmpOp::Lt, CmpOp::Ge]), lit, Expr::col(ci)),
        3 => Expr::cmp(CmpOp::Lt, Expr::col(ci), Expr::col(other)),
        4 => Expr::cmp(CmpOp::Gt, Expr::Arith(ArithOp::Add, Box::new(Expr::col(ci)), Box::new(Expr::int(1))), lit),
        5 => Expr::not(atom(rng, ci)),
        6 => Expr::not(Expr::and(atom(rng, ci), atom(rng, ci))),
        7 => Expr::and(Expr::or(atom(rng, ci), atom(rng, ci)), atom(rng, ci)),
        8 => Expr::and(atom(rng, ci), Expr::or(atom(rng, ci), atom(rng, ci))),
        9 => Expr::Between(false, Box::new(Expr::col(ci)), Box::new(Expr::int(2)), Box::new(Expr::int(5))),
        10 => Expr::In(false, Box::new(Expr::col(ci)), vec![Expr::int(1), Expr::int(3), Expr::int(5)]),
        _ => Expr::is_null(true, Expr::col(ci)),
    }
}
fn gen_where(rng: &mut Rng, cols: &[Col]) -> Option<Expr> {
    let n = cols.len();
    let pk = cols.iter().position(|c| c.key == 1);
    match rng.below(10) {
        0 => None,
        1..=3 if pk.is_some() => Some(Expr::cmp(CmpOp::Eq, Expr::col(pk.unwrap()), Expr::int(*rng.pick(&DOM)))),
        4 if pk.is_some() => Some(Expr::cmp(CmpOp::Eq, Expr::int(*rng.pick(&DOM)), Expr::col(pk.unwrap()))),
        5 => Some(Expr::is_null(rng.chance(1, 2), Expr::col(rng.below(n as u64) as usize))),
        _ => Some(Expr::cmp(*rng.pick(&CmpOp::all()), Expr::col(rng.below(n as u64) as usize), Expr::int(*rng.pick(&DOM)))),
    }
}
fn gen_table(rng: &mut Rng, ncols: usize, keys: u8, chk: u8) -> Vec<Col> {
    // keys: 0 none, 1 pk on x0, 2 pk + unique, 3 unique only; chk: 0 none, 1 good, 2 bad
    let mut cols: Vec<Col> = (0..ncols).map(|_| Col::plain()).collect();
    match keys { 1 => cols[0].key = 1, 2 => { cols[0].key = 1; if ncols > 1 { cols[1].key = 2; } }, 3 => { cols[rng.below(ncols as u64) as usize].key = 2; } _ => {} }
    for c in cols.iter_mut() { if rng.chance(1, 5) { c.nn = true; } }
    if chk > 0 {
        let ci = rng.below(ncols as u64) as usize;
        cols[ci].chk = Some(if chk == 1 { chk_good(rng, ci) } else { chk_bad(rng, ci, ncols) });
    }
    cols
}
fn gen_row(rng: &mut Rng, n: usize, null_pct: u64) -> Vec<Val> { (0..n).map(|_| gval(rng, null_pct)).collect() }

struct Fam { name: &'static str, n: usize }
fn gen_history(rng: &mut Rng, fam: &str) -> (Schema, Vec<Stmt>) {
    let mut h = vec![];
    match fam {
        // one table, a CHECK in or outside the fragment, values around the literals
        "check_good" | "check_bad" => {
            let n = 1 + rng.below(3) as usize;
            let kk = if rng.chance(1, 3) { 1 } else { 0 };
            let p = gen_table(rng, n, kk, if fam == "check_good" { 1 } else { 2 });
            let sch = Schema { p, c: vec![] };
            let ci = sch.p.iter().position(|c| c.chk.is_some()).unwrap();
            let mut pkv = 1;
            for _ in 0..(4 + rng.below(5)) {
                let mut r: Vec<Val> = (0..n).map(|_| Val::Int(*rng.pick(&[1, 2, 3]))).collect();
                r[ci] = if rng.chance(1, 8) { Val::Null } else { Val::Int(rng.range(-3, 11)) };
                if sch.p[0].key == 1 && ci != 0 { r[0] = Val::Int(pkv); pkv += 1; }
                if rng.chance(1, 5) && !h.is_empty() {
                    h.push(Stmt::Upd(Tid::P, vec![(ci, r[ci].clone())], gen_where(rng, &sch.p)));
                } else { h.push(Stmt::Ins(Tid::P, vec![r])); }
            }
            (sch, h)
        }
        // key-moving multi-row UPDATEs (SET k = k + c / k - c / c - k on a PRIMARY KEY or UNIQUE column
        // over runs of 2..4 rows, inserted in ascending / descending / mixed order), then INSERT /
        // UPDATE probes of every value that was or is held
        "shift" => {
            let n = 2 + rng.below(2) as usize;
            let layout = rng.below(4);           // 0: PK x0 (shift x0)  1: PK x0 + UNIQUE x1 (shift x1)  2: PK x0 + UNIQUE x1 (shift x0)  3: UNIQUE x1 only (shift x1)
            let mut p: Vec<Col> = (0..n).map(|_| Col::plain()).collect();
            let kc = match layout { 0 => { p[0].key = 1; 0 } 1 => { p[0].key = 1; p[1].key = 2; 1 } 2 => { p[0].key = 1; p[1].key = 2; 0 } _ => { p[1].key = 2; 1 } };
            if rng.chance(1, 6) { p[kc].chk = Some(Expr::cmp(CmpOp::Lt, Expr::col(kc), Expr::int(rng.range(6, 10)))); }
            if rng.chance(1, 6) && p[kc].key == 2 { p[kc].nn = true; }
            let sch = Schema { p, c: vec![] };
            let rows = 2 + rng.below(3) as i64;
            let start = rng.range(1, 4); let step = *rng.pick(&[1, 1, 1, 2, 3]);
            let mut vals: Vec<i64> = (0..rows).map(|i| start + i * step).collect();
            match rng.below(4) { 0 => vals.reverse(), 1 => { let l = vals.len(); vals.swap(0, l - 1); } _ => {} }
            let mut fresh = 20i64;
            let mut held: Vec<i64> = vec![];
            let mk = |rng: &mut Rng, kv: Val, fresh: &mut i64| -> Vec<Val> {
                (0..n).map(|c| if c == kc { kv.clone() } else if sch.p[c].key != 0 { *fresh += 1; Val::Int(*fresh) } else { gval(rng, 10) }).collect()
            };
            for v in &vals { h.push(Stmt::Ins(Tid::P, vec![mk(rng, Val::Int(*v), &mut fresh)])); held.push(*v); }
            if sch.p[kc].key == 2 && !sch.p[kc].nn && rng.chance(1, 4) { h.push(Stmt::Ins(Tid::P, vec![mk(rng, Val::Null, &mut fresh)])); }
            // a row outside the moved range (sometimes exactly where the shift lands)
            if rng.chance(1, 3) { let v = start + rows * step + rng.below(2) as i64 * 4; h.push(Stmt::Ins(Tid::P, vec![mk(rng, Val::Int(v), &mut fresh)])); held.push(v); }
            let lo = *vals.iter().min().unwrap(); let hi = *vals.iter().max().unwrap();
            for round in 0..(1 + rng.below(2)) {
                let c = *rng.pick(&[1, 1, 2, 3]) * if rng.chance(2, 3) { step } else { 1 };
                let kcol = || Box::new(Expr::col(kc));
                let e = match (rng.below(5) + round) % 5 {
                    0 | 1 => Expr::Arith(ArithOp::Add, kcol(), Box::new(Expr::int(c))),
                    2 | 3 => Expr::Arith(ArithOp::Sub, kcol(), Box::new(Expr::int(c))),
                    _ => Expr::Arith(ArithOp::Sub, Box::new(Expr::int(lo + hi + rng.below(2) as i64)), kcol()),
                };
                let w = match rng.below(6) {
                    0 => Some(Expr::cmp(CmpOp::Le, Expr::col(kc), Expr::int(hi))),
                    1 => Some(Expr::cmp(CmpOp::Gt, Expr::col(kc), Expr::int(lo))),
                    2 => Some(Expr::cmp(CmpOp::Lt, Expr::col(kc), Expr::int(hi))),
                    _ => None,
                };
                for v in held.clone() { for x in [v + c, v - c, lo + hi - v, lo + hi + 1 - v] { if !held.contains(&x) { held.push(x); } } }
                h.push(Stmt::UpdE(Tid::P, kc, e, w));
                // probes: every value that was or is held (both outcomes of the UPDATE), in random order
                let mut pv = held.clone();
                for i in (1..pv.len()).rev() { let j = rng.below(i as u64 + 1) as usize; pv.swap(i, j); }
                pv.truncate(3 + rng.below(4) as usize);
                for v in pv {
                    if rng.chance(3, 4) { h.push(Stmt::Ins(Tid::P, vec![mk(rng, Val::Int(v), &mut fresh)])); }
                    else {
                        // move one row onto the value with a literal UPDATE addressed by its current key value
                        let from = *rng.pick(&held);
                        h.push(Stmt::Upd(Tid::P, vec![(kc, Val::Int(v))], Some(Expr::cmp(CmpOp::Eq, Expr::col(kc), Expr::int(from)))));
                    }
                }
            }
            (sch, h)
        }
        // one table with keys: inserts, deletes, re-inserts, key updates
        "unique" => {
            let n = 2 + rng.below(2) as usize;
            let kk = 1 + rng.below(3) as u8;
            let ck = if rng.chance(1, 4) { 1 } else { 0 };
            let sch = Schema { p: gen_table(rng, n, kk, ck), c: vec![] };
            for _ in 0..(5 + rng.below(8)) { h.push(gen_stmt(rng, &sch, Tid::P)); }
            (sch, h)
        }
        // shapes aimed at the rarer recorded classes (14, 16 .. 19), with random values around them
        "aimed" => {
            let a = *rng.pick(&DOM); let b = *rng.pick(&DOM); let k = rng.range(1, 9);
            let pk = |key: u8| Col { key, nn: false, chk: None, fk: None };
            let fkc = |col: usize, act: u8| Col { key: 0, nn: false, chk: None, fk: Some(Fk { col, act }) };
            let i = |x: i64| Val::Int(x);
            match rng.below(5) {
                0 => { // ON DELETE CASCADE, then the same child key again
                    let sch = Schema { p: vec![pk(1)], c: vec![pk(if rng.chance(2, 3) { 1 } else { 2 }), fkc(0, 2)] };
                    h = vec![Stmt::Ins(Tid::P, vec![vec![i(a)]]), Stmt::Ins(Tid::C, vec![vec![i(k), i(a)]]), Stmt::Del(Tid::P, if rng.chance(1, 2) { None } else { Some(Expr::cmp(CmpOp::Eq, Expr::col(0), Expr::int(a))) }),
                             Stmt::Ins(Tid::P, vec![vec![i(a)]]), Stmt::Ins(Tid::C, vec![vec![i(if rng.chance(2, 3) { k } else { k + 1 }), i(a)]])];
                    (sch, h)
                }
                1 => { // NULL parent key against NULL child reference
                    let sch = Schema { p: vec![pk(1), pk(2)], c: vec![pk(1), fkc(1, *rng.pick(&[0, 1, 2]))] };
                    h = vec![Stmt::Ins(Tid::P, vec![vec![i(1), Val::Null]]), Stmt::Ins(Tid::P, vec![vec![i(2), i(a)]]),
                             Stmt::Ins(Tid::C, vec![vec![i(k), if rng.chance(2, 3) { Val::Null } else { i(a) }]]),
                             Stmt::Del(Tid::P, Some(Expr::cmp(CmpOp::Eq, Expr::col(0), Expr::int(rng.range(1, 2)))))];
                    (sch, h)
                }
                2 => { // foreign key to an unindexed parent column: the scan sees deleted parents
                    let sch = Schema { p: vec![pk(1), pk(0)], c: vec![pk(1), fkc(1, 0)] };
                    h = vec![Stmt::Ins(Tid::P, vec![vec![i(1), i(a)]]), Stmt::Del(Tid::P, if rng.chance(1, 2) { None } else { Some(Expr::cmp(CmpOp::Eq, Expr::col(0), Expr::int(1))) }),
                             Stmt::Ins(Tid::C, vec![vec![i(k), i(if rng.chance(3, 4) { a } else { b })]]), Stmt::Ins(Tid::P, vec![vec![i(2), i(b)]]), Stmt::Ins(Tid::C, vec![vec![i(k + 1), i(b)]])];
                    (sch, h)
                }
                3 => { // a deleted child row still blocks the parent
                    let sch = Schema { p: vec![pk(1)], c: vec![pk(1), fkc(0, *rng.pick(&[0, 1]))] };
                    h = vec![Stmt::Ins(Tid::P, vec![vec![i(a)]]), Stmt::Ins(Tid::C, vec![vec![i(k), i(a)]]),
                             Stmt::Del(Tid::C, if rng.chance(1, 2) { None } else { Some(Expr::cmp(CmpOp::Eq, Expr::col(0), Expr::int(k))) }),
                             Stmt::Del(Tid::P, None), Stmt::Ins(Tid::P, vec![vec![i(a)]])];
                    (sch, h)
                }
                _ => { // key update, then the row is addressed through its new key
                    let sch = Schema { p: vec![pk(1), pk(if rng.chance(1, 2) { 2 } else { 0 })], c: vec![] };
                    h = vec![Stmt::Ins(Tid::P, vec![vec![i(a), i(1)]]), Stmt::Ins(Tid::P, vec![vec![i(a + 10), i(2)]]),
                             Stmt::Upd(Tid::P, vec![(0, i(a + 20))], Some(Expr::cmp(CmpOp::Eq, Expr::col(0), Expr::int(a)))),
                             if rng.chance(1, 2) { Stmt::Upd(Tid::P, vec![(1, i(b))], Some(Expr::cmp(CmpOp::Eq, Expr::col(0), Expr::int(a + 20)))) }
                             else { Stmt::Upd(Tid::P, vec![(0, i(a + 20))], Some(Expr::cmp(CmpOp::Eq, Expr::col(1), Expr::int(1)))) },
                             Stmt::Del(Tid::P, Some(Expr::cmp(CmpOp::Eq, Expr::col(0), Expr::int(a + 20))))];
                    (sch, h)
                }
            }
        }
        // two tables with a foreign key
        _ => {
            let np = 2 + rng.below(2) as usize;
            let nc = 2 + rng.below(2) as usize;
            let kp: u8 = if fam == "fk_scan" { *rng.pick(&[0, 1]) } else { *rng.pick(&[1, 2, 2, 3]) };
            let p = gen_table(rng, np, kp, 0);
            let kc: u8 = *rng.pick(&[0, 0, 1, 1, 2]);
            let mut c = gen_table(rng, nc, kc, 0);
            let target = if fam == "fk_scan" { np - 1 } else { p.iter().position(|c| c.key != 0).unwrap_or(0) };
            let target = if fam != "fk_scan" && rng.chance(1, 2) { p.iter().rposition(|c| c.key != 0).unwrap_or(target) } else { target };
            let fcol = nc - 1;
            c[fcol].fk = Some(Fk { col: target, act: if fam == "fk_cascade" { 2 } else { *rng.pick(&[0, 1, 1, 2]) } });
            if c[fcol].key == 1 { c[fcol].key = 0; }
            let sch = Schema { p, c };
            for _ in 0..(2 + rng.below(3)) { h.push(Stmt::Ins(Tid::P, vec![gen_row(rng, np, 5)])); }
            for _ in 0..(6 + rng.below(8)) {
                let t = if rng.chance(1, 2) { Tid::P } else { Tid::C };
                h.push(gen_stmt(rng, &sch, t));
            }
            (sch, h)
        }
    }
}
fn gen_stmt(rng: &mut Rng, sch: &Schema, t: Tid) -> Stmt {
    let cols = sch.cols(t);
    let n = cols.len();
    let pk = cols.iter().position(|c| c.key == 1);
    // a WHERE that addresses one row through the primary key (the common application shape)
    let point = |rng: &mut Rng| -> Option<Expr> { match pk { Some(i) if rng.chance(4, 5) => Some(Expr::cmp(CmpOp::Eq, Expr::col(i), Expr::int(*rng.pick(&DOM)))), _ => gen_where(rng, cols) } };
    match rng.below(10) {
        0..=4 => {
            if rng.chance(1, 10) {
                // multi-row INSERT: mostly rows that do not collide with anything (values 10..99)
                let k = 2 + rng.below(2) as usize;
                let wide = rng.chance(3, 4);
                Stmt::Ins(t, (0..k).map(|_| if wide { (0..n).map(|c| if cols[c].fk.is_some() { gval(rng, 10) } else { Val::Int(rng.range(10, 99)) }).collect() } else { gen_row(rng, n, 10) }).collect())
            } else { Stmt::Ins(t, vec![gen_row(rng, n, 10)]) }
        }
        5..=6 => Stmt::Del(t, if rng.chance(2, 3) { point(rng) } else { gen_where(rng, cols) }),
        _ => {
            let c = rng.below(n as u64) as usize;
            let mut sets = vec![(c, gval(rng, 10))];
            if n > 1 && rng.chance(1, 5) { let c2 = (c + 1) % n; sets.push((c2, gval(rng, 10))); }
            let keyed = sets.iter().any(|(c, _)| cols[*c].key != 0);
            Stmt::Upd(t, sets, if keyed && rng.chance(5, 6) || rng.chance(1, 2) { point(rng) } else { gen_where(rng, cols) })
        }
    }
}

// ------------------------------------------------------------------ modes
fn main() {
    let a = Args::parse();
    match a.mode.as_str() {
        "gen" => gen(&a),
        "search" => search(&a),
        "sql" => sql_mode(&a),
        "show" => { for l in a.replay_lines().unwrap_or_default() { if let Some((sch, h)) = parse_hist(&l) {
            println!("{}", sch.create_sql(Tid::P)); if !sch.c.is_empty() { println!("{}", sch.create_sql(Tid::C)); }
            for s in &h { println!("{}", s.sql()); } } else { println!("unparsable: {}", l); } } }
        _ => { eprintln!("c09: unknown mode"); std::process::exit(2); }
    }
}
fn families(thorough: bool) -> Vec<Fam> {
    let m = if thorough { 12 } else { 1 };
    vec![Fam { name: "check_good", n: 120 * m }, Fam { name: "check_bad", n: 60 * m }, Fam { name: "unique", n: 160 * m },
         Fam { name: "fk", n: 160 * m }, Fam { name: "fk_cascade", n: 60 * m }, Fam { name: "fk_scan", n: 40 * m }, Fam { name: "aimed", n: 30 * m },
         Fam { name: "shift", n: 100 * m }]
}
fn nontrivial(obs: &[Obs]) -> bool {
    let acc = obs.iter().any(|o| matches!(o, Obs::Seen(true, p, c) if !p.is_empty() || !c.is_empty()));
    let rej = obs.iter().any(|o| matches!(o, Obs::Seen(false, _, _)));
    acc && rej
}
fn gen(a: &Args) {
    let mut rng = Rng::new(a.seed);
    let mut w = CaseWriter::new(&a.out, "C09", "Corr.C09", 120);
    let mut sut = Sut::new();
    let mut setup_errors = 0u64;
    let mut push = |w: &mut CaseWriter, sut: &mut Sut, sch: &Schema, h: &[Stmt], kind: &str| {
        match sut.run(sch, h) {
            Ok(obs) => {
                let refused = obs.iter().filter(|o| matches!(o, Obs::Seen(false, _, _))).count() as u64;
                w.push(case_term(sch, h, &obs), hist_line(sch, h), nontrivial(&obs), kind);
                w.count("statements", h.len() as u64);
                w.count("statements_refused", refused);
            }
            Err(e) => { setup_errors += 1; eprintln!("c09: setup failed: {}", e); }
        }
    };
    if let Some(lines) = a.replay_lines() {
        for l in lines { match parse_hist(&l) { Some((sch, h)) => push(&mut w, &mut sut, &sch, &h, "replay"), None => eprintln!("c09: unparsable line: {}", l) } }
    } else {
        for f in families(a.thorough()) {
            for _ in 0..f.n { let (sch, h) = gen_history(&mut rng, f.name); push(&mut w, &mut sut, &sch, &h, f.name); }
        }
    }
    sut.cleanup();
    w.finish(&[("setup_errors".to_string(), setup_errors.to_string())]);
}
fn search(a: &Args) {
    let mut rng = Rng::new(a.seed ^ 0xC09);
    let mut sut = Sut::new();
    let mut fails: Vec<String> = vec![];
    let mut tried = 0u64;
    let fams = families(false);
    while tried < a.budget && fails.len() < 40 {
        let f = &fams[(tried % fams.len() as u64) as usize];
        let (sch, h) = gen_history(&mut rng, f.name);
        if let Ok(obs) = sut.run(&sch, &h) {
            if let Some(i) = oracle(&sch, &h, &obs) {
                let refused = matches!(obs[i], Obs::Seen(false, _, _));
                let k = match &h[i] {
                    // 20: a key-moving UPDATE is refused although the reference accepts it
                    Stmt::UpdE(t, c, _, _) if refused && sch.cols(*t)[*c].key != 0 && sch.c.is_empty() => 20,
                    _ => tag(&sch, &h[..=i]),
                };
                fails.push(format!("{} #k={}", hist_line(&sch, &h[..=i]), k));
            }
        }
        tried += 1;
    }
    sut.cleanup();
    let mut out = format!("tried={}\n", tried);
    for f in &fails { out.push_str("FAIL "); out.push_str(f); out.push('\n'); }
    std::fs::write(&a.out, out).expect("write search output");
}
/// syntactic attribution of a failing history for the search mode (the recorded classes are decided
/// in Coq on the model state; this only names the most likely one from the shape of the history)
fn tag(sch: &Schema, h: &[Stmt]) -> u32 {
    fn leaves_ok(e: &Expr, ci: usize) -> bool {
        match e { Expr::And(a, b) | Expr::Or(a, b) => leaves_ok(a, ci) && leaves_ok(b, ci), Expr::Not(a) => leaves_ok(a, ci),
                  Expr::Cmp(op, a, b) => matches!(op, CmpOp::Lt | CmpOp::Le | CmpOp::Gt | CmpOp::Ge) && **a == Expr::Col(ci) && matches!(**b, Expr::Lit(Val::Int(_))), _ => false }
    }
    fn printable(e: &Expr) -> bool { let mut ok = true; e.walk(&mut |x| if matches!(x, Expr::In(..) | Expr::Between(..) | Expr::Like(..) | Expr::IsNull(..) | Expr::Lit(Val::Null)) { ok = false; }); ok }
    fn has_not(e: &Expr) -> bool { let mut f = false; e.walk(&mut |x| if matches!(x, Expr::Not(_)) { f = true; }); f }
    for cols in [&sch.p, &sch.c] { for (i, c) in cols.iter().enumerate() { if let Some(e) = &c.chk {
        if !printable(e) { return 1; } if !leaves_ok(e, i) { return 2; } if has_not(e) { return 3; }
        let mut bad = false; e.walk(&mut |x| if let Expr::And(a, b) = x { if matches!(**a, Expr::Or(..)) || matches!(**b, Expr::Or(..)) { bad = true; } }); if bad { return 4; }
    } } }
    let last = h.last();
    let prior_del = h[..h.len().saturating_sub(1)].iter().any(|s| matches!(s, Stmt::Del(..)));
    let prior_keyupd = h[..h.len().saturating_sub(1)].iter().any(|s| matches!(s, Stmt::Upd(t, sets, _) if sets.iter().any(|(c, _)| sch.cols(*t)[*c].key != 0)));
    let casc = sch.c.iter().any(|c| matches!(&c.fk, Some(f) if f.act == 2));
    match last {
        Some(Stmt::Ins(_, rows)) if rows.len() > 1 => 10,
        Some(Stmt::Upd(t, sets, _)) if sets.iter().any(|(c, _)| sch.cols(*t)[*c].fk.is_some()) => 15,
        Some(Stmt::Upd(Tid::P, sets, _)) if sets.iter().any(|(c, _)| sch.c.iter().any(|cc| matches!(&cc.fk, Some(f) if f.col == *c))) => 15,
        Some(Stmt::Upd(t, sets, _)) if sets.iter().any(|(c, _)| sch.cols(*t)[*c].key != 0) =>
            if !sch.cols(*t).iter().any(|c| c.key == 1) { 13 } else if prior_keyupd { 14 } else { 12 },
        Some(Stmt::Del(Tid::P, _)) if !sch.c.is_empty() => if prior_del { 16 } else { 17 },
        Some(Stmt::Ins(Tid::C, _)) if prior_del && casc => 19,
        Some(Stmt::Ins(Tid::C, _)) if prior_del => 18,
        _ => if prior_keyupd { if sch.p.iter().any(|c| c.key == 1) { 14 } else { 13 } } else if prior_del { 11 } else { 0 },
    }
}
fn sql_mode(a: &Args) {
    let file = a.rest.get(0).expect("file");
    let dir = scratch_root().join("sql");
    let _ = std::fs::remove_dir_all(&dir);
    std::fs::create_dir_all(&dir).expect("mkdir");
    let db = Database::create(dir.join("db")).expect("create");
    for l in std::fs::read_to_string(file).unwrap().lines() {
        let l = l.trim();
        if l.is_empty() || l.starts_with('#') { continue; }
        let l2 = l.to_string();
        if l.to_uppercase().starts_with("SELECT") {
            match catch(std::panic::AssertUnwindSafe(|| db.query(&l2))) {
                Caught::Done(Ok(rs)) => println!("{}\n   => {}", l, rs.iter().map(|r| format!("{:?}", r.values)).collect::<Vec<_>>().join(" ")),
                Caught::Done(Err(e)) => println!("{}\n   => ERR {:#}", l, e),
                Caught::Panicked(m) => println!("{}\n   => PANIC {}", l, m),
            }
            continue;
        }
        match catch(std::panic::AssertUnwindSafe(|| db.execute(&l2))) {
            Caught::Done(Ok(r)) => println!("{}\n   => {:?}", l, r),
            Caught::Done(Err(e)) => println!("{}\n   => ERR {:#}", l, e),
            Caught::Panicked(m) => println!("{}\n   => PANIC {}", l, m),
        }
    }
    drop(db);
    let _ = std::fs::remove_dir_all(scratch_root());
}
