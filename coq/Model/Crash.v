(* C01 / C02 - commit, checkpoint and shutdown protocol of TurDB as a trace of disk events
   over a small disk model, and what Database::open makes of a crash image.
   Transcribed from (as the code is, WAL on, synchronous=FULL, one connection):
     database.rs   flush_wal_if_autocommit, SharedDatabase::checkpoint, Drop for SharedDatabase,
                   save_catalog / save_meta, ensure_wal
     transaction.rs execute_commit / execute_small_commit / sync_dirty_storages
     wal.rs        write_frames_batch, sync_to_disk, truncate, rotate_segment, remove_closed_segments
     wal_storage.rs flush_wal_for_table;  dirty_tracker.rs
     lifecycle.rs  Database::checkpoint (flush dirty tables, sync_all, truncate, wal sync)
     recovery.rs   recover_all_tables (redo of every valid frame whose table file exists)
     persistence.rs CatalogPersistence::save (temporary file: create, header, body, sync_all; rename over the catalog)
     file_manager.rs create_table / create_index (create 1 page, header, msync), ddl.rs (grow, root page, msync)
   A statement is abstracted to the page images it stores in place (observed), the pages it
   reports to the dirty tracker, and the grow calls in between.  Page images are names (Z, 0 =
   all-zero page = absent).  DEFINITIONS ONLY. *)
From Coq Require Import ZArith List Bool.
Import ListNotations.
Open Scope Z_scope.

(* ------------------------------------------------------------------ pages, frames *)
Definition key := (Z * Z)%type.                       (* (file, page) *)
Definition key_eqb (a b : key) : bool := (fst a =? fst b) && (snd a =? snd b).
Definition pmap := key -> option Z.
Definition pempty : pmap := fun _ => None.
Definition pupd (m : pmap) (k : key) (o : option Z) : pmap :=
  fun k' => if key_eqb k' k then o else m k'.
Definition img_of (i : Z) : option Z := if i =? 0 then None else Some i.

Definition frame := (key * option Z)%type.            (* after-image of page `key` (file = table id) *)

Definition mem (f : Z) (l : list Z) : bool := existsb (Z.eqb f) l.
Definition kmem (k : key) (l : list key) : bool := existsb (key_eqb k) l.
Definition add_z (f : Z) (l : list Z) : list Z := if mem f l then l else l ++ [f].
Definition add_key (k : key) (l : list key) : list key := if kmem k l then l else l ++ [k].
Definition del_key (k : key) (l : list key) : list key := filter (fun k' => negb (key_eqb k' k)) l.

(* redo: every frame whose table file exists in the image overwrites its page, in log order *)
Definition redo1 (files : list Z) (m : pmap) (f : frame) : pmap :=
  if mem (fst (fst f)) files then pupd m (fst f) (snd f) else m.
Definition redo (files : list Z) (fr : list frame) (m : pmap) : pmap := fold_left (redo1 files) fr m.

(* ------------------------------------------------------------------ disk + session state *)
Inductive catf := CatOk (ts : list Z) | CatTorn.      (* catalog file: complete / truncated or half written *)

Record st := mk {
  vol : pmap;                   (* data files as the process sees them (MAP_SHARED stores) *)
  dur : pmap;                   (* data files as of their last completed msync *)
  files : list Z;               (* data files that exist *)
  dfiles : list Z;              (* data files that were synced at least once *)
  closed_fl : list frame;       (* frames in closed WAL segments (file content) *)
  closed_du : list frame;       (* ... as of the segments' last sync *)
  cur_fl : list frame;          (* frames in the current segment file *)
  cur_du : list frame;          (* ... as of its last sync_data *)
  buf : list frame;             (* frames still in the BufWriter *)
  dirty : list key;             (* dirty tracker *)
  ever_dirty : bool;            (* the tracker has an entry (is_empty() = false) *)
  in_txn : bool;
  seq : Z;                      (* number of the current segment *)
  tabs : list Z;                (* tables of the in-memory catalog *)
  cat_v : catf;                 (* catalog file turdb.catalog *)
  cat_d : list Z;               (* ... its durable content *)
  cat_t : catf;                 (* temporary file turdb.catalog.tmp being written by save *)
  cat_td : option (list Z)      (* ... as of its last sync_all (None: not synced since created) *)
}.

Definition init : st :=
  mk pempty pempty [] [] [] [] [] [] [] [] false false 1 [] (CatOk []) [] CatTorn None.

Definition set_vol s x := mk x (dur s) (files s) (dfiles s) (closed_fl s) (closed_du s) (cur_fl s) (cur_du s) (buf s) (dirty s) (ever_dirty s) (in_txn s) (seq s) (tabs s) (cat_v s) (cat_d s) (cat_t s) (cat_td s).
Definition set_files s x := mk (vol s) (dur s) x (dfiles s) (closed_fl s) (closed_du s) (cur_fl s) (cur_du s) (buf s) (dirty s) (ever_dirty s) (in_txn s) (seq s) (tabs s) (cat_v s) (cat_d s) (cat_t s) (cat_td s).
Definition set_dur s x y := mk (vol s) x (files s) y (closed_fl s) (closed_du s) (cur_fl s) (cur_du s) (buf s) (dirty s) (ever_dirty s) (in_txn s) (seq s) (tabs s) (cat_v s) (cat_d s) (cat_t s) (cat_td s).
Definition set_wal s cf cd uf ud b q := mk (vol s) (dur s) (files s) (dfiles s) cf cd uf ud b (dirty s) (ever_dirty s) (in_txn s) q (tabs s) (cat_v s) (cat_d s) (cat_t s) (cat_td s).
Definition set_dirty s d e := mk (vol s) (dur s) (files s) (dfiles s) (closed_fl s) (closed_du s) (cur_fl s) (cur_du s) (buf s) d e (in_txn s) (seq s) (tabs s) (cat_v s) (cat_d s) (cat_t s) (cat_td s).
Definition set_txn s b := mk (vol s) (dur s) (files s) (dfiles s) (closed_fl s) (closed_du s) (cur_fl s) (cur_du s) (buf s) (dirty s) (ever_dirty s) b (seq s) (tabs s) (cat_v s) (cat_d s) (cat_t s) (cat_td s).
Definition set_cat s t v d tv td := mk (vol s) (dur s) (files s) (dfiles s) (closed_fl s) (closed_du s) (cur_fl s) (cur_du s) (buf s) (dirty s) (ever_dirty s) (in_txn s) (seq s) t v d tv td.

(* ------------------------------------------------------------------ events *)
Inductive ev :=
| EStore (f p i : Z)          (* in-place store of page image i (mmap) *)
| ECreate (f : Z)             (* data file created (1 page) *)
| EGrow (f : Z)               (* io 9: set_len + remap *)
| EMsync (f : Z)              (* io 6 *)
| EMark (k : key)             (* dirty_tracker.mark_dirty *)
| EBuf (k : key)              (* frame with the page's current image handed to the BufWriter; page leaves the tracker *)
| EFlush                      (* io 1: BufWriter flushed into the segment file *)
| ESync                       (* io 2: sync_data of the segment *)
| ETrunc                      (* io 3: Wal::truncate: flush, set_len(0), older segments removed *)
| ESetLen                     (* io 3: Wal::open cuts the segment at its valid end (no-op on a clean log) *)
| ERotate                     (* io 4: new segment; the old one becomes a closed segment *)
| EApply (t : Z)              (* checkpoint copies the closed frames of table t into its file *)
| ERemove                     (* io 5: closed segments removed *)
| EAddTab (t : Z)             (* table enters the in-memory catalog *)
| ECatTrunc | ECatHdr | ECatBody | ECatSync     (* io 4, 8, 8, 2 on turdb.catalog.tmp *)
| ECatRename                                    (* io 7: the temporary file renamed over turdb.catalog *)
| EMetaW | EMetaSync                            (* io 8, 2 on turdb.meta *)
| ETxn (b : bool)
| EReset                      (* new session: tracker empty, no transaction *)
| EAck.                       (* the call returns Ok *)

Definition only_table (t : Z) (fr : list frame) : list frame := filter (fun f => fst (fst f) =? t) fr.

Definition apply_ev (s : st) (e : ev) : st :=
  match e with
  | EStore f p i => set_vol s (pupd (vol s) (f, p) (img_of i))
  | ECreate f => set_files s (add_z f (files s))
  | EGrow _ => s
  | EMsync f =>
      if mem f (files s)
      then set_dur s (fun k => if fst k =? f then vol s k else dur s k) (add_z f (dfiles s))
      else s
  | EMark k => set_dirty s (add_key k (dirty s)) true
  | EBuf k => set_dirty (set_wal s (closed_fl s) (closed_du s) (cur_fl s) (cur_du s) (buf s ++ [(k, vol s k)]) (seq s))
                        (del_key k (dirty s)) (ever_dirty s)
  | EFlush => set_wal s (closed_fl s) (closed_du s) (cur_fl s ++ buf s) (cur_du s) [] (seq s)
  | ESync => set_wal s (closed_fl s) (closed_du s) (cur_fl s) (cur_fl s) (buf s) (seq s)
  | ETrunc => set_wal s [] [] [] (cur_du s) [] (seq s)
  | ESetLen => s
  | ERotate => set_wal s (closed_fl s ++ cur_fl s ++ buf s) (closed_du s ++ cur_du s) [] [] [] (seq s + 1)
  | EApply t => set_vol s (redo (files s) (only_table t (closed_fl s)) (vol s))
  | ERemove => set_wal s [] [] (cur_fl s) (cur_du s) (buf s) (seq s)
  | EAddTab t => set_cat s (add_z t (tabs s)) (cat_v s) (cat_d s) (cat_t s) (cat_td s)
  | ECatTrunc => set_cat s (tabs s) (cat_v s) (cat_d s) CatTorn None
  | ECatHdr => set_cat s (tabs s) (cat_v s) (cat_d s) CatTorn (cat_td s)
  | ECatBody => set_cat s (tabs s) (cat_v s) (cat_d s) (CatOk (tabs s)) (cat_td s)
  | ECatSync => set_cat s (tabs s) (cat_v s) (cat_d s) (cat_t s)
                        (match cat_t s with CatOk ts => Some ts | CatTorn => cat_td s end)
  | ECatRename => set_cat s (tabs s) (cat_t s) (match cat_td s with Some ts => ts | None => cat_d s end)
                          CatTorn None
  | EMetaW => s
  | EMetaSync => s
  | ETxn b => set_txn s b
  | EReset => set_txn (set_dirty s [] false) false
  | EAck => s
  end.

Definition run_evs (s : st) (es : list ev) : st := fold_left apply_ev es s.

(* ------------------------------------------------------------------ client operations *)
Inductive bitem := BStore (f p i : Z) | BGrow (f : Z).     (* in-place phase of a statement, as observed *)
Definition body_ev (b : bitem) : ev := match b with BStore f p i => EStore f p i | BGrow f => EGrow f end.

Inductive op :=
| OCreate (t h r hi ri : Z)       (* CREATE TABLE t<t> (id INT PRIMARY KEY, ..): header / root images of table and pk index *)
| ODml (t : Z) (marks : list key) (body : list bitem) (post : list bitem)
                                  (* INSERT / UPDATE / DELETE on table t: tracker marks, stores before the WAL flush, stores after it *)
| OBegin
| OCommit (ord : list Z)          (* ord: order in which the dirty tables were msynced (hash-map order, observed) *)
| OCkpt (ord : list Z)            (* PRAGMA wal_checkpoint; ord: order in which the table files were visited (directory order) *)
| OApiCkpt (ord : list Z)         (* Database::checkpoint(); ord: the data files FileManager::sync_all msynced (its open files), in order *)
| OReopen (ord1 ord2 : list Z).   (* drop the handle (clean shutdown), Database::open, PRAGMA wal=ON;
                                     ord1: directory order of the checkpoint, ord2: order of FileManager::sync_all *)

Definition idx_file (t : Z) : Z := 100 + t.

Fixpoint marks_into (d : list key) (ms : list key) : list key :=
  match ms with [] => d | k :: r => marks_into (add_key k d) r end.

Fixpoint tables_of (ks : list Z) : list Z :=
  match ks with [] => [] | t :: r => add_z t (tables_of r) end.
Definition key_tables (ks : list key) : list Z := tables_of (map fst ks).
Definition frame_tables (files : list Z) (fr : list frame) : list Z :=
  filter (fun t => mem t files) (key_tables (map fst fr)).

(* the set `l` in the observed order `ord` (iteration orders of hash maps and directories are not modelled) *)
Definition same_set (a b : list Z) : bool :=
  forallb (fun x => mem x b) a && forallb (fun x => mem x a) b && (Z.of_nat (length a) =? Z.of_nat (length b)).
Definition arrange (ord l : list Z) : list Z := if same_set ord l then ord else l.

(* write_frames_batch of the given pages + sync (FULL); nothing at all for an empty batch *)
Definition flush_evs (ks : list key) : list ev :=
  match ks with [] => [] | _ => map EBuf ks ++ [EFlush; ESync] end.

(* rotate, copy closed frames into the table files that have some, msync those, remove closed segments *)
Definition ckpt_evs (s : st) (ord : list Z) : list ev :=
  ERotate :: flat_map (fun t => [EApply t; EMsync t]) (arrange ord (frame_tables (files s) (closed_fl s ++ cur_fl s ++ buf s)))
  ++ [ERemove].

Definition cat_save : list ev := [ECatTrunc; ECatHdr; ECatBody; ECatSync; ECatRename].

Definition events (s : st) (o : op) : list ev :=
  match o with
  | OCreate t h r hi ri =>
      [ECreate t; EStore t 0 h; EMsync t; EGrow t; EStore t 1 r; EMsync t;
       ECreate (idx_file t); EStore (idx_file t) 0 hi; EMsync (idx_file t); EGrow (idx_file t); EStore (idx_file t) 1 ri;
       EMsync (idx_file t);
       EAddTab t] ++ cat_save ++ [EMetaW; EMetaSync; EAck]
  | ODml t marks body post =>
      map EMark marks ++ map body_ev body
      ++ (if in_txn s then [] else flush_evs (filter (fun k => fst k =? t) (marks_into (dirty s) marks)))
      ++ map body_ev post ++ [EAck]
  | OBegin => [ETxn true; EAck]
  | OCommit ord =>
      flush_evs (dirty s) ++ (match dirty s with [] => [] | _ => map EMsync (arrange ord (key_tables (dirty s))) end)
      ++ [ETxn false; EAck]
  | OCkpt ord => ckpt_evs s ord ++ [EAck]
  | OApiCkpt ord =>
      if ever_dirty s
      then flat_map (fun t => flush_evs (filter (fun k => fst k =? t) (dirty s))) (key_tables (dirty s))
           ++ (match cur_fl s ++ buf s ++ map (fun k => (k, None)) (dirty s) with
               | [] => []
               | _ => map EMsync ord ++ [ETrunc; EFlush; ESync]      (* sync_all, truncate, wal.sync() *)
               end)
           ++ [EAck]
      else [EAck]
  | OReopen ord1 ord2 =>
      ckpt_evs s ord1 ++ cat_save ++ map EMsync (arrange ord2 (files s)) ++ [EReset; ESetLen; EAck]
  end.

Definition step (s : st) (o : op) : st := run_evs s (events s o).
Definition run (s : st) (os : list op) : st := fold_left step os s.

(* state after the first i operations and the first n events of operation i *)
Definition at_pos (os : list op) (i n : nat) : st :=
  let s := run init (firstn i os) in
  match nth_error os i with
  | Some o => run_evs s (firstn n (events s o))
  | None => s
  end.

(* ------------------------------------------------------------------ crash images and Database::open *)
Inductive mode := Kill | Power.

Record image := mki {
  r_open : bool;            (* Database::open returns Ok *)
  r_tabs : list Z;          (* tables of the catalog that was loaded *)
  r_pages : pmap            (* data files after recover_all_tables *)
}.

Definition recover (m : mode) (s : st) : image :=
  match m with
  | Kill =>
      mki (match cat_v s with CatOk _ => true | CatTorn => false end)
          (match cat_v s with CatOk ts => ts | CatTorn => [] end)
          (redo (files s) (closed_fl s ++ cur_fl s) (vol s))
  | Power =>
      mki true (cat_d s)
          (redo (dfiles s) (closed_du s ++ cur_du s) (fun k => if mem (fst k) (dfiles s) then dur s k else None))
  end.

(* recover_all_tables keys the table files by the table id stored in their header and visits the
   schema directories in readdir order; when a user table carries the id of a system table
   (turdb.meta is written once, at Database::create, with next_table_id = 1: a database that was
   closed before its first CREATE TABLE hands out 1, 2, .. again) and turdb_catalog/ comes later in
   that order, the frames of that table go to the system table's file instead.  `sh` = the tables
   shadowed in this way (observed per workload; [] when ids are unique, which is what `recover` says) *)
Definition recover_sh (sh : list Z) (m : mode) (s : st) : image :=
  let live (l : list Z) := filter (fun f => negb (mem f sh)) l in
  match m with
  | Kill =>
      mki (match cat_v s with CatOk _ => true | CatTorn => false end)
          (match cat_v s with CatOk ts => ts | CatTorn => [] end)
          (redo (live (files s)) (closed_fl s ++ cur_fl s) (vol s))
  | Power =>
      mki true (cat_d s)
          (redo (live (dfiles s)) (closed_du s ++ cur_du s) (fun k => if mem (fst k) (dfiles s) then dur s k else None))
  end.

(* ------------------------------------------------------------------ what the io_event hook sees *)
Inductive phys :=
| PStore (f p i : Z)
| PIo (kind role : Z) (frames : list (Z * Z * Z)).   (* frames that reached the segment file (kind 1): table, page, image *)

Definition wal_role (s : st) : Z := 1000 + seq s.
Definition frame_obs (f : frame) : Z * Z * Z :=
  (fst (fst f), snd (fst f), match snd f with Some i => i | None => 0 end).

Definition emit (s : st) (e : ev) : list phys :=
  match e with
  | EStore f p i => [PStore f p i]
  | EGrow f => [PIo 9 f []]
  | EMsync f => [PIo 6 f []]
  | EFlush => [PIo 1 (wal_role s) (map frame_obs (buf s))]
  | ESync => [PIo 2 (wal_role s) []]
  | ETrunc => [PIo 3 (wal_role s) []]
  | ESetLen => [PIo 3 (wal_role s) []]
  | ERotate => [PIo 4 (wal_role s + 1) []]
  | ERemove => [PIo 5 (wal_role s - 1) []]
  | ECatTrunc => [PIo 4 2004 []]
  | ECatHdr => [PIo 8 2004 []]
  | ECatBody => [PIo 8 2004 []]
  | ECatSync => [PIo 2 2004 []]
  | ECatRename => [PIo 7 2000 []]
  | EMetaW => [PIo 8 2001 []]
  | EMetaSync => [PIo 2 2001 []]
  | _ => []
  end.

Fixpoint emit_all (s : st) (es : list ev) : list phys :=
  match es with
  | [] => []
  | e :: r => emit s e ++ emit_all (apply_ev s e) r
  end.

Definition is_io (e : ev) : bool :=
  match e with
  | EGrow _ | EMsync _ | EFlush | ESync | ETrunc | ESetLen | ERotate | ERemove
  | ECatTrunc | ECatHdr | ECatBody | ECatSync | ECatRename | EMetaW | EMetaSync => true
  | _ => false
  end.

(* number of events up to and including the j-th (1-based) io-visible event *)
Fixpoint upto_io (es : list ev) (j : nat) {struct es} : nat :=
  match j with
  | O => O
  | S j' =>
      match es with
      | [] => O
      | e :: r => if is_io e then S (upto_io r j') else S (upto_io r j)
      end
  end.

(* ------------------------------------------------------------------ side conditions of the theorems
   (evaluated on every observed workload by Corr/C01.v) *)
Definition frame_keys (s : st) : list key :=
  map fst (closed_fl s ++ closed_du s ++ cur_fl s ++ cur_du s ++ buf s).
Definition store_keys (b : list bitem) : list key :=
  flat_map (fun x => match x with BStore f p _ => [(f, p)] | BGrow _ => [] end) b.

(* a store that bypasses the dirty tracker only goes to a page that has no frame in the log *)
Definition untracked_ok (s : st) (k : key) : bool := negb (kmem k (frame_keys s)) && negb (kmem k (dirty s)).

Definition wf_op (s : st) (o : op) : bool :=
  match o with
  | OCreate t _ _ _ _ =>
      negb (in_txn s) && negb (mem t (files s)) && negb (mem (idx_file t) (files s)) && negb (t =? idx_file t)
      && negb (existsb (fun k => (fst k =? t) || (fst k =? idx_file t)) (frame_keys s ++ dirty s))
  | ODml t marks body post =>
      mem t (dfiles s) && forallb (fun k => fst k =? t) marks
      && forallb (fun k => kmem k marks || kmem k (dirty s) || untracked_ok s k) (store_keys body)
      && forallb (fun k => negb (kmem k marks) && untracked_ok s k) (store_keys post)
      && (in_txn s || match dirty s with [] => true | _ => false end)
  | OBegin => negb (in_txn s)
  | OCommit _ => in_txn s
  | OApiCkpt ord =>
      negb (in_txn s) && match dirty s with [] => true | _ => false end
      (* every table that has frames in the log is open in the file manager, hence msynced by sync_all *)
      && forallb (fun t => mem t ord) (frame_tables (files s) (cur_fl s))
  | OCkpt _ | OReopen _ _ => negb (in_txn s) && match dirty s with [] => true | _ => false end
  end.

Fixpoint wf_run (s : st) (os : list op) : bool :=
  match os with
  | [] => true
  | o :: r => wf_op s o && wf_run (step s o) r
  end.

Definition is_api_ckpt (o : op) : bool := match o with OApiCkpt _ => true | _ => false end.

(* ------------------------------------------------------------------ bookkeeping used to STATE the power-loss
   theorems (not part of the protocol): the pages as of the last completed WAL sync / msync, and
   the pages whose latest store bypassed the dirty tracker and was not msynced since *)
Record ghost := mkg { g_view : pmap; g_unl : list key }.
Definition ghost0 : ghost := mkg pempty [].

Definition ghost_ev (s : st) (g : ghost) (e : ev) : ghost :=      (* s = state before e *)
  match e with
  | EStore f p _ =>
      if kmem (f, p) (dirty s) then g else mkg (g_view g) (add_key (f, p) (g_unl g))
  | ESync => mkg (vol s) (g_unl g)
  | EMsync f =>
      if mem f (files s)
      then mkg (fun k => if fst k =? f then vol s k else g_view g k) (filter (fun k => negb (fst k =? f)) (g_unl g))
      else g
  | _ => g
  end.

Fixpoint ghost_evs (s : st) (g : ghost) (es : list ev) : ghost :=
  match es with
  | [] => g
  | e :: r => ghost_evs (apply_ev s e) (ghost_ev s g e) r
  end.

Fixpoint ghost_run (s : st) (g : ghost) (os : list op) : ghost :=
  match os with
  | [] => g
  | o :: r => ghost_run (step s o) (ghost_evs s g (events s o)) r
  end.

Definition ghost_at (os : list op) (i n : nat) : ghost :=
  let s := run init (firstn i os) in
  let g := ghost_run init ghost0 (firstn i os) in
  match nth_error os i with
  | Some o => ghost_evs s g (firstn n (events s o))
  | None => g
  end.

(* crash positions at which nothing is in flight between the tracker, the BufWriter and the file *)
Definition quiet (s : st) : bool :=
  match dirty s, buf s with [], [] => true | _, _ => false end.
Definition cat_ok (s : st) : bool := match cat_v s with CatOk _ => true | CatTorn => false end.
