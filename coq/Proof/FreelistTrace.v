(* C34 proofs, part 3: from the per-call invariant to statements about whole histories
   (traces of the model judged by the property's oracle of Model/Freelist.v):
   the freelist refines the bag specification, and free_count() is exact. *)
From Coq Require Import ZArith List Bool Lia ZifyBool FMapPositive Permutation.
From TV Require Import Lib.MachInt Gen.FreelistConsts Gen.Freelist Model.Freelist Proof.Freelist Proof.FreelistInv.
Import ListNotations.
Open Scope Z_scope.

(* model state and oracle state describe the same moment *)
Definition Inv (np : Z) (st : state) (o : ost) (ts : list trunk) : Prop :=
  Core np st (bag o) (nfree o) ts.

Definition ost_run (o : ost) (tr : list ev) : ost := fold_left ost_step tr o.

(* one call of a disciplined client *)
Lemma step_inv : forall np st o ts op st' r,
  np < 2 ^ 32 -> Inv np st o ts -> step np st op = (st', r) ->
  let e := E op r (head st') (fc st') in
  disc_ev np o e = true ->
  anomaly o e = false /\ none_ok o e = true /\ fc st' = nfree (ost_step o e) /\
  (exists ts', Inv np st' (ost_step o e) ts') /\
  match op, r with
  | Alloc, OSome _ => fc st' = fc st - 1
  | Alloc, ONone => fc st = 0
  | _, _ => True
  end.
Proof.
  intros np st o ts op st' r Hnp HC Hstep e Hdisc. subst e. unfold Inv in *.
  destruct op as [p| |p i v]; cbn [step] in Hstep.
  - (* release *)
    cbn [disc_ev] in Hdisc.
    destruct (release_core np st (bag o) (nfree o) ts p Hnp HC) as (st2 & Hr & ts' & HC'); [lia| |].
    { destruct (bmem p (bag o)); [cbn in Hdisc; lia|reflexivity]. }
    rewrite Hr in Hstep. inversion Hstep; subst st2 r. clear Hstep.
    cbn [anomaly none_ok ost_step nfree bag].
    split; [reflexivity|]. split; [reflexivity|]. split; [eapply core_fc_nf; eauto|]. split; [|exact I].
    exists ts'. exact HC'.
  - (* allocate *)
    destruct (alloc_core np ts st (bag o) (nfree o) HC) as (st2 & r2 & Ha & Hpost).
    rewrite Ha in Hstep. inversion Hstep; subst st2 r2. clear Hstep.
    pose proof (core_fc_nf _ _ _ _ _ HC) as Hfn.
    destruct Hpost as [(-> & Hn0 & ->)|(x & -> & Hxb & ts' & HC')].
    + cbn [anomaly none_ok ost_step].
      split; [reflexivity|]. split; [lia|]. split; [lia|]. split; [|lia].
      exists ts. exact HC.
    + pose proof (core_fc_nf _ _ _ _ _ HC') as Hfn'.
      cbn [anomaly none_ok ost_step nfree bag]. rewrite Hxb.
      split; [reflexivity|]. split; [reflexivity|]. split; [lia|]. split; [|lia].
      exists ts'. exact HC'.
  - (* client write *)
    cbn [disc_ev] in Hdisc.
    destruct (poke_core np st (bag o) (nfree o) ts p i v HC) as (st2 & Hr & HC'); [lia|lia| |].
    { destruct (bmem p (bag o)); [cbn in Hdisc; lia|reflexivity]. }
    rewrite Hr in Hstep. inversion Hstep; subst st2 r. clear Hstep.
    cbn [anomaly none_ok ost_step].
    split; [reflexivity|]. split; [reflexivity|]. split; [eapply core_fc_nf; eauto|]. split; [|exact I].
    exists ts. exact HC'.
Qed.

(* ------------------------------------------------------------------ whole histories *)
Lemma run_full : forall np, np < 2 ^ 32 -> forall ops st o ts,
  Inv np st o ts ->
  disciplined_from np o (run_from np st ops) = true ->
  safe_from o (run_from np st ops) = true /\
  complete_from o (run_from np st ops) = true /\
  reported_eq_spec_from o (run_from np st ops) = true /\
  snd (count_pass Z.eqb (run_from np st ops)) = true /\
  (forall k, drain_count (run_from np st ops) = Some k -> k = fc st) /\
  exists ts', Inv np (final_from np st ops) (ost_run o (run_from np st ops)) ts'.
Proof.
  intros np Hnp ops. induction ops as [|op t IH]; intros st o ts HI Hd.
  - cbn. repeat split; try discriminate. exists ts. exact HI.
  - cbn [run_from final_from] in *. destruct (step np st op) as [st' r] eqn:Es.
    cbn [disciplined_from safe_from complete_from reported_eq_spec_from ost_run fold_left fst] in *.
    apply andb_prop in Hd. destruct Hd as [Hd1 Hd2].
    destruct (step_inv np st o ts op st' r Hnp HI Es Hd1) as (Han & Hno & Heq & (ts' & HI') & Hfc).
    destruct (IH st' _ ts' HI' Hd2) as (IH1 & IH2 & IH3 & IH4 & IH5 & IH6).
    rewrite Han, Hno, IH1, IH2, IH3. cbn [negb andb].
    split; [reflexivity|]. split; [reflexivity|]. split; [apply andb_true_intro; split; [lia|reflexivity]|].
    cbn [count_pass drain_count].
    pose proof (count_pass_fst Z.eqb (run_from np st' t)) as Hdc.
    destruct (count_pass Z.eqb (run_from np st' t)) as [dt okt]. cbn [fst snd] in *. subst dt okt.
    split; [|split; [|exact IH6]].
    + cbn [snd andb]. destruct (drain_count (run_from np st' t)) as [k|] eqn:Ek; [|reflexivity].
      specialize (IH5 k eq_refl). lia.
    + intros k Hk. destruct op as [p| |p i v]; try (destruct r; discriminate).
      destruct r; try discriminate.
      * destruct (drain_count (run_from np st' t)) as [k'|] eqn:Ek; [|discriminate].
        inversion Hk; subst k. specialize (IH5 k' eq_refl). lia.
      * inversion Hk; subst k. lia.
Qed.

(* ------------------------------------------------------------------ traces of appended histories *)
Lemma run_from_app : forall np a b st,
  run_from np st (a ++ b) = run_from np st a ++ run_from np (final_from np st a) b.
Proof.
  intros np a. induction a as [|op t IH]; intros b st; [reflexivity|].
  cbn [app run_from final_from]. destruct (step np st op) as [st' r]. cbn [fst app]. rewrite IH. reflexivity.
Qed.
Lemma disciplined_from_app : forall np t1 t2 o,
  disciplined_from np o (t1 ++ t2) = disciplined_from np o t1 && disciplined_from np (ost_run o t1) t2.
Proof.
  intros np t1. induction t1 as [|e t IH]; intros t2 o; [reflexivity|].
  cbn [app disciplined_from ost_run fold_left]. rewrite IH. unfold ost_run. rewrite andb_assoc. reflexivity.
Qed.

Lemma inv_new : forall np, Inv np st_new ost_new [].
Proof. intro np. apply core_new. Qed.

(* ================================================================== the theorems pinned in Props/C34.v *)
(* DESIGN.md C34 `freelist_refines_bag`: for every disciplined history, allocate() returns a member
   of the abstract free bag (released, not handed out since) or None exactly when the bag is empty,
   no call fails, and free_count() equals the size of the bag after every call *)
Theorem freelist_refines_bag_l : forall np ops, np < 2 ^ 32 ->
  disciplined np (run np ops) = true -> refines_bag (run np ops) = true.
Proof.
  intros np ops Hnp Hd. unfold refines_bag, safe, complete, reported_eq_spec, run in *.
  destruct (run_full np Hnp ops st_new ost_new [] (inv_new np) Hd) as (H1 & H2 & H3 & _).
  rewrite H1, H2, H3. reflexivity.
Qed.

Theorem count_exact_l : forall np ops, np < 2 ^ 32 ->
  disciplined np (run np ops) = true -> count_exact (run np ops) = true.
Proof.
  intros np ops Hnp Hd. unfold count_exact, count_check, run in *.
  destruct (run_full np Hnp ops st_new ost_new [] (inv_new np) Hd) as (_ & _ & _ & H4 & H5 & _).
  pose proof (count_pass_fst Z.eqb (run_from np st_new ops)) as Hdc.
  destruct (count_pass Z.eqb (run_from np st_new ops)) as [d ok]. cbn [fst snd] in *. subst d ok.
  cbn [andb]. destruct (drain_count _) as [k|] eqn:Ek; [|reflexivity].
  specialize (H5 k eq_refl). cbn [fc st_new] in H5. lia.
Qed.

(* the three clauses of the property, every history (an undisciplined client is promised nothing) *)
Theorem property_holds_l : forall np ops, np < 2 ^ 32 -> property_ok np (run np ops) = true.
Proof.
  intros np ops Hnp. unfold property_ok.
  destruct (disciplined np (run np ops)) eqn:Ed; [|reflexivity]. cbn [negb orb].
  pose proof (freelist_refines_bag_l np ops Hnp Ed) as Hr. unfold refines_bag in Hr.
  apply andb_prop in Hr. destruct Hr as [Hr _]. apply andb_prop in Hr. destruct Hr as [Hs _].
  rewrite Hs, (count_exact_l np ops Hnp Ed). reflexivity.
Qed.

(* in any reachable state: draining returns exactly free_count() pages *)
Theorem drain_returns_free_count_l : forall np ops more k, np < 2 ^ 32 ->
  disciplined np (run np (ops ++ more)) = true ->
  drain_count (run_from np (final np ops) more) = Some k -> k = fc (final np ops).
Proof.
  intros np ops more k Hnp Hd Hk. unfold disciplined, run, final in *.
  rewrite run_from_app in Hd. rewrite disciplined_from_app in Hd.
  apply andb_prop in Hd. destruct Hd as [Hd1 Hd2].
  destruct (run_full np Hnp ops st_new ost_new [] (inv_new np) Hd1) as (_ & _ & _ & _ & _ & ts & HI).
  destruct (run_full np Hnp more _ _ ts HI Hd2) as (_ & _ & _ & _ & H5 & _).
  apply H5. exact Hk.
Qed.
