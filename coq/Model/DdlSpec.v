(* C21 reference semantics: what a relational model predicts for histories of schema changes
   (CREATE / DROP TABLE, ALTER TABLE ADD / DROP / RENAME COLUMN, TRUNCATE, CREATE / DROP INDEX)
   interleaved with DML (INSERT, DELETE, UPDATE) and reopen.  Definitions only.

   Vocabulary shared with the implementation model (Model/AlterImpl.v): values, column
   definitions, statements, association lists, and the row-level helpers both sides use.
   Tables, columns and indexes are named by small integers (the harness prints t<k>, c<k>,
   i<t>_<k>); a text value [VT k] stands for the string 's<k>'.  Column types: 0 = INT (i32),
   1 = BIGINT (i64), 2 = TEXT. *)
From Coq Require Import ZArith List Bool.
Import ListNotations.
Open Scope Z_scope.

Inductive val := VN | VI (z : Z) | VT (z : Z).
Record col := mkCol { cname : Z; cty : Z; cdef : val }.
Definition row := list val.

Inductive stmt :=
| CreateTable (t : Z) (cs : list col)
| DropTable (t : Z)
| Insert (t : Z) (r : row)                       (* INSERT INTO t VALUES (r) *)
| InsertOne (t : Z) (c : Z) (v : val)            (* INSERT INTO t (c) VALUES (v): the rest take their DEFAULT *)
| DeleteEq (t : Z) (c : Z) (v : val)             (* DELETE FROM t WHERE c = v   (v a non-NULL literal) *)
| DeleteAll (t : Z)
| UpdateEq (t : Z) (sc : Z) (sv : val) (wc : Z) (wv : val)   (* UPDATE t SET sc = sv WHERE wc = wv *)
| UpdateAll (t : Z) (sc : Z) (sv : val)
| AddCol (t : Z) (c : col)                       (* ALTER TABLE t ADD COLUMN c ty [DEFAULT d] *)
| DropCol (t : Z) (c : Z) (exact : bool)         (* ALTER TABLE t DROP COLUMN c; exact = false: spelled in the other letter case *)
| RenameCol (t : Z) (c : Z) (n : Z)
| Truncate (t : Z) (restart : bool)
| CreateIndex (i t c : Z)
| DropIndex (i : Z)
| Reopen.

(* what SELECT * FROM t shows *)
Inductive tobs := TNone | TErr | TAny | TRows (names : list Z) (rows : list row).

(* ------------------------------------------------------------------ values *)
Definition val_eqb (a b : val) : bool :=
  match a, b with
  | VN, VN => true
  | VI x, VI y => x =? y
  | VT x, VT y => x =? y
  | _, _ => false
  end.
(* SQL `col = literal` as a WHERE condition: NULL on either side never matches *)
Definition sql_eq (a b : val) : bool :=
  match a, b with
  | VI x, VI y => x =? y
  | VT x, VT y => x =? y
  | _, _ => false
  end.
Definition fits (ty : Z) (v : val) : bool :=
  match v with
  | VN => true
  | VI z => ((ty =? 0) && (-2147483648 <=? z) && (z <=? 2147483647))
            || ((ty =? 1) && (-9223372036854775808 <=? z) && (z <=? 9223372036854775807))
  | VT _ => ty =? 2
  end.
Fixpoint fits_row (cs : list col) (r : row) : bool :=
  match cs, r with
  | [], [] => true
  | c :: cs', v :: r' => fits (cty c) v && fits_row cs' r'
  | _, _ => false
  end.

(* ------------------------------------------------------------------ lists *)
Fixpoint remove_nth {A} (n : nat) (l : list A) : list A :=
  match l, n with
  | [], _ => []
  | _ :: t, O => t
  | h :: t, S n' => h :: remove_nth n' t
  end.
Fixpoint set_nth {A} (n : nat) (v : A) (l : list A) : list A :=
  match l, n with
  | [], _ => []
  | _ :: t, O => v :: t
  | h :: t, S n' => h :: set_nth n' v t
  end.
(* position of the first column called [c] *)
Fixpoint find_col (c : Z) (cs : list col) : option nat :=
  match cs with
  | [] => None
  | x :: r => if cname x =? c then Some O else option_map S (find_col c r)
  end.
Definition has_col (c : Z) (cs : list col) : bool :=
  match find_col c cs with Some _ => true | None => false end.
Fixpoint nodup_names (cs : list col) : bool :=
  match cs with [] => true | x :: r => negb (has_col (cname x) r) && nodup_names r end.
Definition rename_at (n : nat) (name : Z) (cs : list col) : list col :=
  match nth_error cs n with
  | Some x => set_nth n (mkCol name (cty x) (cdef x)) cs
  | None => cs
  end.
Definition cell_matches (i : nat) (v : val) (r : row) : bool :=
  match nth_error r i with Some x => sql_eq x v | None => false end.
Definition col_ty (i : nat) (cs : list col) : Z :=
  match nth_error cs i with Some x => cty x | None => -1 end.
(* the row INSERT INTO t (c) VALUES (v) builds *)
Definition default_row (cs : list col) (i : nat) (v : val) : row := set_nth i v (map cdef cs).

(* association lists keyed by table number *)
Fixpoint get {A} (k : Z) (l : list (Z * A)) : option A :=
  match l with [] => None | (k', v) :: r => if k' =? k then Some v else get k r end.
Fixpoint put {A} (k : Z) (v : A) (l : list (Z * A)) : list (Z * A) :=
  match l with
  | [] => []
  | (k', v') :: r => if k' =? k then (k', v) :: r else (k', v') :: put k v r
  end.
Fixpoint del {A} (k : Z) (l : list (Z * A)) : list (Z * A) :=
  match l with [] => [] | (k', v') :: r => if k' =? k then r else (k', v') :: del k r end.

(* index catalogue: (index name, table, column name) *)
Definition idx := (Z * Z * Z)%type.
Definition idx_name (e : idx) : Z := fst (fst e).
Definition idx_on (t c : Z) (e : idx) : bool := (snd (fst e) =? t) && (snd e =? c).
Definition idx_of_table (t : Z) (e : idx) : bool := snd (fst e) =? t.
Definition has_idx (i : Z) (l : list idx) : bool := existsb (fun e => idx_name e =? i) l.
Definition drop_idx (i : Z) (l : list idx) : list idx := filter (fun e => negb (idx_name e =? i)) l.

(* ------------------------------------------------------------------ the relational model *)
Record stbl := mkS { cols : list col; rows : list row }.
Record sstate := mkSS { stabs : list (Z * stbl); sidx : list idx }.
Definition s_empty : sstate := mkSS [] [].

(* statements on one table: None = the statement is an error and changes nothing *)
Definition s_insert (r : row) (tb : stbl) : option stbl :=
  if fits_row (cols tb) r then Some (mkS (cols tb) (rows tb ++ [r])) else None.
Definition s_insert_one (c : Z) (v : val) (tb : stbl) : option stbl :=
  match find_col c (cols tb) with
  | Some i => if fits (col_ty i (cols tb)) v
              then Some (mkS (cols tb) (rows tb ++ [default_row (cols tb) i v])) else None
  | None => None
  end.
Definition s_delete_eq (c : Z) (v : val) (tb : stbl) : option stbl :=
  match find_col c (cols tb) with
  | Some i => Some (mkS (cols tb) (filter (fun r => negb (cell_matches i v r)) (rows tb)))
  | None => None
  end.
Definition s_update_eq (sc : Z) (sv : val) (wc : Z) (wv : val) (tb : stbl) : option stbl :=
  match find_col sc (cols tb), find_col wc (cols tb) with
  | Some i, Some j =>
      if fits (col_ty i (cols tb)) sv
      then Some (mkS (cols tb) (map (fun r => if cell_matches j wv r then set_nth i sv r else r) (rows tb)))
      else None
  | _, _ => None
  end.
Definition s_update_all (sc : Z) (sv : val) (tb : stbl) : option stbl :=
  match find_col sc (cols tb) with
  | Some i => if fits (col_ty i (cols tb)) sv
              then Some (mkS (cols tb) (map (set_nth i sv) (rows tb))) else None
  | None => None
  end.
(* existing rows read the new column's DEFAULT (NULL when there is none) *)
Definition s_add_col (c : col) (tb : stbl) : option stbl :=
  if has_col (cname c) (cols tb) || negb (fits (cty c) (cdef c)) then None
  else Some (mkS (cols tb ++ [c]) (map (fun r => r ++ [cdef c]) (rows tb))).
(* every other column keeps its values; a table keeps at least one column *)
Definition s_drop_col (c : Z) (tb : stbl) : option stbl :=
  match find_col c (cols tb) with
  | Some i => if (length (cols tb) <=? 1)%nat then None
              else Some (mkS (remove_nth i (cols tb)) (map (remove_nth i) (rows tb)))
  | None => None
  end.
Definition s_rename_col (c n : Z) (tb : stbl) : option stbl :=
  match find_col c (cols tb) with
  | Some i => if has_col n (cols tb) then None else Some (mkS (rename_at i n (cols tb)) (rows tb))
  | None => None
  end.

Definition s_on (t : Z) (f : stbl -> option stbl) (s : sstate) : sstate * bool :=
  match get t (stabs s) with
  | Some tb => match f tb with
               | Some tb' => (mkSS (put t tb' (stabs s)) (sidx s), true)
               | None => (s, false)
               end
  | None => (s, false)
  end.

Definition s_step (s : sstate) (st : stmt) : sstate * bool :=
  match st with
  | CreateTable t cs =>
      match get t (stabs s) with
      | Some _ => (s, false)
      | None => match cs with
                | [] => (s, false)
                | _ => if nodup_names cs && forallb (fun c => fits (cty c) (cdef c)) cs
                       then (mkSS (stabs s ++ [(t, mkS cs [])]) (sidx s), true) else (s, false)
                end
      end
  | DropTable t =>
      match get t (stabs s) with
      | Some _ => (mkSS (del t (stabs s)) (filter (fun e => negb (idx_of_table t e)) (sidx s)), true)
      | None => (s, false)
      end
  | Insert t r => s_on t (s_insert r) s
  | InsertOne t c v => s_on t (s_insert_one c v) s
  | DeleteEq t c v => s_on t (s_delete_eq c v) s
  | DeleteAll t => s_on t (fun tb => Some (mkS (cols tb) [])) s
  | UpdateEq t sc sv wc wv => s_on t (s_update_eq sc sv wc wv) s
  | UpdateAll t sc sv => s_on t (s_update_all sc sv) s
  | AddCol t c => s_on t (s_add_col c) s
  | DropCol t c _ =>
      match s_on t (s_drop_col c) s with
      | (s', true) => (mkSS (stabs s') (filter (fun e => negb (idx_on t c e)) (sidx s')), true)
      | r => r
      end
  | RenameCol t c n =>
      match s_on t (s_rename_col c n) s with
      | (s', true) =>
          (mkSS (stabs s') (map (fun e => if idx_on t c e then (fst e, n) else e) (sidx s')), true)
      | r => r
      end
  | Truncate t _ => s_on t (fun tb => Some (mkS (cols tb) [])) s
  | CreateIndex i t c =>
      match get t (stabs s) with
      | Some tb => if has_idx i (sidx s) || negb (has_col c (cols tb)) then (s, false)
                   else (mkSS (stabs s) (sidx s ++ [(i, t, c)]), true)
      | None => (s, false)
      end
  | DropIndex i => if has_idx i (sidx s) then (mkSS (stabs s) (drop_idx i (sidx s)), true) else (s, false)
  | Reopen => (s, true)                            (* reopening changes nothing *)
  end.

Definition s_obs1 (s : sstate) (t : Z) : tobs :=
  match get t (stabs s) with
  | Some tb => TRows (map cname (cols tb)) (rows tb)
  | None => TNone
  end.
(* the tables a history may use *)
Definition universe : list Z := [0; 1; 2].
Definition s_obs (s : sstate) : list tobs := map (s_obs1 s) universe.

(* a history: after every statement, its status and what every table shows *)
Fixpoint s_run (s : sstate) (h : list stmt) : list (bool * list tobs) :=
  match h with
  | [] => []
  | st :: r => let '(s', ok) := s_step s st in (ok, s_obs s') :: s_run s' r
  end.
