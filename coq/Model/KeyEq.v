(* C26: decidable equality on key values (used by the correspondence to compare what the
   implementation decoded with what was encoded).  Definitions only. *)
From Coq Require Import ZArith List Bool.
From TV Require Import Lib.MachInt Model.KeySpec.
Import ListNotations.
Open Scope Z_scope.

Fixpoint list_eqb {A} (eqb : A -> A -> bool) (a b : list A) : bool :=
  match a, b with
  | [], [] => true
  | x :: a', y :: b' => eqb x y && list_eqb eqb a' b'
  | _, _ => false
  end.

Fixpoint json_eqb (a b : json) : bool :=
  match a, b with
  | JNull, JNull => true
  | JBool x, JBool y => Bool.eqb x y
  | JNum x, JNum y => x =? y
  | JStr x, JStr y => zlist_eqb x y
  | JArr x, JArr y =>
      (fix go (x y : list json) : bool :=
         match x, y with
         | [], [] => true
         | p :: x', q :: y' => json_eqb p q && go x' y'
         | _, _ => false
         end) x y
  | JObj x, JObj y =>
      (fix go (x y : list (list Z * json)) : bool :=
         match x, y with
         | [], [] => true
         | (k1, p) :: x', (k2, q) :: y' => zlist_eqb k1 k2 && json_eqb p q && go x' y'
         | _, _ => false
         end) x y
  | _, _ => false
  end.

Definition sval_eqb (a b : sval) : bool :=
  match a, b with
  | SNull, SNull | SNegInf, SNegInf | SPosInf, SPosInf | SNan, SNan => true
  | SBool x, SBool y => Bool.eqb x y
  | SInt x, SInt y | SFloat x, SFloat y | SDate x, SDate y | STime x, STime y
  | STimestamp x, STimestamp y => x =? y
  | SText x, SText y | SBlob x, SBlob y | SUuid x, SUuid y | SMac x, SMac y
  | SVector x, SVector y => zlist_eqb x y
  | STimestampTz x1 x2, STimestampTz y1 y2 | SEnum x1 x2, SEnum y1 y2 => (x1 =? y1) && (x2 =? y2)
  | SInterval x1 x2 x3, SInterval y1 y2 y3 => (x1 =? y1) && (x2 =? y2) && (x3 =? y3)
  | SInet f1 a1 p1, SInet f2 a2 p2 => Bool.eqb f1 f2 && zlist_eqb a1 a2 && (p1 =? p2)
  | SJson x, SJson y => json_eqb x y
  | _, _ => false
  end.

Definition opt_eqb (eqb : kval -> kval -> bool) (a b : option kval) : bool :=
  match a, b with
  | None, None => true
  | Some x, Some y => eqb x y
  | _, _ => false
  end.

Fixpoint kval_eqb (a b : kval) : bool :=
  match a, b with
  | KS x, KS y => sval_eqb x y
  | KArray x, KArray y | KTuple x, KTuple y =>
      (fix go (x y : list kval) : bool :=
         match x, y with
         | [], [] => true
         | p :: x', q :: y' => kval_eqb p q && go x' y'
         | _, _ => false
         end) x y
  | KRange l1 h1 a1 b1, KRange l2 h2 a2 b2 =>
      opt_eqb kval_eqb l1 l2 && opt_eqb kval_eqb h1 h2 && Bool.eqb a1 a2 && Bool.eqb b1 b2
  | KComposite t1 x, KComposite t2 y =>
      (t1 =? t2) &&
      (fix go (x y : list kval) : bool :=
         match x, y with
         | [], [] => true
         | p :: x', q :: y' => kval_eqb p q && go x' y'
         | _, _ => false
         end) x y
  | KDomain t1 x, KDomain t2 y => (t1 =? t2) && kval_eqb x y
  | _, _ => false
  end.
