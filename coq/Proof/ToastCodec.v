(* C11 proofs, part 1: the TOAST pointer / chunk-key codec and chunk ids (Model/Toast.v, Gen/Toast.v). *)
From Coq Require Import ZArith List Bool Lia ZifyBool.
From TV Require Import Lib.MachInt Lib.MachIntFacts Gen.Toast Model.Toast.
Import ListNotations.
Open Scope Z_scope.

Ltac Zify.zify_post_hook ::= Z.to_euclidean_division_equations.

Arguments Z.div : simpl never.
Arguments Z.modulo : simpl never.
Arguments Z.mul : simpl never.
Arguments Z.add : simpl never.
Arguments Z.sub : simpl never.
Arguments Z.pow : simpl never.
Arguments Z.leb : simpl never.
Arguments Z.ltb : simpl never.
Arguments Z.geb : simpl never.
Arguments Z.gtb : simpl never.
Arguments Z.eqb : simpl never.
Arguments Z.lor : simpl never.
Arguments Z.of_nat : simpl never.
Arguments wrap_u : simpl never.

(* ---------------------------------------------------------------- fixed-width byte strings *)
Lemma le_bytes_length n : forall v, length (le_bytes n v) = n.
Proof. induction n as [|n IH]; intros v; cbn [le_bytes length]; [reflexivity | now rewrite IH]. Qed.

Lemma be_bytes_length n v : length (be_bytes n v) = n.
Proof. induction n as [|n IH]; cbn [be_bytes length]; [reflexivity | now rewrite IH]. Qed.

Lemma pow256_pos n : 0 < 256 ^ Z.of_nat n.
Proof. apply Z.pow_pos_nonneg; lia. Qed.

Lemma pow256_S n : 256 ^ Z.of_nat (S n) = 256 * 256 ^ Z.of_nat n.
Proof. rewrite Nat2Z.inj_succ, Z.pow_succ_r by lia. reflexivity. Qed.

Lemma from_le_le_bytes n : forall v, from_le (le_bytes n v) = v mod 256 ^ Z.of_nat n.
Proof.
  induction n as [|n IH]; intros v.
  - cbn [le_bytes from_le]. change (256 ^ Z.of_nat 0) with 1. now rewrite Z.mod_1_r.
  - cbn [le_bytes from_le]. rewrite IH, pow256_S.
    pose proof (pow256_pos n) as Hp.
    rewrite (Z.rem_mul_r v 256 (256 ^ Z.of_nat n)) by lia. reflexivity.
Qed.

Lemma from_be_be_bytes n : forall v, from_be (be_bytes n v) = v mod 256 ^ Z.of_nat n.
Proof.
  induction n as [|n IH]; intros v.
  - cbn [be_bytes from_be]. change (256 ^ Z.of_nat 0) with 1. now rewrite Z.mod_1_r.
  - cbn [be_bytes from_be]. rewrite IH, be_bytes_length, pow256_S.
    pose proof (pow256_pos n) as Hp.
    rewrite (Z.mul_comm 256), (Z.rem_mul_r v (256 ^ Z.of_nat n) 256) by lia. lia.
Qed.

Lemma le8_roundtrip v : 0 <= v < 2 ^ 64 -> from_le (le_bytes 8 v) = v.
Proof. intros H. rewrite from_le_le_bytes. change (256 ^ Z.of_nat 8) with (2 ^ 64). now apply Z.mod_small. Qed.
Lemma be8_roundtrip v : 0 <= v < 2 ^ 64 -> from_be (be_bytes 8 v) = v.
Proof. intros H. rewrite from_be_be_bytes. change (256 ^ Z.of_nat 8) with (2 ^ 64). now apply Z.mod_small. Qed.
Lemma be4_roundtrip v : 0 <= v < 2 ^ 32 -> from_be (be_bytes 4 v) = v.
Proof. intros H. rewrite from_be_be_bytes. change (256 ^ Z.of_nat 4) with (2 ^ 32). now apply Z.mod_small. Qed.

Lemma firstn_app_exact {A} (a b : list A) n : length a = n -> firstn n (a ++ b) = a.
Proof. intros <-. rewrite firstn_app, Nat.sub_diag, firstn_all. cbn. now rewrite app_nil_r. Qed.
Lemma skipn_app_exact {A} (a b : list A) n : length a = n -> skipn n (a ++ b) = b.
Proof. intros <-. rewrite skipn_app, Nat.sub_diag, skipn_all. reflexivity. Qed.

Lemma bslice_mid (p a q : list Z) lo hi :
  Z.of_nat (length p) = lo -> Z.of_nat (length a) = hi - lo -> bslice (p ++ a ++ q) lo hi = a.
Proof.
  intros Hp Ha. subst lo. unfold bslice. rewrite <- Ha, !Nat2Z.id.
  rewrite (skipn_app_exact p (a ++ q) (length p)) by reflexivity.
  now apply firstn_app_exact.
Qed.
Lemma bslice_mid0 (a q : list Z) hi : Z.of_nat (length a) = hi -> bslice (a ++ q) 0 hi = a.
Proof. intros H. apply (bslice_mid [] a q 0 hi); [reflexivity | lia]. Qed.
Lemma bslice_end (p a : list Z) lo hi :
  Z.of_nat (length p) = lo -> Z.of_nat (length a) = hi - lo -> bslice (p ++ a) lo hi = a.
Proof. intros Hp Ha. rewrite <- (app_nil_r a) at 1. now apply bslice_mid. Qed.

(* ---------------------------------------------------------------- ToastPointer *)
Lemma ptr_encode_length total cid : blen (ptr_encode total cid) = 17.
Proof. unfold ptr_encode, blen. cbn [length]. rewrite app_length, !le_bytes_length. reflexivity. Qed.

Lemma ptr_encode_is_pointer total cid : is_toast_pointer (ptr_encode total cid) = true.
Proof.
  unfold is_toast_pointer. rewrite ptr_encode_length. unfold ptr_encode, bidx. cbn [Z.to_nat nth]. reflexivity.
Qed.

Lemma ptr_decode_encode total cid :
  0 <= total < 2 ^ 64 -> 0 <= cid < 2 ^ 64 -> ptr_decode (ptr_encode total cid) = Some (total, cid).
Proof.
  intros Ht Hc. unfold ptr_decode. rewrite ptr_encode_length.
  change (17 >=? TOAST_POINTER_SIZE) with true. cbv iota.
  unfold ptr_encode at 1. unfold bidx. cbn [Z.to_nat nth]. change (TOAST_MARKER =? TOAST_MARKER) with true. cbv iota.
  unfold ptr_encode.
  change (TOAST_MARKER :: le_bytes 8 total ++ le_bytes 8 cid) with ([TOAST_MARKER] ++ le_bytes 8 total ++ le_bytes 8 cid).
  rewrite (bslice_mid [TOAST_MARKER] (le_bytes 8 total) (le_bytes 8 cid) 1 9) by (rewrite ?le_bytes_length; reflexivity).
  rewrite app_assoc.
  rewrite (bslice_end ([TOAST_MARKER] ++ le_bytes 8 total) (le_bytes 8 cid) 9 17)
    by (rewrite ?app_length, ?le_bytes_length; reflexivity).
  now rewrite !le8_roundtrip.
Qed.

(* a pointer is only ever taken apart after is_toast_pointer said yes; then decode cannot fail *)
Lemma is_pointer_decodes b : is_toast_pointer b = true -> exists total cid, ptr_decode b = Some (total, cid).
Proof.
  unfold is_toast_pointer, ptr_decode. intros H. apply andb_true_iff in H as [H1 H2].
  apply Z.eqb_eq in H1. rewrite H1. change (TOAST_POINTER_SIZE >=? TOAST_POINTER_SIZE) with true. cbv iota.
  rewrite H2. eauto.
Qed.

(* ---------------------------------------------------------------- chunk keys *)
Lemma chunk_key_length cid seq : blen (make_chunk_key cid seq) = 12.
Proof. unfold make_chunk_key, blen. rewrite app_length, !be_bytes_length. reflexivity. Qed.

Lemma parse_make_chunk_key cid seq :
  0 <= cid < 2 ^ 64 -> 0 <= seq < 2 ^ 32 -> parse_chunk_key (make_chunk_key cid seq) = Some (cid, seq).
Proof.
  intros Hc Hs. unfold parse_chunk_key. rewrite chunk_key_length. change (12 >=? 12) with true. cbv iota.
  unfold make_chunk_key.
  rewrite (bslice_mid0 (be_bytes 8 cid) (be_bytes 4 seq) 8) by (rewrite be_bytes_length; reflexivity).
  rewrite (bslice_end (be_bytes 8 cid) (be_bytes 4 seq) 8 12) by (rewrite !be_bytes_length; reflexivity).
  now rewrite be8_roundtrip, be4_roundtrip.
Qed.

Lemma parse_chunk_key_safe_make cid seq : parse_chunk_key_safe (make_chunk_key cid seq) = true.
Proof.
  unfold parse_chunk_key_safe. rewrite chunk_key_length. change (12 >=? 12) with true. cbv iota.
  unfold bslice_ok. rewrite chunk_key_length.
  unfold make_chunk_key.
  rewrite (bslice_mid0 (be_bytes 8 cid) (be_bytes 4 seq) 8) by (rewrite be_bytes_length; reflexivity).
  rewrite (bslice_end (be_bytes 8 cid) (be_bytes 4 seq) 8 12) by (rewrite !be_bytes_length; reflexivity).
  unfold blen. rewrite !be_bytes_length. reflexivity.
Qed.

(* the map from (chunk_id, chunk_seq) to keys is injective: the pair-keyed map of the model is the B-tree *)
Lemma chunk_key_injective cid seq cid' seq' :
  0 <= cid < 2 ^ 64 -> 0 <= seq < 2 ^ 32 -> 0 <= cid' < 2 ^ 64 -> 0 <= seq' < 2 ^ 32 ->
  make_chunk_key cid seq = make_chunk_key cid' seq' -> cid = cid' /\ seq = seq'.
Proof.
  intros H1 H2 H3 H4 E.
  pose proof (parse_make_chunk_key cid seq H1 H2) as P. rewrite E, parse_make_chunk_key in P by assumption.
  inversion P. auto.
Qed.

(* memcmp order on big-endian strings of one width is the numeric order *)
Lemma be_bytes_lt n : forall x y,
  x mod 256 ^ Z.of_nat n < y mod 256 ^ Z.of_nat n -> lex_lt (be_bytes n x) (be_bytes n y) = true.
Proof.
  induction n as [|n IH]; intros x y H.
  - change (256 ^ Z.of_nat 0) with 1 in H. rewrite !Z.mod_1_r in H. lia.
  - cbn [be_bytes lex_lt]. rewrite pow256_S in H. pose proof (pow256_pos n) as Hp.
    rewrite (Z.mul_comm 256) in H.
    rewrite (Z.rem_mul_r x (256 ^ Z.of_nat n) 256), (Z.rem_mul_r y (256 ^ Z.of_nat n) 256) in H by lia.
    set (hx := (x / 256 ^ Z.of_nat n) mod 256) in *. set (hy := (y / 256 ^ Z.of_nat n) mod 256) in *.
    pose proof (Z.mod_pos_bound x (256 ^ Z.of_nat n) Hp) as Bx.
    pose proof (Z.mod_pos_bound y (256 ^ Z.of_nat n) Hp) as By.
    set (lx := x mod 256 ^ Z.of_nat n) in *. set (ly := y mod 256 ^ Z.of_nat n) in *.
    set (P := 256 ^ Z.of_nat n) in *.
    destruct (Z.ltb_spec hx hy) as [L|L]; [reflexivity|].
    cbn [orb]. assert (hx = hy) as E by nia. rewrite E, Z.eqb_refl. cbn [andb].
    apply IH. fold P. fold lx ly. rewrite E in H. nia.
Qed.

Lemma lex_lt_same_prefix p : forall a b, lex_lt (p ++ a) (p ++ b) = lex_lt a b.
Proof.
  induction p as [|x p IH]; intros a b; [reflexivity|].
  cbn [app lex_lt]. rewrite Z.ltb_irrefl, Z.eqb_refl. cbn [orb andb]. apply IH.
Qed.

Lemma lex_lt_prefix_lt : forall a b c d, length a = length b -> lex_lt a b = true -> lex_lt (a ++ c) (b ++ d) = true.
Proof.
  induction a as [|x a IH]; intros [|y b] c d L H; cbn in L; try discriminate; try (cbn in H; discriminate).
  cbn [app lex_lt] in *. apply orb_true_iff in H as [H|H]; [rewrite H; reflexivity|].
  apply andb_true_iff in H as [E H]. rewrite E, (IH b c d) by (auto; lia). now rewrite orb_true_r.
Qed.

(* keys are ordered like the pairs (chunk_id, chunk_seq): the chunks of one value are adjacent and in
   sequence order in the B-tree, and distinct *)
Lemma chunk_keys_sorted cid seq cid' seq' :
  0 <= cid < 2 ^ 64 -> 0 <= seq < 2 ^ 32 -> 0 <= cid' < 2 ^ 64 -> 0 <= seq' < 2 ^ 32 ->
  (cid < cid' \/ (cid = cid' /\ seq < seq')) ->
  lex_lt (make_chunk_key cid seq) (make_chunk_key cid' seq') = true.
Proof.
  intros H1 H2 H3 H4 [L|[E L]]; unfold make_chunk_key.
  - apply lex_lt_prefix_lt; [now rewrite !be_bytes_length|].
    apply be_bytes_lt. change (256 ^ Z.of_nat 8) with (2 ^ 64). rewrite !Z.mod_small by lia. exact L.
  - subst cid'. rewrite lex_lt_same_prefix. apply be_bytes_lt.
    change (256 ^ Z.of_nat 4) with (2 ^ 32). rewrite !Z.mod_small by lia. exact L.
Qed.

Lemma lex_lt_irrefl a : lex_lt a a = false.
Proof. induction a as [|x a IH]; [reflexivity|]. cbn [lex_lt]. now rewrite Z.ltb_irrefl, Z.eqb_refl, IH. Qed.

(* ---------------------------------------------------------------- chunk ids *)
Lemma testbit_small a n i : 0 <= a < 2 ^ n -> n <= i -> Z.testbit a i = false.
Proof.
  intros Ha Hi. destruct (Z.eq_dec a 0) as [->|Hz]; [apply Z.bits_0|].
  apply Z.bits_above_log2; [lia|]. assert (Z.log2 a < n) by (apply Z.log2_lt_pow2; lia). lia.
Qed.

Lemma lor_shifted a b n : 0 <= n -> 0 <= a -> 0 <= b < 2 ^ n -> Z.lor (a * 2 ^ n) b = a * 2 ^ n + b.
Proof.
  intros Hn Ha Hb.
  assert (Z.land (a * 2 ^ n) b = 0) as L.
  { apply Z.bits_inj'. intros i Hi. rewrite Z.land_spec, Z.bits_0.
    destruct (Z.lt_ge_cases i n) as [Lt|Ge].
    - rewrite Z.mul_pow2_bits_low by lia. reflexivity.
    - rewrite (testbit_small b n i) by lia. apply andb_false_r. }
  rewrite <- Z.lxor_lor by exact L. symmetry. apply Z.add_nocarry_lxor. exact L.
Qed.

Lemma lor_bound a b n : 0 <= n -> 0 <= a < 2 ^ n -> 0 <= b < 2 ^ n -> 0 <= Z.lor a b < 2 ^ n.
Proof.
  intros Hn Ha Hb.
  assert (Z.lor a b mod 2 ^ n = Z.lor a b) as E.
  { apply Z.bits_inj'. intros i Hi. destruct (Z.lt_ge_cases i n) as [Lt|Ge].
    - now rewrite Z.mod_pow2_bits_low by lia.
    - rewrite Z.mod_pow2_bits_high by lia. rewrite Z.lor_spec, (testbit_small a n i), (testbit_small b n i) by lia. reflexivity. }
  rewrite <- E. apply Z.mod_pos_bound. apply Z.pow_pos_nonneg; lia.
Qed.

Lemma chunk_id_of_sum rid col : 0 <= rid < 2 ^ 48 -> 0 <= col < 2 ^ 16 -> chunk_id_of rid col = col * 2 ^ 48 + rid.
Proof.
  intros Hr Hc. unfold chunk_id_of. rewrite wrap_u_small by (change (2 ^ 64) with (2 ^ 16 * 2 ^ 48); nia).
  apply lor_shifted; lia.
Qed.

Lemma chunk_id_of_bound rid col : 0 <= rid < 2 ^ 64 -> 0 <= chunk_id_of rid col < 2 ^ 64.
Proof.
  intros Hr. unfold chunk_id_of. apply lor_bound; [lia| |exact Hr].
  unfold wrap_u. apply Z.mod_pos_bound. reflexivity.
Qed.

(* row_id() and column_index() of the pointer made by new(row_id, column_index, _) *)
Lemma chunk_id_fields rid col total :
  0 <= rid < 2 ^ 48 -> 0 <= col < 2 ^ 16 ->
  ptr_row_id total (chunk_id_of rid col) = rid /\ ptr_column_index total (chunk_id_of rid col) = col.
Proof.
  intros Hr Hc. rewrite chunk_id_of_sum by assumption. unfold ptr_row_id, ptr_column_index.
  change 281474976710656 with (2 ^ 48). split.
  - rewrite Z.add_comm, Z.mod_add by lia. apply Z.mod_small. exact Hr.
  - rewrite Z.add_comm, Z.div_add by lia. rewrite (Z.div_small rid) by lia. now rewrite Z.add_0_l, wrap_u_small.
Qed.

Lemma chunk_id_injective_l rid col rid' col' :
  0 <= rid < 2 ^ 48 -> 0 <= col < 2 ^ 16 -> 0 <= rid' < 2 ^ 48 -> 0 <= col' < 2 ^ 16 ->
  chunk_id_of rid col = chunk_id_of rid' col' -> rid = rid' /\ col = col'.
Proof.
  intros H1 H2 H3 H4 E.
  destruct (chunk_id_fields rid col 0 H1 H2) as [A B]. destruct (chunk_id_fields rid' col' 0 H3 H4) as [A' B'].
  rewrite E in A, B. split; congruence.
Qed.

(* ... and what delete_toast_chunks rebuilds from a decoded pointer is the chunk id it held *)
Lemma chunk_id_rebuild total cid : 0 <= cid < 2 ^ 64 ->
  chunk_id_of (ptr_row_id total cid) (ptr_column_index total cid) = cid.
Proof.
  intros Hc. unfold ptr_row_id, ptr_column_index. change 281474976710656 with (2 ^ 48).
  assert (0 <= cid / 2 ^ 48 < 2 ^ 16) as Hq by (change (2 ^ 64) with (2 ^ 48 * 2 ^ 16) in Hc; split; [apply Z.div_pos; lia | apply Z.div_lt_upper_bound; lia]).
  rewrite (wrap_u_small 16) by exact Hq.
  rewrite chunk_id_of_sum by (try exact Hq; apply Z.mod_pos_bound; lia).
  pose proof (Z.div_mod cid (2 ^ 48)). lia.
Qed.

(* beyond 2^48 rows the row id runs into the column bits: chunk ids collide *)
Lemma chunk_id_refuted_l : chunk_id_of (2 ^ 48) 0 = chunk_id_of 0 1 /\ ptr_row_id 0 (chunk_id_of (2 ^ 48 + 5) 0) = 5.
Proof. vm_compute. split; reflexivity. Qed.

(* ---------------------------------------------------------------- thresholds *)
Lemma needs_toast_iff d : needs_toast d = true <-> 1000 < blen d.
Proof. unfold needs_toast. change TOAST_THRESHOLD with 1000. lia. Qed.

Lemma chunk_count_spec n : 0 <= n -> (chunk_count n - 1) * 4000 < n <= chunk_count n * 4000.
Proof. intros H. unfold chunk_count. change TOAST_CHUNK_SIZE with 4000. lia. Qed.

(* ---------------------------------------------------------------- packaged for Props/C11.v *)
Lemma pointer_roundtrip_l :
  forall total cid, 0 <= total < 2 ^ 64 -> 0 <= cid < 2 ^ 64 ->
    ptr_decode (ptr_encode total cid) = Some (total, cid) /\
    is_toast_pointer (ptr_encode total cid) = true /\ blen (ptr_encode total cid) = 17.
Proof. intros. split; [now apply ptr_decode_encode | split; [apply ptr_encode_is_pointer | apply ptr_encode_length]]. Qed.

Lemma chunk_key_roundtrip_l :
  forall cid seq, 0 <= cid < 2 ^ 64 -> 0 <= seq < 2 ^ 32 ->
    parse_chunk_key (make_chunk_key cid seq) = Some (cid, seq) /\ parse_chunk_key_safe (make_chunk_key cid seq) = true.
Proof. intros. split; [now apply parse_make_chunk_key | apply parse_chunk_key_safe_make]. Qed.
