#!/bin/sh
# Build the framework from files on disk only (offline): regenerate coq/Gen from /repo,
# full .vo build of the Rocq development, cargo build of the harness binaries of the claimed
# properties against /repo with hooks on.  Work in progress of unclaimed properties must
# never make the setup fail: every step is best effort, the checks themselves rebuild and
# report what is broken.
cd "$(dirname "$0")/.." || exit 2
export CARGO_NET_OFFLINE=true
mkdir -p build evidence replay
python3 tools/rs2v.py "${VERIF_REPO:-/repo}" || echo "setup: translator reported a failure (checks will report it)"
( cd coq && python3 ../tools/mkcoqproject.py && coq_makefile -f _CoqProject -o Makefile && timeout 5400 make -j16 -k ) > build/setup_coq.log 2>&1 || echo "setup: some Coq files failed to build (checks will report it; log: build/setup_coq.log)"
cd harness || exit 0
[ -f Cargo.lock ] || cp "${VERIF_REPO:-/repo}/Cargo.lock" Cargo.lock
for p in $(grep -v '^#' ../tools/enabled.txt | tr 'A-Z' 'a-z'); do
  cargo build --offline --bin "$p" > ../build/setup_cargo_$p.log 2>&1 || echo "setup: harness binary $p failed to build (its check will report it)"
done
exit 0
