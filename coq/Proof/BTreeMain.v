(* C28 proofs, part 11: every operation of the handle, and every history, refines the ordered map. *)
From Coq Require Import ZArith List Bool Lia Sorting.Permutation Sorting.Sorted.
From TV Require Import Lib.MachInt Gen.Varint Model.BTree Model.BTreeSpec Model.BTreeInv
  Proof.BTreeOrder Proof.BTreeInv Proof.BTreeLeaf Proof.BTreeLeafIns Proof.BTreeNode Proof.BTreeIns
  Proof.BTreeDel Proof.BTreeScan Proof.BTreeBwd Proof.BTreeTop.
Import ListNotations.
Open Scope Z_scope.
Arguments Z.sub : simpl never.
Arguments Z.add : simpl never.
Arguments Z.mul : simpl never.
Arguments Z.of_nat : simpl never.

Section M.
Variable V : Type.
Variable vlen : V -> Z.
Variable veqb : V -> V -> bool.
Hypothesis vlen_nonneg : forall v, 0 <= vlen v.
Hypothesis veqb_refl : forall v, veqb v v = true.
Notation entry := (entry V).
Notation tree := (tree V).
Notation state := (state V).
Notation op := (op V).
Notation out := (out V).
Notation bounded := (bounded V vlen).
Notation Inv := (Inv V vlen).
Notation abs := (abs V).
Notation abs_of := (abs_of V).
Notation keys := (keys V).
Notation step := (step V vlen).
Notation run := (run V vlen).
Notation spec_check := (spec_check V vlen veqb).
Notation expect := (expect V veqb).

Lemma entries_eqb_refl (l : list entry) : entries_eqb V veqb l l = true.
Proof.
  induction l as [|x l IH]; [reflexivity|]. cbn [entries_eqb]. rewrite IH. unfold entry_eqb, keqb.
  rewrite kcmp_refl, veqb_refl. reflexivity.
Qed.
Lemma out_eqb_refl (r : out) : out_eqb V veqb r r = true.
Proof.
  destruct r as [| b | b | o | l | |]; cbn [out_eqb]; try reflexivity; try (destruct b; reflexivity).
  - destruct o; cbn; [apply veqb_refl | reflexivity].
  - apply entries_eqb_refl.
Qed.
Lemma expect_same (r : out) m' : expect r r m' = SOk m'.
Proof. unfold BTreeSpec.expect. rewrite out_eqb_refl. reflexivity. Qed.

Lemma Inv_sorted (s : state) : Inv s -> ssorted V (abs_of s).
Proof. intros H. exact (abs_sorted V vlen _ _ _ _ H). Qed.

(* every in-scope operation from a well-formed tree is regular and returns what an ordered map returns *)
Definition step_post (s : state) (o : op) : Prop :=
  match spec_check (abs_of s) o (snd (fst (step s o))) with
  | SOk m' => snd (step s o) = 0 /\ m' = abs_of (fst (fst (step s o))) /\ Inv (fst (fst (step s o)))
  | SBad => False
  | SOut => True
  end.

Lemma refusal_ok_of (e : entry) (m : list entry) : (exists c, In c (e :: m) /\ ~ half_okP V vlen c) -> refusal_ok V vlen e m = true.
Proof.
  intros (c & Hc & Hbig). unfold refusal_ok. assert (Hb : half_ok V vlen c = false).
  { unfold half_ok. apply Z.leb_gt. unfold half_okP in Hbig. lia. }
  destruct Hc as [<- | Hc]; [rewrite Hb; reflexivity|]. apply orb_true_iff. right. apply existsb_exists. exists c. split; [exact Hc|]. rewrite Hb. reflexivity.
Qed.

Lemma ins_res_spec m (s : state) (e : entry) res :
  Inv s -> ins_res_ok V vlen m s e res ->
  match (match om_get V (fst e) (abs_of s) with
         | Some _ => expect (snd (fst res)) (dup_out V m) (abs_of s)
         | None => expect_ins V vlen veqb (snd (fst res)) (ok_out V m) e (abs_of s)
         end) with
  | SOk m' => snd res = 0 /\ m' = abs_of (fst (fst res)) /\ Inv (fst (fst res))
  | SBad => False
  | SOut => True
  end.
Proof.
  intros HI [Hf [HI' Hc]].
  - pose proof (Inv_sorted s HI) as Hs. pose proof (Inv_sorted _ HI') as Hs'.
    destruct Hc as [(Hin & Ha & Hr) | [(Hp & Hr) | (Ha & Hr & Habsent & Hbig)]].
    + destruct (om_get V (fst e) (abs_of s)) eqn:E; [|apply om_get_none in E; contradiction].
      rewrite Hr, expect_same. repeat split; [exact Hf | symmetry; exact Ha | exact HI'].
    + destruct (om_ins_unique V e _ _ Hs Hs' Hp) as [Hu Hn]. apply om_get_none in Hn. rewrite Hn, Hr.
      assert (Hx : expect_ins V vlen veqb (ok_out V m) (ok_out V m) e (abs_of s) = SOk (om_ins V e (abs_of s))).
      { destruct m; cbn [ok_out BTreeSpec.expect_ins]; apply expect_same. }
      rewrite Hx. repeat split; [exact Hf | symmetry; exact Hu | exact HI'].
    + apply om_get_none in Habsent. rewrite Habsent, Hr. cbn [BTreeSpec.expect_ins]. rewrite (refusal_ok_of e _ Hbig).
      repeat split; [exact Hf | symmetry; exact Ha | exact HI'].
Qed.

Lemma fits_cell (e : entry) : fits_page V vlen e = true -> cell_fits V vlen e.
Proof. unfold fits_page, cell_fits. apply Z.leb_le. Qed.

Ltac norm s := change (BTree.abs V (depth V (root s)) (root s)) with (BTree.abs_of V s) in *.

Lemma step_ok (s : state) (o : op) : Inv s -> step_post s o.
Proof.
  intros HI. pose proof (Inv_sorted s HI) as Hs. assert (HB : bounded (depth V (root s)) None None (root s)) by exact HI.
  unfold step_post. destruct o as [k v | k v | k v | k v | k | k | lim | lim | k lim | hh].
  - (* insert *)
    cbn [BTree.step BTreeSpec.spec_check] in *. destruct (fits_page V vlen (k, v)) eqn:Ef; cbn [negb]; [|exact I].
    exact (ins_res_spec MInsert s (k, v) _ HI (op_insert_ok V vlen vlen_nonneg MInsert s (k, v) HI (fits_cell _ Ef) ltac:(discriminate))).
  - (* insert_if_not_exists *)
    cbn [BTree.step BTreeSpec.spec_check] in *. destruct (fits_page V vlen (k, v)) eqn:Ef; cbn [negb]; [|exact I].
    exact (ins_res_spec MIine s (k, v) _ HI (op_insert_ok V vlen vlen_nonneg MIine s (k, v) HI (fits_cell _ Ef) ltac:(discriminate))).
  - (* insert_append *)
    cbn [BTree.step BTreeSpec.spec_check] in *. destruct (fits_page V vlen (k, v)) eqn:Ef; cbn [negb orb]; [|exact I].
    destruct (om_all_lt V k (abs_of s)) eqn:Eall; [|exact I]. cbn [negb].
    pose proof (proj1 (om_all_lt_spec V _ _) Eall) as Hall.
    pose proof (ins_res_spec MAppend s (k, v) _ HI (op_insert_ok V vlen vlen_nonneg MAppend s (k, v) HI (fits_cell _ Ef) (fun _ => Hall))) as H1.
    cbn [fst] in H1. destruct (om_get V k (abs_of s)) as [old|] eqn:Eg; [|exact H1].
    exfalso. apply om_get_some_key in Eg. apply in_map_iff in Eg as (x & Hx & Hxin). specialize (Hall _ Hxin). rewrite Hx in Hall. exact (klt_irrefl _ Hall).
  - (* update *)
    cbn [BTree.step BTreeSpec.spec_check] in *. destruct (negb (fits_page V vlen (k, v))); [exact I|].
    pose proof (upd_ok V vlen vlen_nonneg _ (root s) k v None None HB I I) as Hu.
    destruct (upd V vlen (depth V (root s)) (root s) k v) as [t b | t | er]; cbn [fst snd BTreeDel.ures_ok] in *; try contradiction.
    destruct b.
    + destruct Hu as [Hb (old & rest & P1 & P2)].
      pose proof (abs_sorted V vlen _ _ _ _ Hb) as Hs'.
      destruct (om_upd_unique V _ _ _ k v old Hs Hs' P1 P2) as [Hu1 Hu2]. rewrite Hu2.
      split; [reflexivity|]. split; [rewrite (abs_of_bounded V vlen _ _ _ _ Hb); symmetry; exact Hu1 | eapply Inv_of_bounded; exact Hb].
    + destruct Hu as (Hb & P & Hgrow). pose proof (abs_sorted V vlen _ _ _ _ Hb) as Hs'.
      assert (Ha : abs_of (mkState t (npages s) (hint s)) = abs_of s).
      { rewrite (abs_of_bounded V vlen _ _ _ _ Hb). apply ssorted_perm_eq; assumption. }
      destruct (om_get V k (abs_of s)) as [old|] eqn:Eg.
      * apply om_get_in in Eg; [|exact Hs]. specialize (Hgrow _ Eg). destruct (Z.ltb_spec (vlen old) (vlen v)); [|lia].
        split; [reflexivity|]. split; [symmetry; exact Ha | eapply Inv_of_bounded; exact Hb].
      * rewrite expect_same. split; [reflexivity|]. split; [symmetry; exact Ha | eapply Inv_of_bounded; exact Hb].
  - (* delete *)
    cbn [BTree.step BTreeSpec.spec_check] in *.
    pose proof (del_ok V vlen vlen_nonneg _ (root s) k None None HB I I) as Hd.
    destruct (del V vlen (depth V (root s)) (root s) k) as [t | | er]; cbn [fst snd BTreeDel.dres_ok] in *; try contradiction.
    + destruct Hd as [Hb (v & P)]. pose proof (abs_sorted V vlen _ _ _ _ Hb) as Hs'.
      destruct (om_del_unique V _ _ k v Hs Hs' P) as [H1 H2]. norm s. rewrite H2, expect_same.
      split; [reflexivity|]. split; [rewrite (abs_of_bounded V vlen _ _ _ _ Hb); symmetry; exact H1 | eapply Inv_of_bounded; exact Hb].
    + apply om_get_none in Hd. norm s. rewrite Hd, expect_same. split; [reflexivity|]. split; [reflexivity | exact HI].
  - (* get *)
    cbn [BTree.step BTreeSpec.spec_check] in *.
    destruct (get_ok V vlen _ None None (root s) k HB I I) as (l & Hr & Hg). rewrite Hr in *. cbn [fst snd].
    rewrite Hg. norm s. rewrite expect_same. split; [reflexivity|]. split; [reflexivity | exact HI].
  - (* forward scan *)
    cbn [BTree.step BTreeSpec.spec_check fst snd] in *. rewrite (fwd_ok V vlen _ None None (root s) HB). norm s. rewrite expect_same.
    split; [reflexivity|]. split; [reflexivity | exact HI].
  - (* backward scan *)
    cbn [BTree.step BTreeSpec.spec_check] in *. pose proof (bwd_ok V vlen _ None None (root s) HB) as Hbw.
    destruct (if lempty V (last_leaf V (root s)) then rnl V (depth V (root s)) (root s) else Some (last_leaf V (root s))) as [l|].
    + rewrite Hbw. cbn [fst snd]. change (0 =? 2) with false. change (0 =? 0) with true. cbn iota. norm s. rewrite expect_same.
      split; [reflexivity|]. split; [reflexivity | exact HI].
    + cbn [fst snd]. norm s. rewrite Hbw. cbn [rev]. rewrite firstn_nil, expect_same. split; [reflexivity|]. split; [reflexivity | exact HI].
  - (* seek scan *)
    cbn [BTree.step BTreeSpec.spec_check fst snd] in *.
    pose proof (seek_ok V vlen _ None None (root s) k HB I I) as Hsk. cbv zeta in Hsk. rewrite Hsk. norm s. rewrite expect_same.
    split; [reflexivity|]. split; [reflexivity | exact HI].
  - (* reopen *)
    cbn [BTree.step BTreeSpec.spec_check fst snd]. rewrite expect_same. split; [reflexivity|]. split; [reflexivity | exact HI].
Qed.

Lemma run_refines_l : forall (ops : list op) (s : state), Inv s ->
  spec_run V vlen veqb (abs_of s) (combine ops (map fst (fst (run s ops)))) = true.
Proof.
  induction ops as [|o r IH]; intros s HI; [reflexivity|]. cbn [BTree.run] in *.
  pose proof (step_ok s o HI) as Hst. unfold step_post in Hst.
  destruct (step s o) as [[s' ot] f] eqn:Es. destruct (run s' r) as [res sf] eqn:Er. cbn [fst snd map combine BTreeSpec.spec_run] in *.
  destruct (spec_check (abs_of s) o ot) as [m' | |]; [|contradiction | reflexivity].
  destruct Hst as (_ & -> & HI'). specialize (IH s' HI'). rewrite Er in IH. cbn [fst] in IH. exact IH.
Qed.

Lemma run_final_l : forall (ops : list op) (s : state) mf, Inv s ->
  spec_final V vlen veqb (abs_of s) (combine ops (map fst (fst (run s ops)))) = Some mf ->
  Inv (snd (run s ops)) /\ abs_of (snd (run s ops)) = mf /\ all_clear V (fst (run s ops)) = true.
Proof.
  induction ops as [|o r IH]; intros s mf HI Hfin.
  - cbn in *. injection Hfin as <-. split; [exact HI | split; reflexivity].
  - cbn [BTree.run] in *. pose proof (step_ok s o HI) as Hst. unfold step_post in Hst.
    destruct (step s o) as [[s' ot] f] eqn:Es. destruct (run s' r) as [res sf] eqn:Er. cbn [fst snd map combine all_clear forallb BTreeSpec.spec_final] in *.
    destruct (spec_check (abs_of s) o ot) as [m' | |]; [|discriminate | discriminate].
    destruct Hst as (-> & -> & HI'). specialize (IH s' mf HI'). rewrite Er in IH. cbn [fst snd] in IH.
    destruct (IH Hfin) as (I1 & I2 & I3). split; [exact I1|]. split; [exact I2|]. unfold all_clear in *. cbn [forallb snd]. rewrite I3. reflexivity.
Qed.

(* the empty tree BTree::create makes *)
Lemma init_inv rootpg np : Inv (init_state V rootpg np) /\ abs_of (init_state V rootpg np) = [].
Proof.
  split; [|reflexivity]. unfold BTreeInv.Inv, init_state. cbn [root depth BTreeInv.bounded]. unfold BTreeInv.leaf_ok. cbn [lcells].
  split; [constructor|]. split; [constructor|]. unfold leaf_sizes, BTree.lcount. cbn [lcells lfe lfrag length map]. unfold sumz, LEAF_START, SLOT, PAGE. cbn.
  repeat split; lia.
Qed.

End M.
