(* C41: the regenerated converters against the calendar Spec.
   Pattern: (1) each converter is 400-year periodic (symbolic, lia); (2) one full 400-year
   cycle is checked by computation inside the kernel (vm_compute over every date of the
   cycle); (3) lift_400 extends to every year >= 1.  Overflow-freedom is symbolic. *)
From Coq Require Import ZArith List Bool Lia ZifyBool.
From TV Require Import Lib.MachInt Lib.MachIntFacts Model.Calendar Model.CalendarImpl Proof.CalendarBase.
From TV Require Gen.CalLiteral Gen.CalDefault Gen.CalFunc.
Import ListNotations.
Open Scope Z_scope.

Ltac Zify.zify_post_hook ::= Z.to_euclidean_division_equations.

Lemma wrap_s32_small x : - 2147483648 <= x < 2147483648 -> wrap_s 32 x = x.
Proof. intros H. unfold wrap_s. change (2 ^ (32 - 1)) with 2147483648. change (2 ^ 32) with 4294967296. lia. Qed.
Lemma wrap_u32_small x : 0 <= x < 4294967296 -> wrap_u 32 x = x.
Proof. intros H. unfold wrap_u. change (2 ^ 32) with 4294967296. lia. Qed.
Lemma in_s32 x : in_s 32 x = true <-> - 2147483648 <= x < 2147483648.
Proof. unfold in_s. change (2 ^ (32 - 1)) with 2147483648. lia. Qed.
Lemma in_s64 x : in_s 64 x = true <-> - 9223372036854775808 <= x < 9223372036854775808.
Proof. unfold in_s. change (2 ^ (64 - 1)) with 9223372036854775808. lia. Qed.
Lemma in_u32 x : in_u 32 x = true <-> 0 <= x < 4294967296.
Proof. unfold in_u. change (2 ^ 32) with 4294967296. lia. Qed.

(* ------------------------------------------------------------------ DEFAULT converter *)
Lemma default_400 y m d : 1 <= y -> 1 <= m <= 12 -> 1 <= d <= 31 ->
  CalDefault.days_from_ymd (y + 400) m d = CalDefault.days_from_ymd y m d + 146097.
Proof.
  intros Hy Hm Hd. unfold CalDefault.days_from_ymd, rdiv.
  rewrite !wrap_s32_small by lia. cbv zeta. lia.
Qed.

Lemma default_safe y m d : 1 <= y <= 9999 -> 1 <= m <= 12 -> 1 <= d <= 31 ->
  CalDefault.days_from_ymd_safe y m d = true.
Proof.
  intros Hy Hm Hd. unfold CalDefault.days_from_ymd_safe, rdiv.
  rewrite !wrap_s32_small by lia. cbv zeta.
  repeat rewrite andb_true_iff. rewrite ?in_s32.
  repeat split; lia.
Qed.

Definition v_default (y m d : Z) : bool := CalDefault.days_from_ymd y m d =? epoch_fast y m d.

Lemma sweep_default : all_dates v_default 1 400 = true.
Proof. vm_compute. reflexivity. Qed.

Lemma valid_ranges y m d : valid_date y m d = true -> 1 <= m <= 12 /\ 1 <= d <= 31.
Proof.
  unfold valid_date, dim. intros H.
  repeat match goal with H : context [if ?c then _ else _] |- _ => destruct c end; lia.
Qed.

Lemma default_fast y : 1 <= y -> forall m d, valid_date y m d = true ->
  CalDefault.days_from_ymd y m d = epoch_fast y m d.
Proof.
  revert y. apply (lift_400 (fun y => forall m d, valid_date y m d = true ->
     CalDefault.days_from_ymd y m d = epoch_fast y m d)).
  - intros y Hy m d Hv. pose proof (all_dates_lift _ _ _ sweep_default y m d Hy Hv) as H.
    unfold v_default in H. lia.
  - intros y Hy IH m d Hv. rewrite valid_date_400 in Hv.
    destruct (valid_ranges _ _ _ Hv) as [Hm Hd].
    rewrite default_400 by lia. rewrite (IH m d Hv). unfold epoch_fast. rewrite rata_fast_400. lia.
Qed.

Lemma default_days_correct_l y m d : 1 <= y <= 9999 -> valid_date y m d = true ->
  CalDefault.days_from_ymd y m d = epoch_days y m d /\ CalDefault.days_from_ymd_safe y m d = true.
Proof.
  intros Hy Hv. destruct (valid_ranges _ _ _ Hv) as [Hm Hd]. split.
  - rewrite default_fast by (lia || assumption). unfold epoch_fast, epoch_days.
    rewrite rata_1970, rata_fast_ok by lia. reflexivity.
  - apply default_safe; lia.
Qed.

(* ------------------------------------------------------------------ date-function helpers *)
Lemma func_leap y : 0 <= y -> CalFunc.is_leap_year y = is_leap y.
Proof.
  intros Hy. unfold CalFunc.is_leap_year, is_leap, rrem.
  rewrite !Z.rem_mod_nonneg by lia. reflexivity.
Qed.
Lemma func_dim y m : 0 <= y -> 1 <= m <= 12 -> CalFunc.days_in_month y m = dim y m.
Proof.
  intros Hy Hm. unfold CalFunc.days_in_month, dim. cbv zeta. rewrite func_leap by lia.
  repeat match goal with |- context [if ?c then _ else _] => destruct c eqn:? end; try reflexivity; lia.
Qed.

Lemma func_400 y m d : 1 <= y -> 1 <= m <= 12 -> 1 <= d <= 31 ->
  CalFunc.date_to_days (y + 400) m d = CalFunc.date_to_days y m d + 146097.
Proof.
  intros Hy Hm Hd. unfold CalFunc.date_to_days, rdiv. cbv zeta.
  destruct (m <=? 2) eqn:E; lia.
Qed.

Lemma func_safe y m d : 1 <= y <= 9999 -> 1 <= m <= 12 -> 1 <= d <= 31 ->
  CalFunc.date_to_days_safe y m d = true.
Proof.
  intros Hy Hm Hd. unfold CalFunc.date_to_days_safe, rdiv. cbv zeta.
  destruct (m <=? 2) eqn:E; repeat rewrite andb_true_iff; rewrite ?in_s64, ?in_u32; repeat split; lia.
Qed.

Definition v_func (y m d : Z) : bool := CalFunc.date_to_days y m d =? rata_fast y m d + func_offset.
Lemma sweep_func : all_dates v_func 1 400 = true.
Proof. vm_compute. reflexivity. Qed.

Lemma func_fast y : 1 <= y -> forall m d, valid_date y m d = true ->
  CalFunc.date_to_days y m d = rata_fast y m d + func_offset.
Proof.
  revert y. apply (lift_400 (fun y => forall m d, valid_date y m d = true ->
     CalFunc.date_to_days y m d = rata_fast y m d + func_offset)).
  - intros y Hy m d Hv. pose proof (all_dates_lift _ _ _ sweep_func y m d Hy Hv) as H.
    unfold v_func in H. lia.
  - intros y Hy IH m d Hv. rewrite valid_date_400 in Hv.
    destruct (valid_ranges _ _ _ Hv) as [Hm Hd].
    rewrite func_400 by lia. rewrite (IH m d Hv). rewrite rata_fast_400. lia.
Qed.

Lemma func_days_correct_l y m d : 1 <= y <= 9999 -> valid_date y m d = true ->
  CalFunc.date_to_days y m d = rata_die y m d + 1 /\ CalFunc.date_to_days_safe y m d = true.
Proof.
  intros Hy Hv. destruct (valid_ranges _ _ _ Hv) as [Hm Hd]. split.
  - rewrite func_fast by (lia || assumption). rewrite rata_fast_ok by lia. reflexivity.
  - apply func_safe; lia.
Qed.
