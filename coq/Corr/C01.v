(* C01 correspondence: harness/src/bin/c01.rs runs a workload on the real Database with the
   io_event hook installed, crashes it (on copies of the directory) at every event and after
   every statement in two ways (process kill / power loss), reopens each image with the real
   Database::open and prints, per workload, the physical trace of every statement and what
   every crash image looked like after recovery.  Here
     model_agrees : the protocol model (Model.Crash) emits the same io trace for every
                    statement, its side conditions hold on the workload, and for every crash
                    point recover (crash image of the model) = the pages / catalog the real
                    recovery produced;
     spec_ok      : the property itself on the rows that the real reopened database returned
                    (no model involved): every acknowledged write is there (C01);
     known_class  : 2 dirty pages not yet in the log (kill), 3 pages written behind the dirty
                    tracker (power).  Classes of repaired defects (witnesses are kept and must pass):
                    1 catalog file mid-rewrite (kill), 4 Database::checkpoint() truncating the log
                    without syncing the tables, 5 frames of a table whose id collides with a system
                    table's replayed into the wrong file (only 1 and 5 can still be computed).
   Evaluated by vm_compute; definitions only. *)
From Coq Require Import ZArith List Bool.
From TV Require Export Model.Crash.
Import ListNotations.
Open Scope Z_scope.

(* ------------------------------------------------------------------ what the harness prints *)
Inductive lop :=                      (* row-level meaning of a step *)
| LCreate (t : Z) | LIns (t k v : Z) | LUpd (t k v : Z) | LDel (t k : Z) | LBegin | LCommit | LNone.

(* plain constructors instead of tuples: coqc elaborates the case files several times faster *)
Inductive z2 := R2 (a b : Z).
Inductive z3 := R3 (a b c : Z).
Inductive ctab := CT (t : Z) (rows : option (list z2)).      (* None = unreadable or missing, else rows (id, v) sorted *)
Inductive cstep := CS (l : lop) (o : op) (ph : list phys).

Inductive cobs :=
| CObs (i : Z) (j : Z)                (* crash after the j-th io event of step i; j = -1: after the step returned *)
       (power : bool)
       (open : Z)                     (* 0 ok, 1 error, 2 panic *)
       (tables : list ctab)
       (probe_ok : bool)              (* SELECT .. WHERE id = k agrees with the scan for every key *)
       (pages : list z3)              (* recovered data files: (file, page, image), zero pages omitted, -1 = unknown image *)
       (div : bool).                  (* this image lists turdb_catalog/ after root/: colliding table ids are shadowed *)

(* what one reopened crash image looked like; many crash points share an image *)
Inductive cimg := CImg (open : Z) (tables : list ctab) (probe_ok : bool) (pages : list z3) (div : bool).
Inductive cpoint := CP (i j : Z) (power : bool) (img : Z).

Inductive case := Case (steps : list cstep) (shadow : list Z) (imgs : list cimg) (points : list cpoint).

Definition obs_of (imgs : list cimg) (p : cpoint) : cobs :=
  match p with
  | CP i j pw k =>
      match nth_error imgs (Z.to_nat k) with
      | Some (CImg o t pr pg d) => CObs i j pw o t pr pg d
      | None => CObs i j pw 3 [] false [] false
      end
  end.

Definition of_z2 (x : z2) : Z * Z := match x with R2 a b => (a, b) end.
Definition of_z3 (x : z3) : Z * Z * Z := match x with R3 a b c => (a, b, c) end.
Definition of_ctab (x : ctab) : Z * option (list (Z * Z)) :=
  match x with CT t r => (t, match r with Some l => Some (map of_z2 l) | None => None end) end.
Definition of_cstep (x : cstep) : lop * op * list phys := match x with CS l o ph => (l, o, ph) end.

(* ------------------------------------------------------------------ small list utilities *)
Definition zle3 (a b : Z * Z * Z) : bool :=
  let '(a1, a2, a3) := a in let '(b1, b2, b3) := b in
  (a1 <? b1) || ((a1 =? b1) && ((a2 <? b2) || ((a2 =? b2) && (a3 <=? b3)))).
Fixpoint ins3 (x : Z * Z * Z) (l : list (Z * Z * Z)) : list (Z * Z * Z) :=
  match l with [] => [x] | y :: r => if zle3 x y then x :: l else y :: ins3 x r end.
Definition sort3 (l : list (Z * Z * Z)) : list (Z * Z * Z) := fold_right ins3 [] l.

Definition z3_eqb (a b : Z * Z * Z) : bool :=
  let '(a1, a2, a3) := a in let '(b1, b2, b3) := b in (a1 =? b1) && (a2 =? b2) && (a3 =? b3).
Fixpoint list_eqb {A} (eq : A -> A -> bool) (a b : list A) : bool :=
  match a, b with
  | [], [] => true
  | x :: r, y :: q => eq x y && list_eqb eq r q
  | _, _ => false
  end.

Definition phys_eqb (a b : phys) : bool :=
  match a, b with
  | PStore f p i, PStore g q j => (f =? g) && (p =? q) && (i =? j)
  | PIo k r fr, PIo k' r' fr' => (k =? k') && (r =? r') && list_eqb z3_eqb (sort3 fr) (sort3 fr')
  | _, _ => false
  end.

(* ------------------------------------------------------------------ running the model along the workload *)
Fixpoint states_from (s : st) (os : list op) : list st :=
  match os with [] => [s] | o :: r => s :: states_from (step s o) r end.

Fixpoint conform (s : st) (steps : list (lop * op * list phys)) : bool :=
  match steps with
  | [] => true
  | (_, o, ph) :: r =>
      list_eqb phys_eqb (emit_all s (events s o)) ph && conform (step s o) r
  end.

Definition ops_of (steps : list (lop * op * list phys)) : list op := map (fun x => snd (fst x)) steps.
Definition lops_of (steps : list (lop * op * list phys)) : list lop := map (fun x => fst (fst x)) steps.

Definition op_keys (o : op) : list key :=
  match o with
  | OCreate t _ _ _ _ => [(t, 0); (t, 1); (idx_file t, 0); (idx_file t, 1)]
  | ODml _ _ body post => store_keys body ++ store_keys post
  | _ => []
  end.
Definition domain (os : list op) : list key := flat_map op_keys os.

(* model state at the crash point (i, j) *)
Definition pos_events (s : st) (o : op) (j : Z) : list ev :=
  if j <? 0 then events s o else firstn (upto_io (events s o) (Z.to_nat j)) (events s o).

Definition state_at (sts : list st) (os : list op) (i j : Z) : option st :=
  match nth_error sts (Z.to_nat i), nth_error os (Z.to_nat i) with
  | Some s, Some o => Some (run_evs s (pos_events s o j))
  | _, _ => None
  end.

Definition opt_eqb (a b : option Z) : bool :=
  match a, b with Some x, Some y => x =? y | None, None => true | _, _ => false end.

Fixpoint lookup3 (l : list (Z * Z * Z)) (k : key) : option Z :=
  match l with
  | [] => None
  | (f, p, i) :: r => if (f =? fst k) && (p =? snd k) then Some i else lookup3 r k
  end.

Definition pages_agree (dom : list key) (m : pmap) (pages : list (Z * Z * Z)) : bool :=
  forallb (fun k => opt_eqb (m k) (lookup3 pages k)) dom
  && forallb (fun x => kmem (fst (fst x), snd (fst x)) dom) pages.

Definition image_agrees (dom : list key) (im : image) (o : cobs) : bool :=
  match o with
  | CObs _ _ _ open tables0 _ pages0 _ =>
      let tables := map of_ctab tables0 in
      let pages := map of_z3 pages0 in
      if r_open im
      then (open =? 0)
           && forallb (fun x => match snd x with Some _ => mem (fst x) (r_tabs im) | None => true end) tables
           && pages_agree dom (r_pages im) pages
      else negb (open =? 0)
  end.

Definition obs_mode (o : cobs) : mode := match o with CObs _ _ p _ _ _ _ _ => if p then Power else Kill end.
Definition obs_div (o : cobs) : bool := match o with CObs _ _ _ _ _ _ _ d => d end.
Definition obs_pos (o : cobs) : Z * Z := match o with CObs i j _ _ _ _ _ _ => (i, j) end.

Definition obs_model_agrees (sh : list Z) (sts : list st) (os : list op) (dom : list key) (o : cobs) : bool :=
  match state_at sts os (fst (obs_pos o)) (snd (obs_pos o)) with
  | Some s => image_agrees dom (recover_sh (if obs_div o then sh else []) (obs_mode o) s) o
  | None => false
  end.

(* ------------------------------------------------------------------ row-level reference (the property's own oracle) *)
Definition rows := list (Z * Z).                         (* sorted by id *)
Definition ltabs := list (Z * rows).

Fixpoint rget (r : rows) (k : Z) : option Z :=
  match r with [] => None | (k', v) :: q => if k' =? k then Some v else rget q k end.
Fixpoint rins (r : rows) (k v : Z) : rows :=
  match r with
  | [] => [(k, v)]
  | (k', v') :: q => if k <? k' then (k, v) :: r else if k =? k' then r else (k', v') :: rins q k v
  end.
Fixpoint rupd (r : rows) (k v : Z) : rows :=
  match r with [] => [] | (k', v') :: q => if k' =? k then (k', v) :: q else (k', v') :: rupd q k v end.
Fixpoint rdel (r : rows) (k : Z) : rows :=
  match r with [] => [] | (k', v') :: q => if k' =? k then q else (k', v') :: rdel q k end.

Fixpoint tget (l : ltabs) (t : Z) : option rows :=
  match l with [] => None | (t', r) :: q => if t' =? t then Some r else tget q t end.
Fixpoint tmap (l : ltabs) (t : Z) (f : rows -> rows) : ltabs :=
  match l with [] => [] | (t', r) :: q => if t' =? t then (t', f r) :: q else (t', r) :: tmap q t f end.

Definition lapply (l : ltabs) (o : lop) : ltabs :=
  match o with
  | LCreate t => match tget l t with Some _ => l | None => l ++ [(t, [])] end
  | LIns t k v => tmap l t (fun r => rins r k v)
  | LUpd t k v => tmap l t (fun r => rupd r k v)
  | LDel t k => tmap l t (fun r => rdel r k)
  | _ => l
  end.
Definition lrun (l : ltabs) (os : list lop) : ltabs := fold_left lapply os l.

Definition is_begin (o : lop) : bool := match o with LBegin => true | _ => false end.
Definition is_commit (o : lop) : bool := match o with LCommit => true | _ => false end.

(* index of the LBegin of the transaction that is open after the first n steps, if any *)
Fixpoint txn_open (os : list lop) (idx : nat) (cur : option nat) (n : nat) : option nat :=
  match n, os with
  | O, _ => cur
  | _, [] => cur
  | S n', o :: r => txn_open r (S idx) (if is_begin o then Some idx else if is_commit o then None else cur) n'
  end.

(* (number of acknowledged steps, steps in flight) at crash point (i, j) *)
Definition split_at (os : list lop) (i : nat) (after : bool) : nat * list lop :=
  let upto := if after then S i else i in                      (* steps that returned *)
  let acked :=
    match txn_open os O None upto with
    | Some b => b                                             (* an open transaction: nothing of it is acknowledged *)
    | None =>
        if after then upto
        else match txn_open os O None i with Some b => b | None => i end
    end in
  (acked, firstn (S i - acked) (skipn acked os)).

Definition lop_touch (o : lop) : list (Z * Z) :=
  match o with LIns t k _ | LUpd t k _ | LDel t k => [(t, k)] | _ => [] end.
Definition lop_creates (o : lop) : list Z := match o with LCreate t => [t] | _ => [] end.

Fixpoint obs_table (tables : list (Z * option (list (Z * Z)))) (t : Z) : option (list (Z * Z)) :=
  match tables with [] => None | (t', r) :: q => if t' =? t then r else obs_table q t end.

Definition zz_eqb (a b : Z * Z) : bool := (fst a =? fst b) && (snd a =? snd b).
Definition keys_of (a b : rows) : list Z := map fst a ++ map fst b.

(* C01: reopening works, every acknowledged table is readable, and every key that no in-flight
   statement names has exactly its acknowledged value (present with that value, or absent) *)
Definition c01_ok (lops : list lop) (o : cobs) : bool :=
  match o with
  | CObs i j _ open tables0 _ _ _ =>
      let tables := map of_ctab tables0 in
      let '(a, infl) := split_at lops (Z.to_nat i) (j <? 0) in
      let acked := lrun [] (firstn a lops) in
      let touched := flat_map lop_touch infl in
      (open =? 0)
      && forallb (fun tr =>
           match obs_table tables (fst tr) with
           | None => false
           | Some got =>
               forallb (fun k => existsb (zz_eqb (fst tr, k)) touched
                                 || opt_eqb (rget (snd tr) k) (rget got k))
                       (keys_of (snd tr) got)
           end) acked
  end.

(* ------------------------------------------------------------------ known classes (evaluated on the model state) *)
Definition diverted (sh : list Z) (fr : list frame) : bool := existsb (fun f => mem (fst (fst f)) sh) fr.

Definition class_at (sh : list Z) (sts : list st) (os : list op) (o : cobs) : Z :=
  match o with
  | CObs i j power _ _ _ _ dv =>
      match state_at sts os i j, nth_error sts (Z.to_nat i), nth_error os (Z.to_nat i) with
      | Some s, Some s0, Some op_i =>
          if negb power && negb (cat_ok s) then 1
          else if dv && diverted sh (if power then closed_du s ++ cur_du s else closed_fl s ++ cur_fl s) then 5
          else if power then
            match g_unl (ghost_evs s0 (ghost_run init ghost0 (firstn (Z.to_nat i) os)) (pos_events s0 op_i j)) with
            | [] => 0 | _ => 3 end
          else if negb (cat_ok s) then 1
          else if negb (quiet s) then 2
          else 0
      | _, _, _ => 0
      end
  end.

(* ------------------------------------------------------------------ the three judgements *)
Definition model_agrees (c : case) : bool :=
  match c with
  | Case steps0 sh imgs pts =>
      let obs := map (obs_of imgs) pts in
      let steps := map of_cstep steps0 in
      let os := ops_of steps in
      let sts := states_from init os in
      let dom := domain os in
      conform init steps && wf_run init os && forallb (obs_model_agrees sh sts os dom) obs
  end.

Definition spec_ok (c : case) : bool :=
  match c with Case steps _ imgs pts => forallb (c01_ok (lops_of (map of_cstep steps))) (map (obs_of imgs) pts) end.

(* one entry per distinct (model_agrees, spec_ok, class) among the crash points that fail *)
Definition judge (spec : list lop -> cobs -> bool) (c : case) : list (bool * bool * Z) :=
  match c with
  | Case steps0 sh imgs pts =>
      let obs := map (obs_of imgs) pts in
      let steps := map of_cstep steps0 in
      let os := ops_of steps in
      let sts := states_from init os in
      let dom := domain os in
      let lops := lops_of steps in
      let global := conform init steps && wf_run init os in
      let per := map (fun o => (global && obs_model_agrees sh sts os dom o, spec lops o, class_at sh sts os o)) obs in
      let bad := filter (fun x => negb (fst (fst x) && snd (fst x))) per in
      let bad := if global then bad else (false, true, 0) :: bad in
      fold_right (fun x acc =>
                    if existsb (fun y => Bool.eqb (fst (fst x)) (fst (fst y)) && Bool.eqb (snd (fst x)) (snd (fst y)) && (snd x =? snd y)) acc
                    then acc else x :: acc) [] bad
  end.

Definition known_class (c : case) : Z :=
  match judge c01_ok c with [] => 0 | x :: _ => snd x end.

Fixpoint failures_from (i : Z) (cs : list case) : list (Z * bool * bool * Z) :=
  match cs with
  | [] => []
  | c :: t => map (fun x => (i, fst (fst x), snd (fst x), snd x)) (judge c01_ok c) ++ failures_from (i + 1) t
  end.
Definition failures := failures_from 0.
