(* C34 - The freelist conserves pages.
   Property theorems only.  They speak about Model/Freelist.v: [run np ops] is the trace (result,
   head_page(), free_count() after every call) of the transcription of Freelist::allocate /
   release / initialize_trunk / create_new_trunk (src/storage/freelist.rs, tree at/after the
   repair bad45b6) over a zeroed store of [np] pages, for the history [ops] of release /
   allocate / client-write calls; TRUNK_MAX_ENTRIES, TrunkHeader::is_full and the page geometry
   are regenerated from the source (Gen/Freelist.v).
   The oracle predicates know nothing about trunks; they keep the abstract free bag (pages
   released and not handed back since) and its size:
     disciplined  the client releases only pages it holds (never page 0, never a page that is
                  still free) and writes only into pages it holds (page 0 included);
     safe         every allocate() returns None or a member of the bag (so: previously released,
                  not currently allocated, never handed out twice), and no call of the client fails;
     complete     allocate() returns None only when the bag is empty;
     reported_eq_spec  free_count() = size of the bag after every call;
     refines_bag  = safe && complete && reported_eq_spec;
     count_exact  wherever the rest of the history only allocates until None, the reported
                  free_count() equals the number of pages those allocations returned;
     property_ok  = not disciplined, or safe && count_exact (the three clauses of C34). *)
From Coq Require Import ZArith List Bool.
From TV Require Import Lib.MachInt Gen.FreelistConsts Gen.Freelist Model.Freelist Model.FreelistV0.
From TV Require Import Proof.Freelist Proof.FreelistInv Proof.FreelistTrace Corr.C34 Proof.FreelistCorr Proof.FreelistV0.
Import ListNotations.
Open Scope Z_scope.

(* DESIGN.md C34 refinement: all histories of a disciplined client, any number of trunks *)
Theorem freelist_refines_bag : forall np ops, np < 2 ^ 32 ->
  disciplined np (run np ops) = true -> refines_bag (run np ops) = true.
Proof. exact freelist_refines_bag_l. Qed.

(* third clause: the reported free count is what the following allocations return *)
Theorem free_count_exact : forall np ops, np < 2 ^ 32 ->
  disciplined np (run np ops) = true -> count_exact (run np ops) = true.
Proof. exact count_exact_l. Qed.

(* ... in the direct form: from any reachable state, k successful allocations followed by None
   means k = free_count() *)
Theorem drain_returns_free_count : forall np ops more k, np < 2 ^ 32 ->
  disciplined np (run np (ops ++ more)) = true ->
  drain_count (run_from np (final np ops) more) = Some k -> k = fc (final np ops).
Proof. exact drain_returns_free_count_l. Qed.

(* the property as the comparer judges it, for every history whatsoever *)
Theorem property_holds : forall np ops, np < 2 ^ 32 -> property_ok np (run np ops) = true.
Proof. exact property_holds_l. Qed.

(* ... on the comparer's own predicates (Corr/C34.v): wherever the implementation did what the
   model predicts, the observed behaviour satisfies the property *)
Theorem agreeing_case_satisfies_property : forall np ctr, np < 2 ^ 32 ->
  model_agrees (Case np ctr) = true -> spec_ok (Case np ctr) = true.
Proof. exact agreeing_case_satisfies_property_l. Qed.

(* every history, disciplined or not: free_count() is never BELOW what the following
   allocations return *)
Theorem count_not_under_all : forall np ops, count_not_under (run np ops) = true.
Proof. exact count_not_under_l. Qed.

(* HISTORICAL (Model/FreelistV0.v = allocate before the repair bad45b6): what the old code did on
   the witnesses of the fixed findings F-C34-1 and F-C34-2 *)
Theorem v0_free_count_exact_refuted :
  run_v0 8 [Rel 3; Alloc] = [E (Rel 3) OOk 3 1; E Alloc ONone 0 0] /\
  disciplined 8 (run_v0 8 [Rel 3; Alloc]) = true /\ count_exact (run_v0 8 [Rel 3; Alloc]) = false.
Proof. exact v0_free_count_exact_refuted_l. Qed.

Theorem v0_page0_deref_refuted :
  let ops := [Poke 0 5 1; Poke 0 6 7; Rel 3; Rel 4; Alloc; Alloc] in
  disciplined 8 (run_v0 8 ops) = true /\ safe (run_v0 8 ops) = false /\
  run_v0 8 ops = [E (Poke 0 5 1) OOk 0 0; E (Poke 0 6 7) OOk 0 0; E (Rel 3) OOk 3 1;
                  E (Rel 4) OOk 3 2; E Alloc (OSome 4) 0 1; E Alloc (OSome 7) 0 0].
Proof. exact v0_page0_deref_refuted_l. Qed.

(* non-vacuity: the hypotheses are met by concrete histories in which pages really come back,
   trunk pages themselves are handed out, and a dirty page 0 is harmless *)
Example c34_witness_hypotheses :
  let ops := [Poke 0 5 1; Poke 0 6 7; Rel 3; Rel 4; Rel 5; Alloc; Poke 5 5 9; Rel 5; Alloc; Alloc; Alloc; Alloc; Rel 4; Alloc] in
  disciplined 8 (run 8 ops) = true /\ refines_bag (run 8 ops) = true /\ count_exact (run 8 ops) = true /\
  run 8 ops = [E (Poke 0 5 1) OOk 0 0; E (Poke 0 6 7) OOk 0 0;
               E (Rel 3) OOk 3 1; E (Rel 4) OOk 3 2; E (Rel 5) OOk 3 3; E Alloc (OSome 5) 3 2;
               E (Poke 5 5 9) OOk 3 2; E (Rel 5) OOk 3 3; E Alloc (OSome 5) 3 2; E Alloc (OSome 4) 3 1;
               E Alloc (OSome 3) 0 0; E Alloc ONone 0 0; E (Rel 4) OOk 4 1; E Alloc (OSome 4) 0 0].
Proof. vm_compute. repeat split. Qed.

Example c34_witness_drain :
  disciplined 8 (run 8 ([Rel 3; Rel 4; Rel 5] ++ [Alloc; Alloc; Alloc; Alloc])) = true /\
  drain_count (run_from 8 (final 8 [Rel 3; Rel 4; Rel 5]) [Alloc; Alloc; Alloc; Alloc]) = Some 3 /\
  head (final 8 [Rel 3; Rel 4; Rel 5]) = 3 /\ fc (final 8 [Rel 3; Rel 4; Rel 5]) = 3.
Proof. vm_compute. repeat split. Qed.

Example c34_witness_undisciplined :
  (* double free: the property says nothing (and the code does hand page 3 out twice) *)
  disciplined 8 (run 8 [Rel 3; Rel 3; Alloc; Alloc]) = false /\
  property_ok 8 (run 8 [Rel 3; Rel 3; Alloc; Alloc]) = true /\
  safe (run 8 [Rel 3; Rel 3; Alloc; Alloc]) = false.
Proof. vm_compute. repeat split. Qed.

Check freelist_refines_bag : forall np ops, np < 2 ^ 32 -> disciplined np (run np ops) = true -> refines_bag (run np ops) = true.
Check free_count_exact : forall np ops, np < 2 ^ 32 -> disciplined np (run np ops) = true -> count_exact (run np ops) = true.
Check drain_returns_free_count : forall np ops more k, np < 2 ^ 32 -> disciplined np (run np (ops ++ more)) = true -> drain_count (run_from np (final np ops) more) = Some k -> k = fc (final np ops).
Check property_holds : forall np ops, np < 2 ^ 32 -> property_ok np (run np ops) = true.
Check agreeing_case_satisfies_property : forall np ctr, np < 2 ^ 32 -> model_agrees (Case np ctr) = true -> spec_ok (Case np ctr) = true.
Check count_not_under_all : forall np ops, count_not_under (run np ops) = true.
Check v0_free_count_exact_refuted : run_v0 8 [Rel 3; Alloc] = [E (Rel 3) OOk 3 1; E Alloc ONone 0 0] /\ disciplined 8 (run_v0 8 [Rel 3; Alloc]) = true /\ count_exact (run_v0 8 [Rel 3; Alloc]) = false.
Check v0_page0_deref_refuted : let ops := [Poke 0 5 1; Poke 0 6 7; Rel 3; Rel 4; Alloc; Alloc] in disciplined 8 (run_v0 8 ops) = true /\ safe (run_v0 8 ops) = false /\ run_v0 8 ops = [E (Poke 0 5 1) OOk 0 0; E (Poke 0 6 7) OOk 0 0; E (Rel 3) OOk 3 1; E (Rel 4) OOk 3 2; E Alloc (OSome 4) 0 1; E Alloc (OSome 7) 0 0].

Print Assumptions freelist_refines_bag.
Print Assumptions free_count_exact.
Print Assumptions drain_returns_free_count.
Print Assumptions property_holds.
Print Assumptions agreeing_case_satisfies_property.
Print Assumptions count_not_under_all.
Print Assumptions v0_free_count_exact_refuted.
Print Assumptions v0_page0_deref_refuted.
