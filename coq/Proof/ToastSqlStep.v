(* C11 proofs, part 4: every step of Model/ToastSql.v keeps the invariant "each row shows the value of
   the last successful write to its key, and no two rows share a chunk id" - unless the step is the
   lossy UPDATE of finding class 3 (then the model's `lost` flag goes up). *)
From Coq Require Import ZArith List Bool Lia ZifyBool.
From TV Require Import Lib.MachInt Lib.MachIntFacts Gen.Toast Model.Toast Model.Utf8 Model.ToastSql
  Proof.ToastCodec Proof.ToastStore Proof.ToastSqlBase.
Import ListNotations.
Open Scope Z_scope.

Arguments Z.div : simpl never.
Arguments Z.modulo : simpl never.
Arguments Z.mul : simpl never.
Arguments Z.add : simpl never.
Arguments Z.sub : simpl never.
Arguments Z.pow : simpl never.
Arguments Z.leb : simpl never.
Arguments Z.ltb : simpl never.
Arguments Z.geb : simpl never.
Arguments Z.gtb : simpl never.
Arguments Z.eqb : simpl never.
Arguments Z.of_nat : simpl never.
Arguments Z.to_nat : simpl never.
Arguments wrap_u : simpl never.

Section Step.
Variable ty : colty.
Variable pk : bool.

Definition R (m : tmap) (r : row) (e : Z * value) : Prop := r_k r = fst e /\ repr ty m (r_st r) (snd e).
Lemma R_key m r e : R m r e -> r_k r = fst e.
Proof. intros [H _]. exact H. Qed.

Definition distinct (rs : list row) : Prop :=
  forall r r' c, In r rs -> In r' rs -> r_k r <> r_k r' ->
    cid_of (r_st r) = Some c -> cid_of (r_st r') = Some c -> False.

Record Inv (st : state) (e : list (Z * value)) : Prop := mkInv {
  inv_rows : Forall2 (R (toast st)) (rows st) e;
  inv_keys : NoDup (map r_k (rows st));
  inv_cids : distinct (rows st);
  inv_rid : 1 <= next_rid st;
  inv_rids : forall r, In r (rows st) -> 0 <= r_rid r < next_rid st;     (* row keys come from the counter *)
  inv_gone : forall x, In x (gone st) -> 0 <= x < next_rid st
}.

(* a written value outside finding classes 1 and 2 that fits the column *)
Definition clean_val (v : value) : Prop :=
  val_ok ty v = true /\
  (forall b, var_bytes v = Some b -> is_toast_pointer b = false) /\
  (forall b, v = VBlob b -> needs_toast b = true -> valid_utf8 b = false).

Lemma Forall2_in_l {A B} (P : A -> B -> Prop) l l' a : Forall2 P l l' -> In a l -> exists b, In b l' /\ P a b.
Proof.
  induction 1 as [|x y l l' H _ IH]; intros Hin; [destruct Hin|].
  destruct Hin as [<-|Hin]; [exists y; split; [now left | exact H]|].
  destruct (IH Hin) as (b & Hb & Hp). exists b. split; [now right | exact Hp].
Qed.

(* ---------------------------------------------------------------- the three ways a value enters the record *)
Lemma repr_inline m v b : clean_val v -> var_bytes v = Some b -> repr ty m (SBytes b) v.
Proof.
  intros (Hok & Hfake & Hu) Hv. destruct v; cbn [var_bytes] in Hv; try discriminate; injection Hv as ->.
  - destruct ty; cbn [val_ok] in Hok; try discriminate. apply andb_true_iff in Hok as [H1 H2].
    cbn [repr]. repeat split; auto; [lia|]. left. split; [reflexivity | now apply Hfake].
  - destruct ty; cbn [val_ok] in Hok; try discriminate.
    cbn [repr]. repeat split; auto; [lia | |].
    + intros Hb. apply (Hu b eq_refl). now apply needs_toast_iff.
    + left. split; [reflexivity | now apply Hfake].
Qed.

Lemma repr_toasted m v b cid : clean_val v -> var_bytes v = Some b -> needs_toast b = true ->
  stored_at m cid b -> 0 <= cid < 2 ^ 64 -> repr ty m (SBytes (ptr_encode (blen b) cid)) v.
Proof.
  intros (Hok & Hfake & Hu) Hv Hn Hs Hc. apply needs_toast_iff in Hn.
  destruct v; cbn [var_bytes] in Hv; try discriminate; injection Hv as ->.
  - destruct ty; cbn [val_ok] in Hok; try discriminate. apply andb_true_iff in Hok as [H1 H2].
    cbn [repr]. repeat split; auto; [lia|]. right. exists cid. repeat split; auto; lia.
  - destruct ty; cbn [val_ok] in Hok; try discriminate.
    cbn [repr]. repeat split; auto; [lia | |].
    + intros Hb. apply (Hu b eq_refl). now apply needs_toast_iff.
    + right. exists cid. repeat split; auto; lia.
Qed.

Lemma repr_scalar m v : clean_val v -> var_bytes v = None -> repr ty m (store_scalar v) v.
Proof.
  intros (Hok & _ & _) Hv.
  destruct v; cbn [var_bytes] in Hv; try discriminate; cbn [store_scalar repr];
    destruct ty; cbn [val_ok] in Hok; try discriminate; auto.
Qed.

(* toast_value as INSERT / UPDATE use it *)
Lemma put_value_spec m rid v m' sv :
  clean_val v -> 0 <= rid < 2 ^ 64 -> put_value m rid v = (m', sv) ->
  extends m m' /\
  match sv with
  | Some s => repr ty m' s v /\ (forall c, cid_of s = Some c -> m (c, 0) = None)
  | None => True
  end.
Proof.
  intros Hc Hr H. unfold put_value in H.
  destruct (var_bytes v) as [b|] eqn:Ev.
  - destruct (needs_toast b) eqn:En.
    + destruct (toast_write m (chunk_id_of rid COL_C) b) as [m2 ok] eqn:Ew.
      injection H as <- <-. split; [eapply write_extends; exact Ew|].
      destruct ok; [|exact I].
      pose proof (chunk_id_of_bound rid COL_C Hr) as Hcid.
      assert (blen b < ALLOC_OK) as Hl.
      { destruct Hc as (Hok & _ & _). destruct v; cbn [var_bytes] in Ev; try discriminate; injection Ev as ->;
          destruct ty; cbn [val_ok] in Hok; try discriminate; [apply andb_true_iff in Hok as [_ Hok]|]; lia. }
      split.
      * apply repr_toasted; auto. eapply toast_write_stored; [|exact Ew].
        unfold ALLOC_OK in Hl. change (2 ^ 31) with 2147483648 in Hl. change (2 ^ 40) with 1099511627776. lia.
      * intros c Hcc. rewrite cid_of_encode in Hcc by (auto using blen_u64). injection Hcc as <-.
        apply needs_toast_iff in En.
        destruct (chunks_nonempty b) as (c0 & t & E); [intros ->; rewrite blen_nil in En; lia|].
        unfold toast_write in Ew. rewrite E in Ew. eapply write_ok_first_free. exact Ew.
    + injection H as <- <-. split; [apply extends_refl|]. split; [now apply repr_inline|].
      intros c Hcc. unfold cid_of in Hcc. destruct Hc as (_ & Hfake & _). rewrite (Hfake b Ev) in Hcc. discriminate.
  - injection H as <- <-. split; [apply extends_refl|]. split; [now apply repr_scalar|].
    intros c Hcc. destruct v; cbn [var_bytes] in Ev; try discriminate; cbn in Hcc; discriminate.
Qed.

Lemma put_value_cached_spec m v m' sv :
  clean_val v -> put_value_cached m v = (m', sv) ->
  m' = m /\ match sv with Some s => repr ty m s v /\ cid_of s = None | None => True end.
Proof.
  intros Hc H. unfold put_value_cached in H.
  destruct (var_bytes v) as [b|] eqn:Ev.
  - destruct (blen b <=? INLINE_MAX); injection H as <- <-; split; auto.
    split; [now apply repr_inline|]. unfold cid_of. destruct Hc as (_ & Hfake & _). now rewrite (Hfake b Ev).
  - injection H as <- <-. split; auto. split; [now apply repr_scalar|].
    destruct v; cbn [var_bytes] in Ev; try discriminate; reflexivity.
Qed.

(* ---------------------------------------------------------------- facts about rows under the invariant *)
Lemma inv_row_repr st e r : Inv st e -> In r (rows st) -> exists x, In x e /\ R (toast st) r x.
Proof. intros [H _ _ _ _ _] Hin. eapply Forall2_in_l; eauto. Qed.

(* a row that refers to a chunk id occupies key (cid, 0) *)
Lemma inv_cid_present st e r c : Inv st e -> In r (rows st) -> cid_of (r_st r) = Some c -> exists x, toast st (c, 0) = Some x.
Proof.
  intros Hi Hin Hc. destruct (inv_row_repr st e r Hi Hin) as (x & _ & _ & Hr).
  destruct (repr_cid _ _ _ _ _ Hr Hc) as (b & Hs & Hb & _). eapply stored_first; eauto.
Qed.

(* delete_toast_chunks for the old value of row r leaves the other rows alone *)
Lemma drop_old_others st e r r' x :
  Inv st e -> In r (rows st) -> In r' (rows st) -> r_k r' <> r_k r ->
  R (toast st) r' x -> R (drop_old (toast st) (r_st r)) r' x.
Proof.
  intros Hi Hin Hin' Hk [Hkey Hr']. split; [exact Hkey|].
  unfold drop_old. destruct (r_st r) as [|b0|] eqn:Es; auto.
  destruct (is_toast_pointer b0) eqn:Ep; auto.
  destruct (is_pointer_decodes b0 Ep) as (t0 & c0 & Ed).
  assert (cid_of (r_st r) = Some c0) as Hc0 by (rewrite Es; unfold cid_of; now rewrite Ep, Ed).
  destruct (inv_row_repr st e r Hi Hin) as (x0 & _ & _ & Hr0).
  destruct (repr_cid _ _ _ _ _ Hr0 Hc0) as (b & Hs & Hb & Hcb & Hl & E).
  rewrite Es in E. injection E as ->.
  rewrite del_pointer_encode by (auto using blen_u64).
  apply repr_del; [|exact Hr']. intros Hc'. eapply (inv_cids st e Hi r' r c0); eauto.
Qed.

Lemma drop_old_not_pointer m s : old_is_pointer s = false -> drop_old m s = m.
Proof. unfold old_is_pointer, drop_old. destruct s; auto. now intros ->. Qed.

(* ---------------------------------------------------------------- the oracle, one step at a time *)
Definition spec_step (e : list (Z * value)) (o : op) (ob : sobs) : option (list (Z * value)) :=
  match o, ob with
  | OIns _ k v, SWrote true => Some (exp_ins k v e)
  | OUpd _ k v, SWrote true => Some (exp_set k v e)
  | ODel k, SWrote true => Some (exp_del k e)
  | OIns _ _ _, SWrote false | OUpd _ _ _, SWrote false | ODel _, SWrote false => Some e
  | OReopen, SReopened true => Some e
  | OSkip, SSkipped => Some e
  | OQuery _, SRows r => if rows_eqb r e then Some e else None
  | _, _ => None
  end.

Lemma spec_from_step e o ob t :
  spec_from e ((o, ob) :: t) = match spec_step e o ob with Some e' => spec_from e' t | None => false end.
Proof.
  destruct o; destruct ob; cbn [spec_from spec_step]; try reflexivity;
    try (destruct ok; reflexivity).
  destruct (rows_eqb rows e); reflexivity.
Qed.

Ltac fin_same Hsame :=
  split; [reflexivity|]; split; [apply Hsame; reflexivity|];
  cbn [dead lost next_rid rows toast]; repeat split; auto.

(* ---------------------------------------------------------------- INSERT *)
Lemma step_ins_ok st e p k v st' ob :
  Inv st e -> clean_val v -> ~ In k (map r_k (rows st)) -> next_rid st < 2 ^ 62 ->
  step_ins st p k v = (st', ob) ->
  exists e', spec_step e (OIns p k v) ob = Some e' /\ Inv st' e' /\
             dead st' = dead st /\ lost st' = lost st /\ next_rid st' = next_rid st + 1 /\
             (forall y, In y (map r_k (rows st')) -> y = k \/ In y (map r_k (rows st))).
Proof.
  intros Hi Hc Hfresh Hrid H. pose proof (inv_rid st e Hi) as Hr1.
  unfold step_ins in H.
  set (cached := match p with PS => ins_cached st | _ => false end) in H.
  set (ic := match p with PS => true | _ => ins_cached st end) in H.
  remember (if cached then put_value_cached (toast st) v else put_value (toast st) (next_rid st) v) as ms eqn:Ems.
  destruct ms as [m' sv]. cbn [fst snd] in H.
  (* what the value write did *)
  assert (extends (toast st) m' /\
          match sv with Some s => repr ty m' s v /\ (forall c, cid_of s = Some c -> toast st (c, 0) = None) | None => True end) as [Hext Hsv].
  { destruct cached.
    - destruct (put_value_cached_spec (toast st) v m' sv Hc (eq_sym Ems)) as [-> Hs].
      split; [apply extends_refl|]. destruct sv as [s|]; [|exact I]. destruct Hs as [Hs1 Hs2].
      split; [exact Hs1|]. intros c Hcc. congruence.
    - apply (put_value_spec (toast st) (next_rid st) v m' sv Hc); [change (2 ^ 64) with 18446744073709551616; change (2 ^ 62) with 4611686018427387904 in Hrid; lia | now symmetry]. }
  (* the rows seen through the new toast table *)
  assert (Forall2 (R m') (rows st) e) as Hrows'.
  { eapply (F2_impl (R (toast st)) (R m')); [exact (inv_rows st e Hi)|].
    intros r x _ [A B]. split; [exact A | eapply repr_extends; eauto]. }
  assert (forall stx, rows stx = rows st -> toast stx = m' -> next_rid stx = next_rid st + 1 -> gone stx = gone st -> Inv stx e) as Hsame.
  { intros stx E1 E2 E3 E4. constructor; rewrite ?E1, ?E2, ?E3, ?E4; auto;
      [exact (inv_keys st e Hi) | exact (inv_cids st e Hi) | lia
      | intros r Hin; pose proof (inv_rids st e Hi r Hin); lia
      | intros x Hin; pose proof (inv_gone st e Hi x Hin); lia]. }
  destruct sv as [s|].
  - destruct Hsv as [Hrepr Hfree].
    destruct (has_rid (next_rid st) (rows st) || existsb (Z.eqb (next_rid st)) (gone st)).
    + injection H as <- <-. exists e. fin_same Hsame.
    + injection H as <- <-. exists (exp_ins k v e).
      split; [reflexivity|].
      split; [|cbn [dead lost next_rid rows]; repeat split; auto; intros y Hy; apply ins_row_keys_in in Hy; exact Hy].
      constructor; cbn [rows toast next_rid gone].
      * apply (F2_ins (R m') (R_key m')); [exact Hrows'|]. split; [reflexivity | exact Hrepr].
      * apply ins_row_nodup; [exact (inv_keys st e Hi) | exact Hfresh].
      * intros r r' c Hin Hin' Hk Hcr Hcr'.
        apply ins_row_in in Hin as [->|Hin]; apply ins_row_in in Hin' as [->|Hin'].
        -- now apply Hk.
        -- cbn [r_st] in Hcr. destruct (inv_cid_present st e r' c Hi Hin' Hcr') as [x Hx]. rewrite (Hfree c Hcr) in Hx. discriminate.
        -- cbn [r_st] in Hcr'. destruct (inv_cid_present st e r c Hi Hin Hcr) as [x Hx]. rewrite (Hfree c Hcr') in Hx. discriminate.
        -- eapply (inv_cids st e Hi r r' c); eauto.
      * lia.
      * intros r Hin. apply ins_row_in in Hin as [->|Hin]; [cbn [r_rid]; lia|]. pose proof (inv_rids st e Hi r Hin). lia.
      * intros x Hin. pose proof (inv_gone st e Hi x Hin). lia.
  - injection H as <- <-. exists e. fin_same Hsame.
Qed.

(* ---------------------------------------------------------------- UPDATE *)
Lemma step_upd_ok st e p k v st' ob :
  Inv st e -> clean_val v ->
  step_upd pk st p k v = (st', ob) -> lost st' = false ->
  exists e', spec_step e (OUpd p k v) ob = Some e' /\ Inv st' e' /\
             dead st' = dead st /\ next_rid st' = next_rid st /\
             map r_k (rows st') = map r_k (rows st).
Proof.
  intros Hi Hc H Hlost. pose proof (inv_rid st e Hi) as Hr1.
  unfold step_upd in H.
  set (uc := match p with PS => true | _ => upd_cached st end) in H.
  assert (forall stx, rows stx = rows st -> toast stx = toast st -> next_rid stx = next_rid st -> gone stx = gone st -> Inv stx e) as Hsame.
  { intros stx E1 E2 E3 E4. constructor; rewrite ?E1, ?E2, ?E3, ?E4; destruct Hi; auto. }
  destruct (find_k k (rows st)) as [r|] eqn:Ef.
  - destruct (find_k_some k (rows st) r Ef) as [Hin Hk].
    destruct ((match p with PS => upd_cached st | _ => false end) && pk).
    + injection H as <- <-. exists e. fin_same Hsame.
    + remember (put_value (drop_old (toast st) (r_st r)) (if pk then wrap_u 64 k else 0) v) as ms eqn:Ems.
      destruct ms as [m2 sv]. cbn [fst snd] in H.
      assert (0 <= (if pk then wrap_u 64 k else 0) < 2 ^ 64) as Hpkv.
      { destruct pk; [unfold wrap_u; apply Z.mod_pos_bound; reflexivity | change (2 ^ 64) with 18446744073709551616; lia]. }
      destruct (put_value_spec _ _ _ _ _ Hc Hpkv (eq_sym Ems)) as [Hext Hsv].
      destruct sv as [s|].
      * destruct Hsv as [Hrepr Hfree]. injection H as <- <-.
        exists (exp_set k v e).
        split; [reflexivity|].
        split; [|cbn [dead lost next_rid rows]; repeat split; auto; apply set_row_keys].
        constructor; cbn [rows toast next_rid gone];
          [| rewrite set_row_keys; exact (inv_keys st e Hi) | | exact Hr1
           | intros r0 Hin0; destruct (set_row_in k s (rows st) r0 (inv_keys st e Hi) Hin0) as [(ra & Hra & _ & ->)|[Hra _]];
             [cbn [r_rid]; exact (inv_rids st e Hi ra Hra) | exact (inv_rids st e Hi r0 Hra)]
           | exact (inv_gone st e Hi)].
        -- apply (F2_set (R (toast st)) (R m2) (R_key (toast st))); [exact (inv_rows st e Hi) | exact (inv_keys st e Hi) | |].
           ++ intros r' x Hin' HR Hk'. rewrite <- Hk in Hk'.
              destruct (drop_old_others st e r r' x Hi Hin Hin' Hk' HR) as [A B].
              split; [exact A | eapply repr_extends; eauto].
           ++ intros r' x _ _ _. split; [reflexivity | exact Hrepr].
        -- intros r1 r2 c Hin1 Hin2 Hk12 Hc1 Hc2.
           (* a row of the new list that refers to chunk id c: the rewritten row (then (c,0) was free after the
              old chunks were dropped) or an untouched row (then (c,0) is still occupied after the drop) *)
           assert (forall r', In r' (rows st) -> r_k r' <> k -> cid_of (r_st r') = Some c ->
                     exists x, drop_old (toast st) (r_st r) (c, 0) = Some x) as Hocc.
           { intros r' Hin' Hk' Hc'. destruct (inv_row_repr st e r' Hi Hin') as (x & _ & HR).
             rewrite <- Hk in Hk'. destruct (drop_old_others st e r r' x Hi Hin Hin' Hk' HR) as [_ B].
             destruct (repr_cid _ _ _ _ _ B Hc') as (b & Hs & Hb & _). eapply stored_first; eauto. }
           destruct (set_row_in k s (rows st) r1 (inv_keys st e Hi) Hin1) as [(ra & _ & _ & ->)|[Hi1 Hk1]];
           destruct (set_row_in k s (rows st) r2 (inv_keys st e Hi) Hin2) as [(rb & _ & _ & ->)|[Hi2 Hk2]].
           ++ now apply Hk12.
           ++ cbn [r_st] in Hc1. destruct (Hocc r2 Hi2 Hk2 Hc2) as [x Hx]. rewrite (Hfree c Hc1) in Hx. discriminate.
           ++ cbn [r_st] in Hc2. destruct (Hocc r1 Hi1 Hk1 Hc1) as [x Hx]. rewrite (Hfree c Hc2) in Hx. discriminate.
           ++ eapply (inv_cids st e Hi r1 r2 c); eauto.
      * injection H as <- <-. cbn [lost] in Hlost.
        assert (old_is_pointer (r_st r) = false) as Hnp.
        { apply orb_false_iff in Hlost. tauto. }
        rewrite (drop_old_not_pointer _ _ Hnp) in Hext.
        exists e.
        split; [reflexivity|].
        split; [|cbn [dead lost next_rid rows]; repeat split; auto].
        constructor; cbn [rows toast next_rid gone];
          [| exact (inv_keys st e Hi) | exact (inv_cids st e Hi) | exact Hr1 | exact (inv_rids st e Hi) | exact (inv_gone st e Hi)].
        eapply (F2_impl (R (toast st)) (R m2)); [exact (inv_rows st e Hi)|].
        intros r' x _ [A B]. split; [exact A | eapply repr_extends; eauto].
  - injection H as <- <-. exists (exp_set k v e).
    split; [reflexivity|].
    split; [|cbn [dead lost next_rid rows]; repeat split; auto].
    rewrite (exp_set_absent (R (toast st)) (R_key (toast st)) k v (rows st) e (inv_rows st e Hi) (find_k_none _ _ Ef)).
    apply Hsame; reflexivity.
Qed.

(* ---------------------------------------------------------------- DELETE *)
Lemma step_del_ok st e k st' ob :
  Inv st e -> step_del st k = (st', ob) ->
  exists e', spec_step e (ODel k) ob = Some e' /\ Inv st' e' /\
             dead st' = dead st /\ lost st' = lost st /\ next_rid st' = next_rid st /\
             (forall y, In y (map r_k (rows st')) -> In y (map r_k (rows st))).
Proof.
  intros Hi H. unfold step_del in H.
  destruct (find_k k (rows st)) as [r|] eqn:Ef.
  - destruct (find_k_some k (rows st) r Ef) as [Hin Hk]. injection H as <- <-.
    exists (exp_del k e).
    split; [reflexivity|].
    split; [|cbn [dead lost next_rid rows]; repeat split; auto; intros y; apply del_row_keys_incl].
    constructor; cbn [rows toast next_rid gone];
      [| apply del_row_nodup; exact (inv_keys st e Hi) | | exact (inv_rid st e Hi)
       | intros r0 Hin0; destruct (del_row_in k (rows st) r0 (inv_keys st e Hi) Hin0) as [Hr0 _]; exact (inv_rids st e Hi r0 Hr0)
       | intros x [<-|Hx]; [exact (inv_rids st e Hi r Hin) | exact (inv_gone st e Hi x Hx)]].
    + apply (F2_del (R (toast st)) (R (drop_old (toast st) (r_st r))) (R_key (toast st))); [exact (inv_rows st e Hi) | exact (inv_keys st e Hi) |].
      intros r' x Hin' HR Hk'. rewrite <- Hk in Hk'. eapply drop_old_others; eauto.
    + intros r1 r2 c Hin1 Hin2 Hk12 Hc1 Hc2.
      destruct (del_row_in k (rows st) r1 (inv_keys st e Hi) Hin1) as [Hi1 _].
      destruct (del_row_in k (rows st) r2 (inv_keys st e Hi) Hin2) as [Hi2 _].
      eapply (inv_cids st e Hi r1 r2 c); eauto.
  - injection H as <- <-. exists (exp_del k e).
    split; [reflexivity|].
    split; [|repeat split; auto].
    rewrite (exp_del_absent (R (toast st)) (R_key (toast st)) k (rows st) e (inv_rows st e Hi) (find_k_none _ _ Ef)).
    exact Hi.
Qed.

(* ---------------------------------------------------------------- SELECT *)
Lemma read_rows_ok m : forall rs e, Forall2 (R m) rs e -> all_ok (read_rows ty m rs) = Some e.
Proof.
  induction 1 as [|r [k v] rs e [Hk Hr] _ IH]; [reflexivity|].
  cbn [read_rows all_ok]. cbn [fst snd] in Hk, Hr. rewrite (repr_read _ _ _ _ Hr), IH, Hk. reflexivity.
Qed.

Lemma rows_eqb_refl_inv m : forall rs e, Forall2 (R m) rs e -> rows_eqb e e = true.
Proof.
  induction 1 as [|r [k v] rs e [Hk Hr] _ IH]; [reflexivity|].
  cbn [rows_eqb]. cbn [snd] in Hr. rewrite Z.eqb_refl, (value_eqb_refl v (repr_not_other _ _ _ _ Hr)), IH. reflexivity.
Qed.

Lemma step_query_ok st e st' ob :
  Inv st e -> step_query ty st = (st', ob) ->
  spec_step e (OQuery 0) ob = Some e /\ st' = st.
Proof.
  intros Hi H. unfold step_query in H.
  rewrite (read_rows_ok (toast st) (rows st) e (inv_rows st e Hi)) in H. injection H as <- <-.
  cbn [spec_step]. rewrite (rows_eqb_refl_inv (toast st) (rows st) e (inv_rows st e Hi)). auto.
Qed.

End Step.
