(* C42 -- proofs about the open-file LRU model (Model/LruFile.v). *)
From Coq Require Import ZArith List Bool Lia.
From TV Require Import Model.LruFile.
Import ListNotations.
Open Scope Z_scope.

(* ---------------- association list ---------------- *)
Lemma m_get_in : forall k m, In k (map fst m) <-> m_get k m <> None.
Proof.
  intros k m; induction m as [|[k' v] t IH]; cbn [m_get map fst In].
  - split; [intros []|intros H; now elim H].
  - destruct (Z.eqb_spec k k') as [E|E].
    + subst; split; [discriminate|auto].
    + rewrite <- IH. split; [intros [H|H]; [now elim E|exact H]|auto].
Qed.

Lemma m_has_in : forall k m, m_has k m = true <-> In k (map fst m).
Proof.
  intros k m. rewrite m_get_in. unfold m_has. destruct (m_get k m); split; try discriminate; auto.
Qed.

Lemma m_del_in : forall k x m, In x (map fst (m_del k m)) <-> In x (map fst m) /\ x <> k.
Proof.
  intros k x m; induction m as [|[k' v] t IH]; cbn [m_del map fst In].
  - tauto.
  - destruct (Z.eqb_spec k k') as [E|E]; cbn [map fst In]; rewrite IH; subst; intuition congruence.
Qed.

Lemma m_del_nodup : forall k m, NoDup (map fst m) -> NoDup (map fst (m_del k m)).
Proof.
  intros k m; induction m as [|[k' v] t IH]; cbn [m_del map fst]; intros H.
  - constructor.
  - inversion H as [|? ? Hn Ht]; subst.
    destruct (Z.eqb_spec k k'); [auto|]. cbn [map fst]. constructor; [|auto].
    rewrite m_del_in. tauto.
Qed.

Lemma m_get_del : forall k x m, m_get x (m_del k m) = if x =? k then None else m_get x m.
Proof.
  intros k x m; induction m as [|[k' v] t IH]; cbn [m_del m_get].
  - now destruct (x =? k).
  - destruct (Z.eqb_spec k k') as [E|E]; cbn [m_get]; rewrite IH;
      destruct (Z.eqb_spec x k), (Z.eqb_spec x k'); subst; try reflexivity; congruence.
Qed.

Lemma m_get_set : forall k v x m, m_get x (m_set k v m) = if x =? k then Some v else m_get x m.
Proof.
  intros k v x m. unfold m_set. cbn [m_get]. rewrite m_get_del. now destruct (x =? k).
Qed.

Lemma m_set_in : forall k v x m, In x (map fst (m_set k v m)) <-> x = k \/ In x (map fst m).
Proof.
  intros k v x m. unfold m_set. cbn [map fst In]. rewrite m_del_in.
  destruct (Z.eq_dec x k); intuition congruence.
Qed.

Lemma m_set_nodup : forall k v m, NoDup (map fst m) -> NoDup (map fst (m_set k v m)).
Proof.
  intros k v m H. unfold m_set. cbn [map fst]. constructor; [|now apply m_del_nodup].
  rewrite m_del_in. tauto.
Qed.

(* ---------------- order vector ---------------- *)
Lemma o_has_in : forall k o, o_has k o = true <-> In k o.
Proof.
  intros k o; induction o as [|x t IH]; cbn [o_has In]; [split; [discriminate|tauto]|].
  rewrite orb_true_iff, IH, Z.eqb_eq. intuition congruence.
Qed.

Lemma o_del_in : forall k x o, NoDup o -> (In x (o_del k o) <-> In x o /\ x <> k).
Proof.
  intros k x o; induction o as [|y t IH]; cbn [o_del In]; intros H; [tauto|].
  inversion H as [|? ? Hn Ht]; subst.
  destruct (Z.eqb_spec k y) as [E|E].
  - subst. split; [intros Hx; split; [auto|intros ->; auto]|intros [[->|Hx] Hne]; [now elim Hne|auto]].
  - cbn [In]. rewrite (IH Ht). intuition congruence.
Qed.

Lemma o_del_nodup : forall k o, NoDup o -> NoDup (o_del k o).
Proof.
  intros k o; induction o as [|y t IH]; cbn [o_del]; intros H; [constructor|].
  inversion H as [|? ? Hn Ht]; subst.
  destruct (Z.eqb_spec k y); [auto|]. constructor; [|auto]. rewrite (o_del_in _ _ _ Ht). tauto.
Qed.

Lemma o_del_len_in : forall k o, In k o -> zlen (o_del k o) = zlen o - 1.
Proof.
  unfold zlen. intros k o; induction o as [|y t IH]; cbn [o_del In length]; intros H; [tauto|].
  destruct (Z.eqb_spec k y) as [E|E]; [lia|].
  destruct H as [H|H]; [congruence|]. cbn [length]. specialize (IH H). lia.
Qed.

Lemma o_del_len_le : forall k o, zlen (o_del k o) <= zlen o.
Proof.
  unfold zlen. intros k o; induction o as [|y t IH]; cbn [o_del length]; [lia|].
  destruct (k =? y); cbn [length]; lia.
Qed.

Lemma zlen_app1 : forall (o : list Z) k, zlen (o ++ [k]) = zlen o + 1.
Proof. intros; unfold zlen; rewrite app_length; cbn [length]; lia. Qed.

Lemma nodup_snoc : forall (o : list Z) k, NoDup o -> ~ In k o -> NoDup (o ++ [k]).
Proof.
  intros o k; induction o as [|y t IH]; cbn [app]; intros H Hn.
  - constructor; [intros []|constructor].
  - inversion H as [|? ? Hy Ht]; subst. constructor.
    + rewrite in_app_iff. cbn [In]. intros [Hi|[->|[]]]; [auto|]. apply Hn; now left.
    + apply IH; [auto|]. intros Hi; apply Hn; now right.
Qed.

(* ---------------- invariant ---------------- *)
Lemma inv_new : forall cap, lru_inv (lru_new cap).
Proof.
  intros cap; unfold lru_inv, lru_new; cbn [l_order l_map l_cap map]. unfold zlen; cbn [length].
  repeat split; try constructor; try tauto; lia.
Qed.

Lemma inv_touch : forall k s, lru_inv s -> lru_inv (touch k s).
Proof.
  intros k s (Ho & Hm & Hk & Hl). unfold touch.
  destruct (o_has k (l_order s)) eqn:E; [|repeat split; auto; apply Hk].
  apply o_has_in in E. unfold lru_inv; cbn [l_order l_map l_cap]. repeat split; auto.
  - apply nodup_snoc; [now apply o_del_nodup|]. rewrite (o_del_in _ _ _ Ho). tauto.
  - rewrite in_app_iff, (o_del_in _ _ _ Ho). cbn [In]. intros [[H _]|[<-|[]]]; now apply Hk.
  - rewrite in_app_iff, (o_del_in _ _ _ Ho). cbn [In]. intros H. apply Hk in H.
    destruct (Z.eq_dec k0 k); [right; left; congruence|left; auto].
  - rewrite zlen_app1, (o_del_len_in _ _ E). lia.
Qed.

Lemma touch_map : forall k s, l_map (touch k s) = l_map s.
Proof. intros; unfold touch; now destruct (o_has k (l_order s)). Qed.
Lemma touch_cap : forall k s, l_cap (touch k s) = l_cap s.
Proof. intros; unfold touch; now destruct (o_has k (l_order s)). Qed.

Lemma inv_get : forall k s, lru_inv s -> lru_inv (fst (lru_get k s)).
Proof. intros k s H; unfold lru_get; destruct (m_has k (l_map s)); cbn [fst]; [now apply inv_touch|auto]. Qed.

Lemma inv_pop : forall s, lru_inv s -> lru_inv (fst (lru_pop s)).
Proof.
  intros s (Ho & Hm & Hk & Hl). unfold lru_pop. destruct (l_order s) as [|k t] eqn:Eo; [cbn [fst]; unfold lru_inv; rewrite Eo; auto|].
  assert (Hin : In k (map fst (l_map s))) by (apply Hk; now left).
  apply m_get_in in Hin. destruct (m_get k (l_map s)) as [v|]; [|now elim Hin]. cbn [fst].
  inversion Ho as [|? ? Hnk Ht]; subst.
  unfold lru_inv; cbn [l_order l_map l_cap]. repeat split; auto.
  - now apply m_del_nodup.
  - intros H. rewrite m_del_in. split; [apply Hk; now right|intros ->; auto].
  - rewrite m_del_in. intros [H Hne]. apply Hk in H. destruct H; [congruence|auto].
  - unfold zlen in *. cbn [length] in Hl. lia.
Qed.

Lemma pop_len : forall s, l_order s <> [] -> zlen (l_order (fst (lru_pop s))) = zlen (l_order s) - 1.
Proof.
  intros s H. unfold lru_pop. destruct (l_order s) as [|k t]; [now elim H|].
  destruct (m_get k (l_map s)); cbn [fst l_order]; unfold zlen; cbn [length]; lia.
Qed.
Lemma pop_cap : forall s, l_cap (fst (lru_pop s)) = l_cap s.
Proof. intros s; unfold lru_pop; destruct (l_order s); [auto|]; destruct (m_get _ _); auto. Qed.
Lemma pop_keys : forall s x, In x (l_order (fst (lru_pop s))) -> In x (l_order s).
Proof.
  intros s x. unfold lru_pop. destruct (l_order s) as [|k t] eqn:Eo; [cbn [fst]; rewrite Eo; auto|].
  destruct (m_get k (l_map s)); cbn [fst l_order]; intros H; now right.
Qed.

Lemma inv_insert : forall k v s, lru_inv s -> lru_inv (fst (lru_insert k v s)).
Proof.
  intros k v s H. unfold lru_insert. destruct (m_has k (l_map s)) eqn:Eh.
  - cbn [fst]. pose proof (inv_touch k s H) as (Ho & Hm & Hk & Hl).
    apply m_has_in in Eh. rewrite <- (touch_map k s) in Eh.
    unfold lru_inv; cbn [l_order l_map l_cap]. repeat split; auto.
    + now apply m_set_nodup.
    + intros Hx. rewrite m_set_in. right; now apply Hk.
    + rewrite m_set_in. intros [->|Hx]; apply Hk; auto.
  - assert (Hnk : ~ In k (map fst (l_map s))) by (rewrite <- m_has_in; congruence).
    set (p := if zlen (l_order s) >=? l_cap s then lru_pop s else (s, None)).
    assert (Hp : lru_inv (fst p) /\ l_cap (fst p) = l_cap s
                 /\ (forall x, In x (l_order (fst p)) -> In x (l_order s))
                 /\ zlen (l_order (fst p)) + 1 <= Z.max (l_cap s) 1).
    { subst p. destruct H as (Ho & Hm & Hk & Hl).
      destruct (Z.geb_spec (zlen (l_order s)) (l_cap s)) as [G|G].
      - split; [apply inv_pop; repeat split; auto; apply Hk|]. split; [apply pop_cap|]. split; [apply pop_keys|].
        destruct (l_order s) as [|y t] eqn:Eo.
        + unfold lru_pop; rewrite Eo; cbn [fst]; rewrite Eo. unfold zlen; cbn [length]. lia.
        + rewrite pop_len by (rewrite Eo; discriminate). rewrite Eo in *. lia.
      - cbn [fst]. repeat split; auto; try apply Hk. lia. }
    destruct p as [s1 ev]. cbn [fst] in *. destruct Hp as ((Ho & Hm & Hk & Hl) & Hc & Hsub & Hlen).
    unfold lru_inv; cbn [l_order l_map l_cap]. rewrite Hc.
    assert (Hn1 : ~ In k (l_order s1)).
    { intros Hi. apply Hsub in Hi. destruct H as (_ & _ & Hks & _). apply Hks in Hi. auto. }
    repeat split.
    + now apply nodup_snoc.
    + now apply m_set_nodup.
    + rewrite in_app_iff, m_set_in. cbn [In]. intros [Hx|[<-|[]]]; [right; now apply Hk|now left].
    + rewrite in_app_iff, m_set_in. cbn [In]. intros [->|Hx]; [right; now left|left; now apply Hk].
    + rewrite zlen_app1. lia.
Qed.

Lemma inv_remove : forall k s, lru_inv s -> lru_inv (fst (lru_remove k s)).
Proof.
  intros k s (Ho & Hm & Hk & Hl). unfold lru_remove, lru_inv; cbn [fst l_order l_map l_cap]. repeat split.
  - now apply o_del_nodup.
  - now apply m_del_nodup.
  - rewrite (o_del_in _ _ _ Ho), m_del_in. intros [Hx Hne]; split; [now apply Hk|auto].
  - rewrite (o_del_in _ _ _ Ho), m_del_in. intros [Hx Hne]; split; [now apply Hk|auto].
  - pose proof (o_del_len_le k (l_order s)). lia.
Qed.

Lemma inv_step : forall s o, lru_inv s -> lru_inv (fst (lru_step s o)).
Proof.
  intros s o H. destruct o as [k|k|k v| |k|]; unfold lru_step.
  - pose proof (inv_get k s H). destruct (lru_get k s); auto.
  - pose proof (inv_get k s H). destruct (lru_get k s); auto.
  - pose proof (inv_insert k v s H). destruct (lru_insert k v s); auto.
  - pose proof (inv_pop s H). destruct (lru_pop s); auto.
  - pose proof (inv_remove k s H). destruct (lru_remove k s); auto.
  - auto.
Qed.

Lemma inv_run : forall ops s, lru_inv s -> lru_inv (fst (lru_run s ops)).
Proof.
  induction ops as [|o t IH]; intros s H; cbn [lru_run fst]; [auto|].
  pose proof (inv_step s o H) as H1. destruct (lru_step s o) as [s1 r]. cbn [fst] in H1.
  specialize (IH s1 H1). destruct (lru_run s1 t) as [s2 rs]. auto.
Qed.

Lemma lru_inv_reachable_l : forall cap ops, lru_inv (fst (lru_run (lru_new cap) ops)).
Proof. intros; apply inv_run, inv_new. Qed.

(* the number of cached handles never exceeds the limit (limit 0 behaves like 1) *)
Lemma map_len_order : forall s, lru_inv s -> lru_len s = zlen (l_order s).
Proof.
  intros s (Ho & Hm & Hk & _). unfold lru_len, zlen. f_equal.
  rewrite <- (map_length fst (l_map s)).
  apply Nat.le_antisymm; apply NoDup_incl_length; auto; intros x Hx; now apply Hk.
Qed.

Lemma lru_len_bounded_l : forall cap ops, lru_len (fst (lru_run (lru_new cap) ops)) <= Z.max cap 1.
Proof.
  intros cap ops. pose proof (lru_inv_reachable_l cap ops) as H.
  rewrite (map_len_order _ H). destruct H as (_ & _ & _ & Hl).
  assert (Hc : forall ops s, l_cap (fst (lru_run s ops)) = l_cap s).
  { clear. induction ops as [|o t IH]; intros s; cbn [lru_run fst]; [auto|].
    assert (l_cap (fst (lru_step s o)) = l_cap s).
    { destruct o as [k|k|k v| |k|]; unfold lru_step, lru_get, lru_insert, lru_remove; cbn [fst].
      - destruct (m_has k (l_map s)); cbn [fst]; [apply touch_cap|auto].
      - destruct (m_has k (l_map s)); cbn [fst]; [apply touch_cap|auto].
      - destruct (m_has k (l_map s)); cbn [fst l_cap]; [apply touch_cap|].
        destruct (zlen (l_order s) >=? l_cap s); [|auto].
        pose proof (pop_cap s). destruct (lru_pop s); cbn [fst l_cap] in *; auto.
      - pose proof (pop_cap s). destruct (lru_pop s); auto.
      - auto.
      - auto. }
    destruct (lru_step s o) as [s1 r]. cbn [fst] in *. specialize (IH s1).
    destruct (lru_run s1 t) as [s2 rs]. cbn [fst] in *. congruence. }
  rewrite Hc in Hl. exact Hl.
Qed.

(* ---------------- transparency ---------------- *)
Definition vals_ok (F : Z -> Z) (s : lru) : Prop := forall k v, m_get k (l_map s) = Some v -> v = F k.

Lemma vals_pop : forall F s, vals_ok F s -> vals_ok F (fst (lru_pop s)).
Proof.
  intros F s H. unfold lru_pop. destruct (l_order s) as [|k t]; [auto|].
  destruct (m_get k (l_map s)) eqn:E; cbn [fst]; [|exact H].
  intros x v. cbn [l_map]. rewrite m_get_del. destruct (x =? k); [discriminate|apply H].
Qed.

Lemma f_step_ok : forall F s o, vals_ok F s ->
  snd (f_step F s o) = f_spec F o /\ vals_ok F (fst (f_step F s o)).
Proof.
  intros F s o H. destruct o as [k|k|]; cbn [f_step f_spec].
  - unfold lru_get. destruct (m_has k (l_map s)) eqn:Eh.
    + rewrite touch_map. unfold m_has in Eh. destruct (m_get k (l_map s)) as [v|] eqn:Eg; [|discriminate].
      cbn [fst snd]. split; [f_equal; now apply H|]. intros x w. rewrite touch_map. apply H.
    + cbn [fst snd]. split; [reflexivity|].
      unfold lru_insert. rewrite Eh.
      assert (Hq : vals_ok F (fst (if zlen (l_order s) >=? l_cap s then lru_pop s else (s, None)))).
      { destruct (zlen (l_order s) >=? l_cap s); [now apply vals_pop|exact H]. }
      destruct (if zlen (l_order s) >=? l_cap s then lru_pop s else (s, None)) as [s1 ev]. cbn [fst] in *.
      intros x w. cbn [l_map]. rewrite m_get_set. destruct (Z.eqb_spec x k); [intros E; inversion E; subst; auto|apply Hq].
  - cbn [fst snd lru_remove]. split; [reflexivity|]. intros x w. cbn [l_map]. rewrite m_get_del.
    destruct (x =? k); [discriminate|apply H].
  - cbn [snd]. split; [reflexivity|now apply vals_pop].
Qed.

Lemma f_run_ok : forall F ops s, vals_ok F s -> snd (f_run F s ops) = map (f_spec F) ops.
Proof.
  intros F ops; induction ops as [|o t IH]; intros s H; cbn [f_run map snd]; [reflexivity|].
  pose proof (f_step_ok F s o H) as [H1 H2]. destruct (f_step F s o) as [s1 r]. cbn [fst snd] in *.
  specialize (IH s1 H2). destruct (f_run F s1 t) as [s2 rs]. cbn [snd] in *. congruence.
Qed.

Lemma lru_transparent_l : forall F cap ops, snd (f_run F (lru_new cap) ops) = map (f_spec F) ops.
Proof. intros; apply f_run_ok. intros k v; cbn; discriminate. Qed.

(* two cache sizes, same answers *)
Lemma lru_capacity_irrelevant_l :
  forall F cap1 cap2 ops, snd (f_run F (lru_new cap1) ops) = snd (f_run F (lru_new cap2) ops).
Proof. intros. now rewrite !lru_transparent_l. Qed.

(* ---------------- least-recently-used eviction, and nothing else is lost ---------------- *)
Lemma lru_insert_frame_l :
  forall k v s, lru_inv s ->
    let '(s', ev) := lru_insert k v s in
    m_get k (l_map s') = Some v
    /\ (forall x, x <> k -> (match ev with Some (e, _) => x <> e | None => True end) -> m_get x (l_map s') = m_get x (l_map s))
    /\ match ev with
       | Some (e, w) => m_has k (l_map s) = false /\ zlen (l_order s) >= l_cap s
                        /\ hd_error (l_order s) = Some e /\ m_get e (l_map s) = Some w
       | None => True
       end.
Proof.
  intros k v s H. unfold lru_insert. destruct (m_has k (l_map s)) eqn:Eh.
  - cbn [l_map]. rewrite touch_map. split; [rewrite m_get_set, Z.eqb_refl; auto|]. split; [|auto].
    intros x Hx _. rewrite m_get_set. destruct (Z.eqb_spec x k); [congruence|auto].
  - destruct (Z.geb_spec (zlen (l_order s)) (l_cap s)) as [G|G].
    + unfold lru_pop. destruct (l_order s) as [|e t] eqn:Eo.
      * cbn [l_map]. split; [rewrite m_get_set, Z.eqb_refl; auto|]. split; [|auto].
        intros x Hx _. rewrite m_get_set. destruct (Z.eqb_spec x k); [congruence|auto].
      * destruct H as (Ho & Hm & Hk & Hl).
        assert (Hin : In e (map fst (l_map s))) by (apply Hk; rewrite Eo; now left).
        apply m_get_in in Hin. destruct (m_get e (l_map s)) as [w|] eqn:Eg; [|now elim Hin].
        cbn [l_map]. split; [rewrite m_get_set, Z.eqb_refl; auto|]. split.
        -- intros x Hx Hxe. rewrite m_get_set, m_get_del.
           destruct (Z.eqb_spec x k); [congruence|]. destruct (Z.eqb_spec x e); [congruence|auto].
        -- repeat split; auto. lia.
    + cbn [l_map]. split; [rewrite m_get_set, Z.eqb_refl; auto|]. split; [|auto].
      intros x Hx _. rewrite m_get_set. destruct (Z.eqb_spec x k); [congruence|auto].
Qed.
