"""Registry of the properties that have a check: one JSON file per property in tools/props.d/.
   gen_modules    coq/Gen modules regenerated from /repo by tools/rs2v.py
   model_targets  .vo files that only contain definitions (must build even when a proof breaks)
   proof_targets  .vo files holding the lemmas (Props/<id>.vo is always rebuilt on top)
   rule           how cases are generated and what makes one non-trivial (goes into the evidence)
   trusted_base / assumptions   copied into the evidence
   claim          {category, text, design_ref, level_note, technique} -> MANIFEST.json
   optional: coq_timeout, harness_timeout, search_timeout, search_budget, axiom_allow, level
"""
import glob
import json
import os

KERNEL = 'Coq 8.16.1 kernel (coqc, full .vo build, vm_compute used for evaluating the model on cases; no native_compute)'
RS2V = 'tools/rs2v.py translator (Rust integer subset -> Gallina), trusted to preserve meaning; cross-checked by the correspondence run'
HARNESS = 'harness/ (Rust, links /repo built with --cfg kahflane_turdb_verif) prints the implementation behaviour as Coq terms; trusted to report it faithfully'

PROPS = {}
for _p in sorted(glob.glob(os.path.join(os.path.dirname(os.path.abspath(__file__)), 'props.d', 'C*.json'))):
    _pid = os.path.basename(_p)[:-5]
    PROPS[_pid] = json.load(open(_p))
