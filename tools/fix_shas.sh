#!/bin/sh
# /repo history was rewritten once (a stray backup file was dropped from a hook commit):
# map the old short ids that may have been written into notes to the new ones
cd "$(dirname "$0")/.." || exit 2
while read old new; do
  grep -rl "$old" known_findings.d tools/props.d fixes coq/Props coq/Model coq/Corr coq/Proof DESIGN.md AGENT_GUIDE.md build/prompts 2>/dev/null | while read f; do sed -i "s/$old[0-9a-f]*/$new/g" "$f"; done
done < tools/sha_map.txt
