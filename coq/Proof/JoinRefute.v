(* C17 witnesses.
   (a) Regression witnesses of the finding classes REPAIRED in /repo (1: dff11cf, 3 residual: 5934993,
       4: 0005072, 8: 755317f, 2: b0661ca, 10: 2cb4862 + 07d36f7): on the cases that used to fail, the
       models of the repaired code return what the implementation now returns, and that is the SQL
       join.  (Historical: before the repairs the same cases were proved to be answered wrongly by the
       models of the old code -- Int 1 / Float 1.0 never met in the grace hash join, `ON a1 = b1 AND
       a2 < b2` lost its second conjunct, LEFT JOIN .. WHERE kept NULL-padded rows that fail WHERE,
       0.0 / -0.0 keys never met in the hand-written hash path.)
   (b) w3s: the last two-table class (3: bare names, equality between two columns of the same input,
       repaired by 824c6c8) -- same statement.
   The observed rows are those of the run that recorded the witnesses; every check re-runs them. *)
From Coq Require Import ZArith List Bool.
From TV Require Import Corr.C17.
Import ListNotations.
Open Scope Z_scope.

Definition w1 : case :=
  Exec AGraceDyn JInner 4 None false [0%nat] [0%nat] 2%nat 2%nat
    [([VInt 1; VInt 10], 2206609067086327257); ([VInt 2; VInt 20], 11876854719037224982)]
    [([VFloat 4607182418800017408; VInt 100], 2206609067086327257); ([VInt 2; VInt 200], 11876854719037224982)]
    (ORows [[VInt 1; VInt 10; VFloat 4607182418800017408; VInt 100]; [VInt 2; VInt 20; VInt 2; VInt 200]]).

Definition ta3 : table := [[VInt 1; VInt 1; VInt 10]; [VInt 2; VInt 1; VInt 20]; [VInt 3; VNull; VInt 30]].
Definition tb3 : table := [[VInt 1; VInt 1; VInt 100]; [VInt 2; VInt 1; VInt 5]].
Definition w3 : case :=
  Sql (mkq [(3%nat, ta3); (3%nat, tb3)] [(JInner, Some (EAnd (ECmp CEq (ECol 1) (ECol 4)) (ECmp CLt (ECol 2) (ECol 5))))] None (Some [0%nat; 3%nat]))
      false [] true [ORows [[VInt 1; VInt 1]; [VInt 2; VInt 1]]].
Definition w4 : case :=
  Sql (mkq [(3%nat, ta3); (3%nat, tb3)] [(JLeft, Some (ECmp CEq (ECol 1) (ECol 4)))] (Some (ECmp CEq (ECol 2) (ELit (VInt 10)))) (Some [0%nat; 3%nat]))
      false [] true [ORows [[VInt 1; VInt 1]; [VInt 1; VInt 2]]].
Definition w8 : case :=
  Sql (mkq [(2%nat, [[VInt 1; VFloat 0]; [VInt 2; VFloat 4607182418800017408]]);
            (2%nat, [[VInt 1; VFloat 9223372036854775808]; [VInt 2; VFloat 4607182418800017408]])]
           [(JInner, Some (ECmp CEq (ECol 1) (ECol 3)))] None (Some [0%nat; 2%nat]))
      false [] true [ORows [[VInt 1; VInt 1]; [VInt 2; VInt 2]]].
Definition w2 : case :=
  Sql (mkq [(3%nat, ta3); (3%nat, tb3)] [(JInner, Some (ECmp CEq (ECol 1) (ECol 4)))] None None)
      false [] true [ORows [[VInt 1; VInt 1; VInt 10; VInt 1; VInt 1; VInt 100]; [VInt 2; VInt 1; VInt 20; VInt 1; VInt 1; VInt 100];
                         [VInt 1; VInt 1; VInt 10; VInt 2; VInt 1; VInt 5]; [VInt 2; VInt 1; VInt 20; VInt 2; VInt 1; VInt 5]]].
Definition w10 : case :=
  Sql (mkq [(3%nat, ta3); (3%nat, tb3)] [(JInner, Some (ECmp CLe (ECol 1) (ECol 4)))] (Some (ECmp CEq (ECol 3) (ELit (VInt 1)))) (Some [0%nat; 3%nat]))
      true [] true [ORows [[VInt 1; VInt 1]; [VInt 2; VInt 1]]].

(* LEFT JOIN tb ON a1 = b1 AND a1 = a2, bare names (the same-side equality used to be dropped) *)
Definition w3s : case :=
  Sql (mkq [(3%nat, [[VInt 1; VInt 1; VInt 1]; [VInt 2; VInt 1; VInt 2]; [VInt 3; VNull; VInt 3]]); (2%nat, [[VInt 1; VInt 1]; [VInt 2; VInt 2]])]
           [(JLeft, Some (EAnd (ECmp CEq (ECol 1) (ECol 4)) (ECmp CEq (ECol 1) (ECol 2))))] None (Some [0%nat; 3%nat]))
      false [] true [ORows [[VInt 1; VInt 1]; [VInt 2; VNull]; [VInt 3; VNull]]].

Definition repaired (c : case) : bool := model_agrees c && spec_ok c && (known_class c =? 0).

Lemma repaired_classes_regression_l :
  repaired w1 = true /\ repaired w2 = true /\ repaired w3 = true /\ repaired w4 = true /\ repaired w8 = true /\ repaired w10 = true /\ repaired w3s = true.
Proof. vm_compute. repeat split. Qed.

(* no finding class is left for two-table joins *)
Lemma two_table_classes_closed_l : forall t1 t2 j w sel qual, cls_sql (mkq [t1; t2] [j] w sel) qual = 0.
Proof. intros. reflexivity. Qed.

(* the hash hypothesis of grace_is_sql_join now holds on the former class-1 witness: the keys
   Int 1 and Float 1.0 match AND carry the same DefaultHasher value (hash_join_key) *)
Lemma hash_respects_on_w1_l :
  keys_match_static [VInt 1; VInt 10] [VFloat 4607182418800017408; VInt 100] [0%nat] [0%nat] = true /\
  (match w1 with Exec _ _ _ _ _ _ _ _ _ L R _ =>
     forallb (fun l => forallb (fun r => implb (keys_match_static (fst l) (fst r) [0%nat] [0%nat]) (snd l =? snd r)) R) L
   | _ => false end) = true.
Proof. vm_compute. split; reflexivity. Qed.

(* the static GraceHashJoinExecutor's own keys_match lets unrelated types "match" once their hashes
   collide; with such a (hypothetical) hash oracle its output is not the SQL join -- the theorem for
   that executor therefore needs the hash to be injective on keys, not merely to respect the match *)
Lemma grace_static_mixed_types_l :
  keys_match_gs [VInt 5] [VText [120]] [0%nat] [0%nat] = true /\
  exec_model AGraceStatic JInner 1 None false [0%nat] [0%nat] 1 1 [([VInt 5], 7)] [([VText [120]], 7)]
    = XRows [[VInt 5; VText [120]]].
Proof. vm_compute. split; reflexivity. Qed.
