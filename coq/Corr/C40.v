(* C40 correspondence: judge what the harness observed on the real CatalogPersistence /
   Database (printed as `case` terms) against the hand-written model (Model/Catalog.v,
   Model/CatalogDisk.v) and against the property's own oracle.  Evaluated by vm_compute;
   definitions only. *)
From Coq Require Import ZArith List Bool.
From TV Require Import Lib.MachInt.
From TV Require Export Model.Catalog Model.CatalogDisk.   (* case files name their constructors *)
Import ListNotations.
Open Scope Z_scope.

(* ------------------------------------------------------------------ structural equality *)
Fixpoint list_eqb {A} (e : A -> A -> bool) (a b : list A) : bool :=
  match a, b with
  | [], [] => true
  | x :: a', y :: b' => e x y && list_eqb e a' b'
  | _, _ => false
  end.
Definition opt_eqb {A} (e : A -> A -> bool) (a b : option A) : bool :=
  match a, b with
  | None, None => true
  | Some x, Some y => e x y
  | _, _ => false
  end.
Definition str_eqb : str -> str -> bool := zlist_eqb.
Definition action_eqb (a b : option ref_action) : bool := enc_action a =? enc_action b.
Definition constr_eqb (a b : constr) : bool :=
  match a, b with
  | CNotNull, CNotNull | CPrimaryKey, CPrimaryKey | CUnique, CUnique | CAutoIncrement, CAutoIncrement => true
  | CForeignKey t c d u, CForeignKey t' c' d' u' =>
      str_eqb t t' && str_eqb c c' && action_eqb d d' && action_eqb u u'
  | CCheck e, CCheck e' => str_eqb e e'
  | _, _ => false
  end.
Definition column_eqb (a b : column) : bool :=
  str_eqb (col_name a) (col_name b) && (col_type a =? col_type b)
  && list_eqb constr_eqb (col_constraints a) (col_constraints b)
  && opt_eqb str_eqb (col_default a) (col_default b)
  && opt_eqb Z.eqb (col_max_length a) (col_max_length b).
Definition ic_kind_eqb (a b : ic_kind) : bool :=
  match a, b with
  | ICColumn x, ICColumn y => str_eqb x y
  | ICExpr x, ICExpr y => str_eqb x y
  | _, _ => false
  end.
Definition idx_col_eqb (a b : idx_col) : bool :=
  ic_kind_eqb (ic_what a) (ic_what b) && Bool.eqb (ic_desc a) (ic_desc b).
Definition index_eqb (a b : index) : bool :=
  str_eqb (ix_name a) (ix_name b) && list_eqb idx_col_eqb (ix_cols a) (ix_cols b)
  && Bool.eqb (ix_unique a) (ix_unique b) && Bool.eqb (ix_hnsw a) (ix_hnsw b)
  && opt_eqb str_eqb (ix_where a) (ix_where b).
Definition table_eqb (a b : table) : bool :=
  (t_id a =? t_id b) && str_eqb (t_name a) (t_name b)
  && list_eqb column_eqb (t_columns a) (t_columns b)
  && opt_eqb (list_eqb str_eqb) (t_pk a) (t_pk b)
  && list_eqb index_eqb (t_indexes a) (t_indexes b)
  && opt_eqb Z.eqb (t_toast a) (t_toast b).

(* catalogs are maps (schema name -> id, table name -> table): equality up to order *)
Definition tables_sub (a b : list table) : bool :=
  forallb (fun t => match find_table_in b (t_name t) with Some t' => table_eqb t t' | None => false end) a.
Definition schema_sub (c : catalog) (s : schema) : bool :=
  match find_schema c (s_name s) with
  | Some s' => (s_id s =? s_id s') && tables_sub (s_tables s) (s_tables s')
               && (zlen (s_tables s) =? zlen (s_tables s'))
  | None => false
  end.
Definition cat_eqb (a b : catalog) : bool :=
  forallb (schema_sub b) a && forallb (schema_sub a) b && (zlen a =? zlen b).

(* ------------------------------------------------------------------ what the harness reports *)
(* long runs of one byte are printed as (rep b n) *)
Definition rep (b n : Z) : list Z := repeat b (Z.to_nat n).

(* LSame (Codec only): the loaded catalog, printed with schemas and tables sorted by name, is
   character for character the built one printed the same way *)
Inductive load_out := LOk (c : catalog) | LErr | LPanic | LSame.
(* Database::open: OOk m = opened, m of the expected tables could not be queried *)
Inductive open_out := OOk (missing : Z) | OErr | OPanic | OSkip.
(* names only: (schema, table, index names) *)
Definition tsum := (str * str * list str)%type.
Inductive pout := POk (ts : list tsum) | PErr | PPanic.
(* what a DDL history is expected to have left: (schema, table, [(index, has expression column, partial)]) *)
Definition eidx := (str * bool * bool)%type.
Definition etab := (str * str * list eidx)%type.

Inductive orun := ORun (lo hi : Z) (p : pout) (o : open_out).

Inductive case :=
(* catalog built through the schema API (schemas / tables in HashMap iteration order);
   sflag: CatalogPersistence::serialize returned 0 Ok / 1 Err / 2 panicked; same: the bytes of
   serialize equal the file contents after the 128-byte header; flen, fhash: length and FNV-1a
   64 hash of the file save wrote; l: CatalogPersistence::load of that file into Catalog::new() *)
| Codec (c : catalog) (sflag : Z) (same : bool) (flen fhash : Z) (l : load_out)
(* CatalogPersistence::deserialize(bytes, &mut Catalog::new()) *)
| Dec (bs : list Z) (l : load_out)
(* CatalogPersistence::load of a file with these contents *)
| LoadF (f : list Z) (l : load_out)
(* a history of real DDL statements on a Database, then drop; the catalog file it left, load of
   it, Database::open of the directory; schemas: user schemas the history created; gone: schemas
   the history dropped (and did not create again) *)
| Ddl (schemas gone : list str) (expect : list etab) (file : list Z) (l : load_out) (o : open_out)
(* one more DDL statement on a database whose catalog file was oldfile (old: the tables and
   indexes in it that the statement does not itself drop), leaving file.
   evs: the io_event hook calls (path, kind, a, b) the statement made for turdb.catalog (path 0)
   and turdb.catalog.tmp (path 1): kind 4 create/truncate, 8 write at offset a of b bytes,
   2 sync_all, 7 renamed onto this path.
   inplace: the catalog file kept its inode, i.e. it was rewritten in place (the protocol before
   /repo 5a0cf56) -- then observation n = the first n bytes of file in place of the catalog
   (n = -1: oldfile).  Otherwise (temporary file + rename): n = -1 the old catalog and no
   temporary file; 0 <= n <= len: the old catalog and a temporary file holding the first n bytes
   of file; n > len: after the rename, file is the catalog.
   ORun lo hi p o: every n in lo..hi gave load outcome p and open outcome o *)
| Crash (inplace : bool) (evs : list (Z * Z * Z * Z)) (old : list tsum) (oldfile file : list Z) (obs : list orun).

(* ------------------------------------------------------------------ model side *)
Definition fnv_step (h b : Z) : Z := Z.land (Z.lxor h b * 1099511628211) 18446744073709551615.
Definition fnv (bs : list Z) : Z := fold_left fnv_step bs 14695981039346656037.
Definition codec_loaded (cat : catalog) (l : load_out) : load_out :=
  match l with LSame => LOk cat | x => x end.
Fixpoint zrange (n : nat) (lo : Z) : list Z :=
  match n with O => [] | S m => lo :: zrange m (lo + 1) end.
Definition expand_obs (obs : list orun) : list (Z * pout * open_out) :=
  flat_map (fun r => match r with ORun lo hi p o => map (fun n => (n, p, o)) (zrange (Z.to_nat (hi - lo + 1)) lo) end) obs.
Definition load_eq (r : res catalog) (l : load_out) : bool :=
  match r, l with
  | Ok c, LOk c' => cat_eqb c c'
  | Err, LErr => true
  | _, _ => false
  end.
Definition open_agrees (r : res catalog) (o : open_out) : bool :=
  match o, r with
  | OSkip, _ => true
  | OOk m, Ok _ => m =? 0
  | OErr, Err => true
  | _, _ => false
  end.

Definition summary (c : catalog) : list tsum :=
  flat_map (fun s => map (fun t => (s_name s, t_name t, map ix_name (t_indexes t))) (s_tables s)) c.
Definition strs_sub (a b : list str) : bool := forallb (fun x => existsb (str_eqb x) b) a.
Definition tsum_in (ts : list tsum) (t : tsum) : bool :=
  existsb (fun u => str_eqb (fst (fst u)) (fst (fst t)) && str_eqb (snd (fst u)) (snd (fst t))
                    && strs_sub (snd t) (snd u)) ts.
Definition tsums_sub (a b : list tsum) : bool := forallb (tsum_in b) a.
Definition tsums_eq (a b : list tsum) : bool := tsums_sub a b && tsums_sub b a && (zlen a =? zlen b).

(* the model's event list as the hook would report it (the directory fsync has no hook) *)
Fixpoint ev_codes (off : Z) (p : list ev) : list (Z * Z * Z * Z) :=
  match p with
  | [] => []
  | EvCreate q :: r => (q, 4, 0, 0) :: ev_codes 0 r
  | EvWrite q d :: r => (q, 8, off, zlen d) :: ev_codes (off + zlen d) r
  | EvSync q :: r => (q, 2, 0, 0) :: ev_codes off r
  | EvRename _ q :: r => (q, 7, 0, 0) :: ev_codes off r
  | EvSyncDir :: r => ev_codes off r
  end.
Definition zzzz_eqb (a b : Z * Z * Z * Z) : bool :=
  match a, b with (w, x, y, z), (w', x', y', z') => (w =? w') && (x =? x') && (y =? y') && (z =? z') end.

Definition crash_point (inplace : bool) (flen n : Z) : nat * nat :=
  if n <? 0 then (0%nat, 0%nat)
  else if inplace then prefix_point n
  else if n <=? flen then prefix_point n else (6%nat, 0%nat).
Definition crash_prog (inplace : bool) (file : list Z) : list ev :=
  if inplace then save_inplace (firstn 128 file) (skipn 128 file)
  else save_atomic (firstn 128 file) (skipn 128 file).
(* the model's catalog after a crash at the point that leaves observation n *)
Definition crash_load (inplace : bool) (oldfile file : list Z) (n : Z) : res catalog :=
  let '(k, j) := crash_point inplace (zlen file) n in
  load_view (kill_view (run_to (crash_prog inplace file) k j (init_fs oldfile None)) p_catalog).
Definition pout_eq (r : res catalog) (p : pout) : bool :=
  match r, p with
  | Ok c, POk ts => tsums_eq (summary c) ts
  | Err, PErr => true
  | _, _ => false
  end.

Definition model_agrees (c : case) : bool :=
  match c with
  | Codec cat sflag same flen fhash l =>
      match save_parts cat with
      | Some (h, b) => (sflag =? 0) && same && (flen =? zlen (h ++ b)) && (fhash =? fnv (h ++ b))
                       && load_eq (load_file (h ++ b)) (codec_loaded cat l)
      | None => (sflag =? 1)
      end
  | Dec bs l => load_eq (deserialize bs base_catalog) l
  | LoadF f l => load_eq (load_file f) l
  | Ddl _ _ _ file l o => load_eq (load_file file) l && open_agrees (load_file file) o
  | Crash inplace evs old oldfile file obs =>
      (* the statement issued exactly the model's events on the catalog / the temporary file *)
      list_eqb zzzz_eqb evs (ev_codes 0 (crash_prog inplace file)) &&
      forallb (fun ob => match ob with (n, p, o) =>
                 let r := crash_load inplace oldfile file n in pout_eq r p && open_agrees r o end) (expand_obs obs)
  end.

(* ------------------------------------------------------------------ the property's oracle *)
Definition eidx_ok (ixs : list index) (e : eidx) : bool :=
  match e with (n, has_expr, partial) =>
    existsb (fun i => str_eqb (ix_name i) n
                      && Bool.eqb (negb (forallb (fun c => match ic_what c with ICColumn _ => true | ICExpr _ => false end) (ix_cols i))) has_expr
                      && Bool.eqb (match ix_where i with Some _ => true | None => false end) partial) ixs
  end.
Definition etab_ok (c : catalog) (e : etab) : bool :=
  match e with (sn, tn, ixs) =>
    match find_table c sn tn with
    | Some t => forallb (eidx_ok (t_indexes t)) ixs
    | None => false
    end
  end.
Definition obs_ok (old : list tsum) (ob : Z * pout * open_out) : bool :=
  match ob with
  | (_, POk ts, o) => tsums_sub old ts && match o with OOk m => m =? 0 | OSkip => true | _ => false end
  | _ => false
  end.

Definition spec_ok (c : case) : bool :=
  match c with
  | Codec cat sflag same flen fhash l =>
      (* every catalog within the field widths of the format must come back identical *)
      if wf_catalog cat then
        match codec_loaded cat l with LOk c' => (sflag =? 0) && cat_eqb cat c' | _ => false end
      else true
  | Dec _ _ | LoadF _ _ => true             (* malformed input is C23's subject; here only model vs code *)
  | Ddl schemas gone expect file l o =>
      match l, o with
      | LOk c', OOk m => (m =? 0) && forallb (etab_ok c') expect
                         && forallb (fun s => match find_schema c' s with Some _ => true | None => false end) schemas
                         && forallb (fun s => match find_schema c' s with Some _ => false | None => true end) gone
      | _, _ => false
      end
  | Crash inplace evs old oldfile file obs => forallb (obs_ok old) (expand_obs obs)
  end.

(* ------------------------------------------------------------------ known findings *)
(* 1: a built-in schema is missing from the catalog or has another id (DROP SCHEMA root): it is
      back / has the built-in id again after a load
   2: an index with an expression column or a WHERE clause (both lost)
   3: (fixed, /repo 5a0cf56) crash inside the in-place rewrite of the catalog file
   (the former class of F-C40-2, user schemas unloadable, is gone: fixed by /repo 0f25949) *)
Definition etab_plain (e : etab) : bool :=
  forallb (fun i : eidx => negb (snd (fst i)) && negb (snd i)) (snd e).
Definition known_class (c : case) : Z :=
  match c with
  | Codec cat _ _ _ _ _ => if wf_catalog cat then codec_class cat else 0
  | Dec _ _ | LoadF _ _ => 0
  | Ddl schemas gone expect _ _ _ =>
      if existsb (fun g => str_eqb g name_root || str_eqb g name_syscat) gone then 1
      else if forallb etab_plain expect then 0 else 2
  | Crash inplace evs old oldfile file obs =>
      (* only if every observation that fails the oracle is a crash point inside the rewrite *)
      let h := firstn 128 file in
      let b := skipn 128 file in
      let bad := filter (fun ob => negb (obs_ok old ob)) (expand_obs obs) in
      match bad with
      | [] => 0
      | _ => if inplace && forallb (fun ob => match ob with (n, _, _) =>
                                      (0 <=? n) && let '(k, j) := prefix_point n in inside_rewrite h b k j end) bad
             then 3 else 0
      end
  end.

Fixpoint failures_from (i : Z) (cs : list case) : list (Z * bool * bool * Z) :=
  match cs with
  | [] => []
  | c :: t =>
      let m := model_agrees c in
      let s := spec_ok c in
      if m && s then failures_from (i + 1) t else (i, m, s, known_class c) :: failures_from (i + 1) t
  end.
Definition failures := failures_from 0.
