(* C24 model, SQL level: how `SELECT .. ORDER BY vec <-> q [LIMIT k]` / `vec <=> q` orders
   rows (src/sql/executor.rs).  Definitions only, hand-written.

   * the sort key of a row is computed by eval_binary_op_standalone in f64:
       <->  sqrt( sum ((a_i - b_i) as f64)^2 )                      (Null if the lengths differ)
       <=>  1.0 - dot / (sqrt(sum a_i^2) * sqrt(sum b_i^2))         (Null if a magnitude is not > 0)
     modelled on integer-valued components small enough for the sums to be exact
     (|x| <= 2^20, <= 70 components): the sums are computed in Z, the remaining f64
     operations with Coq.Floats.SpecFloat at prec 53 / emax 1024;
   * keys are compared by Value::compare_for_sort (as of commit 26fae1f): Null = Null,
     Null < every non-Null value, otherwise compare(..).unwrap_or(Equal) -- so a NaN key still
     compares Equal to every float (not transitive; NaN cannot arise from the integer-valued
     tables of the correspondence).  Before 26fae1f a Null key compared Equal to EVERYTHING
     (finding F-C24-1, fixed);
   * no LIMIT: DynamicExecutor::Sort = `rows.sort_by(cmp)`, a stable sort.  For a
     comparison that is a total preorder every stable sort returns the same list; for an
     inconsistent comparison (NaN keys) the result depends on the algorithm: Rust's slice::sort_by
     is an insertion sort (insert_tail: shift the new element left while it is_less than
     its predecessor) for slices of at most 20 elements.  [isort] is that insertion sort;
     it is the model of sort_by when no key is NaN or the slice has <= 20
     elements ([sort_modelled]);
   * LIMIT k: DynamicExecutor::TopK keeps a binary max-heap of k rows in a Vec: the first k
     rows are pushed, then sorted in DESCENDING order (a descending array is a max-heap);
     every later row -- when k > 0 (the guard `else if heap_size > 0` of commit 1f0a068;
     before it LIMIT 0 indexed heap[0] of an empty Vec and panicked, finding F-C24-2, fixed) --
     that compares Less than heap[0] replaces it and is sifted down;
     at the end the heap is sorted ascending and the first k rows are returned. *)
From Coq Require Import ZArith List Bool Arith Floats.SpecFloat.
Import ListNotations.

(* ------------------------------------------------------------------ generic ordering machinery *)
Section Order.
  Context {A : Type} (cmp : A -> A -> comparison).

  Definition c_less (a b : A) : bool := match cmp a b with Lt => true | _ => false end.
  Definition c_greater (a b : A) : bool := match cmp a b with Gt => true | _ => false end.

  (* insert_tail on the reversed sorted prefix: [x] moves left past every predecessor it is less than *)
  Fixpoint insert_rev (less : A -> A -> bool) (x : A) (rp : list A) : list A :=
    match rp with
    | [] => [x]
    | p :: r => if less x p then p :: insert_rev less x r else x :: rp
    end.
  (* insertion_sort_shift_left(v, 1, is_less) *)
  Definition isort (less : A -> A -> bool) (l : list A) : list A :=
    rev (fold_left (fun rp x => insert_rev less x rp) l []).

  Fixpoint upd (l : list A) (i : nat) (x : A) : list A :=
    match l, i with
    | [], _ => []
    | _ :: t, O => x :: t
    | h :: t, S i' => h :: upd t i' x
    end.

  (* the sift-down loop of TopK; None = an index that the Rust code would not produce *)
  Fixpoint sift (fuel : nat) (h : list A) (i : nat) : option (list A) :=
    match fuel with
    | O => None
    | S fuel' =>
        let len := length h in
        let l := (2 * i + 1)%nat in
        let r := (2 * i + 2)%nat in
        match nth_error h i with
        | None => None
        | Some hi =>
            let largest1 :=
              if (l <? len)%nat then
                match nth_error h l with Some hl => if c_greater hl hi then l else i | None => i end
              else i in
            match nth_error h largest1 with
            | None => None
            | Some hg =>
                let largest2 :=
                  if (r <? len)%nat then
                    match nth_error h r with Some hr => if c_greater hr hg then r else largest1 | None => largest1 end
                  else largest1 in
                if (largest2 =? i)%nat then Some h
                else
                  match nth_error h largest2 with
                  | None => None
                  | Some hm => sift fuel' (upd (upd h i hm) largest2 hi) largest2
                  end
            end
        end
    end.

  Inductive topk_res := TOk (rows : list A) | TPanic | TStuck.

  Fixpoint topk_feed (k : nat) (h : list A) (rows : list A) : topk_res :=
    match rows with
    | [] => TOk h
    | x :: rest =>
        if (length h <? k)%nat then
          let h1 := h ++ [x] in
          let h2 := if (length h1 =? k)%nat then isort c_greater h1 else h1 in
          topk_feed k h2 rest
        else if (0 <? k)%nat then                         (* else if heap_size > 0 *)
          match h with
          | [] => TPanic                                   (* state.heap[0] on an empty Vec: unreachable, length h >= k > 0 *)
          | b :: _ =>
              if c_less x b then
                match sift (S (length h)) (upd h 0 x) 0 with
                | Some h' => topk_feed k h' rest
                | None => TStuck
                end
              else topk_feed k h rest
          end
        else topk_feed k h rest                            (* LIMIT 0: the row is dropped *)
    end.

  Definition topk (k : nat) (rows : list A) : topk_res :=
    match topk_feed k [] rows with
    | TOk h => TOk (firstn k (isort c_less h))
    | r => r
    end.

  (* the abstract statement of ORDER BY .. LIMIT k *)
  Definition order_by_limit (k : nat) (rows : list A) : list A := firstn k (isort c_less rows).
End Order.
Arguments TOk {A} rows.
Arguments TPanic {A}.
Arguments TStuck {A}.

(* ------------------------------------------------------------------ keys *)
Open Scope Z_scope.
Definition dprec : Z := 53.
Definition demax : Z := 1024.
Definition f64 := spec_float.
Definition f64_of_Z (i : Z) : f64 :=
  match i with
  | Z0 => S754_zero false
  | Zpos p => binary_round dprec demax false p 0
  | Zneg p => binary_round dprec demax true p 0
  end.
Definition f64_one : f64 := S754_finite false 4503599627370496 (-52).
Definition f64_gt0 (x : f64) : bool :=
  match SFcompare x (S754_zero false) with Some Gt => true | _ => false end.

Inductive skey := SNull | SF (x : f64).

Definition zsum (l : list Z) : Z := fold_right Z.add 0 l.
Definition zdot (a b : list Z) : Z := zsum (map (fun p => fst p * snd p) (combine a b)).
Definition zl2sq (a b : list Z) : Z := zsum (map (fun p => (fst p - snd p) * (fst p - snd p)) (combine a b)).

Definition l2_key (v q : list Z) : skey :=
  if Nat.eqb (length v) (length q) then SF (SFsqrt dprec demax (f64_of_Z (zl2sq v q))) else SNull.

Definition cos_key (v q : list Z) : skey :=
  if Nat.eqb (length v) (length q) then
    let ml := SFsqrt dprec demax (f64_of_Z (zdot v v)) in
    let mr := SFsqrt dprec demax (f64_of_Z (zdot q q)) in
    if f64_gt0 ml && f64_gt0 mr then
      SF (SFsub dprec demax f64_one (SFdiv dprec demax (f64_of_Z (zdot v q)) (SFmul dprec demax ml mr)))
    else SNull
  else SNull.

(* Value::compare_for_sort on two keys *)
Definition key_cmp (a b : skey) : comparison :=
  match a, b with
  | SNull, SNull => Eq
  | SNull, SF _ => Lt
  | SF _, SNull => Gt
  | SF x, SF y => match SFcompare x y with Some c => c | None => Eq end
  end.

(* every key except a NaN distance is ordered consistently (Null included: it is the least) *)
Definition key_comparable (k : skey) : bool :=
  match k with SF S754_nan => false | SF _ => true | SNull => true end.

(* ------------------------------------------------------------------ the two executors *)
Definition row := (Z * skey)%type.                 (* id, sort key *)
Definition row_cmp (a b : row) : comparison := key_cmp (snd a) (snd b).

Definition keyed (metric : Z) (q : list Z) (rows : list (Z * list Z)) : list row :=
  map (fun r => (fst r, if metric =? 0 then l2_key (snd r) q else cos_key (snd r) q)) rows.

(* is `slice.sort_by(cmp)` on this slice modelled by [isort]? *)
Definition sort_modelled (l : list row) : bool :=
  (length l <=? 20)%nat || forallb (fun r => key_comparable (snd r)) l.

Inductive sql_res := ROk (ids : list Z) | RPanic | RUnmodelled.

Definition sql_order (metric : Z) (q : list Z) (rows : list (Z * list Z)) (limit : option Z) : sql_res :=
  let rs := keyed metric q rows in
  match limit with
  | None => if sort_modelled rs then ROk (map fst (isort (c_less row_cmp) rs)) else RUnmodelled
  | Some k =>
      let kn := Z.to_nat k in
      if (kn <=? 20)%nat || forallb (fun r => key_comparable (snd r)) rs then
        match topk row_cmp kn rs with
        | TOk out => ROk (map fst out)
        | TPanic => RPanic
        | TStuck => RUnmodelled
        end
      else RUnmodelled
  end.
