(* C09 -- REFERENCE model: declared constraints hold exactly.  Definitions only.
   Independent of TurDB's code: it says what the property demands.

   Schema family: a parent table p and a child table c.  Every column is BIGINT and carries
   a key kind (none / PRIMARY KEY / UNIQUE), a NOT NULL flag, an optional CHECK expression
   (Model/SqlSpec.v `expr` over the columns of its own table) and -- columns of c only -- an
   optional FOREIGN KEY to a column of p with an ON DELETE action.
   A database is a pair of tables (lists of rows; the order is insertion order and carries no
   meaning: the correspondence compares bags).

   The property, literally: a write is applied as a whole and kept iff the resulting database
   satisfies every declared constraint (`valid_db`), otherwise it is refused and changes
   nothing.  Deleting from p removes, with the parent rows, the child rows that reference them
   through a CASCADE foreign key; under RESTRICT / NO ACTION the child rows stay and the result
   is therefore invalid whenever one of them has lost its parent: the delete is refused.

   `spec_step` returns None ("the reference does not say") for rows that do not fit the
   table, a WHERE predicate or CHECK expression that is undefined on some row (SqlSpec: type
   mismatch, integer overflow ...), assignments to unknown or repeated columns, and for writes
   to p when a foreign key references a column of p that is neither declared PRIMARY KEY / UNIQUE
   nor free of duplicates (not a legal schema in standard SQL). *)
From Coq Require Import ZArith List Bool.
From TV Require Import Model.SqlSpec.
Import ListNotations.
Open Scope Z_scope.

Record fkref := mkFk { fk_col : nat;      (* referenced column of p *)
                       fk_act : Z }.      (* ON DELETE: 0 none / NO ACTION, 1 RESTRICT, 2 CASCADE *)
Record cdecl := mkCol { c_key : Z;        (* 0 none, 1 PRIMARY KEY, 2 UNIQUE *)
                        c_nn : bool;
                        c_chk : option expr;
                        c_fk : option fkref }.
Record schema := mkSch { s_p : list cdecl; s_c : list cdecl }.

Inductive tid := TP | TC.
Inductive stmt :=
| SIns (t : tid) (rows : list row)
| SUpd (t : tid) (sets : list (nat * value)) (w : option expr)     (* SET column = literal, ... *)
| SDel (t : tid) (w : option expr)
| SUpdE (t : tid) (c : nat) (e : expr) (w : option expr).   (* SET column c = expression over the OLD row *)

Definition db := (table * table)%type.            (* (rows of p, rows of c) *)
Definition cols_of (sch : schema) (t : tid) : list cdecl := match t with TP => s_p sch | TC => s_c sch end.
Definition tab_of (d : db) (t : tid) : table := match t with TP => fst d | TC => snd d end.
Definition set_tab (d : db) (t : tid) (x : table) : db := match t with TP => (x, snd d) | TC => (fst d, x) end.

(* ------------------------------------------------------------------ rows *)
Definition is_null (v : value) : bool := match v with VNull => true | _ => false end.
Definition col_val (i : nat) (r : row) : value := nth i r VNull.
Definition val_fits (v : value) : bool :=
  match v with VNull => true | VInt z => i64_ok z | _ => false end.
Definition row_fits (n : nat) (r : row) : bool := Nat.eqb (length r) n && forallb val_fits r.
Definition is_key (d : cdecl) : bool := negb (c_key d =? 0).
Definition must_nn (d : cdecl) : bool := c_nn d || (c_key d =? 1).

(* ------------------------------------------------------------------ validity *)
(* CHECK: the expression is not FALSE *)
Definition chk_b (e : expr) (r : row) : bool := match sem3 e r with Some FF => false | _ => true end.
Definition chk_def (e : expr) (r : row) : bool := match sem3 e r with Some _ => true | None => false end.

(* NOT NULL and CHECK of one row, column by column (ds: the declarations from column i on,
   vs: the values from column i on, r: the whole row) *)
Fixpoint row_ok_from (ds : list cdecl) (vs : list value) (r : row) : bool :=
  match ds, vs with
  | d :: ds', v :: vs' =>
      (negb (must_nn d) || negb (is_null v)) &&
      match c_chk d with Some e => chk_b e r | None => true end &&
      row_ok_from ds' vs' r
  | _, _ => true
  end.
Definition row_ok (ds : list cdecl) (r : row) : bool := row_ok_from ds r r.
Definition row_def (ds : list cdecl) (r : row) : bool :=
  forallb (fun d => match c_chk d with Some e => chk_def e r | None => true end) ds.

(* PRIMARY KEY / UNIQUE: no two rows share a non-NULL value in column i *)
Definition vmem (v : value) (l : list value) : bool := existsb (value_eqb v) l.
Fixpoint nodupv (l : list value) : bool :=
  match l with
  | [] => true
  | v :: l' => (is_null v || negb (vmem v l')) && nodupv l'
  end.
Definition colvals (i : nat) (t : table) : list value := map (col_val i) t.
Fixpoint uniq_from (ds : list cdecl) (i : nat) (t : table) : bool :=
  match ds with
  | [] => true
  | d :: ds' => (negb (is_key d) || nodupv (colvals i t)) && uniq_from ds' (S i) t
  end.
Definition uniq_ok (ds : list cdecl) (t : table) : bool := uniq_from ds 0 t.

(* FOREIGN KEY: a non-NULL child value equals the referenced column of some parent row *)
Fixpoint fk_row_from (ds : list cdecl) (vs : list value) (p : table) : bool :=
  match ds, vs with
  | d :: ds', v :: vs' =>
      match c_fk d with
      | Some f => is_null v || vmem v (colvals (fk_col f) p)
      | None => true
      end && fk_row_from ds' vs' p
  | _, _ => true
  end.
Definition fk_ok (cs : list cdecl) (p c : table) : bool := forallb (fun r => fk_row_from cs r p) c.

Definition valid_db (sch : schema) (d : db) : bool :=
  forallb (row_ok (s_p sch)) (fst d) && uniq_ok (s_p sch) (fst d) &&
  forallb (row_ok (s_c sch)) (snd d) && uniq_ok (s_c sch) (snd d) &&
  fk_ok (s_c sch) (fst d) (snd d).

(* ------------------------------------------------------------------ applying a write *)
Definition wsel (w : option expr) (r : row) : option bool :=
  match w with
  | None => Some true
  | Some e => match sem3 e r with Some TT => Some true | Some _ => Some false | None => None end
  end.
Definition wpass (w : option expr) (r : row) : bool :=
  match wsel w r with Some true => true | _ => false end.
Definition wdefined (w : option expr) (t : table) : bool :=
  forallb (fun r => match wsel w r with Some _ => true | None => false end) t.

Fixpoint assoc_set (i : nat) (sets : list (nat * value)) : option value :=
  match sets with
  | [] => None
  | (j, v) :: sets' => if Nat.eqb i j then Some v else assoc_set i sets'
  end.
Fixpoint upd_from (sets : list (nat * value)) (i : nat) (vs : list value) : row :=
  match vs with
  | [] => []
  | v :: vs' => match assoc_set i sets with Some x => x | None => v end :: upd_from sets (S i) vs'
  end.
Definition upd_row (sets : list (nat * value)) (r : row) : row := upd_from sets 0 r.
Definition upd_tab (sets : list (nat * value)) (w : option expr) (t : table) : table :=
  map (fun r => if wpass w r then upd_row sets r else r) t.

(* SET column c = e: every selected row receives the value of e on the row as it was *)
Fixpoint set_nth (c : nat) (v : value) (r : row) : row :=
  match r with
  | [] => []
  | x :: r' => match c with O => v :: r' | S c' => x :: set_nth c' v r' end
  end.
Definition upd_row_e (c : nat) (e : expr) (r : row) : row :=
  match eval e r with Some v => set_nth c v r | None => r end.
Definition upd_tab_e (c : nat) (e : expr) (w : option expr) (t : table) : table :=
  map (fun r => if wpass w r then upd_row_e c e r else r) t.
Definition upd_e_def (e : expr) (w : option expr) (t : table) : bool :=
  forallb (fun r => negb (wpass w r) || match eval e r with Some v => val_fits v | None => false end) t.

Fixpoint nodupn (l : list nat) : bool :=
  match l with [] => true | x :: l' => negb (existsb (Nat.eqb x) l') && nodupn l' end.
Definition sets_ok (n : nat) (sets : list (nat * value)) : bool :=
  forallb (fun p => Nat.ltb (fst p) n && val_fits (snd p)) sets && nodupn (map fst sets) &&
  negb (match sets with [] => true | _ => false end).

(* the child rows that go with the deleted parent rows: a non-NULL value in a CASCADE
   foreign-key column that equals the referenced column of a deleted parent row *)
Fixpoint casc_row_from (ds : list cdecl) (vs : list value) (gone : table) : bool :=
  match ds, vs with
  | d :: ds', v :: vs' =>
      match c_fk d with
      | Some f => (fk_act f =? 2) && negb (is_null v) && vmem v (colvals (fk_col f) gone)
      | None => false
      end || casc_row_from ds' vs' gone
  | _, _ => false
  end.

(* every foreign key of c references a column of p that is declared PRIMARY KEY / UNIQUE or at
   least holds no value twice in the table p given (otherwise "the" parent of a child row is
   ambiguous; not a legal schema in standard SQL) *)
Definition fk_std (sch : schema) (p : table) : bool :=
  forallb (fun d => match c_fk d with
                    | Some f => match nth_error (s_p sch) (fk_col f) with
                                | Some pd => is_key pd || nodupv (colvals (fk_col f) p)
                                | None => false end
                    | None => true end) (s_c sch).
(* foreign keys point at existing columns of p; the columns of p carry none *)
Definition fk_wf (sch : schema) : bool :=
  forallb (fun d => match c_fk d with
                    | Some f => Nat.ltb (fk_col f) (length (s_p sch))
                    | None => true end) (s_c sch) &&
  forallb (fun d => match c_fk d with Some _ => false | None => true end) (s_p sch).

Definition apply_stmt (sch : schema) (d : db) (s : stmt) : db :=
  match s with
  | SIns t rows => set_tab d t (tab_of d t ++ rows)
  | SUpd t sets w => set_tab d t (upd_tab sets w (tab_of d t))
  | SUpdE t c e w => set_tab d t (upd_tab_e c e w (tab_of d t))
  | SDel TC w => (fst d, filter (fun r => negb (wpass w r)) (snd d))
  | SDel TP w =>
      let gone := filter (wpass w) (fst d) in
      (filter (fun r => negb (wpass w r)) (fst d),
       filter (fun r => negb (casc_row_from (s_c sch) r gone)) (snd d))
  end.

(* where the reference speaks *)
Definition stmt_defined (sch : schema) (d : db) (s : stmt) : bool :=
  fk_wf sch &&
  match s with
  | SIns t rows =>
      forallb (row_fits (length (cols_of sch t))) rows && forallb (row_def (cols_of sch t)) rows
  | SUpd t sets w =>
      sets_ok (length (cols_of sch t)) sets && wdefined w (tab_of d t) &&
      forallb (row_def (cols_of sch t)) (upd_tab sets w (tab_of d t)) &&
      match t with TP => fk_std sch (fst d) | TC => true end
  | SDel t w =>
      wdefined w (tab_of d t) && match t with TP => fk_std sch (fst d) | TC => true end
  | SUpdE t c e w =>
      Nat.ltb c (length (cols_of sch t)) && wdefined w (tab_of d t) && upd_e_def e w (tab_of d t) &&
      forallb (row_def (cols_of sch t)) (upd_tab_e c e w (tab_of d t)) &&
      match t with TP => fk_std sch (fst d) | TC => true end
  end.

(* THE PROPERTY: apply, then keep iff valid *)
Definition exec_write (sch : schema) (d : db) (s : stmt) : bool * db :=
  let d' := apply_stmt sch d s in
  if valid_db sch d' then (true, d') else (false, d).

Definition spec_step (sch : schema) (d : db) (s : stmt) : option (bool * db) :=
  if stmt_defined sch d s then Some (exec_write sch d s) else None.

Definition db_empty : db := ([], []).
