(* C17 implementation model, part 3: the index nested loop join arm of Database::query
   (src/database/database.rs, PlanSource::IndexNestedLoopJoin; plan choice in
   src/sql/planner/convert.rs try_index_nested_loop_join).  Definitions only.

   What the code does (faithfully, including what is wrong):
   * plan: a join of two base tables, INNER / LEFT / RIGHT, whose ON condition is exactly one
     `column = column` equality, with the right input a plain scan of a table that has an index
     (unique or not, single-column or composite) whose FIRST column is the right-hand join column,
     is run as an index nested loop join (outer side below 10000 rows: always, here).
   * execution: for every left row the join key is encoded (encode_to_key) and the index is scanned
     from that key while the entry starts with it -- a prefix probe on the leading index column that
     returns ALL entries with that key, also for a composite UNIQUE index.  A NULL outer key has no
     partner.  Encoded keys agree exactly for values of the same variant with the same value
     (Int 0, 0.0 and -0.0 all encode as the one-byte ZERO key and agree); apart from zero an Int key never
     meets a Float key (finding class 14).
   * when BOTH operands of the equality are columns of the right table and an index is led by the second
     one, the planner still chooses this arm and the query fails with "cannot resolve outer key
     column" (finding class 16).
   * the index used is the first one created whose leading column is the join column.  When it is
     UNIQUE, an inner row that holds a NULL in ANY column of that index is never returned by the probe
     (such entries are stored with a row-id suffix and an empty value, and the arm reads the row id
     from the 8-byte value only): finding class 15.
   * a left row without partner is NULL-padded only for LEFT; for RIGHT the unmatched right rows are
     NOT emitted (finding class 12); the arm never looks at the WHERE clause (finding class 11).
   So the result is what the nested-loop executor would emit for the condition inl_on, with RIGHT
   treated as INNER, projected on the select list. *)
From Coq Require Import ZArith List Bool.
From TV Require Import Model.SqlSpec Model.JoinSpec Model.JoinExec Model.JoinHw.
Import ListNotations.
Open Scope Z_scope.

(* an index of the schema: (table number, unique?, columns) *)
Definition index := (nat * bool * list nat)%type.

(* the join column pair (left column, right column relative to the right table) of a single equality *)
Definition inl_key (lw : nat) (on : option expr) : option (nat * nat) :=
  match on with
  | Some (ECmp CEq (ECol i) (ECol j)) =>
      match cross_key lw (i, j) with [k] => Some k | _ => None end
  | _ => None
  end.
Definition leads (rc : nat) (x : index) : bool :=
  match x with (t, _, c :: _) => (t =? 1)%nat && (c =? rc)%nat | _ => false end.
Definition inl_plan (jt : jtype) (lw : nat) (on : option expr) (idx : list index) : option (nat * nat * index) :=
  match jt with
  | JInner | JLeft | JRight =>
      match inl_key lw on with
      | Some (lc, rc) => match find (leads rc) idx with Some x => Some (lc, rc, x) | None => None end
      | None => None
      end
  | _ => None
  end.
(* both operands are columns of the right table and an index is led by the second one: the arm is
   chosen and fails *)
Definition inl_err (jt : jtype) (lw : nat) (on : option expr) (idx : list index) : bool :=
  match jt, on with
  | (JInner | JLeft | JRight), Some (ECmp CEq (ECol i) (ECol j)) =>
      negb (i <? lw)%nat && negb (j <? lw)%nat && existsb (leads (j - lw)%nat) idx
  | _, _ => false
  end.
(* the probe can return the inner row through index x *)
Definition reachable (x : index) (r : row) : bool :=
  match x with
  | (_, true, cols) => negb (existsb (fun c => match nth_error r c with Some VNull | None => true | _ => false end) cols)
  | _ => true
  end.

(* encode_to_key of the two values agree *)
Definition key_enc_eq (a b : value) : bool :=
  match a, b with
  | VInt x, VInt y => x =? y
  | VFloat x, VFloat y => (x =? y) || (((x =? 0) || (x =? 2 ^ 63)) && ((y =? 0) || (y =? 2 ^ 63)))
  | VInt x, VFloat y => (x =? 0) && ((y =? 0) || (y =? 2 ^ 63))
  | VFloat x, VInt y => (y =? 0) && ((x =? 0) || (x =? 2 ^ 63))
  | VText x, VText y => zlist_eqb' x y
  | VBool x, VBool y => Bool.eqb x y
  | _, _ => false
  end.
Definition inl_on (lc rc : nat) (x : index) (l r : row) : bool :=
  match nth_error l lc, nth_error r rc with
  | Some a, Some b => key_enc_eq a b && reachable x r
  | _, _ => false
  end.

Definition inl_rows (jt : jtype) (lw rw : nat) (lc rc : nat) (x : index) (L R : table) : table :=
  nl_exec (fun l r : row => l ++ r) (fun l : row => l ++ nulls rw) (fun r : row => nulls lw ++ r)
          (match jt with JLeft => JLeft | _ => JInner end) (inl_on lc rc x) L R.

(* the whole two-table path: index nested loop join when the plan applies, else Model/JoinHw.v *)
Definition sql_model (q : query) (qual : bool) (idx : list index) : hout :=
  match q_tabs q, q_joins q with
  | [(lw, L); (rw, R)], [(jt, on)] =>
      match inl_plan jt lw (opt_on jt on) idx with
      | Some (lc, rc, x) =>
          match project_all (q_sel q) (inl_rows jt lw rw lc rc x L R) with
          | Some t => HRows t
          | None => HUnmod
          end
      | None => if inl_err jt lw (opt_on jt on) idx then HErr else hw_model q qual
      end
  | _, _ => hw_model q qual
  end.

(* ------------------------------------------------------------------ finding classes of the index nested loop path
   11: index nested loop plan and a WHERE clause: the clause is ignored
   12: index nested loop plan for a RIGHT join: run as an inner join
   14: index nested loop plan and a pair of keys that are equal in SQL but of different type
       (Int against Float): their encoded keys differ, the pair is missed
   16: ON equates two columns of the RIGHT table and an index is led by the second: the query fails
   15: index nested loop plan through a UNIQUE index and an inner row with a NULL in a column of that
       index which has a partner: the row is not found *)
Definition inl_miss (lw : nat) (on : option expr) (lc rc : nat) (x : index) (L R : table) : bool :=
  match on with
  | Some e => existsb (fun l => existsb (fun r => on_tt e l r && negb (inl_on lc rc x l r)) R) L
  | None => false
  end.
Definition null_miss (lw : nat) (on : option expr) (x : index) (L R : table) : bool :=
  match on with
  | Some e => existsb (fun l => existsb (fun r => on_tt e l r && negb (reachable x r)) R) L
  | None => false
  end.
Definition cls_all (q : query) (qual : bool) (idx : list index) : Z :=
  match q_tabs q, q_joins q with
  | [(lw, L); (rw, R)], [(jt, on)] =>
      match inl_plan jt lw (opt_on jt on) idx with
      | Some (lc, rc, x) =>
          if is_some (q_where q) then 11
          else if right_outer jt then 12
          else if null_miss lw (opt_on jt on) x L R then 15
          else if inl_miss lw (opt_on jt on) lc rc x L R then 14
          else 0
      | None => if inl_err jt lw (opt_on jt on) idx then 16 else cls_sql q qual
      end
  | _, _ => cls_sql q qual
  end.
