(* C20 - Scalar functions and arithmetic match their definitions.
   Property theorems only (proofs in Proof/Arith.v ...).
   Model/Arith.v transcribes the integer side of CompiledPredicate::eval_value / eval_binary_op /
   eval_unary_op (src/sql/predicate.rs), the integer paths of src/sql/functions/numeric.rs and the
   control-flow functions of src/sql/functions/system.rs; [exact] / [fn_exact] are the documented
   definitions on unbounded integers (Spec). *)
From Coq Require Import ZArith List Bool.
From TV Require Import Lib.MachInt Model.Arith Proof.Arith.
Import ListNotations.
Open Scope Z_scope.

(* ---------------------------------------------------------------- integer arithmetic *)
(* every expression tree over + - * / % ^ << >> & | unary - + ~, integer literals and NULL, that is
   outside the two recorded finding classes: when every step's exact result is an i64, SELECT shows
   exactly that integer *)
Theorem arith_in_range_correct : forall e z, wf e = true -> arith_class e = 0 ->
  exact e = XInt z -> eval e = OVal (VInt z).
Proof. exact arith_in_range_correct_l. Qed.

(* ... NULL operands, x / 0, x % 0 (and shift counts outside 0..63) show NULL *)
Theorem arith_null : forall e, wf e = true -> arith_class e = 0 ->
  (exact e = XNullP \/ exact e = XDivZ \/ exact e = XAny) -> to_sql (eval e) = OVal VNull.
Proof. exact arith_null_l. Qed.

(* ... so outside the recorded classes no expression panics, and what SELECT shows satisfies the property *)
Theorem arith_class0_ok : forall e, wf e = true -> arith_class e = 0 ->
  exact e <> XOver /\ obs_ok (exact e) (to_sql (eval e)) = true.
Proof. exact arith_class0_ok_l. Qed.

Theorem div_zero_null : forall a, in_i64 a = true ->
  eval_bin Div (VInt a) (VInt 0) = ONone /\ eval_bin Rem (VInt a) (VInt 0) = ONone.
Proof. exact div_zero_null_l. Qed.

(* the property does NOT hold in general: the evaluator uses unchecked i64 operators, which panic
   (suite profile) where an error is required: i64::MAX + 1, i64::MIN / -1, -(i64::MIN), 2 ^ 64,
   i64::MIN % -1 (exact result 0), 2^32 * 2^32 *)
Theorem arith_no_panic_refuted :
  eval (EBin Add (ELit i64_max) (ELit 1)) = OPanic /\ exact (EBin Add (ELit i64_max) (ELit 1)) = XOver /\
  eval (EBin Div lit_min (EUn Neg (ELit 1))) = OPanic /\ exact (EBin Div lit_min (EUn Neg (ELit 1))) = XOver /\
  eval (EUn Neg lit_min) = OPanic /\ exact (EUn Neg lit_min) = XOver /\
  eval (EBin Pow (ELit 2) (ELit 64)) = OPanic /\ exact (EBin Pow (ELit 2) (ELit 64)) = XOver /\
  eval (EBin Rem lit_min (EUn Neg (ELit 1))) = OPanic /\ exact (EBin Rem lit_min (EUn Neg (ELit 1))) = XInt 0 /\
  eval (EBin Mul (ELit 4294967296) (ELit 4294967296)) = OPanic.
Proof. exact arith_no_panic_refuted_l. Qed.

(* ... and `a.pow(b as u32)` cuts the exponent to 32 bits: 0 ^ 4294967296 shows 1 *)
Theorem pow_exponent_truncated :
  eval (EBin Pow (ELit 0) (ELit 4294967296)) = OVal (VInt 1) /\ exact (EBin Pow (ELit 0) (ELit 4294967296)) = XInt 0 /\
  arith_class (EBin Pow (ELit 0) (ELit 4294967296)) = 2.
Proof. exact pow_exponent_truncated_l. Qed.

(* ---------------------------------------------------------------- numeric functions on integers *)
Theorem unary_fn_correct : forall n, in_i64 n = true ->
  (n <> i64_min -> eval_nfn FAbs [VInt n] = OVal (VInt (Z.abs n))) /\
  eval_nfn FSign [VInt n] = OVal (VInt (Z.sgn n)) /\
  eval_nfn FCeil [VInt n] = OVal (VInt n) /\ eval_nfn FFloor [VInt n] = OVal (VInt n) /\
  (Z.abs n <= 2 ^ 53 -> eval_nfn FRound [VInt n] = OVal (VInt n) /\ eval_nfn FTrunc [VInt n] = OVal (VInt n) /\
                         eval_nfn FRound [VInt n; VInt 0] = OVal (VInt n) /\ eval_nfn FTrunc [VInt n; VInt 0] = OVal (VInt n)).
Proof. exact unary_fn_correct_l. Qed.

Theorem mod_div_correct : forall a b, in_i64 a = true -> in_i64 b = true ->
  (b = 0 -> eval_nfn FMod [VInt a; VInt b] = OVal VNull /\ eval_nfn FDivI [VInt a; VInt b] = OVal VNull) /\
  (b <> 0 -> Z.abs a <= 2 ^ 53 -> Z.abs b <= 2 ^ 53 -> eval_nfn FMod [VInt a; VInt b] = OVal (VFltI (Z.rem a b))) /\
  (b <> 0 -> ~ (a = i64_min /\ b = -1) -> eval_nfn FDivI [VInt a; VInt b] = OVal (VInt (Z.quot a b))).
Proof. exact mod_div_correct_l. Qed.

Theorem greatest_least_correct : forall n t, in_i64 n = true ->
  Forall (fun v => exists k, v = VInt k /\ in_i64 k = true) t ->
  eval_nfn FGreatest (VInt n :: t) = OVal (VInt (fold_left Z.max (ints_of t) n)) /\
  eval_nfn FLeast (VInt n :: t) = OVal (VInt (fold_left Z.min (ints_of t) n)).
Proof. exact greatest_least_correct_l. Qed.

Theorem fn_null :
  eval_nfn FAbs [VNull] = OVal VNull /\ eval_nfn FSign [VNull] = OVal VNull /\ eval_nfn FCeil [VNull] = OVal VNull /\
  eval_nfn FFloor [VNull] = OVal VNull /\
  (forall v, to_sql (eval_nfn FMod [VNull; v]) = OVal VNull \/ eval_nfn FMod [VNull; v] = OUnmod) /\
  to_sql (eval_nfn FRound [VNull]) = OVal VNull /\ to_sql (eval_nfn FTrunc [VNull]) = OVal VNull.
Proof. exact fn_null_l. Qed.

(* ABS(i64::MIN) and DIV(i64::MIN, -1) panic; integers beyond 2^53 come back changed from ROUND / MOD *)
Theorem fn_refuted :
  eval_nfn FAbs [VInt i64_min] = OPanic /\ fn_exact FAbs [VInt i64_min] = XOver /\
  eval_nfn FDivI [VInt i64_min; VInt (-1)] = OPanic /\ fn_exact FDivI [VInt i64_min; VInt (-1)] = XOver /\
  eval_nfn FRound [VInt 9007199254740993] = OVal (VInt 9007199254740992) /\
  eval_nfn FMod [VInt 9007199254740993; VInt 2] = OVal (VFltI 0) /\ fn_exact FMod [VInt 9007199254740993; VInt 2] = XInt 1 /\
  nfn_class FRound [VInt 9007199254740993] = 3 /\ nfn_class FAbs [VInt i64_min] = 1.
Proof. exact fn_refuted_l. Qed.

(* non-vacuity: hypotheses are met by non-trivial expressions, every kind of outcome occurs *)
Example c20_arith_witness :
  let e := EBin Add (EBin Mul (ELit 3037000499) (ELit 3037000499)) (EUn Neg (EBin Pow (ELit 2) (ELit 62))) in
  wf e = true /\ arith_class e = 0 /\ exact e = XInt 4611686012498861097 /\ eval e = OVal (VInt 4611686012498861097) /\
  arith_class (EBin Div (ELit 7) (EBin Sub (ELit 1) (ELit 1))) = 0 /\ exact (EBin Div (ELit 7) (EBin Sub (ELit 1) (ELit 1))) = XDivZ /\
  exact (EBin Add ENull (ELit 1)) = XNullP /\ arith_class (EBin Add ENull (ELit 1)) = 0 /\
  exact (EBin Pow (EUn Neg (ELit 2)) (ELit 63)) = XInt i64_min /\ eval (EBin Pow (EUn Neg (ELit 2)) (ELit 63)) = OVal (VInt i64_min) /\
  arith_class (EBin Add (ELit i64_max) (ELit 1)) = 1.
Proof. vm_compute. repeat split. Qed.

Check arith_in_range_correct : forall e z, wf e = true -> arith_class e = 0 -> exact e = XInt z -> eval e = OVal (VInt z).
Check arith_null : forall e, wf e = true -> arith_class e = 0 -> (exact e = XNullP \/ exact e = XDivZ \/ exact e = XAny) -> to_sql (eval e) = OVal VNull.
Check arith_class0_ok : forall e, wf e = true -> arith_class e = 0 -> exact e <> XOver /\ obs_ok (exact e) (to_sql (eval e)) = true.
Check div_zero_null : forall a, in_i64 a = true -> eval_bin Div (VInt a) (VInt 0) = ONone /\ eval_bin Rem (VInt a) (VInt 0) = ONone.
Check arith_no_panic_refuted : eval (EBin Add (ELit i64_max) (ELit 1)) = OPanic /\ _.
Check pow_exponent_truncated : eval (EBin Pow (ELit 0) (ELit 4294967296)) = OVal (VInt 1) /\ _.
Check unary_fn_correct : forall n, in_i64 n = true -> (n <> i64_min -> eval_nfn FAbs [VInt n] = OVal (VInt (Z.abs n))) /\ _.
Check mod_div_correct : forall a b, in_i64 a = true -> in_i64 b = true -> (b = 0 -> eval_nfn FMod [VInt a; VInt b] = OVal VNull /\ eval_nfn FDivI [VInt a; VInt b] = OVal VNull) /\ _.
Check greatest_least_correct : forall n t, in_i64 n = true -> Forall (fun v => exists k, v = VInt k /\ in_i64 k = true) t -> eval_nfn FGreatest (VInt n :: t) = OVal (VInt (fold_left Z.max (ints_of t) n)) /\ eval_nfn FLeast (VInt n :: t) = OVal (VInt (fold_left Z.min (ints_of t) n)).
Check fn_null : eval_nfn FAbs [VNull] = OVal VNull /\ _.
Check fn_refuted : eval_nfn FAbs [VInt i64_min] = OPanic /\ _.

Print Assumptions arith_in_range_correct.
Print Assumptions arith_null.
Print Assumptions arith_class0_ok.
Print Assumptions div_zero_null.
Print Assumptions arith_no_panic_refuted.
Print Assumptions pow_exponent_truncated.
Print Assumptions unary_fn_correct.
Print Assumptions mod_div_correct.
Print Assumptions greatest_least_correct.
Print Assumptions fn_null.
Print Assumptions fn_refuted.
