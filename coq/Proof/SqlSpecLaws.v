(* Laws of the shared relational reference semantics (Model/SqlSpec.v):
   Kleene algebra of tv, how sem3 distributes over the connectives, the TLP partition law,
   and an induction principle for expr (whose IN lists nest the type). *)
From Coq Require Import ZArith List Bool Lia Permutation.
From TV Require Import Model.SqlSpec.
Import ListNotations.
Open Scope Z_scope.

(* ------------------------------------------------------------------ Kleene algebra *)
Lemma tv_not_involutive : forall a, tv_not (tv_not a) = a.
Proof. now intros []. Qed.
Lemma tv_and_comm : forall a b, tv_and a b = tv_and b a.
Proof. now intros [] []. Qed.
Lemma tv_or_comm : forall a b, tv_or a b = tv_or b a.
Proof. now intros [] []. Qed.
Lemma tv_and_assoc : forall a b c, tv_and a (tv_and b c) = tv_and (tv_and a b) c.
Proof. now intros [] [] []. Qed.
Lemma tv_or_assoc : forall a b c, tv_or a (tv_or b c) = tv_or (tv_or a b) c.
Proof. now intros [] [] []. Qed.
Lemma tv_de_morgan_and : forall a b, tv_not (tv_and a b) = tv_or (tv_not a) (tv_not b).
Proof. now intros [] []. Qed.
Lemma tv_de_morgan_or : forall a b, tv_not (tv_or a b) = tv_and (tv_not a) (tv_not b).
Proof. now intros [] []. Qed.
Lemma tv_and_idem : forall a, tv_and a a = a.
Proof. now intros []. Qed.
Lemma tv_or_idem : forall a, tv_or a a = a.
Proof. now intros []. Qed.
Lemma tv_and_TT_l : forall a, tv_and TT a = a.
Proof. now intros []. Qed.
Lemma tv_and_FF_l : forall a, tv_and FF a = FF.
Proof. now intros []. Qed.
Lemma tv_or_FF_l : forall a, tv_or FF a = a.
Proof. now intros []. Qed.
Lemma tv_or_TT_l : forall a, tv_or TT a = TT.
Proof. now intros []. Qed.
Lemma tv_and_or_distr : forall a b c, tv_and a (tv_or b c) = tv_or (tv_and a b) (tv_and a c).
Proof. now intros [] [] []. Qed.
Lemma tv_or_and_distr : forall a b c, tv_or a (tv_and b c) = tv_and (tv_or a b) (tv_or a c).
Proof. now intros [] [] []. Qed.
Lemma tv_absorb_and : forall a b, tv_and a (tv_or a b) = a.
Proof. now intros [] []. Qed.
Lemma tv_absorb_or : forall a b, tv_or a (tv_and a b) = a.
Proof. now intros [] []. Qed.
(* there is no excluded middle: p OR NOT p is UNKNOWN exactly when p is; the third case
   `p IS NULL` completes the partition *)
Lemma tv_trichotomy : forall a, tv_is_true a = true \/ tv_is_true (tv_not a) = true \/ a = UU.
Proof. intros []; cbn; auto. Qed.

(* WHERE keeps a row iff the predicate is TRUE: the two-valued reading of AND / OR is exact,
   the one of NOT is not *)
Lemma tv_is_true_and : forall a b, tv_is_true (tv_and a b) = tv_is_true a && tv_is_true b.
Proof. now intros [] []. Qed.
Lemma tv_is_true_or : forall a b, tv_is_true (tv_or a b) = tv_is_true a || tv_is_true b.
Proof. now intros [] []. Qed.
Lemma tv_is_true_not : forall a, a <> UU -> tv_is_true (tv_not a) = negb (tv_is_true a).
Proof. intros [] H; cbn; congruence. Qed.

(* Kleene logic is sound for every two-valued completion: a definite result does not depend
   on how the UNKNOWN inputs are resolved (used for the select-list theorem) *)
Definition refines (a : tv) (b : bool) : Prop := a = UU \/ a = tv_of_bool b.
Lemma refines_and : forall a b x y, refines a x -> refines b y -> refines (tv_and a b) (x && y).
Proof. intros [] [] [] [] [H|H] [G|G]; cbn in *; try discriminate; (now left) || (now right). Qed.
Lemma refines_or : forall a b x y, refines a x -> refines b y -> refines (tv_or a b) (x || y).
Proof. intros [] [] [] [] [H|H] [G|G]; cbn in *; try discriminate; (now left) || (now right). Qed.
Lemma refines_not : forall a x, refines a x -> refines (tv_not a) (negb x).
Proof. intros [] [] [H|H]; cbn in *; try discriminate; (now left) || (now right). Qed.

(* ------------------------------------------------------------------ sem3 and the connectives *)
Lemma bind_ret_tv : forall o, bind_tv (ret_tv o) = o.
Proof. intros [[]|]; reflexivity. Qed.

Lemma sem3_and : forall a b r, sem3 (EAnd a b) r = opt_tv_and (sem3 a r) (sem3 b r).
Proof. intros; unfold sem3; cbn [eval]; apply bind_ret_tv. Qed.
Lemma sem3_or : forall a b r, sem3 (EOr a b) r = opt_tv_or (sem3 a r) (sem3 b r).
Proof. intros; unfold sem3; cbn [eval]; apply bind_ret_tv. Qed.
Lemma sem3_not : forall a r, sem3 (ENot a) r = opt_tv_neg true (sem3 a r).
Proof. intros; unfold sem3; cbn [eval]; apply bind_ret_tv. Qed.
Lemma sem3_is_null : forall neg a r,
  sem3 (EIsNull neg a) r =
  match sem3 a r with
  | Some UU => Some (tv_of_bool (negb neg))
  | Some _ => Some (tv_of_bool neg)
  | None => match eval a r with Some _ => Some (tv_of_bool neg) | None => None end
  end.
Proof.
  intros; unfold sem3; cbn [eval]. destruct (eval a r) as [[| | | |[]]|]; cbn; destruct neg; reflexivity.
Qed.

(* De Morgan and double negation on expressions *)
Theorem sem3_double_negation : forall a r, sem3 (ENot (ENot a)) r = sem3 a r.
Proof.
  intros. rewrite !sem3_not. destruct (sem3 a r) as [t|]; cbn; [now rewrite tv_not_involutive|reflexivity].
Qed.
Theorem sem3_de_morgan_and : forall a b r,
  sem3 (ENot (EAnd a b)) r = sem3 (EOr (ENot a) (ENot b)) r.
Proof.
  intros. rewrite sem3_not, sem3_and, sem3_or, !sem3_not.
  destruct (sem3 a r), (sem3 b r); cbn; try reflexivity. now rewrite tv_de_morgan_and.
Qed.
Theorem sem3_de_morgan_or : forall a b r,
  sem3 (ENot (EOr a b)) r = sem3 (EAnd (ENot a) (ENot b)) r.
Proof.
  intros. rewrite sem3_not, sem3_and, sem3_or, !sem3_not.
  destruct (sem3 a r), (sem3 b r); cbn; try reflexivity. now rewrite tv_de_morgan_or.
Qed.
Theorem sem3_and_comm : forall a b r, sem3 (EAnd a b) r = sem3 (EAnd b a) r.
Proof. intros. rewrite !sem3_and. destruct (sem3 a r), (sem3 b r); cbn; try reflexivity. now rewrite tv_and_comm. Qed.
Theorem sem3_or_comm : forall a b r, sem3 (EOr a b) r = sem3 (EOr b a) r.
Proof. intros. rewrite !sem3_or. destruct (sem3 a r), (sem3 b r); cbn; try reflexivity. now rewrite tv_or_comm. Qed.
Theorem sem3_and_assoc : forall a b c r, sem3 (EAnd a (EAnd b c)) r = sem3 (EAnd (EAnd a b) c) r.
Proof.
  intros. rewrite !sem3_and. destruct (sem3 a r), (sem3 b r), (sem3 c r); cbn; try reflexivity.
  now rewrite tv_and_assoc.
Qed.
Theorem sem3_or_assoc : forall a b c r, sem3 (EOr a (EOr b c)) r = sem3 (EOr (EOr a b) c) r.
Proof.
  intros. rewrite !sem3_or. destruct (sem3 a r), (sem3 b r), (sem3 c r); cbn; try reflexivity.
  now rewrite tv_or_assoc.
Qed.

(* ------------------------------------------------------------------ filters *)
Lemma passes_and : forall a b r,
  sem3 a r <> None -> sem3 b r <> None -> passes (EAnd a b) r = passes a r && passes b r.
Proof.
  intros a b r Ha Hb. unfold passes. rewrite sem3_and.
  destruct (sem3 a r) as [[]|], (sem3 b r) as [[]|]; cbn; congruence.
Qed.
Lemma passes_or : forall a b r,
  sem3 a r <> None -> sem3 b r <> None -> passes (EOr a b) r = passes a r || passes b r.
Proof.
  intros a b r Ha Hb. unfold passes. rewrite sem3_or.
  destruct (sem3 a r) as [[]|], (sem3 b r) as [[]|]; cbn; congruence.
Qed.

(* exactly one of p, NOT p, p IS NULL passes, wherever p has a truth value *)
Lemma tlp_row : forall p r, sem3 p r <> None ->
  (passes p r = true /\ passes (ENot p) r = false /\ passes (EIsNull false p) r = false) \/
  (passes p r = false /\ passes (ENot p) r = true /\ passes (EIsNull false p) r = false) \/
  (passes p r = false /\ passes (ENot p) r = false /\ passes (EIsNull false p) r = true).
Proof.
  intros p r H. unfold passes. rewrite sem3_not, sem3_is_null.
  destruct (sem3 p r) as [[]|]; cbn; try congruence; auto.
Qed.

(* Ternary logic partitioning: the three filters split the table (as a bag) *)
Theorem tlp_partition : forall p t, defined_on p t = true ->
  Permutation (filter_spec p t ++ filter_spec (ENot p) t ++ filter_spec (EIsNull false p) t) t.
Proof.
  intros p t. unfold filter_spec, defined_on. induction t as [|r t IH]; cbn [filter forallb]; intros H.
  - constructor.
  - apply andb_prop in H as [Hr Ht]. specialize (IH Ht).
    assert (Hd : sem3 p r <> None) by (destruct (sem3 p r); congruence).
    destruct (tlp_row p r Hd) as [(A & B & C)|[(A & B & C)|(A & B & C)]]; rewrite A, B, C.
    + cbn [app]. now constructor.
    + eapply perm_trans; [apply Permutation_sym, Permutation_middle|]. now constructor.
    + eapply perm_trans; [|constructor; exact IH].
      rewrite app_assoc. eapply perm_trans; [apply Permutation_sym, Permutation_middle|].
      rewrite <- app_assoc. reflexivity.
Qed.

(* the partition is a bag law: it does not depend on the order of the rows *)
Lemma filter_spec_perm : forall p t t', Permutation t t' -> Permutation (filter_spec p t) (filter_spec p t').
Proof.
  intros p t t' H. unfold filter_spec. induction H; cbn [filter].
  - constructor.
  - destruct (passes p x); [now constructor|assumption].
  - destruct (passes p x), (passes p y); try reflexivity; now constructor.
  - eapply perm_trans; eassumption.
Qed.

Theorem tlp_count : forall p t, defined_on p t = true ->
  (length (filter_spec p t) + length (filter_spec (ENot p) t) + length (filter_spec (EIsNull false p) t))%nat
  = length t.
Proof.
  intros p t H. rewrite <- (Permutation_length (tlp_partition p t H)), !app_length. lia.
Qed.

(* ------------------------------------------------------------------ induction over expr *)
Section ExprInd.
  Variable P : expr -> Prop.
  Hypothesis Hcol : forall i, P (ECol i).
  Hypothesis Hlit : forall v, P (ELit v).
  Hypothesis Harith : forall op a b, P a -> P b -> P (EArith op a b).
  Hypothesis Hcmp : forall op a b, P a -> P b -> P (ECmp op a b).
  Hypothesis Hand : forall a b, P a -> P b -> P (EAnd a b).
  Hypothesis Hor : forall a b, P a -> P b -> P (EOr a b).
  Hypothesis Hnot : forall a, P a -> P (ENot a).
  Hypothesis Hin : forall neg a l, P a -> Forall P l -> P (EIn neg a l).
  Hypothesis Hbetween : forall neg a lo hi, P a -> P lo -> P hi -> P (EBetween neg a lo hi).
  Hypothesis Hlike : forall neg a p, P a -> P p -> P (ELike neg a p).
  Hypothesis Hisnull : forall neg a, P a -> P (EIsNull neg a).

  Fixpoint expr_ind' (e : expr) : P e :=
    match e with
    | ECol i => Hcol i
    | ELit v => Hlit v
    | EArith op a b => Harith op a b (expr_ind' a) (expr_ind' b)
    | ECmp op a b => Hcmp op a b (expr_ind' a) (expr_ind' b)
    | EAnd a b => Hand a b (expr_ind' a) (expr_ind' b)
    | EOr a b => Hor a b (expr_ind' a) (expr_ind' b)
    | ENot a => Hnot a (expr_ind' a)
    | EIn neg a l =>
        Hin neg a l (expr_ind' a)
          ((fix go (l : list expr) : Forall P l :=
              match l with
              | [] => Forall_nil P
              | x :: l' => Forall_cons x (expr_ind' x) (go l')
              end) l)
    | EBetween neg a lo hi => Hbetween neg a lo hi (expr_ind' a) (expr_ind' lo) (expr_ind' hi)
    | ELike neg a p => Hlike neg a p (expr_ind' a) (expr_ind' p)
    | EIsNull neg a => Hisnull neg a (expr_ind' a)
    end.
End ExprInd.

(* ------------------------------------------------------------------ small facts used by clients *)
Lemma bytes_cmp_eq : forall a b, bytes_cmp a b = Eq <-> a = b.
Proof.
  induction a as [|x a IH]; destruct b as [|y b]; cbn; split; intros H; try discriminate; try reflexivity.
  - destruct (Z.compare x y) eqn:E; try discriminate. apply Z.compare_eq in E. subst. f_equal. now apply IH.
  - injection H as -> ->. rewrite Z.compare_refl. now apply IH.
Qed.
Lemma zlist_eqb'_eq : forall a b, zlist_eqb' a b = true <-> a = b.
Proof.
  induction a as [|x a IH]; destruct b as [|y b]; cbn; split; intros H; try discriminate; try reflexivity.
  - apply andb_prop in H as [H1 H2]. apply Z.eqb_eq in H1. subst. f_equal. now apply IH.
  - injection H as -> ->. rewrite Z.eqb_refl. now apply IH.
Qed.
