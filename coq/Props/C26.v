(* C26 - Index key encoding preserves order and is invertible.
   Property theorems only.  Values: Model/KeySpec.v (kval, kwf, canon, vcmp, tcmp, lex_cmp);
   code model: Model/Key.v (enc, enc_tuple, dec, dec_cols) over the prefixes regenerated from
   src/encoding/key.rs (Gen/KeyPrefix.v); recorded defect classes: Model/KeyKnown.v.
   good v = kwf v && known_free v  (a well-formed input outside the recorded defect class 3). *)
From Coq Require Import ZArith List Bool.
From TV Require Import Lib.MachInt Gen.KeyPrefix Model.KeySpec Model.Key Model.KeyKnown Proof.KeyProps.
Import ListNotations.
Open Scope Z_scope.

(* bytewise order of two keys = documented order of the values (all types, cross-type, nested) *)
Theorem enc_order :
  forall a b, good a = true -> good b = true -> orderable a = true -> orderable b = true ->
    lex_cmp (enc a) (enc b) = vcmp a b.
Proof. exact enc_order_l. Qed.

(* multi-column keys compare column by column *)
Theorem enc_tuple_order :
  forall xs ys, forallb good xs = true -> forallb good ys = true ->
    forallb orderable xs = true -> forallb orderable ys = true ->
    lex_cmp (enc_tuple xs) (enc_tuple ys) = tcmp xs ys.
Proof. exact enc_tuple_order_l. Qed.

(* decoding a key, whatever follows it, returns the value (canonical zero / NaN / infinities)
   and the key's length; ranges included *)
Theorem dec_enc :
  forall a rest fuel, good a = true -> (ksize a <= fuel)%nat ->
    dec fuel (enc a ++ rest) = ROk (canon a) (blen (enc a)).
Proof. exact dec_enc_l. Qed.

(* a multi-column key decodes column after column to the original columns *)
Theorem dec_cols_enc :
  forall xs fuel, forallb good xs = true -> (forall x, In x xs -> (ksize x <= fuel)%nat) ->
    dec_cols (length xs) fuel (enc_tuple xs) = Some (map canon xs).
Proof. exact dec_cols_enc_l. Qed.

(* no key is a proper prefix of another key *)
Theorem enc_prefix_free :
  forall a b r1 r2, good a = true -> good b = true ->
    enc a ++ r1 = enc b ++ r2 -> canon a = canon b /\ enc a = enc b /\ r1 = r2.
Proof. exact enc_prefix_free_l. Qed.

(* distinct values have distinct keys; the only values sharing a key are those canon
   identifies (integer 0 / +0.0 / -0.0; the NaN patterns) *)
Theorem enc_injective :
  forall a b, good a = true -> good b = true -> (enc a = enc b <-> canon a = canon b).
Proof. exact enc_injective_l. Qed.

Theorem enc_tuple_injective :
  forall xs ys, forallb good xs = true -> forallb good ys = true ->
    enc_tuple xs = enc_tuple ys -> map canon xs = map canon ys.
Proof. exact enc_tuple_injective_l. Qed.

(* class 0 of the correspondence run (Corr/C26.v known_class) is exactly known_free *)
Theorem kclass_of_zero : forall v, kclass_of v = 0 <-> known_free v = true.
Proof. exact kclass_of_zero_l. Qed.

(* the specification order is the expected one on integers and on non-NaN doubles *)
Theorem vcmp_int : forall x y, vcmp (KS (SInt x)) (KS (SInt y)) = (x ?= y).
Proof. exact vcmp_int_l. Qed.

Theorem vcmp_float :
  forall x y, in_u 64 x = true -> in_u 64 y = true -> is_nan64 x = false -> is_nan64 y = false ->
    vcmp (KS (SFloat x)) (KS (SFloat y)) = (sm64 x ?= sm64 y).
Proof. exact vcmp_float_l. Qed.

(* vector components and JSON numbers are ordered by IEEE-754 totalOrder on bit patterns
   (tot32 / tot64 inside vcmp) and round-trip bit-exactly (canon leaves them alone).  totalOrder
   refines the numeric order; NaNs with the sign bit sort below, the others above, every non-NaN *)
Theorem tot32_refines :
  forall x y, in_u 32 x = true -> in_u 32 y = true -> sm32 x < sm32 y -> tot32 x < tot32 y.
Proof. exact tot32_refines_l. Qed.
Theorem tot64_refines :
  forall x y, in_u 64 x = true -> in_u 64 y = true -> sm64 x < sm64 y -> tot64 x < tot64 y.
Proof. exact tot64_refines_l. Qed.
Theorem tot32_nan :
  forall x y, in_u 32 x = true -> in_u 32 y = true -> is_nan32 x = true -> is_nan32 y = false ->
    if neg32 x then tot32 x < tot32 y else tot32 y < tot32 x.
Proof. exact tot32_nan_l. Qed.
Theorem tot64_nan :
  forall x y, in_u 64 x = true -> in_u 64 y = true -> is_nan64 x = true -> is_nan64 y = false ->
    if neg64 x then tot64 x < tot64 y else tot64 y < tot64 x.
Proof. exact tot64_nan_l. Qed.

(* the recorded defect class 3 is a genuine failure of the property in the faithful model.
   (Classes 1 and 2 of the first round -- -0.0 / sign-bit NaN in encode_vector and encode_json
   Number -- were repaired in /repo commit 22060f5; those inputs are now covered by the
   theorems above, see c26_witness_fixed.) *)
Theorem class3_refuted :
  exists a b c, kwf a = true /\ kwf b = true /\ kwf c = true
    /\ orderable a = true /\ orderable b = true /\ orderable c = true
    /\ kclass_of a = 3 /\ known_free b = true /\ known_free c = true
    /\ dec 10 (enc a) <> ROk (canon a) (blen (enc a))
    /\ (exists r, r <> [] /\ enc a = enc b ++ r)
    /\ lex_cmp (enc_tuple [b; c]) (enc_tuple [a; c]) <> tcmp [b; c] [a; c].
Proof. exact class3_refuted_l. Qed.

(* non-vacuity: the hypotheses are met by concrete values of every kind, the encodings are the
   documented ones, and the interesting orders occur *)
Example c26_witness_values :
  forallb (fun v => good v && orderable v)
    [KS SNull; KS (SBool true); KS (SInt (-5)); KS (SInt 0); KS (SFloat 13830554455654793216);
     KS (SFloat 9221120237041090560); KS (SText [104; 0; 195; 191]); KS (SBlob [255; 0]); KS (SDate (-1));
     KS (STimestampTz 5 (-60)); KS (SInterval 1 (-2) 3); KS (SUuid (repeat 7 16)); KS (SInet false [10;0;0;1] 8);
     KS (SMac (repeat 1 6)); KS (SEnum 1 2); KS (SVector [1065353216; 3212836864; 0]);
     KS (SJson (JObj [([97], JArr [JNum 4607182418800017408; JStr [0]; JNull])]));
     KArray [KS (SInt 1); KTuple [KS SNull; KS (SText [])]]; KComposite 7 [KS (SInt 1)]; KDomain 3 (KS (SBool false))] = true
  /\ good (KRange (Some (KS (SInt 1))) None true false) = true.
Proof. vm_compute. split; reflexivity. Qed.

Example c26_witness_encodings :
  enc (KS (SInt (-1))) = [18; 255; 255; 255; 255; 255; 255; 255; 255]
  /\ enc (KS (SInt 0)) = [20] /\ enc (KS (SFloat 9223372036854775808)) = [20]
  /\ enc (KS (SText [97; 0; 98])) = [32; 97; 0; 255; 98; 0; 0]
  /\ enc (KArray [KS (SInt 1); KS SNull]) = [96; 22; 0; 0; 0; 0; 0; 0; 0; 1; 1; 1; 0]
  /\ dec 5 (enc (KS (SFloat 9223372036854775808)) ++ [7]) = ROk (KS (SInt 0)) 1
  /\ vcmp (KS (SInt (-1))) (KS (SFloat 13830554455654793216)) = Lt       (* int -1 < float -1.0: class order *)
  /\ vcmp (KS (SText [97])) (KS (SText [97; 0])) = Lt
  /\ tcmp [KS (SInt 1); KS (SText [98])] [KS (SInt 1); KS (SText [97])] = Gt
  /\ lex_cmp (enc_tuple [KS (SText [97]); KS (SInt 2)]) (enc_tuple [KS (SText [97; 0]); KS (SInt 1)]) = Lt.
Proof. vm_compute. repeat split. Qed.

(* the inputs of the repaired defects (vector / JSON number -0.0 and sign-bit NaN) are now inside
   the theorems' domain, round-trip bit-exactly and sort where totalOrder puts them *)
Example c26_witness_fixed :
  good (KS (SVector [2147483648])) = true /\ good (KS (SJson (JNum 9223372036854775808))) = true
  /\ good (KS (SVector [4290772992])) = true
  /\ dec 10 (enc (KS (SVector [2147483648; 4290772992]))) = ROk (KS (SVector [2147483648; 4290772992])) 13
  /\ dec 10 (enc (KS (SJson (JNum 9223372036854775808)))) = ROk (KS (SJson (JNum 9223372036854775808))) 9
  /\ lex_cmp (enc (KS (SVector [3212836864]))) (enc (KS (SVector [2147483648]))) = Lt     (* -1.0 < -0.0 *)
  /\ lex_cmp (enc (KS (SVector [2147483648]))) (enc (KS (SVector [0]))) = Lt              (* -0.0 < +0.0 *)
  /\ lex_cmp (enc (KS (SVector [4290772992]))) (enc (KS (SVector [4286578688]))) = Lt.    (* -NaN < -inf *)
Proof. vm_compute. repeat split. Qed.

Check enc_order : forall a b, good a = true -> good b = true -> orderable a = true -> orderable b = true -> lex_cmp (enc a) (enc b) = vcmp a b.
Check enc_tuple_order : forall xs ys, forallb good xs = true -> forallb good ys = true -> forallb orderable xs = true -> forallb orderable ys = true -> lex_cmp (enc_tuple xs) (enc_tuple ys) = tcmp xs ys.
Check dec_enc : forall a rest fuel, good a = true -> (ksize a <= fuel)%nat -> dec fuel (enc a ++ rest) = ROk (canon a) (blen (enc a)).
Check dec_cols_enc : forall xs fuel, forallb good xs = true -> (forall x, In x xs -> (ksize x <= fuel)%nat) -> dec_cols (length xs) fuel (enc_tuple xs) = Some (map canon xs).
Check enc_prefix_free : forall a b r1 r2, good a = true -> good b = true -> enc a ++ r1 = enc b ++ r2 -> canon a = canon b /\ enc a = enc b /\ r1 = r2.
Check enc_injective : forall a b, good a = true -> good b = true -> (enc a = enc b <-> canon a = canon b).
Check enc_tuple_injective : forall xs ys, forallb good xs = true -> forallb good ys = true -> enc_tuple xs = enc_tuple ys -> map canon xs = map canon ys.
Check kclass_of_zero : forall v, kclass_of v = 0 <-> known_free v = true.
Check vcmp_int : forall x y, vcmp (KS (SInt x)) (KS (SInt y)) = (x ?= y).
Check vcmp_float : forall x y, in_u 64 x = true -> in_u 64 y = true -> is_nan64 x = false -> is_nan64 y = false -> vcmp (KS (SFloat x)) (KS (SFloat y)) = (sm64 x ?= sm64 y).
Check tot32_refines : forall x y, in_u 32 x = true -> in_u 32 y = true -> sm32 x < sm32 y -> tot32 x < tot32 y.
Check tot64_refines : forall x y, in_u 64 x = true -> in_u 64 y = true -> sm64 x < sm64 y -> tot64 x < tot64 y.
Check tot32_nan : forall x y, in_u 32 x = true -> in_u 32 y = true -> is_nan32 x = true -> is_nan32 y = false -> if neg32 x then tot32 x < tot32 y else tot32 y < tot32 x.
Check tot64_nan : forall x y, in_u 64 x = true -> in_u 64 y = true -> is_nan64 x = true -> is_nan64 y = false -> if neg64 x then tot64 x < tot64 y else tot64 y < tot64 x.
Check class3_refuted : exists a b c, kwf a = true /\ kwf b = true /\ kwf c = true /\ orderable a = true /\ orderable b = true /\ orderable c = true /\ kclass_of a = 3 /\ known_free b = true /\ known_free c = true /\ dec 10 (enc a) <> ROk (canon a) (blen (enc a)) /\ (exists r, r <> [] /\ enc a = enc b ++ r) /\ lex_cmp (enc_tuple [b; c]) (enc_tuple [a; c]) <> tcmp [b; c] [a; c].

Print Assumptions enc_order.
Print Assumptions enc_tuple_order.
Print Assumptions dec_enc.
Print Assumptions dec_cols_enc.
Print Assumptions enc_prefix_free.
Print Assumptions enc_injective.
Print Assumptions enc_tuple_injective.
Print Assumptions kclass_of_zero.
Print Assumptions vcmp_int.
Print Assumptions vcmp_float.
Print Assumptions tot32_refines.
Print Assumptions tot64_refines.
Print Assumptions tot32_nan.
Print Assumptions tot64_nan.
Print Assumptions class3_refuted.
