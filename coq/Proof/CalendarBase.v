(* C41: generic lemmas (finite-domain lifting, loops as sums) and the closed forms of the Spec. *)
From Coq Require Import ZArith List Bool Lia ZifyBool.
From TV Require Import Lib.MachInt Lib.MachIntFacts Model.Calendar.
Import ListNotations.
Open Scope Z_scope.

Ltac Zify.zify_post_hook ::= Z.to_euclidean_division_equations.

Lemma In_zrange lo hi x : lo <= x <= hi -> In x (zrange lo hi).
Proof.
  intros H. unfold zrange. apply in_map_iff. exists (Z.to_nat (x - lo)). split; [lia|].
  apply in_seq. lia.
Qed.

Lemma all_dates_lift (P : Z -> Z -> Z -> bool) lo hi :
  all_dates P lo hi = true ->
  forall y m d, lo <= y <= hi -> valid_date y m d = true -> P y m d = true.
Proof.
  unfold all_dates, all_dates_of_year, valid_date. intros H y m d Hy Hv.
  rewrite forallb_forall in H. specialize (H y (In_zrange _ _ _ Hy)).
  rewrite forallb_forall in H. assert (Hm : 1 <= m <= 12) by lia.
  specialize (H m (In_zrange _ _ _ Hm)).
  rewrite forallb_forall in H. apply H. apply In_zrange. lia.
Qed.

(* loop invariant rule for `for k in lo..hi` *)
Lemma zfold_ind {A} (P : Z -> A -> Prop) lo hi (f : Z -> A -> A) a :
  lo <= hi -> P lo a ->
  (forall k acc, lo <= k < hi -> P k acc -> P (k + 1) (f k acc)) ->
  P hi (zfold lo hi f a).
Proof.
  intros Hle H0 Hstep.
  assert (G : forall n : nat, lo + Z.of_nat n <= hi -> P (lo + Z.of_nat n) (zfold lo (lo + Z.of_nat n) f a)).
  { induction n as [|n IH]; intros Hn.
    - replace (lo + Z.of_nat 0) with lo by lia. rewrite zfold_empty by lia. exact H0.
    - replace (lo + Z.of_nat (S n)) with ((lo + Z.of_nat n) + 1) by lia.
      rewrite zfold_step by lia. apply Hstep; [lia|]. apply IH. lia. }
  specialize (G (Z.to_nat (hi - lo))). replace (lo + Z.of_nat (Z.to_nat (hi - lo))) with hi in G by lia.
  apply G. lia.
Qed.

(* ---- closed forms of the Spec's sums *)
Lemma year_len_step y : 1 <= y -> dby_closed y + year_len y = dby_closed (y + 1).
Proof.
  intros Hy. unfold dby_closed, year_len, is_leap.
  destruct (y mod 4 =? 0) eqn:E4; destruct (y mod 100 =? 0) eqn:E100; destruct (y mod 400 =? 0) eqn:E400;
    cbn [andb orb negb]; lia.
Qed.

Lemma dby_closed_ok y : 1 <= y -> days_before_year y = dby_closed y.
Proof.
  intros Hy. unfold days_before_year.
  apply (zfold_ind (fun k acc => acc = dby_closed k) 1 y); [lia | reflexivity |].
  intros k acc Hk ->. apply year_len_step. lia.
Qed.

Lemma dbm_table_ok y m : 1 <= m <= 12 -> days_before_month y m = dbm_table (is_leap y) m.
Proof.
  intros Hm. unfold days_before_month.
  assert (Hc : m = 1 \/ m = 2 \/ m = 3 \/ m = 4 \/ m = 5 \/ m = 6 \/ m = 7 \/ m = 8 \/ m = 9 \/ m = 10 \/ m = 11 \/ m = 12) by lia.
  destruct (is_leap y) eqn:L;
  repeat (destruct Hc as [-> | Hc]); try subst m;
  unfold zfold; cbn [Z.sub Z.opp Z.add Z.pos_sub Z.to_nat Pos.to_nat Pos.iter_op Nat.add Pos.pred_double zfold_n];
  unfold dim; rewrite ?L; reflexivity.
Qed.

Lemma rata_fast_ok y m d : 1 <= y -> 1 <= m <= 12 -> rata_die y m d = rata_fast y m d.
Proof.
  intros Hy Hm. unfold rata_die, rata_fast. rewrite dby_closed_ok, dbm_table_ok by lia. reflexivity.
Qed.

Lemma rata_1970 : rata_die 1970 1 1 = 719162.
Proof. rewrite rata_fast_ok by lia. reflexivity. Qed.

(* 400-year periodicity of the Spec *)
Lemma is_leap_400 y : is_leap (y + 400) = is_leap y.
Proof.
  unfold is_leap.
  replace ((y + 400) mod 4) with (y mod 4) by lia.
  replace ((y + 400) mod 100) with (y mod 100) by lia.
  replace ((y + 400) mod 400) with (y mod 400) by lia. reflexivity.
Qed.
Lemma dim_400 y m : dim (y + 400) m = dim y m.
Proof. unfold dim. rewrite is_leap_400. reflexivity. Qed.
Lemma dby_closed_400 y : dby_closed (y + 400) = dby_closed y + 146097.
Proof. unfold dby_closed. lia. Qed.
Lemma rata_fast_400 y m d : rata_fast (y + 400) m d = rata_fast y m d + 146097.
Proof. unfold rata_fast. rewrite is_leap_400, dby_closed_400. lia. Qed.
Lemma valid_date_400 y m d : valid_date (y + 400) m d = valid_date y m d.
Proof. unfold valid_date. rewrite dim_400. reflexivity. Qed.

(* lifting a 400-periodic fact from one cycle to every year >= 1 *)
Lemma lift_400 (Q : Z -> Prop) :
  (forall y, 1 <= y <= 400 -> Q y) -> (forall y, 1 <= y -> Q y -> Q (y + 400)) ->
  forall y, 1 <= y -> Q y.
Proof.
  intros Hbase Hstep y Hy.
  assert (G : forall n : nat, forall y, 1 <= y <= 400 * (Z.of_nat n + 1) -> Q y).
  { induction n as [|n IH]; intros y0 Hy0.
    - apply Hbase. lia.
    - destruct (Z_le_gt_dec y0 400) as [Hs|Hb]; [apply Hbase; lia|].
      replace y0 with ((y0 - 400) + 400) by lia. apply Hstep; [lia|]. apply IH. lia. }
  apply (G (Z.to_nat y)). lia.
Qed.
