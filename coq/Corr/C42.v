(* C42 correspondence: judge what harness/src/bin/c42.rs observed.  Definitions only; evaluated by
   vm_compute.
   LruCase : an operation sequence on the real LruFileCache<u64, u64> with every result.
     model_agrees = Model/LruFile.v (lru_run) returns exactly these results;
     spec_ok      = the results are those of a bounded partial map that never answers with a value
                    other than the last one stored for the key, never loses a key without reporting
                    it and never holds more than max(cap, 1) entries (independent of the model).
   CfgCase : ONE history of INSERT / UPDATE / DELETE / TRUNCATE run on the real Database once per
     configuration (first = baseline), each run with the observation after every statement.
     model_agrees = the configuration-free mechanism model (Model/Tombstone.v, via DmlCase.model_agrees)
                    reproduces the observations of EVERY configuration;
     spec_ok      = the property itself: every configuration's observations (statement result,
                    RETURNING rows, SELECT * as a bag, COUNT star) equal the baseline's, step by step. *)
From Coq Require Import ZArith List Bool.
From TV Require Export Model.LruFile Model.DmlCase.
Import ListNotations.
Open Scope Z_scope.

Inductive case :=
| LruCase (cap : Z) (ops : list lop) (outs : list lout)
| CfgCase (runs : list DmlCase.case).

Definition oz_eqb (a b : option Z) : bool :=
  match a, b with Some x, Some y => x =? y | None, None => true | _, _ => false end.
Definition op_eqb (a b : option (Z * Z)) : bool :=
  match a, b with Some (x, y), Some (u, v) => (x =? u) && (y =? v) | None, None => true | _, _ => false end.
Definition lout_eqb (a b : lout) : bool :=
  match a, b with
  | OVal x, OVal y => oz_eqb x y
  | OPair x, OPair y => op_eqb x y
  | ONum x, ONum y => x =? y
  | _, _ => false
  end.
Fixpoint louts_eqb (a b : list lout) : bool :=
  match a, b with
  | [], [] => true
  | x :: a', y :: b' => lout_eqb x y && louts_eqb a' b'
  | _, _ => false
  end.

(* the property-side oracle for the cache: m is the plain map the results must be explained by *)
Fixpoint lru_oracle (cap : Z) (m : list (Z * Z)) (ops : list lop) (outs : list lout) : bool :=
  match ops, outs with
  | [], [] => true
  | (LGet k | LGetMut k) :: t, OVal r :: u => oz_eqb r (m_get k m) && lru_oracle cap m t u
  | LInsert k v :: t, OPair ev :: u =>
      let '(ok, m1) := match ev with
                       | Some (e, w) => (negb (e =? k) && oz_eqb (m_get e m) (Some w), m_del e m)
                       | None => (true, m)
                       end in
      let m2 := m_set k v m1 in
      ok && (zlen m2 <=? Z.max cap 1) && lru_oracle cap m2 t u
  | LPop :: t, OPair ev :: u =>
      match ev with
      | Some (e, w) => oz_eqb (m_get e m) (Some w) && lru_oracle cap (m_del e m) t u
      | None => (zlen m =? 0) && lru_oracle cap m t u
      end
  | LRemove k :: t, OVal r :: u => oz_eqb r (m_get k m) && lru_oracle cap (m_del k m) t u
  | LLen :: t, ONum n :: u => (n =? zlen m) && lru_oracle cap m t u
  | _, _ => false
  end.

(* observations of two runs of the same history (each run interns its rows in its own dictionary) *)
Definition orows_same (d0 d1 : list row) (a b : option (list Z)) : bool :=
  match a, b with
  | Some x, Some y => bag_eqb (drows d0 x) (drows d1 y)
  | None, None => true
  | _, _ => false
  end.
Definition hres_same (d0 d1 : list row) (a b : hres) : bool :=
  match a, b with
  | HAff n x, HAff m y => (n =? m) && orows_same d0 d1 x y
  | HErr, HErr => true
  | HPanic, HPanic => true
  | _, _ => false
  end.
Definition hobs_same (d0 d1 : list row) (a b : hobs) : bool :=
  match a, b with
  | HObs r rows cnt, HObs r' rows' cnt' =>
      hres_same d0 d1 r r' && orows_same d0 d1 rows rows' && oz_eqb cnt cnt'
  end.
Fixpoint steps_same (d0 d1 : list row) (a b : list (stmt * hobs)) : bool :=
  match a, b with
  | [], [] => true
  | (_, x) :: a', (_, y) :: b' => hobs_same d0 d1 x y && steps_same d0 d1 a' b'
  | _, _ => false
  end.
Definition run_same (a b : DmlCase.case) : bool :=
  match a, b with Hist _ d0 s0, Hist _ d1 s1 => steps_same d0 d1 s0 s1 end.

Definition model_agrees (c : case) : bool :=
  match c with
  | LruCase cap ops outs => louts_eqb (snd (lru_run (lru_new cap) ops)) outs
  | CfgCase runs => forallb DmlCase.model_agrees runs
  end.

Definition spec_ok (c : case) : bool :=
  match c with
  | LruCase cap ops outs => lru_oracle cap [] ops outs
  | CfgCase [] => false
  | CfgCase (base :: rest) => forallb (run_same base) rest
  end.

Definition known_class (c : case) : Z := 0.

Fixpoint failures_from (i : Z) (cs : list case) : list (Z * bool * bool * Z) :=
  match cs with
  | [] => []
  | c :: t =>
      let m := model_agrees c in
      let s := spec_ok c in
      if m && s then failures_from (i + 1) t else (i, m, s, known_class c) :: failures_from (i + 1) t
  end.
Definition failures := failures_from 0.
