(* C05 -- UPDATE of the repaired mechanism against the reference. *)
From Coq Require Import ZArith List Bool Lia.
From TV Require Import Model.SqlSpec Model.DmlSpec Model.Tombstone Proof.SqlSpecLaws Proof.TombBase Proof.TombDel.
Import ListNotations.
Open Scope Z_scope.

(* the column-wise construction: wherever the reference defines the new row, the repaired
   evaluation builds the same one *)
Lemma upd_cols_new_cols : forall sets old cur tys i r2,
  upd_cols sets old tys i cur = Some r2 -> new_cols feval sets old i cur = ROk r2.
Proof.
  intros sets old. induction cur as [|v cur IH]; intros tys i r2 H; destruct tys as [|ty tys]; cbn [upd_cols] in H;
    try discriminate.
  - inversion H; subst. reflexivity.
  - cbn [new_cols].
    destruct (upd_cols sets old tys (S i) cur) as [rest|] eqn:R.
    + rewrite (IH _ _ _ R). destruct (assoc_set i sets) as [e|].
      * unfold feval. destruct (eval e old) as [x|]; [|discriminate].
        destruct (fits ty x); [|discriminate]. inversion H; subst. reflexivity.
      * destruct (fits ty v); [|discriminate]. inversion H; subst. reflexivity.
    + destruct (match assoc_set i sets with Some e => eval e old | None => Some v end); discriminate.
Qed.
Lemma spec_upd_row_new_row : forall sch sets old r2,
  spec_upd_row sch sets old = Some r2 -> new_row true sets old = ROk r2.
Proof. intros sch sets old r2 H. unfold new_row. eapply upd_cols_new_cols. exact H. Qed.

(* the key column is not assigned: the new row keeps the key *)
Lemma sets_plain_assoc0 : forall sch sets, keyed sch = true -> sets_plain sch sets = true -> assoc_set 0 sets = None.
Proof.
  intros sch sets K H. unfold sets_plain in H. rewrite K in H. cbn [negb orb] in H.
  induction sets as [|[j e] sets IH]; cbn [assoc_set]; [reflexivity|].
  cbn [forallb fst] in H. apply andb_true_iff in H. destruct H as [Hj H].
  apply negb_true_iff in Hj. rewrite Nat.eqb_sym in Hj. rewrite Hj. apply IH. exact H.
Qed.
Lemma new_cols_key : forall ev sets src old r, assoc_set 0 sets = None ->
  new_cols ev sets src 0 old = ROk r -> key_of r = key_of old.
Proof.
  intros ev sets src old r H0 H. destruct old as [|v old]; cbn [new_cols] in H.
  - inversion H; subst. reflexivity.
  - rewrite H0 in H. destruct (new_cols ev sets src 1 old) as [l| |]; cbn [rcons] in H; try discriminate.
    inversion H; subst. reflexivity.
Qed.

(* the row UPDATE writes for an old row (the old row itself where no row is produced) *)
Definition nr (sets : list (nat * expr)) (old : row) : row :=
  match new_row true sets old with ROk r => r | _ => old end.
Definition upd_ent (sets : list (nat * expr)) (e : entry) : entry := mkEnt (e_id e) false (nr sets (e_row e)).

Lemma assoc_new_notin : forall (g : entry -> row) P es id, ~ In id (map e_id es) ->
  assoc_new id (filter P es) (map g (filter P es)) = None.
Proof.
  intros g P es id. induction es as [|x es IH]; intro Hn; cbn [filter]; [reflexivity|].
  cbn [map] in Hn. destruct (P x); cbn [map assoc_new].
  - destruct (e_id x =? id) eqn:E; [apply Z.eqb_eq in E; exfalso; apply Hn; left; exact E|].
    apply IH. intro H. apply Hn. right. exact H.
  - apply IH. intro H. apply Hn. right. exact H.
Qed.
Lemma assoc_new_filter : forall (g : entry -> row) P es e, NoDup (map e_id es) -> In e es ->
  assoc_new (e_id e) (filter P es) (map g (filter P es)) = if P e then Some (g e) else None.
Proof.
  intros g P es e. induction es as [|x es IH]; intros Hnd Hin; [contradiction|].
  cbn [map] in Hnd. inversion Hnd as [|? ? Hx Hnd']; subst. cbn [filter]. destruct Hin as [->|Hin].
  - destruct (P e); cbn [map assoc_new].
    + rewrite Z.eqb_refl. reflexivity.
    + apply assoc_new_notin. exact Hx.
  - assert (Hne : e_id x <> e_id e).
    { intro E. apply Hx. rewrite E. apply in_map. exact Hin. }
    destruct (P x); cbn [map assoc_new].
    + destruct (e_id x =? e_id e) eqn:E; [apply Z.eqb_eq in E; contradiction|]. apply IH; assumption.
    + apply IH; assumption.
Qed.
Lemma write_upd_filter : forall (g : entry -> row) P es, NoDup (map e_id es) ->
  write_upd (filter P es) (map g (filter P es)) es = map (fun e => if P e then mkEnt (e_id e) false (g e) else e) es.
Proof.
  intros g P es Hnd. unfold write_upd. apply map_ext_in. intros e Hin.
  rewrite assoc_new_filter by assumption. destruct (P e); reflexivity.
Qed.

(* the collect phase against the reference's walk over the visible rows *)
Definition selP (w : option expr) (e : entry) : bool := cand true e && wpass w (e_row e).

Lemma spec_upd_model : forall sch sets w es t2 news,
  spec_upd sch sets w (map e_row (filter live es)) = Some (t2, news) ->
  new_rows true sch sets (filter (selP w) es) = (if forallb (nn_ok sch) news then UOk news else UNnErr)
  /\ news = map (fun e => nr sets (e_row e)) (filter (selP w) es)
  /\ t2 = map e_row (filter live (map (fun e => if selP w e then upd_ent sets e else e) es)).
Proof.
  intros sch sets w. induction es as [|e es IH]; intros t2 news H.
  - cbn in H. inversion H; subst. cbn. repeat split; reflexivity.
  - cbn [filter map] in *. destruct (live e) eqn:L.
    + cbn [map spec_upd] in H. destruct (wsel w (e_row e)) as [[|]|] eqn:W; try discriminate.
      * assert (Pe : selP w e = true) by (unfold selP, wpass; cbn [cand]; rewrite L, W; reflexivity).
        destruct (spec_upd sch sets w (map e_row (filter live es))) as [[t3 news3]|] eqn:S; [|discriminate].
        destruct (spec_upd_row sch sets (e_row e)) as [r2|] eqn:R; [|discriminate]. inversion H; subst; clear H.
        destruct (IH _ _ eq_refl) as [A [B C]].
        pose proof (spec_upd_row_new_row _ _ _ _ R) as NR.
        rewrite Pe. change (live (upd_ent sets e)) with true. cbn iota.
        cbn [map new_rows]. rewrite NR, A. cbn [forallb]. split; [|split].
        -- destruct (nn_ok sch r2); cbn [andb]; destruct (forallb (nn_ok sch) news3); reflexivity.
        -- unfold nr at 1. rewrite NR. f_equal. exact B.
        -- cbn [upd_ent e_row]. unfold nr at 1. rewrite NR. f_equal. exact C.
      * assert (Pe : selP w e = false) by (unfold selP, wpass; cbn [cand]; rewrite L, W; reflexivity).
        destruct (spec_upd sch sets w (map e_row (filter live es))) as [[t3 news3]|] eqn:S; [|discriminate].
        inversion H; subst; clear H. destruct (IH _ _ eq_refl) as [A [B C]].
        rewrite Pe, L. cbn [map]. split; [exact A|]. split; [exact B|]. f_equal. exact C.
    + assert (Pe : selP w e = false) by (unfold selP; cbn [cand]; rewrite L; reflexivity).
      rewrite Pe, L. apply IH. exact H.
Qed.

(* entry-wise rewriting that keeps id, liveness and (on keyed tables) the key keeps InvS *)
Lemma invS_map : forall sch st (f : entry -> entry) rc,
  InvS sch st ->
  (forall e, In e (ents st) -> e_id (f e) = e_id e /\ live (f e) = live e /\ (keyed sch = true -> e_key (f e) = e_key e)) ->
  InvS sch (mkT (map f (ents st)) rc (kidx st) (nextid st)).
Proof.
  intros sch st f rc HI Hf. destruct (inv_ids _ _ HI) as [Hnd Hlt].
  assert (Hids : map e_id (map f (ents st)) = map e_id (ents st)).
  { rewrite map_map. apply map_ext_in. intros e He. apply (Hf e He). }
  constructor; cbn [ents nextid kidx].
  - split; [rewrite Hids; exact Hnd|]. intros e Hin. apply in_map_iff in Hin. destruct Hin as [e0 [E Hin]].
    subst. rewrite (proj1 (Hf e0 Hin)). apply Hlt. exact Hin.
  - rewrite (inv_idx _ _ HI). destruct (keyed sch) eqn:K; [|reflexivity].
    unfold idx_of. rewrite filter_map_comm, map_map.
    assert (E : filter (fun x => idx_live (f x)) (ents st) = filter idx_live (ents st)).
    { apply filter_ext_in. intros e He. destruct (Hf e He) as [_ [Lf Kf]]. unfold idx_live. rewrite Lf, (Kf eq_refl). reflexivity. }
    rewrite E. apply map_ext_in. intros e He. apply filter_In in He. destruct He as [He _].
    destruct (Hf e He) as [If [_ Kf]]. rewrite If, (Kf eq_refl). reflexivity.
  - intros K a b Ha Hb La Lb Na E.
    apply in_map_iff in Ha. destruct Ha as [a0 [Ea Ha]]. apply in_map_iff in Hb. destruct Hb as [b0 [Eb Hb]]. subst.
    destruct (Hf a0 Ha) as [Ia [La' Ka]]. destruct (Hf b0 Hb) as [Ib [Lb' Kb]].
    rewrite Ia, Ib. rewrite La' in La. rewrite Lb' in Lb. rewrite (Ka K) in Na, E. rewrite (Kb K) in E.
    eapply (inv_uniq _ _ HI K); eassumption.
  - intros K e Hin. apply in_map_iff in Hin. destruct Hin as [e0 [E Hin]]. subst.
    destruct (Hf e0 Hin) as [_ [_ Kf]]. rewrite (Kf K). apply (inv_kty _ _ HI K). exact Hin.
Qed.

Lemma update_refines : forall sch st sets w ret r t', Inv sch st ->
  fst (step true sch st (SUpdate sets w ret)) <> RUnmod ->
  spec_step sch (visible st) (SUpdate sets w ret) = Some (r, t') ->
  exists st', step true sch st (SUpdate sets w ret) = (r, st') /\ visible st' = t' /\ Inv sch st'.
Proof.
  intros sch st sets w ret r t' [HI Hc] Hm H. cbn [spec_step step] in *. unfold do_update in *.
  destruct (where_modelled w st && sets_modelled sch sets); [|exfalso; apply Hm; reflexivity]. clear Hm.
  destruct (sets_plain sch sets) eqn:SP; [|discriminate].
  destruct (spec_upd sch sets w (visible st)) as [[t2 news]|] eqn:SU; [|discriminate].
  rewrite (select_true_scan _ _ _ HI). unfold scan.
  unfold visible in SU. destruct (spec_upd_model _ _ _ _ _ _ SU) as [A [B C]].
  change (fun e => cand true e && wpass w (e_row e)) with (selP w).
  set (P := selP w) in *.
  rewrite A. destruct (forallb (nn_ok sch) news) eqn:NN; inversion H; subst r t'; clear H.
  - destruct (inv_ids _ _ HI) as [Hnd Hlt].
    assert (W : write_upd (filter P (ents st)) news (ents st)
                = map (fun e => if P e then upd_ent sets e else e) (ents st)).
    { rewrite B. apply (write_upd_filter (fun e => nr sets (e_row e)) P _ Hnd). }
    rewrite W. clear W.
    assert (Hf : forall e, In e (ents st) ->
              e_id (if P e then upd_ent sets e else e) = e_id e /\
              live (if P e then upd_ent sets e else e) = live e /\
              (keyed sch = true -> e_key (if P e then upd_ent sets e else e) = e_key e)).
    { intros e He. destruct (P e) eqn:Pe; [|repeat split; reflexivity].
      unfold P, selP in Pe. cbn [cand] in Pe. apply andb_true_iff in Pe. destruct Pe as [Le _].
      split; [reflexivity|]. split; [unfold live at 1; cbn; symmetry; exact Le|].
      intro K. unfold e_key, upd_ent, nr. cbn [e_row].
      destruct (new_row true sets (e_row e)) as [r0| |] eqn:NR; try reflexivity.
      unfold new_row in NR. eapply new_cols_key; [|exact NR]. eapply sets_plain_assoc0; eassumption. }
    eexists. split; [|split].
    + cbn [negb andb]. f_equal. f_equal. rewrite B. unfold zlen. rewrite map_length. reflexivity.
    + unfold visible. cbn [ents]. symmetry. exact C.
    + split.
      * apply invS_map; assumption.
      * cbn [rcount]. rewrite Hc. unfold visible. cbn [ents]. rewrite !zlen_map.
        assert (E : filter live (map (fun e => if P e then upd_ent sets e else e) (ents st))
                    = map (fun e => if P e then upd_ent sets e else e) (filter live (ents st))).
        { rewrite filter_map_comm. f_equal. apply filter_ext_in. intros e He. apply (Hf e He). }
        rewrite E, zlen_map. reflexivity.
  - exists st. split; [reflexivity|]. split; [reflexivity|]. split; assumption.
Qed.
