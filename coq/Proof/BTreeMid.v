(* C28 proofs: the split point search of split_leaf (90% / 50% start, the two loops, the clamps) always
   ends at a point where both halves fit a page when no cell is larger than half a page. *)
From Coq Require Import ZArith List Bool Lia.
From TV Require Import Lib.MachInt Gen.Varint Model.BTree Proof.BTreeLeaf.
Import ListNotations.
Open Scope Z_scope.
Arguments Z.sub : simpl never.
Arguments Z.add : simpl never.
Arguments Z.mul : simpl never.
Arguments Z.of_nat : simpl never.

Lemma firstn_S_sumz (l : list Z) : forall m, (m < length l)%nat -> sumz (firstn (S m) l) = sumz (firstn m l) + nth m l 0.
Proof.
  induction l as [|x l IH]; intros m H; [cbn in H; lia|].
  destruct m as [|m]; [cbn [firstn nth]; rewrite sumz_cons; cbn; lia|].
  change (firstn (S (S m)) (x :: l)) with (x :: firstn (S m) l). change (firstn (S m) (x :: l)) with (x :: firstn m l).
  change (nth (S m) (x :: l) 0) with (nth m l 0). rewrite !sumz_cons. cbn [length] in H. rewrite (IH m) by lia. lia.
Qed.

Section MID.
Variable sizes : list Z.
Variable h : Z.
Hypothesis Hsz : forall s, In s sizes -> 0 <= s <= h.
Hypothesis Hh : 2 * h <= LEAF_CAP.
Hypothesis Htot : sumz sizes <= LEAF_CAP + h.
Hypothesis Hlen : (1 <= length sizes)%nat.

Definition Lm (m : nat) : Z := sumz (firstn m sizes).
Definition Rm (m : nat) : Z := sumz (skipn m sizes).

Lemma LR m : Lm m + Rm m = sumz sizes.
Proof. unfold Lm, Rm. rewrite <- sumz_app, firstn_skipn. reflexivity. Qed.

Lemma sub_nonneg (l : list Z) : (forall s, In s l -> In s sizes) -> 0 <= sumz l.
Proof.
  induction l as [|x l IH]; intros H; [cbn; lia|]. rewrite sumz_cons.
  pose proof (Hsz x (H x (or_introl eq_refl))). assert (0 <= sumz l) by (apply IH; intros s Hs; apply H; right; exact Hs). lia.
Qed.
Lemma Lm_nonneg m : 0 <= Lm m.
Proof. apply sub_nonneg. intros s Hs. eapply In_firstn_c28. exact Hs. Qed.
Lemma Rm_nonneg m : 0 <= Rm m.
Proof. apply sub_nonneg. intros s Hs. eapply In_skipn_c28. exact Hs. Qed.

Lemma nth_bound m : (m < length sizes)%nat -> 0 <= nth m sizes 0 <= h.
Proof. intros H. apply Hsz. apply nth_In. exact H. Qed.

Lemma Lm_S m : (m < length sizes)%nat -> Lm (S m) = Lm m + nth m sizes 0.
Proof. apply firstn_S_sumz. Qed.
Lemma Rm_S m : (m < length sizes)%nat -> Rm m = nth m sizes 0 + Rm (S m).
Proof. intros H. pose proof (LR m). pose proof (LR (S m)). pose proof (Lm_S m H). lia. Qed.

Lemma Rm_all m : (length sizes <= m)%nat -> Rm m = 0.
Proof. intros H. unfold Rm. rewrite skipn_all2 by exact H. reflexivity. Qed.
Lemma Rm_last m : (length sizes - 1 <= m)%nat -> Rm m <= h.
Proof.
  intros H. destruct (Nat.le_gt_cases (length sizes) m) as [H1 | H1].
  - rewrite Rm_all by exact H1. pose proof (nth_bound 0 ltac:(lia)). lia.
  - rewrite Rm_S by lia. rewrite (Rm_all (S m)) by lia. pose proof (nth_bound m H1). lia.
Qed.
Lemma Lm_0 : Lm 0 = 0.
Proof. reflexivity. Qed.
Lemma Lm_le1 m : (m <= 1)%nat -> Lm m <= h.
Proof.
  intros H. destruct m as [|[|m]]; try lia.
  - rewrite Lm_0. pose proof (nth_bound 0 ltac:(lia)). lia.
  - rewrite Lm_S by lia. rewrite Lm_0. pose proof (nth_bound 0 ltac:(lia)). lia.
Qed.

Lemma loop1_spec n : n = length sizes -> forall fuel mid, let r := loop1 fuel sizes n mid in
  (mid <= r)%nat /\ ((mid < r)%nat -> LEAF_CAP < Rm (r - 1)) /\ (Rm r <= LEAF_CAP \/ (n - 1 <= r)%nat \/ r = (mid + fuel)%nat).
Proof.
  intros Hn. induction fuel as [|f IH]; intros mid; cbn [loop1].
  - split; [lia|]. split; [lia|]. right; right. lia.
  - fold (Rm mid). destruct (Z.leb_spec (Rm mid) LEAF_CAP) as [H1 | H1]; cbn [orb].
    + split; [lia|]. split; [lia|]. left. exact H1.
    + destruct (Nat.leb_spec (n - 1) mid) as [H2 | H2].
      * split; [lia|]. split; [lia|]. right; left. exact H2.
      * specialize (IH (S mid)). cbv zeta in IH. destruct IH as (I1 & I2 & I3).
        set (r := loop1 f sizes n (S mid)) in *. split; [lia|]. split.
        -- intros _. destruct (Nat.eq_dec r (S mid)) as [E | E]; [rewrite E; replace (S mid - 1)%nat with mid by lia; exact H1 | apply I2; lia].
        -- destruct I3 as [I3 | [I3 | I3]]; [left; exact I3 | right; left; exact I3 | right; right; lia].
Qed.

Lemma loop1_le n : forall fuel m0, (m0 <= n - 1)%nat -> (loop1 fuel sizes n m0 <= n - 1)%nat.
Proof.
  induction fuel as [|f IH]; intros m0 Hm0; cbn [loop1]; [exact Hm0|].
  destruct (_ || _) eqn:E; [exact Hm0|]. apply orb_false_iff in E as [_ E]. apply Nat.leb_gt in E. apply IH. lia.
Qed.

Lemma loop2_spec : forall fuel mid, let r := loop2 fuel sizes mid in
  (r <= mid)%nat /\ ((r < mid)%nat -> LEAF_CAP < Lm (r + 1)) /\ (Lm r <= LEAF_CAP \/ (r <= 1)%nat \/ (r + fuel = mid)%nat).
Proof.
  induction fuel as [|f IH]; intros mid; cbn [loop2].
  - split; [lia|]. split; [lia|]. right; right. lia.
  - destruct (Nat.ltb_spec 1 mid) as [H1 | H1].
    + fold (Lm mid). destruct (Z.leb_spec (Lm mid) LEAF_CAP) as [H2 | H2].
      * split; [lia|]. split; [lia|]. left. exact H2.
      * specialize (IH (mid - 1)%nat). cbv zeta in IH. destruct IH as (I1 & I2 & I3).
        set (r := loop2 f sizes (mid - 1)) in *. split; [lia|]. split.
        -- intros _. destruct (Nat.eq_dec r (mid - 1)) as [E | E]; [rewrite E; replace (mid - 1 + 1)%nat with mid by lia; exact H2 | apply I2; lia].
        -- destruct I3 as [I3 | [I3 | I3]]; [left; exact I3 | right; left; exact I3 | right; right; lia].
    + split; [lia|]. split; [lia|]. right; left. lia.
Qed.

Lemma choose_mid_fits rm : Lm (choose_mid rm sizes) <= LEAF_CAP /\ Rm (choose_mid rm sizes) <= LEAF_CAP.
Proof.
  assert (Hh0 : 0 <= h) by (pose proof (nth_bound 0 ltac:(lia)); lia).
  unfold choose_mid. set (n := length sizes). assert (Hn_def : n = length sizes) by reflexivity. clearbody n.
  set (m0 := if rm then Nat.min (n * 9 / 10) (n - 1) else (n / 2)%nat).
  assert (Hm0 : (m0 <= n - 1)%nat).
  { unfold m0. destruct rm; [apply Nat.le_min_r|]. destruct (Nat.eq_dec n 1) as [-> | Hn]; [reflexivity|].
    assert (n / 2 < n)%nat by (apply Nat.div_lt; lia). lia. }
  destruct (loop1_spec n Hn_def n m0) as (A1 & A2 & A3). set (m1 := loop1 n sizes n m0) in *.
  destruct (loop2_spec n m1) as (B1 & B2 & B3). set (m2 := loop2 n sizes m1) in *.
  assert (HR1 : Rm m1 <= LEAF_CAP).
  { destruct A3 as [A3 | [A3 | A3]]; [exact A3 | pose proof (Rm_last m1 ltac:(lia)); lia | pose proof (Rm_last m1 ltac:(lia)); lia]. }
  assert (Hm1n : (m1 <= n - 1)%nat) by (apply loop1_le; exact Hm0).
  assert (Hfit2 : Lm m2 <= LEAF_CAP /\ Rm m2 <= LEAF_CAP).
  { destruct (Nat.eq_dec m1 m0) as [E10 | E10].
    - (* loop1 did not move *)
      destruct (Nat.eq_dec m2 m1) as [E21 | E21].
      + rewrite E21. split; [|exact HR1]. rewrite <- E21.
        destruct B3 as [B3 | [B3 | B3]]; [exact B3 | pose proof (Lm_le1 m2 B3); lia | lia].
      + assert (Hlt : (m2 < m1)%nat) by lia. specialize (B2 Hlt).
        assert (Hm2n : (m2 < length sizes)%nat) by lia.
        pose proof (LR (m2 + 1)). pose proof (Rm_S m2 Hm2n). replace (S m2) with (m2 + 1)%nat in * by lia.
        pose proof (nth_bound m2 Hm2n). pose proof (Rm_nonneg (m2 + 1)). split; [|lia].
        destruct B3 as [B3 | [B3 | B3]]; [exact B3 | pose proof (Lm_le1 m2 B3); lia | lia].
    - (* loop1 moved right: the left part is small *)
      assert (Hlt : (m0 < m1)%nat) by lia. specialize (A2 Hlt).
      assert (Hm1 : (m1 - 1 < length sizes)%nat) by lia.
      pose proof (LR (m1 - 1)). pose proof (Lm_S (m1 - 1) Hm1). replace (S (m1 - 1)) with m1 in * by lia.
      pose proof (nth_bound (m1 - 1) Hm1). pose proof (Lm_nonneg (m1 - 1)).
      assert (HL1 : Lm m1 <= LEAF_CAP) by lia.
      assert (E21 : m2 = m1).
      { unfold m2. destruct n as [|n']; [lia|]. cbn [loop2]. destruct (Nat.ltb_spec 1 m1); [|reflexivity].
        fold (Lm m1). destruct (Z.leb_spec (Lm m1) LEAF_CAP); [reflexivity | lia]. }
      rewrite E21. split; assumption. }
  destruct Hfit2 as [HL2 HR2].
  destruct (Nat.eqb_spec m2 0) as [E0 | E0].
  - (* clamp 0 -> 1 *)
    destruct (Nat.leb_spec n 1) as [Hn | Hn].
    + replace (n - 1)%nat with 0%nat by lia. rewrite E0 in HL2, HR2. split; assumption.
    + split; [pose proof (Lm_le1 1 ltac:(lia)); lia|]. rewrite E0 in HR2.
      pose proof (Rm_S 0 ltac:(lia)). pose proof (nth_bound 0 ltac:(lia)). lia.
  - destruct (Nat.leb_spec n m2) as [Hn | Hn]; [|split; assumption].
    split; [|apply Z.le_trans with h; [apply Rm_last; lia | lia]].
    pose proof (LR m2). pose proof (LR (n - 1)). pose proof (Rm_nonneg (n - 1)). pose proof (Rm_all m2 ltac:(lia)). lia.
Qed.

End MID.
