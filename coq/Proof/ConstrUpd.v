(* C09 proofs, part 9: UPDATE -- the rows it works on, the rows it writes, what it validates. *)
From Coq Require Import ZArith List Bool Lia ZifyBool Arith.
From TV Require Import Model.SqlSpec Model.CheckStr Model.ConstrSpec Model.ConstrImpl Model.ConstrClass
                       Proof.ConstrBase Proof.ConstrIns Proof.ConstrSel Proof.ConstrDel.
Import ListNotations.
Open Scope Z_scope.

(* ---------------------------------------------------------------- the updated row *)
Lemma upd_from_length sets : forall i vs, length (upd_from sets i vs) = length vs.
Proof. intros i vs. revert i. induction vs as [|v vs IH]; intros i; [reflexivity|]. cbn [upd_from length]. rewrite IH. reflexivity. Qed.

Lemma upd_from_nth sets : forall vs i j, (j < length vs)%nat ->
  nth j (upd_from sets i vs) VNull = match assoc_set (i + j) sets with Some x => x | None => nth j vs VNull end.
Proof.
  induction vs as [|v vs IH]; intros i j Hj; [cbn [length] in Hj; lia|]. cbn [upd_from]. destruct j as [|j].
  - cbn [nth]. rewrite Nat.add_0_r. reflexivity.
  - cbn [nth]. rewrite (IH (S i) j) by (cbn [length] in Hj; lia). replace (S i + j)%nat with (i + S j)%nat by lia. reflexivity.
Qed.

Lemma col_upd sets (r : row) j : (j < length r)%nat ->
  col_val j (upd_row sets r) = match assoc_set j sets with Some x => x | None => col_val j r end.
Proof. intros Hj. unfold col_val, upd_row. rewrite (upd_from_nth sets r 0 j Hj). reflexivity. Qed.

Lemma modified_assoc sets i : modified sets i = match assoc_set i sets with Some _ => true | None => false end.
Proof.
  unfold modified. induction sets as [|[j v] sets IH]; [reflexivity|]. cbn [existsb assoc_set fst].
  rewrite Nat.eqb_sym. destruct (Nat.eqb i j); [reflexivity|exact IH].
Qed.

Lemma assoc_set_in sets i x : assoc_set i sets = Some x -> In (i, x) sets.
Proof.
  induction sets as [|[j v] sets IH]; [discriminate|]. cbn [assoc_set]. destruct (Nat.eqb i j) eqn:E.
  - apply Nat.eqb_eq in E. subst j. intros H. injection H as ->. left. reflexivity.
  - intros H. right. exact (IH H).
Qed.

Lemma upd_row_fits n sets (r : row) : sets_ok n sets = true -> row_fits n r = true -> row_fits n (upd_row sets r) = true.
Proof.
  intros Hs Hr. unfold row_fits in *. apply andb_true_iff in Hr. destruct Hr as [Hl Hf].
  unfold upd_row. rewrite upd_from_length, Hl. cbn [andb].
  unfold sets_ok in Hs. apply andb_true_iff in Hs. destruct Hs as [Hs _]. apply andb_true_iff in Hs. destruct Hs as [Hs _].
  rewrite forallb_forall in Hs.
  assert (G : forall vs i, forallb val_fits vs = true -> forallb val_fits (upd_from sets i vs) = true).
  { induction vs as [|v vs IH]; intros i Hv; [reflexivity|]. cbn [forallb] in Hv. apply andb_true_iff in Hv. destruct Hv as [H1 H2].
    cbn [upd_from forallb]. rewrite (IH (S i) H2), andb_true_r.
    destruct (assoc_set i sets) as [x|] eqn:E; [|exact H1].
    specialize (Hs _ (assoc_set_in _ _ _ E)). cbn [fst snd] in Hs. apply andb_true_iff in Hs. tauto. }
  apply G. exact Hf.
Qed.

(* ---------------------------------------------------------------- the rows written *)
Lemma in_sel_nil e : in_sel [] e = false.
Proof. reflexivity. Qed.

Lemma visible_rewrite_gen ts sets w :
  NoDup (map e_id (ents ts)) ->
  forall l, (forall x, In x l -> In x (ents ts)) ->
    map e_row (filter live (rewrite_rows (live_sel ts w) sets l)) =
    map (fun r => if wpass w r then upd_row sets r else r) (map e_row (filter live l)).
Proof.
  intros Hnd. induction l as [|x l IH]; intros Hsub; [reflexivity|].
  cbn [rewrite_rows map]. rewrite (in_sel_char ts w x Hnd (Hsub x (or_introl eq_refl))).
  assert (IHl := IH (fun y Hy => Hsub y (or_intror Hy))). unfold rewrite_rows in IHl.
  destruct (live x) eqn:L; cbn [andb].
  - destruct (wpass w (e_row x)) eqn:P.
    + cbn [filter live e_del negb]. rewrite L. cbn [map e_row]. rewrite P. f_equal. exact IHl.
    + cbn [filter]. rewrite L. cbn [map]. rewrite P. f_equal. exact IHl.
  - cbn [filter]. rewrite L. exact IHl.
Qed.

Lemma visible_rewrite ts sets w ixs :
  NoDup (map e_id (ents ts)) ->
  visible (mkT (rewrite_rows (live_sel ts w) sets (ents ts)) ixs) = upd_tab sets w (visible ts).
Proof. intros Hnd. unfold visible, upd_tab. cbn [ents]. apply visible_rewrite_gen; [exact Hnd|auto]. Qed.

Lemma rewrite_ids sel sets es : map e_id (rewrite_rows sel sets es) = map e_id es.
Proof. unfold rewrite_rows. rewrite map_map. apply map_ext. intros e. destruct (in_sel sel e); reflexivity. Qed.

(* ---------------------------------------------------------------- validation of the new rows *)
Lemma validate_all_agree ds (rows : list row) :
  (length ds <= 10)%nat -> checks_frag_from ds 0 ->
  forallb (row_fits (length ds)) rows = true ->
  validate_all ds rows = Some (forallb (row_ok ds) rows).
Proof.
  intros Hn Hf. induction rows as [|r rows IH]; intros H; [reflexivity|].
  cbn [forallb] in H. apply andb_true_iff in H. destruct H as [H1 H2].
  cbn [validate_all forallb]. rewrite (validate_new_agree ds r Hn Hf H1).
  destruct (row_ok ds r); [exact (IH H2)|reflexivity].
Qed.

(* the rows of a table after the reference's UPDATE are valid iff the rewritten ones are *)
Lemma forallb_upd_tab (p : row -> bool) sets w (t : table) :
  forallb p t = true ->
  forallb p (upd_tab sets w t) = forallb p (map (upd_row sets) (filter (wpass w) t)).
Proof.
  unfold upd_tab. induction t as [|r t IH]; intros H; [reflexivity|].
  cbn [forallb] in H. apply andb_true_iff in H. destruct H as [H1 H2].
  cbn [map forallb filter]. rewrite (IH H2). destruct (wpass w r); cbn [map forallb]; [reflexivity|].
  rewrite H1. reflexivity.
Qed.

(* no row passes: the table is untouched *)
Lemma upd_tab_none sets w (t : table) : filter (wpass w) t = [] -> upd_tab sets w t = t.
Proof.
  unfold upd_tab. induction t as [|r t IH]; intros H; [reflexivity|]. cbn [filter] in H.
  destruct (wpass w r) eqn:P; [discriminate|]. cbn [map]. rewrite P, (IH H). reflexivity.
Qed.

(* ---------------------------------------------------------------- the rows UPDATE works on *)
Lemma owner_id_spec ts i v o :
  owner_id ts i v = Some o ->
  exists y, In y (ents ts) /\ live y = true /\ value_eqb (col_val i (e_row y)) v = true /\ e_id y = o.
Proof.
  unfold owner_id. destruct (find _ (ents ts)) as [y|] eqn:F; [|discriminate]. intros H. injection H as <-.
  apply find_some in F. destruct F as [Hin P]. apply andb_true_iff in P. exists y. tauto.
Qed.
Lemma owner_id_some ts i v : live_has ts i v = true -> exists o, owner_id ts i v = Some o.
Proof.
  unfold live_has, owner_id. intros H. apply existsb_exists in H. destruct H as [x [Hx Px]].
  destruct (find (fun e => live e && value_eqb (col_val i (e_row e)) v) (ents ts)) as [y|] eqn:F; [eexists; reflexivity|].
  pose proof (find_none _ _ F x Hx) as N. congruence.
Qed.

Lemma upd_sel_live ds ts next sets w :
  tinv ds ts next -> uniq_ok ds (visible ts) = true ->
  has_dead (upd_sel ds ts sets w) = false ->
  (upd_onepass ds ts sets w && onepass_junk ds ts w) = false ->
  upd_sel ds ts sets w = live_sel ts w.
Proof.
  intros T Hu Hd Hj. unfold upd_sel in *.
  destruct (pk_probe ds ts w) as [[k v]|] eqn:P; [|apply (select_rows_live ds ts next w T Hu Hd)].
  destruct (key_mod_from ds 0 sets) eqn:KM; [apply (select_rows_live ds ts next w T Hu Hd)|].
  destruct (seek_row ds ts k v) as [|e l] eqn:S.
  - (* the probe hit but no entry was found under the stored row key: impossible outside class 14 *)
    exfalso. unfold upd_onepass in Hj. rewrite P, KM in Hj. cbn [negb andb] in Hj.
    unfold onepass_junk in Hj. rewrite P in Hj.
    unfold pk_probe in P. destruct (pk_lit ds w) as [v0|] eqn:PL; [|discriminate].
    destruct (pk_pos ds) as [i|] eqn:PP; [|discriminate].
    destruct (idx_find v0 (get_idx ts i)) as [k0|] eqn:F; [|discriminate]. injection P as <- <-.
    destruct T as [Hex Hnn [Hnd Hid] [Hrf Hli]].
    destruct (idx_find_in _ _ _ F) as [v' [Hv' Ev']]. apply value_eqb_eq in Ev'. subst v'.
    assert (Nv : is_null v0 = false).
    { destruct (get_idx_in ts i) as [Hi|Hi]; [exact (Hnn _ _ _ Hi Hv')|rewrite Hi in Hv'; destruct Hv']. }
    destruct (pk_pos_key ds i PP) as [d [Hdd K]].
    assert (Hm : idx_mem v0 (get_idx ts i) = true) by (unfold idx_mem; rewrite F; reflexivity).
    rewrite (Hex i d Hdd K v0 Nv) in Hm. destruct (owner_id_some ts i v0 Hm) as [o Ho]. rewrite Ho in Hj.
    apply negb_false_iff in Hj. apply Z.eqb_eq in Hj. subst o.
    destruct (owner_id_spec ts i v0 k0 Ho) as [y [Hy [Ly [Vy Iy]]]].
    unfold seek_row in S. destruct (find_ent k0 (ents ts)) as [z|] eqn:FE.
    + unfold find_ent in FE. apply find_some in FE. destruct FE as [Hz Ez]. apply Z.eqb_eq in Ez.
      assert (z = y) by (apply (NoDup_id_eq (ents ts)); try assumption; congruence). subst z.
      unfold pk_val in S. rewrite PP, Vy, Ly in S. discriminate.
    + unfold find_ent in FE. pose proof (find_none _ _ FE y Hy) as N. cbn beta in N. rewrite Iy, Z.eqb_refl in N. discriminate.
  - (* found: DELETE's selection would be the same single entry *)
    assert (Hs : select_rows ds ts w = e :: l) by (unfold select_rows; rewrite P, S; reflexivity).
    assert (Hl : l = []).
    { unfold seek_row in S. destruct (find_ent k (ents ts)); [|discriminate]. destruct (live _ && value_eqb _ v); [|discriminate].
      injection S as _ <-. reflexivity. }
    subst l. rewrite <- (select_rows_live ds ts next w T Hu); rewrite Hs; [reflexivity|exact Hd].
Qed.

(* ---------------------------------------------------------------- one column of a unique key *)
Lemma filter_none_all {A} (q : A -> bool) l : filter q l = [] -> filter (fun x => negb (q x)) l = l.
Proof.
  induction l as [|x l IH]; intros H; [reflexivity|]. cbn [filter] in *. destruct (q x); [discriminate|].
  cbn [negb]. f_equal. exact (IH H).
Qed.

Lemma nodupv_set_one (i : nat) (q : row -> bool) (nv : value) : forall (L : table) (r0 : row),
  is_null nv = false -> nodupv (colvals i L) = true -> filter q L = [r0] ->
  nodupv (map (fun r => if q r then nv else col_val i r) L) =
  negb (vmem nv (colvals i (filter (fun r => negb (q r)) L))).
Proof.
  intros L r0 Nv. unfold colvals. induction L as [|r L IH]; intros Hu Hf; [discriminate|].
  cbn [map nodupv] in Hu. apply andb_true_iff in Hu. destruct Hu as [H1 H2].
  cbn [filter] in Hf. cbn [map filter]. destruct (q r) eqn:Q; cbn [negb].
  - injection Hf as _ Hf.
    assert (E : map (fun r1 => if q r1 then nv else col_val i r1) L = map (col_val i) L).
    { apply map_ext_in. intros x Hx. destruct (q x) eqn:Qx; [|reflexivity].
      assert (In x (filter q L)) by (apply filter_In; split; assumption). rewrite Hf in H. destruct H. }
    cbn [nodupv]. rewrite E, H2, Nv, andb_true_r, (filter_none_all q L Hf). reflexivity.
  - cbn [nodupv map]. rewrite (IH H2 Hf).
    set (x := col_val i r) in *.
    assert (Hm : vmem x (map (fun r1 => if q r1 then nv else col_val i r1) L) =
                 vmem x (map (col_val i) (filter (fun r1 => negb (q r1)) L)) || value_eqb x nv).
    { clear -Hf. revert r0 Hf. induction L as [|y L IHL]; intros r0 Hf; [discriminate|].
      cbn [filter] in Hf. cbn [map filter]. destruct (q y) eqn:Qy; cbn [negb].
      - injection Hf as _ Hf. unfold vmem. cbn [existsb].
        assert (E : map (fun r1 => if q r1 then nv else col_val i r1) L = map (col_val i) L).
        { apply map_ext_in. intros z Hz. destruct (q z) eqn:Qz; [|reflexivity].
          assert (In z (filter q L)) by (apply filter_In; split; assumption). rewrite Hf in H. destruct H. }
        rewrite E, (filter_none_all q L Hf). apply orb_comm.
      - unfold vmem in *. cbn [map existsb]. rewrite (IHL r0 Hf). rewrite orb_assoc. reflexivity. }
    rewrite Hm. unfold vmem at 3. cbn [existsb]. fold (vmem nv (map (col_val i) (filter (fun r1 => negb (q r1)) L))).
    destruct (is_null x) eqn:Nx.
    + apply is_null_eq in Nx. rewrite Nx. cbn [orb andb]. destruct nv; try discriminate; reflexivity.
    + cbn [orb] in *. apply negb_true_iff in H1.
      assert (Hsub : vmem x (map (col_val i) (filter (fun r1 => negb (q r1)) L)) = false).
      { destruct (vmem x (map (col_val i) (filter (fun r1 => negb (q r1)) L))) eqn:X; [|reflexivity].
        pose proof (vmem_filter x i (fun r1 => negb (q r1)) L) as VF. unfold colvals in VF. rewrite (VF X) in H1. discriminate. }
      rewrite Hsub. cbn [orb]. rewrite (value_eqb_sym nv x).
      destruct (value_eqb x nv); reflexivity.
Qed.

Lemma nodupv_nullify (i : nat) (q : row -> bool) : forall (L : table),
  nodupv (colvals i L) = true ->
  nodupv (map (fun r => if q r then VNull else col_val i r) L) = true.
Proof.
  unfold colvals. induction L as [|r L IH]; intros Hu; [reflexivity|].
  cbn [map nodupv] in *. apply andb_true_iff in Hu. destruct Hu as [H1 H2]. rewrite (IH H2), andb_true_r.
  destruct (q r); [reflexivity|]. destruct (is_null (col_val i r)) eqn:N; [reflexivity|]. cbn [orb] in *.
  apply negb_true_iff in H1. apply negb_true_iff.
  destruct (vmem (col_val i r) (map (fun r0 => if q r0 then VNull else col_val i r0) L)) eqn:X; [|reflexivity].
  unfold vmem in *. apply existsb_exists in X. destruct X as [y [Hy Ey]]. apply in_map_iff in Hy. destruct Hy as [z [Ez Hz]].
  destruct (q z).
  - subst y. apply value_eqb_eq in Ey. rewrite Ey in N. discriminate.
  - assert (existsb (value_eqb (col_val i r)) (map (col_val i) L) = true).
    { apply existsb_exists. exists y. split; [|exact Ey]. subst y. apply in_map. exact Hz. }
    congruence.
Qed.

(* ---------------------------------------------------------------- uniqueness after UPDATE = the index probes *)
Lemma forallb_andb {A} (f g : A -> bool) l : forallb (fun x => f x && g x) l = forallb f l && forallb g l.
Proof.
  induction l as [|x l IH]; [reflexivity|]. cbn [forallb]. rewrite IH.
  destruct (f x); destruct (g x); destruct (forallb f l); destruct (forallb g l); reflexivity.
Qed.
Lemma forallb_true {A} (l : list A) : forallb (fun _ => true) l = true.
Proof. induction l; [reflexivity|exact IHl]. Qed.

Lemma colvals_upd_tab ds ts next sets w i :
  tinv ds ts next -> (i < length ds)%nat ->
  colvals i (upd_tab sets w (visible ts)) =
  map (fun r => if wpass w r then match assoc_set i sets with Some x => x | None => col_val i r end else col_val i r) (visible ts).
Proof.
  intros [_ _ _ [Hrf _]] Hi. unfold colvals, upd_tab. rewrite map_map. apply map_ext_in. intros r Hr.
  destruct (wpass w r); [|reflexivity]. apply col_upd.
  unfold visible in Hr. apply in_map_iff in Hr. destruct Hr as [e [<- He]]. apply filter_In in He.
  rewrite (row_fits_len _ _ (Hrf e (proj1 He))). exact Hi.
Qed.

Lemma sel_in ts w e : In e (live_sel ts w) -> In e (ents ts) /\ live e = true /\ wpass w (e_row e) = true.
Proof. unfold live_sel. intros H. apply filter_In in H. destruct H as [H1 H2]. apply andb_true_iff in H2. tauto. Qed.

Lemma uniq_upd_col ds ts next sets w i d :
  tinv ds ts next -> uniq_ok ds (visible ts) = true ->
  nth_error ds i = Some d ->
  upd_key_class_from ds [d] i ts sets (live_sel ts w) = 0 ->
  (negb (is_key d) || nodupv (colvals i (upd_tab sets w (visible ts)))) =
  forallb (fun e => if is_key d && modified sets i && negb (is_null (col_val i (upd_row sets (e_row e))))
                    then match idx_find (col_val i (upd_row sets (e_row e))) (get_idx ts i) with Some k' => k' =? e_id e | None => true end
                    else true) (live_sel ts w).
Proof.
  intros T Hu Hd Hc. pose proof T as [Hex Hnn [Hnd Hid] [Hrf Hli]].
  assert (Hi : (i < length ds)%nat) by (apply nth_error_Some; rewrite Hd; discriminate).
  destruct (is_key d) eqn:K; cbn [negb orb andb]; [|rewrite forallb_true; reflexivity].
  assert (Hui : nodupv (colvals i (visible ts)) = true) by (unfold uniq_ok in Hu; exact (uniq_from_nth ds 0 (visible ts) i d Hu Hd K)).
  rewrite (colvals_upd_tab ds ts next sets w i T Hi). rewrite modified_assoc.
  cbn [upd_key_class_from] in Hc. rewrite K in Hc. cbn [andb] in Hc.
  destruct (assoc_set i sets) as [nv|] eqn:A.
  - (* column assigned *)
    assert (Hcol : forall e, In e (live_sel ts w) -> col_val i (upd_row sets (e_row e)) = nv).
    { intros e He. destruct (sel_in ts w e He) as [Hin _]. rewrite col_upd, A; [reflexivity|].
      rewrite (row_fits_len _ _ (Hrf e Hin)). exact Hi. }
    destruct (is_null nv) eqn:Nv.
    + apply is_null_eq in Nv. subst nv.
      rewrite (nodupv_nullify i (wpass w) (visible ts) Hui). symmetry. apply forallb_forall. intros e He.
      rewrite (Hcol e He). reflexivity.
    + cbn [negb andb] in Hc.
      destruct (live_sel ts w) as [|e [|e2 l]] eqn:S.
      * (* nothing selected *)
        cbn [forallb]. assert (F : filter (wpass w) (visible ts) = []) by (rewrite <- rows_of_sel, S; reflexivity).
        rewrite <- Hui. f_equal. unfold colvals. apply map_ext_in. intros r Hr. destruct (wpass w r) eqn:P; [|reflexivity].
        assert (In r (filter (wpass w) (visible ts))) by (apply filter_In; split; assumption). rewrite F in H. destruct H.
      * (* exactly one row *)
        cbn [nonempty_l two_plus] in Hc. cbn [forallb]. rewrite andb_true_r.
        assert (He : In e (live_sel ts w)) by (rewrite S; left; reflexivity).
        destruct (sel_in ts w e He) as [Hin [Le We]].
        rewrite (Hcol e (or_introl eq_refl)), Nv. cbn [negb].
        assert (F : filter (wpass w) (visible ts) = [e_row e]) by (rewrite <- rows_of_sel, S; reflexivity).
        rewrite (nodupv_set_one i (wpass w) nv (visible ts) (e_row e) Nv Hui F).
        rewrite (vmem_kept i (wpass w) (visible ts) nv Hui Nv), F.
        rewrite <- live_has_vmem. unfold colvals, vmem. cbn [map existsb]. rewrite orb_false_r.
        set (ov := col_val i (e_row e)).
        destruct (idx_find nv (get_idx ts i)) as [k|] eqn:Fi.
        -- assert (Hm : idx_mem nv (get_idx ts i) = true) by (unfold idx_mem; rewrite Fi; reflexivity).
           rewrite (Hex i d Hd K nv Nv) in Hm. rewrite Hm. cbn [andb].
           destruct (owner_id_some ts i nv Hm) as [o Ho]. rewrite Ho in Hc.
           destruct (k =? o) eqn:Ek; [|discriminate]. apply Z.eqb_eq in Ek. subst k.
           destruct (owner_id_spec ts i nv o Ho) as [y [Hy [Ly [Vy Iy]]]].
           rewrite negb_involutive.
           destruct (value_eqb nv ov) eqn:E.
           ++ (* the row already holds the value: it is the owner *)
              assert (Hf := live_filter_unique (ents ts) i nv e Hui Hnd Hin Le ltac:(unfold ov in E; rewrite value_eqb_sym; exact E) Nv).
              assert (In y (filter (fun x => live x && value_eqb (col_val i (e_row x)) nv) (ents ts))).
              { apply filter_In. split; [exact Hy|]. rewrite Ly, Vy. reflexivity. }
              rewrite Hf in H. destruct H as [<-|[]]. symmetry. apply Z.eqb_eq. symmetry. exact Iy.
           ++ (* another row holds it *)
              symmetry. apply Z.eqb_neq. intros Heq.
              assert (y = e) by (apply (NoDup_id_eq (ents ts)); try assumption; congruence). subst y.
              unfold ov in E. rewrite value_eqb_sym in E. congruence.
        -- assert (Hm : idx_mem nv (get_idx ts i) = false) by (unfold idx_mem; rewrite Fi; reflexivity).
           rewrite (Hex i d Hd K nv Nv) in Hm. rewrite Hm. reflexivity.
      * cbn [nonempty_l two_plus] in Hc. discriminate.
  - (* column not assigned *)
    rewrite forallb_true. rewrite <- Hui. f_equal. unfold colvals. apply map_ext. intros r. destruct (wpass w r); reflexivity.
Qed.

Lemma upd_key_class_split all d ds i ts sets sel :
  upd_key_class_from all (d :: ds) i ts sets sel = 0 ->
  upd_key_class_from all [d] i ts sets sel = 0 /\ upd_key_class_from all ds (S i) ts sets sel = 0.
Proof.
  cbn [upd_key_class_from]. set (rest := upd_key_class_from all ds (S i) ts sets sel).
  destruct (assoc_set i sets) as [nv|]; [|intros H; split; [reflexivity|exact H]].
  destruct (is_key d && negb (is_null nv) && nonempty_l sel); [|intros H; split; [reflexivity|exact H]].
  destruct (two_plus sel); [discriminate|].
  destruct (idx_find nv (get_idx ts i)) as [k|]; [|intros H; split; [reflexivity|exact H]].
  destruct (owner_id ts i nv) as [o|]; [|intros H; split; [reflexivity|exact H]].
  destruct (k =? o); [intros H; split; [reflexivity|exact H]|discriminate].
Qed.

Lemma uniq_upd ds ts next sets w :
  tinv ds ts next -> uniq_ok ds (visible ts) = true ->
  upd_key_class_from ds ds 0 ts sets (live_sel ts w) = 0 ->
  uniq_ok ds (upd_tab sets w (visible ts)) =
  forallb (fun e => uq_upd_from ts ds 0 sets (e_id e) (upd_row sets (e_row e))) (live_sel ts w).
Proof.
  intros T Hu Hc. unfold uniq_ok.
  assert (G : forall ds' i, (forall j d, nth_error ds' j = Some d -> nth_error ds (i + j) = Some d) ->
            upd_key_class_from ds ds' i ts sets (live_sel ts w) = 0 ->
            uniq_from ds' i (upd_tab sets w (visible ts)) =
            forallb (fun e => uq_upd_from ts ds' i sets (e_id e) (upd_row sets (e_row e))) (live_sel ts w)).
  { induction ds' as [|d ds' IH]; intros i Hsub Hcl.
    - cbn [uniq_from uq_upd_from]. rewrite forallb_true. reflexivity.
    - destruct (upd_key_class_split _ _ _ _ _ _ _ Hcl) as [C1 C2].
      cbn [uniq_from uq_upd_from]. rewrite forallb_andb.
      rewrite (IH (S i)) by (try exact C2; intros j d' Hj; replace (S i + j)%nat with (i + S j)%nat by lia; apply Hsub; exact Hj).
      f_equal. apply (uniq_upd_col ds ts next sets w i d T Hu); [|exact C1].
      replace i with (i + 0)%nat by lia. apply Hsub. reflexivity. }
  apply G; [intros j d Hj; exact Hj|exact Hc].
Qed.

(* ---------------------------------------------------------------- the indexes after UPDATE *)
Lemma idx_upd_length : forall ixs ds i sets trips, length (idx_upd_from ixs ds i sets trips) = length ixs.
Proof.
  induction ixs as [|ix ixs IH]; intros ds i sets trips; [reflexivity|]. destruct ds as [|d ds]; [reflexivity|].
  cbn [idx_upd_from length]. rewrite IH. reflexivity.
Qed.
Lemma idx_upd_nth : forall ixs ds i0 sets trips i d,
  nth_error ds i = Some d -> (i < length ixs)%nat ->
  nth i (idx_upd_from ixs ds i0 sets trips) [] =
  if is_key d && modified sets (i0 + i) then idx_upd_pass (i0 + i) trips (nth i ixs []) else nth i ixs [].
Proof.
  induction ixs as [|ix ixs IH]; intros ds i0 sets trips i d Hd Hi; [cbn [length] in Hi; lia|].
  destruct ds as [|d0 ds]; [destruct i; discriminate|]. cbn [idx_upd_from]. destruct i as [|i].
  - cbn [nth_error] in Hd. injection Hd as ->. cbn [nth]. rewrite Nat.add_0_r. reflexivity.
  - cbn [nth_error] in Hd. cbn [nth]. rewrite (IH ds (S i0) sets trips i d Hd) by (cbn [length] in Hi; lia).
    replace (S i0 + i)%nat with (i0 + S i)%nat by lia. reflexivity.
Qed.

Definition pass_step (i : nat) (a : index) (p : Z * row * row) : index :=
  let ov := col_val i (snd (fst p)) in let nv := col_val i (snd p) in
  let a1 := if is_null ov then a else idx_del ov a in
  if is_null nv then a1 else idx_ins nv (fst (fst p)) a1.
Lemma idx_upd_pass_fold i trips ix : idx_upd_pass i trips ix = fold_left (pass_step i) trips ix.
Proof. reflexivity. Qed.

Lemma null_eqb_false u v : is_null u = true -> is_null v = false -> value_eqb u v = false.
Proof. intros Hu Hv. apply is_null_eq in Hu. subst u. destruct v; try discriminate; reflexivity. Qed.

Lemma pass_step_mem i a p v :
  is_null v = false ->
  idx_mem v (pass_step i a p) =
  (idx_mem v a && negb (value_eqb (col_val i (snd (fst p))) v)) ||
  (negb (is_null (col_val i (snd p))) && value_eqb (col_val i (snd p)) v).
Proof.
  intros Nv. unfold pass_step.
  set (ov := col_val i (snd (fst p))). set (nv := col_val i (snd p)).
  assert (H1 : idx_mem v (if is_null ov then a else idx_del ov a) = idx_mem v a && negb (value_eqb ov v)).
  { destruct (is_null ov) eqn:No; [rewrite (null_eqb_false ov v No Nv), andb_true_r; reflexivity|apply idx_mem_del]. }
  destruct (is_null nv) eqn:Nn; cbn [negb andb].
  - rewrite H1, orb_false_r. reflexivity.
  - rewrite idx_mem_ins, H1. reflexivity.
Qed.

(* every new value NULL: only removals *)
Lemma pass_null_mem i v : is_null v = false -> forall trips ix,
  (forall p, In p trips -> is_null (col_val i (snd p)) = true) ->
  idx_mem v (fold_left (pass_step i) trips ix) =
  idx_mem v ix && negb (existsb (fun p => value_eqb (col_val i (snd (fst p))) v) trips).
Proof.
  intros Nv. induction trips as [|p trips IH]; intros ix Hn.
  - cbn [fold_left existsb negb]. rewrite andb_true_r. reflexivity.
  - cbn [fold_left existsb]. rewrite IH by (intros q Hq; apply Hn; right; exact Hq).
    rewrite (pass_step_mem i ix p v Nv), (Hn p (or_introl eq_refl)). cbn [negb andb]. rewrite orb_false_r.
    rewrite negb_orb, andb_assoc. reflexivity.
Qed.

Lemma idx_upd_sub_pass i : forall trips ix v k,
  In (v, k) (fold_left (pass_step i) trips ix) -> In (v, k) ix \/ is_null v = false.
Proof.
  induction trips as [|p trips IH]; intros ix v k H; [left; exact H|]. cbn [fold_left] in H.
  destruct (IH _ v k H) as [H1|H1]; [|right; exact H1]. unfold pass_step in H1.
  set (a1 := if is_null (col_val i (snd (fst p))) then ix else idx_del (col_val i (snd (fst p))) ix) in *.
  assert (Ha1 : forall x, In x a1 -> In x ix).
  { intros x Hx. unfold a1 in Hx. destruct (is_null (col_val i (snd (fst p)))); [exact Hx|]. unfold idx_del in Hx. apply filter_In in Hx. tauto. }
  destruct (is_null (col_val i (snd p))) eqn:Nn; [left; exact (Ha1 _ H1)|].
  unfold idx_ins in H1. destruct (idx_mem (col_val i (snd p)) a1); [left; exact (Ha1 _ H1)|].
  apply in_app_or in H1. destruct H1 as [H1|[H1|[]]]; [left; exact (Ha1 _ H1)|]. injection H1 as <- _. right. exact Nn.
Qed.
Lemma idx_upd_sub : forall ixs ds i0 sets trips ix v k,
  In ix (idx_upd_from ixs ds i0 sets trips) -> In (v, k) ix ->
  (exists ix', In ix' ixs /\ In (v, k) ix') \/ is_null v = false.
Proof.
  induction ixs as [|ix0 ixs IH]; intros ds i0 sets trips ix v k Hin Hp; [destruct Hin|].
  destruct ds as [|d ds]; [left; exists ix; split; assumption|]. cbn [idx_upd_from] in Hin. destruct Hin as [<-|Hin].
  - destruct (is_key d && modified sets i0); [|left; exists ix0; split; [left; reflexivity|exact Hp]].
    rewrite idx_upd_pass_fold in Hp. destruct (idx_upd_sub_pass i0 _ _ v k Hp) as [H|H]; [|right; exact H].
    left; exists ix0; split; [left; reflexivity|exact H].
  - destruct (IH ds (S i0) sets trips ix v k Hin Hp) as [[ix' [H1 H2]]|H]; [left; exists ix'; split; [right; exact H1|exact H2]|right; exact H].
Qed.

(* the live holders of a value after the rows of the selection have been rewritten *)
Lemma existsb_orb {A} (f g : A -> bool) l : existsb (fun x => f x || g x) l = existsb f l || existsb g l.
Proof.
  induction l as [|x l IH]; [reflexivity|]. cbn [existsb]. rewrite IH.
  destruct (f x); destruct (g x); destruct (existsb f l); destruct (existsb g l); reflexivity.
Qed.

Lemma live_has_tomb_expr ts w ixs i v :
  live_has (mkT (tombstone (live_sel ts w) (ents ts)) ixs) i v =
  existsb (fun e => live e && negb (in_sel (live_sel ts w) e) && value_eqb (col_val i (e_row e)) v) (ents ts).
Proof.
  unfold live_has. cbn [ents]. unfold tombstone. rewrite existsb_map'. apply existsb_ext_in. intros x _.
  destruct (in_sel (live_sel ts w) x); cbn [live e_del e_row negb andb]; [rewrite andb_false_r; reflexivity|].
  rewrite andb_true_r. reflexivity.
Qed.

Lemma live_has_rewrite ts w sets ixs i v :
  NoDup (map e_id (ents ts)) ->
  live_has (mkT (rewrite_rows (live_sel ts w) sets (ents ts)) ixs) i v =
  existsb (fun e => live e && negb (in_sel (live_sel ts w) e) && value_eqb (col_val i (e_row e)) v) (ents ts) ||
  existsb (fun e => value_eqb (col_val i (upd_row sets (e_row e))) v) (live_sel ts w).
Proof.
  intros Hnd. unfold live_has. cbn [ents]. unfold rewrite_rows. rewrite existsb_map'.
  rewrite (existsb_ext_in _ (fun e => (live e && negb (in_sel (live_sel ts w) e) && value_eqb (col_val i (e_row e)) v) ||
                                      (in_sel (live_sel ts w) e && value_eqb (col_val i (upd_row sets (e_row e))) v))).
  - rewrite existsb_orb. f_equal.
    (* the second disjunct ranges over the selection *)
    unfold live_sel at 2. set (sel := live_sel ts w).
    assert (G : forall l, (forall x, In x l -> In x (ents ts)) ->
              existsb (fun e => in_sel sel e && value_eqb (col_val i (upd_row sets (e_row e))) v) l =
              existsb (fun e => value_eqb (col_val i (upd_row sets (e_row e))) v) (filter (fun e => live e && wpass w (e_row e)) l)).
    { induction l as [|x l IH]; intros Hs; [reflexivity|]. cbn [existsb filter].
      unfold sel at 1. rewrite (in_sel_char ts w x Hnd (Hs x (or_introl eq_refl))).
      rewrite (IH (fun y Hy => Hs y (or_intror Hy))).
      destruct (live x && wpass w (e_row x)); cbn [andb existsb]; reflexivity. }
    apply G. auto.
  - intros x Hx. destruct (in_sel (live_sel ts w) x) eqn:S; cbn [live e_del e_row negb andb orb].
    + rewrite andb_false_r. reflexivity.
    + rewrite andb_true_r, orb_false_r. reflexivity.
Qed.

Lemma row_ok_nn ds : forall vs (r : row) i d,
  row_ok_from ds vs r = true -> nth_error ds i = Some d -> must_nn d = true -> (i < length vs)%nat ->
  is_null (nth i vs VNull) = false.
Proof.
  induction ds as [|d0 ds IH]; intros vs r i d H Hd M Hi; [destruct i; discriminate|].
  destruct vs as [|v vs]; [cbn [length] in Hi; lia|]. cbn [row_ok_from] in H.
  apply andb_true_iff in H. destruct H as [H H2]. apply andb_true_iff in H. destruct H as [H0 _].
  destruct i as [|i].
  - cbn [nth_error] in Hd. injection Hd as ->. rewrite M in H0. cbn [negb orb] in H0. apply negb_true_iff in H0. exact H0.
  - cbn [nth_error] in Hd. cbn [nth]. apply (IH vs r i d H2 Hd M). cbn [length] in Hi. lia.
Qed.

Lemma exact_upd_col ds ts next sets w i d v :
  tinv ds ts next -> uniq_ok ds (visible ts) = true ->
  nth_error ds i = Some d -> is_key d = true -> is_null v = false ->
  upd_key_class_from ds [d] i ts sets (live_sel ts w) = 0 ->
  let pairs := map (fun e => (e_id e, e_row e, upd_row sets (e_row e))) (live_sel ts w) in
  idx_mem v (if modified sets i then idx_upd_pass i pairs (get_idx ts i) else get_idx ts i) =
  live_has (mkT (rewrite_rows (live_sel ts w) sets (ents ts))
                (idx_upd_from (idxs ts) ds 0 sets pairs)) i v.
Proof.
  intros T Hu Hd K Nv Hc pairs. pose proof T as [Hex Hnn [Hnd Hid] [Hrf Hli]].
  assert (Hi : (i < length ds)%nat) by (apply nth_error_Some; rewrite Hd; discriminate).
  assert (Hui : nodupv (colvals i (visible ts)) = true) by (unfold uniq_ok in Hu; exact (uniq_from_nth ds 0 (visible ts) i d Hu Hd K)).
  rewrite (live_has_rewrite ts w sets _ i v Hnd). rewrite <- (live_has_tomb_expr ts w (idxs ts) i v).
  rewrite (live_has_tomb ts w (idxs ts) i v Hnd Hui Nv).
  set (L := live_has ts i v). set (X := existsb (fun e => value_eqb (col_val i (e_row e)) v) (live_sel ts w)).
  assert (HXL : X = true -> L = true).
  { unfold X, L, live_has. intros H. apply existsb_exists in H. destruct H as [s [Hs Es]].
    destruct (sel_in ts w s Hs) as [Hin [Ls _]]. apply existsb_exists. exists s. split; [exact Hin|]. rewrite Ls, Es. reflexivity. }
  assert (Hlen : forall e, In e (live_sel ts w) -> (i < length (e_row e))%nat).
  { intros e He. destruct (sel_in ts w e He) as [Hin _]. rewrite (row_fits_len _ _ (Hrf e Hin)). exact Hi. }
  rewrite modified_assoc. cbn [upd_key_class_from] in Hc. rewrite K in Hc. cbn [andb] in Hc.
  destruct (assoc_set i sets) as [nv|] eqn:A.
  - assert (Hcol : forall e, In e (live_sel ts w) -> col_val i (upd_row sets (e_row e)) = nv).
    { intros e He. rewrite col_upd, A by (apply Hlen; exact He). reflexivity. }
    rewrite (existsb_ext_in _ (fun _ => value_eqb nv v)) by (intros e He; rewrite (Hcol e He); reflexivity).
    rewrite !idx_upd_pass_fold.
    assert (HX : existsb (fun p : Z * row * row => value_eqb (col_val i (snd (fst p))) v) pairs = X).
    { unfold pairs, X. rewrite existsb_map'. reflexivity. }
    destruct (is_null nv) eqn:Nn.
    + (* assigned NULL: the old values leave the index *)
      assert (Hp : forall p, In p pairs -> is_null (col_val i (snd p)) = true).
      { intros p Hp. unfold pairs in Hp. apply in_map_iff in Hp. destruct Hp as [e [<- He]]. cbn [snd]. rewrite (Hcol e He). exact Nn. }
      rewrite (pass_null_mem i v Nv pairs _ Hp), HX.
      fold (get_idx ts i). rewrite (Hex i d Hd K v Nv). fold L.
      assert (E0 : existsb (fun _ : entry => value_eqb nv v) (live_sel ts w) = false).
      { rewrite (null_eqb_false nv v Nn Nv). clear. induction (live_sel ts w) as [|x l IH]; [reflexivity|exact IH]. }
      rewrite E0, orb_false_r. destruct L; destruct X; reflexivity.
    + cbn [negb andb] in Hc.
      destruct (live_sel ts w) as [|e [|e2 l]] eqn:S.
      * unfold pairs. cbn [map fold_left existsb]. fold (get_idx ts i). rewrite (Hex i d Hd K v Nv). fold L.
        unfold X. cbn [existsb negb]. rewrite andb_true_r, orb_false_r. reflexivity.
      * unfold pairs. cbn [map fold_left existsb]. rewrite orb_false_r.
        rewrite (pass_step_mem i _ _ v Nv). cbn [fst snd].
        rewrite (Hcol e (or_introl eq_refl)), Nn. cbn [negb andb].
        fold (get_idx ts i). rewrite (Hex i d Hd K v Nv). fold L.
        unfold X. cbn [existsb]. rewrite orb_false_r.
        destruct L; destruct (value_eqb (col_val i (e_row e)) v); destruct (value_eqb nv v); reflexivity.
      * cbn [nonempty_l two_plus] in Hc. discriminate.
  - (* column not assigned: the same values *)
    rewrite (existsb_ext_in _ (fun e => value_eqb (col_val i (e_row e)) v)).
    + fold X. fold (get_idx ts i). rewrite (Hex i d Hd K v Nv). fold L.
      destruct L eqn:EL; destruct X eqn:EX; try reflexivity. specialize (HXL eq_refl). discriminate.
    + intros e He. rewrite col_upd, A by (apply Hlen; exact He). reflexivity.
Qed.

Lemma rewrite_in sel sets es e :
  In e (rewrite_rows sel sets es) ->
  exists x, In x es /\ e_id x = e_id e /\ (e_row e = e_row x \/ (in_sel sel x = true /\ e_row e = upd_row sets (e_row x))).
Proof.
  unfold rewrite_rows. intros H. apply in_map_iff in H. destruct H as [x [Hx Hin]]. exists x. split; [exact Hin|].
  destruct (in_sel sel x) eqn:S; subst e; cbn [e_id e_row]; split; try reflexivity; [right; split; reflexivity|left; reflexivity].
Qed.

Lemma tinv_upd ds ts next sets w :
  tinv ds ts next -> uniq_ok ds (visible ts) = true -> sets_ok (length ds) sets = true ->
  upd_key_class_from ds ds 0 ts sets (live_sel ts w) = 0 ->
  tinv ds (mkT (rewrite_rows (live_sel ts w) sets (ents ts))
               (idx_upd_from (idxs ts) ds 0 sets (map (fun e => (e_id e, e_row e, upd_row sets (e_row e))) (live_sel ts w)))) next.
Proof.
  intros T Hu Hs Hc. pose proof T as [Hex Hnn [Hnd Hid] [Hrf Hli]]. constructor.
  - intros i d Hd K v Nv.
    assert (Hi : (i < length ds)%nat) by (apply nth_error_Some; rewrite Hd; discriminate).
    (* the class of column i alone *)
    assert (Hci : upd_key_class_from ds [d] i ts sets (live_sel ts w) = 0).
    { assert (G : forall ds' i0 i', nth_error ds' i' = Some d ->
                  upd_key_class_from ds ds' i0 ts sets (live_sel ts w) = 0 ->
                  upd_key_class_from ds [d] (i0 + i') ts sets (live_sel ts w) = 0).
      { induction ds' as [|d0 ds' IH]; intros i0 i' Hd' Hc'; [destruct i'; discriminate|].
        destruct (upd_key_class_split _ _ _ _ _ _ _ Hc') as [C1 C2]. destruct i' as [|i'].
        - cbn [nth_error] in Hd'. injection Hd' as ->. rewrite Nat.add_0_r. exact C1.
        - cbn [nth_error] in Hd'. replace (i0 + S i')%nat with (S i0 + i')%nat by lia. exact (IH (S i0) i' Hd' C2). }
      exact (G ds 0%nat i Hd Hc). }
    unfold get_idx at 1. cbn [idxs]. rewrite (idx_upd_nth _ ds 0 sets _ i d Hd) by lia. rewrite K. cbn [andb Nat.add].
    fold (get_idx ts i).
    exact (exact_upd_col ds ts next sets w i d v T Hu Hd K Nv Hci).
  - intros ix v k Hin Hp. cbn [idxs] in Hin. destruct (idx_upd_sub _ _ _ _ _ _ _ _ Hin Hp) as [[ix' [H1 H2]]|H]; [exact (Hnn ix' v k H1 H2)|exact H].
  - unfold ids_ok. cbn [ents]. rewrite rewrite_ids. split; [exact Hnd|].
    intros e He. destruct (rewrite_in _ _ _ _ He) as [x [Hx [Hi _]]]. rewrite <- Hi. exact (Hid x Hx).
  - unfold rows_ok. cbn [ents idxs]. split.
    + intros e He. destruct (rewrite_in _ _ _ _ He) as [x [Hx [_ [Hr|[_ Hr]]]]]; rewrite Hr; [exact (Hrf x Hx)|].
      apply upd_row_fits; [exact Hs|exact (Hrf x Hx)].
    + rewrite idx_upd_length. exact Hli.
Qed.

(* ---------------------------------------------------------------- FOREIGN KEYs after UPDATE (outside class 15) *)
Lemma fk_cols_lt ds : forall i j rc act, fk_cols_from ds i = [(j, rc, act)] -> (j - i < length ds)%nat.
Proof.
  induction ds as [|d ds IH]; intros i j rc act H; [discriminate|]. cbn [fk_cols_from] in H.
  destruct (c_fk d) as [f|].
  - injection H as <- _ _ _. rewrite Nat.sub_diag. cbn [length]. lia.
  - pose proof (IH (S i) j rc act H) as H1. destruct (fk_single ds (S i) j rc act H) as [Hle _]. cbn [length]. lia.
Qed.

Lemma sel_nonempty ts w (r : row) : In r (visible ts) -> wpass w r = true -> nonempty_l (live_sel ts w) = true.
Proof.
  intros Hr Hw. assert (In r (map e_row (live_sel ts w))) by (rewrite rows_of_sel; apply filter_In; split; assumption).
  destruct (live_sel ts w); [destruct H|reflexivity].
Qed.

Lemma fk_upd_child sch st sets w :
  wf_schema sch -> Inv sch st -> sets_ok (length (s_c sch)) sets = true ->
  upd_fk_child sch st sets (live_sel (d_c st) w) = false ->
  fk_ok (s_c sch) (visible (d_p st)) (upd_tab sets w (visible (d_c st))) = true.
Proof.
  intros W I Hs Hc. pose proof (inv_valid _ _ I) as Hv. unfold abs_db in Hv. apply valid_split in Hv.
  destruct Hv as [_ [_ [_ [_ V5]]]]. pose proof (inv_c _ _ I) as [_ _ _ [Hrf _]].
  unfold fk_ok in *. rewrite forallb_forall in V5. apply forallb_forall. intros r' Hr'.
  unfold upd_tab in Hr'. apply in_map_iff in Hr'. destruct Hr' as [r [<- Hr]].
  destruct (wpass w r) eqn:Pw; [|exact (V5 r Hr)].
  assert (Hlr : length r = length (s_c sch)).
  { unfold visible in Hr. apply in_map_iff in Hr. destruct Hr as [e [<- He]]. apply filter_In in He. apply row_fits_len. apply Hrf. tauto. }
  destruct (fk_cols sch) as [|[[j rc] act] fks] eqn:FK.
  - apply fk_row_nofk. exact (fk_cols_none (s_c sch) 0 FK).
  - assert (Hfks : fks = []).
    { pose proof (wf_fk1 _ W) as H1. unfold fk_count in H1. unfold fk_cols in FK. rewrite FK in H1. cbn [length] in H1.
      destruct fks; [reflexivity|cbn [length] in H1; lia]. }
    subst fks. unfold fk_cols in FK. destruct (fk_single (s_c sch) 0 j rc act FK) as [_ [Hrow _]]. rewrite Nat.sub_0_r in Hrow.
    pose proof (fk_cols_lt (s_c sch) 0 j rc act FK) as Hj. rewrite Nat.sub_0_r in Hj.
    rewrite Hrow by (unfold upd_row; rewrite upd_from_length; exact Hlr).
    fold (col_val j (upd_row sets r)). rewrite col_upd by lia.
    specialize (V5 r Hr). rewrite (Hrow r _ Hlr) in V5. fold (col_val j r) in V5.
    destruct (assoc_set j sets) as [nv|] eqn:A; [|exact V5].
    unfold upd_fk_child, fk_cols in Hc. rewrite FK, (sel_nonempty _ w r Hr Pw) in Hc. cbn [existsb fst snd andb] in Hc.
    rewrite A, orb_false_r in Hc. destruct (is_null nv); [reflexivity|]. cbn [negb andb orb] in *.
    apply negb_false_iff in Hc. rewrite <- live_has_vmem. exact Hc.
Qed.

Lemma vmem_in v (l : list value) : vmem v l = true <-> exists x, In x l /\ value_eqb v x = true.
Proof. unfold vmem. apply existsb_exists. Qed.

Lemma fk_upd_parent sch st sets w :
  wf_schema sch -> Inv sch st ->
  upd_fk_parent sch st sets (live_sel (d_p st) w) = false ->
  fk_ok (s_c sch) (upd_tab sets w (visible (d_p st))) (visible (d_c st)) = true.
Proof.
  intros W I Hc. pose proof (inv_valid _ _ I) as Hv. unfold abs_db in Hv. apply valid_split in Hv.
  destruct Hv as [_ [_ [_ [_ V5]]]]. pose proof (inv_c _ _ I) as [_ _ _ [Hrf _]]. pose proof (inv_p _ _ I) as Tp.
  unfold fk_ok in *. rewrite forallb_forall in V5. apply forallb_forall. intros r Hr.
  assert (Hlr : length r = length (s_c sch)).
  { unfold visible in Hr. apply in_map_iff in Hr. destruct Hr as [e [<- He]]. apply filter_In in He. apply row_fits_len. apply Hrf. tauto. }
  destruct (fk_cols sch) as [|[[j rc] act] fks] eqn:FK.
  - apply fk_row_nofk. exact (fk_cols_none (s_c sch) 0 FK).
  - assert (Hfks : fks = []).
    { pose proof (wf_fk1 _ W) as H1. unfold fk_count in H1. unfold fk_cols in FK. rewrite FK in H1. cbn [length] in H1.
      destruct fks; [reflexivity|cbn [length] in H1; lia]. }
    subst fks. unfold fk_cols in FK. destruct (fk_single (s_c sch) 0 j rc act FK) as [_ [Hrow _]]. rewrite Nat.sub_0_r in Hrow.
    specialize (V5 r Hr). rewrite (Hrow r _ Hlr) in V5. rewrite (Hrow r _ Hlr). fold (col_val j r) in *.
    destruct (is_null (col_val j r)) eqn:N; [reflexivity|]. cbn [orb] in *.
    (* the referenced column exists in p *)
    assert (Hrc : (rc < length (s_p sch))%nat).
    { assert (Hd : exists d, In d (s_c sch) /\ c_fk d = Some (mkFk rc act)).
      { clear -FK. revert FK. generalize 0%nat. induction (s_c sch) as [|d ds IH]; intros i H; [discriminate|].
        cbn [fk_cols_from] in H. destruct (c_fk d) as [f|] eqn:E.
        - injection H as _ H1 H2 _. exists d. split; [left; reflexivity|]. rewrite E. destruct f as [fc fa]. cbn [fk_col fk_act] in *. subst. reflexivity.
        - destruct (IH _ H) as [d' [H1 H2]]. exists d'. split; [right; exact H1|exact H2]. }
      destruct Hd as [d [Hin Hf]]. destruct (wf_fk_decl _ W d _ Hin Hf) as [pd [Hpd _]]. cbn [fk_col] in Hpd.
      apply nth_error_Some. rewrite Hpd. discriminate. }
    rewrite (colvals_upd_tab (s_p sch) (d_p st) (d_next st) sets w rc Tp Hrc).
    apply vmem_in in V5. destruct V5 as [x [Hx Ex]]. unfold colvals in Hx. apply in_map_iff in Hx. destruct Hx as [r0 [<- Hr0]].
    apply vmem_in. eexists. split; [apply in_map; exact Hr0|]. cbn beta.
    destruct (wpass w r0) eqn:Pw; [|exact Ex]. destruct (assoc_set rc sets) as [nv|] eqn:A; [|exact Ex].
    (* r0 is rewritten: class 15 says its key does not change under a referencing child *)
    assert (Hin : In r0 (map e_row (live_sel (d_p st) w))) by (rewrite rows_of_sel; apply filter_In; split; assumption).
    apply in_map_iff in Hin. destruct Hin as [e [Er He]].
    unfold upd_fk_parent, fk_cols in Hc. rewrite FK in Hc. cbn [existsb fst snd] in Hc. rewrite A, orb_false_r in Hc.
    assert (Hce : (let ov := col_val rc (e_row e) in negb (is_null ov) && negb (value_eqb ov nv) && live_has (d_c st) j ov) = false).
    { destruct (let ov := col_val rc (e_row e) in negb (is_null ov) && negb (value_eqb ov nv) && live_has (d_c st) j ov) eqn:X; [|reflexivity].
      exfalso. apply not_true_iff_false in Hc. apply Hc. apply existsb_exists. exists e. split; [exact He|exact X]. }
    cbn zeta in Hce. rewrite Er in Hce. apply value_eqb_eq in Ex. rewrite <- Ex in Hce. rewrite N in Hce. cbn [negb andb] in Hce.
    assert (Hl : live_has (d_c st) j (col_val j r) = true).
    { rewrite live_has_vmem. apply vmem_in. exists (col_val j r). split; [apply in_map; exact Hr|apply value_eqb_refl]. }
    rewrite Hl, andb_true_r in Hce. apply negb_false_iff in Hce. exact Hce.
Qed.

(* ---------------------------------------------------------------- the UPDATE statement *)
Lemma news_eq ts sets w :
  map (upd_row sets) (filter (wpass w) (visible ts)) = map (fun e => upd_row sets (e_row e)) (live_sel ts w).
Proof. rewrite <- rows_of_sel, map_map. reflexivity. Qed.

Lemma valid_upd sch st t sets w :
  wf_schema sch -> Inv sch st ->
  upd_key_class_from (cols_of sch t) (cols_of sch t) 0 (ts_of st t) sets (live_sel (ts_of st t) w) = 0 ->
  (match t with TC => upd_fk_child sch st sets (live_sel (d_c st) w) | TP => upd_fk_parent sch st sets (live_sel (d_p st) w) end) = false ->
  sets_ok (length (cols_of sch t)) sets = true ->
  valid_db sch (set_tab (abs_db st) t (upd_tab sets w (tab_of (abs_db st) t))) =
  forallb (row_ok (cols_of sch t)) (map (fun e => upd_row sets (e_row e)) (live_sel (ts_of st t) w)) &&
  forallb (fun e => uq_upd_from (ts_of st t) (cols_of sch t) 0 sets (e_id e) (upd_row sets (e_row e))) (live_sel (ts_of st t) w).
Proof.
  intros W I Hk Hf Hs. pose proof (inv_valid _ _ I) as Hv. unfold abs_db in Hv. apply valid_split in Hv.
  destruct Hv as [V1 [V2 [V3 [V4 V5]]]].
  apply Bool.eq_iff_eq_true. rewrite andb_true_iff.
  destruct t; unfold abs_db; cbn [set_tab tab_of fst snd cols_of ts_of] in *.
  - rewrite valid_split.
    rewrite (forallb_upd_tab _ sets w _ V1), news_eq, (uniq_upd _ _ _ sets w (inv_p _ _ I) V2 Hk).
    pose proof (fk_upd_parent sch st sets w W I Hf) as F. tauto.
  - rewrite valid_split.
    rewrite (forallb_upd_tab _ sets w _ V3), news_eq, (uniq_upd _ _ _ sets w (inv_c _ _ I) V4 Hk).
    pose proof (fk_upd_child sch st sets w W I Hs Hf) as F. tauto.
Qed.

(* no key column assigned: no probe, no index maintenance *)
Lemma uq_nomod ts : forall ds i sets k nr, key_mod_from ds i sets = false -> uq_upd_from ts ds i sets k nr = true.
Proof.
  induction ds as [|d ds IH]; intros i sets k nr H; [reflexivity|]. cbn [key_mod_from] in H. apply orb_false_iff in H.
  destruct H as [H1 H2]. cbn [uq_upd_from]. rewrite H1, (IH _ _ _ _ H2). reflexivity.
Qed.
Lemma idx_upd_nomod : forall ixs ds i sets pairs, key_mod_from ds i sets = false -> idx_upd_from ixs ds i sets pairs = ixs.
Proof.
  induction ixs as [|ix ixs IH]; intros ds i sets pairs H; [reflexivity|]. destruct ds as [|d ds]; [reflexivity|].
  cbn [key_mod_from] in H. apply orb_false_iff in H. destruct H as [H1 H2]. cbn [idx_upd_from]. rewrite H1, (IH _ _ _ _ H2). reflexivity.
Qed.

(* under side condition 12 the check among the rows of the statement never fires *)
Lemma dup_none all ts sets sel : forall ds i,
  two_plus sel = true -> upd_key_class_from all ds i ts sets sel = 0 -> dup_in_stmt ds i sets = false.
Proof.
  induction ds as [|d ds IH]; intros i Htp Hc; [reflexivity|].
  destruct (upd_key_class_split _ _ _ _ _ _ _ Hc) as [C1 C2]. cbn [dup_in_stmt]. rewrite (IH (S i) Htp C2), orb_false_r.
  cbn [upd_key_class_from] in C1. destruct (assoc_set i sets) as [nv|]; [|apply andb_false_r].
  assert (Hne : nonempty_l sel = true) by (destruct sel as [|? [|? ?]]; try discriminate; reflexivity).
  rewrite Hne, Htp in C1. rewrite andb_true_r in C1.
  destruct (is_key d && negb (is_null nv)) eqn:E; [discriminate|]. reflexivity.
Qed.

Theorem update_exact_l sch st t sets w :
  wf_schema sch -> Inv sch st -> stmt_class sch st (SUpd t sets w) = 0 ->
  sets_ok (length (cols_of sch t)) sets = true ->
  exists ok st', impl_step sch st (SUpd t sets w) = (Some ok, st') /\
                 exec_write sch (abs_db st) (SUpd t sets w) = (ok, abs_db st') /\ Inv sch st'.
Proof.
  intros W I Hcls Hs. cbn [impl_step]. rewrite Hs.
  set (ds := cols_of sch t) in *. set (ts := ts_of st t) in *.
  pose proof (inv_t sch st t I) as T. fold ds ts in T.
  pose proof (inv_valid _ _ I) as Hv.
  assert (Hu : uniq_ok ds (visible ts) = true).
  { unfold abs_db in Hv. apply valid_split in Hv. unfold ds, ts. destruct t; cbn [cols_of ts_of]; tauto. }
  (* the classes *)
  cbn [stmt_class] in Hcls. fold ds ts in Hcls.
  destruct (has_dead (upd_sel ds ts sets w)) eqn:C11; [discriminate|].
  destruct (upd_onepass ds ts sets w && onepass_junk ds ts w) eqn:C14; [discriminate|].
  pose proof (upd_sel_live ds ts (d_next st) sets w T Hu C11 C14) as Hsel. rewrite Hsel in Hcls.
  set (sel := live_sel ts w) in *.
  destruct (upd_key_class_from ds ds 0 ts sets sel =? 0) eqn:CK; [|destruct (upd_key_class_from ds ds 0 ts sets sel); cbn in *; discriminate].
  apply Z.eqb_eq in CK. cbn [negb] in Hcls.
  assert (C15 : (match t with TC => upd_fk_child sch st sets (live_sel (d_c st) w) | TP => upd_fk_parent sch st sets (live_sel (d_p st) w) end) = false).
  { unfold sel, ts in Hcls. destruct t; cbn [ts_of] in Hcls;
      [destruct (upd_fk_parent sch st sets (live_sel (d_p st) w)); [discriminate|reflexivity]|
       destruct (upd_fk_child sch st sets (live_sel (d_c st) w)); [discriminate|reflexivity]]. }
  clear Hcls.
  set (news := map (fun e => upd_row sets (e_row e)) sel).
  set (uq := forallb (fun e => uq_upd_from ts ds 0 sets (e_id e) (upd_row sets (e_row e))) sel).
  pose proof (valid_upd sch st t sets w W I CK C15 Hs) as Hval. fold ds ts sel news uq in Hval.
  assert (Hfit : forallb (row_fits (length ds)) news = true).
  { apply forallb_forall. intros r Hr. unfold news in Hr. apply in_map_iff in Hr. destruct Hr as [e [<- He]].
    apply upd_row_fits; [exact Hs|]. destruct T as [_ _ _ [Hrf _]]. apply Hrf. exact (proj1 (sel_in ts w e He)). }
  pose proof (validate_all_agree ds news (cols_len sch t W) (cols_frag sch t W) Hfit) as Hva.
  assert (Hexec : exec_write sch (abs_db st) (SUpd t sets w) =
                  if forallb (row_ok ds) news && uq
                  then (true, set_tab (abs_db st) t (upd_tab sets w (tab_of (abs_db st) t))) else (false, abs_db st)).
  { unfold exec_write. cbn [apply_stmt]. rewrite Hval. reflexivity. }
  (* the accepted case: the state with the rows rewritten and the indexes maintained *)
  set (ts' := mkT (rewrite_rows sel sets (ents ts))
                  (idx_upd_from (idxs ts) ds 0 sets (map (fun e => (e_id e, e_row e, upd_row sets (e_row e))) sel))).
  assert (Hdup : negb (match sel with _ :: _ :: _ => dup_in_stmt ds 0 sets | _ => false end) = true).
  { destruct sel as [|e1 [|e2 l]] eqn:Es; try reflexivity.
    rewrite (dup_none ds ts sets (e1 :: e2 :: l) ds 0%nat eq_refl CK). reflexivity. }
  assert (Hacc : forallb (row_ok ds) news = true -> uq = true ->
                 exec_write sch (abs_db st) (SUpd t sets w) = (true, abs_db (set_ts st t ts')) /\ Inv sch (set_ts st t ts')).
  { intros Hok Huq.
    assert (Habs : abs_db (set_ts st t ts') = set_tab (abs_db st) t (upd_tab sets w (tab_of (abs_db st) t))).
    { destruct T as [_ _ [Hnd _] _].
      unfold ts', ts, sel, abs_db. destruct t; cbn [set_ts ts_of set_tab tab_of d_p d_c fst snd];
        rewrite visible_rewrite by exact Hnd; reflexivity. }
    split.
    - rewrite Hexec, Hok, Huq. cbn [andb]. rewrite Habs. reflexivity.
    - pose proof (tinv_upd ds ts (d_next st) sets w T Hu Hs CK) as T'. fold sel ts' in T'.
      constructor.
      + rewrite Habs. rewrite Hval, Hok, Huq. reflexivity.
      + unfold ds, ts in *. destruct t; cbn [set_ts d_p d_next cols_of ts_of] in *; [exact T'|exact (inv_p _ _ I)].
      + unfold ds, ts in *. destruct t; cbn [set_ts d_c d_next cols_of ts_of] in *; [exact (inv_c _ _ I)|exact T'].
      + destruct t; exact (inv_next _ _ I). }
  assert (Hrej : forallb (row_ok ds) news && uq = false ->
                 exec_write sch (abs_db st) (SUpd t sets w) = (false, abs_db st)).
  { intros H. rewrite Hexec, H. reflexivity. }
  unfold do_update. fold ds ts.
  destruct (pk_probe ds ts w) as [[k v]|] eqn:P.
  - destruct (key_mod_from ds 0 sets) eqn:KM.
    + (* multi-pass through the index path *)
      assert (Hsr : select_rows ds ts w = sel) by (unfold upd_sel in Hsel; rewrite P, KM in Hsel; exact Hsel).
      rewrite Hsr. fold news. rewrite Hva. destruct (forallb (row_ok ds) news) eqn:Hok.
      * fold uq. rewrite Hdup, andb_true_r. destruct uq eqn:Huq.
        -- exists true, (set_ts st t ts'). split; [reflexivity|]. apply Hacc; reflexivity.
        -- exists false, st. split; [reflexivity|]. split; [apply Hrej; reflexivity|exact I].
      * exists false, st. split; [reflexivity|]. split; [apply Hrej; reflexivity|exact I].
    + (* one-pass *)
      unfold upd_sel in Hsel. rewrite P, KM in Hsel.
      assert (Huq : uq = true).
      { unfold uq. apply forallb_forall. intros e _. apply uq_nomod. exact KM. }
      destruct (seek_row ds ts k v) as [|e l] eqn:S.
      * (* nothing to do *)
        exists true, st. split; [reflexivity|]. split; [|exact I].
        assert (Hn : news = []) by (unfold news; rewrite <- Hsel; reflexivity).
        rewrite Hexec, Hn, Huq. cbn [forallb andb].
        assert (Hf : filter (wpass w) (visible ts) = []) by (rewrite <- rows_of_sel; fold sel; rewrite <- Hsel; reflexivity).
        unfold ts in Hf. rewrite abs_tab, (upd_tab_none sets w _ Hf), <- abs_tab, set_tab_same. reflexivity.
      * assert (Hn : news = [upd_row sets (e_row e)]) by (unfold news; rewrite <- Hsel; reflexivity).
        assert (Hts' : mkT (rewrite_rows [e] sets (ents ts)) (idxs ts) = ts').
        { unfold ts'. rewrite <- Hsel. rewrite (idx_upd_nomod _ ds 0 sets _ KM). reflexivity. }
        assert (Hf1 : row_fits (length ds) (upd_row sets (e_row e)) = true).
        { rewrite Hn in Hfit. cbn [forallb] in Hfit. apply andb_true_iff in Hfit. tauto. }
        rewrite (validate_new_agree ds _ (cols_len sch t W) (cols_frag sch t W) Hf1).
        destruct (row_ok ds (upd_row sets (e_row e))) eqn:Hok.
        -- exists true, (set_ts st t ts'). rewrite Hts'. split; [reflexivity|]. apply Hacc; [rewrite Hn; cbn [forallb]; rewrite Hok; reflexivity|exact Huq].
        -- exists false, st. split; [reflexivity|]. split; [|exact I]. apply Hrej. rewrite Hn. cbn [forallb]. rewrite Hok. reflexivity.
  - (* multi-pass, scan *)
    assert (Hsr : select_rows ds ts w = sel) by (unfold upd_sel in Hsel; rewrite P in Hsel; exact Hsel).
    rewrite Hsr. fold news. rewrite Hva. destruct (forallb (row_ok ds) news) eqn:Hok.
    + fold uq. rewrite Hdup, andb_true_r. destruct uq eqn:Huq.
      * exists true, (set_ts st t ts'). split; [reflexivity|]. apply Hacc; reflexivity.
      * exists false, st. split; [reflexivity|]. split; [apply Hrej; reflexivity|exact I].
    + exists false, st. split; [reflexivity|]. split; [apply Hrej; reflexivity|exact I].
Qed.
