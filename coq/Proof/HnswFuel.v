(* Proof/HnswFuel.v -- the model fuel of beam_search is always enough, in every state:
   every loop iteration pops one candidate, every candidate ever pushed is a distinct visited id, and
   every visited id except the entry occurs in some stored neighbour list.  Hence neither `search` nor
   `insert` of the model ever returns the OutOfFuel outcome (SFuel / IFuel). *)
From Coq Require Import ZArith List Bool Lia Permutation.
From TV Require Import Model.Hnsw Proof.HnswHeap Proof.HnswSearch.
Import ListNotations.
Open Scope Z_scope.

Section Fuel.
  Variable gn : Z -> list Z.
  Variable cdf : Z -> dist.
  Variable ef : Z.
  Variable U : list Z.                       (* a universe that contains everything gn can return *)
  Variable e0 : Z.                           (* the entry id *)
  Hypothesis gn_U : forall n, incl (gn n) U.

  Definition fok (c : bctx) : Prop := NoDup (b_vis c) /\ incl (b_vis c) (e0 :: U).

  Lemma fok_bound : forall c, fok c -> (length (b_vis c) <= S (length U))%nat.
  Proof. intros c [H1 H2]. apply (NoDup_incl_length H1) in H2. cbn [length] in H2. exact H2. Qed.

  Lemma beam_nbrs_fuel : forall nbrs c, incl nbrs U -> fok c ->
    let c' := beam_nbrs nbrs cdf ef c in
    fok c' /\ (length (b_cands c') + length (b_vis c) <= length (b_cands c) + length (b_vis c'))%nat.
  Proof.
    induction nbrs as [|n t IH]; intros c Hin Hc; cbn [beam_nbrs].
    - split; auto.
    - assert (Ht : incl t U) by (intros x Hx; apply Hin; right; auto).
      destruct (mem n (b_vis c)) eqn:Hm; [apply IH; auto|].
      assert (Hnv : ~ In n (b_vis c)) by (rewrite <- (mem_In n (b_vis c)); congruence).
      assert (Hf : forall cs rs, fok (B cs rs (n :: b_vis c))).
      { intros cs rs. destruct Hc as [H1 H2]. split; cbn [b_vis].
        - constructor; auto.
        - intros x [<-|Hx]; [right; apply Hin; left; auto | apply H2; auto]. }
      destruct (dlt (cdf n) (worst (b_res c)) || (Z.of_nat (length (b_res c)) <? ef)).
      + destruct (IH _ Ht (Hf (push le_min (C n (cdf n)) (b_cands c)) (add_result ef (C n (cdf n)) (b_res c)))) as [I1 I2].
        split; [exact I1|]. cbn [b_cands b_vis length] in I2. rewrite push_length in I2. lia.
      + destruct (IH _ Ht (Hf (b_cands c) (b_res c))) as [I1 I2].
        split; [exact I1|]. cbn [b_cands b_vis length] in I2. lia.
  Qed.

  Lemma beam_loop_fuel : forall fuel c, fok c ->
    (length (b_cands c) + S (length U) < fuel + length (b_vis c))%nat ->
    beam_loop fuel gn cdf ef c <> None.
  Proof.
    induction fuel as [|f IH]; intros c Hc Hm.
    - pose proof (fok_bound c Hc). lia.
    - cbn [beam_loop].
      destruct (pop le_min (b_cands c)) as [[cur rest]|] eqn:Ep; [|discriminate].
      destruct (pop_spec le_min le_min_total le_min_trans _ _ _ Ep) as (_ & L & _).
      destruct (dlt (worst (b_res c)) (cd cur)); [discriminate|].
      assert (Hc1 : fok (B rest (b_res c) (b_vis c))) by exact Hc.
      destruct (beam_nbrs_fuel (gn (cid cur)) _ (gn_U (cid cur)) Hc1) as [I1 I2].
      apply IH; auto. cbn [b_cands b_vis] in I2. lia.
  Qed.

  Lemma beam_fuel_gen : forall fuel e, cid e = e0 -> (S (S (length U)) < fuel)%nat ->
    beam fuel gn cdf ef e <> None.
  Proof.
    intros fuel e He Hf. unfold beam.
    destruct (beam_loop fuel gn cdf ef (beam_init ef e)) eqn:El; [discriminate|].
    exfalso. revert El. apply beam_loop_fuel.
    - unfold beam_init, fok. cbn [b_vis]. split.
      + constructor; [intros []|constructor].
      + intros x [<-|[]]. left; auto.
    - unfold beam_init. cbn [b_cands b_vis length]. rewrite push_length. cbn [length]. lia.
  Qed.
End Fuel.

(* ------------------------------------------------------------------ instantiation on index states *)
Lemma gn_at_links : forall s lvl n, incl (gn_at s lvl n) (all_links s).
Proof.
  intros s lvl n x Hx. unfold gn_at in Hx.
  destruct (read_node s n) as [nd|] eqn:Er; [|destruct Hx].
  unfold read_node in Er. destruct (n <? 0); [discriminate|].
  destruct (nth_error (nodes s) (Z.to_nat n)) as [nd'|] eqn:En; [|discriminate].
  destruct (n_active nd'); [|discriminate]. inversion Er; subst nd'.
  unfold nbrs_at in Hx. destruct (lvl <? 0); [destruct Hx|].
  destruct (nth_error (n_nbrs nd) (Z.to_nat lvl)) as [l|] eqn:El; [|destruct Hx].
  unfold all_links. apply in_flat_map. exists nd. split; [eapply nth_error_In; eauto|].
  apply in_concat. exists l. split; [eapply nth_error_In; eauto | exact Hx].
Qed.

Lemma beam_fuel_enough : forall s lvl cdf ef e,
  beam (beam_fuel s) (gn_at s lvl) cdf ef e <> None.
Proof.
  intros s lvl cdf ef e.
  apply (beam_fuel_gen (gn_at s lvl) cdf ef (all_links s) (cid e)).
  - intros n. apply gn_at_links.
  - reflexivity.
  - unfold beam_fuel, total_links. lia.
Qed.

Theorem search_never_out_of_fuel : forall p getv s q k ef, search p getv s q k ef <> SFuel.
Proof.
  intros p getv s q k ef. unfold search.
  destruct (negb (Z.of_nat (length q) =? dims p)); [discriminate|].
  destruct (entry s) as [ep|]; [|discriminate].
  destruct (ep <? 0); [discriminate|].
  destruct (descend _ _ _ _ _ _) as [cur d].
  destruct (beam (beam_fuel s) (gn_at s 0) (cd_search s getv q) ef (C cur d)) eqn:Eb; [discriminate|].
  exfalso. revert Eb. apply beam_fuel_enough.
Qed.

Lemma connect_some : forall n lvl p s cdf e, connect n lvl p s cdf e <> None.
Proof.
  induction n as [|n IH]; intros lvl p s cdf e; cbn [connect]; [discriminate|].
  destruct (beam (beam_fuel s) (gn_at s lvl) cdf (efc p) e) eqn:Eb.
  - destruct (connect n (lvl - 1) p s cdf e) eqn:Ec; [discriminate|].
    exfalso. revert Ec. apply IH.
  - exfalso. revert Eb. apply beam_fuel_enough.
Qed.

Lemma apply_levels_no_fuel : forall l s0 id, apply_levels s0 id l <> IFuel.
Proof.
  induction l as [|[lv nb] t IHl]; intros s0 id; cbn [apply_levels]; [discriminate|].
  destruct (read_node s0 id); [|discriminate].
  destruct (apply_nbrs s0 id lv n nb) as [[s' cur']|s']; [apply IHl | discriminate].
Qed.

Theorem insert_never_out_of_fuel : forall p getv s row vec lvl, insert p getv s row vec lvl <> IFuel.
Proof.
  intros p getv s row vec lvl. unfold insert.
  destruct (negb (Z.of_nat (length vec) =? dims p)); [discriminate|].
  cbn [entry].
  destruct (entry s) as [ep|]; [|discriminate].
  match goal with |- context [read_node ?s1 ep] => destruct (read_node s1 ep) as [epn|]; [|discriminate] end.
  match goal with |- context [descend ?a ?b ?c ?d ?e ?f] => destruct (descend a b c d e f) as [e' d'] end.
  match goal with |- context [connect ?a ?b ?c ?d ?e ?f] => destruct (connect a b c d e f) as [todo|] eqn:Ec end.
  - match goal with |- context [apply_levels ?a ?b ?c] => destruct (apply_levels a b c) eqn:Ea end; try discriminate.
    exfalso. revert Ea. apply apply_levels_no_fuel.
  - exfalso. revert Ec. apply connect_some.
Qed.
