(* C12 - AUTO_INCREMENT values are unique and increasing.
   Property theorems only.  Model/AutoInc.v is the hand-written model of the counter handling in
   src/database/dml/insert.rs; [trace h] lists every (id, generated?) a history h of INSERT
   statements (any mix of NULL / explicit ids, any statement failing at any row), insert_cached /
   insert_batch calls (Bulk), DELETEs, BEGIN / COMMIT / ROLLBACK and reopen cycles writes into the
   column, [counter h] is the header counter afterwards, [known_class h] names the recorded defect
   regime h enters first (0 = none). *)
From Coq Require Import ZArith List Bool.
From TV Require Import Lib.MachInt Model.AutoInc Proof.AutoInc.
Import ListNotations.
Open Scope Z_scope.

(* every history outside the recorded defect classes: each generated id differs from every value
   the column held before (explicit or generated, deleted / rolled back or not) and exceeds every
   earlier generated id *)
Theorem autoinc_fresh_increasing :
  forall h, known_class h = 0 -> fresh_increasing (trace h).
Proof. exact autoinc_fresh_increasing_l. Qed.

(* ... because the header counter stays an upper bound of everything the column ever held *)
Theorem autoinc_counter_dominates :
  forall h, known_class h = 0 -> forall v b, In (v, b) (trace h) -> v <= counter h.
Proof. exact autoinc_counter_dominates_l. Qed.

(* ... and generated ids are positive i64 values (no wrap-around of `cur as i64`) *)
Theorem autoinc_no_wrap :
  forall h, known_class h = 0 -> forall g, In (g, true) (trace h) -> 1 <= g < 2 ^ 63.
Proof. exact autoinc_no_wrap_l. Qed.

(* deletes, transaction control and reopen cycles change neither the generated ids nor the counter *)
Theorem autoinc_other_ops_irrelevant :
  forall h, trace h = trace (filter is_insert h) /\ counter h = counter (filter is_insert h).
Proof. exact autoinc_other_ops_irrelevant_l. Qed.

(* one row per INSERT statement (with or without explicit id, failing or not): the property holds
   unless the counter runs past i64::MAX or a bulk path brings in an id above the counter *)
Theorem autoinc_single_row_statements :
  forall h, single_row h -> known_class h <> 3 -> known_class h <> 4 -> fresh_increasing (trace h).
Proof. exact autoinc_single_row_statements_l. Qed.

(* the checker run on the implementation's observed ids decides exactly the property *)
Theorem fresh_increasing_chk_correct :
  forall tr, fresh_increasing_chk tr = true <-> fresh_increasing tr.
Proof. exact fresh_increasing_chk_correct_l. Qed.

(* the recorded classes do break the property on the model (witnesses re-run on the real code):
   1  INSERT (id) VALUES (NULL),(2),(NULL)            -> ids 1, 2, 2
   2  INSERT of two rows failing at the second, then INSERT -> id 1 generated twice
   3  after an explicit i64::MAX the next generated id is i64::MIN
   4  id 3 written by insert_cached / insert_batch, then generated again *)
Theorem autoinc_refuted_explicit_ahead :
  exists h, known_class h = 1 /\ trace h = [(1, true); (2, false); (2, true)] /\ ~ fresh_increasing (trace h).
Proof. exact autoinc_refuted_explicit_ahead_l. Qed.

Theorem autoinc_refuted_failed_statement :
  exists h, known_class h = 2 /\ trace h = [(1, true); (1, true)] /\ ~ fresh_increasing (trace h).
Proof. exact autoinc_refuted_failed_statement_l. Qed.

Theorem autoinc_refuted_i64_wrap :
  exists h, known_class h = 3 /\
    trace h = [(1, true); (9223372036854775807, false); (-9223372036854775808, true)] /\
    ~ fresh_increasing (trace h).
Proof. exact autoinc_refuted_i64_wrap_l. Qed.

Theorem autoinc_refuted_bulk_explicit :
  exists h, known_class h = 4 /\ trace h = [(1, true); (3, false); (2, true); (3, true)] /\ ~ fresh_increasing (trace h).
Proof. exact autoinc_refuted_bulk_explicit_l. Qed.

(* the same for what a narrower id column (SMALLINT 16 / INTEGER 32 / BIGINT 64 bits) actually
   stores: outside class 5 (an id outside the column's range is written) nothing is wrapped and
   the stored values are fresh and increasing *)
Theorem autoinc_fresh_increasing_stored :
  forall w h, 0 < w -> known_class_w w h = 0 -> trace_w w h = trace h /\ fresh_increasing (trace_w w h).
Proof. exact autoinc_fresh_increasing_stored_l. Qed.

(*  5  INTEGER column: after 2147483647 the generated id 2147483648 is stored as -2147483648 *)
Theorem autoinc_refuted_narrow_column :
  exists h, known_class_w 32 h = 5 /\
    trace h = [(2147483646, false); (2147483647, true); (2147483648, true)] /\
    trace_w 32 h = [(2147483646, false); (2147483647, true); (-2147483648, true)] /\
    ~ fresh_increasing (trace_w 32 h).
Proof. exact autoinc_refuted_narrow_column_l. Qed.

(* non-vacuity: a history with explicit ids, a mixed statement, a failing statement, a delete, a
   rolled-back transaction, a reopen and a bulk insert of ids the counter already passed lies
   outside every class and generates 1,2,3,11,12,13,14 *)
Example c12_witness :
  let h := [Insert [RNull; RNull] None; Insert [RNull; RInt 10; RInt 4] None; Delete;
            Insert [RNull; RInt 7] (Some 0%nat); TxBegin; Insert [RNull; RNull] None; TxRollback;
            Reopen; Insert [RInt 12; RNull] (Some 1%nat); Insert [RNull] None;
            Bulk [RNull; RInt 5; RInt (-2)] None; Insert [RNull] None] in
  known_class h = 0 /\ known_class_w 16 h = 0 /\ counter h = 14 /\
  trace h = [(1, true); (2, true); (3, true); (10, false); (4, false); (11, true); (12, true);
             (12, false); (13, true); (5, false); (-2, false); (14, true)] /\
  fresh_increasing_chk (trace h) = true /\ single_row [Insert [RNull] None; Delete; Insert [RInt 5] None].
Proof.
  vm_compute. repeat split.
  intros rows ext [H|[H|[H|[]]]]; inversion H; subst; cbn; auto.
Qed.

Check autoinc_fresh_increasing : forall h, known_class h = 0 -> fresh_increasing (trace h).
Check autoinc_counter_dominates : forall h, known_class h = 0 -> forall v b, In (v, b) (trace h) -> v <= counter h.
Check autoinc_no_wrap : forall h, known_class h = 0 -> forall g, In (g, true) (trace h) -> 1 <= g < 2 ^ 63.
Check autoinc_other_ops_irrelevant : forall h, trace h = trace (filter is_insert h) /\ counter h = counter (filter is_insert h).
Check autoinc_single_row_statements : forall h, single_row h -> known_class h <> 3 -> known_class h <> 4 -> fresh_increasing (trace h).
Check fresh_increasing_chk_correct : forall tr, fresh_increasing_chk tr = true <-> fresh_increasing tr.
Check autoinc_refuted_explicit_ahead : exists h, known_class h = 1 /\ trace h = [(1, true); (2, false); (2, true)] /\ ~ fresh_increasing (trace h).
Check autoinc_refuted_failed_statement : exists h, known_class h = 2 /\ trace h = [(1, true); (1, true)] /\ ~ fresh_increasing (trace h).
Check autoinc_refuted_i64_wrap : exists h, known_class h = 3 /\ trace h = [(1, true); (9223372036854775807, false); (-9223372036854775808, true)] /\ ~ fresh_increasing (trace h).
Check autoinc_refuted_bulk_explicit : exists h, known_class h = 4 /\ trace h = [(1, true); (3, false); (2, true); (3, true)] /\ ~ fresh_increasing (trace h).
Check autoinc_fresh_increasing_stored : forall w h, 0 < w -> known_class_w w h = 0 -> trace_w w h = trace h /\ fresh_increasing (trace_w w h).
Check autoinc_refuted_narrow_column : exists h, known_class_w 32 h = 5 /\ trace h = [(2147483646, false); (2147483647, true); (2147483648, true)] /\ trace_w 32 h = [(2147483646, false); (2147483647, true); (-2147483648, true)] /\ ~ fresh_increasing (trace_w 32 h).

Print Assumptions autoinc_fresh_increasing.
Print Assumptions autoinc_counter_dominates.
Print Assumptions autoinc_no_wrap.
Print Assumptions autoinc_other_ops_irrelevant.
Print Assumptions autoinc_single_row_statements.
Print Assumptions fresh_increasing_chk_correct.
Print Assumptions autoinc_refuted_explicit_ahead.
Print Assumptions autoinc_refuted_failed_statement.
Print Assumptions autoinc_refuted_i64_wrap.
Print Assumptions autoinc_refuted_bulk_explicit.
Print Assumptions autoinc_fresh_increasing_stored.
Print Assumptions autoinc_refuted_narrow_column.
