(* C32 model, text side: src/parsing/json.rs (JsonTokenizer::next_token, parse_string, parse_number,
   unescape_string, parse_json / parse_value / parse_array / parse_object), transcribed as it is:
     * the tokenizer works on the remaining input (a suffix of the text), the position being
       (length of the text) - (length of the suffix);
     * a backslash inside a string literal skips the next BYTE while scanning; the raw slice is
       unescaped afterwards only if a backslash was seen;
     * `\uXXXX` goes through u32::from_str_radix(_, 16) (which also accepts a leading '+'); a value in
       D800..DBFF immediately followed by `\u` + four hex characters giving DC00..DFFF is combined into
       one code point above FFFF (both escapes consumed); otherwise nothing more is consumed and
       char::from_u32 decides: any remaining D800..DFFF (unpaired high or low surrogate) is an error;
     * commas are skipped wherever they occur inside arrays and objects (`[,1 2,,]` parses);
     * number text -> f64 is Rust's str::parse::<f64>, an oracle (Section variable), numbers are bit patterns;
     * error values are only Err.
   The input is a Rust &str, i.e. valid UTF-8.  Definitions only. *)
From Coq Require Import ZArith List Bool.
From TV Require Import Lib.MachInt Model.Jsonb.
Import ListNotations.
Open Scope Z_scope.

Inductive token :=
| TObjS | TObjE | TArrS | TArrE | TColon | TComma
| TStr (s : list Z) | TNum (bits : Z) | TBool (b : bool) | TNull.

Definition is_ws (c : Z) : bool := (c =? 32) || (c =? 9) || (c =? 10) || (c =? 13).
Fixpoint skip_ws (l : list Z) : list Z :=
  match l with
  | c :: r => if is_ws c then skip_ws r else l
  | [] => []
  end.

(* the scanning loop of parse_string, entered after the opening quote:
   Some (raw slice, input after the closing quote, has_escapes) or None = unterminated *)
Fixpoint scan_str (l : list Z) : option (list Z * list Z * bool) :=
  match l with
  | [] => None
  | c :: r =>
      if c =? 34 then Some ([], r, false)
      else if c =? 92 then
        match r with
        | [] => None
        | x :: r' =>
            match scan_str r' with
            | Some (raw, rest, _) => Some (92 :: x :: raw, rest, true)
            | None => None
            end
        end
      else
        match scan_str r with
        | Some (raw, rest, e) => Some (c :: raw, rest, e)
        | None => None
        end
  end.

Definition hex_val (c : Z) : option Z :=
  if (48 <=? c) && (c <=? 57) then Some (c - 48)
  else if (97 <=? c) && (c <=? 102) then Some (c - 87)
  else if (65 <=? c) && (c <=? 70) then Some (c - 55)
  else None.

(* u32::from_str_radix(&hex, 16) on exactly four ASCII characters *)
Definition hex4 (a b c d : Z) : option Z :=
  match hex_val b, hex_val c, hex_val d with
  | Some y, Some z, Some w =>
      if a =? 43 then Some (y * 256 + z * 16 + w)
      else match hex_val a with
           | Some x => Some (x * 4096 + y * 256 + z * 16 + w)
           | None => None
           end
  | _, _, _ => None
  end.

(* String::push(char) *)
Definition utf8_encode (cp : Z) : list Z :=
  if cp <? 128 then [cp]
  else if cp <? 2048 then [192 + cp / 64; 128 + cp mod 64]
  else if cp <? 65536 then [224 + cp / 4096; 128 + (cp / 64) mod 64; 128 + cp mod 64]
  else [240 + cp / 262144; 128 + (cp / 4096) mod 64; 128 + (cp / 64) mod 64; 128 + cp mod 64].

Definition is_high_surrogate (cp : Z) : bool := (55296 <=? cp) && (cp <? 56320).
Definition is_low_surrogate (cp : Z) : bool := (56320 <=? cp) && (cp <? 57344).

Definition is_surrogate (cp : Z) : bool := (55296 <=? cp) && (cp <=? 57343).

Definition simple_escape (e : Z) : option Z :=
  if e =? 110 then Some 10        (* n *)
  else if e =? 114 then Some 13   (* r *)
  else if e =? 116 then Some 9    (* t *)
  else if e =? 92 then Some 92
  else if e =? 34 then Some 34
  else if e =? 47 then Some 47
  else if e =? 98 then Some 8     (* b *)
  else if e =? 102 then Some 12   (* f *)
  else None.

Definition ascii4 (a b c d : Z) : bool := (a <? 128) && (b <? 128) && (c <? 128) && (d <? 128).

(* unescape_string.  It iterates over chars; on valid UTF-8 that is the same as copying bytes, except
   after a backslash, where a non-ASCII char is an invalid escape, and after `\u`, where the next four
   CHARS are taken: unless these are four ASCII bytes the hex conversion fails. *)
Fixpoint unescape (l : list Z) : res (list Z) :=
  match l with
  | [] => Ok []
  | c :: r =>
      if c =? 92 then
        match r with
        | [] => Err
        | e :: r1 =>
            if e =? 117 then
              match r1 with
              | h1 :: h2 :: h3 :: h4 :: r2 =>
                  if ascii4 h1 h2 h3 h4 then
                    match hex4 h1 h2 h3 h4 with
                    | Some cp =>
                        if is_high_surrogate cp then
                          (* look ahead for the low half; without it cp stays a surrogate and char::from_u32 fails *)
                          match r2 with
                          | 92 :: 117 :: l1 :: l2 :: l3 :: l4 :: r3 =>
                              if ascii4 l1 l2 l3 l4 then
                                match hex4 l1 l2 l3 l4 with
                                | Some lo =>
                                    if is_low_surrogate lo then
                                      rmap (fun t => utf8_encode (65536 + (cp - 55296) * 1024 + (lo - 56320)) ++ t) (unescape r3)
                                    else Err
                                | None => Err
                                end
                              else Err
                          | _ => Err
                          end
                        else if is_surrogate cp then Err
                        else rmap (fun t => utf8_encode cp ++ t) (unescape r2)
                    | None => Err
                    end
                  else Err
              | _ => Err
              end
            else
              match simple_escape e with
              | Some x => rmap (cons x) (unescape r1)
              | None => Err
              end
        end
      else rmap (cons c) (unescape r)
  end.

Definition is_numch (c : Z) : bool :=
  ((48 <=? c) && (c <=? 57)) || (c =? 46) || (c =? 101) || (c =? 69) || (c =? 43) || (c =? 45).
Fixpoint span_num (l : list Z) : list Z * list Z :=
  match l with
  | c :: r => if is_numch c then let '(a, b) := span_num r in (c :: a, b) else ([], l)
  | [] => ([], [])
  end.

Fixpoint starts_with (p l : list Z) : option (list Z) :=
  match p, l with
  | [], _ => Some l
  | x :: p', y :: l' => if x =? y then starts_with p' l' else None
  | _ :: _, [] => None
  end.

Section Parser.
  (* str::parse::<f64>() on the text of a number token: Ok bits | Err (any other outcome is passed on) *)
  Variable num_of : list Z -> res Z.

  Definition next_token (l : list Z) : res (option (token * list Z)) :=
    match skip_ws l with
    | [] => Ok None
    | c :: r =>
        if c =? 123 then Ok (Some (TObjS, r))
        else if c =? 125 then Ok (Some (TObjE, r))
        else if c =? 91 then Ok (Some (TArrS, r))
        else if c =? 93 then Ok (Some (TArrE, r))
        else if c =? 58 then Ok (Some (TColon, r))
        else if c =? 44 then Ok (Some (TComma, r))
        else if c =? 34 then
          match scan_str r with
          | None => Err
          | Some (raw, rest, esc) =>
              if esc then rmap (fun s => Some (TStr s, rest)) (unescape raw)
              else Ok (Some (TStr raw, rest))
          end
        else if c =? 116 then
          match starts_with [114; 117; 101] r with Some rest => Ok (Some (TBool true, rest)) | None => Err end
        else if c =? 102 then
          match starts_with [97; 108; 115; 101] r with Some rest => Ok (Some (TBool false, rest)) | None => Err end
        else if c =? 110 then
          match starts_with [117; 108; 108] r with Some rest => Ok (Some (TNull, rest)) | None => Err end
        else if (c =? 45) || ((48 <=? c) && (c <=? 57)) then
          let '(run, rest) := span_num r in
          rmap (fun bits => Some (TNum bits, rest)) (num_of (c :: run))
        else Err
    end.

  Fixpoint parse_value (fuel : nat) (l : list Z) {struct fuel} : res (json * list Z) :=
    match fuel with
    | O => Fuel
    | S f =>
        bind (next_token l) (fun t =>
        match t with
        | Some (TNull, r) => Ok (JNull, r)
        | Some (TBool b, r) => Ok (JBool b, r)
        | Some (TNum x, r) => Ok (JNum x, r)
        | Some (TStr s, r) => Ok (JStr s, r)
        | Some (TArrS, r) => rmap (fun p => (JArr (fst p), snd p)) (parse_array f r)
        | Some (TObjS, r) => rmap (fun p => (JObj (fst p), snd p)) (parse_object f r)
        | Some (_, _) => Err
        | None => Err
        end)
    end
  with parse_array (fuel : nat) (l : list Z) {struct fuel} : res (list json * list Z) :=
    match fuel with
    | O => Fuel
    | S f =>
        bind (next_token l) (fun t =>
        let push (v : json) (r : list Z) :=
          rmap (fun p => (v :: fst p, snd p)) (parse_array f r) in
        match t with
        | Some (TArrE, r) => Ok ([], r)
        | Some (TComma, r) => parse_array f r
        | Some (TNull, r) => push JNull r
        | Some (TBool b, r) => push (JBool b) r
        | Some (TNum x, r) => push (JNum x) r
        | Some (TStr s, r) => push (JStr s) r
        | Some (TArrS, r) => bind (parse_array f r) (fun p => push (JArr (fst p)) (snd p))
        | Some (TObjS, r) => bind (parse_object f r) (fun p => push (JObj (fst p)) (snd p))
        | Some (_, _) => Err
        | None => Err
        end)
    end
  with parse_object (fuel : nat) (l : list Z) {struct fuel} : res (list (list Z * json) * list Z) :=
    match fuel with
    | O => Fuel
    | S f =>
        bind (next_token l) (fun t =>
        match t with
        | Some (TObjE, r) => Ok ([], r)
        | Some (TComma, r) => parse_object f r
        | Some (TStr k, r) =>
            bind (next_token r) (fun t2 =>
            match t2 with
            | Some (TColon, r2) =>
                bind (parse_value f r2) (fun p =>
                rmap (fun q => ((k, fst p) :: fst q, snd q)) (parse_object f (snd p)))
            | _ => Err
            end)
        | Some (_, _) => Err
        | None => Err
        end)
    end.

  (* parse_json: the value and `consumed` *)
  Definition parse_json (text : list Z) : res (json * Z) :=
    rmap (fun p => (fst p, blen text - blen (snd p))) (parse_value (S (length text)) text).
End Parser.
