(* C04 proofs, part 3: the recorded finding classes are not empty in the model (witnesses, by
   evaluation), and corollaries of the simulation theorem for restricted kinds of interruption. *)
From Coq Require Import ZArith List Bool Lia.
From TV Require Import Model.Persist Proof.Persist Proof.PersistSim.
Import ListNotations.
Open Scope Z_scope.

(* ------------------------------------------------------------------ witnesses *)
(* class 1: insert, close + open, insert: the second INSERT fails with "key already exists" *)
Definition wit1 : list op := [Create 0 0; Ins 0 [(Some 1, 10)]; ReopenClose; Ins 0 [(Some 2, 11)]; Query].
(* class 2: an image of the page is logged, the WAL is switched off, the page changes, PRAGMA
   wal_checkpoint copies the old image back: the second row is gone, COUNT( * ) still says 2 *)
Definition wit2 : list op := [Create 0 0; Ins 0 [(Some 1, 10)]; SetWal false; Ins 0 [(Some 2, 11)]; CkptPragma; Query].
(* the same through drop (without close) + open *)
Definition wit2y : list op := [Create 0 0; Ins 0 [(Some 1, 10)]; SetWal false; Ins 0 [(Some 2, 11)]; ReopenDrop; Query].

Lemma reopen_refuted_l :
  in_lang wit1 = true /\ known_class_of false wit1 (run true (init false) wit1) = 1
  /\ oracle wit1 (run true (init false) wit1) (run false (init false) wit1) = false
  /\ nth_error (run true (init false) wit1) 3 = Some OErr
  /\ nth_error (run false (init false) wit1) 2 = Some (OOk 1).
Proof. vm_compute. repeat split. Qed.

Lemma checkpoint_refuted_l :
  in_lang wit2 = true /\ known_class_of true wit2 (run true (init true) wit2) = 2
  /\ oracle wit2 (run true (init true) wit2) (run false (init true) wit2) = false
  /\ nth_error (run true (init true) wit2) 5
     = Some (OQ [TPresent [[Some 1; Some 10]] (Some 2) [[[Some 1; Some 10]]; []; []; []; []; []; []; []]; TAbsent; TAbsent])
  /\ in_lang wit2y = true /\ known_class_of true wit2y (run true (init true) wit2y) = 2
  /\ oracle wit2y (run true (init true) wit2y) (run false (init true) wit2y) = false.
Proof. vm_compute. repeat split. Qed.

(* non-vacuity of the main theorem: a history with all four modelled interruptions, WAL on,
   PRIMARY KEY AUTO_INCREMENT table, inside the language and outside every class *)
Definition good : list op :=
  [Create 0 2; Ins 0 [(None, 10); (None, 11)]; CkptPragma; Del 0 10; ReopenDrop; Query;
   Create 1 0; CkptApi; Upd 0 11 12; ReopenClose; CkptPragma; Query].
Lemma good_ok :
  in_lang good = true /\ known_class_of true good (run true (init true) good) = 0
  /\ oracle good (run true (init true) good) (run false (init true) good) = true
  /\ nth_error (run true (init true) good) 11
     = Some (OQ [TPresent [[Some 2; Some 12]] (Some 1) [[]; [[Some 2; Some 12]]; []; []; []; []; []; []];
                 TPresent [] (Some 0) [[]; []; []; []; []; []; []; []]; TAbsent]).
Proof. vm_compute. repeat split. Qed.

(* ------------------------------------------------------------------ Database::checkpoint() alone *)
(* histories whose only interruptions are calls of Database::checkpoint(): no class can be hit *)
Definition only_api (o : op) : bool := match o with ReopenClose | ReopenDrop | CkptPragma | AutoCkpt => false | _ => true end.

Lemma k1_only_api : forall a o, only_api o = true -> k_ro a = false -> k_c1 a = false ->
  k_ro (k1_step a o) = false /\ k_c1 (k1_step a o) = false.
Proof. intros [i r c] o H R C. cbn in R, C. subst. destruct o; cbn in *; try discriminate; auto. Qed.

Lemma k2_only_api : forall b o x, only_api o = true -> op_in_lang o = true -> k_c2 b = false -> k_c2 (k2_step b o x) = false.
Proof.
  intros b o x H HL C. destruct o; cbn [only_api op_in_lang] in H, HL; try discriminate; cbn [k2_step];
    repeat match goal with
           | |- context [if ?e then _ else _] => destruct e
           | |- context [match ?v with [] => _ | _ :: _ => _ end] => destruct v
           end; cbn; rewrite ?C; auto.
Qed.

Lemma k3_only_api : forall c o, only_api o = true -> k_reopened c = false -> k_reopened (k3_step c o) = false.
Proof. intros [d r p] o H R. cbn in R. subst. destruct o; cbn in *; try discriminate; auto. Qed.

Lemma kscan_only_api : forall h oa a b c,
  forallb only_api h = true -> forallb op_in_lang h = true ->
  k_ro a = false -> k_c1 a = false -> k_c2 b = false -> k_reopened c = false ->
  kclass (kscan a b c h oa) = 0.
Proof.
  induction h as [|o h IH]; intros oa a b c HA HL R C1 C2 R3.
  - cbn. rewrite C2, R3, C1. now rewrite andb_false_r.
  - cbn [forallb] in HA, HL. apply andb_true_iff in HA. destruct HA as [HA1 HA]. apply andb_true_iff in HL. destruct HL as [HL1 HL].
    destruct oa as [|x oa]; cbn [kscan].
    + cbn. rewrite C2, R3, C1. now rewrite andb_false_r.
    + destruct (k1_only_api a o HA1 R C1) as [R' C1'].
      apply IH; auto using k2_only_api, k3_only_api.
Qed.

Lemma checkpoint_api_id_l : forall wal h,
  in_lang h = true -> forallb only_api h = true ->
  oracle h (run true (init wal) h) (run false (init wal) h) = true.
Proof.
  intros wal h HL HA. apply persist_observational_id_l; [exact HL|].
  unfold in_lang in HL. apply andb_true_iff in HL. destruct HL as [HL _].
  unfold known_class_of. apply kscan_only_api; auto.
Qed.
