(* C36 proofs, part 5: the property's clauses from the invariant. *)
From Coq Require Import ZArith List Bool Arith Lia.
From TV Require Import Lib.Interleave Model.PageLocks Proof.PageLocksBase Proof.PageLocksStep
  Proof.PageLocksShape Proof.PageLocksInv.
Import ListNotations.
Open Scope Z_scope.

(* ---------------------------------------------------------------- mutual exclusion *)
Lemma g_holds_true w k g : g_holds w k g = true -> g_w g = w /\ g_k g = k.
Proof.
  unfold g_holds. intros H. apply andb_prop in H. destruct H as [H1 H2].
  apply Z.eqb_eq in H2. apply eqb_prop in H1. auto.
Qed.

Lemma holds_none s t th w k : Inv s -> s_bad (sh s) = false -> In (t, th) (ths s) ->
  mget k (s_map (sh s)) = None -> th_holds w k th = 0%nat.
Proof.
  intros I Hb Hin Hm. unfold th_holds.
  assert (H1 : pc_holds w k (th_pc th) = 0%nat).
  { destruct (th_pc th) as [| | | | | |w' k' e' c| |] eqn:Hpc; cbn [pc_holds]; auto.
    destruct (Bool.eqb w w' && (k' =? k)) eqn:E; auto. apply andb_prop in E. destruct E as [_ E].
    apply Z.eqb_eq in E. subst k'.
    assert (H := i_coh s I Hb t th k e' Hin). rewrite Hm in H. discriminate H. left. rewrite Hpc. reflexivity. }
  rewrite H1. cbn [Nat.add]. apply gcount_zero. intros g Hg.
  destruct (g_holds w k g) eqn:E; auto. destruct (g_holds_true _ _ _ E) as [_ Hk].
  assert (H := i_coh s I Hb t th k (g_e g) Hin). rewrite Hm in H. discriminate H. right. exists g. auto.
Qed.

Lemma holds_some s t th k e : Inv s -> s_bad (sh s) = false -> In (t, th) (ths s) ->
  mget k (s_map (sh s)) = Some e ->
  (th_holds true k th <= th_wh e th)%nat /\ (th_holds false k th <= th_r e th)%nat.
Proof.
  intros I Hb Hin Hm.
  assert (Hcoh : forall e', cohref th k e' -> e' = e).
  { intros e' Hc. assert (H := i_coh s I Hb t th k e' Hin Hc). congruence. }
  assert (Hg : forall w g, In g (th_pg th) -> g_holds w k g = true -> g_w g = w /\ g_e g = e).
  { intros w g Hi Hh. destruct (g_holds_true _ _ _ Hh) as [Hw Hk]. split; auto.
    apply Hcoh. right. exists g. auto. }
  unfold th_holds, th_wh, th_r. split.
  - assert (H1 : (pc_holds true k (th_pc th) <= on (pc_wh (th_pc th)) e)%nat).
    { destruct (th_pc th) as [| | | | | |w' k' e' c| |] eqn:Hpc; cbn [pc_holds]; try lia.
      destruct (Bool.eqb true w' && (k' =? k)) eqn:E; [|lia]. apply andb_prop in E. destruct E as [E1 E2].
      apply Z.eqb_eq in E2. apply eqb_prop in E1. subst k' w'.
      assert (e' = e) by (apply Hcoh; left; rewrite Hpc; reflexivity). subst e'.
      cbn [pc_wh on]. rewrite Nat.eqb_refl. lia. }
    assert (H2 : (gcount (g_holds true k) (th_pg th) <= gcount (gw e) (th_pg th))%nat).
    { apply gcount_le. intros g Hi Hh. destruct (Hg _ _ Hi Hh) as [Hw He]. unfold gw. rewrite Hw, He, Nat.eqb_refl. reflexivity. }
    unfold gcount in *. lia.
  - assert (H1 : (pc_holds false k (th_pc th) <= on (pc_r (th_pc th)) e)%nat).
    { destruct (th_pc th) as [| | | | | |w' k' e' c| |] eqn:Hpc; cbn [pc_holds]; try lia.
      destruct (Bool.eqb false w' && (k' =? k)) eqn:E; [|lia]. apply andb_prop in E. destruct E as [E1 E2].
      apply Z.eqb_eq in E2. apply eqb_prop in E1. subst k' w'.
      assert (e' = e) by (apply Hcoh; left; rewrite Hpc; reflexivity). subst e'.
      cbn [pc_r on]. rewrite Nat.eqb_refl. lia. }
    assert (H2 : (gcount (g_holds false k) (th_pg th) <= gcount (gr e) (th_pg th))%nat).
    { apply gcount_le. intros g Hi Hh. destruct (Hg _ _ Hi Hh) as [Hw He]. unfold gr. rewrite Hw, He, Nat.eqb_refl. reflexivity. }
    unfold gcount in *. lia.
Qed.

Lemma inv_mutual_exclusion s : Inv s -> s_bad (sh s) = false -> mutual_exclusion s.
Proof.
  intros I Hb k. unfold writers, readers.
  destruct (mget k (s_map (sh s))) as [e|] eqn:Hm.
  - assert (Hw : (tsum (th_holds true k) (ths s) <= tsum (th_wh e) (ths s))%nat)
      by (apply tsum_le; intros t v Hin; apply (holds_some s t v k e I Hb Hin Hm)).
    assert (Hr : (tsum (th_holds false k) (ths s) <= tsum (th_r e) (ths s))%nat)
      by (apply tsum_le; intros t v Hin; apply (holds_some s t v k e I Hb Hin Hm)).
    assert (Hle : (tsum (th_wh e) (ths s) <= tsum (th_w e) (ths s))%nat)
      by (apply tsum_le; intros; apply th_wh_le_w).
    assert (H1 := i_w s I e). assert (H2 := i_r s I e). assert (H3 := i_wh s I e).
    split.
    + destruct (e_w (eget (s_ents (sh s)) e)); cbn [b2n] in H1; lia.
    + intros E. assert (Hrd : e_rd (eget (s_ents (sh s)) e) = 0) by (apply H3; lia). lia.
  - rewrite !tsum_zero; [split; [lia | reflexivity] | |]; intros t v Hin; eapply holds_none; eauto.
Qed.

(* the repaired cleanup never removes a live entry *)
Lemma tstep_bad_fx s th s' th' : tstep true s th = Some (s', th') -> s_bad s' = s_bad s.
Proof.
  intros Hstep. destruct (step_map_effect _ _ _ _ _ Hstep) as [_ H _ | w k _ _ H _ _ _ _ | k e Hpc _ _ _ _]; auto.
  unfold tstep in Hstep. rewrite Hpc in Hstep. inversion Hstep; subst. unfold cleanup.
  destruct (_ =? 0); auto. destruct (mget k (s_map s)); auto. destruct (Nat.eqb n e); auto.
Qed.

Lemma bad_never_fx progs sched : s_bad (sh (run (step true) sched (init progs))) = false.
Proof.
  apply (invariant_rule St (step true) (fun s => s_bad (sh s) = false)); [reflexivity|].
  intros t s s' Hb Hs. unfold step in Hs.
  destruct (lget (ths s) t) as [th|]; [|discriminate].
  destruct (tstep true (sh s) th) as [[sh' th']|] eqn:Hstep; [|discriminate].
  inversion Hs; subst. cbn [sh]. rewrite (tstep_bad_fx _ _ _ _ Hstep). exact Hb.
Qed.

Lemma mutual_exclusion_unless_bad_l : forall fx progs sched,
  s_bad (sh (run (step fx) sched (init progs))) = false ->
  mutual_exclusion (run (step fx) sched (init progs)).
Proof. intros. apply inv_mutual_exclusion; auto. apply inv_reachable. Qed.

Lemma mutual_exclusion_repaired_l : forall progs sched,
  mutual_exclusion (run (step true) sched (init progs)).
Proof. intros. apply mutual_exclusion_unless_bad_l. apply bad_never_fx. Qed.

(* ---------------------------------------------------------------- the map is empty when everybody is done *)
Lemma finished_no_refs th : finished th = true -> th_pc th = PIdle /\ th_pg th = [] /\ th_tg th = [].
Proof.
  unfold finished, next_op. destruct (th_pc th); try discriminate.
  destruct (th_prog th); [|discriminate]. destruct (th_pg th); [|discriminate]. destruct (th_tg th); [|discriminate]. auto.
Qed.

Lemma inv_map_empty s : Inv s -> all_done s -> s_map (sh s) = [].
Proof.
  intros I Hd. apply mget_none_nil. intros k.
  destruct (mget k (s_map (sh s))) as [e|] eqn:Hm; auto. exfalso.
  destruct (i_live s I _ _ Hm) as [Hpos|(t & th & Hin & Hpc)].
  - rewrite <- (i_ref s I e) in Hpos.
    rewrite tsum_zero in Hpos; [lia|]. intros t v Hin.
    destruct (finished_no_refs _ (Hd _ _ Hin)) as (H1 & H2 & _). unfold th_ref. rewrite H1, H2. reflexivity.
  - destruct (finished_no_refs _ (Hd _ _ Hin)) as (H1 & _). congruence.
Qed.

Lemma map_empty_when_done_l : forall fx progs sched,
  all_done (run (step fx) sched (init progs)) -> s_map (sh (run (step fx) sched (init progs))) = [].
Proof. intros. apply inv_map_empty; auto. apply inv_reachable. Qed.
