(* (1) Implementation model of single-table SELECT (src/database/database.rs, PlanSource::TableScan
       arm of query_with_columns): the reference semantics (the projection fast-path defect it
       used to carry is repaired in /repo).
   (2) The recorded finding classes of property C19 as decidable predicates on a query, defined
       through the transcribed analyses of the optimizer (Model/ConstFold.v, Model/Pushdown.v).
   Definitions only.  Classes (known_findings.d/C19.json): 1-8 and 10 are fixed in /repo,
   9 (join nested in a join) is open. *)
From Coq Require Import ZArith List Bool.
From TV Require Import Model.SqlSpec Model.QuerySpec Model.ConstFold Model.Pushdown.
Import ListNotations.
Open Scope Z_scope.

(* ------------------------------------------------------------------ syntactic helpers *)
Definition col_of (e : expr) : option nat := match e with ECol i => Some i | _ => None end.
Fixpoint cols_of (l : list expr) : option (list nat) :=
  match l with
  | [] => Some []
  | e :: l' => match col_of e, cols_of l' with Some c, Some cs => Some (c :: cs) | _, _ => None end
  end.
Fixpoint nat_list_eqb (a b : list nat) : bool :=
  match a, b with
  | [], [] => true
  | x :: a', y :: b' => Nat.eqb x y && nat_list_eqb a' b'
  | _, _ => false
  end.
Fixpoint flatten_and (e : expr) : list expr :=
  match e with EAnd a b => flatten_and a ++ flatten_and b | _ => [e] end.
Definition col_col_eq (e : expr) : option (nat * nat) :=
  match e with ECmp CEq (ECol i) (ECol j) => Some (i, j) | _ => None end.
Fixpoint and_all (x : expr) (l : list expr) : expr :=
  match l with [] => x | y :: l' => and_all (EAnd x y) l' end.
Definition and_list (l : list expr) : option expr := match l with [] => None | x :: l' => Some (and_all x l') end.

(* ------------------------------------------------------------------ (1) single-table implementation model *)
(* Single-table SELECT (scan + FilterExec + ProjectExec) follows the reference semantics.
   Until /repo commit 84a97fb this model carried the projection fast path of query_with_columns:
   with no FilterExec in the plan (no WHERE, or a WHERE that folds to TRUE) and only plain columns
   in the select list, the scan was narrowed to the select-list columns while ProjectExec still
   indexed the row by table position (SELECT c1 FROM t returned NULLs; finding F-C19-1, class 1).
   The commit makes the narrowed scan deliver the select list directly; the model is the
   reference semantics again and class 1 is empty. *)
Definition impl_single (d : db) (q : query) : list orow := q_out d q.

(* ------------------------------------------------------------------ (2) classes of join queries *)
(* Classes 2-8 and 10 (SELECT * over a join, expression items, blind / outer-join pushdown, join
   condition lost by reordering, RIGHT / FULL unmatched rows projected by name, hash join residual,
   hash join -0.0 / 0.0) are repaired in /repo (commits b0661ca, ea8e0e0, 2cb4862, 0005072, 07d36f7,
   5934993, 755317f): their witnesses must now satisfy the property.  One class is open:
   9 = a join whose input is itself a join (executed by separate, simplified code). *)
Definition q_class (d : db) (q : query) : Z :=
  match q_from q with
  | FTab _ => 0
  | FJoin _ (FTab _) (FTab _) _ => 0
  | FJoin _ _ _ _ => 9
  end.
